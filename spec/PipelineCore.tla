---------------------------- MODULE PipelineCore ----------------------------
(* C43: one compilation as a run of the phase list (Pipeline.run_pipeline   *)
(* over Pipeline.create_pyx_pipeline) -- the pure part shared by the model  *)
(* (Pipeline.tla, explored by TLC) and the validator of recorded            *)
(* compilations (Pipeline_Trace.tla).                                       *)
(*                                                                          *)
(* kinds: sequence over {"parse", "xform", "abort", "codegen"}.             *)
(* Events                                                                   *)
(*   [e |-> "enter", p]            phase p is called                        *)
(*   [e |-> "error", c, w]         an error is COUNTED (Errors.report_error *)
(*                                 outside held-error sections); c = class  *)
(*                                 of the exception object ("CompileError", *)
(*                                 "CompilerCrash"), w = where it points:   *)
(*                                 "ok" (line/column inside the source      *)
(*                                 text), "marker" (no position and no      *)
(*                                 text: Context.parse's `raise             *)
(*                                 CompileError()` after parse errors),     *)
(*                                 "none" (no position), "foreign" (another *)
(*                                 file), "range" (outside the text)        *)
(*   [e |-> "exit", p]             phase p returned                         *)
(*   [e |-> "span", p, q]          shorthand: phases p..q were entered and  *)
(*                                 returned one after the other and no      *)
(*                                 error was counted meanwhile              *)
(*   [e |-> "raise", p, x, r]      phase p raised; x = "CompileError",      *)
(*                                 "CompilerCrash", "AbortError",           *)
(*                                 "InternalError", "Other"; r: the         *)
(*                                 exception object was reported already    *)
(*                                 (Scanner.error reports, then raises)     *)
(* The field n of every event is the error count after the event.           *)
(* Legal runs: phases are entered in order, none skipped; a phase returns   *)
(* or raises CompileError (run_pipeline reports it unless it was reported   *)
(* already) or -- abort_on_errors only, and only with errors counted --     *)
(* AbortError.  CompilerCrash / InternalError / any other exception, and a  *)
(* counted error of class CompilerCrash, are NOT events of a legal run.     *)
EXTENDS Integers, Sequences

St0 == [pc |-> 0, in |-> FALSE, nerr |-> 0, n0 |-> 0, npos |-> 0, status |-> "run", pending |-> FALSE, why |-> ""]
   \* pc: phases completed; in: inside phase pc+1; n0: errors counted when that phase was entered; npos: errors with a position inside the source
   \* status: "run" | "raised" (CompileError left a phase) | "aborted" | "bad" (why says which rule broke)
   \* pending: the raised CompileError still has to be reported by run_pipeline

Bad(st, why) == [st EXCEPT !.status = "bad", !.why = why]

Apply(st, ev, kinds) ==
  IF st.status = "bad" THEN st
  ELSE IF ev.e = "enter" THEN
     IF st.status # "run" \/ st.in \/ ev.p # st.pc + 1 \/ ev.p > Len(kinds) THEN Bad(st, "phase-order")
     ELSE IF ev.n # st.nerr THEN Bad(st, "error-count")
     ELSE IF kinds[ev.p] = "codegen" /\ st.nerr > 0 THEN Bad(st, "codegen-after-errors")
     ELSE [st EXCEPT !.in = TRUE, !.n0 = st.nerr]
  ELSE IF ev.e = "error" THEN
     IF ~(st.in \/ (st.status = "raised" /\ st.pending)) THEN Bad(st, "error-outside-phase")
     ELSE IF ev.n # st.nerr + 1 THEN Bad(st, "error-count")
     ELSE IF ev.c # "CompileError" THEN Bad(st, "crash-reported")
     ELSE IF ev.w = "marker" THEN
          (IF st.status = "raised" /\ st.npos >= 1 THEN [st EXCEPT !.nerr = @ + 1, !.pending = FALSE]
           ELSE Bad(st, "unpositioned-error"))
     ELSE IF ev.w = "none" THEN Bad(st, "unpositioned-error")
     ELSE IF ev.w # "ok" THEN Bad(st, "position-outside-source")
     ELSE [st EXCEPT !.nerr = @ + 1, !.npos = @ + 1, !.pending = FALSE]
  ELSE IF ev.e = "exit" THEN
     IF st.status # "run" \/ ~st.in \/ ev.p # st.pc + 1 THEN Bad(st, "phase-order")
     ELSE IF ev.n # st.nerr THEN Bad(st, "error-count")
     ELSE IF kinds[ev.p] = "abort" /\ st.nerr > 0 THEN Bad(st, "abort-missed")
     ELSE [st EXCEPT !.in = FALSE, !.pc = @ + 1]
  ELSE IF ev.e = "raise" THEN
     IF st.status # "run" \/ ~st.in \/ ev.p # st.pc + 1 THEN Bad(st, "phase-order")
     ELSE IF ev.x = "CompileError" THEN
          (IF ev.r /\ st.npos = 0 THEN Bad(st, "rejected-without-message")     \* "already reported", but nothing was counted
           ELSE [st EXCEPT !.in = FALSE, !.status = "raised", !.pending = ~ev.r])
     ELSE IF ev.x = "AbortError" THEN
          (IF kinds[ev.p] = "abort" /\ st.nerr > 0 THEN [st EXCEPT !.in = FALSE, !.status = "aborted"]
           ELSE Bad(st, "abort-unexpected"))
     ELSE IF ev.x = "CompilerCrash" THEN Bad(st, "crash-reported")
     ELSE IF ev.x = "InternalError" THEN Bad(st, "internal-error")
     ELSE Bad(st, "internal-exception")
  ELSE IF ev.e = "span" THEN
     \* shorthand for enter p, exit p, .., enter q, exit q with the error count n unchanged throughout
     IF st.status # "run" \/ st.in \/ ev.p # st.pc + 1 \/ ev.q < ev.p \/ ev.q > Len(kinds) THEN Bad(st, "phase-order")
     ELSE IF ev.n # st.nerr THEN Bad(st, "error-count")
     ELSE IF st.nerr > 0 /\ \E k \in ev.p..ev.q : kinds[k] \in {"abort", "codegen"} THEN
          LET k1 == CHOOSE k \in ev.p..ev.q : /\ kinds[k] \in {"abort", "codegen"}
                                               /\ \A j \in ev.p..(k - 1) : kinds[j] \notin {"abort", "codegen"}
          IN Bad([st EXCEPT !.pc = k1 - 1, !.in = (kinds[k1] = "abort"), !.n0 = st.nerr],
                 IF kinds[k1] = "abort" THEN "abort-missed" ELSE "codegen-after-errors")
     ELSE [st EXCEPT !.pc = ev.q, !.n0 = st.nerr]
  ELSE Bad(st, "unknown-event")

(* the two terminal situations of the property *)
Generated(st, kinds) == st.status = "run" /\ ~st.in /\ st.pc = Len(kinds) /\ st.nerr = 0
Rejected(st, kinds)  == /\ st.nerr > 0 /\ st.npos > 0 /\ ~st.in /\ ~st.pending
                        /\ \/ st.status \in {"raised", "aborted"}
                           \/ st.status = "run" /\ st.pc = Len(kinds)     \* errors during code generation

(* what the caller of Main.compile sees: fin = [nerr, cfile, stale, escaped, timeout, died, cc]   *)
(* cfile: result.c_file names a real (not castrated) C file; stale: a real C file was left on disk *)
(* although none is reported; cc: "accepted" | "rejected" | "unchecked" by the C/C++ compiler      *)
FinalWhy(st, fin, kinds) ==
  IF fin.died THEN "compiler-process-died"
  ELSE IF fin.timeout THEN "no-termination"
  ELSE IF st.status = "bad" THEN st.why
  ELSE IF fin.escaped # "" THEN "exception-escaped"
  ELSE IF fin.nerr # st.nerr THEN "error-count"
  ELSE IF Generated(st, kinds) THEN
       (IF ~fin.cfile THEN "no-c-file"
        ELSE IF fin.cc = "rejected" THEN "c-compiler-rejects"
        ELSE "")
  ELSE IF fin.cfile \/ fin.stale THEN "c-file-despite-errors"
  ELSE IF Rejected(st, kinds) THEN ""
  ELSE IF st.nerr = 0 \/ st.npos = 0 \/ st.pending THEN "rejected-without-message"
  ELSE "phase-order"

RECURSIVE Run(_, _, _, _)
Run(st, evs, i, kinds) == IF i > Len(evs) THEN st ELSE Run(Apply(st, evs[i], kinds), evs, i + 1, kinds)
=============================================================================
