----------------------------- MODULE CodeBuf -----------------------------
(* C49: the compiler's code buffer with insertion points                    *)
(* (Cython/StringIOTree.py + CCodeWriter.write/insertion_point/insert).     *)
(*                                                                          *)
(* Reference model  : `docs` -- per detached root a token list              *)
(*     <<Open h, ..fragments.., Open h2, .., Close h2, .., Close h>>        *)
(*   ("list of holes": writing to h puts the fragment right before Close h) *)
(* Implementation-shaped model : a forest of nodes with prepended children, *)
(*   a stream and a marker list, with commit() exactly as in the code.      *)
(* Invariant Agree : for every live handle, flattening its node gives the   *)
(*   fragments between its Open/Close tokens, each exactly once, and the    *)
(*   per-line markers line up with the newlines of that text.               *)
(* `hist` records each action with the expected observation of every live   *)
(* handle; leaves of the bounded exploration are printed for replay (B1).   *)
EXTENDS Naturals, Sequences, FiniteSets, TLC, Json, SequencesExt

CONSTANTS MaxH,      \* max number of handles (buffers)
          MaxLen,    \* history length bound
          NLs,       \* set of newline counts a written fragment may carry
          Poses,     \* set of source-position ids a writer may be marked with
          Dump,      \* TRUE: print every history of length MaxLen
          LineNums   \* the emit_linenums option of the writers (line directives)

VARIABLES docs,   \* reference: handle -> token sequence (<<>> when h is not a detached root)
          nh,     \* number of handles created so far (handles are 1..nh)
          mpos,   \* handle -> currently marked source position of its writer
          node,   \* impl: handle -> node id
          kids, strm, mark, nn,   \* impl: node -> children / stream / markers ; node counter
          nf,     \* fragments written so far (fragment ids are 1..nf)
          hist

impl == <<node, kids, strm, mark, nn>>
vars == <<docs, nh, mpos, node, kids, strm, mark, nn, nf, hist>>

Handles == 1..nh
Frag(id, nl, pos) == [t |-> "f", id |-> id, nl |-> nl, pos |-> pos]
Open(h)  == [t |-> "o", h |-> h]
Close(h) == [t |-> "c", h |-> h]

---------------------------------------------------------------------------
(* reference model *)
Roots == {r \in Handles : docs[r] # <<>>}
IndexOf(s, x) == CHOOSE i \in 1..Len(s) : s[i] = x
Has(s, x) == \E i \in 1..Len(s) : s[i] = x
RootOf(h) == CHOOSE r \in Roots : Has(docs[r], Close(h))
InsertBefore(s, x, ins) == LET i == IndexOf(s, x) IN SubSeq(s, 1, i - 1) \o ins \o SubSeq(s, i, Len(s))

Region(h) == LET d == docs[RootOf(h)] IN SubSeq(d, IndexOf(d, Open(h)) + 1, IndexOf(d, Close(h)) - 1)
FragsOf(s) == SelectSeq(s, LAMBDA x : x.t = "f")
RECURSIVE Rep(_, _)
Rep(x, n) == IF n = 0 THEN <<>> ELSE <<x>> \o Rep(x, n - 1)
RECURSIVE MarkersOf(_)
MarkersOf(s) == IF s = <<>> THEN <<>> ELSE Rep(Head(s).pos, Head(s).nl) \o MarkersOf(Tail(s))

RefValue(h)   == FragsOf(Region(h))
RefMarkers(h) == MarkersOf(RefValue(h))

---------------------------------------------------------------------------
(* implementation-shaped model: StringIOTree *)
RECURSIVE Flatten(_)
Flatten(n) == LET RECURSIVE F(_) F(ks) == IF ks = <<>> THEN <<>> ELSE Flatten(Head(ks)) \o F(Tail(ks))
              IN F(kids[n]) \o strm[n]
RECURSIVE AllMarkers(_)
AllMarkers(n) == LET RECURSIVE F(_) F(ks) == IF ks = <<>> THEN <<>> ELSE AllMarkers(Head(ks)) \o F(Tail(ks))
                 IN F(kids[n]) \o mark[n]

(* commit(): move the stream written so far into a new prepended child *)
Committed(n) ==
  IF strm[n] = <<>> THEN [kids |-> kids, strm |-> strm, mark |-> mark, nn |-> nn]
  ELSE LET m == nn + 1 IN
       [kids |-> [kids EXCEPT ![n] = Append(@, m), ![m] = <<>>],
        strm |-> [strm EXCEPT ![m] = strm[n], ![n] = <<>>],
        mark |-> [mark EXCEPT ![m] = mark[n], ![n] = <<>>],
        nn   |-> m]

---------------------------------------------------------------------------
Obs == [h \in Handles |-> [v |-> [i \in 1..Len(RefValue(h)) |-> RefValue(h)[i].id],
                           m |-> RefMarkers(h)]]

Log(op, h, a, b) == hist' = Append(hist, [op |-> op, h |-> h, a |-> a, b |-> b, exp |-> Obs'])

MaxNodes == 3 * MaxLen + MaxH + 2
Nodes == 1..MaxNodes

Init ==
  /\ nh = 1 /\ docs = [h \in 1..MaxH |-> IF h = 1 THEN <<Open(1), Close(1)>> ELSE <<>>]
  /\ mpos = [h \in 1..MaxH |-> 0]
  /\ node = [h \in 1..MaxH |-> IF h = 1 THEN 1 ELSE 0]
  /\ nn = 1
  /\ kids = [n \in Nodes |-> <<>>] /\ strm = [n \in Nodes |-> <<>>] /\ mark = [n \in Nodes |-> <<>>]
  /\ nf = 0 /\ hist = <<>>

(* CCodeWriter.write(s): one marker per newline, then append to the stream *)
Write(h, nl) ==
  LET f == Frag(nf + 1, nl, mpos[h]) r == RootOf(h) n == node[h] IN
  /\ nf' = nf + 1
  /\ docs' = [docs EXCEPT ![r] = InsertBefore(@, Close(h), <<f>>)]
  /\ strm' = [strm EXCEPT ![n] = Append(@, f)]
  /\ mark' = [mark EXCEPT ![n] = @ \o Rep(mpos[h], nl)]
  /\ UNCHANGED <<nh, mpos, node, kids, nn>>
  /\ Log("write", h, nl, mpos[h])

(* CCodeWriter.putln(code): with line directives on and a marked position the   *)
(* writer first emits "\n#line N "file"\n" (two newlines), then the code and   *)
(* "\n"; every emitted newline gets a marker.  One fragment with 3 (or 1) lines *)
PutLn(h) ==
  LET nl == IF LineNums /\ mpos[h] # 0 THEN 3 ELSE 1
      f == Frag(nf + 1, nl, mpos[h]) r == RootOf(h) n == node[h] IN
  /\ nf' = nf + 1
  /\ docs' = [docs EXCEPT ![r] = InsertBefore(@, Close(h), <<f>>)]
  /\ strm' = [strm EXCEPT ![n] = Append(@, f)]
  /\ mark' = [mark EXCEPT ![n] = @ \o Rep(mpos[h], nl)]
  /\ UNCHANGED <<nh, mpos, node, kids, nn>>
  /\ Log("putln", h, nl, mpos[h])

(* mark_pos: the writer's current source position changes *)
Mark(h, p) ==
  /\ p # mpos[h]
  /\ mpos' = [mpos EXCEPT ![h] = p]
  /\ UNCHANGED <<docs, nh, node, kids, strm, mark, nn, nf>>
  /\ Log("mark", h, p, 0)

(* insertion_point(): commit, leave a fresh child behind *)
InsertionPoint(h) ==
  LET h2 == nh + 1 r == RootOf(h) c == Committed(node[h]) m == c.nn + 1 IN
  /\ nh < MaxH
  /\ nh' = h2
  /\ docs' = [docs EXCEPT ![r] = InsertBefore(@, Close(h), <<Open(h2), Close(h2)>>)]
  /\ mpos' = [mpos EXCEPT ![h2] = mpos[h]]
  /\ node' = [node EXCEPT ![h2] = m]
  /\ nn' = m
  /\ kids' = [c.kids EXCEPT ![node[h]] = Append(@, m), ![m] = <<>>]
  /\ strm' = c.strm /\ mark' = c.mark
  /\ UNCHANGED nf
  /\ Log("ip", h, h2, 0)

(* new_writer(): a detached buffer, to be inserted later *)
NewTree(h) ==
  LET h2 == nh + 1 m == nn + 1 IN
  /\ nh < MaxH
  /\ nh' = h2
  /\ docs' = [docs EXCEPT ![h2] = <<Open(h2), Close(h2)>>]
  /\ mpos' = [mpos EXCEPT ![h2] = mpos[h]]
  /\ node' = [node EXCEPT ![h2] = m]
  /\ nn' = m
  /\ UNCHANGED <<kids, strm, mark, nf>>
  /\ Log("new", h, h2, 0)

(* insert(tree): commit, append the other tree as a child.  Documented      *)
(* precondition: the tree is detached and is not the one being written to.  *)
Insert(h, t) ==
  LET r == RootOf(h) c == Committed(node[h]) IN
  /\ t \in Roots /\ t # r
  /\ docs' = [docs EXCEPT ![r] = InsertBefore(@, Close(h), docs[t]), ![t] = <<>>]
  /\ kids' = [c.kids EXCEPT ![node[h]] = Append(@, node[t])]
  /\ strm' = c.strm /\ mark' = c.mark /\ nn' = c.nn
  /\ UNCHANGED <<nh, mpos, node, nf>>
  /\ Log("insert", h, t, 0)

Commit(h) ==
  LET c == Committed(node[h]) IN
  /\ strm[node[h]] # <<>>
  /\ kids' = c.kids /\ strm' = c.strm /\ mark' = c.mark /\ nn' = c.nn
  /\ UNCHANGED <<docs, nh, mpos, node, nf>>
  /\ Log("commit", h, 0, 0)

More == Len(hist) < MaxLen
DoWrite  == More /\ \E h \in Handles, nl \in NLs : Write(h, nl)
DoPutLn  == More /\ \E h \in Handles : PutLn(h)
DoMark   == More /\ \E h \in Handles, p \in Poses : Mark(h, p)
DoIP     == More /\ \E h \in Handles : InsertionPoint(h)
DoNew    == More /\ \E h \in Handles : NewTree(h)
DoInsert == More /\ \E h \in Handles, t \in Handles : Insert(h, t)
DoCommit == More /\ \E h \in Handles : Commit(h)
Next == DoWrite \/ DoPutLn \/ DoMark \/ DoIP \/ DoNew \/ DoInsert \/ DoCommit

Spec == Init /\ [][Next]_vars

---------------------------------------------------------------------------
(* properties *)
Agree == \A h \in Handles : /\ Flatten(node[h]) = RefValue(h)
                            /\ AllMarkers(node[h]) = RefMarkers(h)

(* every fragment written appears exactly once in exactly one document *)
RECURSIVE SumLen(_)
SumLen(S) == IF S = {} THEN 0 ELSE LET r == CHOOSE x \in S : TRUE IN Len(FragsOf(docs[r])) + SumLen(S \ {r})
ExactlyOnce == /\ SumLen(Roots) = nf
               /\ \A r \in Roots : LET fs == FragsOf(docs[r]) IN
                     \A i, j \in 1..Len(fs) : fs[i].id = fs[j].id => i = j

(* markers stay aligned: as many markers as newlines in the flattened text *)
RECURSIVE CountNL(_)
CountNL(s) == IF s = <<>> THEN 0 ELSE Head(s).nl + CountNL(Tail(s))
MarkersAligned == \A h \in Handles : Len(AllMarkers(node[h])) = CountNL(Flatten(node[h]))

(* an inner handle only shows its own subtree *)
OwnSubtreeOnly == \A h \in Handles : \A i \in 1..Len(Flatten(node[h])) :
                     Has(Region(h), Flatten(node[h])[i])

DumpLeaves == (Dump /\ Len(hist) = MaxLen) => PrintT("@@" \o ToJson(hist))

NoHistView == <<docs, nh, mpos, node, kids, strm, mark, nn, nf, Len(hist)>>
=============================================================================
