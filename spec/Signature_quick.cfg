SPECIFICATION Spec
CONSTANTS
  Modes = {"expr", "lit", "sig"}
  Names <- LvNames1
  Nums <- LvNums1
  Atoms <- NoneSet
  Opqs <- NoneSet
  LitTok = 2
  UnOps <- MinUn
  BinOps <- Bin7
  BoolOps <- AllBool
  CmpOps <- MinCmp
  ChainOps <- MinChain
  Ctors <- RepCtors
  MaxOps = 2
  MaxTok = 5
  MaxParams = 3
  MaxNest = 2
  Dump = TRUE
INVARIANT TypeOK
INVARIANT ExprOK
INVARIANT SigOK
CHECK_DEADLOCK FALSE
