SPECIFICATION Spec
CONSTANTS
  Part = "cast"
  Wide = FALSE
  Full = FALSE
  MaxLoop = 0
  Dump = TRUE
INVARIANT CastAgrees
INVARIANT CastIdentityInRange
INVARIANT PublishCast
CHECK_DEADLOCK FALSE
