SPECIFICATION Spec
CONSTANTS
  Part = "one"
  UNames <- UAll
  UNames3 <- UThor3
  MaxLen = 3
  ArgsOne <- AOneAll
  ArgsPair <- APairAll
INVARIANT TypeOK
INVARIANT RefPartial
INVARIANT RefConvOK
INVARIANT ImplAgrees
INVARIANT DeviationsExplained
INVARIANT StepsAreImplCall
CHECK_DEADLOCK FALSE
