SPECIFICATION Spec
CONSTANTS
  Mode = "model"
  Alpha = {97, 98}
  MaxLen = 1
  MaxAdds = 4
INVARIANT TypeOK
INVARIANT ModelOK
