SPECIFICATION Spec
CONSTANTS
  Types <- TChar
  Steps <- StepsBig
  GridOnly = FALSE
  Dump = TRUE
INVARIANT ImplFollowsRef
INVARIANT ImplAgreesOffHazards
INVARIANT HazardShape
INVARIANT Publish
