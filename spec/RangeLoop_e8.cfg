SPECIFICATION Spec
CONSTANTS
  Types <- TChar
  Steps <- StepsBig
  GridOnly = FALSE
  Dump = TRUE
  Cap = 300
INVARIANT ImplFollowsRef
INVARIANT ImplAgreesOffHazards
INVARIANT HazardShape
INVARIANT Publish
