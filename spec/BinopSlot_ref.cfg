SPECIFICATION Spec
CONSTANTS
  Pairs <- PairsFull
  AllPython = TRUE
  Dump = FALSE
INVARIANT RefShape
INVARIANT ImplAgrees
CHECK_DEADLOCK FALSE
