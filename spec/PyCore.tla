------------------------------- MODULE PyCore -------------------------------
(* C01 -- compiled pure-Python code behaves exactly like CPython.

   Reference semantics of a bounded mini-Python ("PyCore") as a big-step
   interpreter, plus the program family P01 as a grammar whose derivations are
   TLC states.

   A behaviour:  Init picks a program skeleton (which definitions exist, how many
   statements) -> Fill replaces the leftmost hole by one production of the
   grammar (one state per partial program) -> Seal (complete programs, selected
   by structural hash) executes the module body -> Call applies the entry
   function f to the next argument tuple on the *same* module state (globals
   persist between calls) and appends the expected observation to hist.
   The final state of every program is published (program tree + expected
   observations) and replayed three-way by harness/checks/c01.py
   (S = this spec, P = CPython exec of the rendered source, C = the same source
   compiled by Cython from the snapshot).

   Modelled language: functions with positional parameters and defaults,
   closures with variables captured by cell (late binding), global / nonlocal,
   class bodies (class scope is skipped by nested scopes; names bound in the class
   body are looked up class dict -> globals), instances, bound methods, instance
   and class attributes, lambdas, list / dict / set comprehensions and generator
   expressions with their own scope (first iterable evaluated outside, walrus binds
   in the enclosing function), augmented assignment on names / subscripts /
   attributes (in-place for lists), starred and nested unpacking, conditional
   expressions, and/or/not, walrus, for/break/continue, if, return, raise, and the
   builtins len abs min max sum sorted any all isinstance bool int str tuple
   list range.  Values: int, bool, str over {a, b}, None, tuple, list, dict, set,
   range, functions, classes, instances, bound methods, generators.

   Observation per call: (kind, type name, repr) of the result or (exception
   type, args when the program raised it itself), the log of L(.) calls, the
   repr of the module global g after the call. *)
EXTENDS Integers, Sequences, FiniteSets, TLC, Json, IOUtils, SequencesExt

CONSTANTS MaxS,      \* max. number of generated statements of f after the definitions
          EDepth,    \* depth budget of statement-level expression holes
          SDepth,    \* nesting budget of statements (if / for)
          Shapes,    \* definition shapes: subset of {"", "H", "L", "C", "HC", "LC"}
          Mod,       \* completed programs are kept when Hash(prog) % Mod = Rem
          NCalls,    \* argument tuples per program (prefix of CallSeq)
          NProg,     \* Sample mode: number of behaviours (one random derivation each); otherwise 1
          Sample,    \* TRUE: Fill takes one random production (RandomElement) instead of all of them
          Wide,      \* TRUE: full atom / operator pools; FALSE: reduced pools (exhaustive runs)
          Dump

VARIABLES prog,      \* program tree (with holes while phase = "gen")
          phase,     \* "gen" | "run"
          ms,        \* module state [heap, glob] after the calls so far
          hist,      \* expected observations, one per call
          ncall,
          pid        \* number of the behaviour (distinguishes the initial states in Sample mode)

vars == <<prog, phase, ms, hist, ncall, pid>>

Rem == IF "C01_REM" \in DOMAIN IOEnv THEN atoi(IOEnv.C01_REM) % Mod ELSE 0

Has(s, x) == \E k \in 1..Len(s) : s[k] = x

-----------------------------------------------------------------------------
(* Syntax trees: uniform records [t tag, s string, i int, p names, w names, a kids] *)

N(t, s, i, p, w, a) == [t |-> t, s |-> s, i |-> i, p |-> p, w |-> w, a |-> a]
Leaf(t, s, i) == N(t, s, i, <<>>, <<>>, <<>>)
Op(t, s, kids) == N(t, s, 0, <<>>, <<>>, kids)
Nm(x) == Leaf("name", x, 0)
IntL(k) == Leaf("int", "", k)
StrL(s) == Leaf("str", s, 0)
NoneL == Leaf("none", "", 0)
TrueL == Leaf("true", "", 0)
PassS == Leaf("pass", "", 0)
Block(ss) == Op("block", "", ss)
Assign(t, e) == Op("assign", "", <<t, e>>)
Ret(e) == Op("return", "", <<e>>)
CallN(f, args) == Op("call", "", <<f>> \o args)
(* a hole: s = sort, i = budget, p = readable names, w = writable names, a = flags (strings) *)
Hole(sort, d, p, w, fl) == N("hole", sort, d, p, w, fl)

-----------------------------------------------------------------------------
(* The grammar of the program family P01.

   Expression holes are typed by intent -- I (an int is wanted), Q (a sequence is wanted), A (anything; also
   truth tests) -- so that programs fail only where the *arguments* have the wrong type: every name (a, b, x, y, g,
   parameters, attributes) may stand in any hole.  A hole carries its depth budget, the readable and writable names
   of its scope, and flags: scope kind (f, h, lam, c class body, m method), loop, ret, comp, H (h is callable),
   C (class C and instance o exist). *)

FNames == <<"a", "b", "x", "y", "g">>
HNames == FNames \o <<"p", "q">>
MNames == FNames \o <<"p">>

HasFlag(h, f) == Has(h.a, f)

Tuple0 == Op("tuple", "", <<>>)
ConstT == Op("tuple", "", <<IntL(2), IntL(1)>>)
IsTypes == IF Wide THEN {"int", "str", "tuple", "list", "bool"} ELSE {"int", "tuple"}

(* atoms of unknown type: names and attributes.  To keep a fair share of the calls free of type errors, int-wanting
   holes prefer a, x, g and o.w, sequence-wanting holes prefer b, y and the class attribute v; A holes take everything *)
NotForI == {"b", "y"}
NotForQ == {"a", "x", "g"}
SortOf(n) == IF n \in NotForQ THEN "I" ELSE IF n \in NotForI THEN "Q" ELSE "A"
NameAtoms(h) ==
    {Nm(x) : x \in (Range(h.p) \ (IF h.s = "I" THEN NotForI ELSE IF h.s \in {"Q", "P", "PP"} THEN NotForQ ELSE {}))
                     \ (IF Wide THEN {} ELSE {"x", "y", "g"})}
    \cup (IF HasFlag(h, "C") /\ h.s \in {"I", "A"} THEN {Op("attr", "w", <<Nm("o")>>)} ELSE {})
    \cup (IF HasFlag(h, "C") /\ h.s \in {"Q", "A"} THEN {Op("attr", "v", <<Nm("o")>>), Op("attr", "v", <<Nm("C")>>)} ELSE {})
    \cup (IF HasFlag(h, "m") /\ h.s \in {"I", "A"} THEN {Op("attr", "w", <<Nm("self")>>)} ELSE {})
    \cup (IF HasFlag(h, "m") /\ h.s \in {"Q", "A"} THEN {Op("attr", "v", <<Nm("self")>>)} ELSE {})

EProds(h) ==
    LET d == h.i
        E(s) == Hole(s, d - 1, h.p, h.w, h.a)
        I == E("I")
        Q == E("Q")
        A == E("A")
        P == E("P")
        \* := to a name whose role fits the hole
        WFor(s) == {n \in Range(h.w) : SortOf(n) \in {s, "A"}}
        incomp == HasFlag(h, "comp")
        \* parts of comprehensions: the element sees the iteration variable, the iterable cannot contain :=
        El(s) == Hole(s, d - 1, h.p \o <<"j">>, IF HasFlag(h, "c") THEN <<>> ELSE h.w, h.a \o <<"comp">>)
        It == Hole("Q", d - 1, h.p, <<>>, h.a)
        Comp(kind, elt, cond) == N("comp", kind, 0, <<"j">>, <<>>, <<elt, It, cond>>)
        Conds == IF Wide THEN {TrueL, El("A")} ELSE {TrueL}
        LamNames == IF HasFlag(h, "c") THEN SelectSeq(h.p, LAMBDA x : x # "v") ELSE h.p
        Lam(s) == CallN(N("lambda", "", 0, <<"p">>, <<>>, <<Hole(s, d - 1, LamNames \o <<"p">>, <<>>, <<"lam">>)>>), <<E(s)>>)
        TupOf(e) == CallN(Nm("tuple"), <<e>>)
        UserCalls == (IF HasFlag(h, "H") THEN {CallN(Nm("h"), <<A>>), CallN(Nm("h"), <<A, A>>)}
                                              \cup (IF Wide THEN {CallN(Nm("h"), <<>>)} ELSE {}) ELSE {})
                     \cup (IF HasFlag(h, "C") THEN {CallN(Op("attr", "m", <<Nm("o")>>), <<A>>)} ELSE {})
    IN  CASE h.s = "I" ->
               (IF Wide THEN {IntL(0), IntL(1), IntL(2)} ELSE {IntL(1)}) \cup NameAtoms(h)
               \cup (IF d <= 0 THEN {} ELSE
                     {Op("bin", o, <<I, I>>) : o \in {"+", "-", "*", "//"}}
                     \cup {Op("neg", "", <<I>>), Op("cond", "", <<A, I, I>>), Op("log", "", <<I>>), Op("sub", "", <<Q, I>>),
                           CallN(Nm("len"), <<Q>>), CallN(Nm("abs"), <<I>>), CallN(Nm("int"), <<A>>), CallN(Nm("sum"), <<Q>>),
                           CallN(Nm("min"), <<I, I>>), CallN(Nm("max"), <<I, I>>), CallN(Nm("max"), <<Q>>), Lam("I")}
                     \cup {Op("walrus", n, <<I>>) : n \in WFor("I")}
                     \cup UserCalls
                     \cup (IF incomp THEN {} ELSE
                           {CallN(Nm("sum"), <<Comp("gen", El("I"), c)>>) : c \in Conds}
                           \cup {CallN(Nm("len"), <<Comp("set", El("A"), TrueL)>>), CallN(Nm("min"), <<Comp("gen", El("I"), TrueL)>>)}))
          [] h.s = "Q" ->
               (IF Wide THEN {Tuple0, ConstT, StrL("b")} ELSE {ConstT}) \cup NameAtoms(h)
               \cup (IF d <= 0 THEN {} ELSE
                     {Op("tuple", "", <<A, A>>), Op("tuple", "", <<A>>), Op("list", "", <<A, A>>),
                      Op("bin", "+", <<TupOf(Q), TupOf(Q)>>), Op("bin", "+", <<CallN(Nm("list"), <<Q>>), Op("list", "", <<A>>)>>),
                      Op("bin", "*", <<Q, I>>), Op("cond", "", <<A, Q, Q>>), Op("log", "", <<Q>>),
                      TupOf(Q), CallN(Nm("list"), <<Q>>), CallN(Nm("sorted"), <<Q>>), CallN(Nm("range"), <<I>>)}
                     \cup (IF Wide THEN {Op("bin", "+", <<Q, Q>>)} ELSE {})
                     \cup {Op("walrus", n, <<Q>>) : n \in WFor("Q")}
                     \cup (IF incomp THEN {} ELSE
                           {Comp("list", El("A"), c) : c \in Conds}
                           \cup {CallN(Nm(b), <<Comp("gen", El("A"), c)>>) : b \in {"tuple", "list"}, c \in Conds}
                           \cup {Comp("dict", Op("pair", "", <<El("A"), El("A")>>), TrueL),
                                 CallN(Nm("sorted"), <<Comp("gen", El("I"), TrueL)>>),
                                 CallN(Nm("sorted"), <<Comp("set", El("I"), TrueL)>>),
                                 \* closures created in a comprehension share the iteration variable
                                 Comp("list", N("lambda", "", 0, <<>>, <<>>, <<Nm("j")>>), TrueL)}
                           \cup (IF HasFlag(h, "c") THEN {} ELSE
                                 {Comp("list", CallN(N("lambda", "", 0, <<>>, <<>>, <<Nm("j")>>), <<>>), TrueL)})))
          [] h.s = "P" ->        \* a sequence of two items
               {ConstT} \cup NameAtoms(h)
               \cup {Op("tuple", "", <<Hole("A", d, h.p, h.w, h.a), Hole("A", d, h.p, h.w, h.a)>>),
                     Op("list", "", <<Hole("A", d, h.p, h.w, h.a), Hole("A", d, h.p, h.w, h.a)>>)}
               \cup (IF d <= 0 THEN {} ELSE
                     {Op("cond", "", <<A, P, P>>), Op("log", "", <<P>>), Op("bin", "*", <<Op("tuple", "", <<A>>), IntL(2)>>),
                      CallN(Nm("sorted"), <<P>>), TupOf(P)}
                     \cup {Op("walrus", n, <<P>>) : n \in WFor("Q")}
                     \cup (IF incomp THEN {} ELSE {Comp("list", El("A"), TrueL)}))       \* over a two-item iterable with luck
          [] h.s = "PP" ->       \* ((.., ..), ..)
               {Op("tuple", "", <<Hole("P", d, h.p, h.w, h.a), Hole("A", d, h.p, h.w, h.a)>>),
                Op("list", "", <<Hole("P", d, h.p, h.w, h.a), Hole("A", d, h.p, h.w, h.a)>>)}
               \cup (IF Wide THEN NameAtoms(h) ELSE {})
          [] h.s = "A" ->
               (IF Wide THEN {NoneL, IntL(1), StrL("b")} ELSE {NoneL}) \cup NameAtoms(h)
               \cup (IF d <= 0 THEN {} ELSE
                     {Hole("I", d, h.p, h.w, h.a), Hole("Q", d, h.p, h.w, h.a),
                      Op("bin", "<", <<I, I>>), Op("bin", "==", <<A, A>>), Op("bin", "in", <<A, Q>>),
                      Op("bin", "in", <<I, Op("tuple", "", <<I, I>>)>>),        \* membership in a display
                      Op("not", "", <<A>>), Op("and", "", <<A, A>>), Op("or", "", <<A, A>>), Op("cond", "", <<A, A, A>>),
                      CallN(Nm("any"), <<Q>>), CallN(Nm("all"), <<Q>>), CallN(Nm("bool"), <<A>>), Op("sub", "", <<Q, I>>),
                      Lam("A")}
                     \cup (IF Wide THEN {Op("attr", "w", <<A>>), Op("bin", "<", <<A, A>>)} ELSE {})
                     \cup {CallN(Nm("isinstance"), <<A, Nm(ty)>>) : ty \in IsTypes}
                     \cup {Op("walrus", n, <<A>>) : n \in WFor("A")}
                     \cup UserCalls
                     \cup (IF HasFlag(h, "C") /\ Wide THEN {Op("attr", "u", <<Nm("o")>>)} ELSE {})
                     \cup (IF incomp THEN {} ELSE
                           {CallN(Nm(b), <<Comp("gen", El("A"), c)>>) : b \in {"any", "all"}, c \in Conds}))

Tup(ts) == Op("tup", "", ts)
Star(t) == Op("star", "", <<t>>)

(* statement holes: "S" first narrows to a category (plain / augmented assignment, unpacking, item and attribute
   targets, control flow), so that every category keeps a fair share of the random derivations *)
SProds(h) ==
    LET EH(s) == Hole(s, EDepth, h.p, h.w, h.a)
        I0 == Hole("I", 0, h.p, <<>>, h.a)
        W == Range(h.w)
        S1 == Hole("S", h.i - 1, h.p, h.w, h.a)
        lv == IF HasFlag(h, "f") THEN "i" ELSE "q"
        LoopBody == Hole("S", h.i - 1, IF Has(h.p, lv) THEN h.p ELSE h.p \o <<lv>>, h.w, IF HasFlag(h, "loop") THEN h.a ELSE h.a \o <<"loop">>)
        Pairs == {<<m, n>> \in W \X W : m # n}
        Lst == Op("list", "", <<EH("A"), EH("A")>>)
        Cat(c) == Hole(c, h.i, h.p, h.w, h.a)
        Control == (IF HasFlag(h, "ret") THEN {Ret(EH("A"))} ELSE {})
                   \cup (IF HasFlag(h, "loop") THEN {Leaf("break", "", 0), Leaf("continue", "", 0)} ELSE {})
                   \cup (IF h.i > 0 THEN {Op("if", "", <<EH("A"), S1, S1>>), Op("if", "", <<EH("A"), S1, PassS>>)} ELSE {})
                   \cup (IF h.i > 0 /\ (HasFlag(h, "f") \/ HasFlag(h, "h")) THEN {Op("for", "", <<Nm(lv), EH("Q"), LoopBody>>)} ELSE {})
                   \cup {Op("expr", "", <<Op("log", "", <<EH("A")>>)>>)}
                   \cup (IF Wide THEN {Op("raise", "ValueError", <<EH("A")>>)} ELSE {})
    IN  CASE h.s = "S" -> {Cat("Sa"), Cat("Sg"), Cat("Sc")} \cup (IF Cardinality(W) >= 2 THEN {Cat("Su")} ELSE {}) \cup {Cat("Si")}
          [] h.s = "Sa" ->
                {Assign(Nm(n), EH(SortOf(n))) : n \in W}
                \cup (IF Wide THEN {Assign(Nm(n), EH("A")) : n \in W} ELSE {})
          [] h.s = "Sg" ->
                {Op("aug", o, <<Nm(n), EH("I")>>) : o \in {"+", "-", "*"}, n \in {m \in W : SortOf(m) # "Q"}}
                \cup {Op("aug", "+", <<Nm(n), EH("Q")>>) : n \in {m \in W : SortOf(m) # "I"}}
                \cup {Op("aug", "*", <<Nm(n), EH("I")>>) : n \in {m \in W : SortOf(m) = "Q"}}
          [] h.s = "Su" ->
                {Assign(Tup(<<Nm(pr[1]), Nm(pr[2])>>), EH("P")) : pr \in Pairs}
                \cup {Assign(Tup(<<Nm(pr[1]), Star(Nm(pr[2]))>>), EH("P")) : pr \in Pairs}
                \cup {Assign(Tup(<<Star(Nm(pr[1])), Nm(pr[2])>>), EH("P")) : pr \in Pairs}
                \cup (IF Wide THEN {Assign(Tup(<<Nm(pr[1]), Star(Nm(pr[2]))>>), EH("Q")) : pr \in Pairs} ELSE {})
                \cup {Assign(Tup(<<Tup(<<Nm(pr[1]), Nm(pr[2])>>), Nm(pr[1])>>), EH("PP")) : pr \in Pairs}
          [] h.s = "Si" ->
                \* n = [.., ..]; n[k] = ..   /   n[k] += ..   (item assignment needs a list)
                {Block(<<Assign(Nm(n), Lst), Assign(Op("sub", "", <<Nm(n), I0>>), EH("A"))>>) : n \in W}
                \cup {Block(<<Assign(Nm(n), Lst), Op("aug", "+", <<Op("sub", "", <<Nm(n), I0>>), EH("I")>>)>>) : n \in W}
                \cup (IF Wide THEN {Assign(Op("sub", "", <<Nm(n), I0>>), EH("A")) : n \in W} ELSE {})
                \cup (IF HasFlag(h, "C") THEN {Assign(Op("attr", "w", <<Nm("o")>>), EH("I")), Assign(Op("attr", "v", <<Nm("o")>>), EH("Q")),
                                               Op("aug", "+", <<Op("attr", "w", <<Nm("o")>>), EH("I")>>),
                                               Op("aug", "+", <<Op("attr", "v", <<Nm("C")>>), EH("Q")>>),
                                               Op("aug", "*", <<Op("attr", "v", <<Nm("o")>>), EH("I")>>)} ELSE {})
                \cup (IF HasFlag(h, "m") THEN {Assign(Op("attr", "w", <<Nm("self")>>), EH("I")),
                                               Op("aug", "+", <<Op("attr", "v", <<Nm("self")>>), EH("Q")>>)} ELSE {})
          [] h.s = "Sc" -> Control

(* def h(p, q=<atom>): [decl]; <0..1 statements>; return <expr>      or      h = lambda p, q=<atom>: <expr> *)
DHProds(h) ==
    LET Dflt == Hole("A", 0, FNames, <<>>, <<"f">>)
        Body(decl, k) ==
            LET w == IF decl = <<>> THEN <<"q", "p">> ELSE <<"q", decl[2]>>
                SH == Hole("S", SDepth, HNames, w, <<"h", "ret">>)
                RH == Hole("A", EDepth, HNames, w, <<"h", "ret">>)
            IN  Block((IF k = 1 THEN <<SH>> ELSE <<>>) \o <<Ret(RH)>>)
    IN  IF h.s = "DL"
        THEN {Assign(Nm("h"), N("lambda", "", 0, <<"p", "q">>, <<>>, <<Hole("A", EDepth, HNames, <<>>, <<"lam">>), Dflt>>))}
        ELSE {N("def", "h", 0, <<"p", "q">>, decl, <<Body(decl, k), Dflt>>) :
                 decl \in {<<>>, <<"nonlocal", "x">>, <<"global", "g">>}, k \in {0, 1}}

(* class C: v = <expr>; [u = <expr over v>]; [def __init__(self, p): self.w = <expr>]; def m(self, p): ...;   o = C(..) *)
DCProds(h) ==
    LET hf == IF HasFlag(h, "H") THEN <<"H">> ELSE <<>>
        CE(srt, names) == Hole(srt, EDepth, names, <<>>, <<"c">> \o hf)
        MFl == <<"m", "ret">> \o hf
        InitD == N("def", "__init__", 0, <<"self", "p">>, <<>>,
                   <<Block(<<Assign(Op("attr", "w", <<Nm("self")>>), Hole("I", EDepth, MNames, <<"p">>, MFl))>>)>>)
        Meth(decl, k) ==
            LET w == IF decl = <<>> THEN <<"p">> ELSE <<"p", decl[2]>>
            IN  N("def", "m", 0, <<"self", "p">>, decl,
                  <<Block((IF k = 1 THEN <<Hole("S", 0, MNames, w, MFl)>> ELSE <<>>) \o <<Ret(Hole("A", EDepth, MNames, w, MFl))>>)>>)
        Cls(u, ini, decl, k) ==
            N("class", "C", 0, <<>>, <<>>,
              <<Block(<<Assign(Nm("v"), CE("Q", FNames))>>
                      \o (IF u THEN <<Assign(Nm("u"), CE("A", FNames \o <<"v">>))>> ELSE <<>>)
                      \o (IF ini THEN <<InitD>> ELSE <<>>)
                      \o <<Meth(decl, k)>>)>>)
        Mk(ini) == Assign(Nm("o"), CallN(Nm("C"), IF ini THEN <<Hole("I", 0, FNames, <<>>, <<"f">>)>> ELSE <<>>))
    IN  {Block(<<Cls(u, ini, decl, k), Mk(ini)>>) :
            u \in BOOLEAN, ini \in BOOLEAN, decl \in {<<>>, <<"nonlocal", "x">>}, k \in {0, 1}}

Prods(h) == CASE h.s \in {"I", "Q", "A", "P", "PP"} -> EProds(h)
              [] h.s \in {"S", "Sa", "Sg", "Su", "Si", "Sc"} -> SProds(h)
              [] h.s \in {"DH", "DL"} -> DHProds(h)
              [] h.s = "DC" -> DCProds(h)

(* def f(a, b): global g; x = a; y = b; <definitions>; <ns statements>; return (x, y) *)
Skeleton(shape, ns) ==
    LET hasH == shape \in {"H", "L", "HC", "LC"}
        hasC == shape \in {"C", "HC", "LC"}
        fl == <<"f">> \o (IF hasH THEN <<"H">> ELSE <<>>) \o (IF hasC THEN <<"C">> ELSE <<>>)
        dh == IF shape \in {"H", "HC"} THEN <<Hole("DH", 0, <<>>, <<>>, <<"f">>)>>
              ELSE IF shape \in {"L", "LC"} THEN <<Hole("DL", 0, <<>>, <<>>, <<"f">>)>> ELSE <<>>
        dc == IF hasC THEN <<Hole("DC", 0, <<>>, <<>>, IF hasH THEN <<"f", "H">> ELSE <<"f">>)>> ELSE <<>>
        ss == [k \in 1..ns |-> Hole("S", SDepth, FNames, <<"x", "y", "g">>, fl)]
    IN  N("def", "f", 0, <<"a", "b">>, <<"global", "g">>,
          <<Block(<<Assign(Nm("x"), Nm("a")), Assign(Nm("y"), Nm("b"))>> \o dh \o dc \o ss
                  \o <<Ret(Op("tuple", "", <<Nm("x"), Nm("y")>>))>>)>>)

RECURSIVE HasHole(_)
HasHole(n) == IF n.t = "hole" THEN TRUE ELSE \E k \in 1..Len(n.a) : HasHole(n.a[k])

(* path (child indexes) to the leftmost hole; <<>> when n itself is the hole *)
RECURSIVE HolePath(_)
HolePath(n) == IF n.t = "hole" THEN <<>>
               ELSE LET k == CHOOSE j \in 1..Len(n.a) : HasHole(n.a[j]) /\ \A m \in 1..(j - 1) : ~HasHole(n.a[m])
                    IN  <<k>> \o HolePath(n.a[k])
RECURSIVE NodeAt(_, _, _)
NodeAt(n, path, k) == IF k > Len(path) THEN n ELSE NodeAt(n.a[path[k]], path, k + 1)
RECURSIVE FillAt(_, _, _, _)
FillAt(n, path, k, sub) == IF k > Len(path) THEN sub ELSE [n EXCEPT !.a[path[k]] = FillAt(n.a[path[k]], path, k + 1, sub)]


(* structural hash (sampling of completed programs) *)
Strs == <<"", "name", "int", "str", "none", "true", "pass", "block", "assign", "return", "call", "hole", "bin", "not", "neg",
          "and", "or", "cond", "tuple", "list", "sub", "log", "attr", "walrus", "lambda", "comp", "pair", "tup", "star",
          "aug", "expr", "raise", "if", "for", "break", "continue", "def", "class", "gen", "dict", "set",
          "a", "b", "x", "y", "g", "p", "q", "i", "j", "h", "o", "C", "v", "w", "u", "m", "self", "f", "__init__",
          "+", "-", "*", "//", "<", "==", "in", "len", "abs", "sum", "sorted", "any", "all", "bool", "int", "tuple", "list",
          "min", "max", "range", "isinstance", "ValueError", "nonlocal", "global">>
Idx(s) == CHOOSE k \in 1..Len(Strs) : Strs[k] = s

RECURSIVE Hash(_)
RECURSIVE HashKids(_, _, _)
HashKids(kids, k, acc) == IF k > Len(kids) THEN acc ELSE HashKids(kids, k + 1, (acc * 31 + Hash(kids[k]) + k) % 65521)
Hash(n) == HashKids(n.a, 1, (Idx(n.t) * 131 + Idx(n.s) * 17 + (n.i + 7) * 3 + Len(n.p) + Len(n.w)) % 65521)

-----------------------------------------------------------------------------
(* Static scope analysis (what the CPython symbol table computes) *)

RECURSIVE W(_)          \* names bound by := in tree n that belong to the current scope
W(n) == IF n.t = "walrus" THEN {n.s} \cup W(n.a[1])
        ELSE IF n.t \in {"lambda", "def"} THEN UNION {W(n.a[k]) : k \in 2..Len(n.a)}     \* only the defaults
        ELSE IF n.t \in {"class", "hole"} THEN {}
        ELSE UNION {W(n.a[k]) : k \in 1..Len(n.a)}

RECURSIVE TargetNames(_)
TargetNames(t) == IF t.t = "name" THEN {t.s}
                  ELSE IF t.t \in {"tup", "star"} THEN UNION {TargetNames(t.a[k]) : k \in 1..Len(t.a)}
                  ELSE {}

RECURSIVE Binds(_)      \* names bound by statement n in the current scope
Binds(n) == CASE n.t \in {"assign", "aug"} -> TargetNames(n.a[1]) \cup W(n.a[1]) \cup W(n.a[2])
              [] n.t = "for" -> TargetNames(n.a[1]) \cup W(n.a[2]) \cup Binds(n.a[3])
              [] n.t = "if" -> W(n.a[1]) \cup Binds(n.a[2]) \cup Binds(n.a[3])
              [] n.t = "block" -> UNION {Binds(n.a[k]) : k \in 1..Len(n.a)}
              [] n.t = "def" -> {n.s} \cup W(n)
              [] n.t = "class" -> {n.s}
              [] OTHER -> W(n)

Declared(fn) == IF fn.decl = <<>> THEN {} ELSE {fn.decl[2]}
GlobDecl(fn) == IF fn.decl # <<>> /\ fn.decl[1] = "global" THEN {fn.decl[2]} ELSE {}
LocalsOf(fn) == IF fn.lam THEN Range(fn.ps) \cup W(fn.code)
                ELSE (Range(fn.ps) \cup Binds(fn.code)) \ Declared(fn)

AllVarNames == <<"a", "b", "x", "y", "g", "p", "q", "i", "j", "h", "o", "C", "self", "v", "w", "u", "m", "__init__", "f">>

-----------------------------------------------------------------------------
(* Values and heap objects *)

V(k, i, s, e) == [k |-> k, i |-> i, s |-> s, e |-> e]
VInt(n) == V("int", n, "", <<>>)
VBool(b) == V("bool", IF b THEN 1 ELSE 0, "", <<>>)
VStr(s) == V("str", 0, s, <<>>)
VNone == V("none", 0, "", <<>>)
VTuple(e) == V("tuple", 0, "", e)
VRef(a) == V("ref", a, "", <<>>)
VBi(n) == V("bi", 0, n, <<>>)
VBm(fn, self) == V("bm", fn, "", <<self>>)
VRange(n) == V("range", n, "", <<>>)
IsInt(v) == v.k \in {"int", "bool"}

EmptyD == [n \in {} |-> VNone]
SetD(d, n, v) == IF n \in DOMAIN d THEN [d EXCEPT ![n] = v] ELSE d @@ (n :> v)
NoIter == [k |-> "seq", items |-> <<>>, ref |-> 0, idx |-> 0]
Obj0 == [k |-> "", v |-> VNone, set |-> FALSE, e |-> <<>>, nm |-> "", ps |-> <<>>, df |-> <<>>, code |-> PassS,
         env |-> <<>>, d |-> EmptyD, cls |-> 0, lam |-> FALSE, decl |-> <<>>, it |-> NoIter]
Cell(v, isset) == [Obj0 EXCEPT !.k = "cell", !.v = v, !.set = isset]

Builtins == {"len", "abs", "sum", "sorted", "any", "all", "bool", "int", "str", "tuple", "list", "min", "max", "range", "isinstance"}
MaxLen == 40
MaxInt == 1000000

KindOf(v, hp) == IF v.k = "ref" THEN hp[v.i].k ELSE v.k
IsList(v, hp) == v.k = "ref" /\ hp[v.i].k = "list"

TypeName(v, hp) ==
    LET k == KindOf(v, hp)
    IN  CASE k = "none" -> "NoneType" [] k = "inst" -> "obj" [] OTHER -> k

RECURSIVE Repr(_, _, _)
RECURSIVE JoinFrom(_, _, _, _)
JoinFrom(s, k, hp, d) == IF k > Len(s) THEN ""
                         ELSE Repr(s[k], hp, d) \o (IF k < Len(s) THEN ", " ELSE "") \o JoinFrom(s, k + 1, hp, d)
RECURSIVE JoinPairs(_, _, _, _)
JoinPairs(s, k, hp, d) == IF k > Len(s) THEN ""
                          ELSE Repr(s[k].e[1], hp, d) \o ": " \o Repr(s[k].e[2], hp, d) \o (IF k < Len(s) THEN ", " ELSE "")
                               \o JoinPairs(s, k + 1, hp, d)
(* "@" marks a representation the model does not decide (cyclic / too deep, sets) *)
Repr(v, hp, d) ==
    IF d = 0 THEN "@"
    ELSE CASE v.k = "int" -> ToString(v.i)
           [] v.k = "bool" -> IF v.i = 1 THEN "True" ELSE "False"
           [] v.k = "str" -> "'" \o v.s \o "'"
           [] v.k = "none" -> "None"
           [] v.k = "tuple" -> IF Len(v.e) = 1 THEN "(" \o Repr(v.e[1], hp, d - 1) \o ",)"
                               ELSE "(" \o JoinFrom(v.e, 1, hp, d - 1) \o ")"
           [] v.k = "range" -> "range(0, " \o ToString(v.i) \o ")"
           [] v.k = "bi" -> "<bi>"
           [] v.k = "bm" -> "<bm>"
           [] v.k = "ref" ->
                LET o == hp[v.i]
                IN  CASE o.k = "list" -> "[" \o JoinFrom(o.e, 1, hp, d - 1) \o "]"
                      [] o.k = "dict" -> "{" \o JoinPairs(o.e, 1, hp, d - 1) \o "}"
                      [] o.k = "set" -> "@"
                      [] o.k = "fn" -> "<fn>"
                      [] o.k = "cls" -> "<cls>"
                      [] o.k = "inst" -> "<obj>"
                      [] o.k = "gen" -> "<gen>"
                      [] OTHER -> "@"
HasAt(s) == \E k \in 1..Len(s) : SubSeq(s, k, k) = "@"
ReprTop(v, hp) == Repr(v, hp, 6)

Truth(v, hp) ==
    CASE IsInt(v) -> v.i # 0
      [] v.k = "str" -> v.s # ""
      [] v.k = "none" -> FALSE
      [] v.k = "tuple" -> v.e # <<>>
      [] v.k = "range" -> v.i > 0
      [] v.k = "ref" -> IF hp[v.i].k \in {"list", "dict", "set"} THEN hp[v.i].e # <<>> ELSE TRUE
      [] OTHER -> TRUE

RECURSIVE PyEq(_, _, _)
SeqEq(x, y, hp) == Len(x) = Len(y) /\ \A k \in 1..Len(x) : PyEq(x[k], y[k], hp)
PyEq(a, b, hp) ==
    IF IsInt(a) /\ IsInt(b) THEN a.i = b.i
    ELSE IF a.k # b.k THEN FALSE
    ELSE CASE a.k = "str" -> a.s = b.s
           [] a.k = "none" -> TRUE
           [] a.k = "tuple" -> SeqEq(a.e, b.e, hp)
           [] a.k = "range" -> (a.i <= 0 /\ b.i <= 0) \/ a.i = b.i
           [] a.k = "bi" -> a.s = b.s
           [] a.k = "bm" -> a.i = b.i /\ a.e = b.e
           [] a.k = "ref" ->
                IF a.i = b.i THEN TRUE
                ELSE LET x == hp[a.i]
                         y == hp[b.i]
                     IN  IF x.k = "list" /\ y.k = "list" THEN SeqEq(x.e, y.e, hp)
                         ELSE IF x.k = "dict" /\ y.k = "dict"
                         THEN Len(x.e) = Len(y.e) /\ \A i \in 1..Len(x.e) : \E j \in 1..Len(y.e) :
                                  PyEq(x.e[i].e[1], y.e[j].e[1], hp) /\ PyEq(x.e[i].e[2], y.e[j].e[2], hp)
                         ELSE IF x.k = "set" /\ y.k = "set"
                         THEN Len(x.e) = Len(y.e) /\ \A i \in 1..Len(x.e) : \E j \in 1..Len(y.e) : PyEq(x.e[i], y.e[j], hp)
                         ELSE FALSE
           [] OTHER -> FALSE

CharCode(c) == IF c = "a" THEN 1 ELSE 2
StrLt(s, t) == LET D == {k \in 1..(IF Len(s) < Len(t) THEN Len(s) ELSE Len(t)) : SubSeq(s, k, k) # SubSeq(t, k, k)}
               IN  IF D = {} THEN Len(s) < Len(t)
                   ELSE LET k == CHOOSE m \in D : \A m2 \in D : m <= m2
                        IN  CharCode(SubSeq(s, k, k)) < CharCode(SubSeq(t, k, k))
TF(b) == IF b THEN "T" ELSE "F"

RECURSIVE PyLt(_, _, _)         \* "T" | "F" | "E" (TypeError)
SeqLt(x, y, hp) == LET D == {k \in 1..(IF Len(x) < Len(y) THEN Len(x) ELSE Len(y)) : ~PyEq(x[k], y[k], hp)}
                   IN  IF D = {} THEN TF(Len(x) < Len(y))
                       ELSE LET k == CHOOSE m \in D : \A m2 \in D : m <= m2
                            IN  PyLt(x[k], y[k], hp)
PyLt(a, b, hp) ==
    IF IsInt(a) /\ IsInt(b) THEN TF(a.i < b.i)
    ELSE IF a.k = "str" /\ b.k = "str" THEN TF(StrLt(a.s, b.s))
    ELSE IF a.k = "tuple" /\ b.k = "tuple" THEN SeqLt(a.e, b.e, hp)
    ELSE IF IsList(a, hp) /\ IsList(b, hp) THEN SeqLt(hp[a.i].e, hp[b.i].e, hp)
    ELSE "E"

RECURSIVE Hashable(_, _)
Hashable(v, hp) == CASE v.k = "tuple" -> \A k \in 1..Len(v.e) : Hashable(v.e[k], hp)
                     [] v.k = "ref" -> hp[v.i].k \notin {"list", "dict", "set"}
                     [] OTHER -> TRUE

FloorDiv(a, b) == IF b > 0 THEN a \div b ELSE (0 - a) \div (0 - b)
Abs(n) == IF n < 0 THEN 0 - n ELSE n

RECURSIVE RepSeq(_, _)
RepSeq(s, n) == IF n <= 0 THEN <<>> ELSE s \o RepSeq(s, n - 1)
RECURSIVE RepStr(_, _)
RepStr(s, n) == IF n <= 0 THEN "" ELSE s \o RepStr(s, n - 1)

Chars(s) == [k \in 1..Len(s) |-> VStr(SubSeq(s, k, k))]
SubStr(s, t) == \E k \in 1..(Len(t) - Len(s) + 1) : SubSeq(t, k, k + Len(s) - 1) = s     \* s non-empty
IsInst(v, ty, hp) == CASE ty = "int" -> IsInt(v) [] ty = "bool" -> v.k = "bool" [] ty = "str" -> v.k = "str"
                       [] ty = "tuple" -> v.k = "tuple" [] ty = "list" -> IsList(v, hp) [] OTHER -> FALSE

-----------------------------------------------------------------------------
(* Interpreter state: [heap, glob, log, exc, eargs, esite, fl, depth, oom] *)

St0 == [heap |-> <<>>, glob |-> ("g" :> VInt(0)), log |-> <<>>, exc |-> "", eargs |-> "", esite |-> "", fl |-> {},
        depth |-> 0, oom |-> FALSE, ucs |-> {}]
Bad(st) == st.exc # "" \/ st.oom
Raise(st, ty, site, args) == [st EXCEPT !.exc = ty, !.esite = site, !.eargs = args]
Oom(st) == [st EXCEPT !.oom = TRUE]
Flag(st, f) == [st EXCEPT !.fl = @ \cup f]
R(st, v) == [st |-> st, v |-> v]
X(st, flow, v) == [st |-> st, flow |-> flow, v |-> v]
Alloc(st, o) == [st EXCEPT !.heap = Append(@, o)]
NewList(st, e) == LET s1 == Alloc(st, [Obj0 EXCEPT !.k = "list", !.e = e]) IN R(s1, VRef(Len(s1.heap)))
TErr(st, site) == R(Raise(st, "TypeError", site, "?"), VNone)
Sized(st, v) == IF (IsInt(v) /\ Abs(v.i) > MaxInt) \/ Len(v.s) > MaxLen \/ Len(v.e) > MaxLen THEN R(Oom(st), VNone) ELSE R(st, v)

RECURSIVE LookupFrom(_, _, _, _)     \* -> [ok, v, err, fl]
LookupFrom(n, env, k, st) ==
    IF k = 0
    THEN IF n \in DOMAIN st.glob THEN [ok |-> TRUE, v |-> st.glob[n], err |-> "", fl |-> {}]
         ELSE IF n \in Builtins THEN [ok |-> TRUE, v |-> VBi(n), err |-> "", fl |-> {}]
         ELSE [ok |-> FALSE, v |-> VNone, err |-> "NameError", fl |-> {}]
    ELSE LET fr == env[k]
         IN  IF fr.kind = "cls"
             THEN IF k = Len(env)
                  THEN IF n \in DOMAIN st.heap[fr.cls].d THEN [ok |-> TRUE, v |-> st.heap[fr.cls].d[n], err |-> "", fl |-> {}]
                       ELSE IF n \in fr.bound
                       THEN \* LOAD_NAME: class dict -> globals -> builtins, enclosing functions are not consulted
                            LET r == LookupFrom(n, env, 0, st)
                            IN  IF \E j \in 1..(k - 1) : env[j].kind # "cls" /\ n \in DOMAIN env[j].vars
                                THEN [r EXCEPT !.fl = @ \cup {"clsname"}] ELSE r
                       ELSE LookupFrom(n, env, k - 1, st)
                  ELSE \* class scopes are skipped by nested scopes
                       LET r == LookupFrom(n, env, k - 1, st)
                       IN  IF n \in DOMAIN st.heap[fr.cls].d THEN [r EXCEPT !.fl = @ \cup {"skipcls"}] ELSE r
             ELSE IF n \in fr.globs THEN LookupFrom(n, env, 0, st)
             ELSE IF n \in DOMAIN fr.vars
             THEN LET c == st.heap[fr.vars[n]]
                  IN  IF c.set THEN [ok |-> TRUE, v |-> c.v, err |-> "", fl |-> {}]
                      ELSE [ok |-> FALSE, v |-> VNone, err |-> IF k = Len(env) THEN "UnboundLocalError" ELSE "NameError", fl |-> {}]
             ELSE LookupFrom(n, env, k - 1, st)

(* does name n denote a variable that iterates directly over a str literal (Cython infers Py_UCS4 for it)? *)
RECURSIVE UcsName(_, _, _, _)
UcsName(n, env, k, st) ==
    IF k = 0 THEN FALSE
    ELSE LET fr == env[k]
         IN  IF fr.kind = "cls" THEN UcsName(n, env, k - 1, st)
             ELSE IF n \in DOMAIN fr.vars THEN (IF fr.kind = "comp" THEN fr.lit ELSE n \in st.ucs)
             ELSE UcsName(n, env, k - 1, st)
UcsOperand(ns, vs, env, st) ==
    \E k \in 1..Len(ns) : ns[k].t = "name" /\ UcsName(ns[k].s, env, Len(env), st) /\ \E m \in 1..Len(vs) : m # k /\ IsInt(vs[m])

RECURSIVE StoreFrom(_, _, _, _, _)   \* -> st
StoreFrom(n, v, env, k, st) ==
    IF k = 0 THEN [st EXCEPT !.glob = SetD(@, n, v)]
    ELSE LET fr == env[k]
         IN  IF fr.kind = "cls"
             THEN IF k = Len(env) THEN [st EXCEPT !.heap[fr.cls].d = SetD(@, n, v)] ELSE StoreFrom(n, v, env, k - 1, st)
             ELSE IF n \in fr.globs THEN StoreFrom(n, v, env, 0, st)
             ELSE IF n \in DOMAIN fr.vars THEN [st EXCEPT !.heap[fr.vars[n]].v = v, !.heap[fr.vars[n]].set = TRUE]
             ELSE StoreFrom(n, v, env, k - 1, st)

(* iteration *)
IterInit(v, st) ==       \* -> [st, it]
    LET hp == st.heap
        MkSeq(items) == [st |-> st, it |-> [k |-> "seq", items |-> items, ref |-> 0, idx |-> 0]]
    IN  CASE v.k = "tuple" -> MkSeq(v.e)
          [] v.k = "str" -> MkSeq(Chars(v.s))
          [] v.k = "range" -> MkSeq([k \in 1..(IF v.i > 0 THEN v.i ELSE 0) |-> VInt(k - 1)])
          [] v.k = "ref" /\ hp[v.i].k = "list" -> [st |-> st, it |-> [k |-> "list", items |-> <<>>, ref |-> v.i, idx |-> 0]]
          [] v.k = "ref" /\ hp[v.i].k = "gen" -> [st |-> st, it |-> [k |-> "gen", items |-> <<>>, ref |-> v.i, idx |-> 0]]
          [] v.k = "ref" /\ hp[v.i].k = "set" -> MkSeq(hp[v.i].e)
          [] v.k = "ref" /\ hp[v.i].k = "dict" -> MkSeq([k \in 1..Len(hp[v.i].e) |-> hp[v.i].e[k].e[1]])
          [] OTHER -> [st |-> Raise(st, "TypeError", "iter", "?"), it |-> NoIter]

(* dict / set construction from a sequence of (hashable) entries *)
RECURSIVE DictOf(_, _, _, _)
DictOf(ps, k, acc, hp) ==
    IF k > Len(ps) THEN acc
    ELSE LET S == {j \in 1..Len(acc) : PyEq(acc[j].e[1], ps[k].e[1], hp)}
         IN  IF S = {} THEN DictOf(ps, k + 1, Append(acc, ps[k]), hp)
             ELSE LET j == CHOOSE m \in S : TRUE
                  IN  DictOf(ps, k + 1, [acc EXCEPT ![j] = VTuple(<<acc[j].e[1], ps[k].e[2]>>)], hp)
RECURSIVE SetOf(_, _, _, _)
SetOf(xs, k, acc, hp) ==
    IF k > Len(xs) THEN acc
    ELSE IF \E j \in 1..Len(acc) : PyEq(acc[j], xs[k], hp) THEN SetOf(xs, k + 1, acc, hp)
    ELSE SetOf(xs, k + 1, Append(acc, xs[k]), hp)

(* stable insertion sort; only used when all pairs are comparable *)
InsertSorted(acc, x, hp) ==
    LET S == {j \in 1..Len(acc) : PyLt(x, acc[j], hp) = "T"}
    IN  IF S = {} THEN Append(acc, x)
        ELSE LET j == CHOOSE m \in S : \A m2 \in S : m <= m2
             IN  SubSeq(acc, 1, j - 1) \o <<x>> \o SubSeq(acc, j, Len(acc))
RECURSIVE SortIns(_, _, _, _)
SortIns(xs, k, acc, hp) == IF k > Len(xs) THEN acc ELSE SortIns(xs, k + 1, InsertSorted(acc, xs[k], hp), hp)

-----------------------------------------------------------------------------
(* The interpreter (big-step, mutually recursive) *)

RECURSIVE Eval(_, _, _), EvalList(_, _, _, _, _), EvalOps(_, _, _), EvalComp(_, _, _), CompLoop(_, _, _, _, _),
          CompElem(_, _, _), GenPull(_, _, _, _), IterNext(_, _), Drain(_, _, _), CallV(_, _, _), CallFn(_, _, _),
          Builtin(_, _, _), AnyAll(_, _, _), Exec(_, _, _), ExecBlock(_, _, _, _), ForLoop(_, _, _, _),
          AssignT(_, _, _, _), AssignSeq(_, _, _, _, _), ExecAug(_, _, _)

RECURSIVE IsLit(_)
IsLit(n) == n.t \in {"int", "str", "none", "true"} \/ (n.t = "tuple" /\ \A k \in 1..Len(n.a) : IsLit(n.a[k]))

(* -> [st, vs] *)
EvalList(ns, k, env, st, acc) ==
    IF k > Len(ns) THEN [st |-> st, vs |-> acc]
    ELSE LET r == Eval(ns[k], env, st)
         IN  IF Bad(r.st) THEN [st |-> r.st, vs |-> acc] ELSE EvalList(ns, k + 1, env, r.st, Append(acc, r.v))

(* operand list of one expression; flags the case that a plain name operand was rebound
   while a later operand of the same list was evaluated (the value read first must be used) *)
EvalOps(ns, env, st) ==
    LET r == EvalList(ns, 1, env, st, <<>>)
    IN  IF Bad(r.st) THEN r
        ELSE LET stale == \E k \in 1..Len(ns) : ns[k].t = "name" /\
                              LET lk == LookupFrom(ns[k].s, env, Len(env), r.st) IN ~(lk.ok /\ lk.v = r.vs[k])
             IN  IF stale THEN [st |-> Flag(r.st, {"stale"}), vs |-> r.vs] ELSE r

GetAttr(v, nm, st) ==
    LET AErr == R(Raise(st, "AttributeError", "attr", "?"), VNone)
    IN  IF v.k # "ref" THEN AErr
        ELSE LET o == st.heap[v.i]
             IN  CASE o.k = "inst" ->
                        IF nm \in DOMAIN o.d THEN R(st, o.d[nm])
                        ELSE LET c == st.heap[o.cls]
                             IN  IF nm \notin DOMAIN c.d THEN AErr
                                 ELSE LET x == c.d[nm]
                                      IN  IF x.k = "ref" /\ st.heap[x.i].k = "fn" THEN R(st, VBm(x.i, v)) ELSE R(st, x)
                   [] o.k \in {"cls", "fn"} -> IF nm \in DOMAIN o.d THEN R(st, o.d[nm]) ELSE AErr
                   [] OTHER -> AErr

SetAttr(v, nm, val, st) ==        \* -> st
    IF v.k = "ref" /\ st.heap[v.i].k \in {"inst", "cls", "fn"} THEN [st EXCEPT !.heap[v.i].d = SetD(@, nm, val)]
    ELSE Raise(st, "AttributeError", "setattr", "?")

SeqIndex(i, n) == IF i.i < 0 THEN i.i + n ELSE i.i      \* 0-based, may be out of range

GetItem(o, i, st) ==
    LET hp == st.heap
        k == KindOf(o, hp)
        IdxOf(items) == IF ~IsInt(i) THEN TErr(st, "index")
                        ELSE LET j == SeqIndex(i, Len(items))
                             IN  IF j < 0 \/ j >= Len(items) THEN R(Raise(st, "IndexError", "index", "?"), VNone)
                                 ELSE R(st, items[j + 1])
    IN  CASE k = "tuple" -> IdxOf(o.e)
          [] k = "str" -> IdxOf(Chars(o.s))
          [] k = "list" -> IdxOf(hp[o.i].e)
          [] k = "range" -> IdxOf([m \in 1..(IF o.i > 0 THEN o.i ELSE 0) |-> VInt(m - 1)])
          [] k = "dict" -> IF ~Hashable(i, hp) THEN TErr(st, "hash")
                           ELSE LET S == {j \in 1..Len(hp[o.i].e) : PyEq(hp[o.i].e[j].e[1], i, hp)}
                                IN  IF S = {} THEN R(Raise(st, "KeyError", "key", "(" \o ReprTop(i, hp) \o ",)"), VNone)
                                    ELSE R(st, hp[o.i].e[CHOOSE j \in S : TRUE].e[2])
          [] k \in {"bi", "cls"} -> R(Oom(st), VNone)        \* int[0], list[0]: generic aliases are not modelled
          [] OTHER -> TErr(st, "subscript")

SetItem(o, i, val, st) ==         \* -> st
    LET hp == st.heap
        k == KindOf(o, hp)
    IN  CASE k = "list" -> IF ~IsInt(i) THEN Raise(st, "TypeError", "index", "?")
                           ELSE LET j == SeqIndex(i, Len(hp[o.i].e))
                                IN  IF j < 0 \/ j >= Len(hp[o.i].e) THEN Raise(st, "IndexError", "index", "?")
                                    ELSE [st EXCEPT !.heap[o.i].e[j + 1] = val]
          [] k = "dict" -> IF ~Hashable(i, hp) THEN Raise(st, "TypeError", "hash", "?")
                           ELSE [st EXCEPT !.heap[o.i].e = DictOf(<<VTuple(<<i, val>>)>>, 1, @, hp)]
          [] OTHER -> Raise(st, "TypeError", "setitem", "?")

PyContains(x, c, st) ==
    LET hp == st.heap
        k == KindOf(c, hp)
    IN  CASE k = "tuple" -> R(st, VBool(\E j \in 1..Len(c.e) : PyEq(c.e[j], x, hp)))
          [] k \in {"list", "set"} /\ (k = "list" \/ Hashable(x, hp)) -> R(st, VBool(\E j \in 1..Len(hp[c.i].e) : PyEq(hp[c.i].e[j], x, hp)))
          [] k = "dict" /\ Hashable(x, hp) -> R(st, VBool(\E j \in 1..Len(hp[c.i].e) : PyEq(hp[c.i].e[j].e[1], x, hp)))
          [] k = "str" -> IF x.k # "str" THEN TErr(st, "bin") ELSE R(st, VBool(x.s = "" \/ SubStr(x.s, c.s)))
          [] k = "range" -> R(st, VBool(IsInt(x) /\ x.i >= 0 /\ x.i < c.i))
          [] k = "gen" -> R(Oom(st), VNone)
          [] OTHER -> TErr(st, "bin")

BinOp(op, l, r, st) ==
    LET hp == st.heap
        TE == TErr(st, "bin")
        Rep(s, n) == IF n.i * (Len(s.s) + Len(s.e) + (IF IsList(s, hp) THEN Len(hp[s.i].e) ELSE 0)) > MaxLen THEN R(Oom(st), VNone)
                     ELSE CASE s.k = "str" -> R(st, VStr(RepStr(s.s, n.i)))
                            [] s.k = "tuple" -> R(st, VTuple(RepSeq(s.e, n.i)))
                            [] OTHER -> NewList(st, RepSeq(hp[s.i].e, n.i))
        Seqish(v) == v.k \in {"str", "tuple"} \/ IsList(v, hp)
    IN  CASE op = "+" -> IF IsInt(l) /\ IsInt(r) THEN Sized(st, VInt(l.i + r.i))
                         ELSE IF l.k = "str" /\ r.k = "str" THEN Sized(st, VStr(l.s \o r.s))
                         ELSE IF l.k = "tuple" /\ r.k = "tuple" THEN Sized(st, VTuple(l.e \o r.e))
                         ELSE IF IsList(l, hp) /\ IsList(r, hp)
                         THEN IF Len(hp[l.i].e) + Len(hp[r.i].e) > MaxLen THEN R(Oom(st), VNone) ELSE NewList(st, hp[l.i].e \o hp[r.i].e)
                         ELSE TE
          [] op = "-" -> IF IsInt(l) /\ IsInt(r) THEN Sized(st, VInt(l.i - r.i)) ELSE TE
          [] op = "*" -> IF IsInt(l) /\ IsInt(r) THEN Sized(st, VInt(l.i * r.i))
                         ELSE IF IsInt(r) /\ Seqish(l) THEN Rep(l, r)
                         ELSE IF IsInt(l) /\ Seqish(r) THEN Rep(r, l)
                         ELSE TE
          [] op = "//" -> IF IsInt(l) /\ IsInt(r)
                          THEN IF r.i = 0 THEN R(Raise(st, "ZeroDivisionError", "div", "?"), VNone) ELSE R(st, VInt(FloorDiv(l.i, r.i)))
                          ELSE TE
          [] op = "<" -> LET c == PyLt(l, r, hp) IN IF c = "E" THEN TE ELSE R(st, VBool(c = "T"))
          [] op = "==" -> R(st, VBool(PyEq(l, r, hp)))
          [] op = "in" -> PyContains(l, r, st)

(* -> [st, vs]: all remaining items of iterator it *)
Drain(it, st, acc) ==
    LET nx == IterNext(it, st)
    IN  IF Bad(nx.st) \/ nx.done THEN [st |-> nx.st, vs |-> acc]
        ELSE IF Len(acc) >= MaxLen THEN [st |-> Oom(nx.st), vs |-> acc]
        ELSE Drain(nx.it, nx.st, Append(acc, nx.v))

ToSeq(v, st, site) ==
    LET ii == IterInit(v, st)
    IN  IF Bad(ii.st) THEN [st |-> [ii.st EXCEPT !.esite = site], vs |-> <<>>] ELSE Drain(ii.it, ii.st, <<>>)

(* in-place operators: lists are extended / repeated in place *)
IBinOp(op, l, r, st) ==
    IF IsList(l, st.heap) /\ op = "+"
    THEN LET s == ToSeq(r, st, "iter")
         IN  IF Bad(s.st) THEN R(s.st, VNone)
             ELSE IF Len(s.st.heap[l.i].e) + Len(s.vs) > MaxLen THEN R(Oom(s.st), VNone)
             ELSE R([s.st EXCEPT !.heap[l.i].e = @ \o s.vs], l)
    ELSE IF IsList(l, st.heap) /\ op = "*" /\ IsInt(r)
    THEN IF r.i * Len(st.heap[l.i].e) > MaxLen THEN R(Oom(st), VNone) ELSE R([st EXCEPT !.heap[l.i].e = RepSeq(@, r.i)], l)
    ELSE BinOp(op, l, r, st)

(* -> [st, done, v, it] *)
IterNext(it, st) ==
    CASE it.k = "seq" -> IF it.idx < Len(it.items)
                         THEN [st |-> st, done |-> FALSE, v |-> it.items[it.idx + 1], it |-> [it EXCEPT !.idx = @ + 1]]
                         ELSE [st |-> st, done |-> TRUE, v |-> VNone, it |-> it]
      [] it.k = "list" -> IF it.idx < Len(st.heap[it.ref].e)
                          THEN [st |-> st, done |-> FALSE, v |-> st.heap[it.ref].e[it.idx + 1], it |-> [it EXCEPT !.idx = @ + 1]]
                          ELSE [st |-> st, done |-> TRUE, v |-> VNone, it |-> [it EXCEPT !.idx = 1000]]
      [] it.k = "gen" ->
            LET g == st.heap[it.ref]
            IN  IF g.set THEN [st |-> st, done |-> TRUE, v |-> VNone, it |-> it]
                ELSE LET r == GenPull(g.code, g.env, g.it, st)
                         fin == Bad(r.st) \/ r.done
                     IN  [st |-> [r.st EXCEPT !.heap[it.ref].it = r.it, !.heap[it.ref].set = fin], done |-> r.done, v |-> r.v, it |-> it]

(* element of a comprehension in its own scope: -> [st, v]; dict entries are (key, value) tuples *)
CompElem(n, cenv, st) ==
    IF n.s = "dict"
    THEN LET rk == Eval(n.a[1].a[1], cenv, st)
         IN  IF Bad(rk.st) THEN rk
             ELSE LET rv == Eval(n.a[1].a[2], cenv, rk.st)
                  IN  IF Bad(rv.st) THEN rv
                      ELSE IF ~Hashable(rk.v, rv.st.heap) THEN TErr(rv.st, "hash")
                      ELSE R(rv.st, VTuple(<<rk.v, rv.v>>))
    ELSE LET r == Eval(n.a[1], cenv, st)
         IN  IF Bad(r.st) THEN r
             ELSE IF n.s = "set" /\ ~Hashable(r.v, r.st.heap) THEN TErr(r.st, "hash")
             ELSE r

(* -> [st, done, v, it]: run the generator body up to the next element *)
GenPull(n, cenv, it, st) ==
    LET nx == IterNext(it, st)
    IN  IF Bad(nx.st) \/ nx.done THEN nx
        ELSE LET st1 == StoreFrom(n.p[1], nx.v, cenv, Len(cenv), nx.st)
                 rc == Eval(n.a[3], cenv, st1)
             IN  IF Bad(rc.st) THEN [st |-> rc.st, done |-> FALSE, v |-> VNone, it |-> nx.it]
                 ELSE IF ~Truth(rc.v, rc.st.heap) THEN GenPull(n, cenv, nx.it, rc.st)
                 ELSE LET re == CompElem(n, cenv, rc.st)
                      IN  [st |-> re.st, done |-> FALSE, v |-> re.v, it |-> nx.it]

(* -> [st, vs] *)
CompLoop(n, cenv, it, st, acc) ==
    LET r == GenPull(n, cenv, it, st)
    IN  IF Bad(r.st) \/ r.done THEN [st |-> r.st, vs |-> acc]
        ELSE IF Len(acc) >= MaxLen THEN [st |-> Oom(r.st), vs |-> acc]
        ELSE CompLoop(n, cenv, r.it, r.st, Append(acc, r.v))

EvalComp(n, env, st) ==
    LET ri == Eval(n.a[2], env, st)                \* the first iterable is evaluated in the enclosing scope
    IN  IF Bad(ri.st) THEN ri
        ELSE LET ii == IterInit(ri.v, ri.st)
             IN  IF Bad(ii.st) THEN R(ii.st, VNone)
                 ELSE LET st1 == Alloc(ii.st, Cell(VNone, FALSE))
                          fr == [kind |-> "comp", vars |-> (n.p[1] :> Len(st1.heap)), cls |-> 0, globs |-> {}, bound |-> {}, lit |-> n.a[2].t = "str"]
                          cenv == Append(env, fr)
                      IN  IF n.s = "gen"
                          THEN LET st2 == Alloc(st1, [Obj0 EXCEPT !.k = "gen", !.code = n, !.env = cenv, !.it = ii.it])
                               IN  R(st2, VRef(Len(st2.heap)))
                          ELSE LET rr == CompLoop(n, cenv, ii.it, st1, <<>>)
                               IN  IF Bad(rr.st) THEN R(rr.st, VNone)
                                   ELSE LET e == CASE n.s = "list" -> rr.vs
                                                   [] n.s = "set" -> SetOf(rr.vs, 1, <<>>, rr.st.heap)
                                                   [] n.s = "dict" -> DictOf(rr.vs, 1, <<>>, rr.st.heap)
                                            st3 == Alloc(rr.st, [Obj0 EXCEPT !.k = n.s, !.e = e])
                                        IN  R(st3, VRef(Len(st3.heap)))

Eval(n, env, st) ==
    CASE n.t = "int" -> R(st, VInt(n.i))
      [] n.t = "str" -> R(st, VStr(n.s))
      [] n.t = "none" -> R(st, VNone)
      [] n.t = "true" -> R(st, VBool(TRUE))
      [] n.t = "name" ->
            LET r == LookupFrom(n.s, env, Len(env), st)
                st1 == Flag(st, r.fl)
            IN  IF r.ok THEN R(st1, r.v) ELSE R(Raise(st1, r.err, "name", "?"), VNone)
      [] n.t = "tuple" -> LET r == EvalOps(n.a, env, st) IN IF Bad(r.st) THEN R(r.st, VNone) ELSE R(r.st, VTuple(r.vs))
      [] n.t = "list" -> LET r == EvalOps(n.a, env, st) IN IF Bad(r.st) THEN R(r.st, VNone) ELSE NewList(r.st, r.vs)
      [] n.t = "bin" -> LET \* <empty tuple / list display> * <anything but an int literal>
                            f3 == IF n.s = "*" /\ n.a[1].t \in {"tuple", "list"} /\ n.a[1].a = <<>> /\ n.a[2].t # "int"
                                  THEN {"emptymul"} ELSE {}
                            r0 == EvalOps(n.a, env, st)
                            r == [st |-> Flag(r0.st, f3), vs |-> r0.vs]
                        IN  IF Bad(r.st) THEN R(r.st, VNone)
                            ELSE LET res == BinOp(n.s, r.vs[1], r.vs[2], r.st)
                                     \* a one-character str literal ordered against an expression that Cython types as C bint
                                     OneChr(x) == x.t = "str" /\ Len(x.s) = 1
                                     Bint(x) == x.t \in {"not", "true"} \/ (x.t = "bin" /\ x.s = "in")
                                                \/ (x.t = "call" /\ x.a[1].t = "name" /\ x.a[1].s = "isinstance")
                                     f1 == IF res.st.exc # "" /\ IsLit(n.a[1]) /\ IsLit(n.a[2]) THEN {"constop"} ELSE {}
                                     f2 == IF n.s = "<" /\ ((OneChr(n.a[1]) /\ Bint(n.a[2])) \/ (OneChr(n.a[2]) /\ Bint(n.a[1])))
                                           THEN {"chrbint"} ELSE {}
                                     f4 == IF n.s \in {"<", "==", "in"} /\ UcsOperand(n.a, r.vs, env, r.st) THEN {"ucs4"} ELSE {}
                                 IN  R(Flag(res.st, f1 \cup f2 \cup f4), res.v)
      [] n.t = "not" -> LET r == Eval(n.a[1], env, st) IN IF Bad(r.st) THEN r ELSE R(r.st, VBool(~Truth(r.v, r.st.heap)))
      [] n.t = "neg" -> LET r == Eval(n.a[1], env, st)
                        IN  IF Bad(r.st) THEN r ELSE IF IsInt(r.v) THEN R(r.st, VInt(0 - r.v.i)) ELSE TErr(r.st, "unary")
      [] n.t = "and" -> LET r == Eval(n.a[1], env, st)
                        IN  IF Bad(r.st) THEN r ELSE IF Truth(r.v, r.st.heap) THEN Eval(n.a[2], env, r.st) ELSE r
      [] n.t = "or" -> LET r == Eval(n.a[1], env, st)
                       IN  IF Bad(r.st) THEN r ELSE IF Truth(r.v, r.st.heap) THEN r ELSE Eval(n.a[2], env, r.st)
      [] n.t = "cond" -> LET r == Eval(n.a[1], env, st)      \* <a2> if <a1> else <a3>
                         IN  IF Bad(r.st) THEN r ELSE IF Truth(r.v, r.st.heap) THEN Eval(n.a[2], env, r.st) ELSE Eval(n.a[3], env, r.st)
      [] n.t = "walrus" -> LET r == Eval(n.a[1], env, st)
                           IN  IF Bad(r.st) THEN r ELSE R(StoreFrom(n.s, r.v, env, Len(env), r.st), r.v)
      [] n.t = "log" -> LET r == Eval(n.a[1], env, st)
                        IN  IF Bad(r.st) THEN r
                            ELSE LET s == ReprTop(r.v, r.st.heap)
                                 IN  IF HasAt(s) THEN R(Oom(r.st), VNone) ELSE R([r.st EXCEPT !.log = Append(@, s)], r.v)
      [] n.t = "call" ->
            LET r == EvalOps(n.a, env, st)
                \* min(a, b, ..) / max(a, b, ..): would evaluating the first argument last be observable?
                mm == n.a[1].t = "name" /\ n.a[1].s \in {"min", "max"} /\ Len(n.a) >= 3
                alt == EvalList(<<n.a[1]>> \o SubSeq(n.a, 3, Len(n.a)) \o <<n.a[2]>>, 1, env, st, <<>>)
                \* the operand (index in n.a) whose evaluation raised, in source order and in the other order
                failRef == Len(r.vs) + 1
                failAlt == LET q == Len(alt.vs) + 1 IN IF q = 1 THEN 1 ELSE IF q = Len(n.a) THEN 2 ELSE q + 1
                differs == \/ alt.st.log # r.st.log \/ alt.st.exc # r.st.exc \/ alt.st.esite # r.st.esite
                           \/ (Bad(r.st) /\ failRef # failAlt)
                           \/ alt.st.glob # r.st.glob \/ alt.st.oom # r.st.oom
                           \/ (~Bad(r.st) /\ alt.vs # <<r.vs[1]>> \o SubSeq(r.vs, 3, Len(r.vs)) \o <<r.vs[2]>>)
                r2 == IF mm /\ differs THEN [st |-> Flag(r.st, {"minmax"}), vs |-> r.vs] ELSE r
                r1 == IF mm /\ ~Bad(r.st) /\ UcsOperand(Tail(n.a), Tail(r.vs), env, r.st)
                      THEN [st |-> Flag(r2.st, {"ucs4"}), vs |-> r2.vs] ELSE r2
            IN  IF Bad(r1.st) THEN R(r1.st, VNone) ELSE CallV(r1.vs[1], Tail(r1.vs), r1.st)
      [] n.t = "attr" -> LET r == Eval(n.a[1], env, st) IN IF Bad(r.st) THEN r ELSE GetAttr(r.v, n.s, r.st)
      [] n.t = "sub" -> LET r == EvalOps(n.a, env, st) IN IF Bad(r.st) THEN R(r.st, VNone) ELSE GetItem(r.vs[1], r.vs[2], r.st)
      [] n.t = "lambda" ->
            LET r == EvalList(SubSeq(n.a, 2, Len(n.a)), 1, env, st, <<>>)         \* defaults are evaluated at definition time
            IN  IF Bad(r.st) THEN R(r.st, VNone)
                ELSE LET s1 == Alloc(r.st, [Obj0 EXCEPT !.k = "fn", !.nm = "lambda", !.ps = n.p, !.df = r.vs, !.code = n.a[1],
                                                        !.env = env, !.lam = TRUE])
                     IN  R(s1, VRef(Len(s1.heap)))
      [] n.t = "comp" -> EvalComp(n, env, st)

CallFn(addr, args, st) ==
    LET fn == st.heap[addr]
        np == Len(fn.ps)
        nd == Len(fn.df)
    IN  IF Len(args) > np \/ Len(args) < np - nd THEN TErr(st, "arity")
        ELSE IF st.depth >= 8 THEN R(Oom(st), VNone)
        ELSE LET full == args \o SubSeq(fn.df, Len(args) - (np - nd) + 1, nd)
                 locs == LocalsOf(fn)
                 ls == SelectSeq(AllVarNames, LAMBDA x : x \in locs)
                 base == Len(st.heap)
                 pidx(x) == CHOOSE k \in 1..np : fn.ps[k] = x
                 cells == [k \in 1..Len(ls) |-> IF Has(fn.ps, ls[k]) THEN Cell(full[pidx(ls[k])], TRUE) ELSE Cell(VNone, FALSE)]
                 fr == [kind |-> "fn", vars |-> [x \in Range(ls) |-> base + (CHOOSE k \in 1..Len(ls) : ls[k] = x)], cls |-> 0,
                        globs |-> GlobDecl(fn), bound |-> {}, lit |-> FALSE]
                 env1 == Append(fn.env, fr)
                 st1 == [st EXCEPT !.heap = @ \o cells, !.depth = @ + 1]
             IN  IF Cardinality(locs) # Len(ls) THEN R(Oom(st), VNone)      \* a name the model does not know
                 ELSE IF fn.lam
                 THEN LET r == Eval(fn.code, env1, st1) IN R([r.st EXCEPT !.depth = @ - 1], r.v)
                 ELSE LET r == Exec(fn.code, env1, st1)
                      IN  R([r.st EXCEPT !.depth = @ - 1], IF r.flow = "r" /\ ~Bad(r.st) THEN r.v ELSE VNone)

CallV(fv, args, st) ==
    CASE fv.k = "bi" -> Builtin(fv.s, args, st)
      [] fv.k = "bm" -> CallFn(fv.i, <<fv.e[1]>> \o args, st)
      [] fv.k = "ref" /\ st.heap[fv.i].k = "fn" -> CallFn(fv.i, args, st)
      [] fv.k = "ref" /\ st.heap[fv.i].k = "cls" ->
            LET s1 == Alloc(st, [Obj0 EXCEPT !.k = "inst", !.cls = fv.i])
                inst == VRef(Len(s1.heap))
                c == st.heap[fv.i]
            IN  IF "__init__" \in DOMAIN c.d
                THEN LET r == CallV(c.d["__init__"], <<inst>> \o args, s1) IN IF Bad(r.st) THEN r ELSE R(r.st, inst)
                ELSE IF args # <<>> THEN TErr(st, "arity") ELSE R(s1, inst)
      [] OTHER -> TErr(st, "call")

(* any / all over an iterator, stopping at the first deciding element *)
AnyAll(isany, it, st) ==
    LET nx == IterNext(it, st)
    IN  IF Bad(nx.st) THEN R(nx.st, VNone)
        ELSE IF nx.done THEN R(nx.st, VBool(~isany))
        ELSE IF Truth(nx.v, nx.st.heap) = isany THEN R(nx.st, VBool(isany))
        ELSE AnyAll(isany, nx.it, nx.st)

RECURSIVE FoldSum(_, _, _, _), FoldMin(_, _, _, _, _)
FoldSum(vs, k, acc, st) == IF k > Len(vs) THEN R(st, acc)
                           ELSE LET r == BinOp("+", acc, vs[k], st) IN IF Bad(r.st) THEN r ELSE FoldSum(vs, k + 1, r.v, r.st)
(* min: replace when item < best; max: replace when best < item *)
FoldMin(ismin, vs, k, acc, st) ==
    IF k > Len(vs) THEN R(st, acc)
    ELSE LET c == IF ismin THEN PyLt(vs[k], acc, st.heap) ELSE PyLt(acc, vs[k], st.heap)
         IN  IF c = "E" THEN TErr(st, "bin") ELSE FoldMin(ismin, vs, k + 1, IF c = "T" THEN vs[k] ELSE acc, st)

Builtin(nm, args, st) ==
    LET x == args[1]
        hp == st.heap
        k == KindOf(x, hp)
        TE == TErr(st, "builtin")
    IN  IF (nm \in {"min", "max"} /\ Len(args) \notin {1, 2}) \/ (nm = "isinstance" /\ Len(args) # 2)
           \/ (nm \notin {"min", "max", "isinstance"} /\ Len(args) # 1) THEN R(Oom(st), VNone)
        ELSE CASE nm = "len" -> CASE k = "str" -> R(st, VInt(Len(x.s)))
                                  [] k = "tuple" -> R(st, VInt(Len(x.e)))
                                  [] k = "range" -> R(st, VInt(IF x.i > 0 THEN x.i ELSE 0))
                                  [] k \in {"list", "dict", "set"} -> R(st, VInt(Len(hp[x.i].e)))
                                  [] OTHER -> TE
               [] nm = "abs" -> IF IsInt(x) THEN R(st, VInt(Abs(x.i))) ELSE TE
               [] nm = "bool" -> R(st, VBool(Truth(x, hp)))
               [] nm = "int" -> IF IsInt(x) THEN R(st, VInt(x.i))
                                ELSE IF k = "str" THEN R(Raise(st, "ValueError", "builtin", "?"), VNone) ELSE TE
               [] nm = "range" -> IF ~IsInt(x) THEN TE ELSE IF x.i > 12 THEN R(Oom(st), VNone) ELSE R(st, VRange(x.i))
               [] nm = "isinstance" -> IF args[2].k # "bi" THEN R(Oom(st), VNone) ELSE R(st, VBool(IsInst(x, args[2].s, hp)))
               [] nm \in {"any", "all"} -> LET ii == IterInit(x, st)
                                           IN  IF Bad(ii.st) THEN R(ii.st, VNone) ELSE AnyAll(nm = "any", ii.it, ii.st)
               [] nm \in {"min", "max"} /\ Len(args) = 2 -> FoldMin(nm = "min", args, 2, x, st)
               [] nm \in {"tuple", "list", "sorted", "sum", "min", "max"} ->
                     LET s == ToSeq(x, st, "iter")
                         h2 == s.st.heap
                     IN  IF Bad(s.st) THEN R(s.st, VNone)
                         ELSE CASE nm = "tuple" -> R(s.st, VTuple(s.vs))
                                [] nm = "list" -> NewList(s.st, s.vs)
                                [] nm = "sum" -> FoldSum(s.vs, 1, VInt(0), s.st)
                                [] nm \in {"min", "max"} -> IF s.vs = <<>> THEN R(Raise(s.st, "ValueError", "builtin", "?"), VNone)
                                                            ELSE FoldMin(nm = "min", s.vs, 2, s.vs[1], s.st)
                                [] nm = "sorted" ->
                                      LET badp == \E i \in 1..Len(s.vs) : \E j \in 1..Len(s.vs) : i # j /\ PyLt(s.vs[i], s.vs[j], h2) = "E"
                                      IN  IF ~badp THEN NewList(s.st, SortIns(s.vs, 1, <<>>, h2))
                                          ELSE IF Len(s.vs) = 2 THEN TErr(s.st, "bin")
                                          ELSE R(Oom(s.st), VNone)       \* which pairs timsort compares is not modelled
               [] OTHER -> R(Oom(st), VNone)

(* assignment to a target: -> st *)
AssignSeq(ts, vs, k, env, st) ==
    IF k > Len(ts) \/ Bad(st) THEN st ELSE AssignSeq(ts, vs, k + 1, env, AssignT(ts[k], vs[k], env, st))

AssignT(t, v, env, st) ==
    CASE t.t = "name" -> StoreFrom(t.s, v, env, Len(env), st)
      [] t.t = "sub" -> LET r == EvalOps(t.a, env, st) IN IF Bad(r.st) THEN r.st ELSE SetItem(r.vs[1], r.vs[2], v, r.st)
      [] t.t = "attr" -> LET r == Eval(t.a[1], env, st) IN IF Bad(r.st) THEN r.st ELSE SetAttr(r.v, t.s, v, r.st)
      [] t.t = "tup" ->
            LET s == ToSeq(v, st, "unpack")
                nt == Len(t.a)
                S == {k \in 1..nt : t.a[k].t = "star"}
            IN  IF Bad(s.st) THEN s.st
                ELSE IF S = {}
                THEN IF Len(s.vs) # nt THEN Raise(s.st, "ValueError", "unpack", "?") ELSE AssignSeq(t.a, s.vs, 1, env, s.st)
                ELSE LET sp == CHOOSE k \in S : TRUE
                         nafter == nt - sp
                     IN  IF Len(s.vs) < nt - 1 THEN Raise(s.st, "ValueError", "unpack", "?")
                         ELSE LET mid == NewList(s.st, SubSeq(s.vs, sp, Len(s.vs) - nafter))
                                  vals == SubSeq(s.vs, 1, sp - 1) \o <<mid.v>> \o SubSeq(s.vs, Len(s.vs) - nafter + 1, Len(s.vs))
                                  tgts == [k \in 1..nt |-> IF k = sp THEN t.a[k].a[1] ELSE t.a[k]]
                              IN  AssignSeq(tgts, vals, 1, env, mid.st)

ExecAug(n, env, st) ==
    LET t == n.a[1]
    IN  CASE t.t = "name" ->
               LET lk == LookupFrom(t.s, env, Len(env), st)
                   st0 == Flag(st, lk.fl)
               IN  IF ~lk.ok THEN Raise(st0, lk.err, "name", "?")
                   ELSE LET r == Eval(n.a[2], env, st0)
                        IN  IF Bad(r.st) THEN r.st
                            ELSE LET l2 == LookupFrom(t.s, env, Len(env), r.st)
                                     st1 == IF l2.ok /\ l2.v = lk.v THEN r.st ELSE Flag(r.st, {"stale"})
                                     res == IBinOp(n.s, lk.v, r.v, st1)
                                 IN  IF Bad(res.st) THEN res.st ELSE StoreFrom(t.s, res.v, env, Len(env), res.st)
          [] t.t = "sub" ->
               LET ro == EvalOps(t.a, env, st)
               IN  IF Bad(ro.st) THEN ro.st
                   ELSE LET cur == GetItem(ro.vs[1], ro.vs[2], ro.st)
                        IN  IF Bad(cur.st) THEN cur.st
                            ELSE LET r == Eval(n.a[2], env, cur.st)
                                 IN  IF Bad(r.st) THEN r.st
                                     ELSE LET \* container / index names rebound while the value was evaluated: the objects read first are used
                                              stale == \E k \in 1..2 : t.a[k].t = "name" /\
                                                          LET lk == LookupFrom(t.a[k].s, env, Len(env), r.st) IN ~(lk.ok /\ lk.v = ro.vs[k])
                                              st1 == IF stale THEN Flag(r.st, {"stale"}) ELSE r.st
                                              res == IBinOp(n.s, cur.v, r.v, st1)
                                          IN  IF Bad(res.st) THEN res.st ELSE SetItem(ro.vs[1], ro.vs[2], res.v, res.st)
          [] t.t = "attr" ->
               LET ro == Eval(t.a[1], env, st)
               IN  IF Bad(ro.st) THEN ro.st
                   ELSE LET cur == GetAttr(ro.v, t.s, ro.st)
                        IN  IF Bad(cur.st) THEN cur.st
                            ELSE LET r == Eval(n.a[2], env, cur.st)
                                 IN  IF Bad(r.st) THEN r.st
                                     ELSE LET stale == t.a[1].t = "name" /\
                                                       LET lk == LookupFrom(t.a[1].s, env, Len(env), r.st) IN ~(lk.ok /\ lk.v = ro.v)
                                              st1 == IF stale THEN Flag(r.st, {"stale"}) ELSE r.st
                                              res == IBinOp(n.s, cur.v, r.v, st1)
                                          IN  IF Bad(res.st) THEN res.st ELSE SetAttr(ro.v, t.s, res.v, res.st)

(* -> [st, flow, v];  flow: "n" next, "r" return, "b" break, "c" continue *)
ExecBlock(ss, k, env, st) ==
    IF k > Len(ss) THEN X(st, "n", VNone)
    ELSE LET r == Exec(ss[k], env, st)
         IN  IF Bad(r.st) \/ r.flow # "n" THEN r ELSE ExecBlock(ss, k + 1, env, r.st)

ForLoop(n, env, it, st) ==
    LET nx == IterNext(it, st)
    IN  IF Bad(nx.st) \/ nx.done THEN X(nx.st, "n", VNone)
        ELSE LET s1 == AssignT(n.a[1], nx.v, env, nx.st)
             IN  IF Bad(s1) THEN X(s1, "n", VNone)
                 ELSE LET r == Exec(n.a[3], env, s1)
                      IN  IF Bad(r.st) \/ r.flow = "r" THEN r
                          ELSE IF r.flow = "b" THEN X(r.st, "n", VNone)
                          ELSE ForLoop(n, env, nx.it, r.st)

Exec(n, env, st) ==
    CASE n.t = "pass" -> X(st, "n", VNone)
      [] n.t = "block" -> ExecBlock(n.a, 1, env, st)
      [] n.t = "expr" -> LET r == Eval(n.a[1], env, st) IN X(r.st, "n", VNone)
      [] n.t = "assign" -> LET r == Eval(n.a[2], env, st)
                           IN  IF Bad(r.st) THEN X(r.st, "n", VNone) ELSE X(AssignT(n.a[1], r.v, env, r.st), "n", VNone)
      [] n.t = "aug" -> X(ExecAug(n, env, st), "n", VNone)
      [] n.t = "return" -> LET r == Eval(n.a[1], env, st) IN X(r.st, IF Bad(r.st) THEN "n" ELSE "r", r.v)
      [] n.t = "raise" -> LET r == Eval(n.a[1], env, st)
                          IN  IF Bad(r.st) THEN X(r.st, "n", VNone)
                              ELSE LET s == ReprTop(r.v, r.st.heap)
                                   IN  IF HasAt(s) THEN X(Oom(r.st), "n", VNone)
                                       ELSE X(Raise(r.st, n.s, "raise", "(" \o s \o ",)"), "n", VNone)
      [] n.t = "if" -> LET r == Eval(n.a[1], env, st)
                       IN  IF Bad(r.st) THEN X(r.st, "n", VNone)
                           ELSE IF Truth(r.v, r.st.heap) THEN Exec(n.a[2], env, r.st) ELSE Exec(n.a[3], env, r.st)
      [] n.t = "for" -> LET r == Eval(n.a[2], env, st)
                        IN  IF Bad(r.st) THEN X(r.st, "n", VNone)
                            ELSE LET ii == IterInit(r.v, r.st)
                                     s2 == IF n.a[2].t = "str" /\ n.a[1].t = "name" THEN [ii.st EXCEPT !.ucs = @ \cup {n.a[1].s}] ELSE ii.st
                                 IN  IF Bad(ii.st) THEN X(ii.st, "n", VNone) ELSE ForLoop(n, env, ii.it, s2)
      [] n.t = "break" -> X(st, "b", VNone)
      [] n.t = "continue" -> X(st, "c", VNone)
      [] n.t = "def" ->
            LET r == EvalList(SubSeq(n.a, 2, Len(n.a)), 1, env, st, <<>>)
            IN  IF Bad(r.st) THEN X(r.st, "n", VNone)
                ELSE LET s1 == Alloc(r.st, [Obj0 EXCEPT !.k = "fn", !.nm = n.s, !.ps = n.p, !.df = r.vs, !.code = n.a[1],
                                                        !.env = env, !.decl = n.w])
                     IN  X(StoreFrom(n.s, VRef(Len(s1.heap)), env, Len(env), s1), "n", VNone)
      [] n.t = "class" ->
            LET s1 == Alloc(st, [Obj0 EXCEPT !.k = "cls", !.nm = n.s])
                addr == Len(s1.heap)
                fr == [kind |-> "cls", vars |-> EmptyD, cls |-> addr, globs |-> {}, bound |-> Binds(n.a[1]), lit |-> FALSE]
                r == Exec(n.a[1], Append(env, fr), s1)
            IN  IF Bad(r.st) THEN X(r.st, "n", VNone)
                ELSE X(StoreFrom(n.s, VRef(addr), env, Len(env), r.st), "n", VNone)

-----------------------------------------------------------------------------
(* The machine: program construction, module execution, calls *)

ArgPool == <<VInt(0 - 1), VInt(0), VInt(2), VStr("a"), VNone, VTuple(<<VInt(1), VInt(2)>>)>>
(* argument tuples as index pairs into ArgPool: first the six tuples (int, sequence), then the others diagonal by diagonal *)
CallIdx == <<<<1, 4>>, <<2, 6>>, <<3, 4>>, <<1, 6>>, <<2, 4>>, <<3, 6>>, <<1, 1>>, <<2, 2>>, <<3, 3>>, <<4, 4>>, <<5, 5>>, <<6, 6>>, <<1, 2>>, <<2, 3>>, <<4, 5>>, <<5, 6>>, <<6, 1>>, <<1, 3>>, <<3, 5>>, <<4, 6>>, <<5, 1>>, <<6, 2>>, <<2, 5>>, <<4, 1>>, <<5, 2>>, <<6, 3>>, <<1, 5>>, <<3, 1>>, <<4, 2>>, <<5, 3>>, <<6, 4>>, <<2, 1>>, <<3, 2>>, <<4, 3>>, <<5, 4>>, <<6, 5>>>>
CallSeq == [k \in 1..36 |-> <<ArgPool[CallIdx[k][1]], ArgPool[CallIdx[k][2]]>>]

LastOom == IF hist = <<>> THEN FALSE ELSE hist[Len(hist)].kind = "oom"

Obs(r) ==
    LET st == r.st
        hp == st.heap
        gr == IF "g" \in DOMAIN st.glob THEN ReprTop(st.glob["g"], hp) ELSE "<unbound>"
        fl == {f \in {"stale", "skipcls", "clsname", "minmax", "constop", "chrbint", "emptymul", "ucs4"} : f \in st.fl}
        base == [kind |-> "ret", ty |-> "", rp |-> "", site |-> "", log |-> st.log, g |-> gr, fl |-> fl]
    IN  IF st.oom \/ HasAt(gr) THEN [base EXCEPT !.kind = "oom"]
        ELSE IF st.exc # "" THEN [base EXCEPT !.kind = "exc", !.ty = st.exc, !.rp = st.eargs, !.site = st.esite]
        ELSE LET rp == ReprTop(r.v, hp)
             IN  IF HasAt(rp) THEN [base EXCEPT !.kind = "oom"] ELSE [base EXCEPT !.ty = TypeName(r.v, hp), !.rp = rp]

NoMs == [heap |-> <<>>, glob |-> EmptyD]

(* Sample mode: one pseudo-random derivation of the grammar per behaviour.  The choices are a deterministic function of
   (C01_SEED, pid): a small linear congruential generator is threaded through the derivation, the k-th production
   is taken in TLC's (deterministic) enumeration order of the set *)
Lcg(r) == (r * 75 + 74) % 65537
Seed == IF "C01_SEED" \in DOMAIN IOEnv THEN atoi(IOEnv.C01_SEED) % 1000 ELSE 0
R0(k) == Lcg(Lcg(Lcg((Seed * 7919 + k * 10473 + 1) % 65537)))
PickFrom(S, r) == SetToSeq(S)[((r \div 7) % Cardinality(S)) + 1]

RECURSIVE Derive(_, _), DeriveKids(_, _, _, _)
DeriveKids(kids, k, acc, r) ==
    IF k > Len(kids) THEN [a |-> acc, r |-> r]
    ELSE LET d == Derive(kids[k], r) IN DeriveKids(kids, k + 1, Append(acc, d.n), d.r)
Derive(n, r) == IF n.t = "hole" THEN Derive(PickFrom(Prods(n), r), Lcg(r))
                ELSE LET ks == DeriveKids(n.a, 1, <<>>, r) IN [n |-> [n EXCEPT !.a = ks.a], r |-> ks.r]

Init == /\ pid \in 1..NProg
        /\ IF Sample THEN prog = Skeleton(PickFrom(Shapes, R0(pid)), PickFrom(1..MaxS, Lcg(R0(pid))))
           ELSE prog \in {Skeleton(sh, ns) : sh \in Shapes, ns \in 1..MaxS}
        /\ phase = "gen"
        /\ ms = NoMs
        /\ hist = <<>>
        /\ ncall = 0

Fill == /\ phase = "gen"
        /\ HasHole(prog)
        /\ LET path == HolePath(prog)
               ps == Prods(NodeAt(prog, path, 1))
           IN  IF Sample THEN prog' = Derive(prog, Lcg(Lcg(R0(pid)))).n ELSE \E sub \in ps : prog' = FillAt(prog, path, 1, sub)
        /\ UNCHANGED <<phase, ms, hist, ncall, pid>>

(* the module body: g = 0; def f(a, b): ... *)
Seal == /\ phase = "gen"
        /\ ~HasHole(prog)
        /\ Hash(prog) % Mod = Rem
        /\ LET r == Exec(prog, <<>>, St0) IN ms' = [heap |-> r.st.heap, glob |-> r.st.glob]
        /\ phase' = "run"
        /\ UNCHANGED <<prog, hist, ncall, pid>>

Call == /\ phase = "run"
        /\ ncall < NCalls
        /\ ~LastOom
        /\ LET st == [St0 EXCEPT !.heap = ms.heap, !.glob = ms.glob]
               r == CallV(ms.glob["f"], CallSeq[ncall + 1], st)
           IN  /\ hist' = Append(hist, Obs(r))
               /\ ms' = [heap |-> r.st.heap, glob |-> r.st.glob]
        /\ ncall' = ncall + 1
        /\ UNCHANGED <<prog, phase, pid>>

Next == Fill \/ Seal \/ Call
Spec == Init /\ [][Next]_vars

Finished == phase = "run" /\ (IF ncall = NCalls THEN TRUE ELSE LastOom)

-----------------------------------------------------------------------------
(* Invariants *)

RECURSIVE RefsOK(_, _)
RefsOK(v, n) == CASE v.k = "ref" -> v.i >= 1 /\ v.i <= n
                  [] v.k = "bm" -> v.i >= 1 /\ v.i <= n /\ RefsOK(v.e[1], n)
                  [] v.k = "tuple" -> \A k \in 1..Len(v.e) : RefsOK(v.e[k], n)
                  [] OTHER -> TRUE
(* no dangling reference: every reference held by a global, a cell, a container, an attribute dictionary,
   a default value or a frame of a captured environment points into the heap *)
NoDangling ==
    LET hp == ms.heap
        n == Len(hp)
    IN  /\ \A g \in DOMAIN ms.glob : RefsOK(ms.glob[g], n)
        /\ \A a \in 1..n :
             LET o == hp[a]
             IN  /\ RefsOK(o.v, n)
                 /\ \A k \in 1..Len(o.e) : RefsOK(o.e[k], n)
                 /\ \A k \in 1..Len(o.df) : RefsOK(o.df[k], n)
                 /\ \A x \in DOMAIN o.d : RefsOK(o.d[x], n)
                 /\ o.cls <= n
                 /\ \A k \in 1..Len(o.env) : /\ o.env[k].cls <= n
                                             /\ \A x \in DOMAIN o.env[k].vars : o.env[k].vars[x] <= n /\ hp[o.env[k].vars[x]].k = "cell"

(* the module namespace keeps the entry function; frames are balanced: nothing of a call survives but heap and globals *)
ModuleOK == phase = "run" => /\ "f" \in DOMAIN ms.glob /\ ms.glob["f"].k = "ref" /\ ms.heap[ms.glob["f"].i].k = "fn"
                             /\ "g" \in DOMAIN ms.glob

(* generated programs assign every local before it is read: the only name errors are the ones of class-scope lookups *)
DefiniteAssignment ==
    \A k \in 1..Len(hist) : LET o == hist[k]
                            IN  o.kind = "exc" /\ o.site = "name" => o.ty = "NameError" /\ (o.fl \cap {"skipcls", "clsname"}) # {}

ObsOK == \A k \in 1..Len(hist) : LET o == hist[k]
                                 IN  /\ o.kind \in {"ret", "exc", "oom"}
                                     /\ o.kind = "exc" => o.ty # "" /\ o.site # "" /\ o.rp # ""
                                     /\ o.kind = "ret" => o.ty # "" /\ o.rp # "" /\ ~HasAt(o.rp)
                                     /\ \A j \in 1..Len(o.log) : ~HasAt(o.log[j])

GenOK == phase = "gen" => ms = NoMs /\ hist = <<>> /\ ncall = 0

Publish == (Dump /\ Finished) => PrintT("@@" \o ToJson([pid |-> pid, prog |-> prog, obs |-> hist]))

=============================================================================
