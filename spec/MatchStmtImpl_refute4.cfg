SPECIFICATION Spec
CONSTANTS
  NStmts = 400
  MaxDepth = 2
  MaxCases = 4
  MaxSeq = 3
  MaxKeys = 2
  Dump = FALSE
  Dev = {"dupkey-first"}
INVARIANT ImplAgrees
CHECK_DEADLOCK FALSE
