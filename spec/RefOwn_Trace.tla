---------------------------- MODULE RefOwn_Trace ----------------------------
(* C35, binding B2: the ownership automaton of the reference nanny, run over  *)
(* event streams recorded from compiled code (one stream per call of a        *)
(* generated function, recorded by the stand-in `refnanny` module).           *)
(*                                                                          *)
(* Per function context:  owned[ctx][obj] in Nat.                            *)
(*   S ctx        SetupContext   -- ctx becomes open, owns nothing            *)
(*   G / I ctx o  GOTREF/INCREF  -- owned + 1      (o = 0 is NULL: rejected)  *)
(*   V / D ctx o  GIVEREF/DECREF -- owned - 1, rejected when it is 0          *)
(*   F ctx        FinishContext  -- everything owned must have been given up  *)
(* No event may name a context that is not open.  A rejected event is a       *)
(* verdict on the stream (kind + position); the automaton goes on, as the     *)
(* nanny does (it withholds the DECREF).                                      *)
(* Records come from IOEnv.C35_TRACES (ndjson): [id, ev: <<<<op, ctx, obj>>>>]. *)
(* One TLC behaviour per stream, one state per event; the verdict is published *)
(* in the final state and compared with the harness' transcription.            *)
EXTENDS Integers, Sequences, FiniteSets, TLC, Json, IOUtils

Traces == ndJsonDeserialize(IOEnv.C35_TRACES)
N == Len(Traces)

VARIABLES tid, pos, open, owned, bad, closed
vars == <<tid, pos, open, owned, bad, closed>>
\* open: set of open contexts;  owned: function on pairs <<ctx, obj>> with a positive count

Events == Traces[tid].ev
Ev == Events[pos + 1]
Op == Ev[1]   Ctx == Ev[2]   Obj == Ev[3]
Count(c, o) == IF <<c, o>> \in DOMAIN owned THEN owned[<<c, o>>] ELSE 0
Put(c, o, n) == IF n = 0 THEN [p \in (DOMAIN owned) \ {<<c, o>>} |-> owned[p]]
                ELSE [p \in (DOMAIN owned) \cup {<<c, o>>} |-> IF p = <<c, o>> THEN n ELSE owned[p]]
Flag(kind) == bad' = Append(bad, <<kind, pos>>)

Init == /\ tid \in 1..N /\ pos = 0 /\ open = {} /\ owned = <<>> /\ bad = <<>> /\ closed = FALSE
More == pos < Len(Events)

Setup   == /\ More /\ Op = "S"
           /\ IF Ctx \in open THEN Flag("late") /\ UNCHANGED <<open, owned>>
              ELSE open' = open \cup {Ctx} /\ UNCHANGED <<owned, bad>>
           /\ pos' = pos + 1 /\ UNCHANGED <<tid, closed>>
Finish  == /\ More /\ Op = "F" /\ Ctx \in open
           /\ open' = open \ {Ctx}
           /\ LET mine == {p \in DOMAIN owned : p[1] = Ctx} IN
              /\ owned' = [p \in (DOMAIN owned) \ mine |-> owned[p]]
              /\ IF mine # {} THEN Flag("leak") ELSE UNCHANGED bad
           /\ pos' = pos + 1 /\ UNCHANGED <<tid, closed>>
Acquire == /\ More /\ Op \in {"G", "I"} /\ Ctx \in open /\ Obj # 0
           /\ owned' = Put(Ctx, Obj, Count(Ctx, Obj) + 1)
           /\ pos' = pos + 1 /\ UNCHANGED <<tid, open, bad, closed>>
Release == /\ More /\ Op \in {"V", "D"} /\ Ctx \in open /\ Obj # 0
           /\ IF Count(Ctx, Obj) = 0 THEN Flag("underflow") /\ UNCHANGED owned
              ELSE owned' = Put(Ctx, Obj, Count(Ctx, Obj) - 1) /\ UNCHANGED bad
           /\ pos' = pos + 1 /\ UNCHANGED <<tid, open, closed>>
Null    == /\ More /\ Op \in {"G", "I", "V", "D"} /\ Ctx \in open /\ Obj = 0
           /\ Flag("null")
           /\ pos' = pos + 1 /\ UNCHANGED <<tid, open, owned, closed>>
Late    == /\ More /\ Op # "S" /\ Ctx \notin open
           /\ Flag("late")
           /\ pos' = pos + 1 /\ UNCHANGED <<tid, open, owned, closed>>
Close   == /\ ~More /\ ~closed /\ closed' = TRUE
           /\ bad' = bad \o [i \in 1..Cardinality(open) |-> <<"unfinished", pos>>]
           /\ UNCHANGED <<tid, pos, open, owned>>
Next == Setup \/ Finish \/ Acquire \/ Release \/ Null \/ Late \/ Close
Spec == Init /\ [][Next]_vars

(* the automaton itself *)
NonNegative == \A p \in DOMAIN owned : owned[p] >= 1 /\ p[1] \in open     \* only open contexts own, counts positive
Progress    == pos <= Len(Events) /\ (closed => pos = Len(Events))
FlagsGrow   == Len(bad) <= pos + Cardinality(open)
Publish == closed => PrintT("@@" \o ToJson([id |-> Traces[tid].id, bad |-> bad]))
=============================================================================
