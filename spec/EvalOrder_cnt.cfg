SPECIFICATION Spec
CONSTANTS
  MaxLeaves = 3
  MaxLeaves2 = 3
  Mod = 1
  Typings = {}
  Tops = {"ret2"}
  Dump = FALSE
CHECK_DEADLOCK FALSE
