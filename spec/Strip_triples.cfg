SPECIFICATION Spec
CONSTANTS
  MaxToks = 3
  Level = 1
  Glue = TRUE
  Dump = TRUE
INVARIANT AllValid
INVARIANT Compositional
INVARIANT ImplLossless
INVARIANT ImplOKOffHazards
INVARIANT HazardLocal
INVARIANT Publish
CHECK_DEADLOCK FALSE
