SPECIFICATION Spec
CONSTANTS
  NNames = 2
  Kinds = {"num", "cstr", "carr"}
  MaxLvl = 1
  MaxVer = 2
  NVals = 0
  NV = 2
  FirstEdits = 0
  MaxEdits = 0
  Opts = {}
  Mode = "pairs"
  CksMode = "names"
  Dump = FALSE
INVARIANT ImplMeetsDemand
CHECK_DEADLOCK FALSE
