---------------------------- MODULE BinopSlotCmp ----------------------------
(* C28 (rich comparison part): < <= == != > >= on extension types defining  *)
(* any subset of the six comparison methods, with and without               *)
(* total_ordering, behave like on the equivalent Python classes.            *)
(*                                                                          *)
(* Classes: C (cdef), S(C) (cdef), D (unrelated cdef), O (unrelated Python  *)
(* class).  defs[K] = subset of {lt, le, eq, ne, gt, ge} defined by K,      *)
(* tos[K] = K carries the total_ordering decorator.  Every method appends   *)
(* itself to a call log and returns True, False or NotImplemented (`beh`).  *)
(*                                                                          *)
(* Reference (impl = FALSE): the data model's comparison protocol           *)
(*   (reflected method of the right operand first iff its type is a proper  *)
(*   subclass; then the left operand's method; then the reflected one; the  *)
(*   reflection table lt<->gt, le<->ge, eq<->eq, ne<->ne; == / != fall back *)
(*   to identity, the others raise TypeError), object's default methods     *)
(*   (__eq__: identity or NotImplemented, __ne__: inverts type(self).__eq__)*)
(*   and functools.total_ordering (root = best of lt, le, gt, ge present    *)
(*   when the decorator runs; the missing ones are derived as in functools' *)
(*   _convert table: they call type(self).<root>(self, other) and then the  *)
(*   complete `self == other` / `self != other` operator).                  *)
(* Implementation-shaped (impl = TRUE): CPython's do_richcompare, and for a *)
(*   cdef class the tp_richcompare function that ModuleNode.                *)
(*   generate_richcmp_function emits: one switch over the operations with   *)
(*   the first definition along the cdef base chain, != derived from __eq__ *)
(*   when __ne__ is missing, the TOTAL_ORDERING table (calls the root and   *)
(*   then __eq__ -- or __ne__ if there is no __eq__ -- directly), default   *)
(*   NotImplemented; a cdef class without own comparison methods inherits   *)
(*   its base's function; total_ordering is ignored (compile-time warning)  *)
(*   when the chain has no ordering method or neither __eq__ nor __ne__.    *)
(*                                                                          *)
(* State machine as in BinopSlot.tla: Init picks operands, operator and     *)
(* configuration, steps decide the outcome of the first undecided method    *)
(* that the reference or the implementation calls; states with nothing left *)
(* to decide are the cases and are published.                               *)
EXTENDS Integers, Sequences, FiniteSets, TLC, Json

CONSTANTS Pairs,      \* operand kinds
          Profile,    \* which families of method subsets the classes range over (see Fam below)
          Dump

Kinds == {"C", "S", "D", "O"}
Cdef == {"C", "S", "D"}
Ops == {"lt", "le", "eq", "ne", "gt", "ge"}
Ord == {"lt", "le", "gt", "ge"}
Anc == [C |-> <<"C">>, S |-> <<"S", "C">>, D |-> <<"D">>, O |-> <<"O">>]
Range(s) == {s[i] : i \in 1..Len(s)}
IsSub(a, b) == b \in Range(Anc[a])
Involved(x, y) == Range(Anc[x]) \cup Range(Anc[y])
Swap == [lt |-> "gt", le |-> "ge", gt |-> "lt", ge |-> "le", eq |-> "eq", ne |-> "ne"]
Best(S) == IF "lt" \in S THEN "lt" ELSE IF "le" \in S THEN "le" ELSE IF "gt" \in S THEN "gt" ELSE "ge"   \* max() of the dunder names

VARIABLES l, r, same, opk, defs, tos, beh, ref, imp
vars == <<l, r, same, opk, defs, tos, beh, ref, imp>>

NI == "NI"
One(S) == CHOOSE y \in S : TRUE              \* bind-once idiom, see BinopSlot.tla
Min(S) == CHOOSE m \in S : \A n \in S : m <= n
Val(mid) == IF mid \in DOMAIN beh THEN beh[mid] ELSE NI
Mid(cls, m) == cls \o "." \o m
Has(k, m) == k \in DOMAIN defs /\ m \in defs[k]
TO(k) == k \in DOMAIN tos /\ tos[k]
Ret(v, log) == [v |-> v, log |-> log]
Bool(b) == IF b THEN "T" ELSE "F"
Not(v) == IF v = "T" THEN "F" ELSE "T"
TypeOf(pos) == IF pos = "L" THEN l ELSE r
Is(a, b) == a = b \/ same
Invoke(cls, m, a, b, log) == Ret(Val(Mid(cls, m)), Append(log, [mid |-> Mid(cls, m), so |-> a \o b]))

RECURSIVE FirstDef(_, _)
FirstDef(seq, m) == IF seq = <<>> THEN "" ELSE IF Has(Head(seq), m) THEN Head(seq) ELSE FirstDef(Tail(seq), m)

(* derivation table shared by functools (_convert) and Cython (TOTAL_ORDERING):                    *)
(*   neg: the root's result is negated; conn: combined with and / or / nothing; eqop: with == or != *)
D3(neg, conn, eqop) == [neg |-> neg, conn |-> conn, eqop |-> eqop]
Tab == [lt |-> [gt |-> D3(TRUE, "and", "ne"), le |-> D3(FALSE, "or", "eq"), ge |-> D3(TRUE, "", "")],
        le |-> [ge |-> D3(TRUE, "or", "eq"), lt |-> D3(FALSE, "and", "ne"), gt |-> D3(TRUE, "", "")],
        gt |-> [lt |-> D3(TRUE, "and", "ne"), ge |-> D3(FALSE, "or", "eq"), le |-> D3(TRUE, "", "")],
        ge |-> [le |-> D3(TRUE, "or", "eq"), gt |-> D3(FALSE, "and", "ne"), lt |-> D3(TRUE, "", "")]]

---------------------------------------------------------------------------
(* Python attribute model: what K.__<n>__ is after all class decorators ran *)
RECURSIVE Provided(_, _), RootsAt(_)
RootsAt(seq) == {n \in Ord : Has(Head(seq), n) \/ Provided(Tail(seq), n)}      \* functools: ops that differ from object's
Provided(seq, n) == IF seq = <<>> THEN FALSE
                    ELSE \/ Has(Head(seq), n) \/ Provided(Tail(seq), n)
                         \/ (TO(Head(seq)) /\ n \in Ord /\ RootsAt(seq) # {})
ValidPython == \A k \in DOMAIN defs : TO(k) => RootsAt(Anc[k]) # {}           \* else functools raises ValueError
RECURSIVE MethodOf(_, _)
MethodOf(seq, n) ==
  IF seq = <<>> THEN <<"object">>
  ELSE IF Has(Head(seq), n) THEN <<"user", Head(seq)>>
  ELSE IF TO(Head(seq)) /\ n \in Ord /\ n \notin RootsAt(seq) THEN <<"derived", Best(RootsAt(seq))>>
  ELSE MethodOf(Tail(seq), n)

(* generated tp_richcompare of cdef class A *)
CyOwner(k) == LET own == {i \in 1..Len(Anc[k]) : defs[Anc[k][i]] # {}} IN IF own = {} THEN "" ELSE Anc[k][Min(own)]
Lookup(A, m) == FirstDef(Anc[A], m)
CyOrd(A) == {m \in Ord : Lookup(A, m) # ""}
CyTOEffective(A) == TO(A) /\ CyOrd(A) # {} /\ (Lookup(A, "eq") # "" \/ Lookup(A, "ne") # "")

RECURSIVE Rich(_, _, _, _, _, _), Compare(_, _, _, _, _)

(* the rest of a derived ordering method once the root returned v (True / False) *)
Derive(cy, impl, A, root, n, v, a, b, log) ==
  LET t == Tab[root][n]
      first == IF t.neg THEN v = "F" ELSE v = "T"
  IN IF t.conn = "" THEN Ret(Bool(first), log)
     ELSE IF t.conn = "and" /\ ~first THEN Ret("F", log)
     ELSE IF t.conn = "or" /\ first THEN Ret("T", log)
     ELSE IF ~cy THEN Compare(impl, t.eqop, a, b, log)                          \* functools: `self == other` / `self != other`
     ELSE LET useeq == Lookup(A, "eq") # ""                                      \* Cython: the chain's __eq__, else its __ne__, called directly
              fn == IF useeq THEN "eq" ELSE "ne"
              inv == IF useeq THEN t.eqop = "ne" ELSE t.eqop = "eq"
          IN One({ IF s.v = NI THEN s ELSE Ret(IF inv THEN Not(s.v) ELSE s.v, s.log)
                 : s \in {Invoke(Lookup(A, fn), fn, a, b, log)} })

(* type(self).__<n>__(self, other) for a Python class K (slot_tp_richcompare), and in the reference for every class *)
PyRich(impl, K, n, a, b, log) ==
  LET m == MethodOf(Anc[K], n) IN
  IF m[1] = "user" THEN Invoke(m[2], n, a, b, log)
  ELSE IF m[1] = "derived" THEN
       One({ IF s.v = NI THEN s ELSE Derive(FALSE, impl, K, m[2], n, s.v, a, b, s.log)
           : s \in {Rich(impl, K, m[2], a, b, log)} })
  ELSE IF n = "eq" THEN Ret(IF Is(a, b) THEN "T" ELSE NI, log)                       \* object.__eq__
  ELSE IF n = "ne" THEN One({ IF s.v = NI THEN s ELSE Ret(Not(s.v), s.log)          \* object.__ne__
                            : s \in {Rich(impl, K, "eq", a, b, log)} })
  ELSE Ret(NI, log)

CyRich(A, n, a, b, log) ==
  IF Lookup(A, n) # "" THEN Invoke(Lookup(A, n), n, a, b, log)
  ELSE IF n \in Ord /\ CyTOEffective(A) THEN
       LET root == Best(CyOrd(A)) IN
       One({ IF s.v = NI THEN s ELSE Derive(TRUE, TRUE, A, root, n, s.v, a, b, s.log)
           : s \in {Invoke(Lookup(A, root), root, a, b, log)} })
  ELSE IF n = "ne" /\ Lookup(A, "eq") # "" THEN
       One({ IF s.v = NI THEN s ELSE Ret(Not(s.v), s.log) : s \in {Invoke(Lookup(A, "eq"), "eq", a, b, log)} })
  ELSE Ret(NI, log)

(* tp_richcompare of the type of kind K, called with (self = a, other = b, op = n) *)
Rich(impl, K, n, a, b, log) ==
  IF impl /\ K \in Cdef
  THEN (IF CyOwner(K) # "" THEN CyRich(CyOwner(K), n, a, b, log)
        ELSE IF n = "eq" THEN Ret(IF Is(a, b) THEN "T" ELSE NI, log)               \* object_richcompare
        ELSE IF n = "ne" THEN Ret(IF Is(a, b) THEN "F" ELSE NI, log)
        ELSE Ret(NI, log))
  ELSE PyRich(impl, K, n, a, b, log)

OrElse(e, K(_)) == One({ IF s.v # NI THEN s ELSE K(s.log) : s \in {e} })

(* the operator: do_richcompare *)
Compare(impl, op, a, b, log) ==
  LET ta == TypeOf(a)  tb == TypeOf(b)
      rev == ta # tb /\ IsSub(tb, ta)
  IN OrElse(IF rev THEN Rich(impl, tb, Swap[op], b, a, log) ELSE Ret(NI, log),
       LAMBDA lg1 : OrElse(Rich(impl, ta, op, a, b, lg1),
         LAMBDA lg2 : OrElse(IF ~rev THEN Rich(impl, tb, Swap[op], b, a, lg2) ELSE Ret(NI, lg2),
           LAMBDA lg3 : Ret(IF op = "eq" THEN Bool(Is(a, b)) ELSE IF op = "ne" THEN Bool(~Is(a, b)) ELSE "TypeError", lg3))))

Eval(impl) == One({[res |-> s.v, log |-> s.log] : s \in {Compare(impl, opk, "L", "R", <<>>)}})

---------------------------------------------------------------------------
Undecided(log) == {i \in 1..Len(log) : log[i].mid \notin DOMAIN beh}
NextMethod == IF Undecided(ref.log) # {} THEN ref.log[Min(Undecided(ref.log))].mid
              ELSE IF Undecided(imp.log) # {} THEN imp.log[Min(Undecided(imp.log))].mid
              ELSE ""
IsCase == NextMethod = ""

(* families of method subsets *)
All64 == SUBSET Ops
Tiny == {{}, Ops}
Four == {{}, {"lt"}, {"eq"}, {"le", "ne"}}
Five == {{}, {"lt"}, {"eq"}, {"lt", "eq"}, {"le", "ne"}, Ops}
Small == {{}, {"lt"}, {"eq"}, {"lt", "eq"}, {"le", "ne"}, {"gt", "eq", "ne"}, Ops}
Medium == Small \cup {{"ne"}, {"ge", "eq"}, {"lt", "gt"}, {"eq", "ne"}, {"lt", "le", "gt", "ge"}, {"le", "eq"}}
(* the class C ranges over all 64 subsets in the pairs (C,C) and, thorough, (C,O), (O,C); pairs     *)
(* with the subclass S or with D use reduced families                                                *)
Fam(k) ==
  LET inv == Involved(l, r) IN
  CASE Profile = "quick" ->
         (IF "S" \in inv THEN Four ELSE IF "O" \in inv THEN (IF k = "O" THEN Tiny ELSE Five) ELSE All64)
    [] Profile = "thorough" ->
         (IF "S" \in inv THEN (IF k \in {"C", "S"} THEN Five ELSE Tiny)
          ELSE IF "D" \in inv THEN (IF k = "C" THEN Five ELSE Tiny)
          ELSE IF k = "C" THEN All64 ELSE Tiny)
    [] Profile = "strict" -> {{"lt"}, {"lt", "eq"}}
FamOf(k) == IF k \in Involved(l, r) THEN Fam(k) ELSE {{}}

Init == /\ \E p \in Pairs : l = p[1] /\ r = p[2]
        /\ same \in (IF l = r THEN BOOLEAN ELSE {FALSE})
        /\ opk \in Ops
        /\ \E dc \in FamOf("C"), ds \in FamOf("S"), dd \in FamOf("D"), do \in FamOf("O") :
              defs = [k \in Involved(l, r) |-> CASE k = "C" -> dc [] k = "S" -> ds [] k = "D" -> dd [] k = "O" -> do]
        /\ tos \in [Involved(l, r) -> BOOLEAN]
        /\ ~TO("O")
        /\ ValidPython
        /\ beh = <<>>
        /\ ref = Eval(FALSE) /\ imp = Eval(TRUE)

Decide(b) == /\ beh' = beh @@ (NextMethod :> b)
             /\ UNCHANGED <<l, r, same, opk, defs, tos>>
             /\ ref' = Eval(FALSE)' /\ imp' = Eval(TRUE)'
DecideRef == Undecided(ref.log) # {} /\ \E b \in {"T", "F", NI} : Decide(b)
DecideImp == /\ Undecided(ref.log) = {} /\ Undecided(imp.log) # {}
             /\ \E b \in {"T", "F", NI} : Decide(b)
Next == DecideRef \/ DecideImp
Spec == Init /\ [][Next]_vars

---------------------------------------------------------------------------
(* what the data model guarantees for every case *)
RefShape ==
  /\ ref.res \in {"T", "F", "TypeError"}
  /\ (opk \in {"eq", "ne"} => ref.res # "TypeError")
  /\ (ref.res = "TypeError" => \A i \in 1..Len(ref.log) : Val(ref.log[i].mid) = NI)
  /\ (IsCase /\ ref.log = <<>> /\ opk = "eq" => ref.res = Bool(same))               \* identity default
  /\ (IsCase /\ ref.log = <<>> /\ opk = "ne" => ref.res = Bool(~same))

ImplAgrees == IsCase => imp = ref

(* Structural description of where the generated function leaves the reference (TLC checks that    *)
(* Imp = Ref everywhere else).  All of it concerns total_ordering:                                  *)
(* TNoEq : a cdef class carries the decorator, defines comparison methods, but its chain has        *)
(*         neither __eq__ nor __ne__: the decorator is dropped (compile-time warning only).         *)
(* TSub  : for the cdef type of an operand the derived methods Python attribute lookup finds        *)
(*         (functools: set once on the decorated class, inherited by subclasses) differ from the    *)
(*         ones in its tp_richcompare function, which is re-derived per class from the explicit     *)
(*         methods only: decorator on a subclass without own methods dropped, derived methods of    *)
(*         the base lost or taken from another root when the subclass defines a comparison method.  *)
(* TEff  : the function of an operand's type contains derived methods: they call the chain's        *)
(*         __eq__ (else __ne__) directly instead of evaluating `self == other` / `self != other`.   *)
OperandTypes == {l, r} \cap Cdef
DroppedNoEq(k) == k \in Cdef /\ TO(k) /\ defs[k] # {} /\ Lookup(k, "eq") = "" /\ Lookup(k, "ne") = ""
PyDer(K) == {<<n, MethodOf(Anc[K], n)[2]>> : n \in {n \in Ord : MethodOf(Anc[K], n)[1] = "derived"}}
CyDer(K) == LET A == CyOwner(K) IN
            IF A = "" \/ ~CyTOEffective(A) THEN {} ELSE {<<n, Best(CyOrd(A))>> : n \in Ord \ CyOrd(A)}
TNoEq == \E k \in Involved(l, r) : DroppedNoEq(k)
TSub  == \E K \in OperandTypes : Len(Anc[K]) > 1 /\ PyDer(K) # CyDer(K) /\ ~\E k \in Range(Anc[K]) : DroppedNoEq(k)
TEff  == \E K \in OperandTypes : CyDer(K) # {}
Hazard == TNoEq \/ TSub \/ TEff
ImplAgreesOffHazards == (IsCase /\ ~Hazard) => imp = ref
Tags == (IF TNoEq THEN "dropped_no_eq " ELSE "") \o (IF TSub THEN "subclass_rederived " ELSE "") \o (IF TEff THEN "effective " ELSE "")

Str(log) == [i \in 1..Len(log) |-> log[i].mid \o ":" \o log[i].so]
Relation == IF l = r THEN (IF same THEN "same_object" ELSE "same_type") ELSE IF IsSub(r, l) THEN "right_is_subclass"
            ELSE IF IsSub(l, r) THEN "left_is_subclass" ELSE "unrelated"
Publish == (Dump /\ IsCase) =>
  PrintT("@@" \o ToJson([l |-> l, r |-> r, same |-> same, op |-> opk, defs |-> defs, tos |-> tos, beh |-> beh,
                          rel |-> Relation, res |-> ref.res, log |-> Str(ref.log), ires |-> imp.res, ilog |-> Str(imp.log),
                          tags |-> Tags]))

---------------------------------------------------------------------------
PairsCC == {<<"C", "C">>}
PairsQuick == {<<"C", "C">>, <<"C", "O">>, <<"O", "C">>, <<"C", "S">>, <<"S", "C">>, <<"S", "S">>}
PairsC == {<<"C", "C">>, <<"C", "O">>, <<"O", "C">>, <<"C", "D">>, <<"D", "C">>}
PairsThorough == PairsC \cup {<<"C", "S">>, <<"S", "C">>, <<"S", "S">>, <<"S", "O">>, <<"O", "S">>}
=============================================================================
