----------------------------- MODULE MatchStmt -----------------------------
(* C31: match statements behave like CPython (PEP 634 / CPython 3.12).      *)
(*                                                                          *)
(* Reference semantics M(p, v): literal (== / is for None, True, False),    *)
(* capture, wildcard, value (dotted name, ==), sequence (sequence test that *)
(* excludes str/bytes, length test, star), mapping (mapping test, length    *)
(* test, key expressions, keys looked up IN ORDER with the duplicate test   *)
(* of match_keys, sub-patterns, **rest last), class (type test of the       *)
(* class, isinstance, __match_args__ / self-matching builtins, too many     *)
(* positionals, attributes extracted IN ORDER with the duplicate test of    *)
(* match_class, AttributeError = no match, other errors propagate), or      *)
(* (left to right, bindings of the first success), as.                      *)
(* A statement is a sequence of <= MaxCases cases [p pattern, g guarded].    *)
(* The machine steps through the cases: TryCase / Guard* / Body / FallOff;   *)
(* guard outcomes (T, F, R raise) are chosen by the environment.             *)
(* Observation = log of guard/body events with the bindings visible to them  *)
(* and the exception type.  The log also records the `==` calls received by  *)
(* the constant K.E in CPython's order; PEP 634 leaves the evaluation of     *)
(* value patterns undefined, so the harness holds only CPython to them.      *)
(* NOT observed (PEP 634 lets an implementation cache them): number/order of *)
(* len/getitem/get/keys calls on the subject; names bound after a failed     *)
(* guard or pattern.                                                         *)
(* Names are derived from the position: capture "v"+path, star "s"+path,     *)
(* as "w"+path, **rest "r"+path (child i extends the path by the digit i, an *)
(* as-pattern by 0, alternatives of an or-pattern share the path), so every  *)
(* generated pattern binds each name once and alternatives bind equal sets.  *)
(* Statements are generated from the statement number and the seed by a      *)
(* small deterministic generator (Gen); every statement is an initial state. *)
(* Sat(p, v) is an independent declarative formulation (quantifiers instead  *)
(* of left-to-right evaluation, no exceptions): the invariants tie the       *)
(* operational result to it.                                                 *)
EXTENDS Integers, Sequences, FiniteSets, TLC, Json, IOUtils

CONSTANTS NStmts,     \* statements 1..NStmts
          MaxDepth,   \* nesting of composite patterns
          MaxCases,   \* cases per statement
          MaxSeq,     \* sub-patterns of a sequence pattern: 0..MaxSeq
          MaxKeys,    \* keys of a mapping pattern: 0..MaxKeys
          Dump

Seed == IF "C31_SEED" \in DOMAIN IOEnv THEN atoi(IOEnv.C31_SEED) % 1000 ELSE 0

---------------------------------------------------------------------------
(* values: uniform records.  k kind, c concrete class, n number, s text,    *)
(* els elements (seq: items; map: k1, v1, k2, v2, ..; inst: attributes a, b) *)
V(k, c, n, s, els) == [k |-> k, c |-> c, n |-> n, s |-> s, els |-> els]
NoneV  == V("none", "NoneType", 0, "", <<>>)
MissV  == V("missing", "", 0, "", <<>>)     \* attribute not set
RaiseV == V("raises", "", 0, "", <<>>)      \* attribute whose getter raises ValueError
Bo(b)  == V("bool", "bool", IF b THEN 1 ELSE 0, "", <<>>)
I(n)   == V("int", "int", n, "", <<>>)
Fl(n)  == V("float", "float", n, "", <<>>)
S(s)   == V("str", "str", 0, s, <<>>)
SS(s)  == V("str", "SStr", 0, s, <<>>)
By(s)  == V("bytes", "bytes", 0, s, <<>>)
Sq(c, els) == V("seq", c, 0, "", els)
Li(els) == Sq("list", els)
Tu(els) == Sq("tuple", els)
Mp(c, kvs) == V("map", c, 0, "", kvs)
Di(kvs) == Mp("dict", kvs)
In(c, a, b) == V("inst", c, 0, "", <<a, b>>)

RECURSIVE Rp(_), RpSeq(_, _), RpKV(_, _)
RpSeq(els, i) == IF i > Len(els) THEN "" ELSE (IF i > 1 THEN ", " ELSE "") \o Rp(els[i]) \o RpSeq(els, i + 1)
RpKV(els, i) == IF i > Len(els) THEN ""
                ELSE (IF i > 1 THEN ", " ELSE "") \o Rp(els[i]) \o ": " \o Rp(els[i + 1]) \o RpKV(els, i + 2)
\* the repr is a Python expression that rebuilds the value (harness: eval) and the canonical text of a bound value
Rp(v) == CASE v.k = "none"  -> "None"
           [] v.k = "bool"  -> IF v.n = 1 THEN "True" ELSE "False"
           [] v.k = "int"   -> ToString(v.n)
           [] v.k = "float" -> ToString(v.n) \o ".0"
           [] v.k = "str"   -> IF v.c = "str" THEN "'" \o v.s \o "'" ELSE v.c \o "('" \o v.s \o "')"
           [] v.k = "bytes" -> "b'" \o v.s \o "'"
           [] v.k = "seq"   -> IF v.c = "list" THEN "[" \o RpSeq(v.els, 1) \o "]"
                               ELSE IF v.c = "tuple" THEN "(" \o RpSeq(v.els, 1) \o (IF Len(v.els) = 1 THEN "," ELSE "") \o ")"
                               ELSE v.c \o "([" \o RpSeq(v.els, 1) \o "])"
           [] v.k = "map"   -> IF v.c = "dict" THEN "{" \o RpKV(v.els, 1) \o "}" ELSE v.c \o "({" \o RpKV(v.els, 1) \o "})"
           [] v.k = "inst"  -> IF v.c = "Boom" THEN "Boom()"
                               ELSE v.c \o "(" \o (IF v.els[1] # MissV THEN "a=" \o Rp(v.els[1]) ELSE "")
                                        \o (IF v.els[1] # MissV /\ v.els[2] # MissV THEN ", " ELSE "")
                                        \o (IF v.els[2] # MissV THEN "b=" \o Rp(v.els[2]) ELSE "") \o ")"

IsNum(v) == v.k \in {"int", "bool", "float"}
\* Python == between a value and a scalar constant
PyEq(a, b) == \/ IsNum(a) /\ IsNum(b) /\ a.n = b.n
              \/ a.k = "str" /\ b.k = "str" /\ a.s = b.s
              \/ a.k = "bytes" /\ b.k = "bytes" /\ a.s = b.s
              \/ a.k = "none" /\ b.k = "none"

P12 == In("P", I(1), I(2))
SubjSeq == <<
  NoneV, Bo(TRUE), Bo(FALSE), I(0), I(1), I(2), I(-1), Fl(1), Fl(2), S("a"), S("ab"), S("k"), SS("a"), By("a"),
  Li(<<>>), Li(<<I(1)>>), Li(<<I(2)>>), Li(<<S("a")>>), Li(<<NoneV>>),
  Li(<<I(1), I(1)>>), Li(<<I(1), I(2)>>), Li(<<I(2), I(1)>>), Li(<<I(1), S("a")>>), Li(<<S("a"), I(1)>>), Li(<<S("a"), S("a")>>),
  Li(<<Fl(1), Bo(TRUE)>>), Li(<<NoneV, I(1)>>),
  Li(<<I(1), I(2), I(1)>>), Li(<<I(1), I(1), I(1)>>), Li(<<I(2), S("a"), I(1)>>), Li(<<I(1), I(2), I(2), I(1)>>),
  Li(<<I(0), I(1), I(2), I(1), I(1)>>),
  Li(<<Li(<<I(1)>>), I(1)>>), Li(<<I(1), Li(<<I(1), I(2)>>)>>), Li(<<Tu(<<I(1), I(2)>>)>>), Li(<<Di(<<S("k"), I(1)>>), I(1)>>),
  Li(<<P12, I(1)>>), Li(<<I(1), P12>>), Li(<<S("a"), Li(<<>>)>>),
  Tu(<<>>), Tu(<<I(1)>>), Tu(<<I(1), I(2)>>), Tu(<<I(1), I(1)>>), Tu(<<S("a"), I(1)>>), Tu(<<I(1), I(2), I(1)>>),
  Tu(<<Li(<<I(1)>>), I(1)>>), Tu(<<I(1), Tu(<<I(1), I(1)>>)>>),
  Sq("LSub", <<I(1), I(2)>>), Sq("CSeq", <<I(1), I(2)>>), Sq("CSeq", <<I(1)>>), Sq("RSeq", <<I(1), I(2)>>),
  Sq("CSeq", <<I(1), I(2), I(1), I(2)>>), Sq("RSeq", <<S("a"), I(1), I(1)>>),
  Di(<<>>), Di(<<S("k"), I(1)>>), Di(<<S("k"), I(2)>>), Di(<<S("k"), S("a")>>), Di(<<I(1), I(1)>>), Di(<<S("a"), I(1)>>),
  Di(<<S("k"), I(1), S("j"), I(2)>>), Di(<<S("j"), I(1), S("k"), I(1)>>), Di(<<S("k"), I(1), I(1), S("a")>>),
  Di(<<I(1), I(1), S("a"), I(2), S("k"), I(1)>>), Di(<<S("k"), Li(<<I(1), I(2)>>)>>), Di(<<S("k"), Di(<<S("k"), I(1)>>)>>),
  Di(<<S("k"), P12>>), Di(<<S("k"), I(1), S("j"), I(2), S("a"), I(1), I(1), I(1)>>), Di(<<S("j"), I(1), S("a"), S("a")>>),
  Mp("DSub", <<S("k"), I(1)>>), Mp("CMap", <<S("k"), I(1)>>), Mp("CMap", <<S("k"), I(1), S("j"), I(2)>>),
  Mp("RMap", <<S("k"), I(1)>>), Mp("CMap", <<I(1), I(1), S("a"), I(1)>>), Mp("RMap", <<S("k"), I(1), I(1), I(1), S("j"), I(1)>>),
  P12, In("P", I(1), I(1)), In("P", S("a"), Li(<<I(1), I(2)>>)), In("P", I(1), MissV), In("P", P12, I(1)),
  In("P2", I(1), I(2)), In("Q", I(1), I(2)), In("BadMA", I(1), I(2)), V("inst", "Boom", 0, "", <<>>),
  In("E", I(1), I(2)), In("E", I(1), I(1)), In("E", Li(<<I(1)>>), S("a")), In("P", I(2), Di(<<S("k"), I(1)>>)) >>
NSubj == Len(SubjSeq)

---------------------------------------------------------------------------
(* patterns: [t, v, a, ks]                                                   *)
(*   lit  v = source text of the literal                                     *)
(*   val  v = dotted name                    cap / wild / star / starw       *)
(*   seq  a = sub-patterns                   or a = alternatives   as a = <<inner>> *)
(*   map  ks = key texts, a = value patterns, v = "rest" | ""                *)
(*   cls  v = class, a = sub-patterns, ks[i] = "" positional | attribute name *)
Pt(t, v, a, ks) == [t |-> t, v |-> v, a |-> a, ks |-> ks]
Atm(t, v) == Pt(t, v, <<>>, <<>>)

LitVal(x) == CASE x = "0" -> I(0) [] x = "1" -> I(1) [] x = "2" -> I(2) [] x = "-1" -> I(-1) [] x = "1.0" -> Fl(1)
               [] x = "'a'" -> S("a") [] x = "'ab'" -> S("ab") [] x = "b'a'" -> By("a")
LitMatch(x, v) == CASE x = "None" -> v.k = "none"
                    [] x = "True" -> v.k = "bool" /\ v.n = 1
                    [] x = "False" -> v.k = "bool" /\ v.n = 0
                    [] OTHER -> PyEq(v, LitVal(x))
\* constants of the runtime class K; K.E logs the == it receives and equals the number 1
ConstVal(x) == CASE x = "K.i1" -> I(1) [] x = "K.sa" -> S("a") [] x = "K.E" -> I(1) [] x = "K.none" -> NoneV [] x = "K.k" -> S("k")
KeyVal(x) == CASE x = "'k'" -> S("k") [] x = "'j'" -> S("j") [] x = "1" -> I(1) [] OTHER -> ConstVal(x)

\* classes of class patterns
SelfCls == {"int", "str", "list", "dict", "float", "bool", "tuple"}
ClsMA(c) == IF c \in {"P", "P2", "E", "Boom"} THEN <<"a", "b">> ELSE <<>>
IsInst(v, c) == CASE c = "int" -> v.k \in {"int", "bool"} [] c = "bool" -> v.k = "bool" [] c = "float" -> v.k = "float"
                  [] c = "str" -> v.k = "str" [] c = "list" -> v.c \in {"list", "LSub"} [] c = "tuple" -> v.c = "tuple"
                  [] c = "dict" -> v.c \in {"dict", "DSub"} [] c = "P" -> v.c \in {"P", "P2"} [] OTHER -> v.c = c
AttrOf(v, name) == IF v.k # "inst" THEN MissV
                   ELSE IF v.c = "Boom" THEN (IF name = "a" THEN RaiseV ELSE IF name = "b" THEN I(5) ELSE MissV)
                   ELSE IF name = "a" THEN v.els[1] ELSE IF name = "b" THEN v.els[2] ELSE MissV
\* attribute that sub-pattern i of a class pattern looks at: "<self>", "<none>" (no such positional) or a name
NameAt(p, i) == IF p.ks[i] # "" THEN p.ks[i]
                ELSE IF p.v \in SelfCls THEN (IF i = 1 THEN "<self>" ELSE "<none>")
                ELSE IF p.v = "BadMA" \/ i > Len(ClsMA(p.v)) THEN "<none>" ELSE ClsMA(p.v)[i]
NPos(p) == Cardinality({i \in 1..Len(p.a) : p.ks[i] = ""})
IsStar(p) == p.t \in {"star", "starw"}
StarAt(p) == IF \E i \in 1..Len(p.a) : IsStar(p.a[i]) THEN CHOOSE i \in 1..Len(p.a) : IsStar(p.a[i]) ELSE 0
Dg(i) == ToString(i)

---------------------------------------------------------------------------
(* the generator: deterministic choice driven by a number stream *)
\* (quadratic, so that streams Mix(r, i), Mix(r, j) are not related by a constant; everything stays below 2^31)
M0 == 46337
Mix(r, i) == LET x == (r * 37 + i * 1013 + 11) % M0
                 y == (x * x) % M0
             IN (y * 31 + x * 17 + i * 7) % M0
Pick(r, seq) == seq[(r % Len(seq)) + 1]
LitW == <<"1", "1", "2", "0", "-1", "1.0", "'a'", "'a'", "'ab'", "b'a'", "None", "True", "False">>
ValW == <<"K.i1", "K.i1", "K.i1", "K.sa", "K.sa", "K.E", "K.E", "K.E", "K.none", "K.k">>
KeyW == <<"'k'", "1", "'j'", "K.sa", "K.i1", "K.k">>
ClsW == <<"int", "str", "list", "dict", "float", "bool", "tuple", "P", "P", "P", "P2", "Q", "BadMA", "Boom", "E", "E", "E", "CSeq", "NotT">>
ShapeSelf == << <<>>, <<"">>, <<"">>, <<"", "">> >>
ShapeAny == << <<>>, <<"">>, <<"", "">>, <<"", "">>, <<"a">>, <<"b">>, <<"", "b">>, <<"a", "b">>, <<"b", "a">>, <<"", "", "">>,
               <<"", "a">>, <<"", "", "b">>, <<"c">>, <<"a", "c">> >>

\* nocap: no binding sub-patterns (alternatives of an or-pattern); refut: must be refutable
Atom(r, nocap, refut) ==
  LET c == r % 10 IN
  IF c < 4 THEN Atm("lit", Pick(Mix(r, 1), LitW))
  ELSE IF c < 6 \/ refut THEN Atm("val", Pick(Mix(r, 2), ValW))
  ELSE IF c < 8 /\ ~nocap THEN Atm("cap", "")
  ELSE Atm("wild", "")

\* (sequences are built by recursion into explicit tuples: TLC would re-evaluate a lazy [i \in 1..n |-> ..] at every access)
RECURSIVE Gen(_, _, _, _), Kids(_, _, _, _, _), Relit(_), RelitS(_, _), Alts(_, _, _, _, _), GenKeys(_, _, _, _, _), PutStar(_, _, _, _)
Kids(d, r, n, nocap, i) == IF i > n THEN <<>> ELSE <<Gen(d, Mix(r, 20 + i), nocap, FALSE)>> \o Kids(d, r, n, nocap, i + 1)
Alts(d, r, n, refut, i) == IF i > n THEN <<>> ELSE <<Gen(d, Mix(r, 40 + i), TRUE, refut \/ i < n)>> \o Alts(d, r, n, refut, i + 1)
\* distinct key texts: k0, k0+st, k0+2st (mod 6, st in {1, 2}); "1" / K.i1 and 'k' / K.k are equal at run time
GenKeys(r, n, k0, st, i) == IF i > n THEN <<>> ELSE <<KeyW[((k0 + (i - 1) * st) % Len(KeyW)) + 1]>> \o GenKeys(r, n, k0, st, i + 1)
PutStar(ks, sp, st, i) == IF i > Len(ks) THEN <<>> ELSE <<IF i = sp THEN st ELSE ks[i]>> \o PutStar(ks, sp, st, i + 1)
\* the same pattern with other literals: second alternative of an or-pattern that binds names
RelitS(s, i) == IF i > Len(s) THEN <<>> ELSE <<Relit(s[i])>> \o RelitS(s, i + 1)
Relit(p) == IF p.t = "lit" THEN Atm("lit", CASE p.v = "1" -> "2" [] p.v = "'a'" -> "'ab'" [] p.v = "None" -> "False" [] OTHER -> "1")
            ELSE IF p.t = "val" THEN Atm("val", IF p.v = "K.i1" THEN "K.sa" ELSE "K.i1")
            ELSE [p EXCEPT !.a = RelitS(p.a, 1)]

\* a one-level sequence (kind 0) / mapping (1) / class (2) pattern with m sub-patterns, captures at child 1 (c1) and 2 (c2)
MixedAlt(r, m, c1, c2, kind) ==
  LET Kid(i) == IF (i = 1 /\ c1) \/ (i = 2 /\ c2) THEN Atm("cap", "") ELSE Atom(Mix(r, 50 + i), TRUE, FALSE)
      kids == IF m = 1 THEN <<Kid(1)>> ELSE IF m = 2 THEN <<Kid(1), Kid(2)>> ELSE <<Kid(1), Kid(2), Kid(3)>>
  IN IF kind = 0 THEN Pt("seq", "", kids, <<>>)
     ELSE IF kind = 1 THEN Pt("map", "", kids, GenKeys(r, m, Mix(r, 5) % Len(KeyW), 1 + (Mix(r, 6) % 2), 1))
     ELSE Pt("cls", Pick(Mix(r, 4), <<"P", "E", "P2", "P">>), IF m = 1 THEN kids ELSE <<kids[1], kids[2]>>, IF m = 1 THEN <<"">> ELSE <<"", "">>)

Gen(d, r, nocap, refut) ==
  LET c == r % 13 IN
  IF d = 0 \/ c < 2 THEN Atom(Mix(r, 3), nocap, refut)
  ELSE IF c < 5 THEN       \* sequence
    LET n  == Mix(r, 4) % (MaxSeq + 1)
        sp == Mix(r, 5) % (2 * n + 1)            \* 1..n: position of the star
        ks == Kids(d - 1, r, n, nocap, 1)
        st == Atm(IF nocap \/ Mix(r, 6) % 3 = 0 THEN "starw" ELSE "star", "")
    IN Pt("seq", "", PutStar(ks, sp, st, 1), <<>>)
  ELSE IF c < 7 THEN       \* mapping
    LET n  == Mix(r, 4) % (MaxKeys + 1)
        k0 == Mix(r, 5) % Len(KeyW)
        keys == GenKeys(r, n, k0, 1 + (Mix(r, 6) % 2), 1)
    IN Pt("map", IF ~nocap /\ Mix(r, 7) % 3 = 0 THEN "rest" ELSE "", Kids(d - 1, r, n, nocap, 1), keys)
  ELSE IF c < 10 THEN      \* class
    LET cl == Pick(Mix(r, 4), ClsW)
        sh == IF cl \in SelfCls THEN Pick(Mix(r, 5), ShapeSelf) ELSE Pick(Mix(r, 5), ShapeAny)
    IN Pt("cls", cl, Kids(d - 1, r, Len(sh), nocap, 1), sh)
  ELSE IF c < 12 \/ nocap THEN   \* or
    LET c4 == Mix(r, 4) % 4 IN
    IF nocap \/ c4 <= 1
    THEN LET n == 2 + (Mix(r, 5) % 2) IN
         Pt("or", "", Alts(d - 1, r, n, refut, 1), <<>>)
    ELSE IF c4 = 2 THEN LET b == Gen(d - 1, Mix(r, 6), FALSE, TRUE) IN Pt("or", "", <<b, Relit(b)>>, <<>>)
    ELSE LET k1 == Mix(r, 7) % 3                  \* alternatives of different kinds that capture at the same positions
             k2 == (k1 + 1 + (Mix(r, 8) % 2)) % 3
             cm == 1 + (Mix(r, 9) % 3)            \* captures at child 1, child 2, or both
             m  == (IF cm = 1 THEN 1 ELSE 2) + (Mix(r, 10) % 2)
         IN Pt("or", "", <<MixedAlt(Mix(r, 11), m, cm # 2, cm # 1, k1), MixedAlt(Mix(r, 12), m, cm # 2, cm # 1, k2)>>, <<>>)
  ELSE Pt("as", "", <<Gen(d - 1, Mix(r, 4), FALSE, refut)>>, <<>>)

GenCase(r, last) == LET g == Mix(r, 1) % 3 = 0
                        d == 1 + (Mix(r, 2) % MaxDepth)
                    IN [p |-> Gen(d, Mix(r, 3), FALSE, ~last /\ ~g), g |-> g]
RECURSIVE GenCases(_, _, _)
GenCases(r, n, j) == IF j > n THEN <<>> ELSE <<GenCase(Mix(r, 10 + j), j = n)>> \o GenCases(r, n, j + 1)
GenStmt(k) == LET r == Mix((k * 7919 + Seed * 10007 + 13) % M0, 0)
              IN [id |-> k, cases |-> GenCases(r, 1 + (Mix(r, 9) % MaxCases), 1)]

---------------------------------------------------------------------------
(* static well-formedness (what CPython's compiler demands) *)
RECURSIVE Irref(_), Names(_, _), NamesS(_, _, _), WFP(_), Loud(_)
\* evaluating the pattern can raise or is logged by K.E
Loud(p) == \/ p.t = "val" /\ p.v = "K.E"
           \/ p.t = "cls" /\ \/ p.v \in {"NotT", "Boom"} \/ (p.v = "BadMA" /\ NPos(p) > 0)
                              \/ NPos(p) > (IF p.v \in SelfCls THEN 1 ELSE Len(ClsMA(p.v)))
                              \/ \E i, j \in 1..Len(p.a) : i < j /\ NameAt(p, i) = NameAt(p, j)
           \/ p.t = "map" /\ \E i, j \in 1..Len(p.ks) : i < j /\ PyEq(KeyVal(p.ks[i]), KeyVal(p.ks[j]))
           \/ \E i \in 1..Len(p.a) : Loud(p.a[i])
Irref(p) == \/ p.t \in {"cap", "wild"}
            \/ p.t = "as" /\ Irref(p.a[1])
            \/ p.t = "or" /\ \E i \in 1..Len(p.a) : Irref(p.a[i])
\* the names a pattern binds, as a sequence (or-patterns: those of the first alternative)
NamesS(s, path, i) == IF i > Len(s) THEN <<>> ELSE Names(s[i], path \o Dg(i)) \o NamesS(s, path, i + 1)
Names(p, path) == CASE p.t = "cap" -> <<"v" \o path>>
                    [] p.t = "star" -> <<"s" \o path>>
                    [] p.t = "as" -> Names(p.a[1], path \o "0") \o <<"w" \o path>>
                    [] p.t = "or" -> Names(p.a[1], path)
                    [] p.t = "map" -> NamesS(p.a, path, 1) \o (IF p.v = "rest" THEN <<"r" \o path>> ELSE <<>>)
                    [] p.t \in {"seq", "cls"} -> NamesS(p.a, path, 1)
                    [] OTHER -> <<>>
SetOf(s) == {s[i] : i \in 1..Len(s)}
NoDup(s) == \A i, j \in 1..Len(s) : i # j => s[i] # s[j]
WFP(p) == /\ \A i \in 1..Len(p.a) : WFP(p.a[i])
          \* PEP 634 leaves it open whether the other alternatives of an or-pattern that cannot fail are evaluated at all
          \* (Cython skips them inside sequence / mapping / class patterns): such alternatives must be silent
          /\ (p.t = "or" /\ Irref(p)) => \A i \in 1..Len(p.a) : ~Loud(p.a[i])
          /\ p.t = "or" => /\ \A i \in 1..(Len(p.a) - 1) : ~Irref(p.a[i])
                           /\ \A i \in 2..Len(p.a) : SetOf(Names(p.a[i], "")) = SetOf(Names(p.a[1], ""))
          /\ p.t = "seq" => Cardinality({i \in 1..Len(p.a) : IsStar(p.a[i])}) <= 1
          /\ p.t = "map" => \A i, j \in 1..Len(p.ks) : i # j => p.ks[i] # p.ks[j]
WF(s) == \A j \in 1..Len(s.cases) :
            /\ WFP(s.cases[j].p) /\ NoDup(Names(s.cases[j].p, ""))
            /\ (j < Len(s.cases) /\ ~s.cases[j].g) => ~Irref(s.cases[j].p)
\* the table of statements, built once as an explicit tuple (the state carries the statement number only)
RECURSIVE BuildTab(_, _)
BuildTab(lo, hi) == IF lo > hi THEN <<>> ELSE IF lo = hi THEN <<GenStmt(lo)>>
                    ELSE BuildTab(lo, (lo + hi) \div 2) \o BuildTab((lo + hi) \div 2 + 1, hi)
StmtTab == BuildTab(1, NStmts)
Valid == {k \in 1..NStmts : WF(StmtTab[k])}

---------------------------------------------------------------------------
(* reference semantics.  Matching state: ok, env (records n name, v repr), log (events), exc *)
Ev(e, i, b) == [e |-> e, i |-> i, b |-> b]
Fail(st) == [st EXCEPT !.ok = FALSE]
Raise(st, e) == [st EXCEPT !.ok = FALSE, !.exc = e]
Bind(st, name, v) == [st EXCEPT !.env = Append(@, [n |-> name, v |-> Rp(v)])]
Without(kvs, ks) == LET keep == {j \in 1..(Len(kvs) \div 2) : \A i \in 1..Len(ks) : ~PyEq(kvs[2 * j - 1], KeyVal(ks[i]))}
                        F[j \in 0..(Len(kvs) \div 2)] == IF j = 0 THEN <<>> ELSE IF j \in keep THEN F[j - 1] \o <<kvs[2 * j - 1], kvs[2 * j]>> ELSE F[j - 1]
                    IN F[Len(kvs) \div 2]
Lookup(kvs, key) == IF \E j \in 1..(Len(kvs) \div 2) : PyEq(kvs[2 * j - 1], key)
                    THEN CHOOSE j \in 1..(Len(kvs) \div 2) : PyEq(kvs[2 * j - 1], key) ELSE 0

\* match_keys: keys in order; a key equal to an earlier one raises, a key the mapping lacks ends the match
RECURSIVE KeysRes(_, _, _)
KeysRes(ks, kvs, i) == IF i > Len(ks) THEN "ok"
                       ELSE IF \E j \in 1..(i - 1) : PyEq(KeyVal(ks[j]), KeyVal(ks[i])) THEN "ValueError"
                       ELSE IF Lookup(kvs, KeyVal(ks[i])) = 0 THEN "fail" ELSE KeysRes(ks, kvs, i + 1)
\* match_class: attributes in order; a name seen before raises, AttributeError ends the match, other errors propagate
RECURSIVE AttrsRes(_, _, _)
AttrsRes(p, v, i) == IF i > Len(p.a) THEN "ok"
                     ELSE IF \E j \in 1..(i - 1) : NameAt(p, j) = NameAt(p, i) THEN "TypeError"
                     ELSE IF NameAt(p, i) = "<self>" THEN AttrsRes(p, v, i + 1)
                     ELSE LET a == AttrOf(v, NameAt(p, i)) IN
                          IF a = RaiseV THEN "ValueError" ELSE IF a = MissV THEN "fail" ELSE AttrsRes(p, v, i + 1)

RECURSIVE M(_, _, _, _), MOr(_, _, _, _, _), MSeq(_, _, _, _, _), MSub(_, _, _, _, _)
\* sub-patterns a[i..] of a mapping / class pattern against the extracted values
MSub(p, v, path, st, i) ==
  IF i > Len(p.a) THEN st
  ELSE LET x == IF p.t = "map" THEN v.els[2 * Lookup(v.els, KeyVal(p.ks[i]))]
                ELSE IF NameAt(p, i) = "<self>" THEN v ELSE AttrOf(v, NameAt(p, i))
           r == M(p.a[i], x, path \o Dg(i), st)
       IN IF r.ok THEN MSub(p, v, path, r, i + 1) ELSE r
MSeq(p, v, path, st, i) ==
  IF i > Len(p.a) THEN st
  ELSE LET n == Len(p.a)  L == Len(v.els)  sp == StarAt(p)  c == p.a[i]
           r == IF c.t = "starw" THEN st
                ELSE IF c.t = "star" THEN Bind(st, "s" \o path \o Dg(i), Li(SubSeq(v.els, i, L - (n - i))))
                ELSE M(c, v.els[IF sp = 0 \/ i < sp THEN i ELSE L - (n - i)], path \o Dg(i), st)
       IN IF r.ok THEN MSeq(p, v, path, r, i + 1) ELSE r
MOr(p, v, path, st, i) ==
  IF i > Len(p.a) THEN Fail(st)
  ELSE LET r == M(p.a[i], v, path, st) IN
       IF r.ok \/ r.exc # "" THEN r ELSE MOr(p, v, path, [st EXCEPT !.log = r.log], i + 1)

M(p, v, path, st) ==
  CASE p.t = "wild" -> st
    [] p.t = "cap"  -> Bind(st, "v" \o path, v)
    [] p.t = "lit"  -> IF LitMatch(p.v, v) THEN st ELSE Fail(st)
    [] p.t = "val"  -> IF p.v = "K.E" THEN LET s1 == [st EXCEPT !.log = Append(@, Ev("eq", 0, <<[n |-> "", v |-> Rp(v)]>>))]
                                                IN IF PyEq(v, I(1)) THEN s1 ELSE Fail(s1)
                       ELSE IF PyEq(v, ConstVal(p.v)) THEN st ELSE Fail(st)
    [] p.t = "as"   -> LET r == M(p.a[1], v, path \o "0", st) IN IF r.ok THEN Bind(r, "w" \o path, v) ELSE r
    [] p.t = "or"   -> MOr(p, v, path, st, 1)
    [] p.t = "seq"  -> LET n == Len(p.a)  L == Len(v.els) IN
                       IF v.k # "seq" THEN Fail(st)
                       ELSE IF StarAt(p) = 0 /\ L # n THEN Fail(st)
                       ELSE IF StarAt(p) > 0 /\ L < n - 1 THEN Fail(st)
                       ELSE MSeq(p, v, path, st, 1)
    [] p.t = "map"  -> LET n == Len(p.ks) IN
                       IF v.k # "map" THEN Fail(st)
                       ELSE IF n = 0 THEN (IF p.v = "rest" THEN Bind(st, "r" \o path, Di(v.els)) ELSE st)
                       ELSE IF Len(v.els) \div 2 < n THEN Fail(st)
                       ELSE LET x == KeysRes(p.ks, v.els, 1) IN
                            IF x = "fail" THEN Fail(st) ELSE IF x # "ok" THEN Raise(st, x)
                            ELSE LET r == MSub(p, v, path, st, 1) IN
                                 IF r.ok /\ p.v = "rest" THEN Bind(r, "r" \o path, Di(Without(v.els, p.ks))) ELSE r
    [] p.t = "cls"  -> IF p.v = "NotT" THEN Raise(st, "TypeError")
                       ELSE IF ~IsInst(v, p.v) THEN Fail(st)
                       ELSE IF NPos(p) > 0 /\ p.v = "BadMA" THEN Raise(st, "TypeError")
                       ELSE IF NPos(p) > (IF p.v \in SelfCls THEN 1 ELSE Len(ClsMA(p.v))) THEN Raise(st, "TypeError")
                       ELSE LET x == AttrsRes(p, v, 1) IN
                            IF x = "fail" THEN Fail(st) ELSE IF x # "ok" THEN Raise(st, x) ELSE MSub(p, v, path, st, 1)

---------------------------------------------------------------------------
(* independent declarative formulation: does the value have the shape the pattern describes *)
RECURSIVE Sat(_, _)
Sat(p, v) ==
  CASE p.t \in {"wild", "cap", "star", "starw"} -> TRUE
    [] p.t = "lit" -> LitMatch(p.v, v)
    [] p.t = "val" -> PyEq(v, ConstVal(p.v))
    [] p.t = "as"  -> Sat(p.a[1], v)
    [] p.t = "or"  -> \E i \in 1..Len(p.a) : Sat(p.a[i], v)
    [] p.t = "seq" -> /\ v.k = "seq"
                      /\ LET n == Len(p.a)  L == Len(v.els)  sp == StarAt(p) IN
                         IF sp = 0 THEN L = n /\ \A i \in 1..n : Sat(p.a[i], v.els[i])
                         ELSE \E m \in 0..L : /\ L = n - 1 + m
                                               /\ \A i \in 1..n : /\ i < sp => Sat(p.a[i], v.els[i])
                                                                  /\ i > sp => Sat(p.a[i], v.els[i + m - 1])
    [] p.t = "map" -> /\ v.k = "map" /\ Len(v.els) \div 2 >= Len(p.ks)     \* CPython's length test: as many entries as keys
                      /\ \A i \in 1..Len(p.ks) : \E j \in 1..(Len(v.els) \div 2) : /\ PyEq(v.els[2 * j - 1], KeyVal(p.ks[i]))
                                                                                   /\ Sat(p.a[i], v.els[2 * j])
    [] p.t = "cls" -> /\ p.v # "NotT" /\ IsInst(v, p.v)
                      /\ \A i \in 1..Len(p.a) : LET nm == NameAt(p, i) IN
                            \/ nm = "<self>" /\ Sat(p.a[i], v)
                            \/ /\ nm \notin {"<self>", "<none>"} /\ AttrOf(v, nm) \notin {MissV, RaiseV}
                               /\ Sat(p.a[i], AttrOf(v, nm))

---------------------------------------------------------------------------
VARIABLES phase, sid, si, ci, env, log, exc, sel, gs
vars == <<phase, sid, si, ci, env, log, exc, sel, gs>>

stmt == StmtTab[sid]
Subj == SubjSeq[si]
Cur == stmt.cases[ci]

Init == /\ phase = "stmt" /\ sid \in Valid /\ si = 0 /\ ci = 0 /\ env = <<>> /\ log = <<>> /\ exc = "" /\ sel = 0 /\ gs = <<>>
PickSubject == /\ phase = "stmt" /\ phase' = "try" /\ si' \in 1..NSubj /\ ci' = 1
               /\ UNCHANGED <<sid, env, log, exc, sel, gs>>
TryCase == /\ phase = "try" /\ ci <= Len(stmt.cases)
           /\ LET r == M(Cur.p, Subj, "", [ok |-> TRUE, env |-> <<>>, log |-> log, exc |-> ""]) IN
              /\ log' = r.log /\ exc' = r.exc
              /\ IF r.exc # "" THEN phase' = "done" /\ ci' = ci /\ env' = <<>>
                 ELSE IF r.ok THEN phase' = (IF Cur.g THEN "guard" ELSE "body") /\ ci' = ci /\ env' = r.env
                 ELSE phase' = "try" /\ ci' = ci + 1 /\ env' = <<>>
           /\ UNCHANGED <<sid, si, sel, gs>>
FallOff == /\ phase = "try" /\ ci > Len(stmt.cases) /\ phase' = "done"
           /\ UNCHANGED <<sid, si, ci, env, log, exc, sel, gs>>
GuardEv == Append(log, Ev("g", ci, env))
GuardT == /\ phase = "guard" /\ phase' = "body" /\ log' = GuardEv /\ gs' = Append(gs, [i |-> ci, o |-> "T"])
          /\ UNCHANGED <<sid, si, ci, env, exc, sel>>
GuardF == /\ phase = "guard" /\ phase' = "try" /\ log' = GuardEv /\ gs' = Append(gs, [i |-> ci, o |-> "F"]) /\ ci' = ci + 1 /\ env' = <<>>
          /\ UNCHANGED <<sid, si, exc, sel>>
GuardR == /\ phase = "guard" /\ phase' = "done" /\ log' = GuardEv /\ gs' = Append(gs, [i |-> ci, o |-> "R"]) /\ exc' = "GuardErr"
          /\ UNCHANGED <<sid, si, ci, env, sel>>
Body == /\ phase = "body" /\ phase' = "done" /\ log' = Append(log, Ev("b", ci, env)) /\ sel' = ci
        /\ UNCHANGED <<sid, si, ci, env, exc, gs>>
Next == PickSubject \/ TryCase \/ FallOff \/ GuardT \/ GuardF \/ GuardR \/ Body
Spec == Init /\ [][Next]_vars

---------------------------------------------------------------------------
(* the property on the model *)
GuardOutcome(i) == IF \E j \in 1..Len(gs) : gs[j].i = i THEN gs[CHOOSE j \in 1..Len(gs) : gs[j].i = i].o ELSE "-"
\* a case whose pattern is being / was accepted has the shape the pattern describes
SelSound == (phase \in {"guard", "body"} \/ (phase = "done" /\ sel > 0)) => Sat(Cur.p, Subj)
\* every case that was passed over either does not describe the subject or had a false guard
SkipSound == (phase \in {"try", "guard", "body"} \/ (phase = "done" /\ exc = "")) =>
                \A i \in 1..(IF phase = "done" /\ sel = 0 THEN Len(stmt.cases) ELSE ci - 1) :
                   ~Sat(stmt.cases[i].p, Subj) \/ (stmt.cases[i].g /\ GuardOutcome(i) = "F")
\* when a pattern was accepted, exactly its names are bound, each once
BindComplete == phase \in {"guard", "body"} =>
                   LET bound == [i \in 1..Len(env) |-> env[i].n] IN NoDup(bound) /\ SetOf(bound) = SetOf(Names(Cur.p, ""))
\* at most one body, after every guard; guards in case order; guards only of guarded cases
Events(e) == SelectSeq(log, LAMBDA x : x.e = e)
OneBody == /\ Len(Events("b")) <= 1
           /\ (Len(Events("b")) = 1) = (sel > 0)
           /\ sel > 0 => log[Len(log)].e = "b" /\ log[Len(log)].i = sel
GuardOrder == LET g == Events("g") IN
              /\ \A i \in 1..(Len(g) - 1) : g[i].i < g[i + 1].i
              /\ \A i \in 1..Len(g) : stmt.cases[g[i].i].g /\ (sel > 0 => g[i].i <= sel)
              /\ Len(g) = Len(gs)
ExcFinal == exc # "" => phase = "done" /\ sel = 0

Publish == /\ (Dump /\ phase = "stmt") => PrintT("@@" \o ToJson([stmt |-> stmt]))
           /\ (Dump /\ phase = "done") => PrintT("@@" \o ToJson([id |-> sid, si |-> si, gs |-> [i \in 1..Len(gs) |-> gs[i].o],
                                                                  log |-> log, exc |-> exc, sel |-> sel, ci |-> ci]))
ASSUME Dump => PrintT("@@" \o ToJson([subjects |-> [i \in 1..NSubj |-> Rp(SubjSeq[i])]]))
=============================================================================
