SPECIFICATION Spec
CONSTANTS
  GridSel = "t"
  Ops = {"add", "sub", "mul", "tdiv", "fdiv", "mod", "lt", "le", "eq", "ne", "gt", "ge", "neg", "int", "round"}
INVARIANT DivmodAlgSound
INVARIANT DivmodLaw
INVARIANT OrderLaw
INVARIANT Commute
INVARIANT IntLaw
INVARIANT ImplAgreesOffDivmod
INVARIANT Publish
CHECK_DEADLOCK FALSE
