SPECIFICATION Spec
CONSTANTS
  Alphabet <- FloatAlphabet
  MaxLen = 5
  Blocks <- NoBlocks
  MaxBlocks = 0
  Dump = TRUE
INVARIANT AutomatonConsistent
INVARIANT StrToNumberOK
INVARIANT CLiteralOK
INVARIANT UnderscoreNeutral
INVARIANT Publish
CHECK_DEADLOCK FALSE
