SPECIFICATION Spec
CONSTANTS
  Modes = {"expr"}
  Names <- LvNames1
  Nums <- LvNums1
  Atoms <- NoneSet
  Opqs <- NoneSet
  LitTok = 1
  UnOps <- MinUn
  BinOps <- T3Bin
  BoolOps <- T3Bool
  CmpOps <- MinCmp
  ChainOps <- MinChain
  Ctors <- T3Ctors
  MaxOps = 3
  MaxTok = 6
  MaxParams = 0
  MaxNest = 0
  Dump = TRUE
INVARIANT TypeOK
INVARIANT ExprOK
INVARIANT SigOK
CHECK_DEADLOCK FALSE
