----------------------------- MODULE BufFmt -----------------------------
(* C17: buffer acquisition accepts exactly the matching buffers.            *)
(*                                                                          *)
(* A format is a sequence of lexemes (its text is their concatenation):     *)
(* byte-order marks @ = < > ! ^, numbers, type codes, Z (complex), x (pad), *)
(* T { } (record), ( , ) (array shape), :a: (field name), blank, tab.       *)
(*                                                                          *)
(*  Reference  : the struct-module layout rules (native sizes + alignment   *)
(*               for @, standard sizes for = < > !, native sizes without    *)
(*               alignment for ^, a count of 0 only aligns, x pads) with    *)
(*               the PEP 3118 additions as NumPy reads them (T{} records    *)
(*               laid out like C structs in @ mode, Zf/Zd/Zg, (n,m) arrays, *)
(*               names).  Ref(f) is the list of leaves <group, size,        *)
(*               offset, shape> and the item size.  A declared dtype is a   *)
(*               C type tree laid out by the x86-64 ABI.  Verdict:          *)
(*               compatible (leaf for leaf: same size, offset, shape and    *)
(*               type group, `char` matching every 1-byte group; item size  *)
(*               = sizeof(dtype); native byte order) / incompatible /       *)
(*               unspecified (same bytes, different structure: 3i against   *)
(*               int[3], Zd against two doubles, 4s against four chars).    *)
(*  Impl-shaped: Utility/Buffer.c: __Pyx_BufFmt_Init, _CheckString,         *)
(*               _ProcessTypeChunk, __pyx_buffmt_parse_array with the       *)
(*               __Pyx_BufFmt_Context fields (head stack, fmt_offset,       *)
(*               new_count, enc_count, enc_type, is_complex, pack modes,    *)
(*               is_valid_array, struct_alignment), then the item-size test *)
(*               of __Pyx_ValidateAndInit_memviewslice /                    *)
(*               __Pyx__GetBufferAndValidate.  Besides accept / reject the  *)
(*               transcription can end in `crash` (a NULL ctx->head is      *)
(*               dereferenced) or `hang` (loop that does not advance).      *)
(*                                                                          *)
(* Behaviours: Init picks a dtype and one of its spine formats (formats     *)
(* that describe it, or the empty format); a step edits the format: replace *)
(* / insert / delete a production, wrap productions in T{}, repeat a        *)
(* record, or put a production behind the end.  Every state is a case.      *)
EXTENDS Integers, Sequences, FiniteSets, TLC, Json

CONSTANTS DtNames,   \* dtypes explored
          Edits,     \* edits applied to a spine format (the first from the whole alphabet)
          MaxTail,   \* productions that may be put behind the end of the format
          Wide,      \* TRUE: the whole alphabet also for the later edits
          Deep,      \* TRUE: a production appended by an edit may be followed by tacked-on ones
          Dump

Max(a, b) == IF a > b THEN a ELSE b
RoundUp(x, a) == IF (x % a) = 0 THEN x ELSE x + (a - (x % a))
RECURSIVE ProdSeq(_)
ProdSeq(s) == IF s = <<>> THEN 1 ELSE Head(s) * ProdSeq(Tail(s))
Huge == 100000     \* stands for the size_t value reached by `--enc_count` at 0

---------------------------------------------------------------------------
(* lexemes *)
Nums == {"0", "1", "2", "3", "4", "7", "8"}
NumVal(l) == CASE l = "0" -> 0 [] l = "1" -> 1 [] l = "2" -> 2 [] l = "3" -> 3 [] l = "4" -> 4 [] l = "7" -> 7 [] l = "8" -> 8
Names == {":a:"}
Codes1 == {"?", "c", "b", "B", "h", "H", "i", "I", "l", "L", "q", "Q", "n", "N", "e", "f", "d", "g", "O", "P", "s", "p"}
ZCode(c) == CASE c = "f" -> "Zf" [] c = "d" -> "Zd" [] c = "g" -> "Zg"

\* type code -> group, native size, standard size (0: not available in a standard mode), native alignment
TCode(g, n, s, a) == [g |-> g, n |-> n, s |-> s, a |-> a]
TCof(c) == CASE c = "?" -> TCode("U", 1, 1, 1) [] c = "c" -> TCode("H", 1, 1, 1)
             [] c = "b" -> TCode("I", 1, 1, 1) [] c = "B" -> TCode("U", 1, 1, 1)
             [] c = "h" -> TCode("I", 2, 2, 2) [] c = "H" -> TCode("U", 2, 2, 2)
             [] c = "i" -> TCode("I", 4, 4, 4) [] c = "I" -> TCode("U", 4, 4, 4)
             [] c = "l" -> TCode("I", 8, 4, 8) [] c = "L" -> TCode("U", 8, 4, 8)
             [] c = "q" -> TCode("I", 8, 8, 8) [] c = "Q" -> TCode("U", 8, 8, 8)
             [] c = "n" -> TCode("I", 8, 0, 8) [] c = "N" -> TCode("U", 8, 0, 8)
             [] c = "e" -> TCode("R", 2, 2, 2) [] c = "f" -> TCode("R", 4, 4, 4)
             [] c = "d" -> TCode("R", 8, 8, 8) [] c = "g" -> TCode("R", 16, 0, 16)
             [] c = "Zf" -> TCode("C", 8, 8, 4) [] c = "Zd" -> TCode("C", 16, 16, 8)
             [] c = "Zg" -> TCode("C", 32, 0, 16)
             [] c = "O" -> TCode("O", 8, 8, 8) [] c = "P" -> TCode("P", 8, 0, 8)
             [] c = "s" -> TCode("I", 1, 1, 1) [] c = "p" -> TCode("I", 1, 1, 1)

---------------------------------------------------------------------------
(* declared dtypes: C type trees laid out by the x86-64 ABI *)
Sc(name, g, sz, al) == [name |-> name, g |-> g, size |-> sz, al |-> al, fields |-> <<>>, arr |-> <<>>]
Arr(t, dims) == [t EXCEPT !.arr = dims]
Total(t) == t.size * ProdSeq(t.arr)
RECURSIVE Place(_, _, _, _)
Place(ms, i, off, packed) ==
  IF i > Len(ms) THEN <<>>
  ELSE LET o == RoundUp(off, IF packed THEN 1 ELSE ms[i].al)
       IN <<[t |-> ms[i], off |-> o]>> \o Place(ms, i + 1, o + Total(ms[i]), packed)
RECURSIVE MaxAl(_)
MaxAl(ms) == IF ms = <<>> THEN 1 ELSE Max(Head(ms).al, MaxAl(Tail(ms)))
St_(name, ms, packed, fs, al) ==
  LET last == fs[Len(fs)]
      cpx == Len(ms) = 2 /\ ms[1].g = "R" /\ ms[2] = ms[1] /\ ms[1].arr = <<>>    \* PyrexTypes can_be_complex
  IN [name |-> name, g |-> IF cpx THEN "C" ELSE "S", size |-> RoundUp(last.off + Total(last.t), al), al |-> al,
      fields |-> fs, arr |-> <<>>]
St(name, ms, packed) == St_(name, ms, packed, Place(ms, 1, 0, packed), IF packed THEN 1 ELSE MaxAl(ms))

tSChar == Sc("schar", "I", 1, 1)    tUChar == Sc("uchar", "U", 1, 1)   tChar == Sc("char", "H", 1, 1)
tShort == Sc("short", "I", 2, 2)    tUShort == Sc("ushort", "U", 2, 2)
tInt == Sc("int", "I", 4, 4)        tUInt == Sc("uint", "U", 4, 4)
tLong == Sc("long", "I", 8, 8)      tULong == Sc("ulong", "U", 8, 8)
tFloat == Sc("float", "R", 4, 4)    tDouble == Sc("double", "R", 8, 8)  tLDouble == Sc("ldouble", "R", 16, 16)
tCFloat == Sc("cfloat", "C", 8, 4)  tCDouble == Sc("cdouble", "C", 16, 8)
tPK == St("PK", <<tSChar, tInt, tShort>>, TRUE)
tST == St("ST", <<tSChar, tInt, tShort>>, FALSE)
tIN == St("IN", <<tSChar, tLong, tSChar>>, FALSE)
tNE == St("NE", <<tSChar, tIN, tSChar>>, FALSE)
tNS == St("NS", <<tIN, tInt>>, FALSE)
tDN == St("DN", <<tSChar, tNS>>, FALSE)
tAR == St("AR", <<Arr(tInt, <<3>>), tDouble>>, FALSE)
tA2 == St("A2", <<tSChar, Arr(tShort, <<2, 3>>)>>, FALSE)
tCS == St("CS", <<tDouble, tDouble>>, FALSE)
tSA == St("SA", <<Arr(tChar, <<4>>), tInt>>, FALSE)
tFC == St("FC", <<tCFloat, tSChar>>, FALSE)
tIC == St("IC", <<tInt, tSChar>>, FALSE)
AllDt == {tSChar, tUChar, tChar, tShort, tUShort, tInt, tUInt, tLong, tULong, tFloat, tDouble, tLDouble, tCFloat, tCDouble,
          tPK, tST, tIN, tNE, tNS, tDN, tAR, tA2, tCS, tSA, tFC, tIC}
DtOf(n) == CHOOSE t \in AllDt : t.name = n

Leaf(g, sz, off, shp) == [g |-> g, sz |-> sz, off |-> off, shp |-> shp]
RECURSIVE Flatten(_, _)
RECURSIVE FlattenFields(_, _, _)
Flatten(t, base) == IF t.fields = <<>> THEN <<Leaf(t.g, t.size, base, t.arr)>> ELSE FlattenFields(t.fields, 1, base)
FlattenFields(fs, i, base) == IF i > Len(fs) THEN <<>> ELSE Flatten(fs[i].t, base + fs[i].off) \o FlattenFields(fs, i + 1, base)

\* scalars only: arrays spread out, complex = two reals
RECURSIVE Canon(_)
Canon(ls) ==
  IF ls = <<>> THEN <<>>
  ELSE LET h == Head(ls)
           n == ProdSeq(h.shp)
           one(k) == IF h.g = "C" THEN <<[g |-> "R", sz |-> h.sz \div 2, off |-> h.off + (k - 1) * h.sz],
                                         [g |-> "R", sz |-> h.sz \div 2, off |-> h.off + (k - 1) * h.sz + h.sz \div 2]>>
                     ELSE <<[g |-> h.g, sz |-> h.sz, off |-> h.off + (k - 1) * h.sz]>>
           RECURSIVE all(_)
           all(k) == IF k > n THEN <<>> ELSE one(k) \o all(k + 1)
       IN all(1) \o Canon(Tail(ls))

DtInfo(n) == LET t == DtOf(n) ls == Flatten(t, 0) IN [t |-> t, leaves |-> ls, canon |-> Canon(ls), size |-> t.size]

---------------------------------------------------------------------------
(* reference: layout of a format *)
Bad(r) == [r EXCEPT !.ok = FALSE]
RECURSIVE RDims(_, _, _, _)
RDims(f, p, dims, blank) ==
  IF p > Len(f) THEN [dims |-> <<>>, p |-> 0, blank |-> blank]
  ELSE IF f[p] = ")" THEN [dims |-> dims, p |-> p + 1, blank |-> blank]
  ELSE IF f[p] = " " THEN RDims(f, p + 1, dims, TRUE)
  ELSE IF f[p] = "," THEN RDims(f, p + 1, dims, blank)
  ELSE IF f[p] \in Nums THEN RDims(f, p + 1, Append(dims, NumVal(f[p])), blank)
  ELSE [dims |-> <<>>, p |-> 0, blank |-> blank]

RCode(r, n, pnext, code, shp) ==
  LET tc == TCof(code)
      size == IF r.mode \in {"@", "^"} THEN tc.n ELSE tc.s
      al == IF r.mode = "@" THEN tc.a ELSE 1
      o == RoundUp(r.off, al)
      fl == r.flags \cup (IF code \in {"n", "N"} THEN {"nN"} ELSE {})
  IN IF size = 0 THEN Bad(r)
     ELSE IF code \in {"s", "p"} THEN       \* one item of n bytes
       [r EXCEPT !.p = pnext, !.off = o + n, !.flags = fl,
                 !.leaves = IF n = 0 THEN @ ELSE Append(@, Leaf(tc.g, 1, o, <<n>>))]
     ELSE IF shp # <<>> THEN
       [r EXCEPT !.p = pnext, !.off = o + size * ProdSeq(shp), !.al = Max(@, al), !.flags = fl,
                 !.leaves = Append(@, Leaf(tc.g, size, o, shp))]
     ELSE [r EXCEPT !.p = pnext, !.off = o + n * size, !.al = Max(@, al), !.flags = fl,
                    !.leaves = IF n = 0 THEN @ ELSE @ \o [k \in 1..n |-> Leaf(tc.g, size, o + (k - 1) * size, <<>>)]]

Shift(ls, d) == [k \in 1..Len(ls) |-> [ls[k] EXCEPT !.off = @ + d]]
RECURSIVE Repeat(_, _, _, _)
Repeat(ls, start, size, n) == IF n = 0 THEN <<>> ELSE Shift(ls, start) \o Repeat(ls, start + size, size, n - 1)

RECURSIVE RItems(_, _)
RECURSIVE RItem(_, _)
\* (TLC evaluates a LET definition again at every use but an operator argument once: values used
\* several times are handed to a helper operator, named with a trailing underscore)
RStruct__(r, n, inner, sal, size, start) ==
  [r EXCEPT !.p = inner.p + 1, !.off = start + n * size, !.al = Max(@, sal),
            !.leaves = @ \o Repeat(inner.leaves, start, size, n),
            !.mode = inner.mode, !.big = inner.big,
            !.flags = @ \cup inner.flags \cup (IF start # r.off \/ size # inner.off THEN {"struct-pad"} ELSE {})]
RStruct_(f, r, n, inner, unused) ==             \* a record is aligned like a C struct
  IF ~inner.ok \/ inner.p > Len(f) THEN Bad(r)
  ELSE RStruct__(r, n, inner, IF r.mode = "@" THEN inner.al ELSE 1,
                 RoundUp(inner.off, IF r.mode = "@" THEN inner.al ELSE 1), RoundUp(r.off, IF r.mode = "@" THEN inner.al ELSE 1))
RStruct(f, r, n, q) ==
  IF q + 1 > Len(f) \/ f[q + 1] # "{" THEN Bad(r)
  ELSE RStruct_(f, r, n, RItems(f, [p |-> q + 2, off |-> 0, al |-> 1, leaves |-> <<>>, ok |-> TRUE, big |-> r.big,
                                    flags |-> {}, mode |-> r.mode]), 0)

RShape_(f, r, d) ==
  LET r1 == IF d.blank THEN [r EXCEPT !.flags = @ \cup {"shape-blank"}] ELSE r
  IN IF d.p = 0 \/ d.p > Len(f) \/ d.dims = <<>> THEN Bad(r)
     ELSE IF f[d.p] = "Z" THEN (IF d.p + 1 > Len(f) THEN Bad(r) ELSE RCode(r1, 1, d.p + 2, ZCode(f[d.p + 1]), d.dims))
     ELSE IF f[d.p] \in Codes1 \ {"s", "p"} THEN RCode(r1, 1, d.p + 1, f[d.p], d.dims)
     ELSE Bad(r)
RShape(f, r, q) == RShape_(f, r, RDims(f, q + 1, <<>>, FALSE))

RItem(f, r) ==
  LET hasn == f[r.p] \in Nums
      n == IF hasn THEN NumVal(f[r.p]) ELSE 1
      q == IF hasn THEN r.p + 1 ELSE r.p
      r0 == IF hasn /\ n = 0 THEN [r EXCEPT !.flags = @ \cup {"zero-count"}] ELSE r
  IN IF q > Len(f) THEN Bad(r)
     ELSE IF f[q] = "x" THEN [r0 EXCEPT !.p = q + 1, !.off = @ + n]
     ELSE IF f[q] = "T" THEN RStruct(f, r0, n, q)
     ELSE IF f[q] = "(" THEN (IF hasn THEN Bad(r) ELSE RShape(f, r0, q))
     ELSE IF f[q] = "Z" THEN (IF q + 1 > Len(f) \/ f[q + 1] \notin {"f", "d", "g"} THEN Bad(r) ELSE RCode(r0, n, q + 2, ZCode(f[q + 1]), <<>>))
     ELSE IF f[q] \in Codes1 THEN RCode(r0, n, q + 1, f[q], <<>>)
     ELSE Bad(r)

RItems(f, r) ==
  IF ~r.ok \/ r.p > Len(f) THEN r
  ELSE LET l == f[r.p] IN
    IF l = " " THEN RItems(f, [r EXCEPT !.p = @ + 1])
    ELSE IF l = "\t" THEN RItems(f, [r EXCEPT !.p = @ + 1, !.flags = @ \cup {"tab"}])
    ELSE IF l \in Names THEN RItems(f, [r EXCEPT !.p = @ + 1])
    ELSE IF l \in {"@", "=", "^"} THEN RItems(f, [r EXCEPT !.p = @ + 1, !.mode = l])
    ELSE IF l = "<" THEN RItems(f, [r EXCEPT !.p = @ + 1, !.mode = "="])
    ELSE IF l \in {">", "!"} THEN RItems(f, [r EXCEPT !.p = @ + 1, !.mode = "=", !.big = TRUE])
    ELSE IF l = "}" THEN r
    ELSE RItems(f, RItem(f, r))

Ref_(f, r) ==
     IF ~r.ok \/ r.p <= Len(f) THEN [ok |-> FALSE, leaves |-> <<>>, canon |-> <<>>, size |-> 0, big |-> r.big, flags |-> r.flags]
     ELSE [ok |-> TRUE, leaves |-> r.leaves, canon |-> Canon(r.leaves), size |-> r.off, big |-> r.big, flags |-> r.flags]
Ref(f) == Ref_(f, RItems(f, [p |-> 1, off |-> 0, al |-> 1, leaves |-> <<>>, ok |-> TRUE, big |-> FALSE, flags |-> {}, mode |-> "@"]))

GroupOK(a, b) == a = b \/ a = "H" \/ b = "H"
LeafOK(d, x) == d.sz = x.sz /\ d.off = x.off /\ GroupOK(d.g, x.g)
Exact(dl, xl) == Len(dl) = Len(xl) /\ \A k \in 1..Len(dl) : LeafOK(dl[k], xl[k]) /\ dl[k].shp = xl[k].shp
Same(dc, xc) == Len(dc) = Len(xc) /\ \A k \in 1..Len(dc) : LeafOK(dc[k], xc[k])

\* the property: verdict for an exporter that hands out format f with item size isz
Verdict(d, r, isz) ==
  IF ~r.ok \/ r.big THEN "incompatible"
  ELSE IF isz # d.size \/ r.size > isz THEN "incompatible"
  ELSE IF Exact(d.leaves, r.leaves) THEN "compatible"
  ELSE IF Same(d.canon, r.canon) THEN "unspecified"
  ELSE "incompatible"

---------------------------------------------------------------------------
(* implementation-shaped: Utility/Buffer.c *)
Top(c) == c.st[Len(c.st)]
CurField(c) == Top(c).fs[Top(c).i]
Err(c) == [c EXCEPT !.res = "err"]
Crash(c) == [c EXCEPT !.res = "crash", !.ev = @ \cup {"null-head"}]
Ev(c, e) == [c EXCEPT !.ev = @ \cup {e}]
Push(c, fs, po) == [c EXCEPT !.st = Append(@, [fs |-> fs, i |-> 1, po |-> po])]
Pop(c) == [c EXCEPT !.st = SubSeq(@, 1, Len(@) - 1)]

RECURSIVE InitPush(_, _)
InitPush(c, t) == IF t.g = "S" THEN InitPush(Push(c, t.fields, 0), t.fields[1].t) ELSE c
ImplInit(t) ==    \* __Pyx_BufFmt_Init
  InitPush([st |-> <<[fs |-> <<[t |-> t, off |-> 0]>>, i |-> 1, po |-> 0]>>, hn |-> FALSE, fo |-> 0, nc |-> 1, ec |-> 0,
            et |-> "", cx |-> FALSE, npm |-> "@", epm |-> "@", va |-> FALSE, sa |-> 0, sd |-> 0, ev |-> {}, res |-> "run", lr |-> ""], t)

\* moving on to the next field after one has been checked: the while(1) loop of _ProcessTypeChunk
RECURSIVE Descend(_, _, _)
Descend(c, t, po) ==      \* push the first member of every leading struct level (the do-while of _ProcessTypeChunk, as the loop of _Init)
  IF t.fields[1].t.g = "S" THEN Descend(Push(c, t.fields, po), t.fields[1].t, po + t.fields[1].off) ELSE Push(c, t.fields, po)
RECURSIVE Advance(_)
Advance(c) ==
  IF Len(c.st) = 1 THEN                                   \* field == &ctx->root
    (IF c.ec # 0 THEN Err([c EXCEPT !.hn = TRUE]) ELSE [c EXCEPT !.hn = TRUE])
  ELSE LET fr == Top(c)
           i1 == fr.i + 1
           c1 == [c EXCEPT !.st[Len(c.st)].i = i1]
       IN IF i1 > Len(fr.fs) THEN Advance(Pop(c1))        \* field->type == NULL: back to the parent
          ELSE IF fr.fs[i1].t.g = "S" THEN                \* all leading struct levels, like the loop of _Init
                 Descend(IF fr.fs[i1].t.fields[1].t.g = "S" THEN Ev(c1, "struct-in-first-member") ELSE c1,
                         fr.fs[i1].t, fr.po + fr.fs[i1].off)
          ELSE c1

EncSize(c) == LET tc == TCof(IF c.cx THEN ZCode(c.et) ELSE c.et) IN IF c.epm \in {"@", "^"} THEN tc.n ELSE tc.s
EncGroup(c) == TCof(IF c.cx THEN ZCode(c.et) ELSE c.et).g
EncAlign(c) == TCof(c.et).a                               \* TypeCharToAlignment / ToPadding ignore is_complex

RECURSIVE PTCLoop(_, _)
PTCNext(c3, asz) == IF c3.res # "run" THEN c3
                    ELSE IF c3.ec # 0 THEN PTCLoop(c3, asz)
                    ELSE [c3 EXCEPT !.et = "", !.cx = FALSE]
PTCLoop(c, asz) ==       \* one round of the do-while of _ProcessTypeChunk
  LET fr == Top(c)
      field == fr.fs[fr.i]
      ty == field.t
      size == EncSize(c)
      grp == EncGroup(c)
      native == c.epm = "@"
      fo1 == IF native THEN RoundUp(c.fo, EncAlign(c)) ELSE c.fo
      sa1 == IF native /\ c.sa = 0 THEN EncAlign(c) ELSE c.sa
      c1 == [c EXCEPT !.fo = fo1, !.sa = sa1]
      mismatch == ty.size # size \/ ty.g # grp
  IN IF size = 0 THEN Err(c)                                \* n, N, g have no standard size: `if (size == 0) return -1`
     ELSE IF mismatch /\ ty.g = "C" /\ ty.fields # <<>> THEN    \* struct of two floats: descend; `continue` re-tests enc_count
       PTCNext(Push(c1, ty.fields, fr.po + field.off), asz)
     ELSE IF mismatch /\ ~((ty.g = "H" \/ grp = "H") /\ ty.size = size) THEN Err(c1)
     ELSE IF fo1 # fr.po + field.off THEN Err(c1)
     ELSE PTCNext(Advance([c1 EXCEPT !.fo = fo1 + size + (IF asz # 0 THEN (asz - 1) * size ELSE 0),
                                     !.ec = IF c.ec = 0 THEN Huge ELSE c.ec - 1]), asz)

PTC(c) ==                \* __Pyx_BufFmt_ProcessTypeChunk
  IF c.et = "" THEN c
  ELSE IF c.hn THEN Crash(c)                               \* ctx->head->field with head == NULL
  ELSE LET ty == CurField(c).t
           c0 == IF c.ec = 0 THEN Ev(c, "zero-count-chunk") ELSE c
       IN IF ty.arr # <<>> THEN
            LET isstr == c.et \in {"s", "p"}
                va1 == IF isstr THEN Len(ty.arr) = 1 ELSE c.va
            IN IF isstr /\ c.ec # ty.arr[1] THEN Err(c0)
               ELSE IF ~va1 THEN Err(c0)
               ELSE PTCLoop([c0 EXCEPT !.va = FALSE, !.ec = 1], ProdSeq(ty.arr))
          ELSE PTCLoop(c0, 1)

\* __pyx_buffmt_parse_array; f[p] = "("
RECURSIVE PADims(_, _, _, _, _)
PADims(f, c, p, i, dims) ==      \* -> [c, p]; dims = arraysize of the current field
  IF p > Len(f) THEN [c |-> Err(c), p |-> p]
  ELSE IF f[p] = ")" THEN
    (IF i # Len(dims) THEN [c |-> Err(c), p |-> p] ELSE [c |-> [c EXCEPT !.va = TRUE, !.nc = 1], p |-> p + 1])
  ELSE IF f[p] = " " THEN [c |-> [c EXCEPT !.res = "hang", !.ev = @ \cup {"shape-blank-loop"}], p |-> p]   \* `continue` without ++ts
  ELSE IF f[p] \notin Nums THEN [c |-> Err(c), p |-> p]
  ELSE IF i < Len(dims) /\ NumVal(f[p]) # dims[i + 1] THEN [c |-> Err(c), p |-> p]
  ELSE IF p + 1 > Len(f) \/ f[p + 1] \notin {",", ")"} THEN [c |-> Err(c), p |-> p]
  ELSE PADims(f, c, IF f[p + 1] = "," THEN p + 2 ELSE p + 1, i + 1, dims)

ParseArray_(f, c1, p) ==
  IF c1.res # "run" THEN [c |-> c1, p |-> p]
  ELSE IF c1.hn THEN [c |-> Crash(c1), p |-> p]            \* ctx->head->field->type->ndim with head == NULL
  ELSE PADims(f, c1, p + 1, 0, CurField(c1).t.arr)
ParseArray(f, c, p) ==
  IF c.nc # 1 THEN [c |-> Err(c), p |-> p]
  ELSE ParseArray_(f, PTC(c), p)

TypeChars == {"?", "c", "b", "B", "h", "H", "i", "I", "l", "L", "q", "Q", "n", "N", "f", "d", "g", "O", "p"}

\* __Pyx_BufFmt_CheckString from position p; z = got_Z.  -> [c, p]: c.res = "run" means `return ts`
\* (at the end of the string or after a closing brace), p the position returned.
RECURSIVE CS(_, _, _, _)
RECURSIVE CSRepeat(_, _, _, _, _)
CSRepeat_(f, r, p, n) == CSRepeat(f, [r.c EXCEPT !.lr = ""], p, n, r.p)      \* (lr: the last return was at a closing brace)
CSRepeat(f, c, p, n, after) ==     \* the for loop of case 'T'
  IF n = 0 \/ c.res # "run" THEN [c |-> c, p |-> after]
  ELSE CSRepeat_(f, CS(f, c, p, FALSE), p, n - 1)

NewChunk_(c1, l, z) == IF c1.res # "run" THEN c1
                       ELSE IF c1.nc = 0 THEN               \* a count of 0 opens no chunk: it aligns (native mode) and nothing else
                         [c1 EXCEPT !.fo = IF c1.npm = "@" THEN RoundUp(@, TCof(l).a) ELSE @, !.ec = 0, !.epm = c1.npm, !.nc = 1,
                                    !.ev = @ \cup {"zero-count-chunk"}]
                       ELSE [c1 EXCEPT !.ec = c1.nc, !.epm = c1.npm, !.et = l, !.cx = z, !.nc = 1]
NewChunk(c, l, z) == NewChunk_(PTC(c), l, z)      \* case 's' and everything that falls through to it

CSEnd_(c1, p) == IF c1.res # "run" THEN [c |-> c1, p |-> p]
                 ELSE IF ~c1.hn THEN [c |-> Err(c1), p |-> p]
                 ELSE [c |-> c1, p |-> p]
CSRec2_(f, r, salign, z) == IF r.c.res # "run" THEN r
                            ELSE CS(f, [r.c EXCEPT !.sd = @ - 1, !.sa = IF salign # 0 THEN salign ELSE @], r.p, z)
CSRec_(f, c1, p, z, cnt, salign) ==
  IF c1.res # "run" THEN [c |-> c1, p |-> p]
  ELSE CSRec2_(f, CSRepeat(f, [c1 EXCEPT !.et = "", !.ec = 0, !.sa = 0, !.sd = @ + 1], p + 2, cnt, p + 2), salign, z)
CSClose_(c1, p, alignment) ==
  IF c1.res # "run" THEN [c |-> c1, p |-> p]
  ELSE [c |-> [c1 EXCEPT !.et = "", !.fo = IF alignment # 0 THEN RoundUp(@, alignment) ELSE @, !.lr = "brace"], p |-> p + 1]
CSPad_(f, c1, p, z) ==
  IF c1.res # "run" THEN [c |-> c1, p |-> p]
  ELSE CS(f, [c1 EXCEPT !.fo = @ + c1.nc, !.nc = 1, !.ec = 0, !.et = "", !.epm = c1.npm], p + 1, z)
CSArr_(f, r, z) == CS(f, r.c, r.p, z)
CS(f, c, p, z) ==
  IF c.res # "run" THEN [c |-> c, p |-> p]
  ELSE IF p > Len(f) THEN                                   \* case 0
    (IF c.et # "" /\ c.hn THEN [c |-> Err(c), p |-> p] ELSE CSEnd_(PTC(c), p))
  ELSE LET l == f[p] IN
    IF l \in {" ", "\t"} THEN CS(f, c, p + 1, z)
    ELSE IF l = "<" THEN CS(f, [c EXCEPT !.npm = "="], p + 1, z)
    ELSE IF l \in {">", "!"} THEN [c |-> Err(Ev(c, "big-endian")), p |-> p]
    ELSE IF l \in {"=", "@", "^"} THEN CS(f, [c EXCEPT !.npm = l], p + 1, z)
    ELSE IF l = "T" THEN
      (IF p + 1 > Len(f) \/ f[p + 1] # "{" THEN [c |-> Err(c), p |-> p]
       ELSE CSRec_(f, PTC([c EXCEPT !.nc = 1]), p, z, c.nc, c.sa))
    ELSE IF l = "}" THEN (IF c.sd = 0 THEN [c |-> Err(Ev(c, "stray-close")), p |-> p] ELSE CSClose_(PTC(c), p, c.sa))
    ELSE IF l = "x" THEN CSPad_(f, PTC(c), p, z)
    ELSE IF l = "Z" THEN
      (IF p + 1 > Len(f) \/ f[p + 1] \notin {"f", "d", "g"} THEN [c |-> Err(c), p |-> p] ELSE CS(f, c, p + 1, TRUE))
    ELSE IF l \in TypeChars /\ c.et = l /\ z = c.cx /\ c.epm = c.npm /\ ~c.va THEN
      CS(f, [c EXCEPT !.ec = @ + c.nc, !.nc = 1], p + 1, FALSE)          \* continue pooling same type
    ELSE IF l \in TypeChars \cup {"s"} THEN CS(f, NewChunk(c, l, z), p + 1, FALSE)
    ELSE IF l \in Names THEN CS(f, c, p + 1, z)
    ELSE IF l = "(" THEN CSArr_(f, ParseArray(f, c, p), z)
    ELSE IF l \in Nums THEN CS(f, [c EXCEPT !.nc = NumVal(l)], p + 1, z)
    ELSE [c |-> Err(Ev(c, "unknown-char")), p |-> p]        \* default: __Pyx_BufFmt_ExpectNumber fails (n N e P tab ...)

\* acquisition: format check (ImplRun), then the item-size test (ImplRes)
ImplRun_(f, r) ==       \* a closing brace at top level makes _CheckString return (non-NULL) before the end of the string
     [res |-> r.c.res, ev |-> IF r.c.res = "run" /\ r.c.lr = "brace" THEN r.c.ev \cup {"stray-close"} ELSE r.c.ev]
ImplRun(t, f) == ImplRun_(f, CS(f, ImplInit(t), 1, FALSE))
ImplRes(i, t, isz) == IF i.res = "run" THEN (IF isz = t.size THEN "accept" ELSE "reject")
                      ELSE IF i.res = "err" THEN "reject" ELSE i.res

---------------------------------------------------------------------------
(* the behaviours: the spine formats of a dtype, edited *)
\* a production is a sequence of lexemes; a format is the concatenation of its productions
RECURSIVE Flat(_)
Flat(ps) == IF ps = <<>> THEN <<>> ELSE Head(ps) \o Flat(Tail(ps))
OPEN == <<"T", "{">>
OPEN2 == <<"2", "T", "{">>
CLOSE == <<"}">>
P(c) == <<c>>
X(n) == <<n, "x">>
Z(c) == <<"Z", c>>

\* formats that describe the dtype (or nearly: same leaves, item size left to the exporter)
Spines(n) ==
  CASE n = "schar" -> {<<P("b")>>}        [] n = "uchar" -> {<<P("B")>>}      [] n = "char" -> {<<P("c")>>}
    [] n = "short" -> {<<P("h")>>}        [] n = "ushort" -> {<<P("H")>>}
    [] n = "int" -> {<<P("i")>>}          [] n = "uint" -> {<<P("I")>>}
    [] n = "long" -> {<<P("l")>>}         [] n = "ulong" -> {<<P("L")>>}
    [] n = "float" -> {<<P("f")>>}        [] n = "double" -> {<<P("d")>>}     [] n = "ldouble" -> {<<P("g")>>}
    [] n = "cfloat" -> {<<Z("f")>>}       [] n = "cdouble" -> {<<Z("d")>>}
    [] n = "PK" -> {<<P("="), P("b"), P("i"), P("h")>>}
    [] n = "ST" -> {<<P("b"), P("i"), P("h"), X("2")>>, <<OPEN, P("b"), X("3"), P("i"), P("h"), X("2"), CLOSE>>}
    [] n = "IN" -> {<<P("b"), P("q"), P("b"), X("7")>>, <<OPEN, P("b"), X("7"), P("q"), P("b"), X("7"), CLOSE>>}
    [] n = "NE" -> {<<P("b"), X("7"), OPEN, P("b"), X("7"), P("q"), P("b"), X("7"), CLOSE, P("b"), X("7")>>,
                    <<P("b"), OPEN, P("b"), P("q"), P("b"), CLOSE, P("b"), X("7")>>}
    [] n = "NS" -> {<<OPEN, P("b"), P("q"), P("b"), X("7"), CLOSE, P("i"), X("4")>>}
    [] n = "DN" -> {<<P("b"), X("7"), OPEN, OPEN, P("b"), P("q"), P("b"), X("7"), CLOSE, P("i"), X("4"), CLOSE>>,
                    <<P("b"), X("7"), P("b"), X("7"), P("q"), P("b"), X("7"), P("i"), X("4")>>}
    [] n = "AR" -> {<<<<"(", "3", ")", "i">>, P("d")>>}
    [] n = "A2" -> {<<P("b"), <<"(", "2", ",", "3", ")", "h">>>>}
    [] n = "CS" -> {<<P("d"), P("d")>>, <<Z("d")>>}
    [] n = "SA" -> {<<<<"4", "s">>, P("i")>>, <<<<"(", "4", ")", "c">>, P("i")>>}
    [] n = "FC" -> {<<Z("f"), P("b"), X("3")>>}
    [] n = "IC" -> {<<P("i"), P("b"), X("3")>>, <<P("i"), P("b")>>}

Marks == {"@", "=", "<", ">", "!", "^"}
CodesFull == {<<c>> : c \in Codes1 \ {"s", "p"}} \cup {Z("f"), Z("d"), Z("g")}
Counted == {<<"2", c>> : c \in {"b", "B", "c", "h", "i", "q", "d", "f"}} \cup {<<"3", "i">>, <<"3", "b">>, <<"2", "Z", "d">>}
Zeros == {<<"0", c>> : c \in {"i", "q", "b", "d", "h", "x"}}
Pads == {X("1"), P("x"), X("2"), X("3"), X("4"), X("7")}
Strs == {P("s"), P("p"), <<"1", "s">>, <<"2", "s">>, <<"4", "s">>, <<"4", "p">>}
Shapes == {<<"(", "3", ")", "i">>, <<"(", "2", ")", "i">>, <<"(", "2", ",", "3", ")", "h">>, <<"(", "3", ",", "2", ")", "h">>, <<"(", "2", ",", "2", ")", "i">>,
           <<"(", "4", ")", "c">>, <<"(", "4", ")", "b">>, <<"(", "3", ")", "Z", "f">>, <<"(", " ", "3", ")", "i">>}
Neutrals == {<<m>> : m \in Marks} \cup {P(" "), P("\t"), P(":a:")}
Recs == {<<"T", "{", "b", "}">>, <<"T", "{", "i", "q", "}">>}
AlphaFull == CodesFull \cup Counted \cup Zeros \cup Pads \cup Strs \cup Shapes \cup Neutrals \cup Recs
AlphaMedium == {P("b"), P("B"), P("i"), P("q"), P("d"), Z("d"), <<"2", "i">>, P("x"), P("s"), P("="), <<"0", "i">>, <<"T", "{", "b", "}">>}
AlphaNarrow == {P("b"), P("i"), P("x"), <<"(", "2", ")", "i">>, <<"2", "q">>, P("="), <<"T", "{", "b", "}">>}

VARIABLES dt,       \* name of the declared dtype
          D,        \* its type tree, leaves and size (DtInfo(dt), kept in the state so that it is computed once)
          prods,    \* the format: a sequence of productions
          ned,      \* edits applied to the spine
          lastpos,  \* position of the last edit (edits go left to right)
          atend,    \* every edit so far appended at the end
          ntail,    \* productions appended at the end (edits that did so included)
          act,      \* the edit that produced the format (published: the binding checks that every edit occurs)
          ref,      \* Ref(format)
          impl      \* outcome of the transcription of the format check
vars == <<dt, D, prods, ned, lastpos, atend, ntail, act, ref, impl>>
fmt == Flat(prods)

Editable(i) == prods[i] \notin {OPEN, OPEN2, CLOSE}
\* byte-order marks stay outside records (inside, NumPy and the code give them different meanings for the record's padding)
RECURSIVE DepthAt(_, _)
DepthAt(ps, i) == IF i <= 1 THEN 0
                  ELSE DepthAt(ps, i - 1) + (IF ps[i - 1] \in {OPEN, OPEN2} THEN 1 ELSE IF ps[i - 1] = CLOSE THEN -1 ELSE 0)
MarkProds == {<<m>> : m \in Marks}
Placeable(a, i) == a \in MarkProds => DepthAt(prods, i) = 0
Alpha == IF ned = 0 THEN AlphaFull ELSE IF Wide THEN AlphaFull ELSE AlphaMedium

Set_(a, ps, e, lp, ae, nt, f) ==
  /\ act' = a /\ prods' = ps /\ ned' = ned + e /\ lastpos' = lp /\ atend' = ae /\ ntail' = nt
  /\ ref' = Ref(f) /\ impl' = ImplRun(D.t, f)
  /\ UNCHANGED <<dt, D>>
Set(a, ps, e, lp, ae, nt) == Set_(a, ps, e, lp, ae, nt, Flat(ps))

InsertAt(ps, i, a) == SubSeq(ps, 1, i - 1) \o <<a>> \o SubSeq(ps, i, Len(ps))
Subst == /\ ned < Edits
         /\ \E i \in (lastpos + 1)..Len(prods) : /\ Editable(i)
              /\ \E a \in Alpha \ {prods[i]} : Placeable(a, i) /\ Set("Subst", [prods EXCEPT ![i] = a], 1, i, FALSE, ntail)
Insert == /\ ned < Edits
          /\ \E i \in (lastpos + 1)..Len(prods) :
               /\ \E a \in Alpha : Placeable(a, i) /\ Set("Insert", InsertAt(prods, i, a), 1, i, FALSE, ntail)
InsertEnd == /\ ned < Edits /\ ntail < MaxTail /\ (Deep \/ ntail = 0)
             /\ \E a \in Alpha : Set("InsertEnd", Append(prods, a), 1, Len(prods) + 1, atend, IF Deep THEN ntail + 1 ELSE MaxTail)
Delete == /\ ned < Edits
          /\ \E i \in (lastpos + 1)..Len(prods) : /\ Editable(i)
               /\ Set("Delete", SubSeq(prods, 1, i - 1) \o SubSeq(prods, i + 1, Len(prods)), 1, i - 1, FALSE, ntail)
WrapAll == /\ ned < Edits /\ lastpos = 0 /\ prods # <<>> /\ \A i \in 1..Len(prods) : prods[i] \notin MarkProds
           /\ \E o \in {OPEN, OPEN2} : Set("WrapAll", <<o>> \o prods \o <<CLOSE>>, 1, Len(prods) + 2, FALSE, ntail)
WrapOne == /\ ned < Edits
           /\ \E i \in (lastpos + 1)..Len(prods) : /\ Editable(i) /\ prods[i] \notin Neutrals
                /\ Set("WrapOne", SubSeq(prods, 1, i - 1) \o <<OPEN, prods[i], CLOSE>> \o SubSeq(prods, i + 1, Len(prods)), 1, i + 2, FALSE, ntail)
Repeat2 == /\ ned < Edits
           /\ \E i \in (lastpos + 1)..Len(prods) : /\ prods[i] = OPEN
                /\ Set("Repeat2", [prods EXCEPT ![i] = OPEN2], 1, i, FALSE, ntail)
\* outside the grammar, but one character: a closing brace that closes nothing
StrayClose == /\ ned < Edits /\ ntail = 0
              /\ \E i \in (lastpos + 1)..(Len(prods) + 1) : DepthAt(prods, i) = 0
                   /\ Set("StrayClose", InsertAt(prods, i, CLOSE), 1, i, FALSE, ntail)
\* after the format has run past its end: a few more productions from the narrow alphabet
Tack == /\ atend /\ ntail < MaxTail
        /\ \E a \in AlphaNarrow : Set("Tack", Append(prods, a), 0, Len(prods) + 1, TRUE, ntail + 1)

Init == /\ dt \in DtNames /\ D = DtInfo(dt) /\ prods \in Spines(dt) \cup {<<>>}
        /\ ned = 0 /\ lastpos = 0 /\ atend = TRUE /\ ntail = 0 /\ act = "Init"
        /\ ref = Ref(Flat(prods)) /\ impl = ImplRun(D.t, Flat(prods))
Next == Subst \/ Insert \/ InsertEnd \/ Delete \/ WrapAll \/ WrapOne \/ Repeat2 \/ StrayClose \/ Tack
Spec == Init /\ [][Next]_vars

---------------------------------------------------------------------------
(* what TLC decides *)
Case == TRUE
ISz == IF ref.ok /\ ref.size > 0 THEN ref.size ELSE D.size     \* exporter's item size = size of its format (if it has one)
HasDt == ref.ok /\ ref.size > 0 /\ ref.size < D.size             \* second exporter: same format, item size = sizeof(dtype)
VCalc == Verdict(D, ref, ISz)
VDt == Verdict(D, ref, D.size)
ICalc == ImplRes(impl, D.t, ISz)
IDt == ImplRes(impl, D.t, D.size)

\* deviations of the code as it is that the model exhibits: every one passes a marked code point or a marked kind of format
KnownRefFlags == {"struct-pad", "shape-blank"}
KnownEvents == {"null-head"}
Agree(v, i) == \/ v = "unspecified" /\ i \in {"accept", "reject"}
               \/ v = "compatible" /\ i = "accept"
               \/ v = "incompatible" /\ i = "reject"
Marked == ref.flags \cap KnownRefFlags # {} \/ impl.ev \cap KnownEvents # {}

\* the transcription never accepts a buffer the reference calls incompatible ...
NoFalseAccept ==
                   /\ ICalc = "accept" => VCalc # "incompatible"
                   /\ (HasDt /\ IDt = "accept") => VDt # "incompatible"
\* ... it crashes or hangs only on formats that are incompatible or carry a marked feature ...
ImplAgreesOffMarked == Case => (Agree(VCalc, ICalc) \/ Marked)
ImplAgreesOffMarkedDt == (Case /\ HasDt) => (Agree(VDt, IDt) \/ Marked)
\* ... and the reference is internally consistent: leaves ascend, stay inside the item, Exact implies Same
RefSound == Case /\ ref.ok =>
              /\ \A k \in 1..Len(ref.canon) : ref.canon[k].off + ref.canon[k].sz <= ref.size
              /\ \A k \in 1..(Len(ref.canon) - 1) : ref.canon[k].off + ref.canon[k].sz <= ref.canon[k + 1].off
              /\ (Exact(D.leaves, ref.leaves) => Same(D.canon, ref.canon))
DtSound == \A k \in 1..(Len(D.canon) - 1) : D.canon[k].off + D.canon[k].sz <= D.canon[k + 1].off

Tup(ls) == [k \in 1..Len(ls) |-> <<ls[k].g, ls[k].sz, ls[k].off>>]
Publish ==
  (Dump /\ Case) =>
    PrintT("@@" \o ToJson([dt |-> dt, f |-> fmt, ok |-> ref.ok, big |-> ref.big, size |-> ref.size, fl |-> ref.flags,
                            cn |-> Tup(ref.canon), isz |-> ISz, v |-> VCalc, ir |-> ICalc, ie |-> impl.ev,
                            vd |-> IF HasDt THEN VDt ELSE "", ird |-> IF HasDt THEN IDt ELSE "", ned |-> ned, nt |-> ntail, act |-> act]))
PublishDt ==
  (Dump /\ prods = <<>> /\ ned = 0 /\ ntail = 0) =>
    PrintT("@@" \o ToJson([dtype |-> dt, size |-> D.size, leaves |-> [k \in 1..Len(D.leaves) |->
                             <<D.leaves[k].g, D.leaves[k].sz, D.leaves[k].off, D.leaves[k].shp>>]]))
=============================================================================
