SPECIFICATION Spec
CONSTANTS
  T = 2
  N = 3
  Schedule = "static"
INVARIANT NoDoubleOwner
INVARIANT EachExecutedOnce
INVARIANT Safe
PROPERTY Terminates
CHECK_DEADLOCK FALSE
