SPECIFICATION Spec
CONSTANTS
  GridSel = "q"
  Ops = {"abs"}
  Dump = FALSE
INVARIANT StructAgreesEverywhere
CHECK_DEADLOCK FALSE
