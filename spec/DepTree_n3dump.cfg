SPECIFICATION Spec
CONSTANTS
  NConst = 3
  OrderMode = "perm"
  SelfLoops = TRUE
  MaxQ = 3
  Dump = TRUE
INVARIANT MemoComplete
INVARIANT ResultCorrect
INVARIANT PartialSound
INVARIANT LoopOnStack
INVARIANT StackIsPath
INVARIANT DumpLeaves
CHECK_DEADLOCK FALSE
