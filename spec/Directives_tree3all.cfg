SPECIFICATION Spec
CONSTANTS
  MaxNodes = 3
  MaxDepth = 3
  OvMode = "all"
  SrcMode = "none"
  MaxStack = 0
  StackNodes = 0
  Shape = "any"
  Dump = FALSE
INVARIANT WellFormed
INVARIANT Unambiguous
INVARIANT DictAgrees
INVARIANT OwnAgrees
INVARIANT Precedence
INVARIANT NoLeak
INVARIANT Applies
INVARIANT SourceOrder
INVARIANT Publish
CHECK_DEADLOCK FALSE
