SPECIFICATION Spec
CONSTANTS
  MaxNodes = 3
  MaxDepth = 3
  OvMode = "all"
  SrcMode = "none"
  Dump = FALSE
INVARIANT WellFormed
INVARIANT Unambiguous
INVARIANT DictAgrees
INVARIANT NoLeak
INVARIANT Applies
INVARIANT SourceOrder
INVARIANT Publish
CHECK_DEADLOCK FALSE
