SPECIFICATION Spec
CONSTANTS
  Pairs <- PairsDeep
  AllPython = FALSE
  Dump = TRUE
INVARIANT RefShape
INVARIANT ImplAgreesOffHazards
INVARIANT Publish
CHECK_DEADLOCK FALSE
