SPECIFICATION Spec
CONSTANTS
  Pairs <- PairsDeep
  PairsRef <- PairsFull
  Dump = TRUE
INVARIANT RefShape
INVARIANT RefIsCPythonOnPlainClasses
INVARIANT ImplAgreesOffHazards
INVARIANT Publish
CHECK_DEADLOCK FALSE
