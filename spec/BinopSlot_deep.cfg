SPECIFICATION Spec
CONSTANTS
  Pairs <- PairsDeep
  PairsRef <- PairsRefDeep
  Dump = TRUE
INVARIANT RefShape
INVARIANT RefIsCPythonOnPlainClasses
INVARIANT ImplAgreesOffHazards
INVARIANT Publish
CHECK_DEADLOCK FALSE
