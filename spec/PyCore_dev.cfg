SPECIFICATION Spec
CONSTANTS
  MaxS = 1
  EDepth = 1
  SDepth = 0
  Shapes = {"", "H"}
  Mod = 1
  NCalls = 6
  NProg = 1
  Sample = FALSE
  Wide = FALSE
  Dump = TRUE
INVARIANT NoDangling
INVARIANT ModuleOK
INVARIANT DefiniteAssignment
INVARIANT ObsOK
INVARIANT GenOK
INVARIANT Publish
CHECK_DEADLOCK FALSE
