SPECIFICATION Spec
CONSTANTS
  MaxS = 2
  EDepth = 2
  SDepth = 1
  Shapes = {"", "H", "L", "C", "HC", "LC"}
  Mod = 1
  NCalls = 6
  NProg = 8
  Sample = TRUE
  Wide = TRUE
  Dump = TRUE
INVARIANT NoDangling
INVARIANT ModuleOK
INVARIANT DefiniteAssignment
INVARIANT ObsOK
INVARIANT GenOK
INVARIANT Publish
CHECK_DEADLOCK FALSE
