SPECIFICATION Spec
CONSTANTS
  Mods = {"a", "b"}
  HasPxd = {"a", "b"}
  Pxis = {"i"}
  MaxT = 2
  MaxLen = 4
  Dump = FALSE
  FromFile = FALSE
INVARIANT TypeOK
INVARIANT IncAcyclic
INVARIANT DepsAgree
INVARIANT DepsAgreePxd
INVARIANT RebuildAgree
INVARIANT BuildIsFixpoint
INVARIANT NoSpuriousRebuild
INVARIANT DumpLeaves
CHECK_DEADLOCK FALSE
