SPECIFICATION Spec
CONSTANTS
  Pairs <- PairsStrict
  PairsRef <- NoPairs
  Dump = FALSE
INVARIANT RefShape
INVARIANT ImplAgrees
INVARIANT RefShape
INVARIANT Publish
CHECK_DEADLOCK FALSE
