SPECIFICATION Spec
CONSTANTS
  Pairs <- PairsQuick
  AllPython = FALSE
  Dump = FALSE
INVARIANT ImplAgrees
CHECK_DEADLOCK FALSE
