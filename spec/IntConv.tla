------------------------------ MODULE IntConv ------------------------------
(* C05: Python object <-> C integer conversion is exact or raises.            *)
(*  Reference  : Ref(T, o) = the integer value of o (a PyLong, or the result  *)
(*               of __index__) when it fits T, OverflowError when it does     *)
(*               not, TypeError when o is not an integer; ToPy(T, v) = v.     *)
(*  Impl-shaped: Cython/Utility/TypeConversion.c, CPython >= 3.12 layout:     *)
(*               CIntFromPy (__Pyx_PyLong_As_T, __Pyx_PyULong_/__Pyx_PySLong_ *)
(*               digit-count branches, __PYX_VERIFY_RETURN_INT(_EXC), the     *)
(*               PyLong_As* tails, __Pyx_LargePyLong_ in its _PyLong_AsByte-  *)
(*               Array form and in its bit-chunk fallback form), __Pyx_Non-   *)
(*               PyLong_ + __Pyx_PyNumber_Long (nb_int slot / PyNumber_Long), *)
(*               __Pyx_PyIndex_AsSsize_t + __Pyx_PyLong_AsSsize_t (Py_ssize_t,*)
(*               Py_hash_t), PyLong_AsSsize_t (ssize_t), CIntToPy.            *)
(* All sizes are CONSTANT-scaled: S = PyLong_SHIFT, an ABI = widths of long,  *)
(* long long, Py_ssize_t/size_t, int (+ whether PyLong_AsInt exists), a type  *)
(* = [w, s, path].  C casts wrap (Cast), joins of digits wrap in the joining  *)
(* type (JoinMod) or are flagged eBad when a signed join would overflow, so a *)
(* wrong guard shows as a wrong value.  One root state per (abi, cfg, type)   *)
(* fans out into one state per object carrying the result of the transcription;*)
(* with Steps a further step through one named action per branch of the       *)
(* transcription gives the coverage (vacuity) table.                          *)
EXTENDS Integers, Sequences, TLC, Json, FiniteSets

CONSTANTS S,      \* PyLong_SHIFT (scaled)
          Abis,   \* set of [wl, wll, wc, wi, asint]
          Cfgs,   \* set of [internals, slots, chunks]
          Types,  \* set of [w, s, path], path in {"gen", "ssz", "cssz", "topy"}
          Pub,    \* TRUE: symbolic value forms, every case published for replay
          MaxK,   \* ~Pub: all |v| <= 2^(S*MaxK) + 2 ...
          HiK,    \* ... plus +-2^(S*q [+S-1]) + {-1,0,1} for q <= HiK
          Steps   \* TRUE: every case takes the step through its branch action (coverage table)

eOverflow == 100000001
eType     == 100000002
eValue    == 100000003
eBad      == 100000004   \* C undefined behaviour, or an error indicator without the -1 return

P2(n) == 2 ^ n
U(w)  == [w |-> w, s |-> FALSE]
Sg(w) == [w |-> w, s |-> TRUE]
Min(t) == IF t.s THEN -P2(t.w - 1) ELSE 0
Max(t) == IF t.s THEN P2(t.w - 1) - 1 ELSE P2(t.w) - 1
Fits(t, v) == v >= Min(t) /\ v <= Max(t)
Cast(t, v) == LET m == P2(t.w) r == ((v % m) + m) % m IN IF t.s /\ r >= P2(t.w - 1) THEN r - m ELSE r
Abs(x) == IF x < 0 THEN -x ELSE x
RECURSIVE ND(_)
ND(a) == IF a = 0 THEN 0 ELSE 1 + ND(a \div P2(S))          \* number of PyLong digits of |v|
JoinMod(a, n, w) == (a % P2(S * n)) % P2(w)                  \* pylong_join(n, digits, <unsigned type of width w>)
JoinT(t, a, n) == LET x == a % P2(S * n) IN IF Fits(t, x) THEN x ELSE eBad   \* pylong_join(n, digits, TYPE)

---------------------------------------------------------------------------
(* objects: [kind, ck (PyLong_Check), v, v2].  "pylong": int, bool, int subclass; "sublong_ov": int subclass *)
(* of value v whose __int__ is overridden (returns v2); the others are not ints and offer nb_index / nb_int *)
Kinds == {"pylong", "sublong_ov", "index_only", "nbint_only", "both_same", "both_differ",
          "nbint_raises_V", "nbint_raises_O", "strlike", "no_slots"}
None == [k |-> "none", v |-> 0]
Val(v) == [k |-> "val", v |-> v]
Raise(e) == [k |-> "raise", v |-> e]
Idx(o) == IF o.kind \in {"index_only", "both_same", "both_differ"} THEN Val(o.v) ELSE None     \* nb_index
NbInt(o) == CASE o.kind \in {"nbint_only", "both_same"} -> Val(o.v)                              \* nb_int
              [] o.kind \in {"both_differ", "sublong_ov"} -> Val(o.v2)
              [] o.kind = "nbint_raises_V" -> Raise(eValue)
              [] o.kind = "nbint_raises_O" -> Raise(eOverflow)
              [] OTHER -> None

(* reference *)
IntValue(o) == IF o.ck THEN Val(o.v) ELSE Idx(o)
Ref(t, o) == LET iv == IntValue(o) IN
             IF iv.k = "val" THEN (IF Fits(t, iv.v) THEN iv.v ELSE eOverflow) ELSE eType

---------------------------------------------------------------------------
(* implementation-shaped.  A C-level result is [v, e, br, sub]: returned value, pending error, branch *)
R(v, e, br, sub) == [v |-> v, e |-> e, br |-> br, sub |-> sub]
Err(t, e, br) == R(Cast(t, -1), e, br, "err")

\* __PYX__VERIFY_RETURN_INT(target_type = t, func_type = f, func_value = val, exc); err = error left by the C-API call
Verify(t, f, val, err, exc, br) ==
  IF t.w < f.w /\ val # Cast(f, Cast(t, val))
  THEN IF exc /\ val = Cast(f, -1) /\ err # 0 THEN R(Cast(t, -1), err, br, "apierr")
       ELSE R(Cast(t, -1), eOverflow, br, "ovf")      \* raise_neg_overflow / raise_overflow: both OverflowError
  ELSE R(Cast(t, val), err, br, IF err # 0 THEN "apierr" ELSE "ok")

AsSigned(v, w)   == IF Fits(Sg(w), v) THEN [v |-> v, e |-> 0] ELSE [v |-> -1, e |-> eOverflow]          \* PyLong_AsLong & co
AsUnsigned(v, w) == IF Fits(U(w), v) THEN [v |-> v, e |-> 0] ELSE [v |-> P2(w) - 1, e |-> eOverflow]    \* PyLong_AsUnsignedLong & co

\* __Pyx_LargePyLong_: _PyLong_AsByteArray form
LargeBytes(t, v, br) == IF Fits(t, v) THEN R(v, 0, br, "ok") ELSE Err(t, eOverflow, br)
\* bit-chunk fallback form (Limited API): chunk_size = 8*sizeof(long) - 2
RECURSIVE ChunkLoop(_, _, _, _, _)
ChunkLoop(t, chunk, bits, step, val) ==
  IF bits < t.w - chunk
  THEN ChunkLoop(t, chunk, bits + chunk, step \div P2(chunk), val + (step % P2(chunk)) * P2(bits))
  ELSE [bits |-> bits, step |-> step, val |-> val]
LargeChunks(t, abi, v0, xl, br) ==
  LET v == xl                      \* `PyLong_CheckExact(x) ? x : PyNumber_Long(x)`: xl = v0 unless __int__ is overridden
      chunk == abi.wl - 2 neg == v < 0 IN
  IF ~t.s /\ neg THEN Err(t, eOverflow, br)
  ELSE LET l == ChunkLoop(t, chunk, 0, IF neg THEN -v - 1 ELSE v, 0)
           id == AsSigned(l.step, abi.wl)
           rem == t.w - l.bits - (IF t.s THEN 1 ELSE 0)
       IN IF id.e # 0 THEN Err(t, id.e, br)                    \* idigit < 0 -> done, ret = -1
          ELSE IF rem >= abi.wl - 1 \/ rem < 0 THEN R(0, 0, br, "ub")   \* 1L << remaining_bits undefined
          ELSE IF id.v >= P2(rem) THEN Err(t, eOverflow, br)
          ELSE LET val == l.val + id.v * P2(l.bits) IN
               IF ~Fits(t, val) THEN R(0, 0, br, "ub")
               ELSE R(IF neg THEN -val - 1 ELSE val, 0, br, "ok")
Large(t, abi, c, v, xl, br) == IF c.chunks THEN LargeChunks(t, abi, v, xl, br) ELSE LargeBytes(t, v, br)

\* tails of __Pyx_PyULong_ / __Pyx_PySLong_
UTail(t, abi, c, v, xl) ==
  IF t.w <= abi.wl THEN LET r == AsUnsigned(v, abi.wl) IN Verify(t, U(abi.wl), r.v, r.e, TRUE, "u_api_long")
  ELSE IF t.w <= abi.wll THEN LET r == AsUnsigned(v, abi.wll) IN Verify(t, U(abi.wll), r.v, r.e, TRUE, "u_api_llong")
  ELSE Large(t, abi, c, v, xl, "u_large")
STail(t, abi, c, v, xl) ==
  IF abi.asint /\ t.w <= abi.wi /\ abi.wi < abi.wl
  THEN LET r == AsSigned(v, abi.wi) IN Verify(t, Sg(abi.wi), r.v, r.e, TRUE, "s_api_int")
  ELSE IF t.w <= abi.wl THEN LET r == AsSigned(v, abi.wl) IN Verify(t, Sg(abi.wl), r.v, r.e, TRUE, "s_api_long")
  ELSE IF t.w <= abi.wll THEN LET r == AsSigned(v, abi.wll) IN Verify(t, Sg(abi.wll), r.v, r.e, TRUE, "s_api_llong")
  ELSE Large(t, abi, c, v, xl, "s_large")

Lbl(s, n) == s \o ToString(n)
\* __Pyx_PyULong_: x is not negative and not compact when internals are used
ULong(t, abi, c, v, xl) ==
  LET n == ND(v) IN
  IF c.internals THEN
    IF n \in 2..4 /\ t.w > (n - 1) * S /\ abi.wl > n * S
    THEN Verify(t, U(abi.wl), JoinMod(v, n, abi.wl), 0, FALSE, Lbl("u_join_long", n))
    ELSE IF n \in 2..4 /\ t.w > (n - 1) * S /\ t.w >= n * S
    THEN LET j == JoinT(t, v, n) IN IF j = eBad THEN R(0, 0, Lbl("u_join_T", n), "ub") ELSE R(j, 0, Lbl("u_join_T", n), "ok")
    ELSE UTail(t, abi, c, v, xl)
  ELSE IF v < 0 THEN Err(t, eOverflow, "u_neg_cmp")      \* PyObject_RichCompareBool(x, Py_False, Py_LT)
  ELSE UTail(t, abi, c, v, xl)
\* __Pyx_PySLong_
SLong(t, abi, c, v, xl) ==
  LET a == Abs(v) n == ND(a) IN
  IF c.internals /\ n \in 2..4 /\ t.w > (n - 1) * S THEN
    IF v < 0 THEN
      IF abi.wl > n * S
      THEN LET j == Cast(Sg(abi.wl), JoinMod(a, n, abi.wl)) IN
           IF ~Fits(Sg(abi.wl), -j) THEN R(0, 0, Lbl("sneg_join_long", n), "ub")
           ELSE Verify(t, Sg(abi.wl), -j, 0, FALSE, Lbl("sneg_join_long", n))
      ELSE IF t.w - 1 > n * S
      THEN LET j == JoinT(t, a, n) IN IF j = eBad THEN R(0, 0, Lbl("sneg_join_T", n), "ub") ELSE R(-j, 0, Lbl("sneg_join_T", n), "ok")
      ELSE STail(t, abi, c, v, xl)
    ELSE
      IF abi.wl > n * S
      THEN Verify(t, U(abi.wl), JoinMod(a, n, abi.wl), 0, FALSE, Lbl("spos_join_long", n))
      ELSE IF t.w - 1 > n * S
      THEN LET j == JoinT(t, a, n) IN IF j = eBad THEN R(0, 0, Lbl("spos_join_T", n), "ub") ELSE R(j, 0, Lbl("spos_join_T", n), "ok")
      ELSE STail(t, abi, c, v, xl)
  ELSE STail(t, abi, c, v, xl)
\* __Pyx_PyLong_As_T(x) for a PyLong of value v
PyLongConv(t, abi, c, v, xl) ==
  LET n == ND(Abs(v)) IN
  IF ~t.s THEN
    IF c.internals THEN
      IF v < 0 THEN Err(t, eOverflow, "u_neg")
      ELSE IF n <= 1 THEN Verify(t, U(abi.wc), v, 0, FALSE, "u_compact")
      ELSE ULong(t, abi, c, v, xl)
    ELSE ULong(t, abi, c, v, xl)
  ELSE IF c.internals /\ n <= 1 THEN Verify(t, Sg(abi.wc), v, 0, FALSE, "s_compact")
  ELSE SLong(t, abi, c, v, xl)

\* __Pyx_PyNumber_Long for a non-PyLong: nb_int slot, or PyNumber_Long() when type slots are not used
NumberLong(c, o) ==
  IF c.slots THEN NbInt(o)
  ELSE IF NbInt(o).k # "none" THEN NbInt(o)
  ELSE IF Idx(o).k # "none" THEN Idx(o)
  ELSE IF o.kind = "strlike" THEN Val(o.v) ELSE None
GenConv(t, abi, c, o) ==
  IF o.ck THEN PyLongConv(t, abi, c, o.v, IF o.kind = "sublong_ov" THEN o.v2 ELSE o.v)
  ELSE LET r == NumberLong(c, o) IN
       IF r.k = "val" THEN [PyLongConv(t, abi, c, r.v, r.v) EXCEPT !.br = "np_value"]
       ELSE IF r.k = "raise" THEN Err(t, r.v, "np_raise")
       ELSE Err(t, eType, "np_typeerror")

\* __Pyx_PyLong_AsSsize_t / __Pyx_PyIndex_AsSsize_t
SszLong(t, abi, c, v) ==
  LET a == Abs(v) n == ND(a) r == AsSigned(v, abi.wc) IN
  IF c.internals /\ n = 0 THEN R(0, 0, "ss_zero", "ok")
  ELSE IF c.internals /\ n \in 1..4 /\ abi.wc > n * S
  THEN LET iv == Cast(Sg(abi.wc), JoinMod(a, n, abi.wc)) res == IF v < 0 THEN -iv ELSE iv IN
       IF Fits(Sg(abi.wc), res) THEN R(res, 0, Lbl("ss_join", n), "ok") ELSE R(0, 0, Lbl("ss_join", n), "ub")
  ELSE R(r.v, r.e, "ss_api", IF r.e # 0 THEN "apierr" ELSE "ok")
SszConv(t, abi, c, o) ==
  IF o.ck THEN SszLong(t, abi, c, o.v)
  ELSE IF Idx(o).k = "val" THEN [SszLong(t, abi, c, Idx(o).v) EXCEPT !.br = "ss_index_value"]
  ELSE Err(t, eType, "ss_index_typeerror")
\* ssize_t: PyLong_AsSsize_t(o)
CsszConv(t, abi, c, o) ==
  IF o.ck THEN LET r == AsSigned(o.v, abi.wc) IN R(r.v, r.e, "cs_api", IF r.e # 0 THEN "apierr" ELSE "ok")
  ELSE Err(t, eType, "cs_typeerror")

\* CIntToPy
ToPy(t, abi, v) ==
  IF ~t.s THEN
    IF t.w < abi.wl THEN R(Cast(Sg(abi.wl), v), 0, "tp_u_long", "ok")
    ELSE IF t.w <= abi.wl THEN R(Cast(U(abi.wl), v), 0, "tp_u_ulong", "ok")
    ELSE IF t.w <= abi.wll THEN R(Cast(U(abi.wll), v), 0, "tp_u_ullong", "ok")
    ELSE R(v, 0, "tp_u_bytes", "ok")
  ELSE IF t.w <= abi.wl THEN R(Cast(Sg(abi.wl), v), 0, "tp_s_long", "ok")
  ELSE IF t.w <= abi.wll THEN R(Cast(Sg(abi.wll), v), 0, "tp_s_llong", "ok")
  ELSE R(v, 0, "tp_s_bytes", "ok")

Conv(t, abi, c, o) == CASE t.path = "gen" -> GenConv(t, abi, c, o)
                         [] t.path = "ssz" -> SszConv(t, abi, c, o)
                         [] t.path = "cssz" -> CsszConv(t, abi, c, o)
                         [] t.path = "topy" -> ToPy(t, abi, o.v)
\* what the caller observes: `if (x == (T)-1 && PyErr_Occurred())`
Outcome(t, r) == IF r.sub = "ub" THEN eBad
                 ELSE IF r.e # 0 THEN (IF r.v = Cast(t, -1) THEN r.e ELSE eBad)
                 ELSE r.v

---------------------------------------------------------------------------
(* constants for the configurations *)
E == IF S >= 4 THEN 2 ELSE 1
Abi(wl, wll, wc, wi, asint) == [wl |-> wl, wll |-> wll, wc |-> wc, wi |-> wi, asint |-> asint]
\* images of real ABIs: 30-bit digits LP64 / ILP32 / LLP64 (Win64); 15-bit digits LP64 / ILP32
AbiLP64   == Abi(2*S + E, 2*S + E, 2*S + E, S + E, FALSE)
AbisNamedA(ai) == {Abi(2*S + E, 2*S + E, 2*S + E, S + E, ai), Abi(S + E, 2*S + E, S + E, S + E, ai),
                   Abi(S + E, 2*S + E, 2*S + E, S + E, ai), Abi(4*S + E, 4*S + E, 4*S + E, 2*S + E, ai),
                   Abi(2*S + E, 4*S + E, 2*S + E, 2*S + E, ai)}
AbisNamed == AbisNamedA(TRUE) \cup AbisNamedA(FALSE)
AbisNamedF == AbisNamedA(FALSE)
AbisCov == {Abi(2*S + E, 2*S + E, 2*S + E, S + E, TRUE), Abi(S + E, 2*S + E, S + E, S + E, FALSE), Abi(4*S + E, 4*S + E, 4*S + E, 2*S + E, FALSE)}
AbisQuick4 == AbisCov \cup {Abi(S + E, 2*S + E, 2*S + E, S + E, FALSE)}
\* PyLong_AsInt only matters where int is narrower than long
AbisQuick == AbisNamedA(FALSE) \cup {Abi(2*S + E, 2*S + E, 2*S + E, S + E, TRUE), Abi(4*S + E, 4*S + E, 4*S + E, 2*S + E, TRUE)}
\* every ordering of the widths relative to the digit boundaries, including widths that are exact multiples of S
AbisSweep == UNION {UNION {{Abi(wl, wll, wc, wi, ai) : wc \in {wl, wll}, wi \in {wl, S + 1}, ai \in BOOLEAN} :
                             wll \in {wl, wl + S}} : wl \in (S + 2)..(4*S + 2)}
Cfg(i, s, k) == [internals |-> i, slots |-> s, chunks |-> k]
CfgDefault == Cfg(TRUE, TRUE, FALSE)        \* default build
CfgNoInt   == Cfg(FALSE, TRUE, FALSE)       \* -DCYTHON_USE_PYLONG_INTERNALS=0
CfgLimited == Cfg(FALSE, FALSE, TRUE)       \* -DCYTHON_LIMITED_API: no internals, no type slots, chunk fallback
Cfgs3 == {CfgDefault, CfgNoInt, CfgLimited}
CfgsAll == {Cfg(x[1], x[2], x[3]) : x \in BOOLEAN \X BOOLEAN \X BOOLEAN}

Ty(w, s, p) == [w |-> w, s |-> s, path |-> p]
TypesSweep == {Ty(x[1], x[2], x[3]) : x \in (2..(5*S + 2)) \X BOOLEAN \X {"gen", "topy"}}
\* images of the real LP64 types for 30-bit digits: 8, 16, 32, 64, 128 bits (S = 7: 3, 5, 9, 16, 30 bits, so that every
\* type bound and digit boundary, each +-1, keeps its real order: the harness checks this class by class)
ImgW == {S - 4, S - 2, S + E, 2*S + E, 4*S + E}
TypesImg == {Ty(x[1], x[2], x[3]) : x \in ImgW \X BOOLEAN \X {"gen", "topy"}} \cup {Ty(2*S + E, TRUE, "ssz"), Ty(2*S + E, TRUE, "cssz")}
SszTypes(abis) == {Ty(w, TRUE, p) : w \in {a.wc : a \in abis}, p \in {"ssz", "cssz"}}
TypesSweepNamed == TypesSweep \cup SszTypes(AbisNamed)
TypesSweepQuick == TypesSweep \cup SszTypes(AbisCov)
TypesSweepGen == {Ty(x[1], x[2], "gen") : x \in (2..(5*S + 2)) \X BOOLEAN}
TypesSweepAll == TypesSweepGen \cup SszTypes(AbisSweep)
AbisLP64 == {AbiLP64}
\* a thinner family for the branch-coverage run
TypesCov == {Ty(x[1], x[2], x[3]) : x \in {2, S + 1, 2*S, 2*S + 1, 3*S, 3*S + 1, 4*S + 1, 5*S + 2} \X BOOLEAN \X {"gen", "topy"}} \cup SszTypes(AbisCov)
TypesOne == {Ty(S + E, TRUE, "gen")}

---------------------------------------------------------------------------
(* value forms (Pub): the harness evaluates the same form with the real S = 30 and real widths *)
Form(f, q, r, sg, d, tw, ts, hi) == [f |-> f, q |-> q, r |-> r, sg |-> sg, d |-> d, tw |-> tw, ts |-> ts, hi |-> hi]
BitForms == {Form("bit", x[1], x[2], x[3], x[4], 0, FALSE, FALSE) :
             x \in {y \in (0..5) \X {0, S - 1} \X {1, -1} \X {-1, 0, 1} : S * y[1] + y[2] <= 4 * S + E}}
BoundForms == {Form("bound", 0, 0, 1, x[1], x[2], x[3], x[4]) : x \in {-1, 0, 1} \X ImgW \X BOOLEAN \X BOOLEAN}
FormVal(fm) == IF fm.f = "raw" THEN fm.d ELSE IF fm.f = "bit" THEN fm.sg * P2(S * fm.q + fm.r) + fm.d
               ELSE (IF fm.hi THEN Max([w |-> fm.tw, s |-> fm.ts]) ELSE Min([w |-> fm.tw, s |-> fm.ts])) + fm.d
NIForms(t) == {fm \in BitForms : fm.r = 0 /\ fm.d = 0 /\ fm.q \in {0, 1, 2, 3, 4}}
              \cup {fm \in BoundForms : fm.tw = t.w /\ fm.ts = t.s /\ fm.d \in {0, IF fm.hi THEN 1 ELSE -1}}
RawF(v) == Form("raw", 0, 0, 1, v, 0, FALSE, FALSE)     \* ~Pub: the plain value travels in field d
RawForm == RawF(0)

Obj(kind, v) == [kind |-> kind, ck |-> kind \in {"pylong", "sublong_ov"}, v |-> v, v2 |-> v + 1]
LowVals == (-(P2(S * MaxK) + 2))..(P2(S * MaxK) + 2)
HighVals == {x[3] * P2(S * x[1] + x[2]) + x[4] : x \in (0..HiK) \X {0, S - 1} \X {1, -1} \X {-1, 0, 1}} \ LowVals
FewVals(t) == {Min(t) - 1, Min(t), Max(t), Max(t) + 1, 0, -1, P2(S), P2(2*S) + 1, -P2(3*S)}

VARIABLES abi, c, ty, obj, form, res, pc
vars == <<abi, c, ty, obj, form, res, pc>>

\* a root state per (abi, cfg, type); `Gen` fans out into one state per object (so that TLC workers share the work)
Init == /\ abi \in Abis /\ c \in Cfgs /\ ty \in Types
        /\ (ty.path \in {"ssz", "cssz"} => ty.w = abi.wc)
        /\ (ty.path = "topy" => c = CHOOSE x \in Cfgs : TRUE)
        /\ obj = Obj("pylong", 0) /\ form = RawForm /\ res = R(0, 0, "root", "root") /\ pc = "root"
\* (separate actions over plain sets: TLC enumerates unions of set images very slowly)
Emit(k, fm) == LET o == Obj(k, FormVal(fm)) IN
               /\ obj' = o /\ form' = fm /\ res' = Conv(ty, abi, c, o)
               /\ pc' = IF Steps THEN "case" ELSE "done"
               /\ UNCHANGED <<abi, c, ty>>
InDomain(v) == ty.path = "topy" => Fits(ty, v)
GenIntBit   == Pub /\ pc = "root" /\ \E fm \in BitForms : InDomain(FormVal(fm)) /\ Emit("pylong", fm)
GenIntBound == Pub /\ pc = "root" /\ \E fm \in BoundForms : InDomain(FormVal(fm)) /\ Emit("pylong", fm)
GenIntLow   == ~Pub /\ pc = "root" /\ \E v \in LowVals : InDomain(v) /\ Emit("pylong", RawF(v))
GenIntHigh  == ~Pub /\ pc = "root" /\ \E v \in HighVals : InDomain(v) /\ Emit("pylong", RawF(v))
GenNonInt   == /\ pc = "root" /\ ty.path # "topy"
               /\ \E k \in Kinds \ {"pylong"} :
                    \/ Pub /\ \E fm \in NIForms(ty) : Emit(k, fm)
                    \/ ~Pub /\ \E v \in FewVals(ty) : Emit(k, RawF(v))
Gen == GenIntBit \/ GenIntBound \/ GenIntLow \/ GenIntHigh \/ GenNonInt

\* one named action per branch of the transcription (TLC -coverage counts them)
A_u_neg == pc = "case" /\ res.br = "u_neg" /\ pc' = "done" /\ UNCHANGED <<abi, c, ty, obj, form, res>>
A_u_neg_cmp == pc = "case" /\ res.br = "u_neg_cmp" /\ pc' = "done" /\ UNCHANGED <<abi, c, ty, obj, form, res>>
A_u_compact == pc = "case" /\ res.br = "u_compact" /\ pc' = "done" /\ UNCHANGED <<abi, c, ty, obj, form, res>>
A_u_join_long2 == pc = "case" /\ res.br = "u_join_long2" /\ pc' = "done" /\ UNCHANGED <<abi, c, ty, obj, form, res>>
A_u_join_long3 == pc = "case" /\ res.br = "u_join_long3" /\ pc' = "done" /\ UNCHANGED <<abi, c, ty, obj, form, res>>
A_u_join_long4 == pc = "case" /\ res.br = "u_join_long4" /\ pc' = "done" /\ UNCHANGED <<abi, c, ty, obj, form, res>>
A_u_join_T2 == pc = "case" /\ res.br = "u_join_T2" /\ pc' = "done" /\ UNCHANGED <<abi, c, ty, obj, form, res>>
A_u_join_T3 == pc = "case" /\ res.br = "u_join_T3" /\ pc' = "done" /\ UNCHANGED <<abi, c, ty, obj, form, res>>
A_u_join_T4 == pc = "case" /\ res.br = "u_join_T4" /\ pc' = "done" /\ UNCHANGED <<abi, c, ty, obj, form, res>>
A_u_api_long == pc = "case" /\ res.br = "u_api_long" /\ pc' = "done" /\ UNCHANGED <<abi, c, ty, obj, form, res>>
A_u_api_llong == pc = "case" /\ res.br = "u_api_llong" /\ pc' = "done" /\ UNCHANGED <<abi, c, ty, obj, form, res>>
A_u_large == pc = "case" /\ res.br = "u_large" /\ pc' = "done" /\ UNCHANGED <<abi, c, ty, obj, form, res>>
A_s_compact == pc = "case" /\ res.br = "s_compact" /\ pc' = "done" /\ UNCHANGED <<abi, c, ty, obj, form, res>>
A_sneg_join_long2 == pc = "case" /\ res.br = "sneg_join_long2" /\ pc' = "done" /\ UNCHANGED <<abi, c, ty, obj, form, res>>
A_sneg_join_long3 == pc = "case" /\ res.br = "sneg_join_long3" /\ pc' = "done" /\ UNCHANGED <<abi, c, ty, obj, form, res>>
A_sneg_join_long4 == pc = "case" /\ res.br = "sneg_join_long4" /\ pc' = "done" /\ UNCHANGED <<abi, c, ty, obj, form, res>>
A_sneg_join_T2 == pc = "case" /\ res.br = "sneg_join_T2" /\ pc' = "done" /\ UNCHANGED <<abi, c, ty, obj, form, res>>
A_sneg_join_T3 == pc = "case" /\ res.br = "sneg_join_T3" /\ pc' = "done" /\ UNCHANGED <<abi, c, ty, obj, form, res>>
A_sneg_join_T4 == pc = "case" /\ res.br = "sneg_join_T4" /\ pc' = "done" /\ UNCHANGED <<abi, c, ty, obj, form, res>>
A_spos_join_long2 == pc = "case" /\ res.br = "spos_join_long2" /\ pc' = "done" /\ UNCHANGED <<abi, c, ty, obj, form, res>>
A_spos_join_long3 == pc = "case" /\ res.br = "spos_join_long3" /\ pc' = "done" /\ UNCHANGED <<abi, c, ty, obj, form, res>>
A_spos_join_long4 == pc = "case" /\ res.br = "spos_join_long4" /\ pc' = "done" /\ UNCHANGED <<abi, c, ty, obj, form, res>>
A_spos_join_T2 == pc = "case" /\ res.br = "spos_join_T2" /\ pc' = "done" /\ UNCHANGED <<abi, c, ty, obj, form, res>>
A_spos_join_T3 == pc = "case" /\ res.br = "spos_join_T3" /\ pc' = "done" /\ UNCHANGED <<abi, c, ty, obj, form, res>>
A_spos_join_T4 == pc = "case" /\ res.br = "spos_join_T4" /\ pc' = "done" /\ UNCHANGED <<abi, c, ty, obj, form, res>>
A_s_api_int == pc = "case" /\ res.br = "s_api_int" /\ pc' = "done" /\ UNCHANGED <<abi, c, ty, obj, form, res>>
A_s_api_long == pc = "case" /\ res.br = "s_api_long" /\ pc' = "done" /\ UNCHANGED <<abi, c, ty, obj, form, res>>
A_s_api_llong == pc = "case" /\ res.br = "s_api_llong" /\ pc' = "done" /\ UNCHANGED <<abi, c, ty, obj, form, res>>
A_s_large == pc = "case" /\ res.br = "s_large" /\ pc' = "done" /\ UNCHANGED <<abi, c, ty, obj, form, res>>
A_np_value == pc = "case" /\ res.br = "np_value" /\ pc' = "done" /\ UNCHANGED <<abi, c, ty, obj, form, res>>
A_np_raise == pc = "case" /\ res.br = "np_raise" /\ pc' = "done" /\ UNCHANGED <<abi, c, ty, obj, form, res>>
A_np_typeerror == pc = "case" /\ res.br = "np_typeerror" /\ pc' = "done" /\ UNCHANGED <<abi, c, ty, obj, form, res>>
A_ss_zero == pc = "case" /\ res.br = "ss_zero" /\ pc' = "done" /\ UNCHANGED <<abi, c, ty, obj, form, res>>
A_ss_join1 == pc = "case" /\ res.br = "ss_join1" /\ pc' = "done" /\ UNCHANGED <<abi, c, ty, obj, form, res>>
A_ss_join2 == pc = "case" /\ res.br = "ss_join2" /\ pc' = "done" /\ UNCHANGED <<abi, c, ty, obj, form, res>>
A_ss_join3 == pc = "case" /\ res.br = "ss_join3" /\ pc' = "done" /\ UNCHANGED <<abi, c, ty, obj, form, res>>
A_ss_join4 == pc = "case" /\ res.br = "ss_join4" /\ pc' = "done" /\ UNCHANGED <<abi, c, ty, obj, form, res>>
A_ss_api == pc = "case" /\ res.br = "ss_api" /\ pc' = "done" /\ UNCHANGED <<abi, c, ty, obj, form, res>>
A_ss_index_value == pc = "case" /\ res.br = "ss_index_value" /\ pc' = "done" /\ UNCHANGED <<abi, c, ty, obj, form, res>>
A_ss_index_typeerror == pc = "case" /\ res.br = "ss_index_typeerror" /\ pc' = "done" /\ UNCHANGED <<abi, c, ty, obj, form, res>>
A_cs_api == pc = "case" /\ res.br = "cs_api" /\ pc' = "done" /\ UNCHANGED <<abi, c, ty, obj, form, res>>
A_cs_typeerror == pc = "case" /\ res.br = "cs_typeerror" /\ pc' = "done" /\ UNCHANGED <<abi, c, ty, obj, form, res>>
A_tp_u_long == pc = "case" /\ res.br = "tp_u_long" /\ pc' = "done" /\ UNCHANGED <<abi, c, ty, obj, form, res>>
A_tp_u_ulong == pc = "case" /\ res.br = "tp_u_ulong" /\ pc' = "done" /\ UNCHANGED <<abi, c, ty, obj, form, res>>
A_tp_u_ullong == pc = "case" /\ res.br = "tp_u_ullong" /\ pc' = "done" /\ UNCHANGED <<abi, c, ty, obj, form, res>>
A_tp_u_bytes == pc = "case" /\ res.br = "tp_u_bytes" /\ pc' = "done" /\ UNCHANGED <<abi, c, ty, obj, form, res>>
A_tp_s_long == pc = "case" /\ res.br = "tp_s_long" /\ pc' = "done" /\ UNCHANGED <<abi, c, ty, obj, form, res>>
A_tp_s_llong == pc = "case" /\ res.br = "tp_s_llong" /\ pc' = "done" /\ UNCHANGED <<abi, c, ty, obj, form, res>>
A_tp_s_bytes == pc = "case" /\ res.br = "tp_s_bytes" /\ pc' = "done" /\ UNCHANGED <<abi, c, ty, obj, form, res>>

Next == \/ GenIntBit \/ GenIntBound \/ GenIntLow \/ GenIntHigh \/ GenNonInt
        \/ A_u_neg \/ A_u_neg_cmp \/ A_u_compact \/ A_u_join_long2 \/ A_u_join_long3 \/ A_u_join_long4
        \/ A_u_join_T2 \/ A_u_join_T3 \/ A_u_join_T4 \/ A_u_api_long \/ A_u_api_llong \/ A_u_large
        \/ A_s_compact \/ A_sneg_join_long2 \/ A_sneg_join_long3 \/ A_sneg_join_long4
        \/ A_sneg_join_T2 \/ A_sneg_join_T3 \/ A_sneg_join_T4
        \/ A_spos_join_long2 \/ A_spos_join_long3 \/ A_spos_join_long4
        \/ A_spos_join_T2 \/ A_spos_join_T3 \/ A_spos_join_T4
        \/ A_s_api_int \/ A_s_api_long \/ A_s_api_llong \/ A_s_large
        \/ A_np_value \/ A_np_raise \/ A_np_typeerror
        \/ A_ss_zero \/ A_ss_join1 \/ A_ss_join2 \/ A_ss_join3 \/ A_ss_join4 \/ A_ss_api
        \/ A_ss_index_value \/ A_ss_index_typeerror \/ A_cs_api \/ A_cs_typeerror
        \/ A_tp_u_long \/ A_tp_u_ulong \/ A_tp_u_ullong \/ A_tp_u_bytes \/ A_tp_s_long \/ A_tp_s_llong \/ A_tp_s_bytes
Done == pc = "done" /\ UNCHANGED vars
Spec == Init /\ [][Next \/ Done]_vars

---------------------------------------------------------------------------
Out == Outcome(ty, res)
IsCase == pc # "root"
IsConv == IsCase /\ ty.path # "topy"

(* integers (int, bool, int subclasses): exact value or OverflowError, in every branch *)
IntExact == (IsConv /\ obj.kind = "pylong") => Out = Ref(ty, obj)
(* C -> Python is the identity on the whole range of the type *)
ToPyExact == (IsCase /\ ty.path = "topy") => (Out = obj.v /\ Fits(ty, obj.v))
(* no undefined behaviour, no error indicator without the error return value *)
NoBad == IsCase => Out # eBad
(* every case leaves through a named branch: checked as deadlock freedom (a case whose label has no *)
(* action deadlocks; `Done` stutters on evaluated cases), so the coverage table is complete        *)
(* non-integers: the transcription deviates from the reference only through these root causes:     *)
(*   gen/slots  : the nb_int slot is consulted where the reference consults nb_index               *)
(*   gen/~slots : PyNumber_Long(): nb_int before nb_index, and parsing of str/bytes-like objects   *)
(*   cssz       : PyLong_AsSsize_t never consults nb_index                                         *)
(*   gen/chunks : the bit-chunk fallback of __Pyx_LargePyLong_ calls PyNumber_Long() on a non-exact *)
(*                int, i.e. an overridden __int__ of an int subclass (types wider than long long)   *)
(* and Py_ssize_t / Py_hash_t (ssz) never deviate                                                  *)
Deviates == IsConv /\ Out # Ref(ty, obj)
RootCause == Deviates =>
   \/ obj.kind = "sublong_ov" /\ ty.path = "gen" /\ c.chunks /\ ty.w > abi.wll
   \/ /\ ~obj.ck
      /\ \/ ty.path = "gen" /\ c.slots /\ NbInt(obj) # Idx(obj)
         \/ ty.path = "gen" /\ ~c.slots /\ ((NbInt(obj).k # "none" /\ NbInt(obj) # Idx(obj)) \/ obj.kind = "strlike")
         \/ ty.path = "cssz" /\ Idx(obj).k = "val"
(* deliberately false: TLC must refute it (the model exhibits the nb_int/nb_index deviation) *)
NeverDeviates == ~Deviates

Publish == (Pub /\ (pc = "case" \/ (~Steps /\ pc = "done"))) =>
   PrintT("@@" \o ToJson([w |-> ty.w, s |-> ty.s, path |-> ty.path, internals |-> c.internals, slots |-> c.slots,
                          chunks |-> c.chunks, kind |-> obj.kind, form |-> form, v |-> obj.v,
                          ref |-> IF IsConv THEN Ref(ty, obj) ELSE obj.v, impl |-> Out, br |-> res.br, sub |-> res.sub]))
=============================================================================
