---------------------------- MODULE TypeInfer ----------------------------
(***************************************************************************)
(* C40 - safe type inference never changes pure-Python results.            *)
(*                                                                         *)
(* Part 1  PyNum: Python's numbers as the property needs them: unbounded   *)
(*         integers (sign + base-10000 limbs, TLC integers are 32 bit),    *)
(*         floats on the exactly representable dyadic grid n/2^e (plus the *)
(*         symbolic literal 1e308 and "undecided"), strings as code point  *)
(*         sequences.  `arith` phase: one state per (op, x, y) case read   *)
(*         from IOEnv.ARITH, result published and compared with CPython.   *)
(* Part 2  the program language (expressions / statements as records read  *)
(*         from IOEnv.PROGS), its reference semantics (no mention of       *)
(*         inference: small-step over statements, all loop iterations),    *)
(*         Cython's static typing of the expressions given the types of    *)
(*         the locals (B3 facts exported from the real compiler), and the  *)
(*         hazard judgement: on the reference execution, where does a      *)
(*         C-typed local or a C-typed operation NOT behave like the Python *)
(*         object it replaces (unbound read, int stored in a double, C     *)
(*         arithmetic leaving 64 bit, Py_UCS4 compared as a number ...).   *)
(* Part 3  transcription of the inferer's own rules: which names           *)
(*         MarkOverflowingArithmetic marks (visit_safe/neutral/dangerous), *)
(*         and safe_spanning_type over the assignments of a local; the     *)
(*         exported facts must satisfy these equations, and every hazard   *)
(*         is attributed to the rule that let it through.                  *)
(***************************************************************************)
EXTENDS Integers, Sequences, FiniteSets, TLC, Json, IOUtils

CONSTANTS Phase,        \* "arith" | "run"
          MaxLimbs,     \* bound on the size of integers (invariant)
          MaxSteps      \* bound on the number of statements executed per case (invariant)

B == 10000
Max(a, b) == IF a > b THEN a ELSE b
Min(a, b) == IF a < b THEN a ELSE b
Abs(n) == IF n < 0 THEN -n ELSE n

---------------------------------------------------------------------------
(* magnitudes: little-endian sequences of limbs 0..9999 without high zeros *)
Limb(m, i) == IF i <= Len(m) THEN m[i] ELSE 0

RECURSIVE MTrim(_)
MTrim(m) == IF Len(m) > 0 /\ m[Len(m)] = 0 THEN MTrim(SubSeq(m, 1, Len(m) - 1)) ELSE m

RECURSIVE MCmpFrom(_, _, _)
MCmpFrom(a, b, i) == IF i = 0 THEN 0 ELSE IF a[i] < b[i] THEN -1 ELSE IF a[i] > b[i] THEN 1 ELSE MCmpFrom(a, b, i - 1)
MCmp(a, b) == IF Len(a) < Len(b) THEN -1 ELSE IF Len(a) > Len(b) THEN 1 ELSE MCmpFrom(a, b, Len(a))

RECURSIVE MAddFrom(_, _, _, _)
MAddFrom(a, b, i, c) == IF i > Max(Len(a), Len(b)) THEN (IF c = 0 THEN <<>> ELSE <<c>>)
                        ELSE LET s == Limb(a, i) + Limb(b, i) + c IN <<s % B>> \o MAddFrom(a, b, i + 1, s \div B)
MAdd(a, b) == MAddFrom(a, b, 1, 0)

RECURSIVE MSubFrom(_, _, _, _)      \* a >= b
MSubFrom(a, b, i, br) == IF i > Len(a) THEN <<>>
                         ELSE LET d == a[i] - Limb(b, i) - br IN
                              IF d < 0 THEN <<d + B>> \o MSubFrom(a, b, i + 1, 1) ELSE <<d>> \o MSubFrom(a, b, i + 1, 0)
MSub(a, b) == MTrim(MSubFrom(a, b, 1, 0))

RECURSIVE MMulSmallFrom(_, _, _, _)
MMulSmallFrom(a, k, i, c) == IF i > Len(a) THEN (IF c = 0 THEN <<>> ELSE <<c>>)
                             ELSE LET p == a[i] * k + c IN <<p % B>> \o MMulSmallFrom(a, k, i + 1, p \div B)
MMulSmall(a, k) == IF k = 0 \/ a = <<>> THEN <<>> ELSE MMulSmallFrom(a, k, 1, 0)      \* 0 <= k < B

Zeros(n) == [i \in 1..n |-> 0]
RECURSIVE MMulFrom(_, _, _)
MMulFrom(a, b, j) == IF j > Len(b) THEN <<>>
                     ELSE MAdd(IF b[j] = 0 THEN <<>> ELSE Zeros(j - 1) \o MMulSmall(a, b[j]), MMulFrom(a, b, j + 1))
MMul(a, b) == IF a = <<>> \/ b = <<>> THEN <<>> ELSE MMulFrom(a, b, 1)

RECURSIVE QDigit(_, _, _, _)        \* the largest d in lo..hi with d*b <= r   (lo*b <= r)
QDigit(r, b, lo, hi) == IF lo = hi THEN lo
                        ELSE LET mid == (lo + hi + 1) \div 2 IN
                             IF MCmp(MMulSmall(b, mid), r) <= 0 THEN QDigit(r, b, mid, hi) ELSE QDigit(r, b, lo, mid - 1)
RECURSIVE MDivFrom(_, _, _, _)      \* schoolbook long division, limb i of a downwards, r = running remainder
MDivFrom(a, b, i, r) == IF i = 0 THEN [q |-> <<>>, r |-> r]
                        ELSE LET r1 == MTrim(<<a[i]>> \o r)
                                 d == QDigit(r1, b, 0, B - 1)
                                 rest == MDivFrom(a, b, i - 1, MSub(r1, MMulSmall(b, d)))
                             IN [q |-> rest.q \o <<d>>, r |-> rest.r]
MDivMod(a, b) == LET x == MDivFrom(a, b, Len(a), <<>>) IN [q |-> MTrim(x.q), r |-> x.r]     \* b # <<>>

RECURSIVE MPow2(_)
MPow2(n) == IF n = 0 THEN <<1>> ELSE IF n >= 13 THEN MMulSmall(MPow2(n - 13), 8192) ELSE MMulSmall(MPow2(n - 1), 2)

RECURSIVE MFromNat(_)
MFromNat(n) == IF n = 0 THEN <<>> ELSE <<n % B>> \o MFromNat(n \div B)
MSmall(m) == Len(m) <= 2                                  \* < 10^8: fits a TLC integer with room to spare
MToNat(m) == Limb(m, 1) + B * Limb(m, 2)

(* bitwise operations on magnitudes: 13-bit chunks *)
RECURSIVE MChunks(_)
MChunks(m) == IF m = <<>> THEN <<>> ELSE LET dm == MDivMod(m, <<8192>>) IN <<MToNat(dm.r)>> \o MChunks(dm.q)
RECURSIVE MFromChunks(_, _, _)
MFromChunks(cs, i, acc) == IF i = 0 THEN acc ELSE MFromChunks(cs, i - 1, MAdd(MMulSmall(acc, 8192), MFromNat(cs[i])))
RECURSIVE NBits(_, _, _, _)         \* f: 1 and, 2 or, 3 xor, 4 and-not ; k bits
NBits(f, a, b, k) == IF k = 0 THEN 0
                     ELSE LET x == a % 2
                              y == b % 2
                              z == CASE f = 1 -> x * y [] f = 2 -> Max(x, y) [] f = 3 -> (x + y) % 2 [] OTHER -> x * (1 - y)
                          IN z + 2 * NBits(f, a \div 2, b \div 2, k - 1)
MBitOp(f, a, b) == LET ca == MChunks(a)
                       cb == MChunks(b)
                       n == Max(Len(ca), Len(cb))
                       cs == [i \in 1..n |-> NBits(f, Limb(ca, i), Limb(cb, i), 13)]
                   IN MFromChunks(cs, n, <<>>)

---------------------------------------------------------------------------
(* Python values *)
Z(neg, m) == [t |-> "int", neg |-> (neg /\ m # <<>>), m |-> m]
IZero == Z(FALSE, <<>>)
IOne == Z(FALSE, <<1>>)
INat(n) == Z(FALSE, MFromNat(n))
ISmallInt(n) == Z(n < 0, MFromNat(Abs(n)))
INeg(x) == Z(~x.neg, x.m)
IAdd(x, y) == IF x.neg = y.neg THEN Z(x.neg, MAdd(x.m, y.m))
              ELSE LET c == MCmp(x.m, y.m) IN
                   IF c = 0 THEN IZero ELSE IF c > 0 THEN Z(x.neg, MSub(x.m, y.m)) ELSE Z(y.neg, MSub(y.m, x.m))
ISub(x, y) == IAdd(x, INeg(y))
IMul(x, y) == Z(x.neg # y.neg, MMul(x.m, y.m))
ICmp(x, y) == IF x.neg # y.neg THEN (IF x.neg THEN -1 ELSE 1) ELSE IF x.neg THEN MCmp(y.m, x.m) ELSE MCmp(x.m, y.m)
IDivMod(x, y) == LET dm == MDivMod(x.m, y.m) IN            \* Python floor division, y # 0
                 IF x.neg = y.neg THEN [q |-> Z(FALSE, dm.q), r |-> Z(y.neg, dm.r)]
                 ELSE IF dm.r = <<>> THEN [q |-> Z(TRUE, dm.q), r |-> IZero]
                 ELSE [q |-> Z(TRUE, MAdd(dm.q, <<1>>)), r |-> Z(y.neg, MSub(y.m, dm.r))]
IShl(x, n) == Z(x.neg, MMul(x.m, MPow2(n)))
IShr(x, n) == IDivMod(x, Z(FALSE, MPow2(n))).q
RECURSIVE IPow(_, _)
IPow(x, n) == IF n = 0 THEN IOne                       \* square and multiply: recursion depth log n
              ELSE LET h == IPow(x, n \div 2) IN IF n % 2 = 0 THEN IMul(h, h) ELSE IMul(IMul(h, h), x)
INot(x) == ISub(INeg(x), IOne)
IBit(f, x, y) ==        \* f: 1 and, 2 or, 3 xor ; negative numbers as infinite two's complement
    LET nx == INot(x).m      \* magnitude of ~x (non-negative) when x < 0
        ny == INot(y).m
        P(m) == Z(FALSE, m)
        N(m) == INot(Z(FALSE, m))
    IN CASE ~x.neg /\ ~y.neg -> P(MBitOp(f, x.m, y.m))
         [] f = 1 /\ x.neg /\ ~y.neg -> P(MBitOp(4, y.m, nx))
         [] f = 1 /\ ~x.neg /\ y.neg -> P(MBitOp(4, x.m, ny))
         [] f = 1 -> N(MBitOp(2, nx, ny))
         [] f = 2 /\ x.neg /\ ~y.neg -> N(MBitOp(4, nx, y.m))
         [] f = 2 /\ ~x.neg /\ y.neg -> N(MBitOp(4, ny, x.m))
         [] f = 2 -> N(MBitOp(1, nx, ny))
         [] f = 3 /\ x.neg /\ ~y.neg -> N(MBitOp(3, nx, y.m))
         [] f = 3 /\ ~x.neg /\ y.neg -> N(MBitOp(3, x.m, ny))
         [] OTHER -> P(MBitOp(3, nx, ny))
ISmall(x) == MSmall(x.m)
IToInt(x) == IF x.neg THEN -MToNat(x.m) ELSE MToNat(x.m)

P63 == <<5808, 5477, 368, 3372, 922>>       \* 2^63 = 9223372036854775808
P53 == <<992, 4740, 1992, 9007>>            \* 2^53 = 9007199254740992
Fits64(x) == IF x.neg THEN MCmp(x.m, P63) <= 0 ELSE MCmp(x.m, P63) < 0
Within53(x) == MCmp(x.m, P53) <= 0

Bool(b) == [t |-> "bool", b |-> b]
Str(s) == [t |-> "str", s |-> s]
(* floats: c = "dy": n / 2^e exactly (|n| < 2^15, 0 <= e <= 8, n odd or e = 0);                      *)
(*         c = "huge": the literal 1e308 ; c = "und": a float the model does not decide                *)
FUnd == [t |-> "float", c |-> "und", n |-> 0, e |-> 0]
FHuge == [t |-> "float", c |-> "huge", n |-> 0, e |-> 0]
NLim == 32768
RECURSIVE FNorm(_, _)
FNorm(n, e) == IF e > 0 /\ n % 2 = 0 THEN FNorm(n \div 2, e - 1)
               ELSE IF Abs(n) >= NLim \/ e > 8 THEN FUnd ELSE [t |-> "float", c |-> "dy", n |-> n, e |-> e]
Pw2(k) == 2 ^ k
IsNum(v) == v.t \in {"int", "bool", "float"}
AsInt(v) == IF v.t = "bool" THEN (IF v.b THEN IOne ELSE IZero) ELSE v         \* int or bool -> int
ToFloat(v) == IF v.t = "float" THEN v
              ELSE LET x == AsInt(v) IN IF ISmall(x) /\ MToNat(x.m) < NLim THEN FNorm(IToInt(x), 0) ELSE FUnd
FIsDy(f) == f.c = "dy"
FZero(f) == f.c = "dy" /\ f.n = 0
\* a zero produced by * / // % or negation may be -0.0: the model does not decide its sign
NoZero(f) == IF FZero(f) THEN FUnd ELSE f

Exc(name) == [t |-> "exc", x |-> name]
IsExc(v) == v.t = "exc"
Und == [t |-> "und"]          \* the whole observation is not decided by the model

FAdd(x, y) == IF ~(FIsDy(x) /\ FIsDy(y)) THEN FUnd
              ELSE LET e == Max(x.e, y.e) IN FNorm(x.n * Pw2(e - x.e) + y.n * Pw2(e - y.e), e)
FNeg(x) == IF FIsDy(x) THEN NoZero([x EXCEPT !.n = -x.n]) ELSE FUnd
FMul(x, y) == IF ~(FIsDy(x) /\ FIsDy(y)) THEN FUnd ELSE NoZero(FNorm(x.n * y.n, x.e + y.e))
IsPow2(n) == \E k \in 0..24 : n = Pw2(k)
Log2(n) == CHOOSE k \in 0..24 : n = Pw2(k)
FloorDivNat(a, b) == IF b > 0 THEN a \div b ELSE (-a) \div (-b)          \* TLC's \div floors for b > 0
ModPy(a, b) == a - b * FloorDivNat(a, b)
FDiv(x, y) ==       \* y is not zero
    IF ~(FIsDy(x) /\ FIsDy(y)) THEN FUnd
    ELSE LET num == x.n * Pw2(y.e)
             den == y.n * Pw2(x.e)
         IN IF num % Abs(den) = 0 THEN NoZero(FNorm(FloorDivNat(num, den), 0))
            ELSE IF IsPow2(Abs(den)) /\ Log2(Abs(den)) <= 8 THEN FNorm(IF den < 0 THEN -num ELSE num, Log2(Abs(den)))
            ELSE FUnd
FFloorDiv(x, y) == IF ~(FIsDy(x) /\ FIsDy(y)) THEN FUnd
                   ELSE NoZero(FNorm(FloorDivNat(x.n * Pw2(y.e), y.n * Pw2(x.e)), 0))
FMod(x, y) == IF ~(FIsDy(x) /\ FIsDy(y)) THEN FUnd
              ELSE LET e == Max(x.e, y.e) IN NoZero(FNorm(ModPy(x.n * Pw2(e - x.e), y.n * Pw2(e - y.e)), e))
RECURSIVE FPowNat(_, _)
FPowNat(x, k) == IF k = 0 THEN FNorm(1, 0) ELSE IF k = 1 THEN x
                 ELSE LET h == FPowNat(x, k \div 2) IN IF k % 2 = 0 THEN FMul(h, h) ELSE FMul(FMul(h, h), x)
\* comparison of two decided numbers: -1 / 0 / 1 ; 2 = undecided
FCmp(x, y) == IF x.c = "und" \/ y.c = "und" THEN 2
              ELSE IF x.c = "huge" /\ y.c = "huge" THEN 0
              ELSE IF x.c = "huge" THEN 1 ELSE IF y.c = "huge" THEN -1
              ELSE LET e == Max(x.e, y.e)
                       a == x.n * Pw2(e - x.e)
                       b == y.n * Pw2(e - y.e)
                   IN IF a < b THEN -1 ELSE IF a > b THEN 1 ELSE 0
NumCmp(v, w) ==     \* int/bool/float in any mix
    IF v.t # "float" /\ w.t # "float" THEN ICmp(AsInt(v), AsInt(w))
    ELSE LET CmpIF(i, f) ==      \* integer i against float f
                 IF f.c = "und" THEN 2
                 ELSE IF f.c = "huge" THEN -1       \* every integer of the model is below 1e308 (MaxLimbs)
                 ELSE IF ToFloat(i).c = "dy" THEN FCmp(ToFloat(i), f)
                 ELSE IF i.neg THEN -1 ELSE 1       \* |i| >= 2^15 > every dyadic of the model
         IN IF v.t = "float" /\ w.t = "float" THEN FCmp(v, w)
            ELSE IF v.t = "float" THEN (LET c == CmpIF(AsInt(w), v) IN IF c = 2 THEN 2 ELSE -c)
            ELSE CmpIF(AsInt(v), w)

RECURSIVE SeqCmp(_, _, _)
SeqCmp(a, b, i) == IF i > Len(a) /\ i > Len(b) THEN 0 ELSE IF i > Len(a) THEN -1 ELSE IF i > Len(b) THEN 1
                   ELSE IF a[i] < b[i] THEN -1 ELSE IF a[i] > b[i] THEN 1 ELSE SeqCmp(a, b, i + 1)
RECURSIVE Repeat(_, _)
Repeat(s, n) == IF n <= 0 THEN <<>> ELSE s \o Repeat(s, n - 1)

Truth(v) == CASE v.t = "bool" -> v.b
              [] v.t = "int" -> v.m # <<>>
              [] v.t = "float" -> ~FZero(v)         \* und: callers test Decided first
              [] v.t = "str" -> v.s # <<>>
              [] OTHER -> TRUE
TruthDecided(v) == ~(v.t = "float" /\ v.c = "und")

ArithOps == {"+", "-", "*", "//", "%", "/", "**"}
BitOps == {"&", "|", "^"}
ShiftOps == {"<<", ">>"}
BitCode(op) == CASE op = "&" -> 1 [] op = "|" -> 2 [] OTHER -> 3
MaxShift == 400
MaxExp == 80

(* Python's binary operators on the value domain; exceptions are values [t |-> "exc"] *)
IntBin(op, x, y) ==
    CASE op = "+" -> IAdd(x, y)
      [] op = "-" -> ISub(x, y)
      [] op = "*" -> IMul(x, y)
      [] op = "//" -> IF y.m = <<>> THEN Exc("ZeroDivisionError") ELSE IDivMod(x, y).q
      [] op = "%" -> IF y.m = <<>> THEN Exc("ZeroDivisionError") ELSE IDivMod(x, y).r
      [] op = "/" -> IF y.m = <<>> THEN Exc("ZeroDivisionError")
                     ELSE IF FIsDy(ToFloat(x)) /\ FIsDy(ToFloat(y)) THEN FDiv(ToFloat(x), ToFloat(y))
                     ELSE IF x.m = <<>> THEN FUnd
                     ELSE LET dm == IDivMod(x, y) IN
                          IF dm.r.m = <<>> /\ FIsDy(ToFloat(dm.q)) THEN ToFloat(dm.q) ELSE FUnd
      [] op = "**" -> IF ~y.neg THEN (IF ISmall(y) /\ MToNat(y.m) <= MaxExp THEN IPow(x, MToNat(y.m)) ELSE Und)
                      ELSE IF x.m = <<>> THEN Exc("ZeroDivisionError")
                      ELSE IF ~(ISmall(y) /\ MToNat(y.m) <= MaxExp) \/ ~FIsDy(ToFloat(x)) THEN FUnd
                      ELSE FDiv(FNorm(1, 0), FPowNat(ToFloat(x), MToNat(y.m)))
      [] op \in BitOps -> IBit(BitCode(op), x, y)
      [] op = "<<" -> IF y.neg THEN Exc("ValueError")
                      ELSE IF x.m = <<>> THEN IZero
                      ELSE IF ISmall(y) /\ MToNat(y.m) <= MaxShift THEN IShl(x, MToNat(y.m)) ELSE Und
      [] op = ">>" -> IF y.neg THEN Exc("ValueError")
                      ELSE IF ISmall(y) /\ MToNat(y.m) <= MaxShift THEN IShr(x, MToNat(y.m))
                      ELSE (IF x.neg THEN INeg(IOne) ELSE IZero)
      [] OTHER -> Und
FloatBin(op, x, y) ==      \* at least one operand was a float; both converted
    CASE op \in {"/", "//", "%"} /\ y.c = "und" -> Und          \* an undecided divisor may be zero: nothing is decided
      [] op = "+" -> FAdd(x, y)
      [] op = "-" -> FAdd(x, IF FIsDy(y) THEN [y EXCEPT !.n = -y.n] ELSE FUnd)
      [] op = "*" -> FMul(x, y)
      [] op = "/" -> IF FZero(y) THEN Exc("ZeroDivisionError") ELSE FDiv(x, y)
      [] op = "//" -> IF FZero(y) THEN Exc("ZeroDivisionError") ELSE FFloorDiv(x, y)
      [] op = "%" -> IF FZero(y) THEN Exc("ZeroDivisionError") ELSE FMod(x, y)
      [] OTHER -> Und
FloatPow(x, w) ==          \* x float (converted), w the original exponent value (int/bool/float)
    LET k == IF w.t = "float" THEN (IF FIsDy(w) /\ w.e = 0 THEN w.n ELSE NLim) ELSE
             (IF ISmall(AsInt(w)) /\ MToNat(AsInt(w).m) <= MaxExp THEN IToInt(AsInt(w)) ELSE NLim)
    IN IF k = NLim THEN Und                                  \* fractional / huge exponents: complex results etc.
       ELSE IF k = 0 THEN FNorm(1, 0)
       ELSE IF x.c = "und" THEN Und                            \* may overflow or divide by zero: not decided
       ELSE IF x.c = "huge" THEN (IF k = 1 THEN x ELSE IF k > 1 THEN Exc("OverflowError") ELSE FUnd)
       ELSE IF k > 0 THEN FPowNat(x, k)
       ELSE IF FZero(x) THEN Exc("ZeroDivisionError")
       ELSE FDiv(FNorm(1, 0), FPowNat(x, -k))
PyBin(op, v, w) ==
    IF IsNum(v) /\ IsNum(w) THEN
        IF op \in BitOps \cup ShiftOps THEN
            (IF v.t = "float" \/ w.t = "float" THEN Exc("TypeError")
             ELSE IF op \in BitOps /\ v.t = "bool" /\ w.t = "bool"
                  THEN Bool(CASE op = "&" -> v.b /\ w.b [] op = "|" -> v.b \/ w.b [] OTHER -> v.b # w.b)
                  ELSE IntBin(op, AsInt(v), AsInt(w)))
        ELSE IF v.t # "float" /\ w.t # "float" THEN IntBin(op, AsInt(v), AsInt(w))
        ELSE IF op = "**" THEN FloatPow(ToFloat(v), w)
        ELSE FloatBin(op, ToFloat(v), ToFloat(w))
    ELSE IF v.t = "str" /\ w.t = "str" THEN
        (IF op = "+" THEN Str(v.s \o w.s) ELSE Exc("TypeError"))
    ELSE IF op = "*" /\ v.t = "str" /\ w.t \in {"int", "bool"} THEN
        (IF AsInt(w).neg THEN Str(<<>>) ELSE IF ISmall(AsInt(w)) /\ MToNat(AsInt(w).m) <= 8 THEN Str(Repeat(v.s, MToNat(AsInt(w).m))) ELSE Und)
    ELSE IF op = "*" /\ w.t = "str" /\ v.t \in {"int", "bool"} THEN
        (IF AsInt(v).neg THEN Str(<<>>) ELSE IF ISmall(AsInt(v)) /\ MToNat(AsInt(v).m) <= 8 THEN Str(Repeat(w.s, MToNat(AsInt(v).m))) ELSE Und)
    ELSE IF op = "%" /\ v.t = "str" THEN Und                  \* formatting: not modelled
    ELSE Exc("TypeError")

CmpOps == {"<", "<=", "==", "!=", ">", ">="}
CmpHolds(op, c) == CASE op = "<" -> c < 0 [] op = "<=" -> c <= 0 [] op = "==" -> c = 0
                     [] op = "!=" -> c # 0 [] op = ">" -> c > 0 [] OTHER -> c >= 0
PyCmp(op, v, w) ==
    IF IsNum(v) /\ IsNum(w) THEN (LET c == NumCmp(v, w) IN IF c = 2 THEN Und ELSE Bool(CmpHolds(op, c)))
    ELSE IF v.t = "str" /\ w.t = "str" THEN Bool(CmpHolds(op, SeqCmp(v.s, w.s, 1)))
    ELSE IF op = "==" THEN Bool(FALSE) ELSE IF op = "!=" THEN Bool(TRUE)
    ELSE Exc("TypeError")
PyNeg(v) == IF v.t = "float" THEN FNeg(v) ELSE IF v.t \in {"int", "bool"} THEN INeg(AsInt(v)) ELSE Exc("TypeError")
PyInv(v) == IF v.t \in {"int", "bool"} THEN INot(AsInt(v)) ELSE Exc("TypeError")
PyAbs(v) == IF v.t = "float" THEN (IF FIsDy(v) THEN [v EXCEPT !.n = Abs(v.n)] ELSE IF v.c = "huge" THEN v ELSE FUnd)
            ELSE IF v.t \in {"int", "bool"} THEN Z(FALSE, AsInt(v).m) ELSE Exc("TypeError")

---------------------------------------------------------------------------
(* arith phase: conformance of PyNum with CPython; one state per case *)
ArithCases == IF Phase = "arith" THEN ndJsonDeserialize(IOEnv.ARITH) ELSE <<>>
\* literal records of the case files -> values
Lit(e) == CASE e.k = "int" -> Z(e.neg, e.m)
            [] e.k = "flt" -> (IF e.c = "huge" THEN FHuge ELSE FNorm(e.n, e.e))
            [] e.k = "bool" -> Bool(e.b)
            [] e.k = "str" -> Str(e.s)
            [] OTHER -> Und
ArithResult(c) == LET x == Lit(c.x)
                      y == Lit(c.y)
                  IN CASE c.op \in CmpOps -> PyCmp(c.op, x, y)
                       [] c.op = "neg" -> PyNeg(x)
                       [] c.op = "inv" -> PyInv(x)
                       [] c.op = "abs" -> PyAbs(x)
                       [] c.op = "fits64" -> Bool(Fits64(AsInt(x)))
                       [] OTHER -> PyBin(c.op, x, y)
WellFormedValue(v) ==
    CASE v.t = "int" -> /\ \A i \in 1..Len(v.m) : v.m[i] \in 0..(B - 1)
                        /\ (v.m # <<>> => v.m[Len(v.m)] # 0)
                        /\ (v.m = <<>> => ~v.neg)
      [] v.t = "float" -> v.c \in {"und", "huge"} \/ (v.c = "dy" /\ Abs(v.n) < NLim /\ v.e \in 0..8 /\ (v.e = 0 \/ v.n % 2 # 0))
      [] v.t = "str" -> \A i \in 1..Len(v.s) : v.s[i] \in 0..1114111
      [] v.t = "bool" -> v.b \in BOOLEAN
      [] v.t = "exc" -> v.x \in {"TypeError", "ZeroDivisionError", "OverflowError", "ValueError", "UnboundLocalError", "NameError", "IndexError"}
      [] OTHER -> v.t = "und"

VARIABLE m        \* the machine: arith phase [ph, i, done, r] ; static / run phases see below
InitArith == \E i \in 1..Len(ArithCases) : m = [ph |-> "arith", i |-> i, done |-> FALSE, r |-> Und]
ArithStep == m.ph = "arith" /\ ~m.done /\ m' = [m EXCEPT !.done = TRUE, !.r = ArithResult(ArithCases[m.i])]
NextArith == ArithStep
ArithWellFormed == m.ph = "arith" => WellFormedValue(m.r)
PublishArith == (m.ph = "arith" /\ m.done) => PrintT("@@" \o ToJson([i |-> m.i, r |-> m.r]))

---------------------------------------------------------------------------
(* Part 2: programs.                                                                                  *)
(* prog = [pid, params (seq of names), locals (seq of names, params included), body (seq of stmts),   *)
(*         ty [name |-> "O"|"I"|"S"|"L"|"B"|"D"|"U"|"X"]  -- B3 fact: class of entry.type after inference: *)
(*            object / int object / str object / C integer / bint / C double / Py_UCS4 / soft complex    *)
(*         mk, lmk (seqs of names) -- B3 fact: entries with might_overflow in the function scope and   *)
(*         in the scopes of its lambdas ; inputs (seq of seqs of literals)]                           *)
(* expr = [k |-> "int"|"flt"|"str"|"bool" ...literal] | [k "name", v] | [k "bin", op, l, r] |         *)
(*        [k "neg"|"inv"|"abs"|"len", e] | [k "cond", c, a, b] | [k "or"|"and", a, b] |               *)
(*        [k "cmp", op, l, r] | [k "in", l, xs] | [k "mm", w, a, b] | [k "lam", e] (called at once) | *)
(*        [k "idx", s, i] | [k "slice", s, lo, hi] | [k "tup", xs]                                    *)
(* stmt = [k "asg", v, e] | [k "aug", v, op, e] | [k "if", c, t, f] | [k "forr", v, args, b] |        *)
(*        [k "fors", v, s, b] | [k "ret", e]                                                          *)
Progs == IF Phase = "run" THEN ndJsonDeserialize(IOEnv.PROGS) ELSE <<>>

CTypes == {"L", "B", "D", "U"}
IsLit(e) == e.k \in {"int", "flt", "str", "bool"}
SmallIntLit(e) == e.k = "int" /\ (Len(e.m) <= 2 \/ MCmp(e.m, <<3648, 4748, 21>>) < 0 \/ (e.neg /\ e.m = <<3648, 4748, 21>>))   \* -2^31 <= v < 2^31
NonNegIntLit(e) == e.k = "int" /\ ~e.neg
IntegralFltLit(e) == e.k = "flt" /\ e.c = "dy" /\ e.e = 0
BinE(op, l, r) == [k |-> "bin", op |-> op, l |-> l, r |-> r]
NameE(v) == [k |-> "name", v |-> v]

(* Cython's static type of an expression, given the types T of the locals (transcribed from the       *)
(* analyse_types / infer_type rules of ExprNodes for this fragment; classes, not exact C types)       *)
Both(a, b, S) == a \in S /\ b \in S
RECURSIVE Ty(_, _)
Ty(e, T) ==
    CASE e.k = "int" -> IF SmallIntLit(e) THEN "L" ELSE "I"            \* IntNode: C long inside 32 bits, else Python int object
      [] e.k = "flt" -> "D"
      [] e.k = "str" -> "S"
      [] e.k = "bool" -> "B"
      [] e.k = "name" -> T[e.v]
      [] e.k = "bin" ->
            LET a == Ty(e.l, T)
                b == Ty(e.r, T)
            IN CASE e.op \in {"+", "-", "*", "//", "%"} ->
                        IF Both(a, b, {"L", "D"}) THEN (IF a = "D" \/ b = "D" THEN "D" ELSE "L")
                        ELSE IF Both(a, b, {"L", "I"}) THEN "I"                      \* result_type_of_builtin_operation: int object op int
                        ELSE IF Both(a, b, {"L", "D", "I"}) THEN "D"                 \* int object op float: a Python operation coerced to C double
                        ELSE IF e.op = "+" /\ a = "S" /\ b = "S" THEN "S"
                        ELSE IF e.op = "*" /\ a = "S" /\ b = "L" THEN "S"
                        ELSE "O"
                 [] e.op = "/" -> IF Both(a, b, {"L", "D", "I"}) THEN "D" ELSE "O"
                 [] e.op = "**" ->
                        IF a = "L" /\ b = "L" THEN (IF NonNegIntLit(e.r) THEN "L" ELSE "D")
                        ELSE IF a = "L" /\ b = "D" THEN "X"
                        ELSE IF a = "D" /\ b = "L" THEN "D"
                        ELSE IF a = "D" /\ b = "D" THEN (IF IntegralFltLit(e.r) THEN "D" ELSE "X")
                        ELSE IF a = "I" /\ b \in {"I", "L"} THEN "I"               \* PowNode: int object ** int is typed `int object`
                        ELSE "O"
                 [] OTHER -> IF a = "L" /\ b = "L" THEN "L" ELSE IF Both(a, b, {"L", "I"}) THEN "I" ELSE "O"           \* shifts, bitwise
      [] e.k \in {"neg", "abs"} -> (LET a == Ty(e.e, T) IN IF a \in {"L", "D", "I"} THEN a ELSE "O")
      [] e.k = "inv" -> IF Ty(e.e, T) \in {"L", "I"} THEN Ty(e.e, T) ELSE "O"
      [] e.k = "len" -> "L"
      [] e.k \in {"cond", "or", "and", "mm"} ->
            LET a == Ty(e.a, T)
                b == Ty(e.b, T)
            IN IF a = b THEN a ELSE IF Both(a, b, {"L", "D"}) THEN "D"
               ELSE IF Both(a, b, {"L", "I"}) THEN "I"          \* independent_spanning_type: PyInt + C int => PyInt
               ELSE "O"
      [] e.k = "cmp" -> IF Both(Ty(e.l, T), Ty(e.r, T), {"L", "D", "B", "U"}) \/ Both(Ty(e.l, T), Ty(e.r, T), {"U", "S"}) THEN "B" ELSE "O"
      [] e.k = "in" -> IF Ty(e.l, T) \in {"L", "U"} THEN "B" ELSE "O"
      [] e.k = "idx" -> IF Ty(e.s, T) = "S" /\ Ty(e.i, T) = "L" THEN "U" ELSE "O"
      [] e.k = "slice" -> IF Ty(e.s, T) = "S" THEN "S" ELSE "O"
      [] OTHER -> "O"                 \* lam (a call), tup

(* the fragment for which Ty is a faithful transcription (checked for every program) *)
RECURSIVE ExprOK(_, _)
ExprOK(e, T) ==
    CASE IsLit(e) -> TRUE
      [] e.k = "name" -> e.v \in DOMAIN T
      [] e.k = "bin" -> /\ ExprOK(e.l, T) /\ ExprOK(e.r, T)
                        /\ ~(IsLit(e.l) /\ IsLit(e.r))                                      \* would be constant-folded
                        /\ Ty(e.l, T) \notin {"B", "X"} /\ Ty(e.r, T) \notin {"B", "X"}
                        /\ (e.op \in BitOps \cup ShiftOps => Ty(e.l, T) # "D" /\ Ty(e.r, T) # "D")
                        /\ Ty(e, T) # "X"
      [] e.k \in {"neg", "abs", "inv"} -> ExprOK(e.e, T) /\ ~IsLit(e.e) /\ Ty(e.e, T) \notin {"B", "X"} /\ (e.k = "inv" => Ty(e.e, T) # "D")
      [] e.k = "len" -> ExprOK(e.e, T)
      [] e.k = "cond" -> ExprOK(e.c, T) /\ ExprOK(e.a, T) /\ ExprOK(e.b, T) /\ ~IsLit(e.c) /\ (Ty(e.a, T) = Ty(e.b, T) \/ {"O", "I"} \cap {Ty(e.a, T), Ty(e.b, T)} # {})
      [] e.k \in {"or", "and", "mm"} -> ExprOK(e.a, T) /\ ExprOK(e.b, T) /\ (e.k = "mm" \/ ~IsLit(e.a))         \* a literal first operand is folded away
                                        /\ (Ty(e.a, T) = Ty(e.b, T) \/ {"O", "I"} \cap {Ty(e.a, T), Ty(e.b, T)} # {})
      [] e.k = "cmp" -> ExprOK(e.l, T) /\ ExprOK(e.r, T)
      [] e.k = "in" -> ExprOK(e.l, T) /\ \A i \in 1..Len(e.xs) : IsLit(e.xs[i])
      [] e.k = "lam" -> ExprOK(e.e, T)
      [] e.k = "idx" -> ExprOK(e.s, T) /\ ExprOK(e.i, T)
      [] e.k = "slice" -> ExprOK(e.s, T) /\ ExprOK(e.lo, T) /\ ExprOK(e.hi, T)
      [] e.k = "tup" -> \A i \in 1..Len(e.xs) : ExprOK(e.xs[i], T)
      [] OTHER -> FALSE
RECURSIVE BlockOK(_, _)
StmtOK(s, T) ==
    CASE s.k = "asg" -> s.v \in DOMAIN T /\ ExprOK(s.e, T)
      [] s.k = "aug" -> s.v \in DOMAIN T /\ ExprOK(BinE(s.op, NameE(s.v), s.e), T)
      [] s.k = "if" -> ExprOK(s.c, T) /\ BlockOK(s.t, T) /\ BlockOK(s.f, T)
      [] s.k = "forr" -> s.v \in DOMAIN T /\ Len(s.args) \in 1..3 /\ (\A i \in 1..Len(s.args) : ExprOK(s.args[i], T)) /\ BlockOK(s.b, T)
      [] s.k = "fors" -> s.v \in DOMAIN T /\ ExprOK(s.s, T) /\ BlockOK(s.b, T)
      [] s.k = "ret" -> ExprOK(s.e, T)
      [] OTHER -> FALSE
BlockOK(b, T) == \A i \in 1..Len(b) : StmtOK(b[i], T)

---------------------------------------------------------------------------
(* hazards: where the C-typed program does not behave like the Python program *)
Hz(h, c, v) == [h |-> h, c |-> c, v |-> v]
R(v, hz) == [v |-> v, hz |-> hz]
Unb == [t |-> "unb"]
NoneV == [t |-> "none"]
Dead(v) == v.t \in {"exc", "und"}                  \* evaluation stops here

(* names whose value reaches an arithmetic operand, and how MarkOverflowingArithmetic sees them:       *)
(* "direct" = visited with might_overflow set, "shield" = below a node that resets the flag            *)
(* (visit_Node = visit_safe_node), "closure" = inside a lambda: the mark goes to the inner entry       *)
RECURSIVE Leaves(_, _, _)
Leaves(e, how, sc) ==
    CASE e.k = "name" -> {<<e.v, IF sc = "lam" THEN "closure" ELSE how>>}
      [] e.k = "bin" -> Leaves(e.l, IF e.op \in BitOps THEN how ELSE "direct", sc) \cup Leaves(e.r, IF e.op \in BitOps THEN how ELSE "direct", sc)
      [] e.k \in {"neg", "abs"} -> Leaves(e.e, "direct", sc)
      [] e.k = "inv" -> Leaves(e.e, how, sc)
      [] e.k \in {"cond", "or", "and", "mm"} -> Leaves(e.a, "shield", sc) \cup Leaves(e.b, "shield", sc)
      [] e.k = "cmp" -> Leaves(e.l, "shield", sc) \cup Leaves(e.r, "shield", sc)
      [] OTHER -> {}
ArithCause(e, T, sc, tset) ==      \* e: the node that computes in C ; tset: the C types that matter
    LET ls == {x \in (IF e.k = "bin" THEN Leaves(e.l, "direct", sc) \cup Leaves(e.r, "direct", sc) ELSE Leaves(e.e, "direct", sc)) : T[x[1]] \in tset}
    IN IF \E x \in ls : x[2] = "direct" THEN "direct_name"
       ELSE IF \E x \in ls : x[2] = "closure" THEN "closure_name"
       ELSE IF ls # {} THEN "shielded_name"
       ELSE "no_name"
IntV(v) == v.t \in {"int", "bool"}
BinHazards(e, lv, rv, res, T, sc) ==
    LET a == Ty(e.l, T)
        b == Ty(e.r, T)
        t == Ty(e, T)
        ci == ArithCause(e, T, sc, {"L", "U", "B"})
        cd == IF ArithCause(e, T, sc, {"D"}) = "no_name" THEN "no_name" ELSE "double_name"
        H(h) == {Hz(h, ci, "")}
    IN IF a = "L" /\ b = "L" THEN
            CASE e.op \in {"+", "-", "*", "//", "%"} -> IF res.t = "int" /\ ~Fits64(res) THEN H("c_int_overflow") ELSE {}
              [] e.op = "<<" -> IF IntV(rv) /\ (AsInt(rv).neg \/ ICmp(AsInt(rv), INat(64)) >= 0) THEN H("c_shift_ub")
                                ELSE IF res.t = "int" /\ ~Fits64(res) THEN H("c_int_overflow") ELSE {}
              [] e.op = ">>" -> IF IntV(rv) /\ (AsInt(rv).neg \/ ICmp(AsInt(rv), INat(64)) >= 0) THEN H("c_shift_ub") ELSE {}
              [] e.op = "**" -> IF t = "L" THEN (IF res.t = "int" /\ ~Fits64(res) THEN H("c_int_overflow") ELSE {})
                                ELSE IF res.t \in {"int", "und"} THEN H("c_pow_int_as_double") ELSE {}
              [] e.op = "/" -> IF IntV(lv) /\ IntV(rv) /\ ~(Within53(AsInt(lv)) /\ Within53(AsInt(rv))) THEN H("c_truediv_precision") ELSE {}
              [] OTHER -> {}
       ELSE IF Both(a, b, {"L", "D"}) THEN
            (IF e.op = "**" /\ res.t = "exc" THEN {Hz("c_double_pow", cd, "")} ELSE {})
       ELSE IF e.op = "**" /\ t = "I" /\ res.t = "float" THEN
            {Hz("pyint_pow_float", "int_object_pow_typed_int", "")}        \* a float travels under the static type `int object`
       ELSE {}
CmpHazards(e, lv, rv, T, sc) ==
    LET a == Ty(e.l, T)
        b == Ty(e.r, T)
    IN (IF (a = "U" /\ b \in {"L", "B"}) \/ (b = "U" /\ a \in {"L", "B"}) THEN {Hz("uchar_num_compare", "ucs4_is_int", "")} ELSE {})
       \cup (IF ((a = "L" /\ b = "D" /\ IntV(lv) /\ ~Within53(AsInt(lv))) \/ (a = "D" /\ b = "L" /\ IntV(rv) /\ ~Within53(AsInt(rv))))
             THEN {Hz("c_int_float_compare", ArithCause(BinE("+", e.l, e.r), T, sc, {"L"}), "")} ELSE {})

StrIndex(s, i) ==        \* s: codes, i: int value
    LET n == Len(s) IN
    IF ~ISmall(i) THEN Exc("IndexError")
    ELSE LET k == IToInt(i)
             j == IF k < 0 THEN k + n ELSE k
         IN IF j < 0 \/ j >= n THEN Exc("IndexError") ELSE Str(<<s[j + 1]>>)
Clamp(i, n) ==           \* slice bound -> 0..n
    IF ~ISmall(i) THEN (IF i.neg THEN 0 ELSE n)
    ELSE LET k == IToInt(i)
             j == IF k < 0 THEN k + n ELSE k
         IN IF j < 0 THEN 0 ELSE IF j > n THEN n ELSE j
StrSlice(s, lo, hi) == LET a == Clamp(lo, Len(s))
                           b == Clamp(hi, Len(s))
                       IN Str(IF a >= b THEN <<>> ELSE SubSeq(s, a + 1, b))

RECURSIVE Eval(_, _, _, _)
RECURSIVE EvalSeq(_, _, _, _, _)
EvalSeq(xs, i, env, T, sc) ==       \* left to right; [vs |-> seq of values, hz, dead |-> first exc/und or Unb]
    IF i > Len(xs) THEN [vs |-> <<>>, hz |-> {}, dead |-> Unb]
    ELSE LET x == Eval(xs[i], env, T, sc) IN
         IF x.v.t = "exc" THEN [vs |-> <<>>, hz |-> x.hz, dead |-> x.v]
         ELSE LET rest == EvalSeq(xs, i + 1, env, T, sc) IN
              [vs |-> <<x.v>> \o rest.vs, hz |-> x.hz \cup rest.hz, dead |-> rest.dead]
Eval(e, env, T, sc) ==
    CASE IsLit(e) -> R(Lit(e), {})
      [] e.k = "name" ->
            IF env[e.v].t = "unb"
            THEN R(Exc(IF sc = "lam" THEN "NameError" ELSE "UnboundLocalError"), IF T[e.v] \in CTypes THEN {Hz("unbound_c_read", "c_local_has_no_unbound_state", e.v)} ELSE {})
            ELSE R(env[e.v], {})
      [] e.k = "bin" ->
            LET l == Eval(e.l, env, T, sc) IN
            IF l.v.t = "exc" THEN l
            ELSE LET r == Eval(e.r, env, T, sc) IN
                 IF r.v.t = "exc" THEN R(r.v, l.hz \cup r.hz)
                 ELSE IF l.v.t = "und" \/ r.v.t = "und" THEN R(Und, l.hz \cup r.hz)
                 ELSE LET res == PyBin(e.op, l.v, r.v) IN R(res, l.hz \cup r.hz \cup BinHazards(e, l.v, r.v, res, T, sc))
      [] e.k \in {"neg", "abs", "inv"} ->
            LET x == Eval(e.e, env, T, sc) IN
            IF Dead(x.v) THEN x
            ELSE LET res == CASE e.k = "neg" -> PyNeg(x.v) [] e.k = "abs" -> PyAbs(x.v) [] OTHER -> PyInv(x.v) IN
                 R(res, x.hz \cup (IF e.k # "inv" /\ Ty(e.e, T) = "L" /\ res.t = "int" /\ ~Fits64(res)
                                   THEN {Hz("c_int_overflow", ArithCause(e, T, sc, {"L", "U", "B"}), "")} ELSE {}))
      [] e.k = "len" ->
            LET x == Eval(e.e, env, T, sc) IN
            IF Dead(x.v) THEN x ELSE IF x.v.t = "str" THEN R(INat(Len(x.v.s)), x.hz) ELSE R(Exc("TypeError"), x.hz)
      [] e.k = "cond" ->
            LET c == Eval(e.c, env, T, sc) IN
            IF Dead(c.v) THEN c
            ELSE IF ~TruthDecided(c.v) THEN R(Und, c.hz)
            ELSE LET x == Eval(IF Truth(c.v) THEN e.a ELSE e.b, env, T, sc) IN R(x.v, c.hz \cup x.hz)
      [] e.k \in {"or", "and"} ->
            LET a == Eval(e.a, env, T, sc) IN
            IF Dead(a.v) THEN a
            ELSE IF ~TruthDecided(a.v) THEN R(Und, a.hz)
            ELSE IF Truth(a.v) = (e.k = "or") THEN a
            ELSE LET b == Eval(e.b, env, T, sc) IN R(b.v, a.hz \cup b.hz)
      [] e.k = "cmp" ->
            LET l == Eval(e.l, env, T, sc) IN
            IF l.v.t = "exc" THEN l
            ELSE LET r == Eval(e.r, env, T, sc) IN
                 IF r.v.t = "exc" THEN R(r.v, l.hz \cup r.hz)
                 ELSE IF l.v.t = "und" \/ r.v.t = "und" THEN R(Und, l.hz \cup r.hz)
                 ELSE R(PyCmp(e.op, l.v, r.v), l.hz \cup r.hz \cup CmpHazards(e, l.v, r.v, T, sc))
      [] e.k = "in" ->
            LET l == Eval(e.l, env, T, sc) IN
            IF Dead(l.v) THEN l
            ELSE LET eqs == {i \in 1..Len(e.xs) : PyCmp("==", l.v, Lit(e.xs[i])).t = "und"}
                     hit == \E i \in 1..Len(e.xs) : LET c == PyCmp("==", l.v, Lit(e.xs[i])) IN c.t = "bool" /\ c.b
                 IN R(IF eqs # {} THEN Und ELSE Bool(hit),
                      l.hz \cup (IF Ty(e.l, T) = "U" /\ (\E i \in 1..Len(e.xs) : e.xs[i].k = "int")
                                 THEN {Hz("uchar_num_compare", "ucs4_is_int", "")} ELSE {}))
      [] e.k = "mm" ->
            LET a == Eval(e.a, env, T, sc) IN
            IF a.v.t = "exc" THEN a
            ELSE LET b == Eval(e.b, env, T, sc) IN
                 IF b.v.t = "exc" THEN R(b.v, a.hz \cup b.hz)
                 ELSE IF a.v.t = "und" \/ b.v.t = "und" THEN R(Und, a.hz \cup b.hz)
                 ELSE LET c == PyCmp(IF e.w = "min" THEN "<" ELSE ">", b.v, a.v) IN
                      R(IF c.t # "bool" THEN c ELSE IF c.b THEN b.v ELSE a.v, a.hz \cup b.hz)
      [] e.k = "lam" -> Eval(e.e, env, T, "lam")
      [] e.k = "idx" ->
            LET s == Eval(e.s, env, T, sc) IN
            IF s.v.t = "exc" THEN s
            ELSE LET i == Eval(e.i, env, T, sc) IN
                 IF i.v.t = "exc" THEN R(i.v, s.hz \cup i.hz)
                 ELSE IF s.v.t = "und" \/ i.v.t = "und" THEN R(Und, s.hz \cup i.hz)
                 ELSE IF s.v.t # "str" \/ ~IntV(i.v) THEN R(Exc("TypeError"), s.hz \cup i.hz)
                 ELSE R(StrIndex(s.v.s, AsInt(i.v)), s.hz \cup i.hz)
      [] e.k = "slice" ->
            LET x == EvalSeq(<<e.s, e.lo, e.hi>>, 1, env, T, sc) IN
            IF x.dead.t = "exc" THEN R(x.dead, x.hz)
            ELSE IF \E i \in 1..3 : x.vs[i].t = "und" THEN R(Und, x.hz)
            ELSE IF x.vs[1].t # "str" \/ ~IntV(x.vs[2]) \/ ~IntV(x.vs[3]) THEN R(Exc("TypeError"), x.hz)
            ELSE R(StrSlice(x.vs[1].s, AsInt(x.vs[2]), AsInt(x.vs[3])),
                   x.hz \cup (IF Ty(e.s, T) = "S" /\ ((Ty(e.lo, T) \in {"O", "I"} /\ ~Fits64(AsInt(x.vs[2]))) \/ (Ty(e.hi, T) \in {"O", "I"} /\ ~Fits64(AsInt(x.vs[3]))))
                              THEN {Hz("typed_slice_bound", "builtin_type_inferred", IF e.s.k = "name" THEN e.s.v ELSE "")} ELSE {}))
      [] e.k = "tup" ->
            LET x == EvalSeq(e.xs, 1, env, T, sc) IN
            IF x.dead.t = "exc" THEN R(x.dead, x.hz) ELSE R([t |-> "tup", xs |-> x.vs], x.hz)
      [] OTHER -> R(Und, {})

(* storing a value into a local of type ty: does the C variable represent it? *)
Represents(ty, v) ==
    CASE ty = "L" -> v.t = "int" /\ Fits64(v)
      [] ty = "D" -> v.t = "float"
      [] ty = "B" -> v.t = "bool"
      [] ty = "U" -> v.t = "str" /\ Len(v.s) = 1
      [] ty = "S" -> v.t = "str"
      [] OTHER -> TRUE
StoreHazards(x, ty, v, rty) ==       \* rty: static type of the stored expression; the same C type: nothing is converted
    IF v.t = "und" \/ rty = ty \/ Represents(ty, v) THEN {}
    ELSE IF ty = "D" /\ IntV(v) THEN {Hz("int_as_double", "span_long_double", x)}
    ELSE IF ty \in {"L", "D"} /\ v.t = "str" THEN {Hz("char_as_number", "span_ucs4_numeric", x)}
    ELSE {Hz("store_mismatch", "unexpected_" \o ty, x)}

---------------------------------------------------------------------------
(* small-step execution: one statement / loop iteration per step, every iteration of every loop *)
Running == [t |-> "run"]
BlkFr(b) == [k |-> "blk", b |-> b, i |-> 1]
Top == m.stk[Len(m.stk)]
Pop == SubSeq(m.stk, 1, Len(m.stk) - 1)
P == Progs[m.pid]
T == P.ty
Live == m.ph = "run" /\ m.out.t = "run"
AtStmt(k) == Live /\ m.stk # <<>> /\ Top.k = "blk" /\ Top.i <= Len(Top.b) /\ Top.b[Top.i].k = k
Cur == Top.b[Top.i]
Adv == Pop \o <<[Top EXCEPT !.i = Top.i + 1]>>       \* the stack with the current statement done
Stop(a, v, hz) == m' = [m EXCEPT !.out = v, !.hz = m.hz \cup hz, !.steps = m.steps + 1, !.acts = m.acts \cup {a}]
Budget == m.steps < MaxSteps
TooBig(v) == (v.t = "int" /\ Len(v.m) > MaxLimbs) \/ v.t = "tup"       \* beyond the model's bound: the case is left undecided
OverBudget == Live /\ ~Budget /\ m' = [m EXCEPT !.acts = m.acts \cup {"OverBudget"}, !.out = Und]

StepAsg == AtStmt("asg") /\ Budget /\
    LET x == Eval(Cur.e, m.env, T, "f") IN
    IF Dead(x.v) THEN Stop("StepAsg", x.v, x.hz)
    ELSE IF TooBig(x.v) THEN Stop("StepAsg", Und, x.hz)
    ELSE m' = [m EXCEPT !.acts = m.acts \cup {"StepAsg"}, !.env = [m.env EXCEPT ![Cur.v] = x.v], !.stk = Adv, !.steps = m.steps + 1,
                        !.hz = m.hz \cup x.hz \cup StoreHazards(Cur.v, T[Cur.v], x.v, Ty(Cur.e, T))]
StepAug == AtStmt("aug") /\ Budget /\
    LET x == Eval(BinE(Cur.op, NameE(Cur.v), Cur.e), m.env, T, "f") IN
    IF Dead(x.v) THEN Stop("StepAug", x.v, x.hz)
    ELSE IF TooBig(x.v) THEN Stop("StepAug", Und, x.hz)
    ELSE m' = [m EXCEPT !.acts = m.acts \cup {"StepAug"}, !.env = [m.env EXCEPT ![Cur.v] = x.v], !.stk = Adv, !.steps = m.steps + 1,
                        !.hz = m.hz \cup x.hz \cup StoreHazards(Cur.v, T[Cur.v], x.v, Ty(BinE(Cur.op, NameE(Cur.v), Cur.e), T))]
StepIf == AtStmt("if") /\ Budget /\
    LET c == Eval(Cur.c, m.env, T, "f") IN
    IF Dead(c.v) THEN Stop("StepIf", c.v, c.hz)
    ELSE IF ~TruthDecided(c.v) THEN Stop("StepIf", Und, c.hz)
    ELSE m' = [m EXCEPT !.acts = m.acts \cup {"StepIf"}, !.stk = Adv \o <<BlkFr(IF Truth(c.v) THEN Cur.t ELSE Cur.f)>>, !.hz = m.hz \cup c.hz, !.steps = m.steps + 1]
Small30(x) == Len(x.m) <= 2 \/ (Len(x.m) = 3 /\ MCmp(x.m, <<1824, 3741, 10>>) < 0)          \* |x| < 2^30
Int30(x) == LET n == Limb(x.m, 1) + B * Limb(x.m, 2) + B * B * Limb(x.m, 3) IN IF x.neg THEN -n ELSE n
RangeOf(vs) ==      \* values of range()'s arguments -> [ok, lo, hi, st] | exception
    IF \E i \in 1..Len(vs) : vs[i].t = "und" THEN Und
    ELSE IF \E i \in 1..Len(vs) : ~IntV(vs[i]) THEN Exc("TypeError")
    ELSE IF \E i \in 1..Len(vs) : ~Small30(AsInt(vs[i])) THEN Und
    ELSE LET n(i) == Int30(AsInt(vs[i])) IN
         IF Len(vs) = 1 THEN [t |-> "range", lo |-> 0, hi |-> n(1), st |-> 1]
         ELSE IF Len(vs) = 2 THEN [t |-> "range", lo |-> n(1), hi |-> n(2), st |-> 1]
         ELSE IF n(3) = 0 THEN Exc("ValueError") ELSE [t |-> "range", lo |-> n(1), hi |-> n(2), st |-> n(3)]
StepForRange == AtStmt("forr") /\ Budget /\
    LET x == EvalSeq(Cur.args, 1, m.env, T, "f")
        r == IF x.dead.t = "exc" THEN x.dead ELSE RangeOf(x.vs)
    IN IF r.t # "range" THEN Stop("StepForRange", r, x.hz)
       ELSE m' = [m EXCEPT !.acts = m.acts \cup {"StepForRange"}, !.stk = Adv \o <<[k |-> "forr", v |-> Cur.v, cur |-> r.lo, hi |-> r.hi, st |-> r.st, b |-> Cur.b]>>,
                           !.hz = m.hz \cup x.hz, !.steps = m.steps + 1]
StepForStr == AtStmt("fors") /\ Budget /\
    LET x == Eval(Cur.s, m.env, T, "f") IN
    IF Dead(x.v) THEN Stop("StepForStr", x.v, x.hz)
    ELSE IF x.v.t # "str" THEN Stop("StepForStr", Exc("TypeError"), x.hz)
    ELSE m' = [m EXCEPT !.acts = m.acts \cup {"StepForStr"}, !.stk = Adv \o <<[k |-> "fors", v |-> Cur.v, s |-> x.v.s, i |-> 1, b |-> Cur.b]>>,
                        !.hz = m.hz \cup x.hz, !.steps = m.steps + 1]
StepReturn == AtStmt("ret") /\ Budget /\
    LET x == Eval(Cur.e, m.env, T, "f") IN Stop("StepReturn", x.v, x.hz)
More(f) == IF f.k = "forr" THEN (IF f.st > 0 THEN f.cur < f.hi ELSE f.cur > f.hi) ELSE f.i <= Len(f.s)
StepIter == Live /\ Budget /\ m.stk # <<>> /\ Top.k \in {"forr", "fors"} /\ More(Top) /\
    LET v == IF Top.k = "forr" THEN ISmallInt(Top.cur) ELSE Str(<<Top.s[Top.i]>>)
        f == IF Top.k = "forr" THEN [Top EXCEPT !.cur = Top.cur + Top.st] ELSE [Top EXCEPT !.i = Top.i + 1]
    IN m' = [m EXCEPT !.acts = m.acts \cup {"StepIter"}, !.env = [m.env EXCEPT ![Top.v] = v], !.stk = Pop \o <<f, BlkFr(Top.b)>>, !.steps = m.steps + 1,
                      !.hz = m.hz \cup StoreHazards(Top.v, T[Top.v], v, IF Top.k = "forr" THEN "L" ELSE "U")]
StepLoopEnd == Live /\ m.stk # <<>> /\ Top.k \in {"forr", "fors"} /\ ~More(Top) /\ m' = [m EXCEPT !.acts = m.acts \cup {"StepLoopEnd"}, !.stk = Pop]
StepBlockEnd == Live /\ m.stk # <<>> /\ Top.k = "blk" /\ Top.i > Len(Top.b) /\ m' = [m EXCEPT !.acts = m.acts \cup {"StepBlockEnd"}, !.stk = Pop]
StepFallOff == Live /\ m.stk = <<>> /\ Stop("StepFallOff", NoneV, {})

---------------------------------------------------------------------------
(* Part 3: the inferer's own rules *)
(* MarkOverflowingArithmetic: the names visited while might_overflow is set; <<name, scope>> *)
RECURSIVE MarkE(_, _, _)
MarkSeq(xs, flag, sc) == UNION {MarkE(xs[i], flag, sc) : i \in 1..Len(xs)}
MarkE(e, flag, sc) ==
    CASE e.k = "name" -> IF flag THEN {<<e.v, sc>>} ELSE {}
      [] e.k = "bin" -> LET f == IF e.op \in BitOps THEN flag ELSE TRUE IN MarkE(e.l, f, sc) \cup MarkE(e.r, f, sc)   \* neutral / dangerous
      [] e.k \in {"neg", "abs"} -> MarkE(e.e, TRUE, sc)            \* visit_UnaryMinusNode, abs(): dangerous
      [] e.k \in {"inv", "len"} -> MarkE(e.e, flag, sc)            \* visit_UnopNode, other calls: neutral
      [] e.k = "cond" -> MarkE(e.c, FALSE, sc) \cup MarkE(e.a, FALSE, sc) \cup MarkE(e.b, FALSE, sc)    \* visit_Node = visit_safe_node
      [] e.k \in {"or", "and", "mm"} -> MarkE(e.a, FALSE, sc) \cup MarkE(e.b, FALSE, sc)
      [] e.k = "cmp" -> MarkE(e.l, FALSE, sc) \cup MarkE(e.r, FALSE, sc)
      [] e.k = "in" -> MarkE(e.l, FALSE, sc)
      [] e.k = "lam" -> MarkE(e.e, FALSE, "lam")                   \* visit_FuncDefNode: safe, own scope
      [] e.k = "idx" -> MarkE(e.s, FALSE, sc) \cup MarkE(e.i, FALSE, sc)
      [] e.k = "slice" -> MarkE(e.s, FALSE, sc) \cup MarkE(e.lo, FALSE, sc) \cup MarkE(e.hi, FALSE, sc)
      [] e.k = "tup" -> MarkSeq(e.xs, FALSE, sc)
      [] OTHER -> {}
RECURSIVE MarkB(_)
MarkS(s) ==
    CASE s.k = "asg" -> MarkE(s.e, FALSE, "f") \cup (IF s.e.k = "int" /\ ~SmallIntLit(s.e) THEN {<<s.v, "f">>} ELSE {})    \* Utils.long_literal
      [] s.k = "aug" -> {<<s.v, "f">>} \cup MarkE(s.e, TRUE, "f")                                                         \* InPlaceAssignmentNode: dangerous
      [] s.k = "if" -> MarkE(s.c, FALSE, "f") \cup MarkB(s.t) \cup MarkB(s.f)
      [] s.k = "forr" -> MarkSeq(s.args, FALSE, "f") \cup MarkB(s.b)
      [] s.k = "fors" -> MarkE(s.s, FALSE, "f") \cup MarkB(s.b)
      [] OTHER -> MarkE(s.e, FALSE, "f")
MarkB(b) == UNION {MarkS(b[i]) : i \in 1..Len(b)}
SeqSet(s) == {s[i] : i \in 1..Len(s)}

(* the types of the right-hand sides assigned to a local (MarkParallelAssignments + FlowControl) *)
\* at inference time a comparison has no C type yet (PrimaryCmpNode.infer_type answers py_object);
\* abs() is typed by the C overload that fits the exact C type, which the type classes do not carry: "W" = not decided
\* likewise `int object ** n` is only typed (as int object) by analyse_types, not by infer_type
RECURSIVE HasAbs(_, _)
HasAbs(e, TT) ==
             CASE e.k = "abs" -> TRUE
               [] e.k = "bin" -> (e.op = "**" /\ Ty(e.l, TT) = "I") \/ HasAbs(e.l, TT) \/ HasAbs(e.r, TT)
               [] e.k = "cmp" -> HasAbs(e.l, TT) \/ HasAbs(e.r, TT)
               [] e.k \in {"neg", "inv", "len"} -> HasAbs(e.e, TT)
               [] e.k \in {"cond", "or", "and", "mm"} -> HasAbs(e.a, TT) \/ HasAbs(e.b, TT)
               [] OTHER -> FALSE
TyInf(e, TT) == IF e.k \in {"cmp", "in"} THEN "O" ELSE IF HasAbs(e, TT) THEN "W" ELSE Ty(e, TT)
RECURSIVE FloatFlavoured(_, _)
FloatFlavoured(e, TT) ==
    CASE e.k = "bin" -> e.op = "/" \/ Ty(e.l, TT) = "D" \/ Ty(e.r, TT) = "D" \/ FloatFlavoured(e.l, TT) \/ FloatFlavoured(e.r, TT)
      [] e.k \in {"neg", "abs"} -> Ty(e.e, TT) = "D" \/ FloatFlavoured(e.e, TT)
      [] OTHER -> FALSE
RECURSIVE AsgB(_, _, _)
AsgS(s, x, TT) ==
    CASE s.k = "asg" -> IF s.v = x THEN {TyInf(s.e, TT)} ELSE {}
      [] s.k = "aug" -> IF s.v = x THEN {TyInf(BinE(s.op, NameE(s.v), s.e), TT)} ELSE {}
      [] s.k = "if" -> AsgB(s.t, x, TT) \cup AsgB(s.f, x, TT)
      [] s.k = "forr" -> (IF s.v # x THEN {}
                          ELSE {Ty(s.args[i], TT) : i \in 1..Min(2, Len(s.args))}
                               \cup (IF Len(s.args) = 3 THEN {Ty(BinE("+", s.args[1], s.args[3]), TT)} ELSE {})) \cup AsgB(s.b, x, TT)
      [] s.k = "fors" -> (IF s.v # x THEN {} ELSE {IF Ty(s.s, TT) = "S" THEN "U" ELSE "O"}) \cup AsgB(s.b, x, TT)
      [] OTHER -> {}
AsgB(b, x, TT) == UNION {AsgS(b[i], x, TT) : i \in 1..Len(b)}
RECURSIVE NamesE(_)
NamesE(e) ==
    CASE e.k = "name" -> {e.v}
      [] e.k \in {"bin", "cmp"} -> NamesE(e.l) \cup NamesE(e.r)
      [] e.k \in {"neg", "abs", "inv", "len", "lam"} -> NamesE(e.e)
      [] e.k = "cond" -> NamesE(e.c) \cup NamesE(e.a) \cup NamesE(e.b)
      [] e.k \in {"or", "and", "mm"} -> NamesE(e.a) \cup NamesE(e.b)
      [] e.k = "in" -> NamesE(e.l)
      [] e.k = "idx" -> NamesE(e.s) \cup NamesE(e.i)
      [] e.k = "slice" -> NamesE(e.s) \cup NamesE(e.lo) \cup NamesE(e.hi)
      [] e.k = "tup" -> UNION {NamesE(e.xs[i]) : i \in 1..Len(e.xs)}
      [] OTHER -> {}
RECURSIVE RhsB(_, _)         \* the expressions assigned to x by plain / augmented assignments
RhsS(s, x) ==
    CASE s.k = "asg" -> IF s.v = x THEN {s.e} ELSE {}
      [] s.k = "aug" -> IF s.v = x THEN {BinE(s.op, NameE(x), s.e)} ELSE {}
      [] s.k = "if" -> RhsB(s.t, x) \cup RhsB(s.f, x)
      [] s.k \in {"forr", "fors"} -> RhsB(s.b, x)
      [] OTHER -> {}
RhsB(b, x) == UNION {RhsS(b[i], x) : i \in 1..Len(b)}
RECURSIVE RhsNamesB(_, _)
RhsNamesS(s, x) ==
    CASE s.k = "asg" -> IF s.v = x THEN NamesE(s.e) ELSE {}
      [] s.k = "aug" -> IF s.v = x THEN NamesE(s.e) ELSE {}
      [] s.k = "if" -> RhsNamesB(s.t, x) \cup RhsNamesB(s.f, x)
      [] s.k = "forr" -> (IF s.v = x THEN UNION {NamesE(s.args[i]) : i \in 1..Len(s.args)} ELSE {}) \cup RhsNamesB(s.b, x)
      [] s.k = "fors" -> (IF s.v = x THEN NamesE(s.s) ELSE {}) \cup RhsNamesB(s.b, x)
      [] OTHER -> {}
RhsNamesB(b, x) == UNION {RhsNamesS(b[i], x) : i \in 1..Len(b)}

(* find_spanning_type + PyrexTypes.spanning_type on the classes, then safe_spanning_type *)
Span2(a, b) == IF a = b THEN a
               ELSE IF a = "B" \/ b = "B" THEN "O"                       \* bint never spans with another type
               ELSE IF Both(a, b, {"L", "D"}) THEN "D"                    \* numeric widening
               ELSE IF Both(a, b, {"L", "U"}) THEN "L"
               ELSE IF Both(a, b, {"D", "U"}) THEN "D"
               ELSE IF Both(a, b, {"D", "I"}) THEN "D"                    \* a Python int widens to double like a C one
               ELSE IF Both(a, b, {"L", "I"}) THEN "I"
               ELSE "O"
RECURSIVE SpanAll(_)
SpanAll(S) == IF Cardinality(S) = 1 THEN CHOOSE t \in S : TRUE
              ELSE LET t == CHOOSE t \in S : TRUE IN Span2(t, SpanAll(S \ {t}))
SafeSpan(S, marked) ==
    LET t == SpanAll(S) IN
    IF t \in {"D", "B", "S", "O", "I", "X"} THEN t       \* double / bint / Python object types: always "safe"
    ELSE IF marked THEN (IF t = "U" THEN "S" ELSE "O")   \* C integer in overflowing arithmetic -> Python int / str object
    ELSE t
Gen(t) == IF t = "I" THEN "O" ELSE t        \* which Python object type: not compared
Static(p) ==
    LET marks == MarkB(p.body)
        fm == {x[1] : x \in {y \in marks : y[2] = "f"}}
        lm == {x[1] : x \in {y \in marks : y[2] = "lam"}}
        params == SeqSet(p.params)
        locals == SeqSet(p.locals) \ params
        \* a local is flow-stable when all its assignments have one type: NameNode.infer_type is flow-sensitive otherwise
        stable(x) == x \in params \/ Cardinality(AsgB(p.body, x, p.ty)) <= 1
        \* an object-typed expression with a float flavour (true division, a C double operand) is a Python float,
        \* which the inferer turns into a C double ("Python's float type is just a C double")
        divs(x) == \A e \in RhsB(p.body, x) : Ty(e, p.ty) \notin {"O", "I"} \/ FloatFlavoured(e, p.ty)
        verdict(x) == LET S == AsgB(p.body, x, p.ty)
                          ms == SafeSpan(S, x \in SeqSet(p.mk))
                      IN IF S = {} THEN "unassigned"
                         ELSE IF p.ty[x] \in {"L", "U"} /\ x \in SeqSet(p.mk) THEN "mismatch:marked_c_int"     \* safe_spanning_type's own guard
                         ELSE IF "W" \in S \/ (\E n \in RhsNamesB(p.body, x) \ {x} : ~stable(n)) THEN "skipped"
                         ELSE IF Gen(ms) = Gen(p.ty[x]) THEN "ok"
                         ELSE IF Gen(ms) = "O" /\ p.ty[x] = "D" /\ divs(x) THEN "ok_float_object"
                         ELSE "mismatch:" \o ms \o "/" \o p.ty[x]
    IN [pid |-> p.pid, static |-> TRUE,
        frag |-> BlockOK(p.body, p.ty),
        marks |-> fm, lmarks |-> lm,
        mark_ok |-> (fm \cap SeqSet(p.locals)) = SeqSet(p.mk) /\ lm = SeqSet(p.lmk),
        span |-> [x \in locals |-> verdict(x)],
        closure_unmarked |-> {x \in lm \ fm : p.ty[x] \in {"L", "U"}}]

InitRun == \E pid \in 1..Len(Progs) :
              \/ m = [ph |-> "static", pid |-> pid, done |-> FALSE, res |-> Und]
              \/ \E inp \in 1..Len(Progs[pid].inputs) :
                    m = [ph |-> "run", pid |-> pid, inp |-> inp, steps |-> 0, hz |-> {}, out |-> Running, acts |-> {},
                         stk |-> <<BlkFr(Progs[pid].body)>>,
                         env |-> [x \in SeqSet(Progs[pid].locals) |->
                                    IF \E j \in 1..Len(Progs[pid].params) : Progs[pid].params[j] = x
                                    THEN Lit(Progs[pid].inputs[inp][CHOOSE j \in 1..Len(Progs[pid].params) : Progs[pid].params[j] = x])
                                    ELSE Unb]]
StaticStep == m.ph = "static" /\ ~m.done /\ m' = [m EXCEPT !.done = TRUE, !.res = Static(Progs[m.pid])]
NextRun == \/ StaticStep \/ StepAsg \/ StepAug \/ StepIf \/ StepForRange \/ StepForStr \/ StepReturn
           \/ StepIter \/ StepLoopEnd \/ StepBlockEnd \/ StepFallOff \/ OverBudget

(* invariants *)
RECURSIVE ValueOK(_)
ValueOK(v) == IF v.t = "tup" THEN \A i \in 1..Len(v.xs) : ValueOK(v.xs[i])
              ELSE IF v.t \in {"unb", "none", "run"} THEN TRUE ELSE WellFormedValue(v)
RunWellFormed == m.ph = "run" =>
    /\ \A x \in DOMAIN m.env : ValueOK(m.env[x]) /\ m.env[x].t \notin {"exc", "und", "tup", "run"}
    /\ ValueOK(m.out)
    /\ \A i \in 1..Len(m.stk) : m.stk[i].k \in {"blk", "forr", "fors"}
    /\ m.steps <= MaxSteps
IntsBounded == m.ph = "run" => \A x \in DOMAIN m.env : m.env[x].t = "int" => Len(m.env[x].m) <= MaxLimbs
\* a C-typed local only ever holds a value its type represents -- or the anomaly is on record
StoreSound == m.ph = "run" => \A x \in DOMAIN m.env :
    (m.env[x].t # "unb" /\ ~Represents(T[x], m.env[x])) => m.hz # {}
\* parameters are Python objects, never retyped
ParamsAreObjects == m.ph = "run" => \A i \in 1..Len(P.params) : T[P.params[i]] = "O"
HazardsAttributed == m.ph = "run" => \A h \in m.hz : h.c # ""
Terminated == m.ph = "run" /\ m.out.t # "run"
PublishRun == /\ Terminated => PrintT("@@" \o ToJson([pid |-> P.pid, inp |-> m.inp, out |-> m.out, hz |-> m.hz, steps |-> m.steps, acts |-> m.acts]))
              /\ (m.ph = "static" /\ m.done) => PrintT("@@" \o ToJson(m.res))
=============================================================================
