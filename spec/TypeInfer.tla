---------------------------- MODULE TypeInfer ----------------------------
(***************************************************************************)
(* C40 - safe type inference never changes pure-Python results.            *)
(*                                                                         *)
(* Part 1  PyNum: Python's numbers as the property needs them: unbounded   *)
(*         integers (sign + base-10000 limbs, TLC integers are 32 bit),    *)
(*         floats on the exactly representable dyadic grid n/2^e (plus the *)
(*         symbolic literal 1e308 and "undecided"), strings as code point  *)
(*         sequences.  `arith` phase: one state per (op, x, y) case read   *)
(*         from IOEnv.ARITH, result published and compared with CPython.   *)
(* Part 2  the program language (expressions / statements as records read  *)
(*         from IOEnv.PROGS), its reference semantics (no mention of       *)
(*         inference: small-step over statements, all loop iterations),    *)
(*         Cython's static typing of the expressions given the types of    *)
(*         the locals (B3 facts exported from the real compiler), and the  *)
(*         hazard judgement: on the reference execution, where does a      *)
(*         C-typed local or a C-typed operation NOT behave like the Python *)
(*         object it replaces (unbound read, int stored in a double, C     *)
(*         arithmetic leaving 64 bit, Py_UCS4 compared as a number ...).   *)
(* Part 3  transcription of the inferer's own rules: which names           *)
(*         MarkOverflowingArithmetic marks (visit_safe/neutral/dangerous), *)
(*         and safe_spanning_type over the assignments of a local; the     *)
(*         exported facts must satisfy these equations, and every hazard   *)
(*         is attributed to the rule that let it through.                  *)
(***************************************************************************)
EXTENDS Integers, Sequences, FiniteSets, TLC, Json, IOUtils

CONSTANTS Phase,        \* "arith" | "run"
          MaxLimbs,     \* bound on the size of integers (invariant)
          MaxSteps      \* bound on the number of statements executed per case (invariant)

B == 10000
Max(a, b) == IF a > b THEN a ELSE b
Min(a, b) == IF a < b THEN a ELSE b
Abs(n) == IF n < 0 THEN -n ELSE n

---------------------------------------------------------------------------
(* magnitudes: little-endian sequences of limbs 0..9999 without high zeros *)
Limb(m, i) == IF i <= Len(m) THEN m[i] ELSE 0

RECURSIVE MTrim(_)
MTrim(m) == IF Len(m) > 0 /\ m[Len(m)] = 0 THEN MTrim(SubSeq(m, 1, Len(m) - 1)) ELSE m

RECURSIVE MCmpFrom(_, _, _)
MCmpFrom(a, b, i) == IF i = 0 THEN 0 ELSE IF a[i] < b[i] THEN -1 ELSE IF a[i] > b[i] THEN 1 ELSE MCmpFrom(a, b, i - 1)
MCmp(a, b) == IF Len(a) < Len(b) THEN -1 ELSE IF Len(a) > Len(b) THEN 1 ELSE MCmpFrom(a, b, Len(a))

RECURSIVE MAddFrom(_, _, _, _)
MAddFrom(a, b, i, c) == IF i > Max(Len(a), Len(b)) THEN (IF c = 0 THEN <<>> ELSE <<c>>)
                        ELSE LET s == Limb(a, i) + Limb(b, i) + c IN <<s % B>> \o MAddFrom(a, b, i + 1, s \div B)
MAdd(a, b) == MAddFrom(a, b, 1, 0)

RECURSIVE MSubFrom(_, _, _, _)      \* a >= b
MSubFrom(a, b, i, br) == IF i > Len(a) THEN <<>>
                         ELSE LET d == a[i] - Limb(b, i) - br IN
                              IF d < 0 THEN <<d + B>> \o MSubFrom(a, b, i + 1, 1) ELSE <<d>> \o MSubFrom(a, b, i + 1, 0)
MSub(a, b) == MTrim(MSubFrom(a, b, 1, 0))

RECURSIVE MMulSmallFrom(_, _, _, _)
MMulSmallFrom(a, k, i, c) == IF i > Len(a) THEN (IF c = 0 THEN <<>> ELSE <<c>>)
                             ELSE LET p == a[i] * k + c IN <<p % B>> \o MMulSmallFrom(a, k, i + 1, p \div B)
MMulSmall(a, k) == IF k = 0 \/ a = <<>> THEN <<>> ELSE MMulSmallFrom(a, k, 1, 0)      \* 0 <= k < B

Zeros(n) == [i \in 1..n |-> 0]
RECURSIVE MMulFrom(_, _, _)
MMulFrom(a, b, j) == IF j > Len(b) THEN <<>>
                     ELSE MAdd(IF b[j] = 0 THEN <<>> ELSE Zeros(j - 1) \o MMulSmall(a, b[j]), MMulFrom(a, b, j + 1))
MMul(a, b) == IF a = <<>> \/ b = <<>> THEN <<>> ELSE MMulFrom(a, b, 1)

RECURSIVE QDigit(_, _, _, _)        \* the largest d in lo..hi with d*b <= r   (lo*b <= r)
QDigit(r, b, lo, hi) == IF lo = hi THEN lo
                        ELSE LET mid == (lo + hi + 1) \div 2 IN
                             IF MCmp(MMulSmall(b, mid), r) <= 0 THEN QDigit(r, b, mid, hi) ELSE QDigit(r, b, lo, mid - 1)
RECURSIVE MDivFrom(_, _, _, _)      \* schoolbook long division, limb i of a downwards, r = running remainder
MDivFrom(a, b, i, r) == IF i = 0 THEN [q |-> <<>>, r |-> r]
                        ELSE LET r1 == MTrim(<<a[i]>> \o r)
                                 d == QDigit(r1, b, 0, B - 1)
                                 rest == MDivFrom(a, b, i - 1, MSub(r1, MMulSmall(b, d)))
                             IN [q |-> rest.q \o <<d>>, r |-> rest.r]
MDivMod(a, b) == LET x == MDivFrom(a, b, Len(a), <<>>) IN [q |-> MTrim(x.q), r |-> x.r]     \* b # <<>>

RECURSIVE MPow2(_)
MPow2(n) == IF n = 0 THEN <<1>> ELSE IF n >= 13 THEN MMulSmall(MPow2(n - 13), 8192) ELSE MMulSmall(MPow2(n - 1), 2)

RECURSIVE MFromNat(_)
MFromNat(n) == IF n = 0 THEN <<>> ELSE <<n % B>> \o MFromNat(n \div B)
MSmall(m) == Len(m) <= 2                                  \* < 10^8: fits a TLC integer with room to spare
MToNat(m) == Limb(m, 1) + B * Limb(m, 2)

(* bitwise operations on magnitudes: 13-bit chunks *)
RECURSIVE MChunks(_)
MChunks(m) == IF m = <<>> THEN <<>> ELSE LET dm == MDivMod(m, <<8192>>) IN <<MToNat(dm.r)>> \o MChunks(dm.q)
RECURSIVE MFromChunks(_, _, _)
MFromChunks(cs, i, acc) == IF i = 0 THEN acc ELSE MFromChunks(cs, i - 1, MAdd(MMulSmall(acc, 8192), MFromNat(cs[i])))
RECURSIVE NBits(_, _, _, _)         \* f: 1 and, 2 or, 3 xor, 4 and-not ; k bits
NBits(f, a, b, k) == IF k = 0 THEN 0
                     ELSE LET x == a % 2
                              y == b % 2
                              z == CASE f = 1 -> x * y [] f = 2 -> Max(x, y) [] f = 3 -> (x + y) % 2 [] OTHER -> x * (1 - y)
                          IN z + 2 * NBits(f, a \div 2, b \div 2, k - 1)
MBitOp(f, a, b) == LET ca == MChunks(a)
                       cb == MChunks(b)
                       n == Max(Len(ca), Len(cb))
                       cs == [i \in 1..n |-> NBits(f, Limb(ca, i), Limb(cb, i), 13)]
                   IN MFromChunks(cs, n, <<>>)

---------------------------------------------------------------------------
(* Python values *)
Z(neg, m) == [t |-> "int", neg |-> (neg /\ m # <<>>), m |-> m]
IZero == Z(FALSE, <<>>)
IOne == Z(FALSE, <<1>>)
INat(n) == Z(FALSE, MFromNat(n))
ISmallInt(n) == Z(n < 0, MFromNat(Abs(n)))
INeg(x) == Z(~x.neg, x.m)
IAdd(x, y) == IF x.neg = y.neg THEN Z(x.neg, MAdd(x.m, y.m))
              ELSE LET c == MCmp(x.m, y.m) IN
                   IF c = 0 THEN IZero ELSE IF c > 0 THEN Z(x.neg, MSub(x.m, y.m)) ELSE Z(y.neg, MSub(y.m, x.m))
ISub(x, y) == IAdd(x, INeg(y))
IMul(x, y) == Z(x.neg # y.neg, MMul(x.m, y.m))
ICmp(x, y) == IF x.neg # y.neg THEN (IF x.neg THEN -1 ELSE 1) ELSE IF x.neg THEN MCmp(y.m, x.m) ELSE MCmp(x.m, y.m)
IDivMod(x, y) == LET dm == MDivMod(x.m, y.m) IN            \* Python floor division, y # 0
                 IF x.neg = y.neg THEN [q |-> Z(FALSE, dm.q), r |-> Z(y.neg, dm.r)]
                 ELSE IF dm.r = <<>> THEN [q |-> Z(TRUE, dm.q), r |-> IZero]
                 ELSE [q |-> Z(TRUE, MAdd(dm.q, <<1>>)), r |-> Z(y.neg, MSub(y.m, dm.r))]
IShl(x, n) == Z(x.neg, MMul(x.m, MPow2(n)))
IShr(x, n) == IDivMod(x, Z(FALSE, MPow2(n))).q
RECURSIVE IPow(_, _)
IPow(x, n) == IF n = 0 THEN IOne ELSE IMul(x, IPow(x, n - 1))
INot(x) == ISub(INeg(x), IOne)
IBit(f, x, y) ==        \* f: 1 and, 2 or, 3 xor ; negative numbers as infinite two's complement
    LET nx == INot(x).m      \* magnitude of ~x (non-negative) when x < 0
        ny == INot(y).m
        P(m) == Z(FALSE, m)
        N(m) == INot(Z(FALSE, m))
    IN CASE ~x.neg /\ ~y.neg -> P(MBitOp(f, x.m, y.m))
         [] f = 1 /\ x.neg /\ ~y.neg -> P(MBitOp(4, y.m, nx))
         [] f = 1 /\ ~x.neg /\ y.neg -> P(MBitOp(4, x.m, ny))
         [] f = 1 -> N(MBitOp(2, nx, ny))
         [] f = 2 /\ x.neg /\ ~y.neg -> N(MBitOp(4, nx, y.m))
         [] f = 2 /\ ~x.neg /\ y.neg -> N(MBitOp(4, ny, x.m))
         [] f = 2 -> N(MBitOp(1, nx, ny))
         [] f = 3 /\ x.neg /\ ~y.neg -> N(MBitOp(3, nx, y.m))
         [] f = 3 /\ ~x.neg /\ y.neg -> N(MBitOp(3, x.m, ny))
         [] OTHER -> P(MBitOp(3, nx, ny))
ISmall(x) == MSmall(x.m)
IToInt(x) == IF x.neg THEN -MToNat(x.m) ELSE MToNat(x.m)

P63 == <<5808, 5477, 368, 3372, 922>>       \* 2^63 = 9223372036854775808
P53 == <<992, 4740, 1992, 9007>>            \* 2^53 = 9007199254740992
Fits64(x) == IF x.neg THEN MCmp(x.m, P63) <= 0 ELSE MCmp(x.m, P63) < 0
Within53(x) == MCmp(x.m, P53) <= 0

Bool(b) == [t |-> "bool", b |-> b]
Str(s) == [t |-> "str", s |-> s]
(* floats: c = "dy": n / 2^e exactly (|n| < 2^15, 0 <= e <= 8, n odd or e = 0);                      *)
(*         c = "huge": the literal 1e308 ; c = "und": a float the model does not decide                *)
FUnd == [t |-> "float", c |-> "und", n |-> 0, e |-> 0]
FHuge == [t |-> "float", c |-> "huge", n |-> 0, e |-> 0]
NLim == 32768
RECURSIVE FNorm(_, _)
FNorm(n, e) == IF e > 0 /\ n % 2 = 0 THEN FNorm(n \div 2, e - 1)
               ELSE IF Abs(n) >= NLim \/ e > 8 THEN FUnd ELSE [t |-> "float", c |-> "dy", n |-> n, e |-> e]
Pw2(k) == 2 ^ k
IsNum(v) == v.t \in {"int", "bool", "float"}
AsInt(v) == IF v.t = "bool" THEN (IF v.b THEN IOne ELSE IZero) ELSE v         \* int or bool -> int
ToFloat(v) == IF v.t = "float" THEN v
              ELSE LET x == AsInt(v) IN IF ISmall(x) /\ MToNat(x.m) < NLim THEN FNorm(IToInt(x), 0) ELSE FUnd
FIsDy(f) == f.c = "dy"
FZero(f) == f.c = "dy" /\ f.n = 0
\* a zero produced by * / // % or negation may be -0.0: the model does not decide its sign
NoZero(f) == IF FZero(f) THEN FUnd ELSE f

Exc(name) == [t |-> "exc", x |-> name]
IsExc(v) == v.t = "exc"
Und == [t |-> "und"]          \* the whole observation is not decided by the model

FAdd(x, y) == IF ~(FIsDy(x) /\ FIsDy(y)) THEN FUnd
              ELSE LET e == Max(x.e, y.e) IN FNorm(x.n * Pw2(e - x.e) + y.n * Pw2(e - y.e), e)
FNeg(x) == IF FIsDy(x) THEN NoZero([x EXCEPT !.n = -x.n]) ELSE FUnd
FMul(x, y) == IF ~(FIsDy(x) /\ FIsDy(y)) THEN FUnd ELSE NoZero(FNorm(x.n * y.n, x.e + y.e))
IsPow2(n) == \E k \in 0..24 : n = Pw2(k)
Log2(n) == CHOOSE k \in 0..24 : n = Pw2(k)
FloorDivNat(a, b) == IF b > 0 THEN a \div b ELSE (-a) \div (-b)          \* TLC's \div floors for b > 0
ModPy(a, b) == a - b * FloorDivNat(a, b)
FDiv(x, y) ==       \* y is not zero
    IF ~(FIsDy(x) /\ FIsDy(y)) THEN FUnd
    ELSE LET num == x.n * Pw2(y.e)
             den == y.n * Pw2(x.e)
         IN IF num % Abs(den) = 0 THEN NoZero(FNorm(FloorDivNat(num, den), 0))
            ELSE IF IsPow2(Abs(den)) /\ Log2(Abs(den)) <= 8 THEN FNorm(IF den < 0 THEN -num ELSE num, Log2(Abs(den)))
            ELSE FUnd
FFloorDiv(x, y) == IF ~(FIsDy(x) /\ FIsDy(y)) THEN FUnd
                   ELSE NoZero(FNorm(FloorDivNat(x.n * Pw2(y.e), y.n * Pw2(x.e)), 0))
FMod(x, y) == IF ~(FIsDy(x) /\ FIsDy(y)) THEN FUnd
              ELSE LET e == Max(x.e, y.e) IN NoZero(FNorm(ModPy(x.n * Pw2(e - x.e), y.n * Pw2(e - y.e)), e))
RECURSIVE FPowNat(_, _)
FPowNat(x, k) == IF k = 0 THEN FNorm(1, 0) ELSE IF k = 1 THEN x ELSE FMul(x, FPowNat(x, k - 1))
\* comparison of two decided numbers: -1 / 0 / 1 ; 2 = undecided
FCmp(x, y) == IF x.c = "und" \/ y.c = "und" THEN 2
              ELSE IF x.c = "huge" /\ y.c = "huge" THEN 0
              ELSE IF x.c = "huge" THEN 1 ELSE IF y.c = "huge" THEN -1
              ELSE LET e == Max(x.e, y.e)
                       a == x.n * Pw2(e - x.e)
                       b == y.n * Pw2(e - y.e)
                   IN IF a < b THEN -1 ELSE IF a > b THEN 1 ELSE 0
NumCmp(v, w) ==     \* int/bool/float in any mix
    IF v.t # "float" /\ w.t # "float" THEN ICmp(AsInt(v), AsInt(w))
    ELSE LET CmpIF(i, f) ==      \* integer i against float f
                 IF f.c = "und" THEN 2
                 ELSE IF f.c = "huge" THEN -1       \* every integer of the model is below 1e308 (MaxLimbs)
                 ELSE IF ToFloat(i).c = "dy" THEN FCmp(ToFloat(i), f)
                 ELSE IF i.neg THEN -1 ELSE 1       \* |i| >= 2^15 > every dyadic of the model
         IN IF v.t = "float" /\ w.t = "float" THEN FCmp(v, w)
            ELSE IF v.t = "float" THEN (LET c == CmpIF(AsInt(w), v) IN IF c = 2 THEN 2 ELSE -c)
            ELSE CmpIF(AsInt(v), w)

RECURSIVE SeqCmp(_, _, _)
SeqCmp(a, b, i) == IF i > Len(a) /\ i > Len(b) THEN 0 ELSE IF i > Len(a) THEN -1 ELSE IF i > Len(b) THEN 1
                   ELSE IF a[i] < b[i] THEN -1 ELSE IF a[i] > b[i] THEN 1 ELSE SeqCmp(a, b, i + 1)
RECURSIVE Repeat(_, _)
Repeat(s, n) == IF n <= 0 THEN <<>> ELSE s \o Repeat(s, n - 1)

Truth(v) == CASE v.t = "bool" -> v.b
              [] v.t = "int" -> v.m # <<>>
              [] v.t = "float" -> ~FZero(v)         \* und: callers test Decided first
              [] v.t = "str" -> v.s # <<>>
              [] OTHER -> TRUE
TruthDecided(v) == ~(v.t = "float" /\ v.c = "und")

ArithOps == {"+", "-", "*", "//", "%", "/", "**"}
BitOps == {"&", "|", "^"}
ShiftOps == {"<<", ">>"}
BitCode(op) == CASE op = "&" -> 1 [] op = "|" -> 2 [] OTHER -> 3
MaxShift == 400
MaxExp == 80

(* Python's binary operators on the value domain; exceptions are values [t |-> "exc"] *)
IntBin(op, x, y) ==
    CASE op = "+" -> IAdd(x, y)
      [] op = "-" -> ISub(x, y)
      [] op = "*" -> IMul(x, y)
      [] op = "//" -> IF y.m = <<>> THEN Exc("ZeroDivisionError") ELSE IDivMod(x, y).q
      [] op = "%" -> IF y.m = <<>> THEN Exc("ZeroDivisionError") ELSE IDivMod(x, y).r
      [] op = "/" -> IF y.m = <<>> THEN Exc("ZeroDivisionError")
                     ELSE IF FIsDy(ToFloat(x)) /\ FIsDy(ToFloat(y)) THEN FDiv(ToFloat(x), ToFloat(y))
                     ELSE IF x.m = <<>> THEN FUnd
                     ELSE LET dm == IDivMod(x, y) IN
                          IF dm.r.m = <<>> /\ FIsDy(ToFloat(dm.q)) THEN ToFloat(dm.q) ELSE FUnd
      [] op = "**" -> IF ~y.neg THEN (IF ISmall(y) /\ MToNat(y.m) <= MaxExp THEN IPow(x, MToNat(y.m)) ELSE Und)
                      ELSE IF x.m = <<>> THEN Exc("ZeroDivisionError")
                      ELSE IF ~(ISmall(y) /\ MToNat(y.m) <= MaxExp) \/ ~FIsDy(ToFloat(x)) THEN FUnd
                      ELSE FDiv(FNorm(1, 0), FPowNat(ToFloat(x), MToNat(y.m)))
      [] op \in BitOps -> IBit(BitCode(op), x, y)
      [] op = "<<" -> IF y.neg THEN Exc("ValueError")
                      ELSE IF x.m = <<>> THEN IZero
                      ELSE IF ISmall(y) /\ MToNat(y.m) <= MaxShift THEN IShl(x, MToNat(y.m)) ELSE Und
      [] op = ">>" -> IF y.neg THEN Exc("ValueError")
                      ELSE IF ISmall(y) /\ MToNat(y.m) <= MaxShift THEN IShr(x, MToNat(y.m))
                      ELSE (IF x.neg THEN INeg(IOne) ELSE IZero)
      [] OTHER -> Und
FloatBin(op, x, y) ==      \* at least one operand was a float; both converted
    CASE op = "+" -> FAdd(x, y)
      [] op = "-" -> FAdd(x, IF FIsDy(y) THEN [y EXCEPT !.n = -y.n] ELSE FUnd)
      [] op = "*" -> FMul(x, y)
      [] op = "/" -> IF FZero(y) THEN Exc("ZeroDivisionError") ELSE FDiv(x, y)
      [] op = "//" -> IF FZero(y) THEN Exc("ZeroDivisionError") ELSE FFloorDiv(x, y)
      [] op = "%" -> IF FZero(y) THEN Exc("ZeroDivisionError") ELSE FMod(x, y)
      [] OTHER -> Und
FloatPow(x, w) ==          \* x float (converted), w the original exponent value (int/bool/float)
    LET k == IF w.t = "float" THEN (IF FIsDy(w) /\ w.e = 0 THEN w.n ELSE NLim) ELSE
             (IF ISmall(AsInt(w)) /\ MToNat(AsInt(w).m) <= MaxExp THEN IToInt(AsInt(w)) ELSE NLim)
    IN IF k = NLim THEN Und                                  \* fractional / huge exponents: complex results etc.
       ELSE IF k = 0 THEN FNorm(1, 0)
       ELSE IF x.c = "und" THEN Und                            \* may overflow or divide by zero: not decided
       ELSE IF x.c = "huge" THEN (IF k = 1 THEN x ELSE IF k > 1 THEN Exc("OverflowError") ELSE FUnd)
       ELSE IF k > 0 THEN FPowNat(x, k)
       ELSE IF FZero(x) THEN Exc("ZeroDivisionError")
       ELSE FDiv(FNorm(1, 0), FPowNat(x, -k))
PyBin(op, v, w) ==
    IF IsNum(v) /\ IsNum(w) THEN
        IF op \in BitOps \cup ShiftOps THEN
            (IF v.t = "float" \/ w.t = "float" THEN Exc("TypeError")
             ELSE IF op \in BitOps /\ v.t = "bool" /\ w.t = "bool"
                  THEN Bool(CASE op = "&" -> v.b /\ w.b [] op = "|" -> v.b \/ w.b [] OTHER -> v.b # w.b)
                  ELSE IntBin(op, AsInt(v), AsInt(w)))
        ELSE IF v.t # "float" /\ w.t # "float" THEN IntBin(op, AsInt(v), AsInt(w))
        ELSE IF op = "**" THEN FloatPow(ToFloat(v), w)
        ELSE FloatBin(op, ToFloat(v), ToFloat(w))
    ELSE IF v.t = "str" /\ w.t = "str" THEN
        (IF op = "+" THEN Str(v.s \o w.s) ELSE Exc("TypeError"))
    ELSE IF op = "*" /\ v.t = "str" /\ w.t \in {"int", "bool"} THEN
        (IF AsInt(w).neg THEN Str(<<>>) ELSE IF ISmall(AsInt(w)) /\ MToNat(AsInt(w).m) <= 8 THEN Str(Repeat(v.s, MToNat(AsInt(w).m))) ELSE Und)
    ELSE IF op = "*" /\ w.t = "str" /\ v.t \in {"int", "bool"} THEN
        (IF AsInt(v).neg THEN Str(<<>>) ELSE IF ISmall(AsInt(v)) /\ MToNat(AsInt(v).m) <= 8 THEN Str(Repeat(w.s, MToNat(AsInt(v).m))) ELSE Und)
    ELSE IF op = "%" /\ v.t = "str" THEN Und                  \* formatting: not modelled
    ELSE Exc("TypeError")

CmpOps == {"<", "<=", "==", "!=", ">", ">="}
CmpHolds(op, c) == CASE op = "<" -> c < 0 [] op = "<=" -> c <= 0 [] op = "==" -> c = 0
                     [] op = "!=" -> c # 0 [] op = ">" -> c > 0 [] OTHER -> c >= 0
PyCmp(op, v, w) ==
    IF IsNum(v) /\ IsNum(w) THEN (LET c == NumCmp(v, w) IN IF c = 2 THEN Und ELSE Bool(CmpHolds(op, c)))
    ELSE IF v.t = "str" /\ w.t = "str" THEN Bool(CmpHolds(op, SeqCmp(v.s, w.s, 1)))
    ELSE IF op = "==" THEN Bool(FALSE) ELSE IF op = "!=" THEN Bool(TRUE)
    ELSE Exc("TypeError")
PyNeg(v) == IF v.t = "float" THEN FNeg(v) ELSE IF v.t \in {"int", "bool"} THEN INeg(AsInt(v)) ELSE Exc("TypeError")
PyInv(v) == IF v.t \in {"int", "bool"} THEN INot(AsInt(v)) ELSE Exc("TypeError")
PyAbs(v) == IF v.t = "float" THEN (IF FIsDy(v) THEN [v EXCEPT !.n = Abs(v.n)] ELSE IF v.c = "huge" THEN v ELSE FUnd)
            ELSE IF v.t \in {"int", "bool"} THEN Z(FALSE, AsInt(v).m) ELSE Exc("TypeError")

---------------------------------------------------------------------------
(* arith phase: conformance of PyNum with CPython; one state per case *)
ArithCases == IF Phase = "arith" THEN ndJsonDeserialize(IOEnv.ARITH) ELSE <<>>
\* literal records of the case files -> values
Lit(e) == CASE e.k = "int" -> Z(e.neg, e.m)
            [] e.k = "flt" -> (IF e.c = "huge" THEN FHuge ELSE FNorm(e.n, e.e))
            [] e.k = "bool" -> Bool(e.b)
            [] e.k = "str" -> Str(e.s)
            [] OTHER -> Und
ArithResult(c) == LET x == Lit(c.x)
                      y == Lit(c.y)
                  IN CASE c.op \in CmpOps -> PyCmp(c.op, x, y)
                       [] c.op = "neg" -> PyNeg(x)
                       [] c.op = "inv" -> PyInv(x)
                       [] c.op = "abs" -> PyAbs(x)
                       [] c.op = "fits64" -> Bool(Fits64(x))
                       [] OTHER -> PyBin(c.op, x, y)
WellFormedValue(v) ==
    CASE v.t = "int" -> /\ \A i \in 1..Len(v.m) : v.m[i] \in 0..(B - 1)
                        /\ (v.m # <<>> => v.m[Len(v.m)] # 0)
                        /\ (v.m = <<>> => ~v.neg)
      [] v.t = "float" -> v.c \in {"und", "huge"} \/ (v.c = "dy" /\ Abs(v.n) < NLim /\ v.e \in 0..8 /\ (v.e = 0 \/ v.n % 2 # 0))
      [] v.t = "str" -> \A i \in 1..Len(v.s) : v.s[i] \in 0..1114111
      [] v.t = "bool" -> v.b \in BOOLEAN
      [] v.t = "exc" -> v.x \in {"TypeError", "ZeroDivisionError", "OverflowError", "ValueError", "UnboundLocalError", "IndexError"}
      [] OTHER -> v.t = "und"

VARIABLE m        \* the machine: arith phase [ph, i, r] ; run phase see below
InitArith == \E i \in 1..Len(ArithCases) : m = [ph |-> "arith", i |-> i, r |-> ArithResult(ArithCases[i])]
NextArith == UNCHANGED m
ArithWellFormed == m.ph = "arith" => WellFormedValue(m.r)
PublishArith == m.ph = "arith" => PrintT("@@" \o ToJson([i |-> m.i, r |-> m.r]))
=============================================================================
