---- MODULE zz_bench ----
EXTENDS FormatSpec
ASSUME PrintT(<<"start", JavaTime>>)
ASSUME PrintT(<<"cands", Cardinality(IntCands), JavaTime>>)
ASSUME PrintT(<<"fmt", Cardinality({RefFValue(v, 0, <<48, 53, 120>>) : v \in IntCands}), JavaTime>>)
ASSUME PrintT(<<"str", Cardinality({Str(v) : v \in IntCands}), JavaTime>>)
ASSUME PrintT(<<"str2", Cardinality({IntStr(v) : v \in IntCands}), JavaTime>>)
ASSUME PrintT(<<"digs10", Cardinality({DigitsOf(v.mag, 10) : v \in IntCands}), JavaTime>>)
ASSUME PrintT(<<"digs16", Cardinality({DigitsOf(v.mag, 16) : v \in IntCands}), JavaTime>>)
ASSUME PrintT(<<"digs2", Cardinality({DigitsOf(v.mag, 2) : v \in IntCands}), JavaTime>>)
ASSUME PrintT(<<"fmtd", Cardinality({RefFValue(v, 0, <<48, 53, 100>>) : v \in IntCands}), JavaTime>>)
ASSUME PrintT(<<"end", JavaTime>>)
====
