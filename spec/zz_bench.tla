---- MODULE zz_bench ----
EXTENDS FormatSpec
C1 == CHOOSE c \in CallCases : c.fn = "str"
C2 == CHOOSE c \in CallCases : c.fn = "format1" /\ c.s = <<48, 53, 120>>
O1 == {o \in CallOps : InDomain(o)}
ASSUME PrintT(<<"start", JavaTime>>)
ASSUME PrintT(<<"ops", Cardinality(O1), JavaTime>>)
ASSUME PrintT(<<"seq", Len(SX!SetToSeq(O1)), JavaTime>>)
ASSUME PrintT(<<"ref1", Cardinality({RefOf(C1, o) : o \in O1}), JavaTime>>)
ASSUME PrintT(<<"ref2", Cardinality({RefOf(C2, o) : o \in O1}), JavaTime>>)
ASSUME PrintT(<<"ref2again", Cardinality({RefOf(C2, o) : o \in O1}), JavaTime>>)
ASSUME PrintT(<<"row", Len([i \in 1..Len(SX!SetToSeq(O1)) |-> RefOf(C2, SX!SetToSeq(O1)[i])] \o <<>>), JavaTime>>)
ASSUME PrintT(<<"row2", LET os == SX!SetToSeq(O1) IN Len([i \in 1..Len(os) |-> RefOf(C2, os[i])] \o <<>>), JavaTime>>)
ASSUME PrintT(<<"json", Len(ToJson([i \in 1..Len(SX!SetToSeq(O1)) |-> OpJson(SX!SetToSeq(O1)[i])])), JavaTime>>)
ASSUME PrintT(<<"end", JavaTime>>)
====
