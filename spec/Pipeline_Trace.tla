--------------------------- MODULE Pipeline_Trace ---------------------------
(* C43: validation of recorded compilations (one record per text that the   *)
(* real compiler was run on, events emitted by the wrapped phases of the    *)
(* real pipeline) against PipelineCore: the record must be a legal run that *)
(* ends Generated (and the C compiler accepts the file) or Rejected (with   *)
(* positioned messages); a text that is valid Python must end Generated     *)
(* unless every counted error belongs to the documented rejections.         *)
(* Record: [id, k (index into Kinds), ev (events), fin (caller's view),     *)
(*          valid (CPython compiles the text), docd (every counted error is *)
(*          of a documented-rejection class: undeclared name, unbound       *)
(*          local, delete of a closure variable)]                           *)
(* One TLC state per record; the verdicts are published in the final state. *)
EXTENDS PipelineCore, TLC, Json, IOUtils

Records == ndJsonDeserialize(IOEnv.RECORDS)
KindsTab == ndJsonDeserialize(IOEnv.KINDS)       \* the distinct phase-kind lists of the recorded pipelines
NR == Len(Records)

Why(r) ==
  LET kinds == KindsTab[r.k]
      st == Run(St0, r.ev, 1, kinds)
      w == FinalWhy(st, r.fin, kinds)
  IN IF w # "" THEN w
     ELSE IF r.valid /\ ~Generated(st, kinds) /\ ~r.docd THEN "valid-rejected"
     ELSE ""

VARIABLES i, bad
vars == <<i, bad>>
Init == i = 0 /\ bad = <<>>
Step == /\ i < NR /\ i' = i + 1
        /\ LET w == Why(Records[i + 1]) IN
           bad' = IF w = "" THEN bad ELSE Append(bad, [id |-> Records[i + 1].id, why |-> w])
Done == i = NR /\ UNCHANGED vars
Next == Step \/ Done
Spec == Init /\ [][Next]_vars
TypeOK == i \in 0..NR /\ Len(bad) <= i
Publish == (i = NR) => PrintT("@@" \o ToJson([n |-> NR, bad |-> bad]))
=============================================================================
