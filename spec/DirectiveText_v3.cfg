SPECIFICATION Spec
CONSTANTS
  Part = "value"
  MaxChunks = 3
  MaxItems = 0
  ItemMode = "small"
  Dump = "all"
INVARIANT BoolSane
INVARIANT IntSane
INVARIANT ListSane
INVARIANT PublishV
INVARIANT PublishL
CHECK_DEADLOCK FALSE
