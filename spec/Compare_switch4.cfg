SPECIFICATION Spec
CONSTANTS
  Part = "switch"
  MaxArms = 4
INVARIANT SwitchOK
INVARIANT Publish
CHECK_DEADLOCK FALSE
