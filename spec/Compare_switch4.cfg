SPECIFICATION Spec
CONSTANTS
  Part = "switch"
  BoolSize = "q"
  AndMerge = "fixed"
  MaxArms = 4
INVARIANT SwitchOK
INVARIANT Publish
CHECK_DEADLOCK FALSE
