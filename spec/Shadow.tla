------------------------------- MODULE Shadow -------------------------------
(* C38: pure-Python mode behaves the same interpreted (CPython + Cython/Shadow.py) *)
(* and compiled, while values stay within the declared C ranges.                   *)
(*                                                                                 *)
(* Part "divmod": cython.cdiv / cython.cmod.  Reference = C semantics (truncating  *)
(*   quotient, remainder with the dividend's sign; for floating operands plain     *)
(*   division and fmod), validated declaratively (RefSound).  Impl-shaped: a       *)
(*   transcription of Shadow.cdiv / Shadow.cmod (Python floor division for ints,   *)
(*   true division when an operand is a float).  One state per (kind, op, a)       *)
(*   carrying the row of demands over all b; TLC proves that the transcription     *)
(*   agrees with the reference on every demanded cell.                             *)
(* Part "cast": cython.cast(T, v) for C integer / double / bint targets and typed  *)
(*   or object sources, and cast(T, obj, typecheck=..) for Python types.           *)
(*   Reference = C conversion (identity in range, truncation double -> int,        *)
(*   v != 0 for bint, exact widening to double; <T?> raises TypeError);            *)
(*   impl-shaped: transcription of Shadow.cast / typedef.__call__; TLC proves that *)
(*   it agrees with the reference on every demanded cell.                          *)
(*   A cast whose value leaves the range of T is outside the property (no demand). *)
(* Part "prog": a small typed language (PyCore with range side-conditions) run as  *)
(*   a small-step machine: programs come from the harness (IOEnv.C38_PROGS), the   *)
(*   inputs from the spec's grids.  A behaviour in which a typed variable, a C     *)
(*   intermediate, an argument or a return value leaves its declared range (or     *)
(*   reaches C undefined behaviour, or a value kind that a Python annotation       *)
(*   cannot convert) ends "pruned" with the reason; the others end with the        *)
(*   expected observation, the same for the interpreted and the compiled run.      *)
(* Doubles are modelled exactly as integers counting quarters (XReal: dyadics);    *)
(* results that are not quarter multiples are "undecided by the spec" (pruned).    *)
(* TLC integers are 32-bit: arithmetic is guarded, results beyond 2^31-1 in a      *)
(* 64-bit C type end "pruned: beyond-tlc" (wide values: Python oracle, harness).   *)
EXTENDS Integers, Sequences, FiniteSets, TLC, Json, IOUtils

CONSTANTS Part,      \* "divmod" | "cast" | "prog"
          Wide,      \* divmod: FALSE = every pair of -128..255 and the quarter grid; TRUE = 16/31-bit boundary grid
          Full,      \* prog: FALSE = thin input grids, TRUE = full grids
          MaxLoop,   \* prog: largest trip count of a for loop
          Dump

M    == 2147483647
QCap == 67108864        \* |quarters| <= 2^26 : doubles with <= 26 significant bits, exact everywhere

Abs(x) == IF x < 0 THEN -x ELSE x
Sgn(x) == IF x < 0 THEN -1 ELSE 1
TruncDiv(a, b) == Sgn(a) * Sgn(b) * (Abs(a) \div Abs(b))
TruncRem(a, b) == a - TruncDiv(a, b) * b
\* Python's // and % (floor), written so that no intermediate exceeds the operands
PyMod(a, b)    == LET r == TruncRem(a, b) IN IF r # 0 /\ ((r < 0) # (b < 0)) THEN r + b ELSE r
FloorDiv(a, b) == LET q == TruncDiv(a, b) IN IF a - q * b # 0 /\ ((a < 0) # (b < 0)) THEN q - 1 ELSE q

\* declarative characterisations
IsTruncPair(q, r, a, b) == /\ a = q * b + r /\ Abs(r) < Abs(b) /\ (r = 0 \/ (r < 0) = (a < 0))
IsFloorPair(q, r, a, b) == /\ a - r = q * b /\ Abs(r) < Abs(b) /\ (r = 0 \/ (r < 0) = (b < 0))

-----------------------------------------------------------------------------
(* Shadow.py, transcribed.  Python ints are unbounded; `(a * b) < 0` only uses the sign. *)
ProdNeg(a, b) == (a < 0 /\ b > 0) \/ (a > 0 /\ b < 0)

ShCdiv(a, b) ==          \* def cdiv(a, b): [no float operand] if a < 0: a = -a; b = -b / if b < 0: return (a + b + 1) // b / return a // b
  LET a1 == IF a < 0 THEN -a ELSE a
      b1 == IF a < 0 THEN -b ELSE b
  IN IF b1 < 0 THEN FloorDiv(a1 + b1 + 1, b1) ELSE FloorDiv(a1, b1)

ShCmod(a, b) ==          \* r = a % b ; if (a * b) < 0 and r: r -= b
  LET r == PyMod(a, b) IN IF ProdNeg(a, b) /\ r # 0 THEN r - b ELSE r

\* the same functions on floats (quarters).  cdiv: `if isinstance(a, float) or isinstance(b, float): return a / b` --
\* Python's true division, the exact quotient: the quarter count q with q * b = 4 * a (only evaluated where one exists)
ShCdivQ(a, b) == CHOOSE q \in -(4 * Abs(a))..(4 * Abs(a)) : q * b = 4 * a
ShCmodQ(a, b) == ShCmod(a, b)       \* cmod has no float branch: `%` on floats, then the same sign correction

\* C semantics on doubles: a / b and fmod(a, b); the quotient is decided only when it is a quarter multiple
QuotDecided(a, b) == (4 * a) % Abs(b) = 0
QuotQ(a, b)       == TruncDiv(4 * a, b)

-----------------------------------------------------------------------------
(* C types *)
IntTypes == {"schar", "uchar", "short", "ushort", "int", "long"}
CTypes   == IntTypes \cup {"double", "bint"}
Kind(t) == IF t = "double" THEN "d" ELSE IF t = "bint" THEN "b" ELSE "i"
Rank(t) == CASE t = "bint" -> 0 [] t \in {"schar", "uchar"} -> 1 [] t \in {"short", "ushort"} -> 2
             [] t = "int" -> 3 [] t = "long" -> 4 [] t = "double" -> 9
Lo(t) == CASE t = "schar" -> -128 [] t = "short" -> -32768 [] t \in {"uchar", "ushort", "bint"} -> 0
           [] t = "double" -> -QCap [] OTHER -> -M       \* int: -2^31 itself is left to the Python oracle
Hi(t) == CASE t = "schar" -> 127 [] t = "uchar" -> 255 [] t = "short" -> 32767 [] t = "ushort" -> 65535
           [] t = "bint" -> 1 [] t = "double" -> QCap [] OTHER -> M
InRange(t, v) == Lo(t) <= v /\ v <= Hi(t)
Promote(t) == IF Rank(t) < 3 THEN "int" ELSE t                       \* C integer promotion
Arith(t1, t2) == IF Rank(Promote(t1)) >= Rank(Promote(t2)) THEN Promote(t1) ELSE Promote(t2)

-----------------------------------------------------------------------------
(* cast *)
PyTypes == {"list", "tuple", "dict", "object"}
NoDemand(why) == [st |-> "nodemand", k |-> "", v |-> 0, why |-> why]
Val(k, v)     == [st |-> "ok", k |-> k, v |-> v, why |-> ""]
Raises(n)     == [st |-> "exc", k |-> "", v |-> 0, why |-> n]
B2I(c) == IF c THEN 1 ELSE 0

\* C semantics of <T>v ; sk = kind of the source ("i", "b", "d"), v its value (quarters for "d")
CastDemand(T, sk, v) ==
  CASE Kind(T) = "i" -> (IF sk = "d" THEN (IF InRange(T, TruncDiv(v, 4)) THEN Val("i", TruncDiv(v, 4)) ELSE NoDemand("cast-range"))
                         ELSE IF InRange(T, v) THEN Val("i", v) ELSE NoDemand("cast-range"))
    [] Kind(T) = "d" -> (IF sk = "d" THEN Val("d", v) ELSE IF Abs(v) <= QCap \div 4 THEN Val("d", 4 * v) ELSE NoDemand("beyond-tlc"))
    [] Kind(T) = "b" -> Val("b", B2I(v # 0))
\* Shadow.cast(t, v) with t = typedef(py_int | py_float | bool): `isinstance(v, basetype)` -> v unchanged, else basetype(v);
\* for basetype int additionally `type(v) is not int` (a bool) -> int(v)
CastShadow(T, sk, v) ==
  CASE Kind(T) = "i" -> (IF sk = "d" THEN Val("i", TruncDiv(v, 4)) ELSE IF sk = "b" THEN Val("i", v) ELSE Val(sk, v))
    [] Kind(T) = "d" -> (IF sk = "d" THEN Val("d", v) ELSE Val("d", 4 * v))
    [] Kind(T) = "b" -> (IF sk = "b" THEN Val("b", v) ELSE Val("b", B2I(v # 0)))
\* cast(T, obj[, typecheck=True]) for Python types; vk = type of the object; result = the type of the returned object
PyCastDemand(T, vk, tc) == IF T = "object" \/ T = vk THEN Val("o", 0) ELSE IF tc THEN Raises("TypeError") ELSE NoDemand("unsafe-cast")
\* Shadow: `if typecheck: if not isinstance(v, t): raise TypeError / return v` ; else isinstance -> v, otherwise `return t(*args)`: a converted copy
PyCastShadow(T, vk, tc) == IF T = "object" \/ T = vk THEN Val("o", 0) ELSE IF tc THEN Raises("TypeError") ELSE Val("conv", 0)

-----------------------------------------------------------------------------
(* prog: expressions *)
Vars == {"a", "b", "x", "y", "i", "p", "q"}
Unset == [k |-> "u", v |-> 0]
Ok(t, v)  == [st |-> "ok", t |-> t, k |-> Kind(t), v |-> v, why |-> "", fl |-> {}]
Pr(why)   == [st |-> "prune", t |-> "", k |-> "", v |-> 0, why |-> why, fl |-> {}]
Ex(n)     == [st |-> "exc", t |-> "", k |-> "", v |-> 0, why |-> n, fl |-> {}]
WithFl(r, f) == [r EXCEPT !.fl = @ \cup f]

AddOv(x, y) == (y > 0 /\ x > M - y) \/ (y < 0 /\ x < (-M) - y)
MulOv(x, y) == x # 0 /\ y # 0 /\ Abs(x) > M \div Abs(y)
\* result v (not evaluated when ov) of an operation whose C type is t
Res(t, ov, v) == IF ov THEN (IF t \in {"long", "double"} THEN Pr("beyond-tlc") ELSE Pr("overflow"))
                 ELSE IF ~InRange(t, v) THEN (IF t \in {"long", "double"} THEN Pr("beyond-tlc") ELSE Pr("overflow"))
                 ELSE Ok(t, v)
QBig(r) == r.k # "d" /\ Abs(r.v) > QCap \div 4
Q(r)    == IF r.k = "d" THEN r.v ELSE 4 * r.v

ArithOps == {"+", "-", "*", "//", "%", "/"}
CmpOps   == {"<", "<=", "==", "!=", ">", ">="}
Cmp(op, x, y) == CASE op = "<" -> x < y [] op = "<=" -> x <= y [] op = "==" -> x = y
                   [] op = "!=" -> x # y [] op = ">" -> x > y [] op = ">=" -> x >= y

BinInt(op, t, x, y) ==
  CASE op = "+"  -> Res(t, AddOv(x, y), x + y)
    [] op = "-"  -> Res(t, AddOv(x, -y), x - y)
    [] op = "*"  -> Res(t, MulOv(x, y), x * y)
    [] op = "//" -> IF y = 0 THEN Ex("ZeroDivisionError") ELSE Res(t, FALSE, FloorDiv(x, y))
    [] op = "%"  -> IF y = 0 THEN Ex("ZeroDivisionError") ELSE Res(t, FALSE, PyMod(x, y))
BinDbl(op, x, y) ==        \* x, y in quarters, both |.| <= QCap
  CASE op = "+"  -> Res("double", FALSE, x + y)
    [] op = "-"  -> Res("double", FALSE, x - y)
    [] op = "*"  -> IF MulOv(x, y) THEN Pr("beyond-tlc") ELSE IF (x * y) % 4 # 0 THEN Pr("nondyadic") ELSE Res("double", FALSE, (x * y) \div 4)
    [] op = "//" -> IF y = 0 THEN Ex("ZeroDivisionError") ELSE Res("double", FALSE, 4 * FloorDiv(x, y))
    [] op = "%"  -> IF y = 0 THEN Ex("ZeroDivisionError") ELSE Res("double", FALSE, PyMod(x, y))
    [] op = "/"  -> IF y = 0 THEN Ex("ZeroDivisionError") ELSE IF ~QuotDecided(x, y) THEN Pr("nondyadic") ELSE Res("double", FALSE, QuotQ(x, y))
Bin(op, l, r) ==
  IF l.k = "d" \/ r.k = "d" \/ op = "/"
  THEN (IF QBig(l) \/ QBig(r) THEN Pr("beyond-tlc") ELSE BinDbl(op, Q(l), Q(r)))
  ELSE BinInt(op, Arith(l.t, r.t), l.v, r.v)

\* cython.cdiv / cython.cmod: C `/` and `%` (cdivision on); a zero divisor is undefined (ints) or non-finite (doubles)
CDivMod(op, l, r) ==
  IF l.k = "d" \/ r.k = "d"
  THEN (IF QBig(l) \/ QBig(r) THEN Pr("beyond-tlc")
        ELSE IF Q(r) = 0 THEN Pr("c-div-zero")
        ELSE IF op = "cmod" THEN Res("double", FALSE, TruncRem(Q(l), Q(r)))
        ELSE IF ~QuotDecided(Q(l), Q(r)) THEN Pr("nondyadic")
        ELSE Res("double", FALSE, QuotQ(Q(l), Q(r))))
  ELSE IF r.v = 0 THEN Pr("c-div-zero")          \* (and MIN / -1, MIN % -1: "c-div-overflow"; MIN is outside the TLC domain)
  ELSE Res(Arith(l.t, r.t), FALSE, IF op = "cdiv" THEN TruncDiv(l.v, r.v) ELSE TruncRem(l.v, r.v))

CastE(T, r) ==
  LET d == CastDemand(T, r.k, r.v)
  IN IF d.st = "nodemand" THEN Pr(d.why) ELSE Ok(T, d.v)

Truth(r) == r.v # 0

\* the helper function of a program: params p, q ; body one expression ; typed return
RECURSIVE Eval(_, _, _)
Eval(pr, env, e) ==
  LET tag == e[1] IN
  CASE tag = "c"  -> Ok("int", e[2])                     \* integer literal: the C compiler computes `a + 1` in int (Cython says long)
    [] tag = "cd" -> Ok("double", e[2])                  \* float literal, in quarters
    [] tag = "v"  -> (IF env[e[2]].k = "u" THEN Pr("unbound") ELSE Ok(pr.types[e[2]], env[e[2]].v))
    [] tag = "neg" -> LET r == Eval(pr, env, e[2]) IN
                      IF r.st # "ok" THEN r
                      ELSE WithFl(IF r.k = "d" THEN Ok("double", -r.v) ELSE Res(Promote(r.t), FALSE, -r.v), r.fl)
    [] tag = "not" -> LET r == Eval(pr, env, e[2]) IN IF r.st # "ok" THEN r ELSE WithFl(Ok("bint", B2I(~Truth(r))), r.fl)
    [] tag \in {"bin", "cmp", "cdiv", "cmod"} ->
         LET l == Eval(pr, env, IF tag \in {"bin", "cmp"} THEN e[3] ELSE e[2]) IN
         IF l.st # "ok" THEN l ELSE
         LET r == Eval(pr, env, IF tag \in {"bin", "cmp"} THEN e[4] ELSE e[3]) IN
         IF r.st # "ok" THEN WithFl(r, l.fl) ELSE
         WithFl(CASE tag = "bin" -> Bin(e[2], l, r)
                  [] tag = "cmp" -> (IF l.k = "d" \/ r.k = "d"
                                     THEN (IF QBig(l) \/ QBig(r) THEN Pr("beyond-tlc") ELSE Ok("bint", B2I(Cmp(e[2], Q(l), Q(r)))))
                                     ELSE Ok("bint", B2I(Cmp(e[2], l.v, r.v))))
                  [] OTHER -> CDivMod(tag, l, r),
                l.fl \cup r.fl)
    [] tag = "cast" -> LET r == Eval(pr, env, e[3]) IN
                       IF r.st # "ok" THEN r
                       ELSE WithFl(CastE(e[2], r), r.fl)
    [] tag = "call" ->       \* h(e1, e2): arguments converted to the parameter types, result to the declared return type
         LET h == pr.helper
             l == Eval(pr, env, e[2]) IN
         IF l.st # "ok" THEN l ELSE
         LET r == Eval(pr, env, e[3]) IN
         IF r.st # "ok" THEN WithFl(r, l.fl) ELSE
         IF l.k # Kind(h.ptypes[1]) \/ r.k # Kind(h.ptypes[2]) THEN Pr("kind-mismatch")
         ELSE IF ~InRange(h.ptypes[1], l.v) \/ ~InRange(h.ptypes[2], r.v) THEN Pr("arg-range")
         ELSE LET henv == [n \in Vars |-> IF n = "p" THEN [k |-> l.k, v |-> l.v] ELSE IF n = "q" THEN [k |-> r.k, v |-> r.v] ELSE Unset]
                  hpr  == [pr EXCEPT !.types = [a |-> "int", b |-> "int", x |-> "int", y |-> "int", i |-> "int",
                                                p |-> h.ptypes[1], q |-> h.ptypes[2]]]
                  o    == Eval(hpr, henv, h.body)
              IN WithFl(IF o.st # "ok" THEN o
                        ELSE IF o.k # Kind(h.ret) THEN Pr("kind-mismatch")
                        ELSE IF ~InRange(h.ret, o.v) THEN Pr("return-range")
                        ELSE WithFl(Ok(h.ret, o.v), o.fl), l.fl \cup r.fl)

-----------------------------------------------------------------------------
(* prog: well-formedness of what the harness sends *)
RECURSIVE WFExpr(_, _, _)
WFExpr(e, names, d) ==
  /\ d >= 0
  /\ LET tag == e[1] IN
     CASE tag \in {"c", "cd"} -> Len(e) = 2 /\ e[2] \in Int
       [] tag = "v" -> e[2] \in names
       [] tag \in {"neg", "not"} -> WFExpr(e[2], names, d - 1)
       [] tag = "bin" -> e[2] \in ArithOps /\ WFExpr(e[3], names, d - 1) /\ WFExpr(e[4], names, d - 1)
       [] tag = "cmp" -> e[2] \in CmpOps /\ WFExpr(e[3], names, d - 1) /\ WFExpr(e[4], names, d - 1)
       [] tag \in {"cdiv", "cmod"} -> WFExpr(e[2], names, d - 1) /\ WFExpr(e[3], names, d - 1)
       [] tag = "cast" -> e[2] \in CTypes /\ WFExpr(e[3], names, d - 1)
       [] tag = "call" -> "p" \notin names /\ WFExpr(e[2], names, d - 1) /\ WFExpr(e[3], names, d - 1)
       [] OTHER -> FALSE
RECURSIVE WFBlock(_, _, _)
WFStmt(s, hashelper, d) ==
  LET names == {"a", "b", "x", "y", "i"} tag == s[1] IN
  CASE tag \in {"set", "decl"} -> s[2] \in {"a", "b", "x", "y"} /\ WFExpr(s[3], names, 4)
    [] tag = "if"  -> WFExpr(s[2], names, 4) /\ WFBlock(s[3], hashelper, d - 1) /\ WFBlock(s[4], hashelper, d - 1)
    [] tag = "for" -> s[2] = "i" /\ WFExpr(s[3], names \ {"i"}, 4) /\ WFBlock(s[4], hashelper, d - 1)
    [] tag = "ret" -> Len(s[2]) >= 1 /\ \A j \in 1..Len(s[2]) : WFExpr(s[2][j], names, 4)
    [] OTHER -> FALSE
WFBlock(blk, hashelper, d) == d >= 0 /\ \A j \in 1..Len(blk) : WFStmt(blk[j], hashelper, d)
WFProg(pr) ==
  /\ pr.kind \in {"def", "cfunc", "ccall", "cmeth"}
  /\ \A n \in {"a", "b", "x", "y", "i"} : pr.types[n] \in CTypes
  /\ pr.types["i"] \in IntTypes
  /\ pr.ret \in CTypes \cup {"object"}
  /\ (pr.ret = "object") = (pr.kind = "def" \/ (pr.kind = "cmeth" /\ pr.mkind = "def"))
  /\ WFBlock(pr.body, pr.hashelper, 2)
  /\ pr.hashelper => (pr.helper.ptypes[1] \in CTypes /\ pr.helper.ptypes[2] \in CTypes /\ pr.helper.ret \in CTypes
                      /\ WFExpr(pr.helper.body, {"p", "q"}, 4))

-----------------------------------------------------------------------------
(* grids *)
WGrid == {-M, -M + 1, -65536, -65535, -32769, -32768, -32767, -257, -256, -255, -129, -128, -127, -7, -3, -2, -1, 0,
          1, 2, 3, 7, 127, 128, 129, 255, 256, 257, 32767, 32768, 65535, 65536, 1073741823, 1073741824, M - 1, M}
QGrid == -26..26
BGrid == {-M, -65536, -32769, -32768, -129, -128, -1, 0, 1, 127, 128, 255, 256, 32767, 32768, 65535, 65536, M}
DGridCast == {-1030, -514, -512, -5, -3, -1, 0, 1, 2, 3, 4, 10, 510, 1022, 1024}
ThinI == {-7, -1, 0, 2, 3}
FullI == {-7, -3, -2, -1, 0, 1, 2, 3, 7}
ProgGrid(t) ==
  CASE t = "double" -> (IF Full THEN {-30, -8, -2, -1, 0, 2, 4, 9, 24} ELSE {-30, -8, 0, 2, 9})
    [] t = "bint"   -> {0, 1}
    [] OTHER -> {v \in (IF Full THEN FullI \cup {Lo(t) + 1, Hi(t) - 1} ELSE ThinI) : InRange(t, v)}
                  \cup {Lo(t), Hi(t)} \cup (IF Rank(t) < 3 THEN {Hi(t) + 1} ELSE {})       \* one argument outside the declared range

-----------------------------------------------------------------------------
VARIABLES c,     \* the case
          m      \* divmod: row ; cast: demand ; prog: machine
vars == <<c, m>>

(* ---- divmod ---- *)
DMDom(kind) == IF kind = "d" THEN QGrid ELSE IF Wide THEN WGrid ELSE -128..255
DMDemanded(kind, op, a, b) == b # 0 /\ (kind = "i" \/ op = "cmod" \/ QuotDecided(a, b))
DMDemand(kind, op, a, b) == IF kind = "i" THEN (IF op = "cdiv" THEN TruncDiv(a, b) ELSE TruncRem(a, b))
                            ELSE (IF op = "cdiv" THEN QuotQ(a, b) ELSE TruncRem(a, b))
DMShadow(kind, op, a, b) == IF kind = "i" THEN (IF op = "cdiv" THEN ShCdiv(a, b) ELSE ShCmod(a, b))
                            ELSE (IF op = "cdiv" THEN ShCdivQ(a, b) ELSE ShCmodQ(a, b))
DMRow(k, o, a) == [b \in {bb \in DMDom(k) : DMDemanded(k, o, a, bb)} |-> DMDemand(k, o, a, b)]
\* the row is computed by an action (not in Init) so that TLC's workers share the work
InitDM == \E k \in (IF Wide THEN {"i"} ELSE {"i", "d"}), o \in {"cdiv", "cmod"} : \E a \in DMDom(k) :
            /\ c = [kind |-> k, op |-> o, a |-> a]
            /\ m = [done |-> FALSE, row |-> <<>>, devs |-> {}]
FillRow == /\ Part = "divmod" /\ ~m.done
           /\ LET row == DMRow(c.kind, c.op, c.a)
              IN m' = [done |-> TRUE, row |-> row,      \* (no row[b] lookups here: they are linear in TLC)
                       devs |-> {b \in DMDom(c.kind) : DMDemanded(c.kind, c.op, c.a, b)
                                                       /\ DMShadow(c.kind, c.op, c.a, b) # DMDemand(c.kind, c.op, c.a, b)}]
           /\ UNCHANGED c
DMDone == Part = "divmod" /\ m.done
DMDevs == m.devs

RefSound == DMDone /\ c.kind = "i" /\ c.op = "cdiv" =>
              \A b \in DMDom("i") \ {0} : /\ IsTruncPair(TruncDiv(c.a, b), TruncRem(c.a, b), c.a, b)
                                          /\ (MulOv(FloorDiv(c.a, b), b) \/ IsFloorPair(FloorDiv(c.a, b), PyMod(c.a, b), c.a, b))
\* Shadow.cdiv / Shadow.cmod equal C semantics on every integer pair ...
ShadowIntAgrees == DMDone /\ c.kind = "i" => DMDevs = {}
\* ... and on floats: cmod is fmod, cdiv is the C quotient (no deviation class is left; `devs` is published and must be empty)
ShadowDblAgrees == DMDone /\ c.kind = "d" => DMDevs = {}
PublishDM == (Dump /\ DMDone) => PrintT("@@" \o ToJson([kind |-> c.kind, op |-> c.op, a |-> c.a, row |-> m.row, devs |-> DMDevs,
                                                                    sh |-> IF c.kind = "d" THEN [b \in DOMAIN m.row |-> DMShadow(c.kind, c.op, c.a, b)] ELSE <<>>]))

(* ---- cast ---- *)
CSrcs == {[form |-> "c", t |-> t] : t \in CTypes} \cup {[form |-> "py", t |-> "long"], [form |-> "py", t |-> "bint"]}
SrcGrid(s) == CASE s.t = "double" -> DGridCast [] s.t = "bint" -> {0, 1} [] OTHER -> {v \in BGrid : InRange(s.t, v)}
InitCast == \/ /\ c \in {[T |-> T, src |-> s, v |-> v, tc |-> FALSE] : T \in CTypes, s \in CSrcs, v \in BGrid \cup DGridCast}
               /\ c.v \in SrcGrid(c.src)
               /\ m = CastDemand(c.T, Kind(c.src.t), c.v)
            \/ /\ c \in {[T |-> T, src |-> [form |-> "py", t |-> vk], v |-> 0, tc |-> tc] : T \in PyTypes, vk \in PyTypes \ {"object"}, tc \in BOOLEAN}
               /\ m = PyCastDemand(c.T, c.src.t, c.tc)
CastSh == IF c.T \in PyTypes THEN PyCastShadow(c.T, c.src.t, c.tc) ELSE CastShadow(c.T, Kind(c.src.t), c.v)
\* Shadow.cast equals the C semantics on every demanded cell (no deviation class is left)
CastAgrees == Part = "cast" /\ m.st # "nodemand" => CastSh = m
\* in range, an integer cast is the identity (Wrap(T, v) = v)
CastIdentityInRange == Part = "cast" /\ c.T \in IntTypes /\ Kind(c.src.t) = "i" /\ InRange(c.T, c.v) => m = Val("i", c.v)
PublishCast == (Dump /\ Part = "cast") => PrintT("@@" \o ToJson([T |-> c.T, form |-> c.src.form, st |-> c.src.t, v |-> c.v, tc |-> c.tc,
                                                                  demand |-> m, shadow |-> IF m.st = "nodemand" THEN m ELSE CastSh]))

(* ---- prog ---- *)
Progs == IF Part = "prog" THEN ndJsonDeserialize(IOEnv.C38_PROGS) ELSE <<>>
NoOut == [st |-> "", vals |-> <<>>, why |-> ""]
Out(st, vals, why) == [st |-> st, vals |-> vals, why |-> why]
P == c.prog

InitProg == LET ps == Progs IN
            \E pid \in 1..Len(ps) :
               LET pr == ps[pid] IN
               \E av \in ProgGrid(pr.types["a"]), bv \in ProgGrid(pr.types["b"]) :
                 /\ c = [pid |-> pid, a |-> av, b |-> bv, prog |-> pr]
                 /\ m = [env |-> [n \in Vars |-> Unset], todo |-> <<<<"bind">>>> \o pr.body, out |-> NoOut, fl |-> {}, steps |-> 0]

Running == Part = "prog" /\ m.out = NoOut
AtStmt  == Running /\ m.todo # <<>>
Cur     == Head(m.todo)
Rest    == Tail(m.todo)
Stop(o, fl) == m' = [m EXCEPT !.out = o, !.todo = <<>>, !.fl = @ \cup fl, !.steps = @ + 1] /\ UNCHANGED c
Fail(r)  == Stop(IF r.st = "exc" THEN Out("exc", <<>>, r.why) ELSE Out("pruned", <<>>, r.why), r.fl)
Go(env, todo, fl) == m' = [m EXCEPT !.env = env, !.todo = todo, !.fl = @ \cup fl, !.steps = @ + 1] /\ UNCHANGED c
Store(x, r) ==       \* assignment of the evaluated r to the typed variable x: no conversion by an annotation
  IF r.k # Kind(P.types[x]) THEN Stop(Out("pruned", <<>>, "kind-mismatch"), r.fl)
  ELSE IF ~InRange(P.types[x], r.v) THEN Stop(Out("pruned", <<>>, "assign-range"), r.fl)
  ELSE Go([m.env EXCEPT ![x] = [k |-> r.k, v |-> r.v]], Rest, r.fl)

Bind == AtStmt /\ Cur[1] = "bind" /\
        IF ~InRange(P.types["a"], c.a) \/ ~InRange(P.types["b"], c.b) THEN Stop(Out("pruned", <<>>, "arg-range"), {})
        ELSE Go([m.env EXCEPT !["a"] = [k |-> Kind(P.types["a"]), v |-> c.a], !["b"] = [k |-> Kind(P.types["b"]), v |-> c.b]], Rest, {})
Assign == AtStmt /\ Cur[1] = "set" /\
          LET r == Eval(P, m.env, Cur[3]) IN IF r.st # "ok" THEN Fail(r) ELSE Store(Cur[2], r)
\* x = cython.declare(T, e) is `cdef T x = e`: C assignment conversions only (widening to double, bint <-> int within
\* {0, 1}); a double into an integer variable is rejected by the compiler although Shadow.declare would truncate it
Declare == AtStmt /\ Cur[1] = "decl" /\
          LET r == Eval(P, m.env, Cur[3])
              T == P.types[Cur[2]] IN
          IF r.st # "ok" THEN Fail(r)
          ELSE IF r.k = "d" /\ Kind(T) # "d" THEN Stop(Out("pruned", <<>>, "kind-mismatch"), r.fl)
          ELSE IF Kind(T) = "b" /\ r.k = "i" /\ r.v \notin {0, 1} THEN Stop(Out("pruned", <<>>, "assign-range"), r.fl)
          ELSE LET cv == WithFl(CastE(T, r), r.fl) IN IF cv.st # "ok" THEN Fail(cv) ELSE Store(Cur[2], cv)
Branch == AtStmt /\ Cur[1] = "if" /\
          LET r == Eval(P, m.env, Cur[2]) IN
          IF r.st # "ok" THEN Fail(r) ELSE Go(m.env, (IF Truth(r) THEN Cur[3] ELSE Cur[4]) \o Rest, r.fl)
EnterFor == AtStmt /\ Cur[1] = "for" /\
          LET r == Eval(P, m.env, Cur[3]) IN
          IF r.st # "ok" THEN Fail(r)
          ELSE IF r.k # "i" THEN Stop(Out("pruned", <<>>, "kind-mismatch"), r.fl)
          ELSE IF r.v > MaxLoop THEN Stop(Out("pruned", <<>>, "loop-bound"), r.fl)
          ELSE Go(m.env, <<<<"iter", Cur[2], 0, r.v, Cur[4]>>>> \o Rest, r.fl)
ForNext == AtStmt /\ Cur[1] = "iter" /\
          IF Cur[3] < Cur[4]
          THEN Go([m.env EXCEPT ![Cur[2]] = [k |-> "i", v |-> Cur[3]]], Cur[5] \o <<<<"iter", Cur[2], Cur[3] + 1, Cur[4], Cur[5]>>>> \o Rest, {})
          ELSE Go(m.env, Rest, {})
RECURSIVE EvalAll(_, _, _)
EvalAll(pr, env, es) == IF es = <<>> THEN <<>> ELSE <<Eval(pr, env, Head(es))>> \o EvalAll(pr, env, Tail(es))
Return == AtStmt /\ Cur[1] = "ret" /\
          LET rs  == EvalAll(P, m.env, Cur[2])
              bad == {j \in 1..Len(rs) : rs[j].st # "ok"}
              fls == UNION {rs[j].fl : j \in 1..Len(rs)}
          IN IF bad # {} THEN LET fb == CHOOSE j \in bad : \A k \in bad : j <= k      \* left to right: the first failure ends the run
                              IN Fail(WithFl(rs[fb], UNION {rs[j].fl : j \in 1..fb}))
             ELSE IF P.ret # "object" /\ (Len(rs) # 1 \/ rs[1].k # Kind(P.ret)) THEN Stop(Out("pruned", <<>>, "kind-mismatch"), fls)
             ELSE IF P.ret # "object" /\ ~InRange(P.ret, rs[1].v) THEN Stop(Out("pruned", <<>>, "return-range"), fls)
             ELSE Stop(Out("ok", [j \in 1..Len(rs) |-> [k |-> rs[j].k, v |-> rs[j].v]], ""), fls)
FallOff == Running /\ m.todo = <<>> /\ Stop(Out("pruned", <<>>, "no-return"), {})


-----------------------------------------------------------------------------
Idle == Part = "cast" /\ UNCHANGED vars
Init == CASE Part = "divmod" -> InitDM [] Part = "cast" -> InitCast [] Part = "prog" -> InitProg
Next == Bind \/ Assign \/ Declare \/ Branch \/ EnterFor \/ ForNext \/ Return \/ FallOff \/ FillRow \/ Idle
Spec == Init /\ [][Next]_vars

ProgsWellFormed == Part = "prog" /\ m.steps = 0 => WFProg(P)
\* a finished run is either an observation (values of declared kinds within range), an exception, or pruned with a reason
OutcomeWellFormed == Part = "prog" /\ m.out # NoOut =>
     /\ m.out.st \in {"ok", "exc", "pruned"}
     /\ m.out.st = "ok" => (\A j \in 1..Len(m.out.vals) : m.out.vals[j].k \in {"i", "d", "b"} /\ Abs(m.out.vals[j].v) <= M)
     /\ m.out.st = "ok" /\ P.ret # "object" => InRange(P.ret, m.out.vals[1].v)
     /\ m.out.st = "exc" => m.out.why = "ZeroDivisionError"
     /\ m.out.st = "pruned" => m.out.why \in {"arg-range", "assign-range", "return-range", "cast-range", "overflow", "c-div-zero",
                                              "kind-mismatch", "nondyadic", "beyond-tlc", "loop-bound", "unbound", "no-return"}
\* every typed variable holds a value of its declared kind and range at every step
TypedVarsInRange == Part = "prog" =>
     \A n \in {"a", "b", "x", "y", "i"} : m.env[n].k # "u" => (m.env[n].k = Kind(P.types[n]) /\ InRange(P.types[n], m.env[n].v))
Terminates == Part = "prog" => m.steps <= 400
\* `fl` (model flags) carries spec-side hazard classes for known-finding matchers; no hazard class is modelled at present
NoHazardClass == Part = "prog" => m.fl = {}
PublishProg == (Dump /\ Part = "prog" /\ m.out # NoOut) =>
     PrintT("@@" \o ToJson([pid |-> P.pid, a |-> c.a, b |-> c.b, out |-> m.out, fl |-> m.fl, steps |-> m.steps]))
=============================================================================
