INIT InitRun
NEXT NextRun
CONSTANTS
  NV = 3
  MaxStmts = 0
  MaxDepth = 0
  MaxComp = 0
  Kinds = {}
  HSh <- HShFin
  AsVars = FALSE
  Pre <- PreNone
  MaxWord = 7
  Dump = TRUE
INVARIANT RunWellFormed
INVARIANT ValuesSound
INVARIANT WordBounded
INVARIANT OutcomeWellFormed
INVARIANT ErrorsFromUses
INVARIANT PublishRun
CHECK_DEADLOCK TRUE
