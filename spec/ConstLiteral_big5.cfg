SPECIFICATION Spec
CONSTANTS
  Alphabet <- BigAlphabet
  MaxLen = 3
  Blocks <- BigBlocks
  MaxBlocks = 5
  BlockAfter = 3
  Dump = TRUE
INVARIANT AutomatonConsistent
INVARIANT StrToNumberOK
INVARIANT CLiteralOK
INVARIANT UnderscoreNeutral
INVARIANT Publish
CHECK_DEADLOCK FALSE
