SPECIFICATION Spec
CONSTANTS
  Dump = TRUE
  W = 8
INVARIANT NeverWrong
INVARIANT AlwaysRaises
INVARIANT VariantsAgree
INVARIANT Publish
CHECK_DEADLOCK FALSE
