SPECIFICATION Spec
CONSTANTS
  MaxLen = 4
  Dump = TRUE
  BodySel <- AllBodies
INVARIANT Consistent
INVARIANT FinallyOnce
INVARIANT CleanupOnDel
INVARIANT NoUnsup
INVARIANT Publish
PROPERTY Causal
CHECK_DEADLOCK FALSE
