SPECIFICATION Spec
CONSTANTS
  S = 3
  Abis <- AbisSweep
  Cfgs <- CfgsAll
  Types <- TypesSweepAll
  Pub = FALSE
  MaxK = 2
  HiK = 7
  Steps = FALSE
INVARIANT IntExact
INVARIANT ToPyExact
INVARIANT NoBad
INVARIANT RootCause
INVARIANT Publish
