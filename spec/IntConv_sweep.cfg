SPECIFICATION Spec
CONSTANTS
  S = 3
  Abis <- AbisSweep
  Cfgs <- Cfgs3
  Types <- TypesSweepAll
  Pub = FALSE
  MaxK = 1
  HiK = 6
  Steps = FALSE
INVARIANT IntExact
INVARIANT ToPyExact
INVARIANT NoBad
INVARIANT RootCause
INVARIANT Publish
