INIT InitGen
NEXT NextGen
CONSTANTS
  NV = 2
  MaxStmts = 3
  MaxDepth = 1
  MaxComp = 1
  Kinds = {"asg", "read", "cread", "wal", "cex", "comp", "ret", "match", "with", "if", "dead"}
  HSh <- HShFin
  AsVars = TRUE
  Pre <- PreNone
  MaxWord = 6
  Dump = TRUE
INVARIANT GenWellFormed
INVARIANT GenBounded
INVARIANT PublishGen
CHECK_DEADLOCK FALSE
