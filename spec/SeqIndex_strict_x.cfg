SPECIFICATION Spec
CONSTANTS
  Part = "xslice"
  MaxLen = 1
  VMag = 1
  Mixed = FALSE
  Dump = FALSE
INVARIANT NoUB
INVARIANT ImplAgrees
CHECK_DEADLOCK FALSE
