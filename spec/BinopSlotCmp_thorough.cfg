SPECIFICATION Spec
CONSTANTS
  Pairs <- PairsThorough
  Profile = "thorough"
  Dump = TRUE
INVARIANT RefShape
INVARIANT ImplAgreesOffHazards
INVARIANT Publish
CHECK_DEADLOCK FALSE
