SPECIFICATION Spec
CONSTANTS
  Inits <- InitsT3
  ChainDepth = 3
  ChainFull = FALSE
  Dump = TRUE
INVARIANT RefSound
INVARIANT RefInBuffer
INVARIANT ImplAgrees
INVARIANT ObjAgrees
INVARIANT SameView
INVARIANT UnellipsifyOK
INVARIANT Publish
CHECK_DEADLOCK FALSE
