SPECIFICATION Spec
CONSTANTS
  Inits <- InitsT3
  ChainDepth = 3
  ChainFull = FALSE
  Dump = TRUE
INVARIANT RefSound
INVARIANT RefInBuffer
INVARIANT PredInBase
INVARIANT FixedImplAgrees
INVARIANT NoUnexplained
INVARIANT HazardNecessary
INVARIANT UnellipsifyOK
INVARIANT PathsAgree
INVARIANT Publish
CHECK_DEADLOCK FALSE
