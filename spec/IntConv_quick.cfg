SPECIFICATION Spec
CONSTANTS
  S = 2
  Abis <- AbisQuick4
  Cfgs <- Cfgs3
  Types <- TypesSweepQuick
  Pub = FALSE
  MaxK = 3
  HiK = 8
  Steps = FALSE
INVARIANT IntExact
INVARIANT ToPyExact
INVARIANT NoBad
INVARIANT RootCause
INVARIANT Publish
