--------------------------- MODULE MatchStmtImpl ---------------------------
(* C31: implementation-shaped transcription of Cython/Compiler/MatchCaseNodes.py *)
(* on top of the reference semantics of MatchStmt.                           *)
(* A case is compiled into  comp_node ; target_assignments ; guard ; body :  *)
(*   Test    the boolean comparison tree (get_comparison_node): an `and`     *)
(*           chain per composite pattern that also fills the subject temps   *)
(*           (sequence items / mapping values / class attributes of the sub- *)
(*           patterns that are not irrefutable), an `or` chain per or-pattern *)
(*           that records the successful alternative (which_alternative_temp);*)
(*   Assign  the target assignments (create_target_assignments), executed     *)
(*           after the whole test succeeded: as-targets from the subject,     *)
(*           captures from the temps or by indexing the subject again, the    *)
(*           alternative of an or-pattern selected by the recorded number.    *)
(* Dev switches on the places where the real code departs from the order of  *)
(* CPython (known findings 1, 4, 7): with Dev = {} ImplAgrees must hold (the  *)
(* two-phase strategy is equivalent to the reference); with a deviation TLC   *)
(* must produce a counterexample.                                            *)
EXTENDS MatchStmt

CONSTANT Dev    \* subset of {"as-value", "dupkey-first", "dupattr-first"}

UnsetV == V("unset", "", 0, "", <<>>)
RpU(v) == IF v.k = "unset" THEN "<unset>" ELSE Rp(v)
TFail(st) == [st EXCEPT !.ok = FALSE]
TRaise(st, e) == [st EXCEPT !.ok = FALSE, !.exc = e]
Put(st, key, v) == [st EXCEPT !.tmp = Append(@, [k |-> key, v |-> v])]
Get(tmp, key) == IF \E i \in 1..Len(tmp) : tmp[i].k = key
                 THEN tmp[CHOOSE i \in 1..Len(tmp) : tmp[i].k = key /\ \A j \in (i + 1)..Len(tmp) : tmp[j].k # key].v
                 ELSE UnsetV
SeqIdx(p, v, i) == IF StarAt(p) = 0 \/ i < StarAt(p) THEN i ELSE Len(v.els) - (Len(p.a) - i)
HasDupKey(ks) == \E i, j \in 1..Len(ks) : i < j /\ PyEq(KeyVal(ks[i]), KeyVal(ks[j]))
HasDupAttr(p) == \E i, j \in 1..Len(p.a) : i < j /\ NameAt(p, i) = NameAt(p, j)
RECURSIVE UnderAs(_)
UnderAs(p) == IF p.t = "as" THEN UnderAs(p.a[1]) ELSE p

RECURSIVE Test(_, _, _, _), TOr(_, _, _, _, _), TSeq(_, _, _, _, _), TSub(_, _, _, _, _), Fill(_, _, _, _, _)
\* check_all_keys / ClassPositional + keyword lookups: the extracted values go to the temps of the sub-patterns
Fill(p, v, tp, st, i) ==
  IF i > Len(p.a) THEN st
  ELSE LET x == IF p.t = "map" THEN v.els[2 * Lookup(v.els, KeyVal(p.ks[i]))]
                ELSE IF NameAt(p, i) = "<self>" THEN v ELSE AttrOf(v, NameAt(p, i))
       IN Fill(p, v, tp, Put(st, tp \o Dg(i), x), i + 1)
TSub(p, v, tp, st, i) ==
  IF i > Len(p.a) THEN st
  ELSE IF Irref(p.a[i]) THEN TSub(p, v, tp, st, i + 1)         \* no test is generated for an irrefutable sub-pattern
  ELSE LET r == Test(p.a[i], Get(st.tmp, tp \o Dg(i)), tp \o Dg(i), st) IN
       IF r.ok THEN TSub(p, v, tp, r, i + 1) ELSE r
TSeq(p, v, tp, st, i) ==
  IF i > Len(p.a) THEN st
  ELSE IF IsStar(p.a[i]) \/ Irref(p.a[i]) THEN TSeq(p, v, tp, st, i + 1)
  ELSE LET s1 == Put(st, tp \o Dg(i), v.els[SeqIdx(p, v, i)])
           r == Test(p.a[i], v.els[SeqIdx(p, v, i)], tp \o Dg(i), s1)
       IN IF r.ok THEN TSeq(p, v, tp, r, i + 1) ELSE r
TOr(p, v, tp, st, i) ==
  IF i > Len(p.a) THEN TFail(st)
  ELSE LET r == Test(p.a[i], v, tp \o "|" \o Dg(i), st) IN
       IF r.exc # "" THEN r
       ELSE IF r.ok THEN Put(r, tp \o "?", I(i))
       ELSE TOr(p, v, tp, [st EXCEPT !.log = r.log, !.tmp = r.tmp], i + 1)

Test(p, v, tp, st) ==
  CASE p.t \in {"wild", "cap"} -> st
    [] p.t = "lit" -> IF LitMatch(p.v, v) THEN st ELSE TFail(st)
    [] p.t = "val" -> IF p.v = "K.E" THEN LET s1 == [st EXCEPT !.log = Append(@, Ev("eq", 0, <<[n |-> "", v |-> Rp(v)]>>))]
                                          IN IF PyEq(v, I(1)) THEN s1 ELSE TFail(s1)
                      ELSE IF PyEq(v, ConstVal(p.v)) THEN st ELSE TFail(st)
    [] p.t = "as"  -> Test(p.a[1], v, tp \o "0", st)
    [] p.t = "or"  -> TOr(p, v, tp, st, 1)
    [] p.t = "seq" -> LET n == Len(p.a)  L == Len(v.els) IN
                      IF v.k # "seq" THEN TFail(st)
                      ELSE IF StarAt(p) = 0 /\ L # n THEN TFail(st)
                      ELSE IF StarAt(p) > 0 /\ L < n - 1 THEN TFail(st)
                      ELSE TSeq(p, v, tp, st, 1)
    [] p.t = "map" -> LET n == Len(p.ks) IN
                      IF "dupkey-first" \in Dev /\ HasDupKey(p.ks) THEN TRaise(st, "ValueError")   \* duplicate_check precedes the chain
                      ELSE IF v.k # "map" THEN TFail(st)
                      ELSE IF n = 0 THEN (IF p.v = "rest" THEN Put(st, tp \o "*", Di(v.els)) ELSE st)
                      ELSE IF Len(v.els) \div 2 < n THEN TFail(st)
                      ELSE LET x == KeysRes(p.ks, v.els, 1) IN
                           IF x = "fail" THEN TFail(st) ELSE IF x # "ok" THEN TRaise(st, x)
                           ELSE LET r == TSub(p, v, tp, Fill(p, v, tp, st, 1), 1) IN
                                IF r.ok /\ p.v = "rest" THEN Put(r, tp \o "*", Di(Without(v.els, p.ks))) ELSE r
    [] p.t = "cls" -> IF p.v = "NotT" THEN TRaise(st, "TypeError")
                      ELSE IF ~IsInst(v, p.v) THEN TFail(st)
                      ELSE IF NPos(p) > 0 /\ p.v = "BadMA" THEN TRaise(st, "TypeError")
                      ELSE IF NPos(p) > (IF p.v \in SelfCls THEN 1 ELSE Len(ClsMA(p.v))) THEN TRaise(st, "TypeError")
                      ELSE IF "dupattr-first" \in Dev /\ NPos(p) > 0 /\ HasDupAttr(p) THEN TRaise(st, "TypeError")  \* ClassCheckDuplicateAttrs first
                      ELSE LET x == AttrsRes(p, v, 1) IN
                           IF x = "fail" THEN TFail(st) ELSE IF x # "ok" THEN TRaise(st, x)
                           ELSE TSub(p, v, tp, Fill(p, v, tp, st, 1), 1)

\* the target assignments: names np, temps tp
B1(name, txt) == <<[n |-> name, v |-> txt]>>
ConstText(q) == IF q.t = "lit" THEN Rp(LitVal(q.v)) ELSE IF q.v = "K.E" THEN "<?_LogEq>" ELSE Rp(ConstVal(q.v))
RECURSIVE Assign(_, _, _, _, _), ASub(_, _, _, _, _, _)
ASub(p, v, np, tp, tmp, i) ==
  IF i > Len(p.a) THEN <<>>
  ELSE LET c == p.a[i]
           one == IF c.t = "starw" THEN <<>>
                  ELSE IF c.t = "star" THEN B1("s" \o np \o Dg(i), Rp(Li(SubSeq(v.els, i, Len(v.els) - (Len(p.a) - i)))))
                  ELSE LET x == IF p.t = "seq" /\ Irref(c) THEN v.els[SeqIdx(p, v, i)] ELSE Get(tmp, tp \o Dg(i)) IN
                       IF x.k = "unset" THEN (IF Names(c, "") = <<>> THEN <<>> ELSE B1("?", "<unset>"))
                       ELSE Assign(c, x, np \o Dg(i), tp \o Dg(i), tmp)
       IN one \o ASub(p, v, np, tp, tmp, i + 1)
Assign(p, v, np, tp, tmp) ==
  CASE p.t = "cap" -> B1("v" \o np, Rp(v))
    [] p.t = "as"  -> LET q == UnderAs(p) IN
                      B1("w" \o np, IF "as-value" \in Dev /\ q.t \in {"lit", "val"} /\ q.v \notin {"None", "True", "False"}
                                    THEN ConstText(q) ELSE Rp(v))
                      \o Assign(p.a[1], v, np \o "0", tp \o "0", tmp)
    [] p.t = "or"  -> LET w == Get(tmp, tp \o "?") IN
                      IF w.k = "unset" THEN (IF Names(p, "") = <<>> THEN <<>> ELSE B1("?", "<unset>"))
                      ELSE Assign(p.a[w.n], v, np, tp \o "|" \o Dg(w.n), tmp)
    [] p.t \in {"seq", "cls"} -> ASub(p, v, np, tp, tmp, 1)
    [] p.t = "map" -> ASub(p, v, np, tp, tmp, 1) \o (IF p.v = "rest" THEN B1("r" \o np, RpU(Get(tmp, tp \o "*"))) ELSE <<>>)
    [] OTHER -> <<>>

ImplAgrees == (phase = "try" /\ ci <= Len(stmt.cases)) =>
                 LET r == M(Cur.p, Subj, "", [ok |-> TRUE, env |-> <<>>, log |-> log, exc |-> ""])
                     t == Test(Cur.p, Subj, "", [ok |-> TRUE, exc |-> "", log |-> log, tmp |-> <<>>])
                 IN /\ t.ok = r.ok /\ t.exc = r.exc /\ t.log = r.log
                    /\ r.ok => SetOf(Assign(Cur.p, Subj, "", "", t.tmp)) = SetOf(r.env)
=============================================================================
