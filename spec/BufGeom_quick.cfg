SPECIFICATION Spec
CONSTANTS
  Shapes <- ShapesQ
  Depth = 2
  Dump = TRUE
INVARIANT ImplAgrees
INVARIANT InRange
INVARIANT Publish
CHECK_DEADLOCK FALSE
