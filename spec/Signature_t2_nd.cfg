SPECIFICATION Spec
CONSTANTS
  Modes = {"expr", "lit", "sig"}
  Names <- LvNames1
  Nums <- LvNums1
  Atoms <- NoneSet
  Opqs <- LvOpq1
  LitTok = 3
  UnOps <- AllUn
  BinOps <- AllBin
  BoolOps <- AllBool
  CmpOps <- AllCmp
  ChainOps <- RepChain
  Ctors <- AllCtors
  MaxOps = 2
  MaxTok = 7
  MaxParams = 4
  MaxNest = 3
  Dump = FALSE
INVARIANT TypeOK
INVARIANT ExprOK
INVARIANT SigOK
CHECK_DEADLOCK FALSE
