SPECIFICATION Spec
CONSTANTS
  NConst = 4
  OrderMode = "ad"
  SelfLoops = FALSE
  MaxQ = 0
  Dump = FALSE
INVARIANT MemoComplete
INVARIANT ResultCorrect
INVARIANT PartialSound
INVARIANT LoopOnStack
INVARIANT StackIsPath
INVARIANT DumpLeaves
CHECK_DEADLOCK FALSE
