INIT InitGen
NEXT NextGen
CONSTANTS
  NV = 1
  MaxStmts = 4
  MaxDepth = 1
  MaxComp = 1
  Kinds = {"asg", "del", "read", "mr", "try"}
  HSh <- HShSmall
  AsVars = TRUE
  Pre <- PreNone
  MaxWord = 6
  Dump = TRUE
INVARIANT GenWellFormed
INVARIANT GenBounded
INVARIANT PublishGen
CHECK_DEADLOCK FALSE
