SPECIFICATION Spec
CONSTANTS
  MaxDepth = 2
  MaxNodes = 2
  MaxInj = 2
  HSets <- HSetsOne
  CMs = {"no"}
  Kinds = {"try", "tf", "seq"}
  Leaves = {"raise", "reraise", "ret"}
  RaiseCls = {"A"}
  Outers = {FALSE, TRUE}
  Dump = TRUE
INVARIANT HandledRestored
INVARIANT FinallyOnce
INVARIANT OutcomeWellFormed
INVARIANT ChainsWellFormed
INVARIANT NoSpuriousRuntimeError
INVARIANT CallerTransparent
INVARIANT Publish
CHECK_DEADLOCK FALSE
