SPECIFICATION Spec
CONSTANTS
  MaxDepth = 2
  MaxNodes = 2
  MaxInj = 2
  HSets <- HSetsSmall
  CMs = {"no", "sup"}
  Kinds = {"try", "tf", "with", "loop", "seq"}
  Leaves = {"raise", "reraise", "ret", "brk", "cnt", "quiet"}
  RaiseCls = {"A"}
  Outers = {FALSE, TRUE}
  Dump = TRUE
INVARIANT HandledRestored
INVARIANT FinallyOnce
INVARIANT OutcomeWellFormed
INVARIANT ChainsWellFormed
INVARIANT NoSpuriousRuntimeError
INVARIANT CallerTransparent
INVARIANT Publish
CHECK_DEADLOCK FALSE
