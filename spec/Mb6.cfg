INIT I2
NEXT N2
CONSTANTS
  MaxLeaves = 1
  MaxLeaves2 = 1
  Mod = 1
  Rem = 0
  Typings = {"O"}
  Tops = {"ret1"}
  Dump = FALSE
CHECK_DEADLOCK FALSE
