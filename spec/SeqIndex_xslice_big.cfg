SPECIFICATION Spec
CONSTANTS
  Part = "xslice"
  MaxLen = 6
  VMag = 4
  Mixed = FALSE
  Dump = TRUE
INVARIANT NoUB
INVARIANT ImplAgreesOffHazards
INVARIANT HazardsConfined
INVARIANT CropClamped
INVARIANT MacrosSound
INVARIANT RefSound
INVARIANT RefShape
INVARIANT Publish
CHECK_DEADLOCK FALSE
