SPECIFICATION SimSpec
CONSTANTS
  MaxPO = 6
  MaxPK = 6
  MaxKO = 6
  FixPO = 9
  MaxPos = 14
  Extra = 2
  MaxKw = 16
  NSim = 120
  KindMode = "pat"
  Dump = TRUE
INVARIANT RefIsDeclarative
INVARIANT ImplAgrees
INVARIANT Publish
CHECK_DEADLOCK FALSE
