-------------------------------- MODULE Pow --------------------------------
(* C07: the power operator a ** b in compiled code.                         *)
(*  Part "table" : the documented result-type table (docs/src/userguide/    *)
(*                 cpow_table.csv) transcribed row by row; one state per    *)
(*                 (cpow, operand a, operand b); the state carries the      *)
(*                 result class the table demands.                          *)
(*  Part "intpow": __Pyx_pow_T of Utility/CMath.c (IntPow) transcribed as a *)
(*                 step machine (switch on 0..3, negative exponent, square- *)
(*                 and-multiply loop with two's complement wrap) against    *)
(*                 the reference b^e "when it fits the type".               *)
(*  Part "pow2"  : __Pyx__PyNumber_PowerOf2 of Utility/Optimize.c (2 ** n   *)
(*                 as a shift, three width classes) against Python's 2**n.  *)
(*  Part "real"  : Python's float ** float (Objects/floatobject.c:float_pow)*)
(*                 on XReal = {nan, +-inf, +-0, +-m*2^e}: value, exception  *)
(*                 or "complex"; and what a C double result may show of it. *)
(* Cases are states; the expected observations are published for replay on  *)
(* compiled code (binding B1) and for the typeof() facts (B3).              *)
EXTENDS Integers, Sequences, TLC, Json, FiniteSets

CONSTANTS Part,      \* "small" (table + pow2 + real: one state per case) | "intpow" (step machine) | "all"
          IntTypes,  \* intpow: set of [w, s, grid] records (scaled images of the C integer types; grid: boundary bases only)
          MaxE,      \* intpow: largest exponent
          MaxN       \* pow2: largest exponent at the real widths

cU == 100001        \* no demand by the property
Abs(x) == IF x < 0 THEN -x ELSE x
Pow2(n) == 2 ^ n

(***************************************************************************)
(* Part "table"                                                            *)
(***************************************************************************)
IntT    == {"schar", "uchar", "short", "ushort", "int", "uint", "long", "ulong", "llong", "ullong", "ssize", "size"}
SignedT == {"schar", "short", "int", "long", "llong", "ssize"}
FltT    == {"float", "double", "ldouble"}
CpxT    == {"fcomplex", "dcomplex"}
ObjT    == {"object"}
IntConsts == {-2, -1, 0, 1, 2, 3, 5, 63, 64}
\* float literals: [text, negative, integer-valued]
FltConsts == {"2.0", "0.5", "-1.0", "-0.5", "-2.0", "3.0"}

\* operands are uniform records [k, t, n, f]
VarOp(t)  == [k |-> "var",  t |-> t,      n |-> 0, f |-> "-"]
CIntOp(n) == [k |-> "cint", t |-> "long", n |-> n, f |-> "-"]
CFltOp(f) == [k |-> "cflt", t |-> "double", n |-> 0, f |-> f]
Operands == {VarOp(t) : t \in IntT \cup FltT \cup CpxT \cup ObjT} \cup {CIntOp(n) : n \in IntConsts} \cup {CFltOp(f) : f \in FltConsts}

IsObj(o)  == o.k = "var" /\ o.t \in ObjT
IsCpx(o)  == o.k = "var" /\ o.t \in CpxT
IsCInt(o) == (o.k = "var" /\ o.t \in IntT) \/ o.k = "cint"
IsCFlt(o) == (o.k = "var" /\ o.t \in FltT) \/ o.k = "cflt"
NegIntConst(o) == o.k = "cint" /\ o.n < 0
KnownNonNeg(o) == (o.k = "cint" /\ o.n >= 0) \/ (o.k = "var" /\ o.t \in IntT \ SignedT)
MayBeNeg(o)    == o.k = "var" /\ o.t \in SignedT

\* the five rows of cpow_table.csv, in file order
Rows == 1..5
RowMatches(r, a, b) ==
  CASE r = 1 -> IsCInt(a) /\ NegIntConst(b)                 \* C integer, negative integer compile-time constant
    [] r = 2 -> IsCInt(a) /\ IsCInt(b) /\ KnownNonNeg(b)    \* C integer, C integer (known to be >= 0 at compile time)
    [] r = 3 -> IsCInt(a) /\ MayBeNeg(b)                    \* C integer, C integer (may be negative)
    [] r = 4 -> IsCFlt(a) /\ IsCInt(b)                      \* C floating point, C integer
    [] r = 5 -> (IsCFlt(a) \/ IsCInt(a)) /\ IsCFlt(b)       \* C floating point (or C integer), C floating point
RowCell(r, cpow) ==
  CASE r = 1 -> "double"
    [] r = 2 -> "integer"
    [] r = 3 -> IF cpow THEN "integer" ELSE "double"
    [] r = 4 -> "floating"
    [] r = 5 -> IF cpow THEN "floating" ELSE "realorcomplex"
MatchingRows(a, b) == {r \in Rows : RowMatches(r, a, b)}
InTable(a, b) == ~IsObj(a) /\ ~IsObj(b) /\ ~IsCpx(a) /\ ~IsCpx(b)

\* result class; outside the table: Python objects give Python semantics, C complex operands a complex
ResultClass(cpow, a, b) ==
  IF IsObj(a) \/ IsObj(b) THEN "object"
  ELSE IF IsCpx(a) \/ IsCpx(b) THEN "complex"
  ELSE RowCell(CHOOSE r \in Rows : RowMatches(r, a, b), cpow)
\* the classes whose Python-level value must equal CPython's (the "Python one")
PythonLike(c) == c \in {"object", "realorcomplex"}

\* [w bits, signed, grid, m = 2^w, h = 2^(w-1)]
TInt8  == {[w |-> 8, s |-> TRUE, grid |-> FALSE, m |-> 256, h |-> 128],         \* scaled images of int/long/... and their unsigned forms
           [w |-> 8, s |-> FALSE, grid |-> FALSE, m |-> 256, h |-> 128]}
TInt16 == {[w |-> 16, s |-> TRUE, grid |-> TRUE, m |-> 65536, h |-> 32768]}
TIntAll == TInt8 \cup TInt16
TableCases == {c \in [cpow : BOOLEAN, a : Operands, b : Operands] : c.a.k = "var" \/ c.b.k = "var"}  \* two literals are folded at compile time

(***************************************************************************)
(* Part "intpow"                                                           *)
(***************************************************************************)
TMin(ty) == IF ty.s THEN -ty.h ELSE 0
TMax(ty) == IF ty.s THEN ty.h - 1 ELSE ty.m - 1
Fits(ty, v) == IF ty.s THEN v >= -ty.h /\ v < ty.h ELSE v >= 0 /\ v < ty.m
Wrap(ty, v) == LET r == v % ty.m           \* TLA+ % is non-negative for a positive modulus
               IN IF ty.s /\ r >= ty.h THEN r - ty.m ELSE r
Ovf(ty, v) == ty.s /\ ~Fits(ty, v)      \* signed overflow (undefined in C; gcc wraps)

Big == 1000000   \* "magnitude above every modelled type range"
\* b^e as the e-fold product (Big once the magnitude leaves every modelled range; |b| >= 2 and e > 17 certainly does)
RECURSIVE RefPowLin(_, _)
RefPowLin(b, e) == IF e = 0 THEN 1
                   ELSE LET r == RefPowLin(b, e - 1)
                        IN IF r = Big THEN Big
                           ELSE IF Abs(b) >= 2 /\ Abs(r) > (70000 \div Abs(b)) THEN Big ELSE r * b
RefPow(b, e) == IF Abs(b) >= 2 THEN (IF e > 17 THEN Big ELSE RefPowLin(b, e))
                ELSE IF e = 0 THEN 1 ELSE IF b = 0 THEN 0 ELSE IF b = 1 THEN 1 ELSE (IF e % 2 = 0 THEN 1 ELSE -1)
\* b^e mod 2^w as the e-fold product, in blocks of 16 factors (TLC's recursion depth is limited)
RECURSIVE ModPowLin(_, _, _)
ModPowLin(ty, b, e) == IF e = 0 THEN Wrap(ty, 1) ELSE Wrap(ty, ModPowLin(ty, b, e - 1) * b)
RECURSIVE ModPow(_, _, _)
ModPow(ty, b, e) == IF e <= 16 THEN ModPowLin(ty, b, e) ELSE Wrap(ty, ModPow(ty, b, e - 16) * ModPowLin(ty, b, 16))
RECURSIVE ModPowH(_, _, _)
ModPowH(ty, b, e) == IF e = 0 THEN Wrap(ty, 1)                                             \* by halving (cheap; for the loop invariant)
                     ELSE LET h == ModPowH(ty, b, e \div 2) sq == Wrap(ty, h * h)
                          IN IF e % 2 = 1 THEN Wrap(ty, sq * b) ELSE sq

\* what the property demands: exact for e >= 0 when the result fits the type
IntDemand(ty, b, e) == IF e < 0 THEN cU
                       ELSE LET r == RefPow(b, e) IN IF r # Big /\ Fits(ty, r) THEN r ELSE cU

BGrid(ty) == {v \in {TMin(ty), TMin(ty) + 1, -182, -181, -32, -11, -7, -3, -2, -1, 0, 1, 2, 3, 7, 11, 31, 32, 180, 181, 182, 255, 256,
                     TMax(ty) - 1, TMax(ty)} : Fits(ty, v)}
Bases(ty) == IF ty.grid THEN BGrid(ty) ELSE TMin(ty)..TMax(ty)
Exps(ty)  == {e \in (IF ty.s THEN -3..MaxE ELSE 0..MaxE) \cup {63, 64, 127, 255} : Fits(ty, e)}

(***************************************************************************)
(* Part "pow2"                                                             *)
(***************************************************************************)
\* (bits of long, bits of unsigned long long): two scaled instances (values computed) and the real one
Widths == {<<8, 16>>, <<16, 16>>, <<64, 64>>}
Pow2Path(n, LB, LLB) == IF n = 0 THEN "one"
               ELSE IF n < 0 THEN "generic"                 \* goto fallback: PyNumber_Power
               ELSE IF n <= LB - 2 THEN "long"              \* 1L << n
               ELSE IF n <= LLB - 1 THEN "ull"              \* (unsigned long long)1 << n
               ELSE "lshift"                                \* PyNumber_Lshift(1, n)
\* the C value each path hands to PyLong_From...; only evaluated for n <= 30
Pow2Val(n, LB, LLB) == LET p == Pow2Path(n, LB, LLB) IN
              CASE p = "one" -> 1
                [] p = "long" -> Wrap([s |-> TRUE, m |-> Pow2(LB), h |-> Pow2(LB - 1)], Pow2(n))
                [] p = "ull" -> Wrap([s |-> FALSE, m |-> Pow2(LLB), h |-> Pow2(LLB - 1)], Pow2(n))
                [] OTHER -> Pow2(n)

(***************************************************************************)
(* Part "real": XReal values [k, s, m, e] = s * m * 2^e (m odd, positive)  *)
(***************************************************************************)
XR(k, s, m, e, x) == [k |-> k, s |-> s, m |-> m, e |-> e, x |-> x]
NaN      == XR("nan", 1, 0, 0, "")
Inf(s)   == XR("inf", s, 0, 0, "")
Zero(s)  == XR("zero", s, 0, 0, "")
Fin(s, m, e) == XR("fin", s, m, e, "")
One      == Fin(1, 1, 0)
Err(x)   == XR("err", 1, 0, 0, x)
Complex  == XR("complex", 1, 0, 0, "")     \* Python answers with a complex number (value not decided here)
Und      == XR("und", 1, 0, 0, "")         \* finite operands, result not decided by the spec (inexact)
NoDemand == XR("nodemand", 1, 0, 0, "")

Mags == {<<1, 0>>, <<1, 1>>, <<1, -1>>, <<3, 0>>, <<1, 2>>, <<1, 3>>, <<5, 1>>, <<3, -1>>, <<1, -2>>, <<5, 0>>, <<63, 0>>, <<1, 6>>,
         <<125, 3>>, <<1, 1000>>, <<1, -1000>>}
XGrid == {NaN} \cup {Inf(s) : s \in {1, -1}} \cup {Zero(s) : s \in {1, -1}} \cup {Fin(s, q[1], q[2]) : s \in {1, -1}, q \in Mags}

IsInt(x)    == x.k = "fin" /\ x.e >= 0
IsOddInt(x) == x.k = "fin" /\ x.e = 0
AbsIsOne(x) == x.k = "fin" /\ x.m = 1 /\ x.e = 0
\* |x| > 1 for finite non-zero x = m * 2^e with m odd: the top bit is at BitLen(m) - 1 + e
RECURSIVE BitLen(_)
BitLen(m) == IF m = 0 THEN 0 ELSE 1 + BitLen(m \div 2)
AbsGT1(x) == x.k = "inf" \/ (x.k = "fin" /\ ~AbsIsOne(x) /\ BitLen(x.m) - 1 + x.e >= 0)

\* m^n with a cap (TLC integers are 32-bit): 0 means "too large to decide here"
RECURSIVE CapPow(_, _)
CapPow(m, n) == IF n = 0 THEN 1 ELSE IF m = 1 THEN 1 ELSE IF n > 30 THEN 0
                ELSE LET r == CapPow(m, n - 1) IN IF r = 0 \/ r > (1073741823 \div m) THEN 0 ELSE r * m

\* a finite, |a| # 1, magnitude [m, e]; b finite non-zero: the magnitude of |a| ** b
FinPow(m, e, b) ==
  IF ~IsInt(b) THEN Und
  ELSE IF b.e >= 13 \/ b.m * Pow2(b.e) > 4096 THEN
       \* a very large integer exponent: every grid magnitude # 1 is >= 3/2 or <= 1/2, so the result is far out of range
       IF (BitLen(m) - 1 + e >= 0) = (b.s = 1) THEN Err("OverflowError") ELSE Zero(1)
  ELSE LET n  == b.m * Pow2(b.e)
           pm == CapPow(m, n)
           re == IF b.s = 1 THEN e * n ELSE -(e * n)
           top == BitLen(pm) + re          \* value in [2^(top-1), 2^top)
       IN IF pm = 0 THEN Und
          ELSE IF b.s = -1 /\ pm # 1 THEN Und          \* 1 / m^n is not dyadic
          ELSE IF top > 1024 THEN Err("OverflowError")
          ELSE IF top - 1 >= -1022 THEN Fin(1, pm, re)
          ELSE IF pm # 1 THEN Und                       \* subnormal range, possibly rounded
          ELSE IF re >= -1074 THEN Fin(1, 1, re) ELSE Zero(1)   \* underflow is not an error in Python

Neg(x) == IF x.k \in {"fin", "zero", "inf"} THEN [x EXCEPT !.s = -x.s] ELSE x

\* Objects/floatobject.c:float_pow, in its order of tests
PyFloatPow(a, b) ==
  IF b.k = "zero" THEN One
  ELSE IF a.k = "nan" THEN NaN
  ELSE IF b.k = "nan" THEN (IF a = One THEN One ELSE NaN)
  ELSE IF b.k = "inf" THEN
       IF AbsIsOne(a) THEN One
       ELSE IF (b.s = 1) = AbsGT1(a) THEN Inf(1) ELSE Zero(1)
  ELSE IF a.k = "inf" THEN
       IF b.s = 1 THEN (IF IsOddInt(b) THEN a ELSE Inf(1))
       ELSE (IF IsOddInt(b) THEN Zero(a.s) ELSE Zero(1))
  ELSE IF a.k = "zero" THEN
       IF b.s = -1 THEN Err("ZeroDivisionError")
       ELSE (IF IsOddInt(b) THEN a ELSE Zero(1))
  ELSE IF a.s = -1 /\ ~IsInt(b) THEN (IF Abs(a.e) >= 500 THEN Und ELSE Complex)   \* complex pow; may raise OverflowError for extreme magnitudes
  ELSE LET negate == a.s = -1 /\ IsOddInt(b)
           r == IF AbsIsOne(a) THEN One ELSE FinPow(a.m, a.e, b)
       IN IF negate THEN Neg(r) ELSE r

\* what a C floating result (pow() of <math.h>) must show where the property has a demand:
\* Python's float where Python has one, NaN "if the result would be complex" (row 5 of the table),
\* no demand where Python raises (C has no exception here: inf / HUGE_VAL by C99)
CFloatDemand(a, b) == LET r == PyFloatPow(a, b) IN
                      IF r.k = "err" THEN NoDemand
                      ELSE IF r.k = "complex" THEN NaN ELSE r

(***************************************************************************)
(* state machine                                                           *)
(***************************************************************************)
VARIABLES cs,   \* the case (constant along a behaviour) with the expected observation
          pc, t, b, e, ubLive, ubDead   \* IntPow machine
vars == <<cs, pc, t, b, e, ubLive, ubDead>>

Idle == pc = "done" /\ t = 0 /\ b = 0 /\ e = 0 /\ ubLive = FALSE /\ ubDead = FALSE

InitTable == /\ \E c \in TableCases : cs = [part |-> "table", cpow |-> c.cpow, a |-> c.a, b |-> c.b,
                                             cls |-> ResultClass(c.cpow, c.a, c.b),
                                             rows |-> IF InTable(c.a, c.b) THEN MatchingRows(c.a, c.b) ELSE {}]
             /\ Idle
InitIntPow == /\ \E ty \in IntTypes : \E bb \in Bases(ty) : \E ee \in Exps(ty) :
                    cs = [part |-> "intpow", ty |-> ty, B |-> bb, E |-> ee, want |-> IntDemand(ty, bb, ee),
                          goal |-> IF ee >= 0 THEN ModPowH(ty, bb, ee) ELSE 0]
              /\ pc = "switch" /\ t = cs.B /\ b = cs.B /\ e = cs.E /\ ubLive = FALSE /\ ubDead = FALSE
InitPow2 == /\ \E wd \in Widths : \E n \in -4..(IF wd[1] <= 31 THEN 30 ELSE MaxN) :
                  cs = [part |-> "pow2", n |-> n, lb |-> wd[1], llb |-> wd[2], path |-> Pow2Path(n, wd[1], wd[2])]
            /\ Idle
InitReal == /\ \E x \in XGrid : \E y \in XGrid : cs = [part |-> "real", a |-> x, b |-> y, py |-> PyFloatPow(x, y), c |-> CFloatDemand(x, y)]
            /\ Idle
Init == IF Part = "intpow" THEN InitIntPow
        ELSE IF Part = "small" THEN (InitTable \/ InitPow2 \/ InitReal)
        ELSE (InitTable \/ InitPow2 \/ InitReal \/ InitIntPow)

\* switch (e) { case 3: t *= b; case 2: t *= b; case 1: return t; case 0: return 1; }  if (signed && e < 0) return 0;  t = 1;
Switch == /\ pc = "switch"
          /\ LET ty == cs.ty B == cs.B E == cs.E IN
             CASE E = 0 -> /\ t' = 1 /\ pc' = "done" /\ UNCHANGED <<b, e, ubLive, ubDead>>
               [] E = 1 -> /\ t' = B /\ pc' = "done" /\ UNCHANGED <<b, e, ubLive, ubDead>>
               [] E = 2 -> /\ t' = Wrap(ty, B * B) /\ ubLive' = Ovf(ty, B * B) /\ pc' = "done" /\ UNCHANGED <<b, e, ubDead>>
               [] E = 3 -> LET t1 == Wrap(ty, B * B) IN
                           /\ t' = Wrap(ty, t1 * B) /\ ubLive' = (Ovf(ty, B * B) \/ Ovf(ty, t1 * B)) /\ pc' = "done" /\ UNCHANGED <<b, e, ubDead>>
               [] E < 0 -> /\ ty.s /\ t' = 0 /\ pc' = "done" /\ UNCHANGED <<b, e, ubLive, ubDead>>
               [] OTHER -> /\ t' = 1 /\ pc' = "loop" /\ UNCHANGED <<b, e, ubLive, ubDead>>
          /\ UNCHANGED cs
\* while (e) { t *= (b * (e&1)) | ((~e)&1);  b *= b;  e >>= 1; }
LoopStep == /\ pc = "loop" /\ e # 0
            /\ LET ty == cs.ty
                   f == IF e % 2 = 1 THEN b ELSE 1
                   e2 == e \div 2
               IN /\ t' = Wrap(ty, t * f)
                  /\ b' = Wrap(ty, b * b)
                  /\ e' = e2
                  /\ ubLive' = (ubLive \/ Ovf(ty, t * f) \/ (e2 # 0 /\ Ovf(ty, b * b)))
                  /\ ubDead' = (ubDead \/ (e2 = 0 /\ Ovf(ty, b * b)))     \* the last squaring is never used
                  /\ pc' = IF e2 = 0 THEN "done" ELSE "loop"
            /\ UNCHANGED cs
Finished == pc = "done" /\ UNCHANGED vars
Next == Switch \/ LoopStep \/ Finished
Spec == Init /\ [][Next]_vars

(***************************************************************************)
(* invariants                                                              *)
(***************************************************************************)
Classes == {"integer", "double", "floating", "realorcomplex", "complex", "object"}
\* the table is total and deterministic on C int / C float operands, and the class is the matching row's cell
TableSound == cs.part = "table" =>
                 /\ cs.cls \in Classes
                 /\ InTable(cs.a, cs.b) => (Cardinality(cs.rows) = 1 /\ \A r \in cs.rows : cs.cls = RowCell(r, cs.cpow))
                 /\ (IsObj(cs.a) \/ IsObj(cs.b)) <=> cs.cls = "object"
                 \* cpow only matters in rows 3 and 5
                 /\ (ResultClass(TRUE, cs.a, cs.b) # ResultClass(FALSE, cs.a, cs.b)) => (cs.rows \subseteq {3, 5} /\ cs.rows # {})

IntPowMachineOK == cs.part = "intpow" => /\ pc \in {"switch", "loop", "done"}
                                         /\ Fits(cs.ty, t) /\ Fits(cs.ty, b)
                                         /\ (pc = "loop" => e >= 0 /\ e <= cs.E)
\* exact whenever the property has a demand, without relying on signed wrap-around for it
IntPowExact == (cs.part = "intpow" /\ pc = "done" /\ cs.want # cU) => (t = cs.want /\ ~ubLive)
\* under gcc's wrapping arithmetic the helper is modular exponentiation for every e >= 0
IntPowModular == /\ (cs.part = "intpow" /\ pc = "done" /\ cs.E >= 0) => t = cs.goal
                 /\ (cs.part = "intpow" /\ pc = "switch" /\ cs.E >= 0) => cs.goal = ModPow(cs.ty, cs.B, cs.E)
\* loop invariant: t * b^e = B^E (mod 2^w)
IntPowLoopInv == (cs.part = "intpow" /\ pc = "loop") =>
                     Wrap(cs.ty, t * ModPowH(cs.ty, b, e)) = cs.goal

Pow2Sound == cs.part = "pow2" =>
               /\ (cs.n >= 0 /\ cs.n <= 30 /\ cs.lb <= 31 /\ cs.llb <= 31) => Pow2Val(cs.n, cs.lb, cs.llb) = Pow2(cs.n)
               /\ cs.path = "long" => cs.n + 1 < cs.lb          \* 2^n <= LONG_MAX
               /\ cs.path = "ull" => cs.n < cs.llb              \* 2^n <= ULLONG_MAX
               /\ cs.path = "generic" <=> cs.n < 0

XKinds == {"nan", "inf", "zero", "fin", "err", "complex", "und"}
RealSound == cs.part = "real" =>
               LET x == cs.a y == cs.b r == cs.py IN
               /\ r.k \in XKinds
               /\ r.k = "fin" => (r.m % 2 = 1 /\ r.m > 0)
               \* x ** 1 = x, x ** 0 = 1
               /\ (y = One /\ x.k # "nan") => r = x
               /\ y.k = "zero" => r = One
               \* sign rule for integer exponents: (-x) ** n = (-1)^n * x ** n
               /\ (x.k \in {"fin", "inf", "zero"} /\ IsInt(y)) =>
                     LET rn == PyFloatPow(Neg(x), y) IN
                     IF r.k \in {"fin", "inf", "zero"} THEN rn = (IF IsOddInt(y) THEN Neg(r) ELSE r) ELSE rn.k = r.k
               \* complex only for a negative base with a non-integer finite exponent
               /\ r.k = "complex" <=> (x.k = "fin" /\ x.s = -1 /\ y.k = "fin" /\ y.e < 0 /\ Abs(x.e) < 500)
               /\ (r.k = "err" /\ r.x = "ZeroDivisionError") <=> (x.k = "zero" /\ y.k = "fin" /\ y.s = -1)
               \* a C double never shows an exception; NaN where Python answers complex
               /\ cs.c.k \in {"nan", "inf", "zero", "fin", "und", "nodemand"}

\* publication for the binding
OpJ(o) == [k |-> o.k, t |-> o.t, n |-> o.n, f |-> o.f]
Publish ==
  /\ (cs.part = "table") => PrintT("@@" \o ToJson([part |-> "table", cpow |-> cs.cpow, a |-> OpJ(cs.a), b |-> OpJ(cs.b), cls |-> cs.cls,
                                                   row |-> IF cs.rows = {} THEN 0 ELSE CHOOSE r \in cs.rows : TRUE]))
  /\ (cs.part = "intpow" /\ pc = "done" /\ cs.want # cU) =>
         PrintT("@@" \o ToJson([part |-> "intpow", w |-> cs.ty.w, s |-> cs.ty.s, b |-> cs.B, e |-> cs.E, v |-> cs.want, dead |-> ubDead]))
  /\ (cs.part = "pow2") => PrintT("@@" \o ToJson([part |-> "pow2", n |-> cs.n, lb |-> cs.lb, path |-> cs.path]))
  /\ (cs.part = "real") => PrintT("@@" \o ToJson([part |-> "real", a |-> cs.a, b |-> cs.b, py |-> cs.py, c |-> cs.c]))
=============================================================================
