---------------------------- MODULE ExcSpecCpp ----------------------------
(* C32, C++ part: functions declared `except +`, `except +*`,               *)
(* `except +PyExc`, `except +handler`.                                      *)
(*  Reference  : the translation table of docs/src/userguide/               *)
(*               wrapping_CPlusPlus.rst ("Exceptions"): a thrown object is  *)
(*               translated by the entry of its nearest listed base class,  *)
(*               everything else is RuntimeError; `+PyExc` always raises    *)
(*               PyExc; a custom handler decides, RuntimeError if it sets   *)
(*               nothing; `+*` additionally propagates a Python error set   *)
(*               by a function that returned normally.                      *)
(*  Impl-shaped: the catch chain of __Pyx_CppExn2PyErr (Utility/            *)
(*               CppSupport.cpp) walked handler by handler in source order  *)
(*               (C++ picks the FIRST handler whose type is a base), and    *)
(*               translate_cpp_exception of ExprNodes.py with the GIL       *)
(*               bracket for nogil callers.                                 *)
EXTENDS Integers, Sequences, TLC, Json, FiniteSets

CONSTANTS Dump

\* "root" = not derived from std::exception
Parent == [exception |-> "root", bad_alloc |-> "exception", bad_array_new_length |-> "bad_alloc",
           bad_cast |-> "exception", bad_typeid |-> "exception", bad_exception |-> "exception",
           logic_error |-> "exception", domain_error |-> "logic_error", invalid_argument |-> "logic_error",
           length_error |-> "logic_error", out_of_range |-> "logic_error",
           runtime_error |-> "exception", overflow_error |-> "runtime_error", range_error |-> "runtime_error",
           underflow_error |-> "runtime_error", system_error |-> "runtime_error", ios_failure |-> "system_error",
           user_oor |-> "out_of_range", user_exc |-> "exception", user_plain |-> "root", int |-> "root"]
Classes == DOMAIN Parent

RECURSIVE IsA(_, _)
IsA(x, cls) == x = cls \/ (x # "root" /\ x \in Classes /\ IsA(Parent[x], cls))
RECURSIVE Depth(_)
Depth(x) == IF x = "root" THEN 0 ELSE 1 + Depth(Parent[x])

\* the documented table (IOError is OSError in Python 3)
Table == [bad_alloc |-> "MemoryError", bad_cast |-> "TypeError", bad_typeid |-> "TypeError",
          domain_error |-> "ValueError", invalid_argument |-> "ValueError", ios_failure |-> "OSError",
          out_of_range |-> "IndexError", overflow_error |-> "OverflowError", range_error |-> "ArithmeticError",
          underflow_error |-> "ArithmeticError"]
Listed == DOMAIN Table
DocMap(x) == LET bases == {b \in Listed : IsA(x, b)} IN
             IF bases = {} THEN "RuntimeError"
             ELSE Table[CHOOSE b \in bases : \A b2 \in bases : Depth(b) >= Depth(b2)]

\* the handler of the test module: out_of_range -> KeyError, bad_alloc -> sets nothing, else LookupError
HandlerSets(x) == IF IsA(x, "out_of_range") THEN "KeyError" ELSE IF IsA(x, "bad_alloc") THEN "none" ELSE "LookupError"

Decls == {"plus", "plus_star", "plus_pyexc", "plus_handler"}
Behaviours == {"ret", "pyerr"} \cup Classes          \* return a value / set a Python error and return / throw
RTypes == {"int", "void"}
Ctxs == {"def", "cdef", "nogil"}

Ref(c) ==
  IF c.fb = "ret" THEN [k |-> "val", v |-> "ok"]
  ELSE IF c.fb = "pyerr" THEN [k |-> "exc", v |-> "KeyError"]            \* only with +*
  ELSE CASE c.decl \in {"plus", "plus_star"} -> [k |-> "exc", v |-> DocMap(c.fb)]
         [] c.decl = "plus_pyexc" -> [k |-> "exc", v |-> "ZeroDivisionError"]
         [] c.decl = "plus_handler" -> [k |-> "exc", v |-> IF HandlerSets(c.fb) = "none" THEN "RuntimeError" ELSE HandlerSets(c.fb)]

Cases == {c \in [decl : Decls, fb : Behaviours, rt : RTypes, ctx : Ctxs] : c.fb = "pyerr" => c.decl = "plus_star"}

---------------------------------------------------------------------------
\* catch chain of __Pyx_CppExn2PyErr, in source order; "any" = catch (...)
Chain == << [cls |-> "bad_alloc", py |-> "MemoryError"], [cls |-> "bad_cast", py |-> "TypeError"],
            [cls |-> "bad_typeid", py |-> "TypeError"], [cls |-> "domain_error", py |-> "ValueError"],
            [cls |-> "invalid_argument", py |-> "ValueError"], [cls |-> "ios_failure", py |-> "OSError"],
            [cls |-> "out_of_range", py |-> "IndexError"], [cls |-> "overflow_error", py |-> "OverflowError"],
            [cls |-> "range_error", py |-> "ArithmeticError"], [cls |-> "underflow_error", py |-> "ArithmeticError"],
            [cls |-> "exception", py |-> "RuntimeError"], [cls |-> "any", py |-> "RuntimeError"] >>

VARIABLES c, pc, thrown, err, gil, i, out, touched
vars == <<c, pc, thrown, err, gil, i, out, touched>>

Init == /\ c \in Cases
        /\ pc = "call" /\ thrown = "none" /\ err = "none" /\ i = 1
        /\ gil = (c.ctx # "nogil") /\ out = [k |-> "none", v |-> "none"]
        /\ touched = FALSE       \* the error indicator was written without holding the GIL

\* the C++ function runs inside `try {`
Call == /\ pc = "call"
        /\ IF c.fb = "ret" THEN thrown' = "none" /\ err' = err /\ pc' = "after"
           ELSE IF c.fb = "pyerr" THEN thrown' = "none" /\ err' = "KeyError" /\ pc' = "after"   \* the callee takes the GIL itself
           ELSE thrown' = c.fb /\ err' = err /\ pc' = "catch"
        /\ UNCHANGED <<c, gil, i, out, touched>>

\* `} catch(...) {` : take the GIL when the call site is nogil
Catch == /\ pc = "catch"
         /\ gil' = TRUE
         /\ pc' = CASE c.decl \in {"plus", "plus_star"} -> "chain"
                    [] c.decl = "plus_pyexc" -> "pyexc"
                    [] c.decl = "plus_handler" -> "handler"
         /\ UNCHANGED <<c, thrown, err, i, out, touched>>

\* __Pyx_CppExn2PyErr: one handler of the chain is tried per step
ChainStep == /\ pc = "chain"
             /\ IF Chain[i].cls = "any" \/ IsA(thrown, Chain[i].cls)
                  THEN err' = Chain[i].py /\ touched' = (touched \/ ~gil) /\ pc' = "release" /\ i' = i
                  ELSE i' = i + 1 /\ UNCHANGED <<err, touched, pc>>
             /\ UNCHANGED <<c, thrown, gil, out>>

PyExcStep == /\ pc = "pyexc"
             /\ err' = "ZeroDivisionError" /\ touched' = (touched \/ ~gil) /\ pc' = "release"
             /\ UNCHANGED <<c, thrown, gil, i, out>>

HandlerStep == /\ pc = "handler"
               /\ err' = IF HandlerSets(thrown) = "none" THEN "RuntimeError" ELSE HandlerSets(thrown)
               /\ touched' = (touched \/ ~gil) /\ pc' = "release"
               /\ UNCHANGED <<c, thrown, gil, i, out>>

\* end of the catch block: give the GIL back if the call site is nogil, go to the error label
Release == /\ pc = "release"
           /\ gil' = (c.ctx # "nogil")
           /\ out' = [k |-> "exc", v |-> err] /\ pc' = "done"
           /\ UNCHANGED <<c, thrown, err, i, touched>>

\* normal return: `+*` tests the error indicator (with the GIL), the others do not
After == /\ pc = "after"
         /\ IF c.decl = "plus_star" /\ err # "none" THEN out' = [k |-> "exc", v |-> err]
            ELSE out' = [k |-> "val", v |-> "ok"]
         /\ pc' = "done"
         /\ UNCHANGED <<c, thrown, err, gil, i, touched>>

Done == pc = "done" /\ UNCHANGED vars
Next == Call \/ Catch \/ ChainStep \/ PyExcStep \/ HandlerStep \/ Release \/ After \/ Done
Spec == Init /\ [][Next]_vars

---------------------------------------------------------------------------
ImplAgrees    == pc = "done" => (out.k = Ref(c).k /\ out.v = Ref(c).v)
ErrConsistent == pc = "done" => ((out.k = "val" => err = "none") /\ (out.k = "exc" => err = out.v))
GilDiscipline == ~touched /\ (pc = "done" => gil = (c.ctx # "nogil"))
ChainInRange  == i <= Len(Chain)
\* the table is a function of the class: no two listed classes are related, so "nearest" is unambiguous
TableWellFormed == \A a \in Listed, b \in Listed : (a # b) => ~IsA(a, b)

Publish == (pc = "done" /\ Dump) =>
  PrintT("@@" \o ToJson([decl |-> c.decl, fb |-> c.fb, rt |-> c.rt, ctx |-> c.ctx, k |-> Ref(c).k, v |-> Ref(c).v,
                         handler_index |-> i]))
=============================================================================
