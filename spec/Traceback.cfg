SPECIFICATION Spec
CONSTANTS
  MaxDepth = 3
  Kinds = {"def", "cdef", "method", "gen"}
  Pads = {0, 2}
  Dump = TRUE
INVARIANT WellFormed
INVARIANT Publish
CHECK_DEADLOCK FALSE
