SPECIFICATION Spec
CONSTANTS
  Level = 2
  Groups = {"num", "pred", "ctor", "ucs4"}
  Dump = TRUE
INVARIANT Functional
INVARIANT WellFormed
INVARIANT Laws
INVARIANT Publish
CHECK_DEADLOCK FALSE
