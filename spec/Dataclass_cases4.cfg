SPECIFICATION Spec
CONSTANTS
  Mode = "cases"
  Slice = "none"
  MaxFields = 0
  MaxLen = 4
  Salts = {0, 1}
  SetVals = {2}
  MaxKw = 2
INVARIANT TypeOK
INVARIANT HashTableTotal
INVARIANT BindConflictFree
INVARIANT SignatureOK
INVARIANT OrderLaws
INVARIANT EqHashCoherent
INVARIANT ImplVsRefCfg
INVARIANT ImplVsRefStep
INVARIANT Publish
CHECK_DEADLOCK FALSE
