SPECIFICATION Spec
CONSTANTS
  MinN = 1
  MaxN = 12
  MaxEdits = 2
  K2 = 3
  Dump = TRUE
INVARIANT TypeOK
INVARIANT LenOK
INVARIANT MultOK
INVARIANT SingleChanges
INVARIANT TruncPrefix
INVARIANT DelSubseq
INVARIANT Publish
CHECK_DEADLOCK FALSE
