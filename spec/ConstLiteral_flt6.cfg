SPECIFICATION Spec
CONSTANTS
  Alphabet <- FloatAlphabet
  MaxLen = 6
  Blocks <- NoBlocks
  MaxBlocks = 0
  BlockAfter = 3
  Dump = TRUE
INVARIANT AutomatonConsistent
INVARIANT StrToNumberOK
INVARIANT CLiteralOK
INVARIANT UnderscoreNeutral
INVARIANT Publish
CHECK_DEADLOCK FALSE
