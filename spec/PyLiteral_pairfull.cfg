SPECIFICATION Spec
CONSTANTS
  Family = "pairfull"
  Prefixes = {"", "u", "r", "b", "rb"}
  Quotes = {4}
  Alphabet = "all"
  MaxAtoms = 2
  MaxParts = 1
  Prefixes2 = {}
  Quotes2 = {}
  LongReps = {}
  BigReps = {}
  Dump = TRUE
INVARIANT TypeOK
INVARIANT Compositional
INVARIANT RawInert
INVARIANT NoGrowth
INVARIANT Periodic
INVARIANT Publish
