SPECIFICATION Spec
CONSTANTS
  MaxLen = 5
  Dump = TRUE
  BodySel = {32, 33, 34, 35}
INVARIANT Consistent
INVARIANT FinallyOnce
INVARIANT CleanupOnDel
INVARIANT NoUnsup
INVARIANT Publish
PROPERTY Causal
CHECK_DEADLOCK FALSE
