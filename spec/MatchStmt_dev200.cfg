SPECIFICATION Spec
CONSTANTS
  NStmts = 200
  MaxDepth = 2
  MaxCases = 4
  MaxSeq = 3
  MaxKeys = 2
  Dump = FALSE
INVARIANT SelSound
INVARIANT SkipSound
INVARIANT BindComplete
INVARIANT OneBody
INVARIANT GuardOrder
INVARIANT ExcFinal
INVARIANT StmtWF
INVARIANT Publish
CHECK_DEADLOCK FALSE
