SPECIFICATION Spec
CONSTANTS
  Pairs <- PairsRefQuick
  AllPython = TRUE
  Dump = FALSE
INVARIANT RefShape
INVARIANT ImplAgrees
CHECK_DEADLOCK FALSE
