SPECIFICATION Spec
CONSTANTS
  Part = "prog"
  Wide = FALSE
  Full = FALSE
  MaxLoop = 6
  Dump = TRUE
INVARIANT ProgsWellFormed
INVARIANT OutcomeWellFormed
INVARIANT TypedVarsInRange
INVARIANT Terminates
INVARIANT NoHazardClass
INVARIANT PublishProg
CHECK_DEADLOCK FALSE
