SPECIFICATION Spec
CONSTANTS
  Mode = "allpairs"
  AtomSet <- CoreAtoms
  InnerAtoms <- NoAtoms
  PairOuter = FALSE
  Dump = TRUE
INVARIANT KeyImpliesPyEq
INVARIANT MergeExplained
INVARIANT SameTextShared
INVARIANT FixedKeySound
INVARIANT FixedKeyShares
INVARIANT ObsRefinesEq
INVARIANT ObsIdempotent
INVARIANT PublishConst
INVARIANT PublishPair
CHECK_DEADLOCK FALSE
