SPECIFICATION Spec
CONSTANTS
  MaxH = 3
  MaxLen = 6
  NLs = {0, 1}
  Poses = {0, 1}
  Dump = FALSE
  LineNums = TRUE
INVARIANT Agree
INVARIANT ExactlyOnce
INVARIANT MarkersAligned
INVARIANT OwnSubtreeOnly
CHECK_DEADLOCK FALSE
