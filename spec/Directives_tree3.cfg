SPECIFICATION Spec
CONSTANTS
  MaxNodes = 3
  MaxDepth = 3
  OvMode = "small"
  SrcMode = "none"
  Dump = TRUE
INVARIANT WellFormed
INVARIANT Unambiguous
INVARIANT DictAgrees
INVARIANT NoLeak
INVARIANT Applies
INVARIANT SourceOrder
INVARIANT Publish
CHECK_DEADLOCK FALSE
