SPECIFICATION Spec
CONSTANTS
  Part = "bool"
  BoolSize = "q"
  AndMerge = "old"
  MaxArms = 1
INVARIANT SwitchSound
CHECK_DEADLOCK FALSE
