SPECIFICATION Spec
CONSTANTS
  Part = "multi"
  UNames <- UMulti
  UNames3 <- UNone
  MaxLen = 3
  ArgsOne <- AOneAll
  ArgsPair <- APairT
INVARIANT TypeOK
INVARIANT RefPartial
INVARIANT ImplAgrees
INVARIANT DeviationsExplained
INVARIANT NoMatchMultiDead
INVARIANT StepsAreImplCall
CHECK_DEADLOCK FALSE
