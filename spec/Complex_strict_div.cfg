SPECIFICATION Spec
CONSTANTS
  GridSel = "q"
  Ops = {"div"}
  Dump = FALSE
INVARIANT StructAgreesEverywhere
CHECK_DEADLOCK FALSE
