SPECIFICATION Spec
CONSTANTS
  Leaves <- AllLeaves
  UnOps <- AllUn
  BinOps <- AllBin
  CmpOps <- AllCmp
  ChainOps <- SomeChain
  MaxTok = 3
  Ternary = FALSE
  Dump = TRUE
INVARIANT TypeOK
INVARIANT RefSound
INVARIANT ImplAgrees
INVARIANT Publish
INVARIANT CountErr
CHECK_DEADLOCK FALSE
