SPECIFICATION Spec
CONSTANTS
  DtNames = {"schar", "uchar", "char", "short", "int", "long", "double", "ldouble", "cdouble", "AR", "A2", "CS", "SA", "FC", "IC", "PK"}
  Edits = 1
  MaxTail = 2
  Wide = FALSE
  Deep = FALSE
  Dump = TRUE
INVARIANT RefSound
INVARIANT DtSound
INVARIANT NoFalseAccept
INVARIANT ImplAgreesOffMarked
INVARIANT ImplAgreesOffMarkedDt
INVARIANT Publish
INVARIANT PublishDt
CHECK_DEADLOCK FALSE
