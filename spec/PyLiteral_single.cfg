SPECIFICATION Spec
CONSTANTS
  Family = "single"
  Prefixes = {"", "u", "r", "b", "rb", "c"}
  Quotes = {1, 2, 3, 4}
  Alphabet = "all"
  MaxAtoms = 1
  MaxParts = 1
  Prefixes2 = {}
  Quotes2 = {}
  LongReps = {}
  BigReps = {}
  Dump = TRUE
INVARIANT TypeOK
INVARIANT Compositional
INVARIANT RawInert
INVARIANT NoGrowth
INVARIANT Periodic
INVARIANT Publish
