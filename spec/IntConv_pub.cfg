SPECIFICATION Spec
CONSTANTS
  S = 7
  Abis <- AbisLP64
  Cfgs <- Cfgs3
  Types <- TypesImg
  Pub = TRUE
  MaxK = 0
  HiK = 0
  Steps = FALSE
INVARIANT IntExact
INVARIANT ToPyExact
INVARIANT NoBad
INVARIANT RootCause
INVARIANT Publish
