SPECIFICATION Spec
CONSTANTS
  MaxLen = 12
  Dump = TRUE
INVARIANT ReadsCurrent
INVARIANT CacheCoherent
INVARIANT Publish
CHECK_DEADLOCK FALSE
