INIT InitGen
NEXT NextGen
CONSTANTS
  NV = 3
  MaxStmts = 10
  MaxDepth = 3
  MaxComp = 4
  Kinds = {"asg", "del", "read", "cread", "wal", "cex", "comp", "mr", "raise", "ret", "brk", "cnt", "if", "while", "for", "with", "match", "try", "dead"}
  HSh <- HShAll
  AsVars = TRUE
  Pre <- PreNone
  MaxWord = 6
  Dump = TRUE
INVARIANT GenWellFormed
INVARIANT GenBounded
INVARIANT PublishGen
CHECK_DEADLOCK FALSE
