SPECIFICATION Spec
CONSTANTS
  Mode = "full1"
  Inits <- InitsRefute
  MaxDepth = 1
  ChainFull = FALSE
  Dump = FALSE
INVARIANT ImplAgrees
CHECK_DEADLOCK FALSE
