SPECIFICATION Spec
CONSTANTS
  Inits <- InitsRefute
  ChainDepth = 1
  ChainFull = FALSE
  Dump = FALSE
INVARIANT ImplAgrees
CHECK_DEADLOCK FALSE
