SPECIFICATION Spec
CONSTANTS
  MaxLen = 2
  UseCore = TRUE
  Dump = FALSE
INVARIANT ImplAgrees
CHECK_DEADLOCK FALSE
