SPECIFICATION Spec
CONSTANTS
  TypeSet <- ThorD
  TopLen = 3
  TypesOnly = FALSE
  Dump = TRUE
INVARIANT GoodIsValid
INVARIANT FaultIsInvalid
INVARIANT RefRoundTrip
INVARIANT RefRejects
INVARIANT RefDefined
INVARIANT DevExplained
INVARIANT NoDevOnGoodExceptOverread
INVARIANT DevShape
INVARIANT Publish
CHECK_DEADLOCK FALSE
