SPECIFICATION Spec
CONSTANTS
  Part = "one"
  UNames <- UNone
  UNames3 <- UNumQ
  MaxLen = 2
  ArgsOne <- AScalar
  ArgsPair <- APairQ
INVARIANT ImplAgreesStrict
CHECK_DEADLOCK FALSE
