SPECIFICATION Spec
CONSTANTS
  MaxPO = 2
  MaxPK = 2
  MaxKO = 0
  FixPO = 9
  MaxPos = 5
  Extra = 1
  MaxKw = 2
  NSim = 0
  KindMode = "uni"
  Dump = TRUE
INVARIANT RefIsDeclarative
INVARIANT ImplAgrees
INVARIANT Publish
CHECK_DEADLOCK FALSE
