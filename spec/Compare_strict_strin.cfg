SPECIFICATION Spec
CONSTANTS
  Part = "shapes"
  MaxArms = 1
INVARIANT StrinStrict
CHECK_DEADLOCK FALSE
