SPECIFICATION Spec
CONSTANTS
  MaxLeaves = 2
  MaxLeaves2 = 2
  Mod = 2
  Typings = {"O", "I", "M"}
  Tops = {"ret1", "ret2", "assign", "aug", "unpack"}
  Dump = TRUE
INVARIANT AtMostOnce
INVARIANT CanonInv
INVARIANT StopsAtRaise
INVARIANT AllEvaluated
INVARIANT LeftToRight
INVARIANT RhsFirst
INVARIANT AugOrder
INVARIANT Publish
CHECK_DEADLOCK FALSE
