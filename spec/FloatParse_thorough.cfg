SPECIFICATION Spec
CONSTANTS
  Families = {"core6", "cores5", "wide4", "words6", "wordss5", "nona5"}
  UseRecords = TRUE
  CheckDecl = TRUE
INVARIANT TypeOK
INVARIANT GrammarsAgree
INVARIANT UnderscoreRulesAgree
INVARIANT RefShape
INVARIANT PublishHazards
INVARIANT PublishAccepted
INVARIANT PublishRecords
CHECK_DEADLOCK FALSE
