SPECIFICATION Spec
CONSTANTS
  Modes = {"expr"}
  Names <- LvNames1
  Nums <- LvNums1
  Atoms <- LvAtoms1
  Opqs <- NoneSet
  UnOps <- AllUn
  BinOps <- MinBin
  BoolOps <- AllBool
  CmpOps <- MinCmp
  ChainOps <- MinChain
  Ctors <- RepCtors
  MaxOps = 2
  MaxTok = 5
  MaxParams = 0
  MaxNest = 0
  Dump = FALSE
CHECK_DEADLOCK FALSE
INVARIANT B_Parse
