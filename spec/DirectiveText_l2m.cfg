SPECIFICATION Spec
CONSTANTS
  Part = "list"
  MaxChunks = 0
  MaxItems = 2
  ItemMode = "mid"
  Dump = "all"
INVARIANT BoolSane
INVARIANT IntSane
INVARIANT ListSane
INVARIANT PublishV
INVARIANT PublishL
CHECK_DEADLOCK FALSE
