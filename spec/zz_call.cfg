SPECIFICATION Spec
CONSTANTS
  Level = 1
  Sites = {"call"}
  Dump = TRUE
INVARIANT WellFormed
INVARIANT DigitLaw
INVARIANT BufOK
INVARIANT Publish
CHECK_DEADLOCK FALSE
