SPECIFICATION Spec
CONSTANTS
  MaxLen = 3
  Dump = TRUE
INVARIANT ReadsCurrent
INVARIANT CacheCoherent
INVARIANT Publish
CHECK_DEADLOCK FALSE
