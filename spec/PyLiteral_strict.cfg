SPECIFICATION Spec
CONSTANTS
  Family = "strict"
  Prefixes = {"", "u", "b", "c"}
  Quotes = {1}
  Alphabet = "core"
  MaxAtoms = 1
  MaxParts = 1
  Prefixes2 = {}
  Quotes2 = {}
  LongReps = {}
  BigReps = {}
  Dump = FALSE
INVARIANT TypeOK
INVARIANT CyAgrees
