SPECIFICATION Spec
CONSTANTS
  T = 2
  N = 3
  Schedule = "dynamic"
INVARIANT NoDoubleOwner
INVARIANT EachExecutedOnce
INVARIANT Safe
PROPERTY Terminates
CHECK_DEADLOCK FALSE
