---------------------------- MODULE BuildCache ----------------------------
(* C48: a content-addressed compilation cache never returns stale results.  *)
(*                                                                          *)
(* A compilation has input fields (source bytes, each dependency, language  *)
(* level, each directive, each option ...), every field takes a value in    *)
(* Vals.  Affects = fields that change the fresh output F(inputs);          *)
(* Keyed = fields that change the cache key (cythonize:                     *)
(* Cache.transitive_fingerprint + CompilationOptions.get_fingerprint +      *)
(* FingerprintFlags; cython.inline: _inline_key).  Both sets are MEASURED   *)
(* on the real code by the harness (B3 facts) and passed in as constants,   *)
(* or set to the design assumption Keyed = Affects.                         *)
(*                                                                          *)
(* Actions: Vary(f, v) changes exactly one input; Compile looks the key up: *)
(* hit -> returns what was stored under that key, miss -> stores F(inputs). *)
(* Property Fresh: what Compile returns is always F(current inputs).        *)
(* `hist` carries, per step, whether the model predicts a stale result; the *)
(* leaves are published and replayed on the real cythonize / cython.inline. *)
EXTENDS Naturals, Sequences, FiniteSets, TLC, Json

CONSTANTS Fields, Affects, Keyed, Vals, MaxLen, Dump

VARIABLES inp, cache, out, hist
vars == <<inp, cache, out, hist>>

Restrict(f, S) == [x \in S |-> f[x]]
F(i) == Restrict(i, Affects)          \* the fresh output, abstractly
Key(i) == Restrict(i, Keyed)

Init == /\ inp = [f \in Fields |-> 0]
        /\ cache = <<>>                \* a function from keys to stored outputs
        /\ out = F(inp)
        /\ hist = <<>>

HasKey(k) == k \in DOMAIN cache

Compile ==
  LET k == Key(inp)
      res == IF HasKey(k) THEN cache[k] ELSE F(inp)
  IN /\ out' = res
     /\ cache' = IF HasKey(k) THEN cache ELSE [x \in DOMAIN cache \cup {k} |-> IF x = k THEN F(inp) ELSE cache[x]]
     /\ UNCHANGED inp
     /\ hist' = Append(hist, [op |-> "compile", hit |-> HasKey(k), stale |-> res # F(inp), f |-> "", v |-> 0])

(* vary exactly one input, then compile: the histories the property quantifies over *)
Vary(f, v) ==
  /\ v # inp[f]
  /\ inp' = [inp EXCEPT ![f] = v]
  /\ UNCHANGED <<cache, out>>
  /\ hist' = Append(hist, [op |-> "vary", hit |-> FALSE, stale |-> FALSE, f |-> f, v |-> v])

LastIsVary == hist # <<>> /\ hist[Len(hist)].op = "vary"
More == Len(hist) < MaxLen
DoCompile == More /\ (hist = <<>> \/ LastIsVary) /\ Compile
DoVary == More /\ hist # <<>> /\ ~LastIsVary /\ \E f \in Fields, v \in Vals : Vary(f, v)
Next == DoCompile \/ DoVary
Spec == Init /\ [][Next]_vars

(* the property *)
Fresh == (hist # <<>> /\ hist[Len(hist)].op = "compile") => out = F(inp)
(* a weaker design fact that holds for ANY key: a hit returns an output that was fresh for SOME earlier inputs *)
KeySound == \A k \in DOMAIN cache : \E i \in [Fields -> Vals] : Key(i) = k /\ cache[k] = F(i)

Leaf == Len(hist) = MaxLen
Publish == (Dump /\ Leaf) => PrintT("@@" \o ToJson(hist))
=============================================================================
