INIT InitGen
NEXT NextGen
CONSTANTS
  NV = 1
  MaxStmts = 5
  MaxDepth = 1
  MaxComp = 1
  Kinds = {"asg", "del", "read", "cnt", "brk", "while", "for"}
  HSh <- HShFin
  AsVars = FALSE
  Pre <- PreAsg
  MaxWord = 6
  Dump = TRUE
INVARIANT GenWellFormed
INVARIANT GenBounded
INVARIANT PublishGen
CHECK_DEADLOCK FALSE
