SPECIFICATION Spec
CONSTANTS
  Types <- TScaled5
  Steps <- StepsStd
  GridOnly = FALSE
  Dump = TRUE
INVARIANT RefSound
INVARIANT BodySound
INVARIANT ImplFollowsRef
INVARIANT ImplAgreesOffHazards
INVARIANT HazardShape
INVARIANT Publish
