SPECIFICATION Spec
CONSTANTS
  Mode = "cases"
  Slice = "none"
  MaxFields = 0
  MaxLen = 3
  Salts = {0, 1}
  SetVals = {0, 2}
  MaxKw = 2
INVARIANT TypeOK
INVARIANT HashTableTotal
INVARIANT BindConflictFree
INVARIANT SignatureOK
INVARIANT OrderLaws
INVARIANT EqHashCoherent
INVARIANT ImplVsRefCfg
INVARIANT ImplVsRefStep

CHECK_DEADLOCK FALSE
