SPECIFICATION Spec
CONSTANTS
  Alphabet <- IntAlphabet
  MaxLen = 7
  Blocks <- NoBlocks
  MaxBlocks = 0
  BlockAfter = 3
  Dump = TRUE
INVARIANT AutomatonConsistent
INVARIANT StrToNumberOK
INVARIANT CLiteralOK
INVARIANT UnderscoreNeutral
INVARIANT Publish
CHECK_DEADLOCK FALSE
