----------------------------- MODULE ExcState -----------------------------
(* C22: structured exception handling of Python, as an abstract machine.     *)
(*                                                                          *)
(* A program is ONE statement (records below) that forms a function body.   *)
(*   leaves   : nop | raise E | raise E from F | raise E from None | bare   *)
(*              raise | return | break | continue | quiet handler bodies    *)
(*              (`pass` / `return v`: no call, no probe)                    *)
(*   compound : try/except.../else/finally | try/finally | with | loop |    *)
(*              seq (two statements in a row)                               *)
(* Every block of a compound statement starts with a probe that logs the    *)
(* block's label and the exception that sys.exc_info() shows there, and     *)
(* logs again after a nested compound statement (exc_info "after the        *)
(* statement").                                                             *)
(*                                                                          *)
(* Machine state: `excs` (every exception object created so far, with its   *)
(* __cause__, __context__, __suppress_context__), `handled` (the stack of   *)
(* exceptions being handled; its top is what sys.exc_info() shows), `log`.  *)
(* Exec is a big-step evaluator returning the new state and a signal        *)
(* norm | raise e | ret v | brk | cnt.  Rules (language reference, 7.8,     *)
(* 8.4, 8.5; data model of BaseException):                                  *)
(*  - `raise E` creates an object whose __context__ is the top of `handled` *)
(*  - `raise E from F` creates E(), then F(); __cause__ = F(),              *)
(*    __suppress_context__ = True (also for `from None`); F() itself is     *)
(*    never raised, so it has no context                                    *)
(*  - bare raise re-raises the top of `handled` UNCHANGED, or raises        *)
(*    RuntimeError when nothing is being handled                            *)
(*  - entering an except clause pushes the exception (and binds the `as`    *)
(*    name to it), every way of leaving it pops                             *)
(*  - a finally block runs for every exit kind of the try part; while an    *)
(*    exception is pending it is the handled exception inside the block; a  *)
(*    jump or raise inside the block overrides the pending exit             *)
(*  - with: __enter__, body, __exit__(exc or None) on every exit kind; the  *)
(*    pending exception is the handled one during __exit__; a true result   *)
(*    suppresses it; an __exit__ that raises overrides the pending exit     *)
(* The function is called either with nothing being handled or from inside  *)
(* an `except Z:` block of the caller (`outer`): sys.exc_info() then shows  *)
(* Z, bare raise re-raises it and new exceptions chain to it.               *)
(*                                                                          *)
(* TLC states are programs.  Programs GROW: Next puts a leaf or a fresh     *)
(* compound statement into a hole (nop) whose block the current             *)
(* program actually executes (growing dead code would only multiply cases   *)
(* with the same behaviour; a block can still become dead by a LATER step). *)
(* Every state carries the expected observation, computed from scratch, for *)
(* both kinds of call and publishes it for the binding (B1, three-way       *)
(* against CPython and Cython-compiled code).                               *)
EXTENDS Integers, Sequences, FiniteSets, TLC, Json

CONSTANTS MaxDepth,   \* nesting depth of compound statements (seq does not count)
          MaxNodes,   \* number of compound statements
          MaxInj,     \* number of non-nop leaves
          HSets,      \* handler class lists offered for try/except
          CMs,        \* context manager kinds offered for with: "no" | "sup" | "raise"
          Kinds,      \* compound kinds offered: "try" "tf" "with" "loop" "seq"
          Leaves,     \* leaf kinds offered: "raise" "from" "reraise" "ret" "brk" "cnt" "quiet"
          RaiseCls,   \* classes offered for a plain `raise`
          Outers,     \* values of `outer` explored
          Dump        \* TRUE: publish every case

\* values for HSets (a .cfg file cannot write tuples)
HSetsAll   == {<<"A">>, <<"B">>, <<"C", "A">>, <<"*">>}
HSetsSmall == {<<"A">>, <<"C", "A">>}
HSetsOne   == {<<"A">>}
HSetsWide  == {<<"B">>, <<"C", "A">>, <<"*">>}

---------------------------------------------------------------------------
(* statements *)
Nop          == [t |-> "nop"]
Rz(c, f)     == [t |-> "raise", c |-> c, f |-> f]     \* f: "" | "None" | class name
Rr           == [t |-> "reraise"]
Ret          == [t |-> "ret"]                          \* return <label of the block>
Brk          == [t |-> "brk"]
Cnt          == [t |-> "cnt"]
QPass        == [t |-> "qpass"]                        \* handler body `pass`
QRet         == [t |-> "qret"]                         \* handler body `return <label>`
Try(hc)      == [t |-> "try", b |-> Nop, hs |-> [i \in 1..Len(hc) |-> [c |-> hc[i], b |-> Nop]], el |-> Nop, fin |-> Nop]
TryFin       == [t |-> "tf", b |-> Nop, fin |-> Nop]
With(cm)     == [t |-> "with", cm |-> cm, b |-> Nop]
Loop         == [t |-> "loop", b |-> Nop]              \* two iterations
Seq2         == [t |-> "seq", a |-> Nop, b |-> Nop]

Compound == {"try", "tf", "with", "loop", "seq"}
Quiet    == {"qpass", "qret"}

Kids(s) == CASE s.t = "try"  -> <<s.b>> \o [i \in 1..Len(s.hs) |-> s.hs[i].b] \o <<s.el, s.fin>>
             [] s.t = "tf"   -> <<s.b, s.fin>>
             [] s.t = "with" -> <<s.b>>
             [] s.t = "loop" -> <<s.b>>
             [] s.t = "seq"  -> <<s.a, s.b>>
             [] OTHER        -> <<>>

SetKid(s, i, x) ==
  CASE s.t = "try"  -> (IF i = 1 THEN [s EXCEPT !.b = x]
                        ELSE IF i <= Len(s.hs) + 1 THEN [s EXCEPT !.hs[i - 1].b = x]
                        ELSE IF i = Len(s.hs) + 2 THEN [s EXCEPT !.el = x]
                        ELSE [s EXCEPT !.fin = x])
    [] s.t = "tf"   -> (IF i = 1 THEN [s EXCEPT !.b = x] ELSE [s EXCEPT !.fin = x])
    [] s.t = "with" -> [s EXCEPT !.b = x]
    [] s.t = "loop" -> [s EXCEPT !.b = x]
    [] s.t = "seq"  -> (IF i = 1 THEN [s EXCEPT !.a = x] ELSE [s EXCEPT !.b = x])

(* exception classes: B is a subclass of A; C, Z, RuntimeError unrelated.   *)
(* "*" is a bare `except:`                                                   *)
Matches(cls, hc) == \/ hc = "*"
                    \/ hc = cls
                    \/ hc = "A" /\ cls = "B"

---------------------------------------------------------------------------
(* machine state and signals *)
Norm      == [t |-> "norm", e |-> 0, v |-> 0]
Raise(e)  == [t |-> "raise", e |-> e, v |-> 0]
Return(v) == [t |-> "ret", e |-> 0, v |-> v]
Break     == [t |-> "brk", e |-> 0, v |-> 0]
Continue  == [t |-> "cnt", e |-> 0, v |-> 0]
Res(st, sig) == [st |-> st, sig |-> sig]

Top(st)     == IF st.handled = <<>> THEN 0 ELSE st.handled[Len(st.handled)]
Push(st, e) == [st EXCEPT !.handled = Append(@, e)]
Pop(st)     == [st EXCEPT !.handled = SubSeq(@, 1, Len(@) - 1), !.moved = @ \ {Len(st.handled)}]
\* log entry kinds: 0 block start, 1 after a compound statement, 2 handler start (x = the
\* exception bound by `as`), 3 __enter__, 4 __exit__ (x = its argument), 5 end of function
Log(st, k, p, x) == [st EXCEPT !.log = Append(@, <<k, p, Top(st), x>>), !.ran = IF k \in {0, 2} THEN @ \cup {p} ELSE @]

UserCls == {"A", "B", "C"}
NewExc(st, cls, ctx) ==      \* the new object is excs[Len(excs)]
  [st EXCEPT !.excs = Append(@, [cls |-> cls, ser |-> IF cls \in UserCls THEN st.nuser + 1 ELSE 0,
                                 cause |-> 0, ctx |-> ctx, sup |-> FALSE]),
             !.nuser = IF cls \in UserCls THEN @ + 1 ELSE @]
Last(st) == Len(st.excs)

DoRaise(st, cls, from) ==
  LET s1 == NewExc(st, cls, Top(st))
      n  == Last(s1)
  IN CASE from = ""     -> Res(s1, Raise(n))
       [] from = "None" -> Res([s1 EXCEPT !.excs[n].sup = TRUE], Raise(n))
       [] OTHER         -> LET s2 == NewExc(s1, from, 0)
                           IN Res([s2 EXCEPT !.excs[n].cause = Last(s2), !.excs[n].sup = TRUE], Raise(n))

(* Ghost (case feature for the binding, no effect on the semantics): `moved` is the set of     *)
(* positions of `handled`, pushed by THIS function, whose exception a bare raise has already *)
(* re-raised; `again` records that such an exception was needed once more afterwards, i.e.   *)
(* it had been caught again inside its own handler / finally block and then                  *)
(*   - a second bare raise re-raised it, or                                                  *)
(*   - its finally block ran to its end and had to let it propagate.                         *)
(* `retover`: a pending `return` was overridden (jump or raise in a finally block, raising   *)
(* __exit__) while still inside a loop (`ld` = loop depth) that encloses the return.         *)
DoReraise(st) ==
  IF Top(st) # 0
  THEN LET d == Len(st.handled)
       IN IF d > st.base
          THEN Res([st EXCEPT !.moved = @ \cup {d}, !.again = @ \/ d \in st.moved], Raise(Top(st)))
          ELSE Res(st, Raise(Top(st)))
  ELSE LET s1 == NewExc(st, "RuntimeError", 0) IN Res(s1, Raise(Last(s1)))

HIdx(cls, hs) == LET m == {i \in 1..Len(hs) : Matches(cls, hs[i].c)}
                 IN IF m = {} THEN 0 ELSE CHOOSE i \in m : \A j \in m : i <= j

RECURSIVE Exec(_, _, _), Block(_, _, _, _, _), ExecLoop(_, _, _, _)

(* a block at label p: probe, statement, probe again after a compound statement. *)
(* hk = 2 for handler blocks (hx = bound exception), else 0                       *)
Block(s, st, p, hk, hx) ==
  LET s1 == IF s.t \in Quiet THEN [st EXCEPT !.ran = @ \cup {p}] ELSE Log(st, hk, p, hx)
      r  == Exec(s, s1, p)
  IN IF r.sig.t = "norm" /\ s.t \in Compound THEN Res(Log(r.st, 1, p, 0), Norm) ELSE r

ExecLoop(n, s, st, p) ==
  IF n = 0 THEN Res(st, Norm)
  ELSE LET r == Block(s.b, st, p * 8 + 1, 0, 0)
       IN CASE r.sig.t \in {"norm", "cnt"} -> ExecLoop(n - 1, s, r.st, p)
            [] r.sig.t = "brk"             -> Res(r.st, Norm)
            [] OTHER                       -> r

(* run the finally block fin at label pf for the pending result r *)
Finally(fin, r, pf) ==
  LET pend == r.sig.t = "raise"
      f    == Block(fin, IF pend THEN Push(r.st, r.sig.e) ELSE r.st, pf, 0, 0)
      fs   == [(IF pend THEN Pop(f.st) ELSE f.st) EXCEPT !.fins = @ + 1,
                    !.again = @ \/ (pend /\ f.sig.t = "norm" /\ Len(f.st.handled) \in f.st.moved),
                    !.retover = @ \/ (r.sig.t = "ret" /\ f.sig.t # "norm" /\ f.st.ld >= 1)]
  IN Res(fs, IF f.sig.t = "norm" THEN r.sig ELSE f.sig)

Exec(s, st, p) ==
  CASE s.t = "nop"     -> Res(st, Norm)
    [] s.t = "qpass"   -> Res(st, Norm)
    [] s.t = "raise"   -> DoRaise(st, s.c, s.f)
    [] s.t = "reraise" -> DoReraise(st)
    [] s.t \in {"ret", "qret"} -> Res(st, Return(p))
    [] s.t = "brk"     -> Res(st, Break)
    [] s.t = "cnt"     -> Res(st, Continue)
    [] s.t = "seq"     -> LET r == Block(s.a, st, p * 8 + 1, 0, 0)
                          IN IF r.sig.t = "norm" THEN Block(s.b, r.st, p * 8 + 2, 0, 0) ELSE r
    [] s.t = "loop"    -> LET r == ExecLoop(2, s, [st EXCEPT !.ld = @ + 1], p)
                          IN Res([r.st EXCEPT !.ld = st.ld], r.sig)
    [] s.t = "tf"      -> Finally(s.fin, Block(s.b, [st EXCEPT !.tries = @ + 1], p * 8 + 1, 0, 0), p * 8 + 2)
    [] s.t = "try"     ->
         LET n  == Len(s.hs)
             r  == Block(s.b, [st EXCEPT !.tries = @ + 1], p * 8 + 1, 0, 0)
             i  == IF r.sig.t = "raise" THEN HIdx(r.st.excs[r.sig.e].cls, s.hs) ELSE 0
             core == IF i > 0
                     THEN LET hr == Block(s.hs[i].b, Push(r.st, r.sig.e), p * 8 + 1 + i, 2, r.sig.e)
                          IN Res(Pop(hr.st), hr.sig)
                     ELSE IF r.sig.t = "norm" THEN Block(s.el, r.st, p * 8 + n + 2, 0, 0)
                     ELSE r
         IN Finally(s.fin, core, p * 8 + n + 3)
    [] s.t = "with"    ->
         LET s1 == Log(st, 3, p, 0)
             r  == Block(s.b, s1, p * 8 + 1, 0, 0)
         IN IF r.sig.t = "raise"
            THEN LET e  == r.sig.e
                     s2 == Log(Push(r.st, e), 4, p, e)
                 IN CASE s.cm = "sup"   -> Res(Pop(s2), Norm)
                      [] s.cm = "raise" -> LET s3 == NewExc(s2, "C", e) IN Res(Pop(s3), Raise(Last(s3)))
                      [] OTHER          -> Res(Pop(s2), Raise(e))
            ELSE LET s2 == Log(r.st, 4, p, 0)
                 IN IF s.cm = "raise"
                    THEN LET s3 == NewExc(s2, "C", Top(s2))
                         IN Res([s3 EXCEPT !.retover = @ \/ (r.sig.t = "ret" /\ s2.ld >= 1)], Raise(Last(s3)))
                    ELSE Res(s2, r.sig)

---------------------------------------------------------------------------
(* observation of a whole call *)
RECURSIVE Desc(_, _)
Desc(ex, i) ==     \* an exception object with its chain, as a string
  IF i = 0 THEN "-"
  ELSE LET x == ex[i]
       IN x.cls \o (IF x.ser > 0 THEN ToString(x.ser) ELSE "") \o "[" \o Desc(ex, x.cause) \o "," \o Desc(ex, x.ctx)
          \o "," \o (IF x.sup THEN "T" ELSE "F") \o "]"

RECURSIVE ChainLen(_, _, _)
ChainLen(ex, i, fuel) ==    \* length of the longest cause/context chain from i; -1 when it exceeds fuel (a cycle)
  IF i = 0 THEN 0
  ELSE IF fuel = 0 THEN -1
  ELSE LET a == ChainLen(ex, ex[i].cause, fuel - 1)  b == ChainLen(ex, ex[i].ctx, fuel - 1)
       IN IF a < 0 \/ b < 0 THEN -1 ELSE 1 + (IF a > b THEN a ELSE b)

Init0(outer) ==
  [excs |-> IF outer THEN <<[cls |-> "Z", ser |-> 0, cause |-> 0, ctx |-> 0, sup |-> FALSE]>> ELSE <<>>,
   handled |-> IF outer THEN <<1>> ELSE <<>>,
   log |-> <<>>, ran |-> {}, nuser |-> 0, tries |-> 0, fins |-> 0,
   base |-> IF outer THEN 1 ELSE 0, moved |-> {}, again |-> FALSE, ld |-> 0, retover |-> FALSE]

Eval(prog, outer) ==
  LET st0 == Init0(outer)
      r   == Block(prog, st0, 1, 0, 0)
      st  == IF r.sig.t = "norm" THEN Log(r.st, 5, 0, 0) ELSE r.st
      ex  == st.excs
  IN [log   |-> [k \in 1..Len(st.log) |-> <<st.log[k][1], st.log[k][2], Desc(ex, st.log[k][3]), Desc(ex, st.log[k][4])>>],
      out   |-> r.sig.t,                                   \* norm | ret | raise | brk | cnt
      val   |-> r.sig.v,
      exc   |-> Desc(ex, r.sig.e),
      after |-> Desc(ex, Top(st)),                         \* sys.exc_info()[1] of the caller after the call
      ran   |-> st.ran,
      restored |-> st.handled = st0.handled /\ st.moved = {},
      again |-> st.again, retover |-> st.retover, ld |-> st.ld,
      tries |-> st.tries, fins |-> st.fins,
      nexc  |-> Len(ex), acyclic |-> \A k \in 1..Len(ex) : ChainLen(ex, k, Len(ex)) >= 0,
      ctxok |-> \A k \in 1..Len(ex) : ex[k].ctx < k /\ (ex[k].cause = 0 \/ ex[k].cause = k + 1),
      rcls  |-> IF r.sig.e = 0 THEN "" ELSE ex[r.sig.e].cls]

---------------------------------------------------------------------------
(* program growth *)
RECURSIVE Holes(_, _, _, _), Put(_, _, _), NNodes(_), NInj(_)

\* holes: [p: label of the block, d: compound depth around it, lp: inside a loop, hd: handler block, path]
Holes(s, p, d, lp) ==
  IF s.t = "nop" THEN {[p |-> p, d |-> d, lp |-> lp, hd |-> FALSE, path |-> <<>>]}
  ELSE IF s.t \in Compound
  THEN LET ch  == Kids(s)
           d1  == IF s.t = "seq" THEN d ELSE d + 1
           lp1 == lp \/ s.t = "loop"
       IN UNION { { [h EXCEPT !.path = <<i>> \o @,
                              !.hd = IF h.path = <<>> THEN (s.t = "try" /\ i >= 2 /\ i <= Len(s.hs) + 1) ELSE @]
                    : h \in Holes(ch[i], p * 8 + i, d1, lp1) } : i \in 1..Len(ch) }
  ELSE {}

Put(s, path, x) == IF path = <<>> THEN x ELSE SetKid(s, Head(path), Put(Kids(s)[Head(path)], Tail(path), x))

SumSeq(f) == LET RECURSIVE S(_)
                 S(k) == IF k = 0 THEN 0 ELSE f[k] + S(k - 1)
             IN S(Len(f))
NNodes(s) == IF s.t \in Compound THEN 1 + SumSeq([i \in 1..Len(Kids(s)) |-> NNodes(Kids(s)[i])]) ELSE 0
NInj(s)   == IF s.t \in Compound THEN SumSeq([i \in 1..Len(Kids(s)) |-> NInj(Kids(s)[i])])
             ELSE IF s.t = "nop" THEN 0 ELSE 1

VARIABLES prog, exp        \* exp[o]: the expected observation when called with outer = o
vars == <<prog, exp>>

Expect(p) == [o \in Outers |-> Eval(p, o)]

Init == /\ prog = Nop
        /\ exp = Expect(prog)

\* holes of the current program that its execution reaches (in one of the two calls)
Live == {h \in Holes(prog, 1, 0, FALSE) : \E o \in Outers : h.p \in exp[o].ran}

Fill(h, x) == /\ prog' = Put(prog, h.path, x)
              /\ exp' = Expect(prog')

CanNest(h) == h.d < MaxDepth /\ NNodes(prog) < MaxNodes
CanInj     == NInj(prog) < MaxInj

NestTry      == "try" \in Kinds /\ \E h \in Live : CanNest(h) /\ \E hc \in HSets : Fill(h, Try(hc))
NestTryFin   == "tf" \in Kinds /\ \E h \in Live : CanNest(h) /\ Fill(h, TryFin)
NestWith     == "with" \in Kinds /\ \E h \in Live : CanNest(h) /\ \E cm \in CMs : Fill(h, With(cm))
NestLoop     == "loop" \in Kinds /\ \E h \in Live : CanNest(h) /\ Fill(h, Loop)
NestSeq      == "seq" \in Kinds /\ \E h \in Live : NNodes(prog) < MaxNodes /\ Fill(h, Seq2)
InjRaise     == "raise" \in Leaves /\ CanInj /\ \E h \in Live : \E c \in RaiseCls : Fill(h, Rz(c, ""))
InjRaiseFrom == "from" \in Leaves /\ CanInj /\ \E h \in Live : \E f \in {"B", "None"} : Fill(h, Rz("A", f))
InjReraise   == "reraise" \in Leaves /\ CanInj /\ \E h \in Live : Fill(h, Rr)
InjReturn    == "ret" \in Leaves /\ CanInj /\ \E h \in Live : Fill(h, Ret)
InjBreak     == "brk" \in Leaves /\ CanInj /\ \E h \in Live : h.lp /\ Fill(h, Brk)
InjContinue  == "cnt" \in Leaves /\ CanInj /\ \E h \in Live : h.lp /\ Fill(h, Cnt)
InjQuiet     == "quiet" \in Leaves /\ CanInj /\ \E h \in Live : h.hd /\ \E x \in {QPass, QRet} : Fill(h, x)

Next == \/ NestTry \/ NestTryFin \/ NestWith \/ NestLoop \/ NestSeq
        \/ InjRaise \/ InjRaiseFrom \/ InjReraise \/ InjReturn \/ InjBreak \/ InjContinue \/ InjQuiet

Spec == Init /\ [][Next]_vars

---------------------------------------------------------------------------
(* properties of the model *)

\* every exit path of every statement leaves the stack of handled exceptions as it found it
HandledRestored == \A o \in Outers : exp[o].restored /\ exp[o].ld = 0 /\ exp[o].after = (IF o THEN "Z[-,-,F]" ELSE "-")

\* every try statement that was entered ran its finally block exactly once
FinallyOnce == \A o \in Outers : exp[o].fins = exp[o].tries

\* break / continue never leave the function; the function ends in exactly one way
OutcomeWellFormed == \A o \in Outers :
                     /\ exp[o].out \in {"norm", "ret", "raise"}
                     /\ (exp[o].out = "raise") = (exp[o].exc # "-")
                     /\ (exp[o].out = "norm") = (exp[o].log # <<>> /\ exp[o].log[Len(exp[o].log)][1] = 5)

\* __context__ always points to an OLDER object, __cause__ to the object created right after:
\* chains are acyclic and finite
ChainsWellFormed == \A o \in Outers : exp[o].acyclic /\ exp[o].ctxok

\* RuntimeError ("No active exception to re-raise") can only appear when nothing is handled on entry
NoSpuriousRuntimeError == \A o \in Outers : o => exp[o].rcls # "RuntimeError"

\* a program without a bare raise cannot tell whether its caller is handling an exception,
\* except through sys.exc_info() and the end of the __context__ chains
RECURSIVE HasReraise(_)
HasReraise(s) == s.t = "reraise" \/ \E i \in 1..Len(Kids(s)) : HasReraise(Kids(s)[i])
CallerTransparent == (Outers = BOOLEAN /\ ~HasReraise(prog)) =>
                        /\ exp[TRUE].out = exp[FALSE].out /\ exp[TRUE].val = exp[FALSE].val
                        /\ Len(exp[TRUE].log) = Len(exp[FALSE].log)
                        /\ \A k \in 1..Len(exp[TRUE].log) : /\ exp[TRUE].log[k][1] = exp[FALSE].log[k][1]
                                                             /\ exp[TRUE].log[k][2] = exp[FALSE].log[k][2]

Publish == Dump => PrintT("@@" \o ToJson([prog |-> prog, nodes |-> NNodes(prog), inj |-> NInj(prog),
                                           runs |-> {[outer |-> o, log |-> exp[o].log, out |-> exp[o].out, val |-> exp[o].val,
                                                      exc |-> exp[o].exc, after |-> exp[o].after, nexc |-> exp[o].nexc,
                                                      again |-> exp[o].again, retover |-> exp[o].retover] : o \in Outers}]))
=============================================================================
