SPECIFICATION Spec
CONSTANTS
  Types <- TScaled6
  Steps <- StepsStd
  GridOnly = FALSE
  Dump = TRUE
INVARIANT RefSound
INVARIANT BodySound
INVARIANT ImplFollowsRef
INVARIANT ImplAgreesOffHazards
INVARIANT HazardShape
INVARIANT Publish
