SPECIFICATION Spec
CONSTANTS
  MaxLen = 5
  UseCore = FALSE
  Dump = FALSE
INVARIANT ImplAgreesOffHazards
INVARIANT DfaWellFormed
INVARIANT PublishLex
INVARIANT PublishCase
CHECK_DEADLOCK FALSE
