SPECIFICATION Spec
CONSTANTS
  MaxNodes = 2
  MaxDepth = 3
  OvMode = "small"
  SrcMode = "some"
  MaxStack = 3
  StackNodes = 2
  Shape = "chain"
  Dump = TRUE
INVARIANT WellFormed
INVARIANT Unambiguous
INVARIANT DictAgrees
INVARIANT OwnAgrees
INVARIANT Precedence
INVARIANT NoLeak
INVARIANT Applies
INVARIANT SourceOrder
INVARIANT Publish
CHECK_DEADLOCK FALSE
