INIT InitGen
NEXT NextGen
CONSTANTS
  NV = 1
  MaxStmts = 5
  MaxDepth = 2
  MaxComp = 2
  Kinds = {"asg", "del", "read", "mr", "brk", "try", "while", "if"}
  HSh <- HShOne
  AsVars = FALSE
  MaxWord = 6
  Dump = TRUE
INVARIANT GenWellFormed
INVARIANT GenBounded
INVARIANT PublishGen
CHECK_DEADLOCK FALSE
