SPECIFICATION Spec
CONSTANTS
  Part = "strin"
  MaxArms = 1
INVARIANT StrinOK
INVARIANT Publish
CHECK_DEADLOCK FALSE
