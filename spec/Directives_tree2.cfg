SPECIFICATION Spec
CONSTANTS
  MaxNodes = 2
  MaxDepth = 3
  OvMode = "all"
  SrcMode = "few"
  Dump = TRUE
INVARIANT WellFormed
INVARIANT Unambiguous
INVARIANT DictAgrees
INVARIANT NoLeak
INVARIANT Applies
INVARIANT SourceOrder
INVARIANT Publish
CHECK_DEADLOCK FALSE
