SPECIFICATION Spec
CONSTANTS
  MaxNodes = 2
  MaxDepth = 3
  OvMode = "all"
  SrcMode = "few"
  MaxStack = 0
  StackNodes = 0
  Shape = "any"
  Dump = TRUE
INVARIANT WellFormed
INVARIANT Unambiguous
INVARIANT DictAgrees
INVARIANT OwnAgrees
INVARIANT Precedence
INVARIANT NoLeak
INVARIANT Applies
INVARIANT SourceOrder
INVARIANT Publish
CHECK_DEADLOCK FALSE
