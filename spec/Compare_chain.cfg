SPECIFICATION Spec
CONSTANTS
  Part = "chain"
  MaxArms = 1
INVARIANT LogInOrder
INVARIANT ChainOK
INVARIANT ChainDuals
INVARIANT Publish
CHECK_DEADLOCK FALSE
