SPECIFICATION Spec
CONSTANTS
  Part = "bool"
  BoolSize = "q"
  AndMerge = "fixed"
  MaxArms = 1
INVARIANT BoolStrict
CHECK_DEADLOCK FALSE
