INIT InitGen
NEXT NextGen
CONSTANTS
  NV = 1
  MaxStmts = 4
  MaxDepth = 1
  MaxComp = 1
  Kinds = {"asg", "del", "read", "mr", "raise", "ret", "brk", "cnt", "if", "while", "for"}
  HSh <- HShFin
  AsVars = FALSE
  Pre <- PreNone
  MaxWord = 6
  Dump = TRUE
INVARIANT GenWellFormed
INVARIANT GenBounded
INVARIANT PublishGen
CHECK_DEADLOCK FALSE
