------------------------------- MODULE Strip -------------------------------
(* C47: stripping string literals and comments from source text             *)
(* (Cython/Build/Dependencies.py: strip_string_literals).                   *)
(*                                                                          *)
(* A text is a sequence of characters (1-character strings; ' " \ newline   *)
(* travel under the names SQ DQ BS NL).  Three descriptions of it:          *)
(*  decl : the token shapes it was built from carry their own partition     *)
(*         (declarative, per shape, independent of context);                *)
(*  Ref  : Python's lexical structure as a scanner with a mode stack        *)
(*         (code / string body / replacement field / format spec), giving   *)
(*         the class of every character:                                    *)
(*           C code   P prefix, quotes, '#' (kept by documented behaviour)  *)
(*           L literal body   M comment body      -- must be stripped       *)
(*           E inside an f-string replacement field (expression, nested     *)
(*             delimiters)   S format-spec text    -- no demand             *)
(*  Impl : transcription of strip_string_literals (the three regex token    *)
(*         finders, parse_string / parse_code) giving K (kept) or X         *)
(*         (replaced by a label) for every character.                       *)
(* TLC enumerates token sequences as states and checks: the scanner agrees  *)
(* with the declared partitions in every context (Compositional), every     *)
(* text is lexically complete (AllValid), the transcribed algorithm tiles   *)
(* the text (ImplLossless) and meets the demands on every text (ImplOK).    *)
(* Every state is published (text, Ref partition, Impl prediction) for the  *)
(* binding to the real code.                                                *)
EXTENDS Naturals, Sequences, FiniteSets, TLC, Json

CONSTANTS MaxToks,   \* tokens per text
          Level,     \* first token: shapes with lvl <= Level (1 mini, 2 core, 3 all)
          LevelNext, \* later tokens: shapes with lvl <= LevelNext
          Glue,      \* TRUE: adjacent string tokens without separator are generated too
          Dump

SQ == "SQ"  DQ == "DQ"  BS == "BS"  NL == "NL"  SP == " "

Letters == {"a","b","c","d","e","f","h","i","k","l","m","n","o","p","q","r","t","u","w","x","y","z",
            "B","E","F","H","L","M","N","R","U"}
Digits == {"0","1","2","4"}
IdChars == Letters \cup Digits \cup {"_"}

---------------------------------------------------------------------------
(* token shapes with their declared partition *)
Seg(cl, chars) == [i \in 1..Len(chars) |-> [ch |-> chars[i], cl |-> cl]]
C_(s) == Seg("C", s)  P_(s) == Seg("P", s)  L_(s) == Seg("L", s)
M_(s) == Seg("M", s)  E_(s) == Seg("E", s)  S_(s) == Seg("S", s)
SQ3 == <<SQ, SQ, SQ>>  DQ3 == <<DQ, DQ, DQ>>
Cimport == <<"c","i","m","p","o","r","t">>
Include == <<"i","n","c","l","u","d","e">>
FX == <<"{","x","}">>

Sh(nm, ct, lv, segs) == [name |-> nm, cat |-> ct, lvl |-> lv, cs |-> segs]

Shapes == <<
  \* ---- plain strings
  Sh("sq", "plain", 1, P_(<<SQ>>) \o L_(<<"a","b">>) \o P_(<<SQ>>)),
  Sh("dq", "plain", 2, P_(<<DQ>>) \o L_(<<"a">>) \o P_(<<DQ>>)),
  Sh("sq0", "plain", 2, P_(<<SQ,SQ>>)),
  Sh("dq0", "plain", 3, P_(<<DQ,DQ>>)),
  Sh("sq_dq", "plain", 1, P_(<<SQ>>) \o L_(<<DQ>>) \o P_(<<SQ>>)),
  Sh("dq_sq", "plain", 2, P_(<<DQ>>) \o L_(<<SQ>>) \o P_(<<DQ>>)),
  Sh("sq_esc", "plain", 1, P_(<<SQ>>) \o L_(<<"a",BS,SQ,"b">>) \o P_(<<SQ>>)),
  Sh("dq_bs2", "plain", 2, P_(<<DQ>>) \o L_(<<"a",BS,BS>>) \o P_(<<DQ>>)),
  Sh("sq_bs3", "plain", 3, P_(<<SQ>>) \o L_(<<BS,BS,BS,SQ,"b">>) \o P_(<<SQ>>)),
  Sh("dq_hash", "plain", 2, P_(<<DQ>>) \o L_(<<"a","#","b">>) \o P_(<<DQ>>)),
  Sh("sq_lbrace", "plain", 2, P_(<<SQ>>) \o L_(<<"{">>) \o P_(<<SQ>>)),
  Sh("dq_rbrace", "plain", 3, P_(<<DQ>>) \o L_(<<"}">>) \o P_(<<DQ>>)),
  Sh("tsq", "plain", 1, P_(SQ3) \o L_(<<"a",SQ,"b">>) \o P_(SQ3)),
  Sh("tdq_q2", "plain", 2, P_(DQ3) \o L_(<<"a",DQ,DQ,"b">>) \o P_(DQ3)),
  Sh("tsq_nl", "plain", 2, P_(SQ3) \o L_(<<"a",NL,"b",DQ>>) \o P_(SQ3)),
  Sh("tdq_escq", "plain", 2, P_(DQ3) \o L_(<<"a",BS,DQ>>) \o P_(DQ3)),
  Sh("tsq0", "plain", 3, P_(SQ3 \o SQ3)),
  Sh("tdq_mix", "plain", 3, P_(DQ3) \o L_(<<"#",SP,SQ,SP,"{">>) \o P_(DQ3)),
  Sh("sq_cont", "plain", 2, P_(<<SQ>>) \o L_(<<"a",BS,NL,"b">>) \o P_(<<SQ>>)),
  Sh("tdq_dep", "plain", 1, P_(DQ3) \o L_(<<NL>> \o Cimport \o <<SP,"q",NL>>) \o P_(DQ3)),
  Sh("tsq_inc", "plain", 3, P_(SQ3) \o L_(<<NL>> \o Include \o <<SP,DQ,"z",DQ,NL>>) \o P_(SQ3)),
  Sh("tsq_q2sp", "plain", 3, P_(SQ3) \o L_(<<"a",SQ,SQ,SP>>) \o P_(SQ3)),
  Sh("tsq_q1first", "plain", 2, P_(SQ3) \o L_(<<SQ,"a">>) \o P_(SQ3)),
  Sh("tdq_q2first", "plain", 3, P_(DQ3) \o L_(<<DQ,DQ,"a">>) \o P_(DQ3)),
  Sh("r_sq", "plain", 2, P_(<<"r",SQ>>) \o L_(<<"a",BS,SQ,"b">>) \o P_(<<SQ>>)),
  Sh("b_dq", "plain", 3, P_(<<"b",DQ>>) \o L_(<<"a">>) \o P_(<<DQ>>)),
  Sh("U_sq", "plain", 3, P_(<<"U",SQ>>) \o L_(<<"a">>) \o P_(<<SQ>>)),
  Sh("Rb_tdq", "plain", 2, P_(<<"R","b">> \o DQ3) \o L_(<<"a",BS,BS>>) \o P_(DQ3)),
  Sh("bR_sq", "plain", 3, P_(<<"b","R",SQ>>) \o L_(FX) \o P_(<<SQ>>)),
  \* ---- f-strings
  Sh("f_dq", "fstr", 1, P_(<<"f",DQ>>) \o L_(<<"a">>) \o E_(FX) \o L_(<<"b">>) \o P_(<<DQ>>)),
  Sh("f_sq", "fstr", 2, P_(<<"f",SQ>>) \o E_(FX) \o P_(<<SQ>>)),
  Sh("f_esc", "fstr", 2, P_(<<"f",DQ>>) \o L_(<<"{","{","a","}","}">>) \o P_(<<DQ>>)),
  Sh("f_esc3", "fstr", 2, P_(<<"f",DQ>>) \o L_(<<"{","{">>) \o E_(FX) \o L_(<<"}","}">>) \o P_(<<DQ>>)),
  Sh("f_conv_spec", "fstr", 1, P_(<<"f",DQ>>) \o E_(<<"{","x","!","r",":">>) \o S_(<<">">>) \o E_(<<"{","w","}","}">>)
                                    \o L_(<<"c">>) \o P_(<<DQ>>)),
  Sh("f_eq", "fstr", 3, P_(<<"f",SQ>>) \o E_(<<"{","x","=","}">>) \o P_(<<SQ>>)),
  Sh("f_nest_other", "fstr", 1, P_(<<"f",DQ>>) \o E_(<<"{","d","[",SQ>>) \o L_(<<"k">>) \o E_(<<SQ,"]","}">>) \o P_(<<DQ>>)),
  Sh("f_nest_brace", "fstr", 2, P_(<<"f",SQ>>) \o E_(<<"{","d","[",DQ>>) \o L_(<<"}">>) \o E_(<<DQ,"]","}">>) \o P_(<<SQ>>)),
  Sh("f_dict", "fstr", 2, P_(<<"f",DQ>>) \o E_(<<"{",SP,"{","1",":","2","}","[","1","]",SP,"}">>) \o P_(<<DQ>>)),
  Sh("f_dict_same_str", "fstr", 2, P_(<<"f",DQ>>) \o E_(<<"{",SP,"{","1",":","2","}","[",DQ>>) \o L_(<<"a">>) \o E_(<<DQ,"]","}">>) \o P_(<<DQ>>)),
  Sh("f_tri", "fstr", 2, P_(<<"f">> \o SQ3) \o L_(<<"a",SQ>>) \o E_(FX) \o L_(<<DQ,NL>>) \o P_(SQ3)),
  Sh("f_nest_f", "fstr", 2, P_(<<"f",DQ>>) \o E_(<<"{","f",SQ>>) \o L_(<<"a">>) \o E_(FX) \o E_(<<SQ,"}">>) \o P_(<<DQ>>)),
  Sh("f_nest_same", "fstr", 2, P_(<<"f",SQ>>) \o E_(<<"{","f",SQ>>) \o L_(<<"a">>) \o E_(FX) \o E_(<<SQ,"}">>) \o P_(<<SQ>>)),
  Sh("rf_sq", "fstr", 2, P_(<<"r","f",SQ>>) \o L_(<<"a">>) \o E_(FX) \o P_(<<SQ>>)),
  Sh("f_spec_colon", "fstr", 3, P_(<<"f",DQ>>) \o E_(<<"{","x",":">>) \o S_(<<"%","H",":","%","M">>) \o E_(<<"}">>) \o P_(<<DQ>>)),
  Sh("f_comment", "fstr", 2, P_(<<"f",DQ>>) \o E_(<<"{","x",SP,"#">>) \o M_(<<"c",SQ>>) \o E_(<<NL,"}">>) \o P_(<<DQ>>)),
  Sh("f_same_str", "fstr", 2, P_(<<"f",DQ>>) \o E_(<<"{","a","[",DQ>>) \o L_(<<"b">>) \o E_(<<DQ,"]","}">>) \o P_(<<DQ>>)),
  Sh("f_neq", "fstr", 3, P_(<<"f",DQ>>) \o E_(<<"{","x","!","=","1","}">>) \o P_(<<DQ>>)),
  Sh("f_hash_str", "fstr", 3, P_(<<"f",DQ>>) \o E_(<<"{",SQ>>) \o L_(<<"#">>) \o E_(<<SQ,"}">>) \o P_(<<DQ>>)),
  Sh("F_dq", "fstr", 2, P_(<<"F",DQ>>) \o L_(<<"a">>) \o E_(FX) \o P_(<<DQ>>)),
  Sh("fr_sq", "fstr", 3, P_(<<"f","r",SQ>>) \o L_(<<"a">>) \o E_(FX) \o P_(<<SQ>>)),
  Sh("F_nest_other", "fstr", 3, P_(<<"F",SQ>>) \o E_(<<"{","d","[",DQ>>) \o L_(<<"k">>) \o E_(<<DQ,"]","}">>) \o P_(<<SQ>>)),
  Sh("f_dep", "fstr", 2, P_(<<"f">> \o DQ3) \o L_(<<NL>> \o Cimport \o <<SP,"q",NL>>) \o E_(FX) \o P_(DQ3)),
  \* ---- format specs with '#' / quotes, every f-string prefix, names ending in f before a quote, \N{..}
  Sh("f_spec_hash", "fstr", 1, P_(<<"f",DQ>>) \o E_(<<"{","x",":">>) \o S_(<<"#","x">>) \o E_(<<"}">>) \o P_(<<DQ>>)),
  Sh("f_spec_hash_tri", "fstr", 2, P_(<<"f">> \o SQ3) \o E_(<<"{","x",":">>) \o S_(<<"#","x">>) \o E_(<<"}">>)
                                    \o L_(<<NL>>) \o P_(SQ3)),
  Sh("f_spec_quote", "fstr", 2, P_(<<"f",DQ>>) \o E_(<<"{","x",":">>) \o S_(<<SQ,">","4">>) \o E_(<<"}">>) \o P_(<<DQ>>)),
  Sh("f_spec_field_hash", "fstr", 3, P_(<<"f",DQ>>) \o E_(<<"{","x",":","{","w","}">>) \o S_(<<"#">>) \o E_(<<"}">>) \o P_(<<DQ>>)),
  Sh("fr_same", "fstr", 2, P_(<<"f","r",SQ>>) \o E_(<<"{",SQ>>) \o L_(<<"a">>) \o E_(<<SQ,"}">>) \o P_(<<SQ>>)),
  Sh("F_same", "fstr", 3, P_(<<"F",DQ>>) \o E_(<<"{","d","[",DQ>>) \o L_(<<"k">>) \o E_(<<DQ,"]","}">>) \o P_(<<DQ>>)),
  Sh("Rf_same", "fstr", 3, P_(<<"R","f",SQ>>) \o L_(<<"a">>) \o E_(<<"{",SQ>>) \o L_(<<"b">>) \o E_(<<SQ,"}">>) \o P_(<<SQ>>)),
  Sh("fR_same", "fstr", 3, P_(<<"f","R",DQ>>) \o E_(<<"{",DQ>>) \o L_(<<"a">>) \o E_(<<DQ,"}">>) \o P_(<<DQ>>)),
  Sh("kw_f", "code", 2, C_(<<"x",SP,"i","f">>) \o P_(<<DQ>>) \o L_(<<"{">>) \o P_(<<DQ>>) \o C_(<<SP,"e","l","s","e",SP,"y">>)),
  Sh("f_named_escape", "fstr", 2, P_(<<"f",DQ>>) \o L_(<<BS,"N","{","B","E","L","}">>) \o E_(FX) \o P_(<<DQ>>)),
  Sh("rf_bs_N", "fstr", 3, P_(<<"r","f",DQ>>) \o L_(<<BS,"N">>) \o E_(<<"{",SQ>>) \o L_(<<"a">>) \o E_(<<SQ,"}">>) \o P_(<<DQ>>)),
  Sh("f_bs2_N", "fstr", 3, P_(<<"f",SQ>>) \o L_(<<BS,BS,"N">>) \o E_(<<"{",DQ>>) \o L_(<<"a">>) \o E_(<<DQ,"}">>) \o P_(<<SQ>>)),
  Sh("f_slice_str", "fstr", 3, P_(<<"f",DQ>>) \o E_(<<"{","a","[","1",":",SQ>>) \o L_(<<"k">>) \o E_(<<SQ,"]","}">>) \o P_(<<DQ>>)),
  \* ---- comments (run to the end of the line)
  Sh("cm_q", "comment", 1, P_(<<"#">>) \o M_(<<SP,"c",SQ,"q",DQ>>)),
  Sh("cm_0", "comment", 2, P_(<<"#">>)),
  Sh("cm_dep", "comment", 2, P_(<<"#">>) \o M_(<<SP>> \o Cimport \o <<SP,"q">>)),
  Sh("cm_code", "comment", 2, C_(<<"x",SP,"=",SP,"1",SP>>) \o P_(<<"#">>) \o M_(<<SP,"{",SQ>>)),
  Sh("cm_fq", "comment", 3, P_(<<"#">>) \o M_(<<"f",DQ,"{">>)),
  \* ---- code
  Sh("code_cimport", "code", 1, C_(Cimport \o <<SP,"k">>)),
  Sh("code_assign", "code", 2, C_(<<"x",SP,"=",SP,"1">>)),
  Sh("code_dict", "code", 2, C_(<<"d",SP,"=",SP,"{","1",":",SP,"2","}">>)),
  Sh("code_include", "code", 2, C_(Include \o <<SP>>) \o P_(<<DQ>>) \o L_(<<"y",".","p","x","i">>) \o P_(<<DQ>>)),
  Sh("code_cont", "code", 3, C_(<<"x",SP,"=",SP,"y",SP,BS,NL,SP,"+",SP,"z">>)),
  Sh("code_from", "code", 3, C_(<<"f","r","o","m",SP,"m",SP>> \o Cimport \o <<SP,"n">>)),
  Sh("code_extern", "code", 3, C_(<<"c","d","e","f",SP,"e","x","t","e","r","n",SP,"f","r","o","m",SP>>) \o P_(<<SQ>>)
                                    \o L_(<<"h",".","h">>) \o P_(<<SQ>>) \o C_(<<":">>))
>>

IdxL(lv) == {k \in 1..Len(Shapes) : Shapes[k].lvl <= lv}
IdxFirst == IdxL(Level)
IdxNext == IdxL(LevelNext)
Chars(cs) == [i \in 1..Len(cs) |-> cs[i].ch]
Classes(cs) == [i \in 1..Len(cs) |-> cs[i].cl]

---------------------------------------------------------------------------
(* reference scanner: Python's lexical structure as far as literals,        *)
(* comments and f-string replacement fields go                              *)
At(T, i) == IF i >= 1 /\ i <= Len(T) THEN T[i] ELSE "EOF"
IsQ(ch) == ch \in {SQ, DQ}
IsId(ch) == ch \in IdChars
Fill(x, k) == [j \in 1..k |-> x]

RECURSIVE IdEnd(_, _)       \* first index >= i that does not continue an identifier
IdEnd(T, i) == IF IsId(At(T, i)) THEN IdEnd(T, i + 1) ELSE i
RECURSIVE LineEnd(_, _)     \* index of the next newline at or after i, or Len(T)+1
LineEnd(T, i) == IF i > Len(T) \/ T[i] = NL THEN i ELSE LineEnd(T, i + 1)
RECURSIVE NextOf(_, _, _)   \* index of the next ch at or after i, or Len(T)+1
NextOf(T, i, ch) == IF i > Len(T) \/ T[i] = ch THEN i ELSE NextOf(T, i + 1, ch)

Lower(ch) == CASE ch = "R" -> "r" [] ch = "B" -> "b" [] ch = "U" -> "u" [] ch = "F" -> "f" [] OTHER -> ch
LowerSeq(T, i, j) == [k \in 1..(j - i) |-> Lower(T[i + k - 1])]
Prefixes == {<<"r">>, <<"u">>, <<"b">>, <<"f">>, <<"b","r">>, <<"r","b">>, <<"f","r">>, <<"r","f">>}
Has(s, x) == \E k \in 1..Len(s) : s[k] = x

StrF(q, tri, f, raw) == [m |-> "str", q |-> q, tri |-> tri, f |-> f, raw |-> raw, depth |-> 0, spec |-> FALSE]
FieldF == [m |-> "field", q |-> "", tri |-> FALSE, f |-> FALSE, raw |-> FALSE, depth |-> 0, spec |-> FALSE]
Top(stk) == stk[Len(stk)]
Pop(stk) == SubSeq(stk, 1, Len(stk) - 1)
SetTop(stk, fr) == [stk EXCEPT ![Len(stk)] = fr]
Nested(stk) == \E k \in 1..Len(stk) : stk[k].m = "field"

\* consume k characters of class cl under rule r
Emit(st, k, cl, r) == [st EXCEPT !.i = @ + k, !.out = @ \o Fill(cl, k), !.rules = @ \cup {r}]
KC(st) == IF Nested(st.stk) THEN "E" ELSE "C"
KP(st) == IF Nested(st.stk) THEN "E" ELSE "P"

Open(T, st, pl) ==          \* a string literal starts: pl prefix letters, then one or three quotes
  LET q == T[st.i + pl]
      tri == At(T, st.i + pl + 1) = q /\ At(T, st.i + pl + 2) = q
      pre == LowerSeq(T, st.i, st.i + pl)
      e == Emit(st, pl + (IF tri THEN 3 ELSE 1), KP(st), IF tri THEN "open3" ELSE "open1")
  IN [e EXCEPT !.stk = Append(st.stk, StrF(q, tri, Has(pre, "f"), Has(pre, "r"))),
               !.rules = @ \cup (IF pl > 0 THEN {"prefix"} ELSE {}) \cup (IF Has(pre, "f") THEN {"fstring"} ELSE {})]

FieldChar(T, st, ch) ==     \* inside a replacement field, not a name, quote or '#'
  LET fr == Top(st.stk) IN
  IF ch \in {"(", "[", "{"} THEN [Emit(st, 1, "E", "bracket") EXCEPT !.stk = SetTop(st.stk, [fr EXCEPT !.depth = @ + 1])]
  ELSE IF ch \in {")", "]"} \/ (ch = "}" /\ fr.depth > 0)
       THEN [Emit(st, 1, "E", "bracket") EXCEPT !.stk = SetTop(st.stk, [fr EXCEPT !.depth = IF @ > 0 THEN @ - 1 ELSE 0])]
  ELSE IF ch = "}" THEN [Emit(st, 1, "E", "field-close") EXCEPT !.stk = Pop(st.stk)]
  ELSE IF ch = ":" /\ fr.depth = 0 THEN [Emit(st, 1, "E", "spec-start") EXCEPT !.stk = SetTop(st.stk, [fr EXCEPT !.spec = TRUE])]
  ELSE IF ch = "!" /\ fr.depth = 0 /\ At(T, st.i + 1) = "=" THEN Emit(st, 2, "E", "neq")
  ELSE Emit(st, 1, "E", "field-char")

StepCode(T, st) ==          \* top level, or expression part of a replacement field
  LET ch == T[st.i] IN
  IF ch = "#" THEN LET e == LineEnd(T, st.i + 1) IN
       Emit(Emit(st, 1, KP(st), "comment"), e - st.i - 1, "M", "comment")
  ELSE IF IsQ(ch) THEN Open(T, st, 0)
  ELSE IF IsId(ch) THEN
       LET j == IdEnd(T, st.i) IN
       IF IsQ(At(T, j)) /\ LowerSeq(T, st.i, j) \in Prefixes THEN Open(T, st, j - st.i)
       ELSE Emit(st, j - st.i, KC(st), "name")
  ELSE IF st.stk # <<>> THEN FieldChar(T, st, ch)
  ELSE Emit(st, 1, "C", IF ch = NL THEN "newline" ELSE "code-char")

StrSpecial == {BS, SQ, DQ, NL, "{", "}", "#"}
StepStr(T, st) ==           \* body of a string literal
  LET fr == Top(st.stk)  ch == T[st.i]  n1 == At(T, st.i + 1)  n2 == At(T, st.i + 2) IN
  IF ch \notin StrSpecial THEN Emit(st, 1, "L", "body-char")
  ELSE IF ch = BS THEN
       IF fr.f /\ ~fr.raw /\ n1 = "N" /\ n2 = "{" THEN Emit(st, NextOf(T, st.i + 3, "}") - st.i + 1, "L", "named-escape")
       ELSE IF n1 = "EOF" \/ (fr.f /\ n1 \in {"{", "}"}) THEN Emit(st, 1, "L", "backslash")
       ELSE Emit(st, 2, "L", IF IsQ(n1) THEN "escaped-quote" ELSE IF n1 = NL THEN "backslash-newline" ELSE "backslash")
  ELSE IF ch = fr.q /\ fr.tri /\ n1 = fr.q /\ n2 = fr.q THEN [Emit(st, 3, KP(st), "close3") EXCEPT !.stk = Pop(st.stk)]
  ELSE IF ch = fr.q /\ ~fr.tri THEN [Emit(st, 1, KP(st), "close1") EXCEPT !.stk = Pop(st.stk)]
  ELSE IF ch = fr.q THEN Emit(st, 1, "L", "quote-in-triple")
  ELSE IF ch = NL /\ ~fr.tri THEN [st EXCEPT !.ok = FALSE]
  ELSE IF fr.f /\ ch = "{" THEN
       IF n1 = "{" THEN Emit(st, 2, "L", "doubled-brace")
       ELSE [Emit(st, 1, "E", "field-open") EXCEPT !.stk = Append(st.stk, FieldF)]
  ELSE IF fr.f /\ ch = "}" THEN
       IF n1 = "}" THEN Emit(st, 2, "L", "doubled-brace") ELSE [st EXCEPT !.ok = FALSE]
  ELSE Emit(st, 1, "L", IF IsQ(ch) THEN "other-quote" ELSE IF ch = "#" THEN "hash-in-string" ELSE "body-char")

StepSpec(T, st) ==          \* format spec of a replacement field
  LET ch == T[st.i]  enc == st.stk[Len(st.stk) - 1] IN
  IF ch = "{" THEN [Emit(st, 1, "E", "spec-field") EXCEPT !.stk = Append(st.stk, FieldF)]
  ELSE IF ch = "}" THEN [Emit(st, 1, "E", "field-close") EXCEPT !.stk = Pop(st.stk)]
  ELSE IF (ch = enc.q \/ ch = NL) /\ ~enc.tri THEN [st EXCEPT !.ok = FALSE]
  ELSE Emit(st, 1, "S", "spec-char")

Step(T, st) ==
  IF st.stk = <<>> THEN StepCode(T, st)
  ELSE IF Top(st.stk).m = "str" THEN StepStr(T, st)
  ELSE IF Top(st.stk).spec THEN StepSpec(T, st)
  ELSE StepCode(T, st)

RECURSIVE Run(_, _)
Run(T, st) == IF st.i > Len(T) \/ ~st.ok THEN st ELSE Run(T, Step(T, st))
Ref(T) == Run(T, [i |-> 1, stk |-> <<>>, out |-> <<>>, ok |-> TRUE, rules |-> {}])

---------------------------------------------------------------------------
(* implementation-shaped: strip_string_literals.  Positions are 1-based,    *)
(* `e` is exclusive; charpos -1 of the code is pos 0 here.  The output is   *)
(* built from Keep(a, b) (new_code.append(code[a:b])) and Lab(a, b)         *)
(* (append_new_label(code[a:b])); `ok` records that every piece continues   *)
(* exactly where the previous one ended.                                    *)
RECURSIVE RunLen(_, _, _)
RunLen(T, i, ch) == IF At(T, i) = ch THEN 1 + RunLen(T, i + 1, ch) ELSE 0

NoTok == [k |-> "none", s |-> 0, qs |-> 0, e |-> 0, f |-> FALSE, raw |-> FALSE, ch |-> "", nbs |-> 0, nc |-> 0]
WordChars == {"a","b","c","d","e","f","g","h","i","j","k","l","m","n","o","p","q","r","s","t","u","v","w","x","y","z",
              "A","B","C","D","E","F","G","H","I","J","K","L","M","N","O","P","Q","R","S","T","U","V","W","X","Y","Z",
              "0","1","2","3","4","5","6","7","8","9","_"}                       \* \w
IsR(ch) == ch \in {"r", "R"}
IsF(ch) == ch \in {"f", "F"}
FPre(T, p, l) ==            \* [rR]?[fF][rR]?  matches T[p .. p+l-1]
  CASE l = 1 -> IsF(At(T, p))
    [] l = 2 -> (IsR(At(T, p)) /\ IsF(At(T, p + 1))) \/ (IsF(At(T, p)) /\ IsR(At(T, p + 1)))
    [] l = 3 -> IsR(At(T, p)) /\ IsF(At(T, p + 1)) /\ IsR(At(T, p + 2))
QuoteTok(T, p) ==           \* (?: (?<!\w) (?P<fstring> [rR]?[fF][rR]? ) )? (?P<quote> '+ | "+ )  matched at p, or NoTok
  LET ls == {l \in 1..3 : FPre(T, p, l) /\ IsQ(At(T, p + l))} IN     \* at most one: the quote ends the letters
  IF ls # {} /\ At(T, p - 1) \notin WordChars
  THEN LET l == CHOOSE x \in ls : TRUE IN
       [NoTok EXCEPT !.k = "quote", !.s = p, !.qs = p + l, !.e = p + l + RunLen(T, p + l, T[p + l]), !.f = TRUE,
                     !.raw = (\E j \in p..(p + l - 1) : IsR(T[j])), !.ch = T[p + l]]
  ELSE IF IsQ(T[p]) THEN [NoTok EXCEPT !.k = "quote", !.s = p, !.qs = p, !.e = p + RunLen(T, p, T[p]), !.ch = T[p]]
  ELSE NoTok

CodeSpecial == {"#", "{", "}", "(", ")", "[", "]", ":", "r", "R", "f", "F", SQ, DQ}
RECURSIVE FindCode(_, _, _) \* _FIND_TOKEN.search(code, p);  field: _FIND_FSTRING_FIELD_TOKEN
FindCode(T, field, p) ==
  IF p > Len(T) THEN NoTok
  ELSE IF T[p] \notin CodeSpecial THEN FindCode(T, field, p + 1)
  ELSE IF T[p] = "#" THEN [NoTok EXCEPT !.k = "comment", !.s = p, !.e = p + 1, !.ch = "#"]
  ELSE IF T[p] \in {"{", "}"} THEN [NoTok EXCEPT !.k = "brace", !.s = p, !.e = p + 1, !.ch = T[p]]
  ELSE IF field /\ T[p] \in {"(", ")", "[", "]", ":"} THEN [NoTok EXCEPT !.k = "bracket", !.s = p, !.e = p + 1, !.ch = T[p]]
  ELSE LET qt == QuoteTok(T, p) IN IF qt.k = "quote" THEN qt ELSE FindCode(T, field, p + 1)

StringSpecial == {"{", "}", BS, "r", "R", "f", "F", SQ, DQ}
RECURSIVE FindStr(_, _, _)  \* _FIND_FSTRING_TOKEN / _FIND_STRING_TOKEN .search(code, p)
FindStr(T, isf, p) ==
  IF p > Len(T) THEN NoTok
  ELSE IF T[p] \notin StringSpecial THEN FindStr(T, isf, p + 1)
  ELSE IF isf /\ T[p] \in {"{", "}"} THEN [NoTok EXCEPT !.k = "braces", !.s = p, !.e = p + RunLen(T, p, T[p]), !.ch = T[p]]
  ELSE IF T[p] = BS THEN
       LET r == RunLen(T, p, BS)  n == p + r  cl == NextOf(T, n + 2, "}") IN
       IF IsQ(At(T, n)) THEN [NoTok EXCEPT !.k = "escape", !.s = p, !.e = n + 1, !.nbs = r, !.ch = T[n]]
       ELSE IF isf /\ At(T, n) = "N" /\ At(T, n + 1) = "{" /\ cl <= Len(T)       \* (?P<named_char> N [{] [^}]* [}] )
            THEN [NoTok EXCEPT !.k = "named", !.s = p, !.e = cl + 1, !.nbs = r, !.nc = n]
       ELSE FindStr(T, isf, p + 1)
  ELSE LET qt == QuoteTok(T, p) IN IF qt.k = "quote" THEN qt ELSE FindStr(T, isf, p + 1)

\* output pieces <<tag, a, b>>; nxt = where the next piece has to start for the output to tile the text
Piece(T, o, a, b, tag) == [ps |-> Append(o.ps, <<tag, a, b>>), nxt |-> b,
                           ok |-> o.ok /\ a = o.nxt /\ b >= a /\ b <= Len(T) + 1]
Keep(T, o, a, b) == Piece(T, o, a, b, "K")
Lab(T, o, a, b) == Piece(T, o, a, b, "X")

RECURSIVE PStr(_, _, _, _, _, _, _, _)   \* parse_string: loop state (start, cp); returns [pos, o]
RECURSIVE PCode(_, _, _, _, _, _, _)     \* parse_code:   loop state (start, cp, bracket_depth, in_format_spec)

PStr(T, q, ql, isf, raw, start, cp, o) ==
  LET tok == FindStr(T, isf, cp) IN
  IF tok.k = "none" THEN [pos |-> 0, o |-> Lab(T, o, start, Len(T) + 1)]        \* unclosed literal
  ELSE IF tok.k = "named" THEN
       \* \N{NAME} is literal text unless the string is raw or the backslash is itself escaped:
       \* then N is a plain letter and scanning resumes right after it (at the '{')
       PStr(T, q, ql, isf, raw, start, IF raw \/ tok.nbs % 2 = 0 THEN tok.nc + 1 ELSE tok.e, o)
  ELSE IF tok.k = "escape" THEN
       \* an even run of backslashes before our own quote: look at the quote next
       PStr(T, q, ql, isf, raw, start, IF tok.nbs % 2 = 0 /\ tok.ch = q THEN tok.e - 1 ELSE tok.e, o)
  ELSE IF tok.k = "braces" THEN
       IF (tok.e - tok.s) % 2 = 0 \/ tok.ch = "}" THEN PStr(T, q, ql, isf, raw, start, tok.e, o)
       ELSE LET o1 == IF start < tok.e - 1 THEN Lab(T, o, start, tok.e - 1) ELSE o
                r == PCode(T, tok.e, tok.e, TRUE, 0, FALSE, Keep(T, o1, tok.e - 1, tok.e))
            IN IF r.pos = 0 THEN r ELSE PStr(T, q, ql, isf, raw, r.pos, r.pos, r.o)
  ELSE IF tok.ch = q /\ tok.e - tok.qs >= ql                                     \* token['quote'].startswith(quote_type)
       THEN LET o1 == IF tok.qs > start THEN Lab(T, o, start, tok.qs) ELSE o
            IN [pos |-> tok.qs + ql, o |-> Keep(T, o1, tok.qs, tok.qs + ql)]
  ELSE PStr(T, q, ql, isf, raw, start, tok.e, o)

PCode(T, start, cp, inf, depth, spec, o) ==
  LET tok == FindCode(T, inf, cp) IN
  IF tok.k = "none" THEN [pos |-> 0, o |-> Keep(T, o, start, Len(T) + 1)]
  ELSE IF spec /\ tok.k # "brace" THEN PCode(T, start, tok.e, inf, depth, spec, o)   \* format spec: plain text but for { }
  ELSE IF tok.k = "quote" THEN
       LET n0 == tok.e - tok.qs
           n1 == IF n0 >= 6 THEN n0 % 6 ELSE n0            \* runs of six are empty triple-quoted strings
           ql == IF n1 > 3 THEN 3 ELSE n1
           end == IF n1 > 3 THEN tok.e - (n1 - 3) ELSE tok.e
       IN IF n1 # 0 /\ n1 # 2
          THEN LET r == PStr(T, tok.ch, ql, tok.f, tok.raw, end, end, Keep(T, o, start, end))
               IN IF r.pos = 0 THEN r ELSE PCode(T, r.pos, r.pos, inf, depth, spec, r.o)
          ELSE PCode(T, start, tok.e, inf, depth, spec, o)
  ELSE IF tok.k = "comment" THEN
       LET nl == LineEnd(T, tok.e)
           o2 == Lab(T, Keep(T, o, start, tok.e), tok.e, nl)
       IN IF nl > Len(T) THEN [pos |-> 0, o |-> o2] ELSE PCode(T, nl, nl, inf, depth, spec, o2)
  ELSE IF ~inf THEN PCode(T, start, tok.e, inf, depth, spec, o)                   \* a brace in plain code
  ELSE IF spec /\ tok.ch = "{" THEN                                                \* nested field in a format spec
       LET r == PCode(T, tok.e, tok.e, TRUE, 0, FALSE, Keep(T, o, start, tok.e))
       IN IF r.pos = 0 THEN r ELSE PCode(T, r.pos, r.pos, inf, depth, spec, r.o)
  ELSE IF tok.ch \in {"{", "(", "["} THEN PCode(T, start, tok.e, inf, depth + 1, spec, o)
  ELSE IF depth > 0 THEN PCode(T, start, tok.e, inf, IF tok.ch # ":" THEN depth - 1 ELSE depth, spec, o)
  ELSE IF tok.ch = "}" THEN [pos |-> tok.e, o |-> Keep(T, o, start, tok.e)]      \* end of the replacement field
  ELSE PCode(T, start, tok.e, inf, depth, spec \/ tok.ch = ":", o)                \* ':' starts the format spec; stray ) ]

RECURSIVE Expand(_, _)      \* pieces -> one K/X per character
Expand(ps, k) == IF k > Len(ps) THEN <<>> ELSE Fill(ps[k][1], ps[k][3] - ps[k][2]) \o Expand(ps, k + 1)
Impl(T) == LET o == PCode(T, 1, 1, FALSE, 0, FALSE, [ps |-> <<>>, nxt |-> 1, ok |-> TRUE]).o
           IN [kx |-> IF o.ok THEN Expand(o.ps, 1) ELSE <<>>, ok |-> o.ok /\ o.nxt = Len(T) + 1]

---------------------------------------------------------------------------
VARIABLES names,   \* token and joiner names of the text
          text, decl,
          last,    \* index into Shapes of the last token (0: none), ended: final newline added
          ended,
          ref, impl
vars == <<names, text, decl, last, ended, ref, impl>>

Scanned(T) == /\ ref' = Ref(T)
              /\ impl' = Impl(T)

Init == /\ names = <<>> /\ text = <<>> /\ decl = <<>> /\ last = 0 /\ ended = FALSE
        /\ ref = Ref(<<>>) /\ impl = Impl(<<>>)

\* two string tokens may touch unless that merges their quotes into another token
CanGlue(k) == /\ Glue /\ last # 0
              /\ IsQ(text[Len(text)])
              /\ LET c1 == Shapes[k].cs[1].ch IN
                 /\ (IsQ(c1) \/ (c1 \in {"f", "F", "r", "R", "b", "U"} /\ Shapes[k].cat \in {"plain", "fstr"}))
                 /\ ~(Len(Shapes[last].cs) = 2 /\ c1 = text[Len(text)])   \* '' + 'a' would read '''a'
Joiners(k) == IF last = 0 THEN {"start"}
              ELSE (IF Shapes[last].cat = "comment" THEN {} ELSE {"sp"} \cup (IF CanGlue(k) THEN {"glue"} ELSE {})) \cup {"nl"}
JChars(j) == CASE j = "sp" -> <<SP>> [] j = "nl" -> <<NL>> [] OTHER -> <<>>

Add(k, j) ==
  LET sh == Shapes[k]  jc == JChars(j)  T == text \o jc \o Chars(sh.cs) IN
  /\ ~ended /\ Len(names) < 2 * MaxToks - 1
  /\ names' = (IF last = 0 THEN <<>> ELSE names \o <<j>>) \o <<sh.name>>
  /\ text' = T
  /\ decl' = decl \o Fill("C", Len(jc)) \o Classes(sh.cs)
  /\ last' = k /\ ended' = FALSE
  /\ Scanned(T)

Idx == IF last = 0 THEN IdxFirst ELSE IdxNext
AddPlain   == \E k \in Idx : Shapes[k].cat = "plain"   /\ \E j \in Joiners(k) : Add(k, j)
AddFString == \E k \in Idx : Shapes[k].cat = "fstr"    /\ \E j \in Joiners(k) : Add(k, j)
AddComment == \E k \in Idx : Shapes[k].cat = "comment" /\ \E j \in Joiners(k) : Add(k, j)
AddCode    == \E k \in Idx : Shapes[k].cat = "code"    /\ \E j \in Joiners(k) : Add(k, j)
EndLine == /\ ~ended /\ last # 0
           /\ text' = text \o <<NL>> /\ decl' = decl \o <<"C">> /\ names' = names \o <<"nl">>
           /\ ended' = TRUE /\ UNCHANGED last
           /\ Scanned(text \o <<NL>>)

Next == AddPlain \/ AddFString \/ AddComment \/ AddCode \/ EndLine
Spec == Init /\ [][Next]_vars

---------------------------------------------------------------------------
(* properties *)
N == Len(text)
\* every generated text is lexically complete
AllValid == ref.ok /\ ref.stk = <<>> /\ Len(ref.out) = N
\* the scanner gives every token its declared partition, whatever surrounds it
Compositional == ref.out = decl

MustStrip(i) == ref.out[i] \in {"L", "M"}
MustKeep(i) == ref.out[i] \in {"C", "P"}
Bad(i) == (MustStrip(i) /\ impl.kx[i] # "X") \/ (MustKeep(i) /\ impl.kx[i] # "K")
BadSet == {i \in 1..N : Bad(i)}

\* the transcribed algorithm always tiles the text: substituting back is the identity
ImplLossless == impl.ok /\ Len(impl.kx) = N
\* ... and it replaces every literal / comment body character and keeps every code character, on every text
ImplOK == BadSet = {}

RECURSIVE Cat(_)
Cat(s) == IF s = <<>> THEN "" ELSE s[1] \o Cat(Tail(s))

Publish == Dump => PrintT("@@" \o ToJson([names |-> names, text |-> text, ref |-> Cat(ref.out), impl |-> Cat(impl.kx),
                                            rules |-> ref.rules,
                                            act |-> IF ended THEN "EndLine" ELSE IF last = 0 THEN "Init" ELSE Shapes[last].cat]))
=============================================================================
