SPECIFICATION Spec
CONSTANTS
  Part = "switch"
  MaxArms = 2
INVARIANT SwitchOK
INVARIANT Publish
CHECK_DEADLOCK FALSE
