SPECIFICATION Spec
CONSTANTS
  Level = 2
  Groups = {"str"}
  Dump = TRUE
INVARIANT Functional
INVARIANT WellFormed
INVARIANT Laws
INVARIANT Publish
CHECK_DEADLOCK FALSE
