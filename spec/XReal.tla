------------------------------- MODULE XReal -------------------------------
(* C06 (part 2): + - * / // % comparisons, unary minus, int() and round()   *)
(* on C doubles give CPython's float results: value, sign of zero, NaN-ness *)
(* and exception (ZeroDivisionError, ValueError, OverflowError).            *)
(*                                                                          *)
(* Doubles are "extended dyadic reals": nan, +-inf and s * m * 2^e with     *)
(* s in {1,-1}, m = 0 or odd m < MaxM, e >= -1074, leading bit <= 2^1023.   *)
(* An operation yields the IEEE-754 double result when exact arithmetic on  *)
(* these decides it (overflow to inf, half-even rounding into the subnormal *)
(* range, absorption of a far smaller addend included) and IX ("inexact:    *)
(* not decided by this model") otherwise.  IX poisons what is computed from *)
(* it.  Inexact arithmetic on arbitrary doubles is outside TLA+.            *)
(*                                                                          *)
(* Reference  : CPython 3.12 Objects/floatobject.c.  // and % are given     *)
(*   twice: declaratively (q = floor(a/b) as an integer, r = a - q*b, with  *)
(*   the special-value rules) and as a transcription of float_divmod /      *)
(*   float_floor_div / float_rem (fmod based).  Invariant DivmodAlgSound.   *)
(* Impl-shaped: what Cython emits for C doubles (ExprNodes.DivNode/ModNode, *)
(*   Utility/CMath.c ModFloat): `a // b` = floor(a / b), `a % b` =          *)
(*   r = fmod(a, b); r += ((r != 0) & ((r < 0) ^ (b < 0))) * b, both behind *)
(*   a zero test of b; + - * / and comparisons are the C operators.         *)
(* One state per (op, a, b).  Every cell is published (B1 replay); cells    *)
(* where the transcription leaves the reference carry hazard = TRUE.        *)
EXTENDS Integers, Sequences, TLC, Json, FiniteSets

CONSTANTS GridSel,   \* "q" or "t"
          Ops

MaxM == 16777216        \* 2^24: mantissas of decided values stay below this
Abs(x) == IF x < 0 THEN -x ELSE x
Min(a, b) == IF a < b THEN a ELSE b
RECURSIVE BitLen(_)
BitLen(n) == IF n = 0 THEN 0 ELSE 1 + BitLen(n \div 2)
RECURSIVE TZ(_)
TZ(n) == IF n % 2 = 1 THEN 0 ELSE 1 + TZ(n \div 2)       \* n > 0

NaN == [k |-> "nan", s |-> 1, m |-> 0, e |-> 0]
IX  == [k |-> "ix", s |-> 1, m |-> 0, e |-> 0]
Inf(s) == [k |-> "inf", s |-> s, m |-> 0, e |-> 0]
Zero(s) == [k |-> "fin", s |-> s, m |-> 0, e |-> 0]
Fin(s, m, e) == [k |-> "fin", s |-> s, m |-> m, e |-> e]
One == Fin(1, 1, 0)
Half == Fin(1, 1, -1)
PZ == Zero(1)
IsIx(x) == x.k = "ix"
IsNan(x) == x.k = "nan"
IsInf(x) == x.k = "inf"
IsFin(x) == x.k = "fin"
IsZero(x) == x.k = "fin" /\ x.m = 0
Top(x) == x.e + BitLen(x.m) - 1                 \* exponent of the leading bit (finite, non-zero)

\* the double nearest to s * m * 2^e (any natural m < 2^30)
Round(s, m, e) ==
  IF m = 0 THEN Zero(s)
  ELSE LET z == TZ(m)  m1 == m \div (2 ^ z)  e1 == e + z  bl == BitLen(m1) IN
       IF e1 + bl - 1 > 1023 THEN Inf(s)                                  \* >= 2^1024 rounds to infinity
       ELSE IF e1 < -1074 THEN
            LET k == -1074 - e1 IN
            IF k > bl THEN Zero(s)                                         \* below half of the least subnormal
            ELSE LET p == 2 ^ k  q == m1 \div p  r == m1 % p  half == p \div 2
                     q2 == IF r > half \/ (r = half /\ q % 2 = 1) THEN q + 1 ELSE q
                 IN IF q2 = 0 THEN Zero(s) ELSE Fin(s, q2 \div (2 ^ TZ(q2)), -1074 + TZ(q2))
       ELSE IF m1 >= MaxM THEN IX ELSE Fin(s, m1, e1)

Neg(x) == IF x.k \in {"nan", "ix"} THEN x ELSE [x EXCEPT !.s = -x.s]

Add(x, y) ==
  IF IsNan(x) \/ IsNan(y) THEN NaN
  ELSE IF IsIx(x) \/ IsIx(y) THEN IX
  ELSE IF IsInf(x) THEN (IF IsInf(y) /\ y.s # x.s THEN NaN ELSE x)
  ELSE IF IsInf(y) THEN y
  ELSE IF x.m = 0 /\ y.m = 0 THEN Zero(IF x.s = -1 /\ y.s = -1 THEN -1 ELSE 1)
  ELSE IF x.m = 0 THEN y
  ELSE IF y.m = 0 THEN x
  ELSE LET hi == IF x.e >= y.e THEN x ELSE y
           lo == IF x.e >= y.e THEN y ELSE x
           d == hi.e - lo.e
       IN IF d + BitLen(hi.m) <= 29
          THEN LET v == hi.s * hi.m * (2 ^ d) + lo.s * lo.m
               IN IF v = 0 THEN PZ ELSE Round(IF v < 0 THEN -1 ELSE 1, Abs(v), lo.e)
          ELSE IF Top(hi) - Top(lo) >= 55 /\ Top(hi) - hi.e <= 50 THEN hi   \* |lo| < ulp(hi)/4: absorbed
          ELSE IX
Sub(x, y) == Add(x, Neg(y))

Mul(x, y) ==
  IF IsNan(x) \/ IsNan(y) THEN NaN
  ELSE IF IsIx(x) \/ IsIx(y) THEN IX
  ELSE IF IsInf(x) \/ IsInf(y) THEN (IF IsZero(x) \/ IsZero(y) THEN NaN ELSE Inf(x.s * y.s))
  ELSE IF BitLen(x.m) + BitLen(y.m) > 30 THEN IX
  ELSE Round(x.s * y.s, x.m * y.m, x.e + y.e)

\* IEEE division (no exception)
Div(x, y) ==
  IF IsNan(x) \/ IsNan(y) THEN NaN
  ELSE IF IsIx(x) \/ IsIx(y) THEN IX
  ELSE IF IsInf(x) THEN (IF IsInf(y) THEN NaN ELSE Inf(x.s * y.s))
  ELSE IF IsInf(y) THEN Zero(x.s * y.s)
  ELSE IF y.m = 0 THEN (IF x.m = 0 THEN NaN ELSE Inf(x.s * y.s))
  ELSE IF x.m = 0 THEN Zero(x.s * y.s)
  ELSE IF x.m % y.m = 0 THEN Round(x.s * y.s, x.m \div y.m, x.e - y.e)
  \* an inexact quotient far below the least subnormal still rounds to zero, far above the largest double to inf
  ELSE IF Top(x) - Top(y) < -1080 THEN Zero(x.s * y.s)
  ELSE IF Top(x) - Top(y) > 1030 THEN Inf(x.s * y.s)
  ELSE IX

\* -1 / 0 / 1 ordered, 2 unordered (a NaN), 3 not decided
MagCmp(x, y) ==     \* finite, non-zero
  LET tx == Top(x)  ty == Top(y) IN
  IF tx # ty THEN (IF tx < ty THEN -1 ELSE 1)
  ELSE LET em == Min(x.e, y.e)  ax == x.m * (2 ^ (x.e - em))  ay == y.m * (2 ^ (y.e - em))
       IN IF ax < ay THEN -1 ELSE IF ax = ay THEN 0 ELSE 1
Cmp(x, y) ==
  IF IsNan(x) \/ IsNan(y) THEN 2
  ELSE IF IsIx(x) \/ IsIx(y) THEN 3
  ELSE IF IsInf(x) THEN (IF IsInf(y) THEN (IF x.s = y.s THEN 0 ELSE x.s) ELSE x.s)
  ELSE IF IsInf(y) THEN -y.s
  ELSE IF x.m = 0 /\ y.m = 0 THEN 0
  ELSE IF x.m = 0 THEN -y.s
  ELSE IF y.m = 0 THEN x.s
  ELSE IF x.s # y.s THEN x.s
  ELSE x.s * MagCmp(x, y)
Lt0(x) == Cmp(x, PZ) = -1           \* the C test `x < 0` (false for NaN and -0.0)
Ne0(x) == Cmp(x, PZ) \in {-1, 1, 2} \* the C test `x != 0` / `if (x)` (true for NaN)

\* C floor()
Floor(x) ==
  IF x.k # "fin" \/ x.m = 0 \/ x.e >= 0 THEN x
  ELSE LET k == -x.e
           q == IF k > 30 THEN 0 ELSE x.m \div (2 ^ k)       \* m odd, k >= 1: never an integer
       IN IF x.s = 1 THEN Round(1, q, 0) ELSE Round(-1, q + 1, 0)

\* 2^d mod n
RECURSIVE PowMod2(_, _)
PowMod2(d, n) == IF d = 0 THEN 1 % n
                 ELSE LET h == PowMod2(d \div 2, n)  sq == (h * h) % n IN IF d % 2 = 1 THEN (2 * sq) % n ELSE sq

\* C fmod(): exact, sign of the dividend
Fmod(x, y) ==
  IF IsNan(x) \/ IsNan(y) THEN NaN
  ELSE IF IsIx(x) \/ IsIx(y) THEN IX
  ELSE IF IsInf(x) \/ IsZero(y) THEN NaN
  ELSE IF IsInf(y) \/ IsZero(x) THEN x
  ELSE IF MagCmp(x, y) = -1 THEN x
  ELSE IF x.m >= 32768 \/ y.m >= 32768 THEN IX
  ELSE LET d == x.e - y.e IN
       IF d >= 0 THEN Round(x.s, (x.m * PowMod2(d, y.m)) % y.m, y.e)          \* y.m < 2^15 here
       ELSE Round(x.s, x.m % (y.m * (2 ^ (-d))), x.e)       \* |x| >= |y| bounds -d by the mantissa width

---------------------------------------------------------------------------
(* results share the record shape: a double, an int [k |-> "int", s, m, e]   *)
(* (= s*m*2^e, e >= 0), a boolean [k |-> "bool", m |-> 0/1] or an exception *)
(* [k |-> its name]                                                         *)
Exc(name) == [k |-> name, s |-> 1, m |-> 0, e |-> 0]
ZDE == Exc("ZeroDivisionError")
Bool(c) == [k |-> "bool", s |-> 1, m |-> IF c THEN 1 ELSE 0, e |-> 0]
IntOf(s, n) == IF n = 0 THEN [k |-> "int", s |-> 1, m |-> 0, e |-> 0]
               ELSE [k |-> "int", s |-> s, m |-> n \div (2 ^ TZ(n)), e |-> TZ(n)]

(* Reference, special-value rules + exact arithmetic *)
PyTrueDiv(a, b) == IF IsZero(b) THEN ZDE ELSE Div(a, b)

\* floor quotient and remainder of finite a, non-zero finite b, when the aligned mantissas fit
ExactDivmod(a, b) ==
  IF IsZero(a) THEN [q |-> Zero(a.s * b.s), r |-> Zero(b.s)]
  ELSE IF MagCmp(a, b) = -1 THEN
       (IF a.s = b.s THEN [q |-> Zero(1), r |-> a]
        ELSE [q |-> Fin(-1, 1, 0), r |-> Add(a, b)])              \* the double nearest to a + b
  ELSE LET em == Min(a.e, b.e)  da == a.e - em  db == b.e - em IN
       IF da + BitLen(a.m) > 30 \/ db + BitLen(b.m) > 30 THEN [q |-> IX, r |-> IX]
       ELSE LET A == a.m * (2 ^ da)  B == b.m * (2 ^ db)
                qt == A \div B  rem == A % B
            IN IF a.s = b.s THEN [q |-> Round(1, qt, 0), r |-> IF rem = 0 THEN Zero(b.s) ELSE Round(b.s, rem, em)]
               ELSE IF rem = 0 THEN [q |-> Round(-1, qt, 0), r |-> Zero(b.s)]
               ELSE [q |-> Round(-1, qt + 1, 0), r |-> Round(b.s, B - rem, em)]

PyDivmodDecl(a, b) ==
  IF IsZero(b) THEN [q |-> ZDE, r |-> ZDE]
  ELSE IF IsNan(a) \/ IsNan(b) \/ IsInf(a) THEN [q |-> NaN, r |-> NaN]
  ELSE IF IsInf(b) THEN
       (IF IsZero(a) THEN [q |-> Zero(a.s * b.s), r |-> Zero(b.s)]
        ELSE IF a.s = b.s THEN [q |-> Zero(1), r |-> a]
        ELSE [q |-> Fin(-1, 1, 0), r |-> b])
  ELSE ExactDivmod(a, b)

(* Reference, transcription of float_divmod / float_floor_div / float_rem *)
CopySignZero(x) == Zero(IF x.k = "ix" THEN 1 ELSE x.s)
PyDivmodAlg(a, b) ==
  IF IsZero(b) THEN [q |-> ZDE, r |-> ZDE]
  ELSE LET mod0 == Fmod(a, b)
           div0 == Div(Sub(a, mod0), b)
           adj  == Ne0(mod0) /\ (Lt0(b) # Lt0(mod0))
           mod1 == IF Ne0(mod0) THEN (IF adj THEN Add(mod0, b) ELSE mod0) ELSE CopySignZero(b)
           div1 == IF adj THEN Sub(div0, One) ELSE div0
           fl   == Floor(div1)
           frac == Sub(div1, fl)
           fd   == IF Ne0(div1) THEN (IF Cmp(frac, Half) = 1 THEN Add(fl, One) ELSE fl)
                   ELSE CopySignZero(Div(a, b))
       IN IF IsIx(mod0) \/ IsIx(div0) \/ IsIx(div1) \/ IsIx(fl) \/ IsIx(frac) \/ IsIx(Div(a, b)) THEN [q |-> IX, r |-> IF IsIx(mod0) THEN IX ELSE mod1]
          ELSE [q |-> fd, r |-> mod1]

CmpOp(op, a, b) == LET c == Cmp(a, b) IN
  IF c = 3 THEN IX
  ELSE Bool(CASE op = "lt" -> c = -1 [] op = "le" -> c \in {-1, 0} [] op = "eq" -> c = 0
              [] op = "ne" -> c \in {-1, 1, 2} [] op = "gt" -> c = 1 [] op = "ge" -> c \in {0, 1})

PyInt(a) == IF IsNan(a) THEN Exc("ValueError") ELSE IF IsInf(a) THEN Exc("OverflowError")
            ELSE IF a.e >= 0 THEN (IF a.m = 0 THEN IntOf(1, 0) ELSE [k |-> "int", s |-> a.s, m |-> a.m, e |-> a.e])
            ELSE LET k == -a.e IN IntOf(a.s, IF k > 30 THEN 0 ELSE a.m \div (2 ^ k))      \* truncation
PyRound(a) == IF IsNan(a) THEN Exc("ValueError") ELSE IF IsInf(a) THEN Exc("OverflowError")
            ELSE IF a.e >= 0 THEN (IF a.m = 0 THEN IntOf(1, 0) ELSE [k |-> "int", s |-> a.s, m |-> a.m, e |-> a.e])
            ELSE LET k == -a.e IN
                 IF k > 30 THEN IntOf(1, 0)
                 ELSE LET p == 2 ^ k  q == a.m \div p  r == a.m % p  half == p \div 2
                      IN IntOf(a.s, IF r > half \/ (r = half /\ q % 2 = 1) THEN q + 1 ELSE q)      \* half to even

Ref(op, a, b) ==
  CASE op = "add" -> Add(a, b) [] op = "sub" -> Sub(a, b) [] op = "mul" -> Mul(a, b)
    [] op = "tdiv" -> PyTrueDiv(a, b)
    [] op = "fdiv" -> PyDivmodDecl(a, b).q
    [] op = "mod" -> PyDivmodDecl(a, b).r
    [] op \in {"lt", "le", "eq", "ne", "gt", "ge"} -> CmpOp(op, a, b)
    [] op = "neg" -> Neg(a) [] op = "int" -> PyInt(a) [] op = "round" -> PyRound(a)

(* Implementation-shaped *)
B2F(c) == IF c THEN One ELSE PZ           \* a C int 0 / 1 converted to double
CyMod(a, b) == LET r == Fmod(a, b)
                   k == Ne0(r) /\ (Lt0(r) # Lt0(b))
               IN IF IsIx(r) THEN IX ELSE Add(r, Mul(B2F(k), b))
Impl(op, a, b) ==
  CASE op = "tdiv" -> IF IsZero(b) THEN ZDE ELSE Div(a, b)
    [] op = "fdiv" -> IF IsZero(b) THEN ZDE ELSE Floor(Div(a, b))
    [] op = "mod"  -> IF IsZero(b) THEN ZDE ELSE CyMod(a, b)
    [] OTHER -> Ref(op, a, b)          \* plain C operators / CPython calls: nothing to transcribe

---------------------------------------------------------------------------
MagQ == {Fin(1, 1, -1074), Fin(1, 1, -1), One, Fin(1, 3, -1), Fin(1, 1, 1), Fin(1, 5, -1), Fin(1, 3, 0), Fin(1, 1, 1023)}
MagT == MagQ \cup {Fin(1, 3, -1074), Fin(1, 1, -1022), Fin(1, 1, -2), Fin(1, 3, -2), Fin(1, 1, 2), Fin(1, 7, 0),
                   Fin(1, 5, 1), Fin(1, 1, 31), Fin(1, 1, 52), Fin(1, 1, 63), Fin(1, 3, 1022), Fin(1, 4097, -12)}
Mags == IF GridSel = "q" THEN MagQ ELSE MagT
Grid == {NaN, Inf(1), Inf(-1), Zero(1), Zero(-1)} \cup Mags \cup {Neg(x) : x \in Mags}
Unary == {"neg", "int", "round"}

VARIABLES op, a, b, want, impl
vars == <<op, a, b, want, impl>>

Init == /\ op \in Ops /\ a \in Grid
        /\ b \in (IF op \in Unary THEN {PZ} ELSE Grid)
        /\ want = Ref(op, a, b)
        /\ impl = Impl(op, a, b)
Next == UNCHANGED vars
Spec == Init /\ [][Next]_vars

Decided(x) == x # IX

\* CPython's fmod-based algorithm computes the declarative floor quotient / remainder
DivmodAlgSound ==
  op \in {"fdiv", "mod"} =>
    LET d == PyDivmodDecl(a, b)  g == PyDivmodAlg(a, b) IN
    /\ (Decided(d.q) /\ Decided(g.q)) => d.q = g.q
    /\ (Decided(d.r) /\ Decided(g.r)) => d.r = g.r
\* the remainder has the divisor's sign and is not larger; a = q*b + r wherever the remainder is exact
DivmodLaw ==
  (op = "mod" /\ IsFin(a) /\ IsFin(b) /\ ~IsZero(b)) =>
    LET d == PyDivmodDecl(a, b)  back == Add(Mul(d.q, b), d.r)
        rounded == ~IsZero(a) /\ a.s # b.s /\ MagCmp(a, b) = -1      \* r = the double nearest to a + b
    IN /\ Decided(d.r) => (d.r.s = b.s /\ (IsZero(d.r) \/ MagCmp(d.r, b) \in {-1, 0}))
       /\ (Decided(d.q) /\ Decided(d.r) /\ Decided(back) /\ ~rounded /\ IsFin(Mul(d.q, b))) => Cmp(back, a) = 0   \* (q*b may overflow)
\* NaN is unordered, otherwise exactly one of < = > ; + and * commute, - anti-commutes
OrderLaw ==
  op = "lt" => LET c == Cmp(a, b) IN
               /\ c = 2 <=> (IsNan(a) \/ IsNan(b))
               /\ Cmp(b, a) = (IF c \in {2, 3} THEN c ELSE -c)
               /\ c # 3 => CmpOp("ne", a, b).m = 1 - CmpOp("eq", a, b).m
Commute == /\ op = "add" => Add(a, b) = Add(b, a)
           /\ op = "mul" => Mul(a, b) = Mul(b, a)
           /\ op = "sub" => (Sub(a, b) = Neg(Sub(b, a)) \/ IsZero(Sub(a, b)))
\* int() truncates towards zero; round() goes to the nearest integer, ties to the even one
IntLaw == (op \in {"int", "round"} /\ IsFin(a) /\ a.m # 0 /\ a.e < 0 /\ a.e >= -24) =>
            LET k == -a.e  lo == a.m \div (2 ^ k)
                vm == want.m * (2 ^ want.e)
                err == Abs(2 * a.m - vm * (2 ^ (k + 1)))       \* 2^(k+1) * | |a| - |result| |
            IN /\ want.k = "int" /\ (vm = 0 \/ want.s = a.s)
               /\ IF op = "int" THEN vm = lo
                  ELSE vm \in {lo, lo + 1} /\ err <= 2 ^ k /\ (err = 2 ^ k => vm % 2 = 0)

Hazard == Decided(want) /\ Decided(impl) /\ want # impl
\* the transcription leaves the reference only in // and %
ImplAgreesOffDivmod == op \notin {"fdiv", "mod"} => ~Hazard
Publish == PrintT("@@" \o ToJson([op |-> op, a |-> a, b |-> b, want |-> want, impl |-> impl, hazard |-> Hazard]))
=============================================================================
