SPECIFICATION Spec
CONSTANTS
  MaxH = 6
  MaxLen = 30
  NLs = {0, 1, 2}
  Poses = {0, 1, 2}
  Dump = TRUE
  LineNums = TRUE
INVARIANT Agree
INVARIANT ExactlyOnce
INVARIANT MarkersAligned
INVARIANT OwnSubtreeOnly
INVARIANT DumpLeaves
CHECK_DEADLOCK FALSE
