SPECIFICATION Spec
CONSTANTS
  Part = "value"
  MaxChunks = 4
  MaxItems = 0
  ItemMode = "small"
  Dump = "accepted"
INVARIANT BoolSane
INVARIANT IntSane
INVARIANT ListSane
INVARIANT PublishV
INVARIANT PublishL
CHECK_DEADLOCK FALSE
