SPECIFICATION Spec
CONSTANTS
  Part = "split"
  UNames <- UAll
  UNames3 <- UThor3
  MaxLen = 3
  ArgsOne <- AOneAll
  ArgsPair <- APairAll
INVARIANT SplitSound
INVARIANT PublishSplit
CHECK_DEADLOCK FALSE
