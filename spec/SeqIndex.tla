----------------------------- MODULE SeqIndex -----------------------------
(* C15: indexing, item assignment/deletion and slicing of list, tuple, str,  *)
(* bytes, bytearray.                                                         *)
(*  Reference  : Python semantics on mathematical integers: index            *)
(*               normalisation, slice.indices (transcription of              *)
(*               PySlice_AdjustIndices, validated against the declarative    *)
(*               membership definition of a slice), simple and extended      *)
(*               slice assignment/deletion, PyObject_{Get,Set,Del}Item's     *)
(*               order of index conversion and type errors.                  *)
(*  Impl-shaped: what Cython generates for each (declared container type,    *)
(*               index/bound typing): the __Pyx_fits_Py_ssize_t macro,       *)
(*               __Pyx_is_valid_index, __Pyx_GetItemInt_{List,Tuple}_Fast,   *)
(*               _Unicode/_Bytes/_ByteArray_Fast, __Pyx_{Get,Set,Del}ItemInt *)
(*               _Fast slot dispatch (ObjectHandling.c, StringTools.c), and  *)
(*               for slices SliceIndexNode's bound coercion to Py_ssize_t    *)
(*               (ExprNodes.py), __Pyx_crop_slice + FromArray,               *)
(*               __Pyx_PyUnicode_Substring, __Pyx_PyObject_{Get,Set}Slice.   *)
(* Py_ssize_t is scaled to 8 bits (SMIN..SMAX), so that type bounds are      *)
(* ordinary values and C signed overflow would be a flagged outcome (NoUB).  *)
(* A container of length n holds the element ids 0..n-1 (n = -1: the         *)
(* variable holds None); new elements have ids 10,11,12 (printed N,M,K).     *)
(* Outcomes are strings: "=3" (item), ":0N2" (resulting sequence / mutated   *)
(* container), "!IndexError", and for the implementation-shaped side also    *)
(* "?<why>" (C undefined behaviour reached).                                 *)
(* One state per (part, container, operation, length, first parameter); the  *)
(* state carries the row of <<reference, implementation>> outcomes over the  *)
(* last parameter (index value / stop bound), published for replay (B1).     *)
EXTENDS Integers, Sequences, TLC, Json, FiniteSets

CONSTANTS Part,      \* "index" | "slice" | "xslice"
          MaxLen,    \* container lengths -1..MaxLen
          VMag,      \* small index / bound values are -VMag..VMag
          Mixed,     \* slice part: also C-typed start with object stop and vice versa
          Dump

SMIN == -128
SMAX == 127
BIGI == 300        \* a Python int far outside Py_ssize_t
BIGV == 5000       \* "beyond everything" for None defaults in the reference
NONE == 100000     \* None as a slice field
FLT  == 100001     \* a float as a slice field
ERRT == 30001      \* coercion of a bound failed: TypeError
ERRO == 30002      \*                            OverflowError

EI == "!IndexError"
ET == "!TypeError"
EV == "!ValueError"
EO == "!OverflowError"

Kinds == {"list", "tuple", "str", "bytes", "bytearray"}
Mutable(k)  == k \in {"list", "bytearray"}
SeqFlag(k)  == k \in {"list", "tuple"}       \* Py_TPFLAGS_SEQUENCE
HasMpAss(k) == Mutable(k)                    \* tp_as_mapping->mp_ass_subscript
HasSqAss(k) == Mutable(k)                    \* tp_as_sequence->sq_ass_item
Conts == {[decl |-> d, kind |-> k] : d \in {"typed", "object"}, k \in Kinds}

Chr == <<"0", "1", "2", "3", "4", "5", "6", "7", "8", "9", "N", "M", "K">>
RECURSIVE Str(_)
Str(s) == IF s = <<>> THEN "" ELSE Chr[Head(s) + 1] \o Str(Tail(s))
Orig(n) == [p \in 1..n |-> p - 1]
Vals(m) == [k \in 1..m |-> 9 + k]
SeqOut(s) == ":" \o Str(s)
Item(p) == IF p >= 0 /\ p <= 9 THEN "=" \o Chr[p + 1] ELSE "?oob_read"
InSsize(v) == v >= SMIN /\ v <= SMAX
Max(a, b) == IF a > b THEN a ELSE b
Min(a, b) == IF a < b THEN a ELSE b

---------------------------------------------------------------------------
(* Reference: items *)
Norm(n, i) == IF i < 0 THEN i + n ELSE i
RefGetI(n, i) == LET j == Norm(n, i) IN IF j >= 0 /\ j < n THEN Item(j) ELSE EI
RefSetI(n, i) == LET j == Norm(n, i) IN
                 IF j >= 0 /\ j < n THEN SeqOut([p \in 1..n |-> IF p = j + 1 THEN 10 ELSE p - 1]) ELSE EI
RefDelI(n, i) == LET j == Norm(n, i) IN
                 IF j >= 0 /\ j < n THEN SeqOut(SubSeq(Orig(n), 1, j) \o SubSeq(Orig(n), j + 2, n)) ELSE EI

\* index objects: 10000+v = the int v ; 20001 None ; 20002 a float ; 20003 a str ; 20004/20005 False/True
IsIntObj(c) == c < 20000 \/ c \in {20004, 20005}
IntOf(c) == IF c = 20004 THEN 0 ELSE IF c = 20005 THEN 1 ELSE c - 10000
\* PyObject_GetItem / SetItem / DelItem with key object c on a builtin sequence
RefObj(kind, op, n, c) ==
  IF n < 0 THEN ET
  ELSE IF ~IsIntObj(c) THEN ET          \* "indices must be integers or slices" / "does not support item assignment"
  ELSE LET v == IntOf(c) IN
       IF ~InSsize(v) THEN EI           \* "cannot fit 'int' into an index-sized integer" (before the sequence slot is looked at)
       ELSE IF op = "get" THEN RefGetI(n, v)
       ELSE IF ~Mutable(kind) THEN ET
       ELSE IF op = "set" THEN RefSetI(n, v) ELSE RefDelI(n, v)

---------------------------------------------------------------------------
(* Reference: slices.  s, e, st are integers, NONE or FLT *)
AdjBound(n, x, step) ==      \* PySlice_AdjustIndices, one bound
  IF x < 0 THEN (IF x + n < 0 THEN (IF step < 0 THEN -1 ELSE 0) ELSE x + n)
  ELSE IF x >= n THEN (IF step < 0 THEN n - 1 ELSE n) ELSE x
SliceLen(a, b, step) ==
  IF step < 0 THEN (IF b < a THEN (a - b - 1) \div (-step) + 1 ELSE 0)
  ELSE (IF a < b THEN (b - a - 1) \div step + 1 ELSE 0)
StepOf(st) == IF st = NONE THEN 1 ELSE st
StartOf(s, step) == IF s = NONE THEN (IF step < 0 THEN BIGV ELSE 0) ELSE s
StopOf(e, step) == IF e = NONE THEN (IF step < 0 THEN -BIGV ELSE BIGV) ELSE e
\* the selected indices, in order (slice.indices + range)
Indices(n, s, e, st) ==
  LET step == StepOf(st)
      a == AdjBound(n, StartOf(s, step), step)
      b == AdjBound(n, StopOf(e, step), step)
  IN [k \in 1..SliceLen(a, b, step) |-> a + (k - 1) * step]
SeqSet(q) == {q[k] : k \in 1..Len(q)}

RefSlice(kind, op, m, n, s, e, st) ==
  IF n < 0 THEN ET
  ELSE IF op # "get" /\ ~Mutable(kind) THEN ET
  ELSE IF st = FLT THEN ET
  ELSE IF StepOf(st) = 0 THEN EV
  ELSE IF s = FLT \/ e = FLT THEN ET
  ELSE LET step == StepOf(st)
           idx == Indices(n, s, e, st)
           a == AdjBound(n, StartOf(s, step), step)
           b == AdjBound(n, StopOf(e, step), step)
       IN IF op = "get" THEN SeqOut(idx)
          ELSE IF op = "del" \/ (kind = "bytearray" /\ m = 0 /\ step # 1)    \* bytearray_ass_subscript: an empty value deletes
               THEN SeqOut(SelectSeq(Orig(n), LAMBDA x : x \notin SeqSet(idx)))
          ELSE IF step = 1 THEN SeqOut(SubSeq(Orig(n), 1, a) \o Vals(m) \o SubSeq(Orig(n), Max(a, b) + 1, n))
          ELSE IF m # Len(idx) THEN EV
          ELSE SeqOut([p \in 1..n |-> IF \E k \in 1..m : idx[k] = p - 1
                                       THEN 9 + (CHOOSE k \in 1..m : idx[k] = p - 1) ELSE p - 1])

(* declarative definition of the selected index set (language reference) *)
Clamp(x, lo, hi) == IF x < lo THEN lo ELSE IF x > hi THEN hi ELSE x
DeclSet(n, s, e, st) ==
  LET step == StepOf(st) IN
  IF step > 0 THEN
    LET L == IF s = NONE THEN 0 ELSE Clamp(Norm(n, s), 0, n)
        U == IF e = NONE THEN n ELSE Clamp(Norm(n, e), 0, n)
    IN {j \in 0..(n - 1) : j >= L /\ j < U /\ (j - L) % step = 0}
  ELSE
    LET L == IF s = NONE THEN n - 1 ELSE Clamp(Norm(n, s), -1, n - 1)
        U == IF e = NONE THEN -1 ELSE Clamp(Norm(n, e), -1, n - 1)
    IN {j \in 0..(n - 1) : j <= L /\ j > U /\ (L - j) % (-step) = 0}
SliceWellFormed(n, s, e, st) ==
  (n >= 0 /\ s # FLT /\ e # FLT /\ st # FLT /\ StepOf(st) # 0) =>
    LET idx == Indices(n, s, e, st) step == StepOf(st) IN
    /\ \A k \in 1..Len(idx) : idx[k] >= 0 /\ idx[k] < n
    /\ \A k \in 1..(Len(idx) - 1) : idx[k + 1] - idx[k] = step
    /\ SeqSet(idx) = DeclSet(n, s, e, st)
    /\ Cardinality(DeclSet(n, s, e, st)) = Len(idx)

---------------------------------------------------------------------------
(* Implementation-shaped: C integer index types [nm, w, s] against an 8-bit Py_ssize_t *)
TObj    == [nm |-> "obj", w |-> 0, s |-> TRUE]
TSsize  == [nm |-> "ssize", w |-> 8, s |-> TRUE]      \* Py_ssize_t, long, long long
TNarrow == [nm |-> "snarrow", w |-> 6, s |-> TRUE]    \* int, short, signed char
TUNarr  == [nm |-> "unarrow", w |-> 6, s |-> FALSE]   \* unsigned int, unsigned char
TUSize  == [nm |-> "usize", w |-> 8, s |-> FALSE]     \* size_t, unsigned long
TConst  == [nm |-> "const", w |-> 8, s |-> TRUE]      \* integer literal (C long)
TSWide  == [nm |-> "swide", w |-> 11, s |-> TRUE]     \* a type wider than Py_ssize_t (model only on LP64)
TUWide  == [nm |-> "uwide", w |-> 11, s |-> FALSE]
ITypes == {TObj, TSsize, TNarrow, TUNarr, TUSize, TConst, TSWide, TUWide}
TMin(t) == IF t.s THEN -(2 ^ (t.w - 1)) ELSE 0
TMax(t) == IF t.s THEN 2 ^ (t.w - 1) - 1 ELSE 2 ^ t.w - 1

\* __Pyx_fits_Py_ssize_t(v, type, is_signed)
Fits(t, v) ==
  \/ t.w < 8
  \/ (t.w > 8 /\ (v < SMAX \/ v = SMAX) /\ (~t.s \/ (v > SMIN \/ v = SMIN)))
  \/ (t.w = 8 /\ (t.s \/ (v < SMAX \/ v = SMAX)))
\* __Pyx_is_valid_index: (size_t) i < (size_t) limit
Valid(i, limit) == (i % 256) < (limit % 256)

\* an outcome of the implementation-shaped side: [o |-> string, hz |-> "none" | "ub" | "bound_overflow"]
Ok(o) == [o |-> o, hz |-> IF o \in {"?oob_read", "?oob_write"} THEN "ub" ELSE "none"]
UB(why) == [o |-> "?" \o why, hz |-> "ub"]

WrapIdx(n, i, wrap) == IF wrap /\ i < 0 THEN i + n ELSE i
ListFastGet(n, i, wrap) ==      \* __Pyx_GetItemInt_List_Fast / _Tuple_Fast
  LET wi == WrapIdx(n, i, wrap) IN
  IF ~InSsize(wi) THEN UB("add_overflow")
  ELSE IF Valid(wi, n) THEN Ok(Item(wi)) ELSE Ok(RefObj("list", "get", n, 10000 + i))   \* __Pyx_GetItemInt_Generic_size(o, i)
StrFastGet(n, i, wrap) ==       \* __Pyx_GetItemInt_Unicode_Fast / _Bytes_Fast / _ByteArray_Fast
  LET wi == WrapIdx(n, i, wrap) IN
  IF ~InSsize(wi) THEN UB("add_overflow") ELSE IF Valid(wi, n) THEN Ok(Item(wi)) ELSE Ok(EI)
ByteArrayFastSet(n, i, wrap) == \* __Pyx_SetItemInt_ByteArray_Fast
  LET wi == WrapIdx(n, i, wrap) IN
  IF ~InSsize(wi) THEN UB("add_overflow")
  ELSE IF Valid(wi, n) THEN Ok(IF wi >= 0 /\ wi < n THEN RefSetI(n, wi) ELSE "?oob_write") ELSE Ok(EI)
\* sq_item / sq_ass_item of list (no wraparound of their own)
SqItem(n, i) == IF i >= 0 /\ i < n THEN Item(i) ELSE EI
SqAssItem(n, i, op) == IF i >= 0 /\ i < n THEN (IF op = "set" THEN RefSetI(n, i) ELSE RefDelI(n, i)) ELSE EI

GenericFastGet(kind, n, i, wrap) ==   \* __Pyx_GetItemInt_Fast
  IF kind \in {"list", "tuple"} THEN ListFastGet(n, i, wrap)
  ELSE IF ~SeqFlag(kind) THEN Ok(RefObj(kind, "get", n, 10000 + i))       \* mp_subscript(o, PyLong(i))
  ELSE LET wi == WrapIdx(n, i, wrap) IN IF ~InSsize(wi) THEN UB("add_overflow") ELSE Ok(SqItem(n, wi))
GenericFastSet(kind, n, i, wrap) ==   \* __Pyx_SetItemInt_Fast
  IF kind = "list" THEN
     LET wi == WrapIdx(n, i, wrap) IN
     IF ~InSsize(wi) THEN UB("add_overflow")
     ELSE IF Valid(wi, n) THEN Ok(IF wi >= 0 /\ wi < n THEN RefSetI(n, wi) ELSE "?oob_write")
     ELSE Ok(RefObj(kind, "set", n, 10000 + i))                            \* falls through to __Pyx_SetItemInt_Generic
  ELSE IF ~SeqFlag(kind) /\ HasMpAss(kind) THEN Ok(RefObj(kind, "set", n, 10000 + i))
  ELSE IF HasSqAss(kind) THEN LET wi == WrapIdx(n, i, wrap) IN IF ~InSsize(wi) THEN UB("add_overflow") ELSE Ok(SqAssItem(n, wi, "set"))
  ELSE Ok(RefObj(kind, "set", n, 10000 + i))
GenericFastDel(kind, n, i, wrap) ==   \* __Pyx_DelItemInt_Fast
  IF ~SeqFlag(kind) /\ HasMpAss(kind) THEN Ok(RefObj(kind, "del", n, 10000 + i))
  ELSE IF HasSqAss(kind) THEN LET wi == WrapIdx(n, i, wrap) IN IF ~InSsize(wi) THEN UB("add_overflow") ELSE Ok(SqAssItem(n, wi, "del"))
  ELSE Ok(RefObj(kind, "del", n, 10000 + i))

ImplIndex(c, t, op, n, v) ==
  IF n < 0 THEN Ok(ET)                                 \* none check / generic protocol
  ELSE IF t.nm = "obj" THEN Ok(RefObj(c.kind, op, n, v))     \* __Pyx_PyObject_GetItem / PyObject_SetItem / DelItem
  ELSE LET wrap == t.s /\ ~(t.nm = "const" /\ v >= 0)
           fits == Fits(t, v)
           big  == Ok(RefObj(c.kind, op, n, 10000 + v))      \* generic call with to_py_func(i)
       IN IF op = "get" THEN
            (IF c.decl = "typed" THEN
               (IF ~fits THEN Ok(EI)
                ELSE IF c.kind \in {"list", "tuple"} THEN ListFastGet(n, v, wrap) ELSE StrFastGet(n, v, wrap))
             ELSE (IF ~fits THEN big ELSE GenericFastGet(c.kind, n, v, wrap)))
          ELSE IF op = "set" THEN
            (IF c.decl = "typed" /\ c.kind = "bytearray" THEN (IF ~fits THEN Ok(EI) ELSE ByteArrayFastSet(n, v, wrap))
             ELSE (IF ~fits THEN big ELSE GenericFastSet(c.kind, n, v, wrap)))
          ELSE (IF ~fits THEN big ELSE GenericFastDel(c.kind, n, v, wrap))
RefIndex(c, t, op, n, v) == RefObj(c.kind, op, n, IF t.nm = "obj" THEN v ELSE 10000 + v)

---------------------------------------------------------------------------
(* Implementation-shaped: slices.  A bound is a code: 20000 absent ; v a C integer ; *)
(* 10000+v the Python int v ; 20001 None object ; 20002 a float object               *)
BForm(b) == IF b = 20000 THEN "a" ELSE IF b = 20001 THEN "none" ELSE IF b = 20002 THEN "float" ELSE IF b >= 9000 THEN "oint" ELSE "c"
BVal(b) == IF b >= 9000 THEN b - 10000 ELSE b
PyB(b) == IF BForm(b) \in {"a", "none"} THEN NONE ELSE IF BForm(b) = "float" THEN FLT ELSE BVal(b)
\* SliceIndexNode.analyse_types for a builtin-typed base: coercion to Py_ssize_t (None -> default)
CBound(b, dflt) ==
  IF BForm(b) \in {"a", "none"} THEN dflt
  ELSE IF BForm(b) = "c" THEN b
  ELSE IF BForm(b) = "float" THEN ERRT
  ELSE IF InSsize(BVal(b)) THEN BVal(b) ELSE ERRO      \* __Pyx_PyIndex_AsSsize_t
ErrOut(x) == IF x = ERRT THEN [o |-> ET, hz |-> "none"] ELSE [o |-> EO, hz |-> "bound_overflow"]

Copy(n, s1, len) == IF s1 < 0 \/ s1 + len > n THEN "?oob_read" ELSE SeqOut([k \in 1..len |-> s1 + k - 1])
\* __Pyx_crop_slice: both bounds are clamped into [0, length] before the subtraction (as PySlice_AdjustIndices does)
CropBound(n, x) == IF x < 0 THEN (IF x + n < 0 THEN 0 ELSE x + n) ELSE IF x > n THEN n ELSE x
ListGetSlice(n, s, e) ==       \* __Pyx_crop_slice + __Pyx_PyList_GetSlice_locked / __Pyx_PyTuple_GetSlice + FromArray
  LET s1 == CropBound(n, s) e1 == CropBound(n, e) len == e1 - s1 IN
  IF ~InSsize(len) THEN UB("crop_slice_sub_overflow")                  \* every C subtraction is range-checked: see NoUB
  ELSE IF len <= 0 THEN Ok(":") ELSE Ok(Copy(n, s1, len))              \* tuple: FromArray(n <= 0) ; list: `length <= 0`
\* __Pyx_PyUnicode_Substring has its own cropping: start is clamped below only, stop above only, then `stop <= start`
SubStart(n, s) == IF s < 0 THEN (IF s + n < 0 THEN 0 ELSE s + n) ELSE s
SubStop(n, e) == IF e < 0 THEN e + n ELSE IF e > n THEN n ELSE e
Substring(n, s, e) ==
  LET s1 == SubStart(n, s) e1 == SubStop(n, e) IN
  IF e1 <= s1 THEN Ok(":") ELSE IF s1 = 0 /\ e1 = n THEN Ok(SeqOut(Orig(n))) ELSE Ok(Copy(n, s1, e1 - s1))

ImplSlice(c, op, m, n, sb, eb, r) ==   \* r: the reference outcome (what CPython does with the same slice object)
  IF c.decl = "object" THEN Ok(r)                                      \* __Pyx_PyObject_GetSlice/SetSlice: slice object
  ELSE LET cs == CBound(sb, 0) ce == CBound(eb, SMAX) IN
       IF cs > 30000 THEN ErrOut(cs) ELSE IF ce > 30000 THEN ErrOut(ce)
       ELSE IF n < 0 THEN Ok(ET)
       ELSE IF op = "get" THEN
          (IF c.kind \in {"list", "tuple"} THEN ListGetSlice(n, cs, ce)
           ELSE IF c.kind = "str" THEN Substring(n, cs, ce)
           ELSE Ok(RefSlice(c.kind, op, m, n, cs, ce, NONE)))          \* PySequence_GetSlice
       ELSE Ok(RefSlice(c.kind, op, m, n, cs, ce, NONE))               \* __Pyx_PyObject_SetSlice with PyLong_FromSsize_t bounds
RefSliceB(c, op, m, n, sb, eb) == RefSlice(c.kind, op, m, n, PyB(sb), PyB(eb), NONE)

---------------------------------------------------------------------------
(* Case spaces *)
Small == (-VMag)..VMag
CVals == Small \cup {SMIN, SMIN + 1, SMAX - 1, SMAX}
OInts == {10000 + v : v \in CVals \cup {SMIN - 1, SMAX + 1, -BIGI, BIGI}}
IdxDom(t) ==
  IF t.nm = "obj" THEN OInts \cup {20001, 20002, 20003, 20004, 20005}
  ELSE {v \in Small \cup {TMin(t), TMin(t) + 1, TMax(t) - 1, TMax(t), SMIN, SMIN + 1, SMIN - 1, SMAX - 1, SMAX, SMAX + 1} :
          v >= TMin(t) /\ v <= TMax(t)}
\* x[i] = v / del x[i] on a variable declared tuple/str/bytes is rejected at compile time
Compiles(c, op) == op = "get" \/ c.decl = "object" \/ Mutable(c.kind)
Lens == (-1)..MaxLen
\* <<operation, length of the assigned value, type of the assigned value>>: "same" = the container's own type,
\* "other" = another iterable (tuple for a list, bytes for a bytearray)
OpsM == {<<"get", 0, "-">>, <<"del", 0, "-">>, <<"set", 0, "same">>, <<"set", 1, "same">>, <<"set", 1, "other">>, <<"set", 2, "other">>}

SliceStarts == {20000} \cup CVals \cup OInts \cup {20001, 20002}
StopDom(sb) ==
  LET f == BForm(sb) IN
  IF f = "a" THEN SliceStarts
  ELSE IF f = "c" THEN {20000} \cup CVals \cup (IF Mixed THEN OInts \cup {20001, 20002} ELSE {})
  ELSE {20000} \cup OInts \cup {20001, 20002} \cup (IF Mixed THEN CVals ELSE {})
\* extended slices: every field is a Python object (int or None); no Cython fast path
XVals == {NONE} \cup Small \cup {SMIN, SMAX, -BIGI, BIGI}
XSteps == {NONE, -BIGI, SMIN, -2, -1, 0, 1, 2, 3, SMAX}
XConts == {c \in Conts : c.decl = "typed" \/ c.kind \in {"list", "tuple"}}
\* (assignment to / deletion from an immutable sequence is one TypeError whatever the arguments: one shape of each)
XOps(c) == IF Mutable(c.kind) THEN OpsM ELSE {<<"get", 0, "-">>, <<"del", 0, "-">>, <<"set", 1, "same">>}

(* State machine: root -> group (container, operation, length) -> leaf (one row).  *)
(* The two levels only spread the work over TLC's workers.                          *)
VARIABLES cse, row
vars == <<cse, row>>

Cell(r, i) == <<r, i.o, i.hz>>
Init == cse = [lvl |-> 0] /\ row = <<>>
GroupOk(c, om, n) ==
  /\ Compiles(c, om[1])
  /\ Part = "index" => om \in {<<"get", 1, "-">>, <<"del", 1, "-">>, <<"set", 1, "same">>}
  /\ Part = "slice" => om \in XOps(c)
  /\ Part = "xslice" => c \in XConts /\ om \in XOps(c) /\ n >= 0
Group ==
  /\ cse.lvl = 0
  /\ \E c \in Conts, om \in OpsM \cup {<<"get", 1, "-">>, <<"del", 1, "-">>}, n \in Lens :
        /\ GroupOk(c, om, n)
        /\ cse' = [lvl |-> 1, c |-> c, op |-> om[1], m |-> om[2], rhs |-> om[3], n |-> n]
  /\ row' = <<>>
\* With the default nonecheck=False, C-integer indexing of a str/bytes/bytearray-typed variable that holds None is
\* not guarded (only list/tuple get an explicit test): outside the property's quantifier (a sequence of length 0..8).
NoneUnchecked(c, t, op, n) ==
  n < 0 /\ c.decl = "typed" /\ t.nm # "obj" /\ ((op = "get" /\ c.kind \in {"str", "bytes", "bytearray"}) \/ (op = "set" /\ c.kind = "bytearray"))
IndexCase ==
  /\ cse.lvl = 1 /\ Part = "index"
  /\ \E t \in ITypes :
        /\ ~NoneUnchecked(cse.c, t, cse.op, cse.n)
        /\ cse' = [lvl |-> 2, c |-> cse.c, op |-> cse.op, m |-> cse.m, rhs |-> cse.rhs, n |-> cse.n, t |-> t]
        /\ row' = [v \in IdxDom(t) |-> Cell(RefIndex(cse.c, t, cse.op, cse.n, v), ImplIndex(cse.c, t, cse.op, cse.n, v))]
SliceCase ==
  /\ cse.lvl = 1 /\ Part = "slice"
  /\ \E sb \in SliceStarts :
        /\ cse' = [lvl |-> 2, c |-> cse.c, op |-> cse.op, m |-> cse.m, rhs |-> cse.rhs, n |-> cse.n, sb |-> sb]
        /\ row' = [eb \in StopDom(sb) |-> LET r == RefSliceB(cse.c, cse.op, cse.m, cse.n, sb, eb) IN Cell(r, ImplSlice(cse.c, cse.op, cse.m, cse.n, sb, eb, r))]
\* x[s:e:st] is PyObject_GetItem/SetItem/DelItem with a slice object; the only Cython logic: IndexNode.analyse_as_pyobject
\* gives the target `x[s:e:st]` of a builtin-typed x the type of x, and the assigned value is type-tested against it
ImplXSlice(c, op, rhs, r) ==
  IF c.decl = "typed" /\ op = "set" /\ rhs = "other" THEN [o |-> ET, hz |-> "rhs_type"] ELSE Ok(r)
XSliceCase ==
  /\ cse.lvl = 1 /\ Part = "xslice"
  /\ \E s \in XVals, st \in XSteps :
        /\ cse' = [lvl |-> 2, c |-> cse.c, op |-> cse.op, m |-> cse.m, rhs |-> cse.rhs, n |-> cse.n, s |-> s, st |-> st]
        /\ row' = [e \in XVals |-> LET r == RefSlice(cse.c.kind, cse.op, cse.m, cse.n, s, e, st) IN Cell(r, ImplXSlice(cse.c, cse.op, cse.rhs, r))]
Next == Group \/ IndexCase \/ SliceCase \/ XSliceCase
Spec == Init /\ [][Next]_vars
Leaf == cse.lvl = 2

---------------------------------------------------------------------------
(* Invariants *)
Keys == DOMAIN row
\* the property on the model: the generated code computes what Python computes ...
ImplAgrees == \A k \in Keys : row[k][1] = row[k][2]
\* ... which the model refutes (SeqIndex_strict.cfg: object bounds outside Py_ssize_t; SeqIndex_strict_x.cfg: the type test
\* of extended-slice assignment); everywhere else:
Deviates(k) == row[k][3] \in {"ub", "bound_overflow", "rhs_type"}
ImplAgreesOffHazards == \A k \in Keys : Deviates(k) \/ row[k][1] = row[k][2]
\* the deviations are confined to builtin-typed variables: OverflowError only for object slice bounds outside Py_ssize_t,
\* the type test only for extended-slice assignment of another iterable
HazardsConfined == \A k \in Keys : Deviates(k) =>
   /\ cse.c.decl = "typed"
   /\ row[k][3] # "ub"
   /\ (Part = "slice" /\ row[k][3] = "bound_overflow") \/ (Part = "xslice" /\ row[k][3] = "rhs_type" /\ cse.op = "set" /\ cse.rhs = "other")
   /\ (row[k][3] = "bound_overflow" => \E b \in {cse.sb, k} : BForm(b) = "oint" /\ ~InSsize(BVal(b)))
\* __Pyx_crop_slice delivers a window inside the array for every pair of Py_ssize_t bounds, the type extremes included
CropClamped ==
  (Leaf /\ Part = "slice" /\ cse.c.decl = "typed" /\ cse.op = "get" /\ cse.c.kind \in {"list", "tuple"} /\ cse.n >= 0) =>
    \A k \in Keys : LET s == CBound(cse.sb, 0) e == CBound(k, SMAX) IN
       (s < 30000 /\ e < 30000) =>
          LET s1 == CropBound(cse.n, s) e1 == CropBound(cse.n, e) IN
          /\ s1 >= 0 /\ s1 <= cse.n /\ e1 >= 0 /\ e1 <= cse.n /\ InSsize(e1 - s1)
          /\ (e1 - s1 > 0) => (s1 + (e1 - s1) <= cse.n)
\* C undefined behaviour (signed overflow, access outside the array) is unreachable in every part
NoUB == \A k \in Keys : row[k][3] # "ub"

\* the macros mean what their names say (full ranges of the modelled types)
MacrosSound ==
  (Leaf /\ Part = "index" /\ cse.t.nm # "obj") =>
    /\ \A v \in TMin(cse.t)..TMax(cse.t) : Fits(cse.t, v) <=> InSsize(v)
    /\ cse.n >= 0 => \A i \in SMIN..SMAX : Valid(i, cse.n) <=> (i >= 0 /\ i < cse.n)
\* the reference slice algorithm selects exactly the declaratively defined indices
\* (a statement about (n, start, stop, step) only: evaluated on the states of one container and operation)
RefSound ==
  (Leaf /\ cse.c = [decl |-> "typed", kind |-> "list"] /\ cse.op = "get") =>
    /\ Part = "slice" => \A k \in Keys : SliceWellFormed(cse.n, PyB(cse.sb), PyB(k), NONE)
    /\ Part = "xslice" => \A k \in Keys : SliceWellFormed(cse.n, cse.s, k, cse.st)
\* shape of reference outcomes: a successful mutation has the right length
RefShape ==
  Part = "index" => \A k \in Keys :
     (row[k][1] \in {EI, ET}) \/ (cse.op = "get" /\ \E p \in 0..(cse.n - 1) : row[k][1] = Item(p))
     \/ (cse.op # "get" /\ Mutable(cse.c.kind))

PubRow == [k \in Keys |-> IF row[k][1] = row[k][2] /\ row[k][3] = "none" THEN <<row[k][1]>> ELSE row[k]]
Publish == (Dump /\ Leaf) => PrintT("@@" \o ToJson([part |-> Part, cse |-> cse, row |-> PubRow]))
=============================================================================
