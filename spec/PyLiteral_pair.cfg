SPECIFICATION Spec
CONSTANTS
  Family = "pair"
  Prefixes = {"", "u", "r", "b", "rb"}
  Quotes = {1, 4}
  Alphabet = "core"
  MaxAtoms = 2
  MaxParts = 1
  Prefixes2 = {}
  Quotes2 = {}
  LongReps = {}
  BigReps = {}
  Dump = TRUE
INVARIANT TypeOK
INVARIANT Compositional
INVARIANT RawInert
INVARIANT NoGrowth
INVARIANT Periodic
INVARIANT Publish
