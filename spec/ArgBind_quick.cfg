SPECIFICATION Spec
CONSTANTS
  MaxPO = 1
  MaxPK = 1
  MaxKO = 2
  FixPO = 9
  MaxPos = 4
  Extra = 2
  MaxKw = 2
  KindMode = "all"
  Dump = TRUE
INVARIANT RefIsDeclarative
INVARIANT ImplAgrees
INVARIANT Publish
CHECK_DEADLOCK FALSE
