--------------------------- MODULE ConstLiteral ---------------------------
(* C09, part 1: numeric literals keep their exact Python value.             *)
(*                                                                          *)
(*  Reference  : the lexical grammar of Python 3.12 numeric literals        *)
(*               (integer literals of the four bases, underscores, leading  *)
(*               zeros; point/exponent floats; imaginary literals) as an    *)
(*               automaton over characters, and the value the language      *)
(*               reference assigns to an accepted literal.  Integers of any *)
(*               size are carried as little-endian limbs (base 2^15), a     *)
(*               float as (decimal mantissa digits, power of ten).          *)
(*  Impl-shaped: Scanning.strip_underscores, Utils.str_to_number (branch    *)
(*               structure incl. the "Py2 octal" branch and int(s, 0)), and *)
(*               ExprNodes.IntNode.value_as_c_integer_string followed by a  *)
(*               reader of C integer literals (ISO C 6.4.4.1).              *)
(* A literal is built character by character (every state is a valid        *)
(* prefix); the "big" family appends whole blocks of digits after a short   *)
(* prefix so that values cross 2^31, 2^63, 2^64, 10^13 and far beyond.      *)
(* Every accepting state is a case: published with its reference value for  *)
(* the replay on compiled code (B1) and on the real str_to_number.           *)
EXTENDS Integers, Sequences, FiniteSets, TLC, Json

CONSTANTS Alphabet,    \* characters that may be appended one at a time
          MaxLen,      \* bound on the number of single characters
          Blocks,      \* sequences of characters appended as a whole (may be {})
          MaxBlocks,
          BlockAfter,  \* a first block may follow at most this many single characters
          Dump


(* configurations *)
IntAlphabet   == {"0", "1", "7", "9", "a", "f", "x", "o", "b", "_", "X", "O", "B"}
FloatAlphabet == {"0", "1", "5", "9", "_", ".", "e", "E", "+", "-", "j", "J"}
BigAlphabet   == {"0", "1", "9", "x", "o", "b", "X", "_"}
QuickAlphabet == IntAlphabet \cup {".", "e", "E", "+", "-", "j", "J"}
NoBlocks      == {}
BigBlocks     == { <<"f", "f", "f", "f", "_", "F", "F", "F", "F">>, <<"0", "0", "0", "0", "0", "0", "0">>,
                   <<"1", "2", "3", "4", "5", "6", "7">>, <<"9", "9", "9", "9", "9", "9", "9", "9", "9">>,
                   <<"7", "_", "7", "7", "7", "7", "7", "7", "7", "7">>, <<"1", "0", "1", "1", "_", "0", "0", "0", "1", "1">>,
                   <<"8", "0", "0", "0">> }

VARIABLES text, st, nch, nblk
vars == <<text, st, nch, nblk>>

DecDigits == {"0", "1", "2", "3", "4", "5", "6", "7", "8", "9"}
HexLetters == {"a", "b", "c", "d", "e", "f", "A", "B", "C", "D", "E", "F"}
DigitVal(c) == CASE c = "0" -> 0 [] c = "1" -> 1 [] c = "2" -> 2 [] c = "3" -> 3 [] c = "4" -> 4
                 [] c = "5" -> 5 [] c = "6" -> 6 [] c = "7" -> 7 [] c = "8" -> 8 [] c = "9" -> 9
                 [] c \in {"a", "A"} -> 10 [] c \in {"b", "B"} -> 11 [] c \in {"c", "C"} -> 12
                 [] c \in {"d", "D"} -> 13 [] c \in {"e", "E"} -> 14 [] c \in {"f", "F"} -> 15
                 [] OTHER -> 99
IsDigitOf(c, base) == (c \in DecDigits \/ c \in HexLetters) /\ DigitVal(c) < base

---------------------------------------------------------------------------
(* The grammar as an automaton.  States:                                    *)
(*  S start | Z "0" | ZZ zeros | ZZ_ | D decimal | D_ | LZ digits with a     *)
(*  leading zero (only a float/imag prefix) | LZ_ | PX PO PB base prefix |   *)
(*  PX_ PO_ PB_ | HX OC BN based digits | HX_ OC_ BN_ | DOT "." first |      *)
(*  FP digitpart "." | FR fraction digits | FR_ | E | ES | ED | ED_ | J      *)
Rej == "rej"
BaseOfState(s) == CASE s \in {"PX", "PX_", "HX", "HX_"} -> 16
                    [] s \in {"PO", "PO_", "OC", "OC_"} -> 8
                    [] s \in {"PB", "PB_", "BN", "BN_"} -> 2
                    [] OTHER -> 10
BasedDigits(s) == CASE BaseOfState(s) = 16 -> "HX" [] BaseOfState(s) = 8 -> "OC" [] OTHER -> "BN"

Step(s, c) ==
  CASE s = "S" ->
         IF c = "0" THEN "Z" ELSE IF c \in DecDigits THEN "D" ELSE IF c = "." THEN "DOT" ELSE Rej
    [] s \in {"Z", "ZZ"} ->
         IF c = "0" THEN "ZZ" ELSE IF c \in DecDigits THEN "LZ" ELSE IF c = "_" THEN "ZZ_"
         ELSE IF c = "." THEN "FP" ELSE IF c \in {"e", "E"} THEN "E" ELSE IF c \in {"j", "J"} THEN "J"
         ELSE IF s = "Z" /\ c \in {"x", "X"} THEN "PX" ELSE IF s = "Z" /\ c \in {"o", "O"} THEN "PO"
         ELSE IF s = "Z" /\ c \in {"b", "B"} THEN "PB" ELSE Rej
    [] s = "ZZ_" -> IF c = "0" THEN "ZZ" ELSE IF c \in DecDigits THEN "LZ" ELSE Rej
    [] s \in {"D", "LZ"} ->
         IF c \in DecDigits THEN s ELSE IF c = "_" THEN s \o "_"
         ELSE IF c = "." THEN "FP" ELSE IF c \in {"e", "E"} THEN "E" ELSE IF c \in {"j", "J"} THEN "J" ELSE Rej
    [] s = "D_" -> IF c \in DecDigits THEN "D" ELSE Rej
    [] s = "LZ_" -> IF c \in DecDigits THEN "LZ" ELSE Rej
    [] s \in {"PX", "PO", "PB"} ->
         IF IsDigitOf(c, BaseOfState(s)) THEN BasedDigits(s) ELSE IF c = "_" THEN s \o "_" ELSE Rej
    [] s \in {"PX_", "PO_", "PB_", "HX_", "OC_", "BN_"} ->
         IF IsDigitOf(c, BaseOfState(s)) THEN BasedDigits(s) ELSE Rej
    [] s \in {"HX", "OC", "BN"} ->
         IF IsDigitOf(c, BaseOfState(s)) THEN s ELSE IF c = "_" THEN s \o "_" ELSE Rej
    [] s = "DOT" -> IF c \in DecDigits THEN "FR" ELSE Rej
    [] s = "FP" -> IF c \in DecDigits THEN "FR" ELSE IF c \in {"e", "E"} THEN "E" ELSE IF c \in {"j", "J"} THEN "J" ELSE Rej
    [] s = "FR" -> IF c \in DecDigits THEN "FR" ELSE IF c = "_" THEN "FR_"
                   ELSE IF c \in {"e", "E"} THEN "E" ELSE IF c \in {"j", "J"} THEN "J" ELSE Rej
    [] s = "FR_" -> IF c \in DecDigits THEN "FR" ELSE Rej
    [] s = "E" -> IF c \in DecDigits THEN "ED" ELSE IF c \in {"+", "-"} THEN "ES" ELSE Rej
    [] s = "ES" -> IF c \in DecDigits THEN "ED" ELSE Rej
    [] s = "ED" -> IF c \in DecDigits THEN "ED" ELSE IF c = "_" THEN "ED_" ELSE IF c \in {"j", "J"} THEN "J" ELSE Rej
    [] s = "ED_" -> IF c \in DecDigits THEN "ED" ELSE Rej
    [] OTHER -> Rej

RECURSIVE Run(_, _)
Run(s, cs) == IF cs = <<>> \/ s = Rej THEN s ELSE Run(Step(s, Head(cs)), Tail(cs))

IntStates == {"Z", "ZZ", "D", "HX", "OC", "BN"}
FloatStates == {"FP", "FR", "ED"}
Kind(s, t) == IF s \in IntStates THEN "int" ELSE IF s \in FloatStates THEN "float"
              ELSE IF s = "J" THEN "imag" ELSE "none"

---------------------------------------------------------------------------
(* integers of any size: little-endian limbs *)
LB == 32768
RECURSIVE MulAdd(_, _, _)
MulAdd(l, m, c) == IF l = <<>> THEN (IF c = 0 THEN <<>> ELSE <<c>>)
                   ELSE LET t == Head(l) * m + c IN <<t % LB>> \o MulAdd(Tail(l), m, t \div LB)
RECURSIVE Positional(_, _, _)
\* value of the digit characters ds in `base`, starting from the limbs acc
Positional(ds, base, acc) ==
  IF ds = <<>> THEN acc ELSE Positional(Tail(ds), base, MulAdd(acc, base, DigitVal(Head(ds))))
\* small values as a TLC integer (-1 when the value needs more than two limbs)
Small(l) == IF Len(l) = 0 THEN 0 ELSE IF Len(l) = 1 THEN l[1] ELSE IF Len(l) = 2 THEN l[1] + LB * l[2] ELSE -1

NoUnderscore(t) == SelectSeq(t, LAMBDA c : c # "_")

(* reference value of an accepted integer literal: the base is given by the *)
(* prefix, the digits are read positionally, underscores do not count       *)
RefBase(t) == IF Len(t) >= 2 /\ t[1] = "0" /\ t[2] \in {"x", "X"} THEN 16
              ELSE IF Len(t) >= 2 /\ t[1] = "0" /\ t[2] \in {"o", "O"} THEN 8
              ELSE IF Len(t) >= 2 /\ t[1] = "0" /\ t[2] \in {"b", "B"} THEN 2 ELSE 10
RefDigits(t) == NoUnderscore(IF RefBase(t) = 10 THEN t ELSE SubSeq(t, 3, Len(t)))
RefInt(t) == Positional(RefDigits(t), RefBase(t), <<>>)

(* reference reading of a float / imaginary literal: mantissa digits and a  *)
(* power of ten (value = mant * 10^exp10, to be rounded to the nearest      *)
(* double by the reader of this record)                                     *)
IndexOfIn(t, set) == IF \E i \in 1..Len(t) : t[i] \in set
                     THEN CHOOSE i \in 1..Len(t) : t[i] \in set /\ \A j \in 1..(i - 1) : t[j] \notin set
                     ELSE 0
RECURSIVE SmallDec(_, _)
SmallDec(ds, acc) == IF ds = <<>> THEN acc ELSE SmallDec(Tail(ds), IF acc > 100000 THEN acc ELSE acc * 10 + DigitVal(Head(ds)))
RefFloat(t0) ==
  LET t  == NoUnderscore(IF t0[Len(t0)] \in {"j", "J"} THEN SubSeq(t0, 1, Len(t0) - 1) ELSE t0)
      ie == IndexOfIn(t, {"e", "E"})
      m  == IF ie = 0 THEN t ELSE SubSeq(t, 1, ie - 1)
      ex == IF ie = 0 THEN <<>> ELSE SubSeq(t, ie + 1, Len(t))
      neg == ex # <<>> /\ ex[1] = "-"
      exd == IF ex # <<>> /\ ex[1] \in {"+", "-"} THEN Tail(ex) ELSE ex
      ev == SmallDec(exd, 0)        \* saturates above 10^5: far beyond the double range either way
      id == IndexOfIn(m, {"."})
      ip == IF id = 0 THEN m ELSE SubSeq(m, 1, id - 1)
      fp == IF id = 0 THEN <<>> ELSE SubSeq(m, id + 1, Len(m))
  IN [mant |-> ip \o fp, exp10 |-> (IF neg THEN -ev ELSE ev) - Len(fp)]

---------------------------------------------------------------------------
(* implementation-shaped: Cython's pipeline for an INT token *)
\* Python's int(s, base) for base in {2, 8, 10, 16} on a string without prefix / underscores:
\* <<TRUE, limbs>> or <<FALSE, <<>>>> (ValueError)
PyIntBase(ds, base) == IF ds # <<>> /\ \A i \in 1..Len(ds) : IsDigitOf(ds[i], base)
                       THEN <<TRUE, Positional(ds, base, <<>>)>> ELSE <<FALSE, <<>>>>
\* int(s, 0): base from the prefix; a decimal string with a leading zero must be all zeros
PyIntAuto(v) ==
  IF Len(v) >= 2 /\ v[1] = "0" /\ v[2] \in {"x", "X"} THEN PyIntBase(SubSeq(v, 3, Len(v)), 16)
  ELSE IF Len(v) >= 2 /\ v[1] = "0" /\ v[2] \in {"o", "O"} THEN PyIntBase(SubSeq(v, 3, Len(v)), 8)
  ELSE IF Len(v) >= 2 /\ v[1] = "0" /\ v[2] \in {"b", "B"} THEN PyIntBase(SubSeq(v, 3, Len(v)), 2)
  ELSE IF Len(v) >= 2 /\ v[1] = "0" /\ \E i \in 1..Len(v) : v[i] # "0" THEN <<FALSE, <<>>>>
  ELSE PyIntBase(v, 10)

StrToNumber(v) ==                  \* Utils.str_to_number (the value has no sign here)
  IF Len(v) < 2 THEN PyIntAuto(v)
  ELSE IF v[1] = "0" THEN
       LET lt == v[2] IN
       IF lt \in {"x", "X"} THEN PyIntBase(SubSeq(v, 3, Len(v)), 16)
       ELSE IF lt \in {"o", "O"} THEN PyIntBase(SubSeq(v, 3, Len(v)), 8)
       ELSE IF lt \in {"b", "B"} THEN PyIntBase(SubSeq(v, 3, Len(v)), 2)
       ELSE PyIntBase(v, 8)        \* "Py2 octal notation"
  ELSE PyIntAuto(v)

ImplInt(t) == StrToNumber(NoUnderscore(t))

RECURSIVE DecString(_)             \* str(n) for a small natural number, as characters
DigitChar(d) == CASE d = 0 -> "0" [] d = 1 -> "1" [] d = 2 -> "2" [] d = 3 -> "3" [] d = 4 -> "4"
                  [] d = 5 -> "5" [] d = 6 -> "6" [] d = 7 -> "7" [] d = 8 -> "8" [] d = 9 -> "9"
                  [] d = 10 -> "A" [] d = 11 -> "B" [] d = 12 -> "C" [] d = 13 -> "D" [] d = 14 -> "E" [] OTHER -> "F"
DecString(n) == IF n < 10 THEN <<DigitChar(n)>> ELSE DecString(n \div 10) \o <<DigitChar(n % 10)>>
RECURSIVE HexString(_)
HexString(n) == IF n < 16 THEN <<DigitChar(n)>> ELSE HexString(n \div 16) \o <<DigitChar(n % 16)>>
AllDecimal(v) == \A i \in 1..Len(v) : v[i] \in DecDigits

\* IntNode.value_as_c_integer_string for a non-negative literal without suffixes whose
\* value is below 2^30 (so that it is a TLC integer)
CIntegerString(v, small) ==
  IF Len(v) <= 2 THEN v
  ELSE IF v[1] = "0" THEN
       LET lt == v[2] IN
       IF lt \in {"o", "O"} THEN <<"0">> \o SubSeq(v, 3, Len(v))
       ELSE IF lt \in {"b", "B"} THEN DecString(small)
       ELSE v
  ELSE IF AllDecimal(v) THEN <<"0", "x">> \o HexString(small)
  ELSE v
\* value of a C integer literal (6.4.4.1): 0x.. hexadecimal, leading 0 octal, else decimal
CLiteralValue(c) ==
  IF Len(c) >= 2 /\ c[1] = "0" /\ c[2] \in {"x", "X"} THEN PyIntBase(SubSeq(c, 3, Len(c)), 16)
  ELSE IF Len(c) >= 2 /\ c[1] = "0" THEN PyIntBase(c, 8)
  ELSE PyIntBase(c, 10)

---------------------------------------------------------------------------
Init == text = <<>> /\ st = "S" /\ nch = 0 /\ nblk = 0

AppendClass(cls) == /\ nblk = 0 /\ nch < MaxLen
                    /\ \E c \in Alphabet \cap cls :
                         /\ Step(st, c) # Rej
                         /\ text' = Append(text, c) /\ st' = Step(st, c)
                    /\ nch' = nch + 1 /\ UNCHANGED nblk
Digit      == st # Rej /\ AppendClass(DecDigits)
HexLetter  == st \in {"PX", "PX_", "HX", "HX_"} /\ AppendClass(HexLetters)
Underscore == st # "S" /\ AppendClass({"_"})
BasePrefix == st = "Z" /\ AppendClass({"x", "X", "o", "O", "b", "B"})
Dot        == st \in {"S", "Z", "ZZ", "D", "LZ"} /\ AppendClass({"."})
Exponent   == st \notin {"PX", "PX_", "HX", "HX_"} /\ AppendClass({"e", "E"})
ExpSign    == st = "E" /\ AppendClass({"+", "-"})
Imag       == st # "S" /\ AppendClass({"j", "J"})
Block      == /\ nblk < MaxBlocks /\ (nblk > 0 \/ nch <= BlockAfter)
              /\ \E b \in Blocks : /\ Run(st, b) # Rej
                                   /\ text' = text \o b /\ st' = Run(st, b)
              /\ nblk' = nblk + 1 /\ UNCHANGED nch

Next == Digit \/ HexLetter \/ Underscore \/ BasePrefix \/ Dot \/ Exponent \/ ExpSign \/ Imag \/ Block
Spec == Init /\ [][Next]_vars

---------------------------------------------------------------------------
K == Kind(st, text)

(* the state reached incrementally is the state of the whole text *)
AutomatonConsistent == st = Run("S", text) /\ st # Rej

(* str_to_number agrees with the reference on every accepted integer literal *)
StrToNumberOK == K = "int" => ImplInt(text) = <<TRUE, RefInt(text)>>

(* the C literal written for a small value denotes the same value in C *)
CLiteralOK == (K = "int" /\ Len(RefInt(text)) <= 2) =>
                 LET v == NoUnderscore(text) IN
                 CLiteralValue(CIntegerString(v, Small(RefInt(text)))) = <<TRUE, RefInt(text)>>

(* underscores never change a value: reading the text without them gives the same state kind *)
UnderscoreNeutral == K \in {"int", "float", "imag"} =>
                        Kind(Run("S", NoUnderscore(text)), NoUnderscore(text)) = K

(* An imaginary literal whose integer digit part has a leading zero, a non-zero digit and an underscore *)
(* ("05_1j") is valid Python; Cython's lexer (Lexicon.imagconst = (intconst | fltconst) + j) does not   *)
(* accept it.  That is a rejected program, not a wrong value: the class is flagged and not replayed.    *)
LeadingZeroUnderscoreImag ==
  /\ K = "imag" /\ text[1] = "0"
  /\ \E i \in 1..Len(text) : text[i] = "_"
  /\ \E i \in 1..Len(text) : text[i] \in (DecDigits \ {"0"})
  /\ \A i \in 1..Len(text) : text[i] \notin {".", "e", "E"}

RECURSIVE Join(_)
Join(cs) == IF cs = <<>> THEN "" ELSE Head(cs) \o Join(Tail(cs))

Publish == (Dump /\ K # "none") =>
             PrintT("@@" \o ToJson(
               IF K = "int"
               THEN [text |-> Join(text), kind |-> K, base |-> RefBase(text), limbs |-> RefInt(text),
                     mant |-> "", exp10 |-> 0, st |-> st, lzu |-> FALSE,
                     cl |-> IF Len(RefInt(text)) <= 2 THEN Join(CIntegerString(NoUnderscore(text), Small(RefInt(text)))) ELSE ""]
               ELSE [text |-> Join(text), kind |-> K, base |-> 10, limbs |-> <<>>,
                     mant |-> Join(RefFloat(text).mant), exp10 |-> RefFloat(text).exp10, st |-> st,
                     lzu |-> LeadingZeroUnderscoreImag, cl |-> ""]))
=============================================================================
