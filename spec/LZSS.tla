------------------------------- MODULE LZSS -------------------------------
(* C12: the compressed string-table FORMAT of generated modules.            *)
(*                                                                          *)
(* Reference decoder (Group / Finish actions): a state machine              *)
(*   (pos, out, st) over a byte sequence `src` and an expected output       *)
(* length `n`, transcribed from the format description in Cython/LZSS.py    *)
(* and the comments of DecompressString_LZSS (Utility/StringTools.c):       *)
(*   - one flag byte per 8 tokens, bit j (LSB first) = 1: literal byte,     *)
(*     0: back reference; unused high bits of the last flag byte are 0 and  *)
(*     must never be interpreted (decoding stops when `n` bytes exist);     *)
(*   - back reference, byte lo, byte hi [, byte len]:                       *)
(*       enc 1  lo < 0x80            : off = lo,  len = hi + 3              *)
(*       enc 2  lo >= 0x80, hi < 0x80: off = 0x80 + (bits 5-6 of hi) * 128  *)
(*                                            + (lo & 0x7F), len = (hi&31)+3*)
(*       enc 3  lo, hi >= 0x80       : off = 0x80 + (hi & 0x7F) * 128       *)
(*                                            + (lo & 0x7F), len = byte + 3 *)
(*     `off` is the distance between the END of the earlier occurrence and  *)
(*     the current output position: the copy source is                      *)
(*     out[olen - off - len, olen - off), it never overlaps its target.     *)
(*   The payload widths are constants (real values: Base = 128,             *)
(*   Off2N = 512, Len2N = 32, Off3N = 16384, Len8N = 256) so that the       *)
(*   "scaled" configuration can shrink them.                                *)
(* Memory-access obligations are part of the verdict: every src byte read   *)
(* lies below Len(src) ("oob-read" otherwise), every output byte written    *)
(* lies below n ("oob-write"), every copy source starts at >= 0 ("bad-ref") *)
(* (its end is <= olen by construction), the decoder stops exactly at       *)
(* pos = Len(src) ("length") and has produced the wanted bytes ("mismatch").*)
(*                                                                          *)
(* Mode "records": one initial state per record [id, data, comp] produced   *)
(*   by the real compressor Cython/LZSS.py:lzss_compress (IOEnv.RECORDS,    *)
(*   ndjson); the terminal state of each record publishes the verdict.      *)
(* Mode "streams": one initial state per boundary token stream (abstract    *)
(*   tokens: literal runs and back references at the edges of each          *)
(*   encoding); `Meaning` defines what a token stream denotes, `ToBytes`    *)
(*   its byte form.  Invariant RoundTrip: the reference decoder accepts     *)
(*   ToBytes(ts), consumes all of it, never leaves its buffers and yields   *)
(*   Meaning(ts).  The terminal states publish (src, n, out) as expected    *)
(*   observations for the real C decoder.                                   *)
(* Mode "scaled": a transcription of the compressor's token choice          *)
(*   (longest match, lazy matching, choice of encoding: FindMatch, Emit),   *)
(*   with the payload widths shrunk so that every limit is reached by short *)
(*   strings.  Invariant RoundTrip: Decode(Encode(s)) = s, all consumed, in *)
(*   bounds, for ALL strings up to MaxS over Alphabet.                      *)
(* Mode "transcr": fidelity of that transcription: with the real widths,    *)
(*   Encode(data) of the records' inputs is decoded (RoundTrip again) and   *)
(*   compared with the bytes the real compressor produced (published flag   *)
(*   `same`; a difference is not a violation of C12, it only says that the  *)
(*   "scaled" result speaks about a different token choice).                *)
EXTENDS Naturals, Integers, Sequences, Json, TLC, IOUtils, FiniteSets

CONSTANTS Mode,      \* "records" | "streams" | "scaled" | "transcr"
          Big,       \* streams: include the far-offset streams with literal-only filler
          MaxS,      \* scaled: maximal string length
          Alphabet,  \* scaled: set of byte values
          Base,      \* offsets 0..Base-1 use encoding 1; payload of `lo` is 0..Base-1 (real: 128)
          Off2N,     \* encoding 2: offsets Base..Base+Off2N-1            (real: 512)
          Len2N,     \* encoding 2: lengths 3..Len2N+2                    (real: 32)
          Off3N,     \* encoding 3: offsets Base..Base+Off3N-1            (real: 16384)
          Len8N,     \* encodings 1 and 3: lengths 3..Len8N+2             (real: 256)
          GPS        \* flag groups decoded per transition (granularity of the state graph only)

ASSUME /\ Base \in 1..128 /\ Off2N % Base = 0 /\ (Off2N \div Base) * Len2N <= 128
       /\ Off3N % Base = 0 /\ Off3N \div Base <= 128 /\ Len8N <= 256 /\ Len2N <= Len8N

Records == IF Mode \in {"records", "transcr"} THEN ndJsonDeserialize(IOEnv.RECORDS) ELSE <<>>
NRec == Len(Records)

Pow2(k) == 2 ^ k
MinLen == 3
MaxLen == Len8N - 1 + MinLen

---------------------------------------------------------------------------
(* reference decoder: one token *)
(* d = [pos, g, st, cnt, marks]: bytes consumed, bytes produced in the      *)
(* current flag group (the committed output `o` is passed separately),      *)
(* status, token counts <<literals, enc1, enc2, enc3>>, boundary marks.     *)

At(o, g, k) == IF k <= Len(o) THEN o[k] ELSE g[k - Len(o)]
Slice(o, g, a, len) ==           \* bytes a+1 .. a+len of o \o g
  IF a + len <= Len(o) THEN SubSeq(o, a + 1, a + len)
  ELSE [i \in 1..len |-> At(o, g, a + i)]

Fail(d, why) == [d EXCEPT !.st = why]

MarksOf(enc, off, len, ref) ==
       (IF ref = 0 THEN {"ref0"} ELSE {})
  \cup (IF off = 0 THEN {"off0"} ELSE {})
  \cup (IF enc = 1 /\ off = Base - 1 THEN {"e1.offmax"} ELSE {})
  \cup (IF enc = 2 /\ off = Base THEN {"e2.offmin"} ELSE {})
  \cup (IF enc = 2 /\ off = Base + Off2N - 1 THEN {"e2.offmax"} ELSE {})
  \cup (IF enc = 2 /\ len = Len2N - 1 + MinLen THEN {"e2.lenmax"} ELSE {})
  \cup (IF enc = 3 /\ off = Base + Off2N THEN {"e3.offmin"} ELSE {})
  \cup (IF enc = 3 /\ off = Base + Off3N - 1 THEN {"e3.offmax"} ELSE {})
  \cup (IF enc = 3 /\ len = Len2N + MinLen THEN {"e3.lenmin"} ELSE {})
  \cup (IF len = MaxLen THEN {"lenmax"} ELSE {})
  \cup (IF len = MinLen THEN {"lenmin"} ELSE {})

Copy(o, n, d, newpos, enc, off, len) ==
  LET olen == Len(o) + Len(d.g)
      ref  == olen - off - len
  IN IF ref < 0 THEN Fail(d, "bad-ref")
     ELSE IF olen + len > n THEN Fail(d, "oob-write")
     ELSE [pos |-> newpos, g |-> d.g \o Slice(o, d.g, ref, len), st |-> "run",
           cnt |-> [d.cnt EXCEPT ![enc + 1] = @ + 1],
           marks |-> d.marks \cup MarksOf(enc, off, len, ref)]

Tok(src, o, n, bit, d) ==
  LET L == Len(src)
      p == d.pos
  IN
  IF bit = 1 THEN
       IF p + 1 > L THEN Fail(d, "oob-read")
       ELSE IF Len(o) + Len(d.g) + 1 > n THEN Fail(d, "oob-write")
       ELSE [d EXCEPT !.pos = p + 1, !.g = Append(@, src[p + 1]), !.cnt[1] = @ + 1]
  ELSE
       IF p + 2 > L THEN Fail(d, "oob-read")          \* lo and hi are read together
       ELSE LET lo == src[p + 1]
                hi == src[p + 2]
            IN IF lo < 128 THEN
                    Copy(o, n, d, p + 2, 1, lo, hi + MinLen)
               ELSE IF hi < 128 THEN
                    Copy(o, n, d, p + 2, 2,
                         Base + ((hi \div Len2N) % (Off2N \div Base)) * Base + (lo % 128),
                         (hi % Len2N) + MinLen)
               ELSE IF p + 3 > L THEN Fail(d, "oob-read")
               ELSE Copy(o, n, d, p + 3, 3,
                         Base + (hi % 128) * Base + (lo % 128), src[p + 3] + MinLen)

(* the (at most 8) tokens governed by one flag byte *)
RECURSIVE Toks(_, _, _, _, _, _)
Toks(src, o, n, flags, j, d) ==
  IF j = 8 THEN d
  ELSE LET d2 == Tok(src, o, n, (flags \div Pow2(j)) % 2, d) IN
       IF d2.st # "run" THEN d2
       ELSE IF Len(o) + Len(d2.g) >= n THEN [d2 EXCEPT !.st = "done"]
       ELSE Toks(src, o, n, flags, j + 1, d2)

(* one flag byte and its tokens; up to k flag groups in a row *)
GroupStep(src, o, n, d) ==
  IF d.pos + 1 > Len(src) THEN Fail(d, "oob-read")
  ELSE Toks(src, o, n, src[d.pos + 1], 0, [d EXCEPT !.pos = @ + 1])

RECURSIVE Groups(_, _, _, _, _)
Groups(src, o, n, k, d) ==
  IF k = 0 \/ d.st # "run" THEN d ELSE Groups(src, o, n, k - 1, GroupStep(src, o, n, d))

---------------------------------------------------------------------------
(* byte form of a list of atomic tokens A[i] = [bit, by] *)
RECURSIVE GroupBytes(_, _, _, _, _)
GroupBytes(A, base, j, flags, acc) ==     \* tokens base+1 .. base+8
  IF j = 8 \/ base + j + 1 > Len(A) THEN <<flags>> \o acc
  ELSE GroupBytes(A, base, j + 1, flags + A[base + j + 1].bit * Pow2(j), acc \o A[base + j + 1].by)

RECURSIVE CatGroups(_, _, _)
CatGroups(A, lo, hi) ==                   \* groups lo..hi, balanced concatenation
  IF lo > hi THEN <<>>
  ELSE IF lo = hi THEN GroupBytes(A, 8 * (lo - 1), 0, 0, <<>>)
  ELSE LET mid == (lo + hi) \div 2 IN CatGroups(A, lo, mid) \o CatGroups(A, mid + 1, hi)

Bytes(A) == CatGroups(A, 1, (Len(A) + 7) \div 8)

RefBytes(enc, off, len) ==
  CASE enc = 1 -> <<off, len - MinLen>>
    [] enc = 2 -> LET x == off - Base IN <<128 + (x % Base), (x \div Base) * Len2N + (len - MinLen)>>
    [] enc = 3 -> LET x == off - Base IN <<128 + (x % Base), 128 + (x \div Base), len - MinLen>>

---------------------------------------------------------------------------
(* abstract token streams (mode "streams") *)
(* token = [k: "L" | "R", b: literal bytes, enc, off, len]                  *)

Fill(k) == (((k * k) % 8191) + k) % 256       \* aperiodic filler bytes, k < 46000

Lits(a, cnt) == [k |-> "L", b |-> [i \in 1..cnt |-> Fill(a + i)], enc |-> 0, off |-> 0, len |-> 0]
Ref(enc, off, len) == [k |-> "R", b |-> <<>>, enc |-> enc, off |-> off, len |-> len]

(* F bytes of filler: literals only, or 259 literals repeated by maximal-length references *)
Filler(F, kind) ==
  IF kind = "lit" \/ F <= 259 THEN <<Lits(0, F)>>
  ELSE LET r == (F - 259) \div 258
           e == (F - 259) % 258
       IN <<Lits(0, 259)>> \o [i \in 1..r |-> Ref(1, 1, 258)] \o (IF e > 0 THEN <<Lits(300, e)>> ELSE <<>>)

Stream(p) ==
     Filler(p.off + p.len + p.d, p.fk)
  \o <<Ref(p.enc, p.off, p.len)>>
  \o (IF p.two = 1 THEN <<Ref(1, 0, 3)>>                 \* copies the last 3 bytes of the copy
      ELSE IF p.two = 2 THEN <<Ref(2, Base, p.len)>>     \* a second reference right behind the first
      ELSE <<>>)
  \o (IF p.tail > 0 THEN <<Lits(20000, p.tail)>> ELSE <<>>)

(* what a token stream denotes *)
RECURSIVE Meaning(_, _, _)
Meaning(ts, i, o) ==
  IF i > Len(ts) THEN o
  ELSE LET t == ts[i] IN
       Meaning(ts, i + 1,
               IF t.k = "L" THEN o \o t.b
               ELSE o \o SubSeq(o, Len(o) - t.off - t.len + 1, Len(o) - t.off))

(* legal tokens of the format *)
LegalRef(t) ==
  CASE t.enc = 1 -> t.off \in 0..(Base - 1) /\ t.len \in MinLen..MaxLen
    [] t.enc = 2 -> t.off \in Base..(Base + Off2N - 1) /\ t.len \in MinLen..(Len2N - 1 + MinLen)
    [] t.enc = 3 -> t.off \in Base..(Base + Off3N - 1) /\ t.len \in MinLen..MaxLen

RECURSIVE Atoms(_, _)
Atoms(ts, i) ==
  IF i > Len(ts) THEN <<>>
  ELSE LET t == ts[i] IN
       (IF t.k = "L" THEN [j \in 1..Len(t.b) |-> [bit |-> 1, by |-> <<t.b[j]>>]]
        ELSE <<[bit |-> 0, by |-> RefBytes(t.enc, t.off, t.len)]>>) \o Atoms(ts, i + 1)

ToBytes(ts) == Bytes(Atoms(ts, 1))

(* the boundary family (real constants) *)
E1Offs == {0, 1, 2, 64, 126, 127}
E2Offs == IF Big THEN {128, 129, 255, 256, 383, 384, 511, 512, 638, 639} ELSE {128, 129, 255, 256, 384, 511, 512, 639}
E3Near == {128, 255, 256, 639, 640}
E3Far  == {128 + 8191, 128 + 8192, 128 + 16256, 128 + 16382, 128 + 16383}
LongLens  == {3, 4, 34, 35, 257, 258}
ShortLens == {3, 4, 33, 34}

P(enc, off, len, d, tail, fk, two) ==
  [enc |-> enc, off |-> off, len |-> len, d |-> d, tail |-> tail, fk |-> fk, two |-> two]

DS == IF Big THEN 0..7 ELSE {0, 7}         \* distance of the copy source from the start of the output;
                                           \* it also moves the reference through the flag-bit positions
FK(d) == IF d % 2 = 0 THEN "lit" ELSE "rep"
StreamParams ==
       {P(1, off, len, d, tail, "lit", two) : off \in E1Offs, len \in LongLens, d \in DS, tail \in {0, 1}, two \in {0, 1}}
  \cup {P(2, off, len, d, 0, FK(d), two) : off \in E2Offs, len \in ShortLens, d \in DS \ {1}, two \in {0, 1, 2}}
  \cup {P(2, off, len, d, 2, FK(d), 0) : off \in E2Offs, len \in ShortLens, d \in DS \ {1}}
  \cup {P(3, off, len, 0, tail, "lit", 0) : off \in E3Near, len \in LongLens, tail \in {0, 1}}
  \cup {P(3, off, len, 7, tail, "rep", 0) : off \in E3Near, len \in LongLens, tail \in {0, 1}}
  \cup {P(3, off, len, 0, 0, "rep", 1) : off \in E3Near, len \in LongLens}
  \cup {P(3, off, len, d, 0, "rep", 0) : off \in E3Far, len \in {3, 4, 35, 258}, d \in {0, 6}}
  \cup {P(3, off, 258, 1, 9, "rep", 1) : off \in E3Far}
  \cup {P(3, 128 + 16383, 258, 0, 0, "lit", 0)}
  \cup (IF Big THEN {P(3, off, len, d, 0, "lit", 0) : off \in E3Far, len \in {3, 258}, d \in {0, 5}}
                  \cup {P(3, off, len, d, tail, "rep", two) : off \in E3Far, len \in LongLens, d \in {0, 1, 7},
                                                              tail \in {0, 1, 9}, two \in {0, 1}}
                  \cup {P(3, off, len, d, tail, fk, 0) : off \in E3Near, len \in LongLens, d \in DS \ {1}, tail \in {0, 1},
                                                          fk \in {"lit", "rep"}}
        ELSE {})

---------------------------------------------------------------------------
(* Transcription of Cython/LZSS.py:lzss_compress (token choice).            *)
(* WINDOW_SIZE = Off3N + Base ((1 << 14) + 128), MAX_MATCH = Len8N + 2      *)
(* (255 + 3).  Positions are 0-based as in the Python code; `starts` is the *)
(* set of positions entered into the triplet table (token start positions); *)
(* the table lists them in insertion (= ascending) order.                   *)
Min2(a, b) == IF a < b THEN a ELSE b
Min3(a, b, c) == Min2(a, Min2(b, c))
Max2(a, b) == IF a > b THEN a ELSE b
Win == Off3N + Base

RECURSIVE Extend(_, _, _, _, _)
Extend(s, a, b, m, maxlen) ==    \* while m < maxlen and s[a+m] == s[b+m]: m += 1
  IF m < maxlen /\ s[a + m + 1] = s[b + m + 1] THEN Extend(s, a, b, m + 1, maxlen) ELSE m

Key(s, p) == SubSeq(s, p + 1, Min2(p + 3, Len(s)))
Cands(s, p, starts, key) ==      \* hash_table[key], ascending
  SelectSeq([i \in 1..p |-> i - 1], LAMBDA q : q \in starts /\ Key(s, q) = key)

(* first loop of find_longest_match: a strictly longer storable match wins *)
RECURSIVE Best(_, _, _, _, _)
Best(s, p, cands, i, best) ==    \* best = <<offset, len>>
  IF i > Len(cands) THEN best
  ELSE LET q == cands[i]
           maxm == Min2(MaxLen, Len(s) - p)
           ws == Max2(0, p - Win - maxm)
       IN IF q < ws \/ q >= p THEN Best(s, p, cands, i + 1, best)
          ELSE LET ml == Extend(s, q, p, 3, Min2(maxm, p - q))
               IN IF ml > best[2] /\ p - q - ml < Win
                  THEN Best(s, p, cands, i + 1, <<p - q, ml>>)
                  ELSE Best(s, p, cands, i + 1, best)

(* lazy matching: the best match length at p + 1 *)
RECURSIVE NextBest(_, _, _, _, _)
NextBest(s, p, cands, i, nb) ==
  IF i > Len(cands) THEN nb
  ELSE LET q == cands[i]
           maxm == Min2(MaxLen, Len(s) - p)
           ws == Max2(0, p + 1 - Win - maxm)
       IN IF q < ws THEN NextBest(s, p, cands, i + 1, nb)
          ELSE LET ml == Extend(s, q, p + 1, 3, Min3(maxm, p - q, Len(s) - p - 1))
               IN IF ml > nb /\ p - q - nb < Win THEN NextBest(s, p, cands, i + 1, ml)
                  ELSE NextBest(s, p, cands, i + 1, nb)

FindMatch(s, p, starts) ==
  IF p + 3 > Len(s) THEN <<0, 0>>
  ELSE LET maxm == Min2(MaxLen, Len(s) - p)
           c1 == Cands(s, p, starts, Key(s, p))
           b == Best(s, p, c1, 1, <<0, 0>>)
           c2 == Cands(s, p, starts, Key(s, p + 1))
       IN IF c1 = <<>> THEN <<0, 0>>
          ELSE IF 0 < b[2] /\ b[2] < maxm /\ c2 # <<>> /\ p + b[2] + 1 < Len(s)
                  /\ NextBest(s, p, c2, 1, 0) > b[2] + 1
               THEN <<0, 0>>
               ELSE b

(* the token emitted at p for the match <<offset, len>>: <<flag bit, bytes, advance>> *)
Emit(s, p, m) ==
  LET len == m[2]
      off == m[1] - len          \* "offset >= length if interesting, so remove redundancy"
      lit == <<1, <<s[p + 1]>>, 1>>
  IN IF len < 3 \/ off < 0 THEN lit
     ELSE IF off <= Base - 1 THEN <<0, RefBytes(1, off, len), len>>
     ELSE LET x == off - Base
              lb == len - 3
          IN IF lb < Len2N /\ x < Off2N THEN <<0, RefBytes(2, off, len), len>>
             ELSE IF len > 3 /\ x < Off3N THEN <<0, RefBytes(3, off, len), len>>
             ELSE lit

RECURSIVE EncToks(_, _, _, _)
EncToks(s, p, starts, acc) ==
  IF p >= Len(s) THEN acc
  ELSE LET e == Emit(s, p, FindMatch(s, p, starts))
       IN EncToks(s, p + e[3], starts \cup {p}, Append(acc, [bit |-> e[1], by |-> e[2]]))

Encode(s) == Bytes(EncToks(s, 0, {}, <<>>))
Strings == UNION {[1..k -> Alphabet] : k \in 0..MaxS}

---------------------------------------------------------------------------
VARIABLES case,   \* records, transcr: [id]; streams: the parameter record; scaled: [s]
          src,    \* the compressed bytes (records: <<>>, the bytes stay in Records: see Src)
          n,      \* expected output length
          pos,    \* bytes of src consumed
          out,    \* bytes produced
          st,     \* "run" | "done" | verdict
          cnt,    \* tokens <<literals, enc1, enc2, enc3>>
          marks   \* boundary marks reached
vars == <<case, src, n, pos, out, st, cnt, marks>>

Verdicts == {"ok", "oob-read", "oob-write", "bad-ref", "length", "mismatch"}
Terminal == st \in Verdicts

Src == IF Mode = "records" THEN Records[case.id].comp ELSE src
Want == CASE Mode = "records" -> Records[case.id].data
          [] Mode = "streams" -> Meaning(Stream(case), 1, <<>>)
          [] Mode = "scaled"  -> case.s
          [] Mode = "transcr" -> Records[case.id].data

Init ==
  /\ \/ Mode = "records" /\ \E r \in 1..NRec : case = [id |-> r]
     \/ Mode = "streams" /\ \E p \in StreamParams : case = p
     \/ Mode = "scaled"  /\ \E s \in Strings : case = [s |-> s]
     \/ Mode = "transcr" /\ \E r \in 1..NRec : case = [id |-> r]
  /\ src = <<>> /\ n = 0 /\ pos = 0 /\ out = <<>> /\ cnt = <<0, 0, 0, 0>> /\ marks = {}
  /\ st = "load"

(* obtain the compressed bytes of the case *)
Load ==
  /\ st = "load"
  /\ LET w == Len(Want) IN
       /\ n' = w
       /\ st' = IF w = 0 THEN "done" ELSE "run"     \* nothing to decode: no byte may be touched
  /\ src' = CASE Mode = "records" -> <<>>
              [] Mode = "streams" -> ToBytes(Stream(case))
              [] Mode = "scaled"  -> Encode(case.s)
              [] Mode = "transcr" -> Encode(Records[case.id].data)
  /\ UNCHANGED <<case, pos, out, cnt, marks>>

(* decode the next GPS flag groups (flag byte + the tokens it governs) *)
Group ==
  /\ st = "run"
  /\ LET d == Groups(Src, out, n, GPS, [pos |-> pos, g |-> <<>>, st |-> "run", cnt |-> cnt, marks |-> marks])
     IN /\ pos' = d.pos
        /\ out' = out \o d.g
        /\ st' = d.st
        /\ cnt' = d.cnt
        /\ marks' = d.marks
  /\ UNCHANGED <<case, src, n>>

(* the decoder has returned `pos`: compare with the compressed length and the wanted bytes *)
Finish ==
  /\ st = "done"
  /\ st' = IF pos # Len(Src) THEN "length" ELSE IF out # Want THEN "mismatch" ELSE "ok"
  /\ UNCHANGED <<case, src, n, pos, out, cnt, marks>>

Next == Load \/ Group \/ Finish
Spec == Init /\ [][Next]_vars

---------------------------------------------------------------------------
(* invariants *)
IsByteSeq(s) == \A i \in 1..Len(s) : s[i] \in 0..255
TypeOK ==
  /\ pos \in 0..Len(Src)
  /\ Len(out) <= n
  /\ st \in Verdicts \cup {"load", "run", "done"}
  /\ st = "done" => Len(out) = n
  /\ st = "ok" => pos = Len(Src) /\ Len(out) = n
  /\ cnt[1] + MinLen * (cnt[2] + cnt[3] + cnt[4]) <= Len(out)
  /\ (st = "run" /\ pos = 0) => out = <<>>

(* bytes stay bytes (terminal states only: cost) *)
BytesOK == Terminal => IsByteSeq(out)

(* the model-level property: what the spec itself generates (token streams, scaled compressor *)
(* output) is accepted by the reference decoder: decodes to the meaning / the input, consumes  *)
(* everything, stays inside both buffers                                                        *)
StreamsLegal == (Mode = "streams" /\ st = "load") =>
  \A i \in 1..Len(Stream(case)) : LET t == Stream(case)[i] IN t.k = "R" => LegalRef(t)
RoundTrip == (Mode \in {"streams", "scaled", "transcr"} /\ Terminal) => st = "ok"

(* publication of verdicts / expected observations (evaluated once per distinct state) *)
Publish ==
  Terminal =>
    CASE Mode = "records" ->
           PrintT("@@" \o ToJson([id |-> Records[case.id].id, st |-> st, pos |-> pos, olen |-> Len(out),
                                  cnt |-> cnt, marks |-> marks]))
      [] Mode = "streams" ->
           PrintT("@@" \o ToJson([p |-> case, src |-> src, n |-> n, out |-> out, st |-> st, pos |-> pos,
                                  cnt |-> cnt, marks |-> marks]))
      [] Mode = "scaled" ->
           PrintT("@@" \o ToJson([s |-> case.s, src |-> src, st |-> st, cnt |-> cnt, marks |-> marks]))
      [] Mode = "transcr" ->
           PrintT("@@" \o ToJson([id |-> Records[case.id].id, same |-> (src = Records[case.id].comp), st |-> st,
                                  cnt |-> cnt]))
=============================================================================
