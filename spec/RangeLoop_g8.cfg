SPECIFICATION Spec
CONSTANTS
  Types <- TAll8
  Steps <- StepsStd
  GridOnly = TRUE
  Dump = TRUE
  Cap = 300
INVARIANT RefSound
INVARIANT BodySound
INVARIANT ImplFollowsRef
INVARIANT ImplAgreesOffHazards
INVARIANT HazardShape
INVARIANT Publish
