SPECIFICATION Spec
CONSTANTS
  Types <- TAll8
  Steps <- StepsStd
  GridOnly = TRUE
  Dump = TRUE
INVARIANT RefSound
INVARIANT BodySound
INVARIANT ImplFollowsRef
INVARIANT ImplAgreesOffHazards
INVARIANT HazardShape
INVARIANT Publish
