-------------------------- MODULE PrangeGuarantee --------------------------
(* What a prange statement guarantees at its end, as a predicate over        *)
(*   n    number of iterations                                               *)
(*   o    iteration -> outcome ("normal" | "break" | "return" | "raise")     *)
(*   ex   set of iterations whose body ran                                   *)
(*   fin  how the statement ended                                            *)
(*   s    reduction result (each normal iteration adds i + 1)                *)
(*   l    lastprivate value (n = untouched)                                  *)
(*   exc  propagated exception (iteration id + 1, 0 = none)                  *)
(*   fr   set of exception ids whose object was released                     *)
(* Used twice: as the invariant `Safe` of the protocol model Prange.tla, and *)
(* evaluated by Prange_Trace.tla on runs recorded from compiled code.        *)
EXTENDS Naturals, FiniteSets

ExecKinds(o, ex) == {o[i] : i \in ex}
RaisedIds(o, ex) == {i + 1 : i \in {j \in ex : o[j] = "raise"}}

Guarantee(n, o, ex, fin, s, l, exc, fr) ==
  /\ ("raise" \in ExecKinds(o, ex)) =>                    \* an exception raised by some iteration wins ...
        /\ fin = "raise" /\ exc \in RaisedIds(o, ex)
        /\ fr = RaisedIds(o, ex) \ {exc}                  \* ... and every other one is released (no leak, none kept twice)
  /\ ("raise" \notin ExecKinds(o, ex)) =>
        /\ exc = 0 /\ fr = {}
        /\ (fin = "normal" <=> ExecKinds(o, ex) \subseteq {"normal"})
        /\ fin \in ExecKinds(o, ex) \cup {"normal"}
  /\ (fin = "normal") =>                                  \* sequential results
        /\ ex = 0..(n - 1)
        /\ s = (n * (n + 1)) \div 2
        /\ l = (IF n = 0 THEN n ELSE n - 1)
  /\ (ex # 0..(n - 1)) => \E i \in ex : o[i] # "normal"    \* iterations are skipped only after some exit
=============================================================================
