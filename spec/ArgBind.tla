------------------------------ MODULE ArgBind ------------------------------
(* C24: argument binding of Python-visible functions.                       *)
(*  Reference  : Bind(sig, call) = the algorithm of the language reference  *)
(*               (6.3.4 Calls): positionals fill the leading slots, excess  *)
(*               goes to *args, each keyword selects a slot by name (never  *)
(*               a positional-only one) or lands in **kw, defaults fill the *)
(*               rest; anything else is TypeError.  Validated against a     *)
(*               declarative characterisation (ErrConds / WellBound).       *)
(*  Impl-shaped: the argument-parsing code that DefNodeWrapper generates    *)
(*               (generate_stararg_copy_code, generate_tuple_and_keyword_   *)
(*               parsing_code, generate_posargs_unpacking_code, generate_   *)
(*               keyword_unpacking_code) together with __Pyx_ParseKeywords  *)
(*               of Utility/FunctionArguments.c in its three forms          *)
(*               (kwnames tuple / dict / dict -> **kw dict), including the  *)
(*               reordering of keyword-only parameters (required first),    *)
(*               the `values + num_pos_only` offset and the first_kw_arg    *)
(*               split between "still nameable" and "already positional".   *)
(* A signature is [npo, npk, ndef, star, ko, ss]: numbers of positional-    *)
(* only and positional-or-keyword parameters, how many trailing positional  *)
(* parameters have defaults, *args?, one BOOLEAN (has default) per keyword- *)
(* only parameter, **kw?.  A call is np positional values plus a sequence   *)
(* of keywords [n |-> name, k |-> kind]; kind is how the key object is made *)
(* ("lit" interned literal, "rt" equal string built at run time, "sub" str  *)
(* subclass instance, "ns" a non-str key, only possible through **mapping). *)
(* Every reachable state is one case (sig, call); the call path (vectorcall *)
(* kwnames / tp_call dict / bound method / cpdef / partial) is not part of  *)
(* the state: binding must not depend on it, the harness renders every case *)
(* through all of them.                                                      *)
EXTENDS Integers, Sequences, FiniteSets, TLC, Json, Randomization

CONSTANTS MaxPO, MaxPK, MaxKO,  \* parameters of each kind
          FixPO,                \* <= MaxPO: only signatures with exactly that many positional-only parameters (partitioning)
          MaxPos,               \* positional values in a call, also capped at (#positional parameters + Extra)
          Extra,
          MaxKw,                \* keywords in a call
          NSim,                 \* simulation only: number of randomly drawn signatures (SimSpec)
          KindMode,             \* "all": every str kind at every position; "pat": uniform and rotating kind patterns; "uni": uniform only
          Dump

PO == <<"pa", "pb", "pc", "pd", "pe", "pf">>
PK == <<"xa", "xb", "xc", "xd", "xe", "xf">>
KO == <<"ka", "kb", "kc", "kd", "ke", "kf">>
Unknown == "zz"
NonStrKey == "#"
StrKinds == <<"lit", "rt", "sub">>

Min(a, b) == IF a < b THEN a ELSE b
BoolSeqs(n) == UNION {[1..m -> BOOLEAN] : m \in 0..n}

Sigs == {s \in [npo : 0..MaxPO, npk : 0..MaxPK, ndef : 0..(MaxPO + MaxPK), star : BOOLEAN, ko : BoolSeqs(MaxKO), ss : BOOLEAN] :
            s.ndef <= s.npo + s.npk /\ (FixPO <= MaxPO => s.npo = FixPO)}

NPos(s) == s.npo + s.npk
NPar(s) == NPos(s) + Len(s.ko)
ParName(s, i) == IF i <= s.npo THEN PO[i] ELSE IF i <= NPos(s) THEN PK[i - s.npo] ELSE KO[i - NPos(s)]
HasDef(s, i) == IF i <= NPos(s) THEN i > NPos(s) - s.ndef ELSE s.ko[i - NPos(s)]
\* the parameter a keyword name selects (positional-only parameters cannot be named), 0 if none
Slot(s, nm) == LET c == {i \in (s.npo + 1)..NPar(s) : ParName(s, i) = nm} IN IF c = {} THEN 0 ELSE CHOOSE i \in c : TRUE

PosVal(i) == i
KwVal(j) == 100 + j
DefVal(i) == 200 + i

Err(c) == [ok |-> FALSE, cls |-> c, vals |-> <<>>, args |-> <<>>, kw |-> <<>>]

---------------------------------------------------------------------------
(* reference *)
RECURSIVE KwFold(_, _, _, _)
KwFold(s, kws, j, st) ==
  IF j > Len(kws) \/ st.err # "" THEN st
  ELSE LET i == Slot(s, kws[j].n) IN
       IF i # 0 THEN (IF st.vals[i] # 0 THEN [st EXCEPT !.err = "multiple"]
                      ELSE KwFold(s, kws, j + 1, [st EXCEPT !.vals[i] = KwVal(j)]))
       ELSE IF s.ss THEN KwFold(s, kws, j + 1, [st EXCEPT !.extra = Append(@, <<kws[j].n, kws[j].k, KwVal(j)>>)])
       ELSE [st EXCEPT !.err = "unexpected"]

Bind(s, np, kws) ==
  IF \E j \in 1..Len(kws) : kws[j].k = "ns" THEN Err("nonstr")
  ELSE IF np > NPos(s) /\ ~s.star THEN Err("toomany")
  ELSE LET v0 == [i \in 1..NPar(s) |-> IF i <= np /\ i <= NPos(s) THEN PosVal(i) ELSE 0]
           st == KwFold(s, kws, 1, [vals |-> v0, extra |-> <<>>, err |-> ""])
       IN IF st.err # "" THEN Err(st.err)
          ELSE IF \E i \in 1..NPar(s) : st.vals[i] = 0 /\ ~HasDef(s, i) THEN Err("missing")
          ELSE [ok |-> TRUE, cls |-> "bound",
                vals |-> [i \in 1..NPar(s) |-> IF st.vals[i] = 0 THEN DefVal(i) ELSE st.vals[i]],
                args |-> [i \in 1..(IF np > NPos(s) THEN np - NPos(s) ELSE 0) |-> PosVal(NPos(s) + i)],
                kw |-> st.extra]

(* declarative characterisation of the same function *)
GivenPos(s, np, i) == i <= np /\ i <= NPos(s)
GivenKw(s, kws, i) == i > s.npo /\ \E j \in 1..Len(kws) : kws[j].n = ParName(s, i)
ErrConds(s, np, kws) ==
  \/ \E j \in 1..Len(kws) : kws[j].k = "ns"
  \/ np > NPos(s) /\ ~s.star
  \/ \E i \in 1..NPar(s) : GivenPos(s, np, i) /\ GivenKw(s, kws, i)
  \/ ~s.ss /\ \E j \in 1..Len(kws) : Slot(s, kws[j].n) = 0
  \/ \E i \in 1..NPar(s) : ~HasDef(s, i) /\ ~GivenPos(s, np, i) /\ ~GivenKw(s, kws, i)

\* positions of the keywords that select no parameter, in call order
RECURSIVE Spill(_, _, _)
Spill(s, kws, j) == IF j > Len(kws) THEN <<>>
                    ELSE (IF Slot(s, kws[j].n) = 0 THEN <<(<<kws[j].n, kws[j].k, KwVal(j)>>)>> ELSE <<>>) \o Spill(s, kws, j + 1)
WellBound(s, np, kws, r) ==
  /\ \A i \in 1..NPar(s) :
        r.vals[i] = IF GivenPos(s, np, i) THEN PosVal(i)
                    ELSE IF GivenKw(s, kws, i) THEN KwVal(CHOOSE j \in 1..Len(kws) : kws[j].n = ParName(s, i))
                    ELSE DefVal(i)
  /\ r.args = [i \in 1..(IF np > NPos(s) THEN np - NPos(s) ELSE 0) |-> PosVal(NPos(s) + i)]
  /\ r.kw = Spill(s, kws, 1)
  \* every value of the call is used exactly once
  /\ \A v \in {PosVal(i) : i \in 1..np} \cup {KwVal(j) : j \in 1..Len(kws)} :
        Cardinality({i \in 1..NPar(s) : r.vals[i] = v}) + Cardinality({i \in 1..Len(r.args) : r.args[i] = v})
        + Cardinality({i \in 1..Len(r.kw) : r.kw[i][3] = v}) = 1

---------------------------------------------------------------------------
(* implementation-shaped *)
KoIdx(s) == [i \in 1..Len(s.ko) |-> NPos(s) + i]
IsReq(s, i) == ~HasDef(s, i)
IsOpt(s, i) == HasDef(s, i)
\* order of the C array `values`: positional parameters, then required keyword-only, then optional keyword-only
CyOrd(s) == [i \in 1..NPos(s) |-> i] \o SelectSeq(KoIdx(s), LAMBDA i : IsReq(s, i)) \o SelectSeq(KoIdx(s), LAMBDA i : IsOpt(s, i))
\* `__pyx_pyargnames`: the non-positional-only parameters in that order; ParseKeywords works on `values + npo`
ArgNames(s) == LET co == CyOrd(s) IN [a \in 1..(NPar(s) - s.npo) |-> ParName(s, co[s.npo + a])]
NReqKo(s) == Cardinality({i \in 1..Len(s.ko) : ~s.ko[i]})
MinPos(s) == NPos(s) - s.ndef
NReqPO(s) == Min(s.npo, MinPos(s))

KwHas(kws, nm) == \E j \in 1..Len(kws) : kws[j].n = nm
KwGet(kws, nm) == KwVal(CHOOSE j \in 1..Len(kws) : kws[j].n = nm)
AllKw(kws) == [j \in 1..Len(kws) |-> <<kws[j].n, kws[j].k, KwVal(j)>>]

\* st = [vals (indexed by C slot), kw2, err]
RECURSIVE PKTuple(_, _, _, _, _, _)
PKTuple(s, kws, j, fka, st, an) ==    \* __Pyx_ParseKeywordsTuple; fka = num_pos_args (offset of first_kw_arg)
  IF j > Len(kws) \/ st.err # "" THEN st
  ELSE LET key == kws[j]
           \* pointer comparison can only succeed for interned key objects
           ptr == IF key.k = "lit" THEN {a \in (fka + 1)..Len(an) : an[a] = key.n} ELSE {}
           \* __Pyx_MatchKeywordArg (_str for exact str, _nostr for subclasses: same outcome by content)
           hit == {a \in (fka + 1)..Len(an) : an[a] = key.n}
           dup == {a \in 1..fka : an[a] = key.n}
           put(a) == PKTuple(s, kws, j + 1, fka, [st EXCEPT !.vals[s.npo + a] = KwVal(j)], an)
       IN IF ptr # {} THEN put(CHOOSE a \in ptr : \A b \in ptr : a <= b)
          ELSE IF key.k = "ns" THEN [st EXCEPT !.err = "nonstr"]
          ELSE IF hit # {} THEN put(CHOOSE a \in hit : \A b \in hit : a <= b)
          ELSE IF dup # {} THEN [st EXCEPT !.err = "multiple"]
          ELSE IF s.ss THEN PKTuple(s, kws, j + 1, fka, [st EXCEPT !.kw2 = Append(@, <<key.n, key.k, KwVal(j)>>)], an)
          ELSE [st EXCEPT !.err = "unexpected"]

RECURSIVE DictExtract(_, _, _, _, _, _)
DictExtract(s, kws, a, left, vals, an) ==   \* loop of __Pyx_ParseKeywordDict: returns <<vals, #extracted>>
  IF a > Len(an) \/ left = 0 THEN <<vals, left>>
  ELSE IF KwHas(kws, an[a])
       THEN DictExtract(s, kws, a + 1, left - 1, [vals EXCEPT ![s.npo + a] = KwGet(kws, an[a])], an)
       ELSE DictExtract(s, kws, a + 1, left, vals, an)

PKDict(s, kws, fka, st, an) ==       \* __Pyx_ParseKeywordDict (no **kw)
  IF \E j \in 1..Len(kws) : kws[j].k = "ns" THEN [st EXCEPT !.err = "nonstr"]   \* PyArg_ValidateKeywordArguments
  ELSE LET r == DictExtract(s, kws, fka + 1, Len(kws), st.vals, an)
       IN IF r[2] > 0 THEN [st EXCEPT !.err = "unexpected-or-multiple"]          \* __Pyx_RejectUnknownKeyword
          ELSE [st EXCEPT !.vals = r[1]]

PKDictToDict(s, kws, fka, st, an) == \* __Pyx_ParseKeywordDictToDict
  IF \E j \in 1..Len(kws) : kws[j].k = "ns" THEN [st EXCEPT !.err = "nonstr"]
  ELSE LET popped == {a \in (fka + 1)..Len(an) : KwHas(kws, an[a])}
           vals2 == [c \in 1..NPar(s) |-> IF c > s.npo /\ (c - s.npo) \in popped THEN KwGet(kws, an[c - s.npo]) ELSE st.vals[c]]
           rest == SelectSeq(AllKw(kws), LAMBDA e : ~\E a \in popped : an[a] = e[1])
       IN IF rest # <<>> /\ \E a \in 1..fka : KwHas(kws, an[a])   \* __Pyx_ValidateDuplicatePosArgs
          THEN [st EXCEPT !.err = "multiple"]
          ELSE [st EXCEPT !.vals = vals2, !.kw2 = rest]

ParseKeywords(s, kws, fka, st, path) ==
  LET an == ArgNames(s) IN
  IF path = "tuple" THEN PKTuple(s, kws, 1, fka, st, an)
  ELSE IF s.ss THEN PKDictToDict(s, kws, fka, st, an)
  ELSE PKDict(s, kws, fka, st, an)

\* result in declaration order
Finish(s, np, st) ==
  LET co == CyOrd(s)
      inv(i) == CHOOSE c \in 1..NPar(s) : co[c] = i IN
  [ok |-> TRUE, cls |-> "bound",
   vals |-> [i \in 1..NPar(s) |-> IF st.vals[inv(i)] = 0 THEN DefVal(i) ELSE st.vals[inv(i)]],
   args |-> [i \in 1..(IF s.star /\ np > NPos(s) THEN np - NPos(s) ELSE 0) |-> PosVal(NPos(s) + i)],   \* __Pyx_ArgsSlice(args, max_positional_args, nargs)
   kw |-> st.kw2]

ImplStarargCopy(s, np, kws, path) ==   \* generate_stararg_copy_code: no named parameter at all
  IF ~s.star /\ np > 0 THEN Err("toomany")
  ELSE IF Len(kws) > 0 /\ ~s.ss THEN Err("unexpected")                             \* __Pyx_RejectKeywords
  ELSE IF \E j \in 1..Len(kws) : kws[j].k = "ns" THEN Err("nonstr")                \* __Pyx_CheckKeywordStrings / the vectorcall caller
  ELSE [ok |-> TRUE, cls |-> "bound", vals |-> <<>>, args |-> [i \in 1..(IF s.star THEN np ELSE 0) |-> PosVal(i)], kw |-> AllKw(kws)]

ImplGeneral(s, np, kws, path) ==       \* generate_tuple_and_keyword_parsing_code
  LET n == NPos(s)
      minpos == MinPos(s)
      nrpo == NReqPO(s)
      nrko == NReqKo(s)
      acceptkw == NPar(s) > s.npo \/ s.ss
      fill(k) == [c \in 1..NPar(s) |-> IF c <= k THEN PosVal(c) ELSE 0]
      st0(k) == [vals |-> fill(k), kw2 |-> <<>>, err |-> ""]
  IN
  IF Len(kws) > 0 THEN
     \* a kwnames tuple never carries a non-str key: CPython's dict -> kwnames conversion (and Cython's own
     \* __Pyx_PyVectorcall_FastCallDict_kw) reject it before the function is entered
     IF path = "tuple" /\ \E j \in 1..Len(kws) : kws[j].k = "ns" THEN Err("nonstr")
     ELSE IF ~acceptkw THEN Err("unexpected")                                       \* __Pyx_RejectKeywords
     \* generate_posargs_unpacking_code: switch (nargs)
     ELSE IF np > n /\ ~s.star THEN Err("toomany")
     ELSE IF np < nrpo THEN Err("missing")
     ELSE LET kwd_pos_args == IF s.npo > 0 THEN (IF np < s.npo THEN 0 ELSE np - s.npo) ELSE np
              fka == IF n = 0 THEN 0 ELSE IF s.star THEN Min(kwd_pos_args, n - s.npo) ELSE kwd_pos_args
              st == ParseKeywords(s, kws, fka, st0(Min(np, n)), path)
          IN IF st.err # "" THEN Err(st.err)
             \* required positional parameters still empty after the keywords (checked from index nargs on)
             ELSE IF minpos > nrpo /\ \E c \in (np + 1)..minpos : st.vals[c] = 0 THEN Err("missing")
             ELSE IF \E c \in (n + 1)..(n + nrko) : st.vals[c] = 0 THEN Err("missing")
             ELSE Finish(s, np, st)
  ELSE
     IF ((nrko > 0 /\ minpos > 0) \/ minpos = n)
        /\ (IF minpos = n /\ ~s.star THEN np # minpos ELSE np < minpos) THEN Err("count")
     ELSE IF nrko > 0 THEN Err(IF n > minpos /\ ~s.star /\ np > n THEN "toomany" ELSE "missing")
     ELSE IF minpos = n THEN Finish(s, np, st0(n))
     ELSE IF np < minpos THEN Err("missing")
     ELSE IF np > n /\ ~s.star THEN Err("toomany")
     ELSE Finish(s, np, st0(Min(np, n)))

ImplBind(s, np, kws, path) ==
  IF NPar(s) = 0 THEN ImplStarargCopy(s, np, kws, path) ELSE ImplGeneral(s, np, kws, path)

Same(r1, r2) == r1.ok = r2.ok /\ (r1.ok => (r1.vals = r2.vals /\ r1.args = r2.args /\ r1.kw = r2.kw))

---------------------------------------------------------------------------
VARIABLES sig, np, kw
vars == <<sig, np, kw>>

Kinds(kws) == [j \in 1..Len(kws) |-> kws[j].k]
\* kind sequences: at most one non-str key, and only next to interned keys; in "pat" mode the str kinds uniform or rotating
PatOK(ks) ==
  LET strs == SelectSeq(ks, LAMBDA k : k # "ns")
      idx(k) == CHOOSE i \in 1..3 : StrKinds[i] = k
  IN \/ \A i \in 1..Len(strs) : strs[i] = strs[1]
     \/ \A i \in 2..Len(strs) : idx(strs[i]) = (idx(strs[i - 1]) % 3) + 1
KindsOK(ks) == /\ Cardinality({j \in 1..Len(ks) : ks[j] = "ns"}) <= 1
               /\ ((\E j \in 1..Len(ks) : ks[j] = "ns") => \A j \in 1..Len(ks) : ks[j] \in {"ns", "lit"})
               /\ (KindMode = "pat" => PatOK(ks))
               /\ (KindMode = "uni" => LET strs == SelectSeq(ks, LAMBDA k : k # "ns") IN \A i \in 1..Len(strs) : strs[i] = strs[1])

Init == sig \in Sigs /\ np = 0 /\ kw = <<>>

AddPositional == /\ kw = <<>>          \* canonical construction order: positionals first (every case is still reachable)
                 /\ np < Min(MaxPos, NPos(sig) + Extra)
                 /\ np' = np + 1 /\ UNCHANGED <<sig, kw>>

AddKw(nm, k) == /\ Len(kw) < MaxKw
                /\ ~KwHas(kw, nm)
                /\ KindsOK(Kinds(kw) \o <<k>>)
                /\ kw' = Append(kw, [n |-> nm, k |-> k])
                /\ UNCHANGED <<sig, np>>

StrKindSet == {"lit", "rt", "sub"}
AddKwParam    == \E i \in (sig.npo + 1)..NPar(sig) : \E k \in StrKindSet : AddKw(ParName(sig, i), k)
AddKwPosOnly  == \E i \in 1..sig.npo : \E k \in StrKindSet : AddKw(ParName(sig, i), k)
AddKwUnknown  == /\ Len(kw) < MaxKw /\ ~KwHas(kw, Unknown)
                 /\ \E k \in StrKindSet : /\ KindsOK(Kinds(kw) \o <<k>>)
                                          /\ kw' = Append(kw, [n |-> Unknown, k |-> k])
                 /\ UNCHANGED <<sig, np>>
AddKwNonStr   == /\ Len(kw) < MaxKw /\ ~KwHas(kw, NonStrKey)
                 /\ KindsOK(Kinds(kw) \o <<"ns">>)
                 /\ kw' = Append(kw, [n |-> NonStrKey, k |-> "ns"])
                 /\ UNCHANGED <<sig, np>>

Next == AddPositional \/ AddKwParam \/ AddKwPosOnly \/ AddKwUnknown \/ AddKwNonStr
Spec == Init /\ [][Next]_vars

\* the large family (<= 6 parameters of each kind) is sampled: NSim random signatures, any number of positionals,
\* a call that leaves no required
\* parameter empty (or no keyword at all), then random walks that add keywords (TLC -simulate); every visited state is a case and is checked like the others
\* keywords for the required parameters that np positionals leave empty (so that many sampled calls bind)
ReqKw(s, n0, k) == LET idx == SelectSeq([i \in 1..NPar(s) |-> i], LAMBDA i : ~HasDef(s, i) /\ i > n0 /\ i > s.npo)
                   IN [j \in 1..Len(idx) |-> [n |-> ParName(s, idx[j]), k |-> k]]
\* independent random draws (the 174k signatures of the 6/6/6 family are never enumerated)
RandSig(i) == LET r == [npo |-> RandomElement(0..MaxPO), npk |-> RandomElement(0..MaxPK), ndef |-> RandomElement(0..(MaxPO + MaxPK)),
                        star |-> RandomElement(BOOLEAN), ko |-> RandomElement(BoolSeqs(MaxKO)), ss |-> RandomElement(BOOLEAN)]
              IN [r EXCEPT !.ndef = Min(r.ndef, r.npo + r.npk)]
SimInit == /\ sig \in {RandSig(i) : i \in 1..NSim}
           /\ sig.ndef <= NPos(sig)
           /\ np \in {n \in {0, MinPos(sig) - 1, MinPos(sig), NPos(sig), NPos(sig) + 1} : n >= 0 /\ n <= MaxPos}
           /\ \E k \in StrKindSet \cup {"none"} : kw = IF k = "none" THEN <<>> ELSE ReqKw(sig, np, k)
SimSpec == SimInit /\ [][Next]_vars

Ref == Bind(sig, np, kw)

(* the reference is exactly its declarative characterisation: bound XOR error *)
RefIsDeclarative == LET r == Ref IN
                    /\ r.ok = ~ErrConds(sig, np, kw)
                    /\ r.ok => WellBound(sig, np, kw, r)
                    /\ ~r.ok => r.cls \in {"nonstr", "toomany", "multiple", "unexpected", "missing"}
(* the generated parsing code, on both keyword representations, computes the reference *)
ImplAgrees == LET r == Ref IN \A path \in {"tuple", "dict"} : Same(ImplBind(sig, np, kw, path), r)
Publish == Dump => LET r == Ref IN
                   PrintT("@@" \o ToJson(<<sig.npo, sig.npk, sig.ndef, sig.star, sig.ko, sig.ss, np,
                                              [j \in 1..Len(kw) |-> <<kw[j].n, kw[j].k>>],
                                              r.ok, r.cls, r.vals, r.args, r.kw>>))
=============================================================================
