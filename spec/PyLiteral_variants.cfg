SPECIFICATION Spec
CONSTANTS
  Family = "variants"
  Prefixes = {"U", "R", "B", "br", "Rb", "bR", "rB", "Br", "RB", "BR"}
  Quotes = {1, 2}
  Alphabet = "core"
  MaxAtoms = 1
  MaxParts = 1
  Prefixes2 = {}
  Quotes2 = {}
  LongReps = {}
  BigReps = {}
  Dump = TRUE
INVARIANT TypeOK
INVARIANT Compositional
INVARIANT RawInert
INVARIANT NoGrowth
INVARIANT Periodic
INVARIANT Publish
