SPECIFICATION Spec
CONSTANTS
  MaxFn = 2
  MaxDepth = 2
  RootKinds = {"def"}
  CalleeKinds = {"def"}
  RootSkel = {1, 2, 3, 4}
  RootAtoms = {"rt", "rz", "nc", "gc", "fa", "fb", "fr"}
  SubSkel = {1, 2, 3, 4, 11}
  SubAtomsD = {"rt"}
  SubAtomsG = {"yd", "rt", "rz", "ps", "bk"}
  Dump = TRUE
INVARIANT WellNested
INVARIANT StackShape
INVARIANT Balanced
INVARIANT OneStartOneEnd
INVARIANT Outcome
INVARIANT Bounded
INVARIANT WellFormed
INVARIANT Publish
INVARIANT PublishSkip
CHECK_DEADLOCK FALSE
