SPECIFICATION Spec
CONSTANTS
  SHIFT = 3
  LONG = 8
  LLONG = 8
  CBITS = 3
  MANT = 5
  EMAX = 7
  XMAX = 20
  CH = 64
  ConstMags = {1, 9}
  ShiftCounts = {1}
  DeclaredHazards = {"PyFloatBinop/fb-rem-infdiv"}
  Dump = FALSE
INVARIANT Agree
INVARIANT UndecidedIsGeneric
INVARIANT NoUB
INVARIANT TypeGuard
INVARIANT BoolGuard
INVARIANT ExactCompare
INVARIANT Publish
CHECK_DEADLOCK FALSE
