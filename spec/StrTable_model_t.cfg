SPECIFICATION Spec
CONSTANTS
  Mode = "model"
  Alpha = {97, 98}
  MaxLen = 2
  MaxAdds = 4
INVARIANT TypeOK
INVARIANT ModelOK
