SPECIFICATION Spec
CONSTANTS
  Part = "replay"
  UNames <- UNone
  UNames3 <- UNone
  MaxLen = 1
  ArgsOne <- AOneAll
  ArgsPair <- APairQ
INVARIANT TypeOK
INVARIANT RefPartial
INVARIANT ImplAgrees
INVARIANT DeviationsExplained
INVARIANT NoMatchMultiDead
INVARIANT StepsAreImplCall
INVARIANT PublishReplay
CHECK_DEADLOCK FALSE
