SPECIFICATION Spec
CONSTANTS
  Pairs <- PairsSq
  FamC <- Five
  FamS <- Five
  FamD <- Tiny
  FamO <- Tiny
  Dump = TRUE
INVARIANT RefShape
INVARIANT ImplAgreesOffHazards
INVARIANT Publish
CHECK_DEADLOCK FALSE
