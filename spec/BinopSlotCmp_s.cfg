SPECIFICATION Spec
CONSTANTS
  Pairs <- PairsS
  FamC <- Small
  FamS <- Small
  FamD <- Tiny
  FamO <- Tiny
  Dump = TRUE
INVARIANT RefShape
INVARIANT Publish
CHECK_DEADLOCK FALSE
