SPECIFICATION Spec
CONSTANTS
  Dump = TRUE
INVARIANT ImplAgrees
INVARIANT ErrConsistent
INVARIANT GilDiscipline
INVARIANT ChainInRange
INVARIANT TableWellFormed
INVARIANT Publish
CHECK_DEADLOCK FALSE
