INIT InitGiven
NEXT Next
CONSTANTS
  MaxFn = 5
  MaxDepth = 4
  RootKinds = {"def", "ccall"}
  CalleeKinds = {"def", "cfunc", "ccall"}
  RootSkel = {}
  RootAtoms = {}
  SubSkel = {}
  SubAtomsD = {}
  SubAtomsG = {}
  Dump = TRUE
INVARIANT WellFormed
INVARIANT WellNested
INVARIANT StackShape
INVARIANT Balanced
INVARIANT OneStartOneEnd
INVARIANT Outcome
INVARIANT Publish
INVARIANT PublishSkip
CHECK_DEADLOCK FALSE
