SPECIFICATION Spec
CONSTANTS
  MaxToks = 2
  Level = 3
  LevelNext = 3
  Glue = TRUE
  Dump = TRUE
INVARIANT AllValid
INVARIANT Compositional
INVARIANT ImplLossless
INVARIANT ImplOK
INVARIANT Publish
CHECK_DEADLOCK FALSE
