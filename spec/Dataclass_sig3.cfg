SPECIFICATION Spec
CONSTANTS
  Mode = "lattice"
  Slice = "sig"
  MaxFields = 3
  MaxLen = 1
  Salts = {0}
  SetVals = {0}
  MaxKw = 9
INVARIANT TypeOK
INVARIANT HashTableTotal
INVARIANT BindConflictFree
INVARIANT SignatureOK
INVARIANT OrderLaws
INVARIANT EqHashCoherent
INVARIANT ImplVsRefCfg
INVARIANT ImplVsRefStep
CHECK_DEADLOCK FALSE
