SPECIFICATION Spec
CONSTANTS
  Mode = "lattice"
  Slice = "sig"
  MaxFields = 3
  MaxLen = 1
  Salts = {0}
  SetVals = {0}
INVARIANT TypeOK
INVARIANT HashTableTotal
INVARIANT BindConflictFree
INVARIANT SignatureOK
INVARIANT OrderLaws
INVARIANT EqHashCoherent
INVARIANT ImplVsRef
CHECK_DEADLOCK FALSE
