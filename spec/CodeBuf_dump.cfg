SPECIFICATION Spec
CONSTANTS
  MaxH = 3
  MaxLen = 4
  NLs = {0, 1}
  Poses = {0, 1}
  Dump = TRUE
  LineNums = TRUE
INVARIANT Agree
INVARIANT ExactlyOnce
INVARIANT MarkersAligned
INVARIANT OwnSubtreeOnly
INVARIANT DumpLeaves
CHECK_DEADLOCK FALSE
