SPECIFICATION Spec
CONSTANTS
  MaxLeaves = 3
  MaxLeaves2 = 3
  Mod = 1
  Rem = 0
  Typings = {"O"}
  Tops = {"ret1","ret2", "assign", "aug", "unpack"}
  Dump = FALSE
