SPECIFICATION Spec
CONSTANTS
  MaxLeaves = 1
  MaxLeaves2 = 1
  Mod = 1
  Rem = 0
  Typings = {"O"}
  Tops = {"ret1","ret2", "assign", "aug", "unpack"}
  Dump = FALSE
