SPECIFICATION Spec
CONSTANTS
  Types <- TScaled
  Dump = FALSE
  GridOnly = FALSE
INVARIANT RefSound
INVARIANT ImplAgreesOffHazards
INVARIANT PublishHazards
CHECK_DEADLOCK FALSE
