SPECIFICATION Spec
CONSTANTS
  MaxLen = 14
  Dump = TRUE
  UseCache = TRUE
INVARIANT Publish
CHECK_DEADLOCK FALSE
