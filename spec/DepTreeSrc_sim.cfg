SPECIFICATION Spec
CONSTANTS
  MaxAtoms = 30
  Prefixes = {"", "r", "f", "b", "u", "rb"}
  RealForms = {"cim_b", "cim_c", "from_b", "from_c", "cimsub", "fromsub", "frompkg", "frompkgpar", "reldot", "relmod", "inc", "inc1", "incns"}
  DecoyForms = {"cim_b", "cim_c", "from_c", "frompkg", "frompkgpar", "fromsub", "inc", "inc1"}
  Locs = {"top", "pkg"}
  Dump = FALSE
INVARIANT TypeOK
INVARIANT RealsAreStatements
INVARIANT RelOnlyInPkg
INVARIANT ResolveDiff
INVARIANT DumpLast
CHECK_DEADLOCK FALSE
