SPECIFICATION Spec
CONSTANTS
  NNames = 3
  Kinds = {"num", "obj"}
  MaxLvl = 2
  MaxVer = 2
  NVals = 3
  NV = 3
  FirstEdits = 0
  MaxEdits = 1
  Opts = {"dict", "py"}
  Mode = "hist"
  CksMode = "names"
  Dump = TRUE
INVARIANT ImplMeetsDemand
INVARIANT Publish
CHECK_DEADLOCK FALSE
