SPECIFICATION Spec
CONSTANTS
  NNames = 3
  Kinds = {"num", "obj", "struct", "ptr"}
  MaxLvl = 2
  MaxVer = 2
  NVals = 3
  NV = 3
  FirstEdits = 0
  MaxEdits = 1
  Opts = {"dict", "cinit", "off", "force", "py"}
  Mode = "hist"
  CksMode = "names"
  Dump = TRUE
INVARIANT ImplMeetsDemand
INVARIANT Publish
CHECK_DEADLOCK FALSE
