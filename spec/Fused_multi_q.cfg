SPECIFICATION Spec
CONSTANTS
  Part = "multi"
  UNames <- UMultiQ
  UNames3 <- UNone
  MaxLen = 2
  ArgsOne <- AScalar
  ArgsPair <- APairQ
INVARIANT TypeOK
INVARIANT RefPartial
INVARIANT ImplAgrees
INVARIANT DeviationsExplained
INVARIANT NoMatchMultiDead
INVARIANT StepsAreImplCall
CHECK_DEADLOCK FALSE
