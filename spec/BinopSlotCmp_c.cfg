SPECIFICATION Spec
CONSTANTS
  Pairs <- PairsC
  FamC <- All64
  FamS <- Tiny
  FamD <- Tiny
  FamO <- Tiny
  Dump = TRUE
INVARIANT RefShape
INVARIANT Publish
CHECK_DEADLOCK FALSE
