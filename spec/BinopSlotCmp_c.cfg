SPECIFICATION Spec
CONSTANTS
  Pairs <- PairsCq
  FamC <- All64
  FamS <- Tiny
  FamD <- Tiny
  FamO <- Tiny
  Dump = TRUE
INVARIANT RefShape
INVARIANT ImplAgreesOffHazards
INVARIANT Publish
CHECK_DEADLOCK FALSE
