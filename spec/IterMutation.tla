--------------------------- MODULE IterMutation ---------------------------
(* C14 (b): iteration over dict / set / list (forward and reversed) while the   *)
(* loop body mutates the container, as a state machine.                          *)
(*  Reference  : CPython 3.12's iterators over the containers' storage layout:   *)
(*    dict : insertion-ordered entry array with holes left by deletions, a       *)
(*           budget of usable entries and compaction when it is exhausted        *)
(*           (dictresize); dictiter = (pos, used0, len) with the TWO checks      *)
(*           "changed size" (used0 # used) and "keys changed" (an entry is found *)
(*           although len entries have been produced already);                   *)
(*    set  : open-addressing table (hash(int) = int, linear probes + the         *)
(*           i*5+1 recurrence, dummies, rebuild when fill*5 >= mask*3);          *)
(*           setiter = (pos, used0) with the size check;                         *)
(*    list : index protocol (listiter / listreviter), no checks.                 *)
(*  Impl-shaped: __Pyx_dict_iter_next over PyDict_Next (Utility/Optimize.c) with *)
(*           the loop temps of IterationTransform._transform_dict_iteration:     *)
(*           (pos, orig_length, count): size check, PyDict_Next, then "keys      *)
(*           changed" when an entry is found although orig_length items were      *)
(*           produced; it runs on its OWN state `pit` next to the reference's    *)
(*           `it`, and TLC proves that both answer alike at every reachable step *)
(*           (PyxDictAgrees).  __Pyx_set_iter_next over _PySet_NextEntry and     *)
(*           IteratorNode's list loops coincide with the reference step          *)
(*           functions.                                                          *)
(* A behaviour is one run of                                                     *)
(*     for x in C:  act = script[j]; j += 1                                      *)
(*                  if act is "cont": continue                                   *)
(*                  log x;  if act is "brk": break;  apply act's mutations to C  *)
(*     else: ...                                                                 *)
(* Next = one iterator step followed by the body's action, chosen freely from    *)
(* the alphabet; at most MaxAct iterations do something other than "nothing".    *)
(* Every finished run is published: script + expected log / final item / how it  *)
(* ended ("else", "break", "size" = RuntimeError changed size, "keys" =           *)
(* RuntimeError keys changed).                                                   *)
EXTENDS Integers, Sequences, TLC, Json, FiniteSets

CONSTANTS Kinds, InitSizes, MaxAct, Dump

Hole == <<-1, -1>>
Pow2(n) == 2 ^ n
Max(a, b) == IF a > b THEN a ELSE b

---------------------------------------------------------------------------
(* dict layout *)
BitLen(x) == CHOOSE l \in 0..12 : Pow2(l) > x /\ (l = 0 \/ Pow2(l - 1) <= x)
Or8(m) == IF (m \div 8) % 2 = 1 THEN m ELSE m + 8
Or7(m) == (m \div 8) * 8 + 7
KeySize(minsize) == Pow2(BitLen(Or7(Or8(minsize) - 1)))       \* calculate_log2_keysize
Usable(size) == (2 * size) \div 3                              \* USABLE_FRACTION
DEmpty == [ents |-> <<>>, used |-> 0, usable |-> Usable(8)]
Live(d) == {i \in 1..Len(d.ents) : d.ents[i] # Hole}
DKeys(d) == {d.ents[i][1] : i \in Live(d)}
DIndex(d, k) == CHOOSE i \in Live(d) : d.ents[i][1] = k
DResize(d) == LET live == SelectSeq(d.ents, LAMBDA e : e # Hole)   \* dictresize(GROWTH_RATE = used * 3): compaction
              IN [ents |-> live, used |-> d.used, usable |-> Usable(KeySize(d.used * 3)) - d.used]
DSet(d, k, v) == IF k \in DKeys(d) THEN [d EXCEPT !.ents[DIndex(d, k)] = <<k, v>>]
                 ELSE LET d1 == IF d.usable <= 0 THEN DResize(d) ELSE d
                      IN [ents |-> Append(d1.ents, <<k, v>>), used |-> d1.used + 1, usable |-> d1.usable - 1]
DDel(d, k) == [d EXCEPT !.ents[DIndex(d, k)] = Hole, !.used = d.used - 1]
DVal(d, k) == d.ents[DIndex(d, k)][2]
RECURSIVE DBuild(_)
DBuild(n) == IF n = 0 THEN DEmpty ELSE DSet(DBuild(n - 1), n, 10 * n)

\* first live entry at or after position p (1-based), 0 if none
DScan(d, p) == LET c == {i \in Live(d) : i >= p} IN IF c = {} THEN 0 ELSE CHOOSE i \in c : \A j \in c : i <= j

\* reference: dictiter_iternext{key,value,item}; it = [pos (entries consumed), used0, len]
DictIterNext(d, it) ==
  IF it.used0 # d.used THEN [r |-> "size"]
  ELSE LET i == DScan(d, it.pos + 1) IN
       IF i = 0 THEN [r |-> "stop"]
       ELSE IF it.len = 0 THEN [r |-> "keys"]
       ELSE [r |-> "item", item |-> d.ents[i], it |-> [pos |-> i, used0 |-> it.used0, len |-> it.len - 1]]
\* implementation-shaped: __Pyx_dict_iter_next_source_is_dict(dict, orig_length, &pos, &count, ...):
\*   if (orig_length != PyDict_Size(d)) "changed size";  if (!PyDict_Next(d, &pos, ..)) return 0;
\*   if (count >= orig_length) "keys changed";  count++;  -> item
\* (PyDict_Next has advanced pos before the count check; the loop ends with the error, pos is dead then)
PyxDictNext(d, p) ==
  IF p.olen # d.used THEN [r |-> "size"]
  ELSE LET i == DScan(d, p.pos + 1) IN
       IF i = 0 THEN [r |-> "stop"]
       ELSE IF p.count >= p.olen THEN [r |-> "keys"]
       ELSE [r |-> "item", item |-> d.ents[i], it |-> [pos |-> i, olen |-> p.olen, count |-> p.count + 1]]

---------------------------------------------------------------------------
(* set layout: tab[0..size-1], -1 unused, -2 dummy, else the key (0 <= key < 32: perturb >> 5 = 0) *)
SEmpty == [tab |-> [i \in 0..7 |-> -1], used |-> 0, fill |-> 0]
SMask(s) == Cardinality(DOMAIN s.tab) - 1
SKeys(s) == {s.tab[i] : i \in {j \in DOMAIN s.tab : s.tab[j] >= 0}}
SSlot(s, k) == CHOOSE i \in DOMAIN s.tab : s.tab[i] = k
Probes(i, mask) == IF i + 9 <= mask THEN 9 ELSE 0              \* LINEAR_PROBES
\* set_add_entry's search for a key that is not in the table: <<unused slot reached, last dummy passed or -1>>
RECURSIVE FindSlot(_, _, _, _, _)
FindSlot(tab, mask, i, j, free) ==
  LET e == i + j IN
  IF tab[e] = -1 THEN <<e, free>>
  ELSE LET f2 == IF tab[e] = -2 THEN e ELSE free IN
       IF j < Probes(i, mask) THEN FindSlot(tab, mask, i, j + 1, f2)
       ELSE FindSlot(tab, mask, (i * 5 + 1) % (mask + 1), 0, f2)
RECURSIVE NewSize(_, _)
NewSize(sz, minused) == IF sz <= minused THEN NewSize(sz * 2, minused) ELSE sz
\* set_table_resize: live keys re-inserted in slot order with set_insert_clean
RECURSIVE Reinsert(_, _, _, _)
Reinsert(old, i, tab, mask) ==
  IF i \notin DOMAIN old THEN tab
  ELSE IF old[i] < 0 THEN Reinsert(old, i + 1, tab, mask)
  ELSE Reinsert(old, i + 1, [tab EXCEPT ![FindSlot(tab, mask, old[i] % (mask + 1), 0, -1)[1]] = old[i]], mask)
SResize(s, minused) == LET sz == NewSize(8, minused)
                       IN [tab |-> Reinsert(s.tab, 0, [i \in 0..(sz - 1) |-> -1], sz - 1), used |-> s.used, fill |-> s.used]
SAdd(s, k) == IF k \in SKeys(s) THEN s
              ELSE LET mask == SMask(s) f == FindSlot(s.tab, mask, k % (mask + 1), 0, -1) IN
                   IF f[2] # -1 THEN [s EXCEPT !.tab[f[2]] = k, !.used = s.used + 1]
                   ELSE LET s1 == [tab |-> [s.tab EXCEPT ![f[1]] = k], used |-> s.used + 1, fill |-> s.fill + 1]
                        IN IF s1.fill * 5 < mask * 3 THEN s1 ELSE SResize(s1, s1.used * 4)
SDiscard(s, k) == IF k \notin SKeys(s) THEN s ELSE [s EXCEPT !.tab[SSlot(s, k)] = -2, !.used = s.used - 1]
RECURSIVE SBuild(_)
SBuild(n) == IF n = 0 THEN SEmpty ELSE SAdd(SBuild(n - 1), n)
\* setiter_iternext == _PySet_NextEntry: it = [pos (next slot), used0]
SetIterNext(s, it) ==
  IF it.used0 # s.used THEN [r |-> "size"]
  ELSE LET c == {i \in DOMAIN s.tab : i >= it.pos /\ s.tab[i] >= 0} IN
       IF c = {} THEN [r |-> "stop"]
       ELSE LET i == CHOOSE x \in c : \A y \in c : x <= y
            IN [r |-> "item", item |-> s.tab[i], it |-> [pos |-> i + 1, used0 |-> it.used0]]

---------------------------------------------------------------------------
(* list: it = [idx] (0-based) *)
LBuild(n) == [i \in 1..n |-> i]
ListIterNext(l, it) == IF it.idx < Len(l) THEN [r |-> "item", item |-> l[it.idx + 1], it |-> [idx |-> it.idx + 1]]
                       ELSE [r |-> "stop"]
ListRevNext(l, it) == IF it.idx >= 0 /\ it.idx < Len(l) THEN [r |-> "item", item |-> l[it.idx + 1], it |-> [idx |-> it.idx - 1]]
                      ELSE [r |-> "stop"]

---------------------------------------------------------------------------
VARIABLES kind, n0, cont, it, pit, script, vis, fin, status, nact, nfresh
vars == <<kind, n0, cont, it, pit, script, vis, fin, status, nact, nfresh>>

IterNext == IF kind = "dict" THEN DictIterNext(cont, it)
            ELSE IF kind = "set" THEN SetIterNext(cont, it)
            ELSE IF kind = "list" THEN ListIterNext(cont, it)
            ELSE ListRevNext(cont, it)

\* the implementation-shaped step on the implementation's own loop temps (dict loops only)
PyxNext == PyxDictNext(cont, pit)

Fresh == 8 + nfresh        \* the next key / value that was never in the container (8, 9, 10: slot 0 / 1 / 2 of a set table of 8)

\* primitive mutations
Apply1(c, p) == IF p[1] = "set" THEN DSet(c, p[2], p[3])
                ELSE IF p[1] = "del" THEN DDel(c, p[2])
                ELSE IF p[1] = "add" THEN SAdd(c, p[2])
                ELSE IF p[1] = "dis" THEN SDiscard(c, p[2])
                ELSE IF p[1] = "app" THEN Append(c, p[2])
                ELSE IF p[1] = "pop" THEN SubSeq(c, 1, Len(c) - 1)
                ELSE IF p[1] = "pop0" THEN Tail(c)
                ELSE (* "ins0" *) <<p[2]>> \o c
RECURSIVE ApplyAll(_, _)
ApplyAll(c, ps) == IF ps = <<>> THEN c ELSE ApplyAll(Apply1(c, Head(ps)), Tail(ps))

\* the mutating actions a body may choose after seeing `item` (each a sequence of primitives);
\* the second component tells whether a fresh key / value is consumed
DictActs(item) ==
  LET ks == DKeys(cont) f == Fresh
      lastk == IF ks = {} THEN {} ELSE {cont.ents[CHOOSE i \in Live(cont) : \A j \in Live(cont) : j <= i][1]}
      reps == (({item[1]} \cap ks) \cup lastk)
  IN {<< <<"set", f, 10 * f>> >>}
     \cup {<< <<"set", k, DVal(cont, k) + 1>> >> : k \in reps}
     \cup {<< <<"del", k>> >> : k \in ks}
     \cup {<< <<"del", k>>, <<"set", f, 10 * f>> >> : k \in ks}
     \cup {<< <<"set", f, 10 * f>>, <<"del", k>> >> : k \in ks}
     \cup {<< <<"del", k>>, <<"set", k, DVal(cont, k)>> >> : k \in ks}
SetActs(item) ==
  LET ks == SKeys(cont) f == Fresh IN
  {<< <<"add", f>> >>}
     \cup {<< <<"dis", k>> >> : k \in ks}
     \cup {<< <<"dis", k>>, <<"add", f>> >> : k \in ks}
     \cup {<< <<"add", f>>, <<"dis", k>> >> : k \in ks}
     \cup {<< <<"dis", k>>, <<"add", k>> >> : k \in ks}
ListActs(item) ==
  {<< <<"app", Fresh>> >>, << <<"ins0", Fresh>> >>}
     \cup (IF Len(cont) > 0 THEN {<< <<"pop">> >>, << <<"pop0">> >>, << <<"pop">>, <<"app", Fresh>> >>} ELSE {})
Acts(item) == IF kind = "dict" THEN DictActs(item) ELSE IF kind = "set" THEN SetActs(item) ELSE ListActs(item)
UsesFresh(a) == \E i \in 1..Len(a) : a[i][1] \in {"set", "add", "app", "ins0"} /\ a[i][2] = Fresh

Init == /\ kind \in Kinds /\ n0 \in InitSizes
        /\ cont = (IF kind = "dict" THEN DBuild(n0) ELSE IF kind = "set" THEN SBuild(n0) ELSE LBuild(n0))
        /\ it = (IF kind = "dict" THEN [pos |-> 0, used0 |-> n0, len |-> n0]
                 ELSE IF kind = "set" THEN [pos |-> 0, used0 |-> n0]
                 ELSE IF kind = "list" THEN [idx |-> 0] ELSE [idx |-> n0 - 1])
        \* pos = 0; count = 0; orig_length = PyDict_Size(dict) (__Pyx_dict_iterator); unused for the other kinds
        /\ pit = (IF kind = "dict" THEN [pos |-> 0, olen |-> n0, count |-> 0] ELSE [pos |-> 0, olen |-> 0, count |-> 0])
        /\ script = <<>> /\ vis = <<>> /\ fin = <<>> /\ status = "run" /\ nact = 0 /\ nfresh = 0

Running == status = "run"
End(st) == /\ status' = st
           /\ UNCHANGED <<kind, n0, cont, it, pit, script, vis, fin, nact, nfresh>>
IterStop    == Running /\ IterNext.r = "stop" /\ End("else")
IterErrSize == Running /\ IterNext.r = "size" /\ End("size")
IterErrKeys == Running /\ IterNext.r = "keys" /\ End("keys")
Step(act, logged, newstatus, newcont, cost, fr) ==
  /\ it' = IterNext.it /\ fin' = <<IterNext.item>>
  /\ pit' = (IF kind = "dict" /\ PyxNext.r = "item" THEN PyxNext.it ELSE pit)
  /\ script' = Append(script, act)
  /\ vis' = IF logged THEN Append(vis, IterNext.item) ELSE vis
  /\ status' = newstatus /\ cont' = newcont /\ nact' = nact + cost /\ nfresh' = nfresh + fr
  /\ UNCHANGED <<kind, n0>>
BodyNone     == Running /\ IterNext.r = "item" /\ Step(<<>>, TRUE, "run", cont, 0, 0)
BodyBreak    == Running /\ IterNext.r = "item" /\ nact < MaxAct /\ Step(<< <<"brk">> >>, TRUE, "break", cont, 1, 0)
BodyContinue == Running /\ IterNext.r = "item" /\ nact < MaxAct /\ Step(<< <<"cont">> >>, FALSE, "run", cont, 1, 0)
BodyMutate   == Running /\ IterNext.r = "item" /\ nact < MaxAct
                /\ \E a \in Acts(IterNext.item) : Step(a, TRUE, "run", ApplyAll(cont, a), 1, IF UsesFresh(a) THEN 1 ELSE 0)
Next == IterStop \/ IterErrSize \/ IterErrKeys \/ BodyNone \/ BodyBreak \/ BodyContinue \/ BodyMutate
Spec == Init /\ [][Next]_vars

---------------------------------------------------------------------------
(* invariants *)
TypeOK == /\ status \in {"run", "else", "break", "size", "keys"}
          /\ nact <= MaxAct /\ Len(vis) <= Len(script)
          /\ (kind = "dict" => cont.used = Cardinality(Live(cont)) /\ Cardinality(DKeys(cont)) = cont.used /\ cont.usable >= 0)
          /\ (kind = "set" => cont.used = Cardinality(SKeys(cont)) /\ cont.fill >= cont.used /\ cont.fill <= SMask(cont))

(* the checks fire exactly when the language-level condition holds *)
SizeCheck == (Running /\ kind \in {"dict", "set"}) => ((IterNext.r = "size") <=> (cont.used # it.used0))
\* a dict iterator never produces more items than the dict had when the loop started
DictBudget == kind = "dict" => Len(script) <= n0 /\ it.len = n0 - Len(script)
\* without mutations every element is visited exactly once, in storage order
NoMutationVisitsAll ==
  (status = "else" /\ \A i \in 1..Len(script) : script[i] = <<>>) =>
     /\ Len(vis) = n0
     /\ (kind = "dict" => vis = [i \in 1..n0 |-> <<i, 10 * i>>])
     /\ (kind = "list" => vis = LBuild(n0))
     /\ (kind = "rlist" => vis = [i \in 1..n0 |-> n0 + 1 - i])
     /\ (kind = "set" => {vis[i] : i \in 1..n0} = 1..n0)
\* a body that never stores into the dict sees every key at most once (with insertions this is
\* false even for fresh keys: the compaction of a resize moves entries behind the iterator's position)
DictNoRepeatWithoutStore ==
  (kind = "dict" /\ \A i \in 1..Len(script) : \A j \in 1..Len(script[i]) : script[i][j][1] # "set") =>
     \A i, j \in 1..Len(vis) : i # j => vis[i][1] # vis[j][1]

(* implementation-shaped vs reference: __Pyx_dict_iter_next, stepping its own temps, answers *)
(* exactly like dictiter at every reachable step: same outcome (item / stop / "changed size" / *)
(* "keys changed"), same item.  There is no hazard set: full agreement.                      *)
\* the implementation's temps: count never exceeds orig_length (the check fires first), orig_length is fixed
PyxTempsOK == kind = "dict" => pit.olen = n0 /\ pit.count <= pit.olen /\ pit.count = Len(script)
PyxDictAgrees ==
  (Running /\ kind = "dict") =>
     LET p == PyxNext r == IterNext IN
     r.r = p.r /\ (r.r = "item" => r.item = p.item)

Publish == (Dump /\ ~Running) =>
   PrintT("@@" \o ToJson([kind |-> kind, n |-> n0, script |-> script, vis |-> vis, fin |-> fin, status |-> status]))
=============================================================================
