SPECIFICATION Spec
CONSTANTS
  GridSel = "q"
  Ops = {"conv"}
  Dump = FALSE
INVARIANT ConvAgreesEverywhere
CHECK_DEADLOCK FALSE
