SPECIFICATION Spec
CONSTANTS
  Part = "slice"
  MaxLen = 3
  VMag = 3
  Mixed = TRUE
  Dump = TRUE
INVARIANT ImplAgreesOffHazards
INVARIANT HazardsConfined
INVARIANT HazardExact
INVARIANT MacrosSound
INVARIANT RefSound
INVARIANT RefShape
INVARIANT Publish
CHECK_DEADLOCK FALSE
