SPECIFICATION Spec
CONSTANTS
  Part = "slice"
  MaxLen = 3
  VMag = 3
  Mixed = TRUE
  Dump = TRUE
INVARIANT NoUB
INVARIANT ImplAgreesOffHazards
INVARIANT HazardsConfined
INVARIANT CropClamped
INVARIANT MacrosSound
INVARIANT RefSound
INVARIANT RefShape
INVARIANT Publish
CHECK_DEADLOCK FALSE
