SPECIFICATION Spec
INVARIANT TypeOK
INVARIANT Deterministic
INVARIANT Consumes
INVARIANT OkIsEqual
INVARIANT AccIdle
CHECK_DEADLOCK TRUE
