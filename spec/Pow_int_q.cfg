SPECIFICATION Spec
CONSTANTS
  Part = "intpow"
  IntTypes <- TIntAll
  MaxE = 15
  MaxN = 200
INVARIANT IntPowMachineOK
INVARIANT IntPowExact
INVARIANT IntPowModular
INVARIANT IntPowLoopInv
INVARIANT Publish
CHECK_DEADLOCK FALSE
