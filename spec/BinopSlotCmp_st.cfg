SPECIFICATION Spec
CONSTANTS
  Pairs <- PairsS
  FamC <- Medium
  FamS <- Medium
  FamD <- Tiny
  FamO <- Tiny
  Dump = TRUE
INVARIANT RefShape
INVARIANT ImplAgreesOffHazards
INVARIANT Publish
CHECK_DEADLOCK FALSE
