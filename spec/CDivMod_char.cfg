SPECIFICATION Spec
CONSTANTS
  Types <- TChar
  Dump = TRUE
  GridOnly = FALSE
INVARIANT RefSound
INVARIANT ImplAgrees
INVARIANT NoUB
INVARIANT Publish
CHECK_DEADLOCK FALSE
