---- MODULE Sz ----
EXTENDS EvalOrder
ASSUME SizesP
====
