----------------------------- MODULE FormatSpec -----------------------------
(* C18: string formatting produces exactly CPython's text.                     *)
(*                                                                              *)
(* Texts (format specs, templates, results) are sequences of code points.       *)
(* Integers are sign + magnitude in LIMBS base-65536 limbs (TLC integers are    *)
(* 32-bit), so every C integer type is modelled at its real width.  Floats are  *)
(* dyadic rationals m / 2^k plus nan/inf/-0.0 (exact decimal expansion).        *)
(*                                                                              *)
(* Reference  : the format-spec mini-language as a PARSER over the text          *)
(*   (ParseSpec) and Format of int / bool / str / float / None operands          *)
(*   (FormatObj), the conversions !s !r !a (Str, Repr, Ascii), %-formatting      *)
(*   (PctConv), str()/repr()/format() and concatenation of parts.                *)
(* Impl-shaped: PyrexTypes.CIntLike._parse_format / CFloatType._parse_format      *)
(*   (IParse, FParse), TypeConversion.c CIntToPyUnicode (digit pairs, sign,       *)
(*   padding, BuildFromAscii: CIntText), the 'c' path (COrd), FormattedValueNode  *)
(*   (ImplFValue: the conversion is dropped on the C path), Optimize.py           *)
(*   _build_fstring (PctImpl) and JoinedStrNode's length / kind precomputation.   *)
(* One behaviour per case (site + spec/template/parts): todo -> ops -> done; the   *)
(* last step computes the row of <<reference, implementation-shaped>> outcomes    *)
(* over the operand grid, which is published for replay on compiled code (B1).    *)
(* Cells where the implementation-shaped model differs from the reference must    *)
(* lie in a documented hazard class (HzClass) and are published with their class. *)
EXTENDS Integers, Sequences, FiniteSets, TLC, Json, IOUtils
SX == INSTANCE SequencesExt

CONSTANTS Level,        \* 1 quick, 2 thorough (larger pools)
          Sites,        \* subset of {"fstr", "pct", "call", "join"}
          Dump

\* sampling parameters written by the harness: [seed, mod, pmod, pmodo, jmod (3 numbers), rnd: <<[neg, mag]>>]
Params == ndJsonDeserialize(IOEnv.C18_PARAMS)[1]
Seed == Params.seed
Mod  == Params.mod      \* one of Mod generic specs of the grammar is evaluated (hash + seed); pmod/pmodo/jmod: the same for %-templates and joins

LIMBS == 5
B == 65536
Max(a, b) == IF a > b THEN a ELSE b
Min(a, b) == IF a < b THEN a ELSE b
Rep(c, n) == IF n <= 0 THEN <<>> ELSE [i \in 1..n |-> c] \o <<>>
Pow10(n) == 10 ^ n

---------------------------------------------------------------------------
(* magnitudes: big-endian limb sequences *)
\* (explicit 5-tuples: TLC keeps [i \in S |-> e] as an unevaluated closure, which makes chains of limb operations explode)
ZeroM == <<0, 0, 0, 0, 0>>
IsZeroM(m) == m[1] = 0 /\ m[2] = 0 /\ m[3] = 0 /\ m[4] = 0 /\ m[5] = 0
FromNat(x) == <<0, 0, 0, x \div B, x % B>>                                                  \* x < 2^31
IsSmallM(m) == m[1] = 0 /\ m[2] = 0 /\ m[3] = 0 /\ m[4] < 16384
ToNat(m) == m[4] * B + m[5]                                                                \* if IsSmallM(m)
P2(k) == LET q == k \div 16 v == 2 ^ (k % 16) IN <<IF q = 4 THEN v ELSE 0, IF q = 3 THEN v ELSE 0, IF q = 2 THEN v ELSE 0, IF q = 1 THEN v ELSE 0, IF q = 0 THEN v ELSE 0>>
LtM(a, b) == \E i \in 1..LIMBS : a[i] < b[i] /\ \A j \in 1..i-1 : a[j] = b[j]
LeM(a, b) == a = b \/ LtM(a, b)
DivSmall(m, d) ==       \* <<quotient, remainder>>, d <= 128
  LET t1 == m[1]               r1 == t1 % d
      t2 == r1 * B + m[2]      r2 == t2 % d
      t3 == r2 * B + m[3]      r3 == t3 % d
      t4 == r3 * B + m[4]      r4 == t4 % d
      t5 == r4 * B + m[5]
  IN <<<<t1 \div d, t2 \div d, t3 \div d, t4 \div d, t5 \div d>>, t5 % d>>
MulAdd(m, k, a) ==      \* m * k + a, k <= 16384, a < B (the top carry is dropped: callers stay below B^LIMBS)
  LET s5 == m[5] * k + a
      s4 == m[4] * k + s5 \div B
      s3 == m[3] * k + s4 \div B
      s2 == m[2] * k + s3 \div B
      s1 == m[1] * k + s2 \div B
  IN <<s1 % B, s2 % B, s3 % B, s4 % B, s5 % B>>
SubOne(m) ==            \* m - 1, m > 0
  LET b5 == TRUE  b4 == m[5] = 0  b3 == b4 /\ m[4] = 0  b2 == b3 /\ m[3] = 0  b1 == b2 /\ m[2] = 0
      L(x, b) == IF b THEN (IF x = 0 THEN B - 1 ELSE x - 1) ELSE x
  IN <<L(m[1], b1), L(m[2], b2), L(m[3], b3), L(m[4], b4), L(m[5], b5)>>
AddOne(m) == MulAdd(m, 1, 1)
Force(s) == s \o <<>>   \* an explicit tuple instead of a closure
RECURSIVE DigitsOf(_, _)
DigitsOf(m, b) == LET qr == DivSmall(m, b) IN IF IsZeroM(qr[1]) THEN <<qr[2]>> ELSE Append(DigitsOf(qr[1], b), qr[2])
RECURSIVE Horner(_, _, _)
Horner(ds, b, acc) == IF ds = <<>> THEN acc ELSE Horner(Tail(ds), b, MulAdd(acc, b, Head(ds)))
RECURSIVE PowM(_, _)
PowM(b, n) == IF n = 0 THEN FromNat(1) ELSE MulAdd(PowM(b, n - 1), b, 0)
RECURSIVE DigitsNat(_)
DigitsNat(x) == IF x < 10 THEN <<x>> ELSE Append(DigitsNat(x \div 10), x % 10)
PadDigits(ds, n) == Rep(0, n - Len(ds)) \o ds

---------------------------------------------------------------------------
(* values *)
VInt(neg, mag) == [k |-> "int", neg |-> neg /\ ~IsZeroM(mag), mag |-> mag]
I(x) == VInt(x < 0, FromNat(IF x < 0 THEN -x ELSE x))
VBool(b) == [k |-> "bool", b |-> b]
VStr(cps) == [k |-> "str", cps |-> cps]
VNone == [k |-> "none"]
\* floats: cls "fin" (value (-1)^neg * m / 2^e), "nan", "inf"
VFin(neg, m, e) == [k |-> "float", cls |-> "fin", neg |-> neg, m |-> m, e |-> e]
VNan == [k |-> "float", cls |-> "nan", neg |-> FALSE, m |-> 0, e |-> 0]
VInf(neg) == [k |-> "float", cls |-> "inf", neg |-> neg, m |-> 0, e |-> 0]
AsInt(v) == IF v.k = "bool" THEN I(IF v.b THEN 1 ELSE 0) ELSE v

\* outcomes: e = 0 text t; 1 ValueError, 2 TypeError, 3 OverflowError; 9 = unspecified garbage (impl model only)
Ok(t) == [e |-> 0, t |-> t]
Err(n) == [e |-> n, t |-> <<>>]
ValueError == Err(1)
TypeError == Err(2)
OverflowError == Err(3)
Garbage == Err(9)

\* characters
cSp == 32  cDq == 34  cHash == 35  cPct == 37  cSq == 39  cPlus == 43  cComma == 44  cMinus == 45  cDot == 46
c0 == 48  cLt == 60  cEq == 61  cGt == 62  cCaret == 94  cUnder == 95  cBsl == 92
ch_a == 97  ch_b == 98  ch_c == 99  ch_d == 100  ch_e == 101  ch_f == 102  ch_g == 103  ch_i == 105  ch_n == 110
ch_o == 111  ch_q == 113  ch_r == 114  ch_s == 115  ch_t == 116  ch_u == 117  ch_x == 120
ch_E == 69  ch_F == 70  ch_G == 71  ch_X == 88  ch_U == 85
IsDigit(c) == c >= 48 /\ c <= 57
DigitChar(d, upper) == IF d < 10 THEN 48 + d ELSE (IF upper THEN 55 ELSE 87) + d
DigitChars(ds, upper) == [i \in 1..Len(ds) |-> DigitChar(ds[i], upper)] \o <<>>
Upper(t) == [i \in 1..Len(t) |-> IF t[i] >= 97 /\ t[i] <= 122 THEN t[i] - 32 ELSE t[i]] \o <<>>
TNone == <<78, 111, 110, 101>>
TTrue == <<84, 114, 117, 101>>
TFalse == <<70, 97, 108, 115, 101>>
TNan == <<110, 97, 110>>
TInf == <<105, 110, 102>>

---------------------------------------------------------------------------
(* REFERENCE 1: the format-spec parser (CPython parse_internal_render_format_spec) *)
IsAlignCh(c) == c \in {cLt, cGt, cEq, cCaret}
At(s, i) == IF i >= 1 /\ i <= Len(s) THEN s[i] ELSE -1
DigitsEnd(s, p) == CHOOSE i \in p..Len(s)+1 : ~IsDigit(At(s, i)) /\ \A j \in p..i-1 : IsDigit(s[j])
RECURSIVE NumOf(_, _, _, _)
NumOf(s, p, q, acc) == IF p >= q THEN acc ELSE NumOf(s, p + 1, q, IF acc > 100000 THEN acc ELSE acc * 10 + (s[p] - 48))
IntTypes == {ch_b, ch_c, ch_d, ch_o, ch_x, ch_X}
FloatTypes == {ch_e, ch_E, ch_f, ch_F, ch_g, ch_G, cPct}
BadSpec == [err |-> TRUE, fill |-> 0, align |-> 0, sign |-> 0, alt |-> FALSE, width |-> -1, grp |-> 0, prec |-> -1, type |-> 0]
ParseSpec(s, defAlign) ==
  LET n == Len(s)
      fa == IF n >= 2 /\ IsAlignCh(s[2]) THEN <<s[1], s[2], TRUE, TRUE, 3>>
            ELSE IF n >= 1 /\ IsAlignCh(s[1]) THEN <<cSp, s[1], FALSE, TRUE, 2>>
            ELSE <<cSp, defAlign, FALSE, FALSE, 1>>
      p1 == fa[5]
      sg == IF At(s, p1) \in {cPlus, cMinus, cSp} THEN At(s, p1) ELSE 0
      p2 == IF sg # 0 THEN p1 + 1 ELSE p1
      alt == At(s, p2) = cHash
      p3 == IF alt THEN p2 + 1 ELSE p2
      zero == ~fa[3] /\ At(s, p3) = c0
      p4 == IF zero THEN p3 + 1 ELSE p3
      fill == IF zero THEN c0 ELSE fa[1]
      align == IF zero /\ ~fa[4] /\ defAlign = cGt THEN cEq ELSE fa[2]
      p5 == DigitsEnd(s, p4)
      width == IF p5 = p4 THEN -1 ELSE NumOf(s, p4, p5, 0)
      comma == At(s, p5) = cComma
      p6 == IF comma THEN p5 + 1 ELSE p5
      under == At(s, p6) = cUnder
      p7 == IF under THEN p6 + 1 ELSE p6
      both == (comma /\ under) \/ (under /\ At(s, p7) = cComma)
      dot == At(s, p7) = cDot
      p8 == IF dot THEN DigitsEnd(s, p7 + 1) ELSE p7
      noprec == dot /\ p8 = p7 + 1
      prec == IF dot /\ ~noprec THEN NumOf(s, p7 + 1, p8, 0) ELSE -1
      left == n - p8 + 1
      type == IF left = 1 THEN s[p8] ELSE 0
      grp == IF comma THEN cComma ELSE IF under THEN cUnder ELSE 0
      grpbad == grp # 0 /\ ~(type \in {0, ch_d, ch_e, ch_E, ch_f, ch_F, ch_g, ch_G, cPct}
                              \/ (grp = cUnder /\ type \in {ch_b, ch_o, ch_x, ch_X}))
  IN IF both \/ noprec \/ left > 1 \/ grpbad THEN BadSpec
     ELSE [err |-> FALSE, fill |-> fill, align |-> align, sign |-> sg, alt |-> alt, width |-> width, grp |-> grp,
           prec |-> prec, type |-> type]

---------------------------------------------------------------------------
(* REFERENCE 2: number layout (sign, prefix, grouped digits, remainder, padding) *)
RECURSIVE GroupR(_, _, _, _)
GroupR(d, mw, G, sep) ==       \* digit chars d grouped by G from the right, zero-extended to at least mw characters
  LET n == Len(d)
      l == Min(G, Max(Max(n, mw), 1))
      used == Min(n, l)
      grp == Rep(c0, l - n) \o SubSeq(d, n - used + 1, n)
      d2 == SubSeq(d, 1, n - used)
      mw2 == mw - l
  IN IF d2 = <<>> /\ mw2 <= 0 THEN grp ELSE GroupR(d2, mw2 - 1, G, sep) \o <<sep>> \o grp
Grouped(d, G, sep, mw) == IF d = <<>> THEN <<>>
                          ELSE IF G = 0 THEN Rep(c0, mw - Len(d)) \o d
                          ELSE GroupR(d, mw, G, sep)
Pad(body, ps, signseq, prefix) ==   \* body = digits + remainder; padding by alignment
  LET natural == Len(signseq) + Len(prefix) + Len(body)
      pad == ps.width - natural
      l == pad \div 2
  IN IF pad <= 0 THEN signseq \o prefix \o body
     ELSE CASE ps.align = cLt -> signseq \o prefix \o body \o Rep(ps.fill, pad)
            [] ps.align = cGt -> Rep(ps.fill, pad) \o signseq \o prefix \o body
            [] ps.align = cCaret -> Rep(ps.fill, l) \o signseq \o prefix \o body \o Rep(ps.fill, pad - l)
            [] ps.align = cEq -> signseq \o prefix \o Rep(ps.fill, pad) \o body
NumberLayout(neg, prefix, digs, rest, ps, G) ==
  LET signseq == IF neg THEN <<cMinus>> ELSE IF ps.sign = cPlus THEN <<cPlus>> ELSE IF ps.sign = cSp THEN <<cSp>> ELSE <<>>
      nondigit == Len(signseq) + Len(prefix) + Len(rest)
      mw == IF ps.fill = c0 /\ ps.align = cEq THEN ps.width - nondigit ELSE 0
      gd == Grouped(digs, IF ps.grp = 0 THEN 0 ELSE G, ps.grp, mw)
  IN Pad(gd \o rest, ps, signseq, prefix)

---------------------------------------------------------------------------
(* REFERENCE 3: floats.  FloatParts(x, ty, prec) = [neg, digs, rest] as PyOS_double_to_string splits *)
RoundHE(num, den) == LET q == num \div den r == num % den IN IF 2 * r > den \/ (2 * r = den /\ q % 2 = 1) THEN q + 1 ELSE q
RECURSIVE NegExp(_, _)
NegExp(m, den) == IF m >= den THEN 0 ELSE 1 + NegExp(m * 10, den)
Exp10(m, e) ==      \* decimal exponent of m / 2^e, m > 0
  LET den == 2 ^ e IN IF m >= den THEN Len(DigitsNat(m \div den)) - 1 ELSE -NegExp(m, den)
Scaled(m, e, s) == IF s >= 0 THEN RoundHE(m * Pow10(s), 2 ^ e) ELSE RoundHE(m, (2 ^ e) * Pow10(-s))   \* round(m / 2^e * 10^s)
ExpText(x, upper) == <<IF upper THEN 69 ELSE 101, IF x < 0 THEN cMinus ELSE cPlus>> \o DigitChars(PadDigits(DigitsNat(IF x < 0 THEN -x ELSE x), 2), FALSE)
RECURSIVE StripZeros(_)
StripZeros(ds) == IF ds # <<>> /\ ds[Len(ds)] = 0 THEN StripZeros(SubSeq(ds, 1, Len(ds) - 1)) ELSE ds
FracText(ds) == IF ds = <<>> THEN <<>> ELSE <<cDot>> \o DigitChars(ds, FALSE)
FixedParts(m, e, p) ==   \* <<integer digits, fraction digits (p)>>; exact when p >= e (m / 2^e has e decimals)
  IF p >= e THEN LET n == m * (5 ^ e) IN <<DigitsNat(n \div Pow10(e)), (IF e = 0 THEN <<>> ELSE PadDigits(DigitsNat(n % Pow10(e)), e)) \o Rep(0, p - e)>>
  ELSE LET n == Scaled(m, e, p) IN <<DigitsNat(n \div Pow10(p)), IF p = 0 THEN <<>> ELSE PadDigits(DigitsNat(n % Pow10(p)), p)>>
ExactParts(m, e) ==      \* <<significant digits without trailing zeros, decimal exponent>>, m > 0: m / 2^e = m * 5^e / 10^e
  LET ds == DigitsNat(m * (5 ^ e)) IN <<StripZeros(ds), Len(ds) - 1 - e>>
SciParts(m, e, p) ==     \* <<mantissa digits (p+1), exponent>> of m / 2^e rounded to p+1 significant digits
  IF m = 0 THEN <<Rep(0, p + 1), 0>>
  ELSE LET ep == ExactParts(m, e) IN
       IF Len(ep[1]) <= p + 1 THEN <<ep[1] \o Rep(0, p + 1 - Len(ep[1])), ep[2]>>
       ELSE LET x == Exp10(m, e)
                n == Scaled(m, e, p - x)
            IN IF n = Pow10(p + 1) THEN <<PadDigits(DigitsNat(Pow10(p)), p + 1), x + 1>> ELSE <<PadDigits(DigitsNat(n), p + 1), x>>
FloatParts(x, ty, prec0) ==
  LET upper == ty \in {69, 70, 71}
      t == IF upper THEN ty + 32 ELSE ty
      prec == IF prec0 < 0 THEN 6 ELSE prec0
  IN IF x.cls = "nan" THEN [neg |-> FALSE, digs |-> <<>>, rest |-> (IF upper THEN Upper(TNan) ELSE TNan) \o (IF ty = cPct THEN <<cPct>> ELSE <<>>)]
     ELSE IF x.cls = "inf" THEN [neg |-> x.neg, digs |-> <<>>, rest |-> (IF upper THEN Upper(TInf) ELSE TInf) \o (IF ty = cPct THEN <<cPct>> ELSE <<>>)]
     ELSE CASE t = ch_f -> LET fp == FixedParts(x.m, x.e, prec) IN [neg |-> x.neg, digs |-> DigitChars(fp[1], FALSE), rest |-> FracText(fp[2])]
            [] t = cPct -> LET fp == FixedParts(x.m * 100, x.e, prec) IN [neg |-> x.neg, digs |-> DigitChars(fp[1], FALSE), rest |-> FracText(fp[2]) \o <<cPct>>]
            [] t = ch_e -> LET sp == SciParts(x.m, x.e, prec)
                              IN [neg |-> x.neg, digs |-> DigitChars(<<sp[1][1]>>, FALSE), rest |-> FracText(Tail(sp[1])) \o ExpText(sp[2], upper)]
            [] t = ch_g -> LET P == Max(prec, 1)
                                  sp == SciParts(x.m, x.e, P - 1)
                                  ex == sp[2]
                              IN IF ex >= -4 /\ ex < P
                                 THEN IF ex >= 0 THEN [neg |-> x.neg, digs |-> DigitChars(SubSeq(sp[1], 1, ex + 1), FALSE),
                                                       rest |-> FracText(StripZeros(SubSeq(sp[1], ex + 2, P)))]
                                      ELSE [neg |-> x.neg, digs |-> <<c0>>, rest |-> FracText(StripZeros(Rep(0, -ex - 1) \o sp[1]))]
                                 ELSE [neg |-> x.neg, digs |-> DigitChars(<<sp[1][1]>>, FALSE),
                                       rest |-> FracText(StripZeros(Tail(sp[1]))) \o ExpText(ex, upper)]
            [] t = ch_r ->     \* repr: shortest round-trip string = exact expansion for our short dyadics
                 IF x.m = 0 THEN [neg |-> x.neg, digs |-> <<c0>>, rest |-> <<cDot, c0>>]
                 ELSE LET ep == ExactParts(x.m, x.e)
                          ds == ep[1]
                          ex == ep[2]
                          n == Len(ds)
                      IN IF ex >= -4 /\ ex < 16
                         THEN IF ex >= 0 THEN [neg |-> x.neg, digs |-> DigitChars(SubSeq(ds, 1, Min(n, ex + 1)) \o Rep(0, ex + 1 - n), FALSE),
                                               rest |-> IF n > ex + 1 THEN FracText(SubSeq(ds, ex + 2, n)) ELSE <<cDot, c0>>]
                              ELSE [neg |-> x.neg, digs |-> <<c0>>, rest |-> FracText(Rep(0, -ex - 1) \o ds)]
                         ELSE [neg |-> x.neg, digs |-> DigitChars(<<ds[1]>>, FALSE), rest |-> FracText(Tail(ds)) \o ExpText(ex, FALSE)]
FloatStr(x) == LET fp == FloatParts(x, ch_r, -1) IN (IF fp.neg THEN <<cMinus>> ELSE <<>>) \o fp.digs \o fp.rest
IntToFloat(v) == VFin(v.neg, ToNat(v.mag), 0)     \* only for IsSmallM(v.mag)

---------------------------------------------------------------------------
(* REFERENCE 4: str(), repr(), ascii() *)
NonPrintable(c) == c < 32 \/ (c >= 127 /\ c <= 160) \/ c = 173 \/ (c >= 55296 /\ c <= 57343)
HexN(c, n) == PadDigits(IF c = 0 THEN <<0>> ELSE DigitsOf(FromNat(c), 16), n)
EscChar(c, q, asciionly) ==
  IF c = cBsl \/ c = q THEN <<cBsl, c>>
  ELSE IF c = 9 THEN <<cBsl, ch_t>> ELSE IF c = 10 THEN <<cBsl, ch_n>> ELSE IF c = 13 THEN <<cBsl, ch_r>>
  ELSE IF c < 32 \/ c = 127 THEN <<cBsl, ch_x>> \o DigitChars(HexN(c, 2), FALSE)
  ELSE IF c < 127 THEN <<c>>
  ELSE IF asciionly \/ NonPrintable(c)
       THEN IF c < 256 THEN <<cBsl, ch_x>> \o DigitChars(HexN(c, 2), FALSE)
            ELSE IF c < 65536 THEN <<cBsl, ch_u>> \o DigitChars(HexN(c, 4), FALSE)
            ELSE <<cBsl, ch_U>> \o DigitChars(HexN(c, 8), FALSE)
       ELSE <<c>>
RECURSIVE Flat(_)
Flat(ss) == IF ss = <<>> THEN <<>> ELSE Head(ss) \o Flat(Tail(ss))
ReprStr(s, asciionly) ==
  LET hasS == \E i \in 1..Len(s) : s[i] = cSq
      hasD == \E i \in 1..Len(s) : s[i] = cDq
      q == IF hasS /\ ~hasD THEN cDq ELSE cSq
  IN <<q>> \o Flat([i \in 1..Len(s) |-> EscChar(s[i], q, asciionly)] \o <<>>) \o <<q>>
IntStr(v) == (IF v.neg THEN <<cMinus>> ELSE <<>>) \o DigitChars(DigitsOf(v.mag, 10), FALSE)
Str(v) == CASE v.k = "int" -> IntStr(v) [] v.k = "bool" -> (IF v.b THEN TTrue ELSE TFalse) [] v.k = "str" -> v.cps
            [] v.k = "none" -> TNone [] v.k = "float" -> FloatStr(v)
Repr(v) == IF v.k = "str" THEN ReprStr(v.cps, FALSE) ELSE Str(v)
Ascii(v) == IF v.k = "str" THEN ReprStr(v.cps, TRUE) ELSE Str(v)
Conv(v, conv) == CASE conv = 0 -> v [] conv = ch_s -> VStr(Str(v)) [] conv = ch_r -> VStr(Repr(v)) [] conv = ch_a -> VStr(Ascii(v))

---------------------------------------------------------------------------
(* REFERENCE 5: format(obj, spec) *)
FormatStrObj(s, ps) ==
  IF ps.type \notin {0, ch_s} \/ ps.sign # 0 \/ ps.alt \/ ps.align = cEq \/ ps.grp # 0 THEN ValueError
  ELSE LET t == IF ps.prec >= 0 /\ ps.prec < Len(s) THEN SubSeq(s, 1, ps.prec) ELSE s IN Ok(Pad(t, ps, <<>>, <<>>))
FloatSmallEnough(v) == v.cls # "fin" \/ (v.e <= 4 /\ v.m * (5 ^ v.e) < 16777216)
FormatFloatObj(x, ps) ==      \* undecided (e = 8) where the dyadic model does not reach
  IF ps.type \notin (FloatTypes \cup {0}) THEN ValueError
  ELSE IF ps.alt \/ (ps.type = 0 /\ ps.prec >= 0) \/ ps.prec > 3 \/ ~FloatSmallEnough(x) THEN Err(8)
  ELSE LET fp == FloatParts(x, IF ps.type = 0 THEN ch_r ELSE ps.type, ps.prec) IN Ok(NumberLayout(fp.neg, <<>>, fp.digs, fp.rest, ps, 3))
FormatIntObj(v, ps) ==
  IF ps.type \in FloatTypes THEN (IF IsSmallM(v.mag) /\ ToNat(v.mag) < 1048576 THEN FormatFloatObj(IntToFloat(v), ps) ELSE Err(8))
  ELSE IF ps.type \notin (IntTypes \cup {0}) THEN ValueError
  ELSE IF ps.prec >= 0 THEN ValueError
  ELSE IF ps.type = ch_c
       THEN IF ps.sign # 0 \/ ps.alt THEN ValueError
            ELSE IF v.neg \/ ~IsSmallM(v.mag) \/ ToNat(v.mag) > 1114111 THEN OverflowError
            ELSE Ok(NumberLayout(FALSE, <<>>, <<ToNat(v.mag)>>, <<>>, ps, 0))
  ELSE LET base == CASE ps.type = ch_b -> 2 [] ps.type = ch_o -> 8 [] ps.type \in {ch_x, ch_X} -> 16 [] OTHER -> 10
           digs == DigitChars(DigitsOf(v.mag, base), ps.type = ch_X)
           prefix == IF ~ps.alt \/ base = 10 THEN <<>> ELSE <<c0, ps.type>>
       IN Ok(NumberLayout(v.neg, prefix, digs, <<>>, ps, IF base = 10 THEN 3 ELSE 4))
FormatObj(v, s) ==       \* format(v, s) for a non-empty spec text s
  IF v.k = "none" THEN TypeError
  ELSE LET ps == ParseSpec(s, IF v.k = "str" THEN cLt ELSE cGt) IN
       IF ps.err THEN ValueError
       ELSE CASE v.k = "str" -> FormatStrObj(v.cps, ps)
              [] v.k \in {"int", "bool"} -> FormatIntObj(AsInt(v), ps)
              [] v.k = "float" -> FormatFloatObj(v, ps)
RefFValue(v, conv, s) ==    \* f"{v!conv:s}"
  LET o == Conv(v, conv) IN IF s = <<>> THEN Ok(Str(o)) ELSE FormatObj(o, s)

---------------------------------------------------------------------------
(* REFERENCE 6: %-formatting of one conversion  %<flags><width>.<prec><type>  applied to one operand *)
PctPad(signseq, prefix, body, width, left, zero) ==
  LET pad == width - (Len(signseq) + Len(prefix) + Len(body)) IN
  IF pad <= 0 THEN signseq \o prefix \o body
  ELSE IF left THEN signseq \o prefix \o body \o Rep(cSp, pad)
  ELSE IF zero THEN signseq \o prefix \o Rep(c0, pad) \o body
  ELSE Rep(cSp, pad) \o signseq \o prefix \o body
PctSign(neg, flags) == IF neg THEN <<cMinus>> ELSE IF cPlus \in flags THEN <<cPlus>> ELSE IF cSp \in flags THEN <<cSp>> ELSE <<>>
PctConv(flags, width, prec, ty, v) ==     \* flags: set of flag characters
  LET left == cMinus \in flags
      zero == c0 \in flags
      alt == cHash \in flags
  IN CASE ty \in {ch_s, ch_r, ch_a} ->
            LET t0 == CASE ty = ch_s -> Str(v) [] ty = ch_r -> Repr(v) [] ty = ch_a -> Ascii(v)
                t == IF prec >= 0 /\ prec < Len(t0) THEN SubSeq(t0, 1, prec) ELSE t0
            IN Ok(PctPad(<<>>, <<>>, t, width, left, FALSE))
       [] ty \in {ch_d, ch_i, ch_u, ch_o, ch_x, ch_X} ->
            IF v.k \in {"str", "none"} THEN TypeError
            ELSE IF v.k = "float" /\ ty \in {ch_o, ch_x, ch_X} THEN TypeError
            ELSE IF v.k = "float" /\ v.cls = "nan" THEN ValueError
            ELSE IF v.k = "float" /\ v.cls = "inf" THEN OverflowError
            ELSE LET iv == IF v.k = "float" THEN VInt(v.neg, FromNat(v.m \div (2 ^ v.e))) ELSE AsInt(v)
                     base == CASE ty = ch_o -> 8 [] ty \in {ch_x, ch_X} -> 16 [] OTHER -> 10
                     d0 == DigitChars(DigitsOf(iv.mag, base), ty = ch_X)
                     d == Rep(c0, prec - Len(d0)) \o d0
                     prefix == IF alt /\ base # 10 THEN <<c0, ty>> ELSE <<>>
                 IN Ok(PctPad(PctSign(iv.neg, flags), prefix, d, width, left, zero))
       [] ty \in {ch_e, ch_E, ch_f, ch_F, ch_g, ch_G} ->
            IF v.k \in {"str", "none"} THEN TypeError
            ELSE IF alt \/ prec > 3 THEN Err(8)
            ELSE IF v.k # "float" /\ ~(IsSmallM(AsInt(v).mag) /\ ToNat(AsInt(v).mag) < 1048576) THEN Err(8)
            ELSE LET x == IF v.k = "float" THEN v ELSE IntToFloat(AsInt(v))
                 IN IF ~FloatSmallEnough(x) THEN Err(8)
                    ELSE LET fp == FloatParts(x, ty, prec) IN Ok(PctPad(PctSign(fp.neg, flags), <<>>, fp.digs \o fp.rest, width, left, zero))
       [] ty = ch_c ->
            IF v.k = "str" THEN (IF Len(v.cps) = 1 THEN Ok(PctPad(<<>>, <<>>, v.cps, width, left, FALSE)) ELSE TypeError)
            ELSE IF v.k \in {"float", "none"} THEN TypeError
            ELSE LET iv == AsInt(v) IN IF iv.neg \/ ~IsSmallM(iv.mag) \/ ToNat(iv.mag) > 1114111 THEN OverflowError
                                      ELSE Ok(PctPad(<<>>, <<>>, <<ToNat(iv.mag)>>, width, left, FALSE))
       [] OTHER -> ValueError       \* unsupported format character

---------------------------------------------------------------------------
(* IMPLEMENTATION-SHAPED 1: PyrexTypes._parse_format and the C formatting helpers *)
\* C integer types: [tag, bits, signed]
CT(tag, bits, signed) == [tag |-> tag, bits |-> bits, signed |-> signed]
IntCTypes == <<CT("schar", 8, TRUE), CT("uchar", 8, FALSE), CT("short", 16, TRUE), CT("ushort", 16, FALSE), CT("int", 32, TRUE),
               CT("uint", 32, FALSE), CT("long", 64, TRUE), CT("ulong", 64, FALSE), CT("llong", 64, TRUE), CT("ullong", 64, FALSE),
               CT("ssize", 64, TRUE), CT("size", 64, FALSE)>>
MaxOf(T) == SubOne(P2(IF T.signed THEN T.bits - 1 ELSE T.bits))
InRange(T, v) == IF v.neg THEN T.signed /\ LeM(v.mag, P2(T.bits - 1)) ELSE LeM(v.mag, MaxOf(T))

RECURSIVE LStrip0(_)
LStrip0(s) == IF s # <<>> /\ s[1] = c0 THEN LStrip0(Tail(s)) ELSE s
AllDigits(s) == s # <<>> /\ \A i \in 1..Len(s) : IsDigit(s[i])
IParse(s) ==      \* CIntLike._parse_format -> <<format type or 0, width, padding char>>
  IF s = <<>> THEN <<ch_d, 0, cSp>>
  ELSE LET last == s[Len(s)]
           known == last \in {ch_o, ch_d, ch_x, ch_X, ch_c}
           ft == IF known THEN last ELSE ch_d
           prefix0 == IF known THEN SubSeq(s, 1, Len(s) - 1) ELSE s
       IN IF ~known /\ ~IsDigit(last) THEN <<0, 0, cSp>>
          ELSE IF prefix0 = <<>> THEN <<ft, 0, cSp>>
          ELSE LET p1 == IF prefix0[1] \in {cGt, cMinus} THEN Tail(prefix0) ELSE prefix0
                   z == p1 # <<>> /\ p1[1] = c0
                   p2 == IF z THEN LStrip0(p1) ELSE p1
               IN IF AllDigits(p2) THEN <<ft, NumOf(p2, 1, Len(p2) + 1, 0), IF z THEN c0 ELSE cSp>> ELSE <<0, 0, IF z THEN c0 ELSE cSp>>
FParse(s) ==      \* CFloatType._parse_format -> <<format char or 0, precision>>
  IF s = <<>> THEN <<ch_r, 0>>
  ELSE LET fc == s[Len(s)]
           pr == SubSeq(s, 1, Len(s) - 1)
       IN IF fc \notin {ch_e, ch_E, ch_f, ch_F, ch_g, ch_G} THEN <<0, 0>>
          ELSE IF pr = <<>> THEN <<fc, 6>>
          ELSE IF pr[1] = cDot /\ AllDigits(Tail(pr)) THEN <<fc, NumOf(pr, 2, Len(pr) + 1, 0)>>
          ELSE <<0, 0>>

\* __Pyx__PyUnicode_From_T: digit pairs for d / o, single hex digits; returns [chars, buf] (buf = characters written to the stack buffer)
RECURSIVE PairLoop(_, _, _)
PairLoop(m, b, acc) ==      \* acc: <<digit values so far (left of them to come), last_one_off>>
  LET qr == DivSmall(m, b * b)
      pr == <<qr[2] \div b, qr[2] % b>>
      acc2 == <<pr \o acc[1], qr[2] < b>>
  IN IF IsZeroM(qr[1]) THEN acc2 ELSE PairLoop(qr[1], b, acc2)
CIntText(T, v, ft, width, pad) ==
  LET raw == IF ft \in {ch_x, ch_X} THEN <<DigitsOf(v.mag, 16), FALSE>>
             ELSE PairLoop(v.mag, IF ft = ch_o THEN 8 ELSE 10, <<<<>>, FALSE>>)
      written == Len(raw[1])
      ds == DigitChars(IF raw[2] THEN Tail(raw[1]) ELSE raw[1], ft = ch_X)
      length0 == Len(ds)
      neg == T.signed /\ v.neg
      inbuf == neg /\ (pad = cSp \/ width <= length0 + 1)
      chars == IF inbuf THEN <<cMinus>> \o ds ELSE ds
      prepend == neg /\ ~inbuf
      ul0 == length0 + (IF neg THEN 1 ELSE 0)
      ulength == IF width > ul0 THEN width ELSE ul0
      uoffset == ulength - Len(chars)
      head == IF uoffset <= 0 THEN <<>> ELSE IF prepend THEN <<cMinus>> \o Rep(pad, uoffset - 1) ELSE Rep(pad, uoffset)
  IN [t |-> head \o chars, buf |-> written + (IF inbuf /\ ~raw[2] THEN 1 ELSE 0), cap |-> (T.bits \div 8) * 3 + 2]
\* __Pyx_uchar_PyUnicode_From_T (format type 'c')
COrd(T, v, width, pad) ==
  LET neg == T.signed /\ v.neg
      highbits == v.mag[1] # 0 \/ v.mag[2] # 0 \/ v.mag[3] # 0 \/ v.mag[4] >= 32      \* value & ~0x1fffff
      small == IsSmallM(v.mag) /\ ToNat(v.mag) <= 1114111
  IN IF neg THEN OverflowError
     ELSE IF ~(T.bits <= 16 \/ highbits \/ small) THEN OverflowError
     ELSE IF ~small THEN Garbage        \* (int) value reaches PyUnicode_FromOrdinal / the UTF-8 encoder unchecked
     ELSE LET c == ToNat(v.mag) IN Ok(Rep(pad, width - 1) \o <<c>>)

\* FormattedValueNode for one operand: carrier "cint" (with C type), "bint", "cdouble", "obj", "strobj"
ImplFValue(car, T, v, conv, s) ==
  CASE car = "cint" \/ (car = "bint" /\ s # <<>>) ->
         LET pf == IParse(s) iv == AsInt(v) IN
         IF pf[1] = 0 THEN RefFValue(v, conv, s)
         ELSE IF pf[1] = ch_c THEN COrd(IF car = "bint" THEN CT("bint", 32, TRUE) ELSE T, iv, pf[2], pf[3])
         ELSE Ok(CIntText(IF car = "bint" THEN CT("bint", 32, TRUE) ELSE T, iv, pf[1], pf[2], pf[3]).t)
    [] car = "bint" -> Ok(IF v.b THEN TTrue ELSE TFalse)
    [] car = "cdouble" ->
         LET pf == FParse(s) IN
         IF pf[1] = 0 THEN RefFValue(v, conv, s)
         ELSE IF pf[2] > 3 \/ ~FloatSmallEnough(v) THEN Err(8)
         ELSE LET fp == FloatParts(v, pf[1], IF pf[1] = ch_r THEN -1 ELSE pf[2]) IN Ok((IF fp.neg THEN <<cMinus>> ELSE <<>>) \o fp.digs \o fp.rest)
    [] OTHER -> RefFValue(v, conv, s)
ImplCPath(car, s) == CASE car \in {"cint"} -> IParse(s)[1] # 0
                       [] car = "bint" -> s = <<>> \/ IParse(s)[1] # 0
                       [] car = "cdouble" -> FParse(s)[1] # 0
                       [] OTHER -> FALSE

---------------------------------------------------------------------------
(* IMPLEMENTATION-SHAPED 2: Optimize.py _build_fstring for ONE conversion "%" + pre + (".digits") + type *)
\* pre: the characters between '%' and the precision / type (flags and width as written)
PctRewrite(pre, prectext, ty) ==     \* -> [opt, conv, spec]: the FormattedValueNode that replaces the conversion, or opt = FALSE
  LET preok == pre = <<>> \/ pre = <<cSp>> \/ \A i \in 1..Len(pre) : (IsDigit(pre[i]) \/ pre[i] = cMinus)
      hasdot == prectext # <<>>
      fs0 == pre \o prectext
  IN IF ~preok \/ ty \notin {ch_a, ch_s, ch_r, ch_f, ch_d, ch_o, ch_x, ch_X} THEN [opt |-> FALSE, conv |-> 0, spec |-> <<>>]
     ELSE IF ty \in {ch_d, ch_o, ch_x, ch_X} /\ hasdot THEN [opt |-> FALSE, conv |-> 0, spec |-> <<>>]
     ELSE LET ars == ty \in {ch_a, ch_s, ch_r}
              fs1 == IF ars THEN (IF fs0 # <<>> /\ fs0[1] = c0 THEN <<cGt>> \o Tail(fs0) ELSE fs0) ELSE fs0 \o <<ty>>
              fs2 == IF fs1 # <<>> /\ fs1[1] = cMinus THEN <<cLt>> \o Tail(fs1) ELSE fs1
          IN [opt |-> TRUE, conv |-> IF ars THEN ty ELSE IF ty = ch_d THEN ch_d ELSE 0, spec |-> fs2]
\* conversion 'd' of the rewritten node: __Pyx_PyNumber_Long(obj) first
ToLong(v) == CASE v.k \in {"int", "bool"} -> [ok |-> TRUE, v |-> AsInt(v)]
               [] v.k = "float" /\ v.cls = "fin" -> [ok |-> TRUE, v |-> VInt(v.neg, FromNat(v.m \div (2 ^ v.e)))]
               [] OTHER -> [ok |-> FALSE, v |-> v]
PctImpl(car, T, pre, prectext, ty, v, ref) ==
  LET rw == PctRewrite(pre, prectext, ty) IN
  IF ~rw.opt THEN ref
  ELSE IF rw.conv = ch_d
       THEN IF car \in {"cint", "bint"} THEN ImplFValue(car, T, v, 0, rw.spec)
            ELSE LET l == ToLong(v) IN IF ~l.ok THEN (IF v.k = "float" THEN (IF v.cls = "nan" THEN ValueError ELSE OverflowError) ELSE TypeError)
                                       ELSE ImplFValue("obj", T, l.v, 0, rw.spec)
       ELSE ImplFValue(car, T, v, rw.conv, rw.spec)
---------------------------------------------------------------------------
(* IMPLEMENTATION-SHAPED 3: JoinedStrNode: result length and character kind computed before the join *)
\* a part is [lit |-> TRUE, t |-> text] or [lit |-> FALSE, op |-> 1 | 2, conv, s]
KindOf(t) == LET mx == IF t = <<>> THEN 0 ELSE CHOOSE c \in {t[i] : i \in 1..Len(t)} : \A j \in 1..Len(t) : t[j] <= c
             IN IF mx < 128 THEN 0 ELSE IF mx < 256 THEN 1 ELSE IF mx < 65536 THEN 2 ELSE 4
OrAll(ks) == LET S == {ks[i] : i \in 1..Len(ks)} IN (IF 1 \in S THEN 1 ELSE 0) + (IF 2 \in S THEN 2 ELSE 0) + (IF 4 \in S THEN 4 ELSE 0)   \* kinds combined with |
KindMaxChar(k) == IF k = 0 THEN 127 ELSE IF k = 1 THEN 255 ELSE IF k <= 3 THEN 65535 ELSE 1114111      \* max_char[min(kind, 4)]

---------------------------------------------------------------------------
(* CASES *)
\* ---- operand pools
Lim(hi) == <<0, 0, hi[1], hi[2], hi[3]>>     \* three low limbs given
SmallCands == IF Level = 1 THEN {-129, -128, -100, -99, -10, -9, -8, -1, 0, 1, 7, 8, 9, 10, 63, 64, 99, 100, 127, 128, 255, 256, 1000, 32767, 32768, 65535, 65536, -32768}
              ELSE {-32769, -32768, -1000, -999, -129, -128, -127, -100, -99, -65, -64, -63, -10, -9, -8, -7, -1, 0, 1, 7, 8, 9, 10, 15, 16, 63, 64, 65, 99, 100, 101,
                    127, 128, 255, 256, 511, 512, 999, 1000, 4095, 4096, 9999, 10000, 32767, 32768, 65535, 65536, 99999, 100000, 1048575, 1048576}
BigCands == {VInt(FALSE, SubOne(P2(31))), VInt(FALSE, P2(31)), VInt(TRUE, P2(31)), VInt(FALSE, SubOne(P2(32))), VInt(FALSE, P2(32)),
             VInt(FALSE, SubOne(P2(63))), VInt(FALSE, P2(63)), VInt(TRUE, P2(63)), VInt(TRUE, SubOne(P2(63))), VInt(FALSE, SubOne(P2(64))),
             VInt(FALSE, PowM(10, 9)), VInt(FALSE, SubOne(PowM(10, 9))), VInt(TRUE, PowM(10, 9)), VInt(FALSE, PowM(10, 18)), VInt(FALSE, SubOne(PowM(10, 18))),
             VInt(TRUE, PowM(10, 18)), VInt(FALSE, PowM(10, 19)), VInt(FALSE, SubOne(PowM(10, 19)))}
            \cup (IF Level = 1 THEN {} ELSE
             {VInt(FALSE, SubOne(P2(60))), VInt(FALSE, P2(60)), VInt(TRUE, P2(60)), VInt(FALSE, P2(33)), VInt(FALSE, SubOne(P2(33))), VInt(TRUE, P2(33)),
              VInt(FALSE, PowM(10, 10)), VInt(FALSE, SubOne(PowM(10, 10))), VInt(FALSE, PowM(10, 17)), VInt(FALSE, SubOne(PowM(10, 17))),
              VInt(TRUE, SubOne(P2(31))), VInt(TRUE, AddOne(P2(31))), VInt(FALSE, SubOne(SubOne(P2(64)))), VInt(FALSE, P2(62)), VInt(FALSE, SubOne(P2(62)))})
RndVals == {VInt(Params.rnd[i].neg, Params.rnd[i].mag) : i \in 1..Len(Params.rnd)}
IntCands == {I(x) : x \in SmallCands} \cup BigCands \cup RndVals
OrdCands == {I(x) : x \in {-1, 0, 1, 48, 65, 127, 128, 255, 256, 2047, 2048, 55295, 55296, 57343, 57344, 65535, 65536, 128512, 1114111, 1114112, 2097151,
                          2097152, 2097406}}
            \cup {VInt(FALSE, SubOne(P2(31))), VInt(FALSE, Lim(<<1, 0, 254>>)), VInt(FALSE, Lim(<<1, 0, 55296>>)), VInt(FALSE, Lim(<<256, 0, 65>>)),
                  VInt(TRUE, P2(31)), VInt(FALSE, SubOne(P2(64)))}
Op(car, ti, v) == [car |-> car, ti |-> ti, v |-> v]      \* ti: index into IntCTypes (0 for the other carriers)
TypeIdx(fullset) == IF fullset THEN 1..Len(IntCTypes) ELSE {1, 5, 10}
IntOps(cands, fullset) == {Op("cint", ti, v) : ti \in TypeIdx(fullset), v \in cands} 
LightCands == {I(x) : x \in {-128, -9, 0, 7, 100, 255}} \cup {VInt(FALSE, SubOne(P2(64))), VInt(TRUE, P2(31))}
FloatPool == {VFin(FALSE, 0, 0), VFin(TRUE, 0, 0), VFin(FALSE, 1, 1), VFin(FALSE, 3, 1), VFin(TRUE, 5, 1), VFin(FALSE, 1, 3), VFin(FALSE, 19, 1), VFin(FALSE, 199, 1),
              VFin(FALSE, 1999, 1), VFin(FALSE, 2469, 1), VFin(TRUE, 1234567, 0), VFin(FALSE, 100, 0), VFin(FALSE, 15, 4), VFin(FALSE, 1, 4), VNan, VInf(FALSE), VInf(TRUE)}
             \cup (IF Level = 1 THEN {} ELSE {VFin(FALSE, 1, 0), VFin(FALSE, 7, 2), VFin(TRUE, 3, 3), VFin(FALSE, 1999999, 1), VFin(FALSE, 999999, 0), VFin(FALSE, 1000000, 0),
                                               VFin(FALSE, 16383, 4), VFin(FALSE, 5, 3), VFin(TRUE, 1, 4), VFin(FALSE, 10, 0)})
StrPool == {<<>>, <<97, 98>>, <<97, 39, 8364>>, <<34, 39, 92, 10>>, <<233, 133, 128512>>}
           \cup (IF Level = 1 THEN {} ELSE {<<34>>, <<127, 173, 9, 13>>, <<55296>>, <<97, 98, 99, 100, 101, 102, 103>>, <<0>>})
ObjInts == {I(0), I(5), I(-5), I(255), I(-1234567), VInt(FALSE, P2(70)), VInt(TRUE, AddOne(P2(63))), I(1114112)}
FloatLight == IF Level = 1 THEN {VFin(FALSE, 0, 0), VFin(TRUE, 0, 0), VFin(FALSE, 3, 1), VFin(TRUE, 5, 1), VFin(FALSE, 2469, 1), VNan, VInf(TRUE)} ELSE FloatPool
ObjOpsF(fp) == {Op("obj", 0, v) : v \in ObjInts \cup {VBool(TRUE), VBool(FALSE), VNone} \cup fp \cup {VStr(t) : t \in StrPool}}
OtherOpsF(fp) == {Op("bint", 0, VBool(b)) : b \in BOOLEAN} \cup {Op("cdouble", 0, v) : v \in fp}
                 \cup {Op("strobj", 0, VStr(t)) : t \in StrPool} \cup {Op("strobj", 0, VNone)}
ObjOps == ObjOpsF(FloatLight)
OtherOps == OtherOpsF(FloatLight)
ConvOps == {Op("cint", ti, v) : ti \in {1, 5, 10}, v \in {I(-7), I(0), I(65)}} \cup {Op("bint", 0, VBool(TRUE))}
           \cup {Op("cdouble", 0, v) : v \in {VFin(FALSE, 3, 1), VFin(TRUE, 0, 0), VNan}}
           \cup {Op("obj", 0, v) : v \in {I(5), I(-5), VBool(TRUE), VNone, VFin(FALSE, 3, 1), VStr(<<97, 39, 8364>>), VStr(<<233, 133, 128512>>)}}
           \cup {Op("strobj", 0, VStr(<<34, 39, 92, 10>>)), Op("strobj", 0, VNone)}
InDomain(o) == o.car # "cint" \/ InRange(IntCTypes[o.ti], o.v)

\* ---- f-string cases: [site, s (spec text), conv, cls]
FieldRec(fill, align, sign, alt, zero, width, grp, prec, type) ==
  [fill |-> fill, align |-> align, sign |-> sign, alt |-> alt, zero |-> zero, width |-> width, grp |-> grp, prec |-> prec, type |-> type]
Render(f) == (IF f.fill # 0 THEN <<f.fill>> ELSE <<>>) \o (IF f.align # 0 THEN <<f.align>> ELSE <<>>) \o (IF f.sign # 0 THEN <<f.sign>> ELSE <<>>)
             \o (IF f.alt THEN <<cHash>> ELSE <<>>) \o (IF f.zero THEN <<c0>> ELSE <<>>)
             \o (IF f.width >= 0 THEN DigitChars(DigitsNat(f.width), FALSE) ELSE <<>>) \o (IF f.grp # 0 THEN <<f.grp>> ELSE <<>>)
             \o (IF f.prec >= 0 THEN <<cDot>> \o DigitChars(DigitsNat(f.prec), FALSE) ELSE <<>>) \o (IF f.type # 0 THEN <<f.type>> ELSE <<>>)
Fills == IF Level = 1 THEN {0, 42, c0, 233} ELSE {0, 42, c0, 233, 128512, cLt, cPlus}
Aligns == {0, cLt, cGt, cCaret, cEq}
Signs == {0, cPlus, cMinus, cSp}
Widths == IF Level = 1 THEN {-1, 1, 4, 11} ELSE {-1, 1, 2, 4, 7, 11, 30}
Grps == {0, cComma, cUnder}
Precs == IF Level = 1 THEN {-1, 0, 2} ELSE {-1, 0, 1, 2, 3}
Types == {0, ch_b, ch_c, ch_d, ch_o, ch_x, ch_X, ch_e, ch_f, ch_g, cPct, ch_s, ch_q} \cup (IF Level = 1 THEN {} ELSE {ch_E, ch_F, ch_G, ch_r})
NonDefault(f) == (IF f.fill # 0 THEN 1 ELSE 0) + (IF f.align # 0 THEN 1 ELSE 0) + (IF f.sign # 0 THEN 1 ELSE 0) + (IF f.alt THEN 1 ELSE 0)
                 + (IF f.zero THEN 1 ELSE 0) + (IF f.width >= 0 THEN 1 ELSE 0) + (IF f.grp # 0 THEN 1 ELSE 0) + (IF f.prec >= 0 THEN 1 ELSE 0)
                 + (IF f.type # 0 THEN 1 ELSE 0)
Hash(f) == f.fill * 3 + f.align * 5 + f.sign * 7 + (IF f.alt THEN 11 ELSE 0) + (IF f.zero THEN 13 ELSE 0) + (f.width + 1) * 17 + f.grp * 19
           + (f.prec + 1) * 23 + f.type * 29
MaxFields == IF Level = 1 THEN 4 ELSE 6
\* generic specs: a seeded sample of the grammar (the two halves of the field list are sampled independently)
ModA == IF Mod >= 20 THEN 5 ELSE IF Mod >= 4 THEN 2 ELSE 1
ModB == Max(Mod \div ModA, 1)
HalfA == {h \in [fill : Fills, align : Aligns, sign : Signs, alt : BOOLEAN, zero : BOOLEAN] :
            (h.fill # 0 => h.align # 0) /\ (h.fill * 3 + h.align * 5 + h.sign * 7 + (IF h.alt THEN 11 ELSE 0) + (IF h.zero THEN 13 ELSE 0) + Seed) % ModA = 0}
HalfB == {h \in [width : Widths, grp : Grps, prec : Precs, type : Types] :
            ((h.width + 1) * 17 + h.grp * 19 + (h.prec + 1) * 23 + h.type * 29 + Seed \div ModA) % ModB = 0}
GenFields == {f \in {FieldRec(a.fill, a.align, a.sign, a.alt, a.zero, b.width, b.grp, b.prec, b.type) : a \in HalfA, b \in HalfB} :
                 NonDefault(f) >= 1 /\ NonDefault(f) <= MaxFields}
\* the family of specs around the C-level integer path: [>-]? 0? width? [odxXc]?
CoreWidths == IF Level = 1 THEN {-1, 1, 2, 5, 12, 252} ELSE {-1, 1, 2, 3, 5, 12, 25, 70, 251, 252, 253, 256, 300}
CoreFields == {FieldRec(0, al, 0, FALSE, z, w, 0, -1, t) : al \in {0, cGt}, z \in BOOLEAN, w \in CoreWidths, t \in {0, ch_c, ch_d, ch_o, ch_x, ch_X}}
CFamFields == {FieldRec(0, al, sg, FALSE, z, w, 0, -1, t) : al \in {0, cGt}, sg \in {0, cMinus}, z \in BOOLEAN, w \in {-1, 1, 5}, t \in {0, ch_c, ch_d, ch_x}}
\* neighbours of that family which must NOT take the C path: other alignments, signs, '#', grouping
NW == IF Level = 1 THEN {5} ELSE {-1, 5}
NearFields == {FieldRec(0, al, 0, FALSE, z, w, 0, -1, t) : al \in {cLt, cCaret, cEq}, z \in BOOLEAN, w \in NW, t \in {0, ch_d, ch_x, ch_c}}
              \cup {FieldRec(0, 0, sg, FALSE, z, w, 0, -1, t) : sg \in {cPlus, cSp}, z \in BOOLEAN, w \in NW, t \in {0, ch_d, ch_x}}
              \cup {FieldRec(fi, cGt, 0, FALSE, FALSE, 5, 0, -1, t) : fi \in {42, c0}, t \in {0, ch_d, ch_c}}
              \cup {FieldRec(0, 0, 0, alt, FALSE, w, g, -1, t) : alt \in BOOLEAN, w \in NW, g \in {0, cComma, cUnder}, t \in {ch_d, ch_x}}
\* the family around the C-level float path: (.prec)? [eEfFgG]
FFamFields == {FieldRec(0, 0, 0, FALSE, FALSE, -1, 0, p, t) : p \in Precs, t \in {ch_e, ch_E, ch_f, ch_F, ch_g, ch_G}}
BadTexts == {<<42, 53, ch_d>>, <<53, cDot>>, <<cComma, cUnder, ch_d>>, <<cUnder, cComma, ch_d>>, <<ch_d, ch_d>>, <<cDot, ch_d>>, <<53, cSp, ch_d>>, <<cPlus>>,
             <<cGt>>, <<c0>>, <<c0, c0>>, <<c0, c0, 53>>, <<cMinus>>, <<cMinus, ch_c>>, <<cGt, cMinus, 53, ch_d>>, <<cMinus, cGt, 53, ch_d>>, <<cGt, cGt, 53>>,
             <<cGt, c0, c0, 53, ch_x>>, <<cMinus, c0, 53, ch_X>>, <<cMinus, 53, ch_c>>, <<cDot, 50>>, <<53, cDot, 50>>, <<cGt, cDot, 50, ch_f>>, <<cDot, c0, 50, ch_f>>}
FCase(s, conv, cls) == [site |-> "fstr", s |-> s, conv |-> conv, cls |-> cls, pre |-> <<>>, prectext |-> <<>>, ty |-> 0, fn |-> "", parts |-> <<>>]
Convs == {ch_r, ch_s, ch_a}
FstrCases == {FCase(Render(f), 0, "core") : f \in CoreFields}
             \cup {FCase(Render(f), 0, "cfam") : f \in CFamFields \ CoreFields}
             \cup {FCase(Render(f), cv, "conv") : f \in (IF Level = 1 THEN {g \in CFamFields : g.sign = 0} ELSE CFamFields) \cup FFamFields,
                                                   cv \in (IF Level = 1 THEN {ch_r} ELSE Convs)}
             \cup {FCase(Render(f), 0, "ffam") : f \in FFamFields}
             \cup {FCase(Render(f), 0, "near") : f \in NearFields \ (CoreFields \cup CFamFields)}
             \cup {FCase(Render(f), 0, "gen") : f \in GenFields \ (CoreFields \cup CFamFields \cup FFamFields \cup NearFields)}
             \cup {FCase(Render(f), cv, "gen") : f \in {g \in GenFields : (Hash(g) + Seed) % 3 = 0}, cv \in Convs}
             \cup {FCase(t, 0, "bad") : t \in BadTexts} \cup {FCase(<<>>, cv, "gen") : cv \in Convs \cup {0}}
IsOrdSpec(s) == s # <<>> /\ s[Len(s)] = ch_c
CoreFull == {Render(FieldRec(0, 0, 0, FALSE, z, w, 0, -1, t)) : z \in BOOLEAN, w \in {-1, 12}, t \in {0, ch_c, ch_d, ch_o, ch_x, ch_X}}
OrdLight == {I(x) : x \in {-1, 65, 233, 8364, 128512, 55296, 1114112, 2097152}}
FstrOps(c) ==
  CASE c.cls = "core" -> IntOps(IF c.s \in CoreFull THEN (IF IsOrdSpec(c.s) THEN OrdCands ELSE IntCands) ELSE (IF IsOrdSpec(c.s) THEN OrdLight ELSE LightCands), TRUE)
                         \cup {o \in OtherOps : o.car = "bint"} \cup {Op("obj", 0, v) : v \in ObjInts}
    [] c.cls = "near" -> IntOps(IF IsOrdSpec(c.s) THEN OrdLight ELSE LightCands, FALSE) \cup {o \in OtherOps : o.car = "bint"} \cup {Op("obj", 0, v) : v \in {I(-5), I(255)}}
    [] c.cls = "cfam" -> IntOps(IF IsOrdSpec(c.s) THEN OrdLight ELSE LightCands, FALSE) \cup {o \in OtherOps : o.car = "bint"} \cup {Op("obj", 0, v) : v \in ObjInts}
    [] c.cls = "conv" -> ConvOps
    [] c.cls = "ffam" -> IntOps({I(-9), I(100)}, FALSE) \cup OtherOpsF(FloatPool) \cup ObjOpsF(FloatPool)
    [] OTHER -> IntOps(IF IsOrdSpec(c.s) THEN OrdLight ELSE LightCands, FALSE) \cup OtherOps \cup ObjOps

\* ---- %-formatting cases: "%" pre prectext ty
FlagSeqs == {<<>>} \cup {<<a>> : a \in {cMinus, c0, cSp, cPlus, cHash}} \cup {<<a, b>> : a \in {cMinus, c0, cSp, cPlus, cHash}, b \in {cMinus, c0, cSp, cPlus, cHash}}
PWidths == IF Level = 1 THEN {-1, 1, 5, 12} ELSE {-1, 1, 3, 5, 12, 40}
PPrecs == IF Level = 1 THEN {-1, 0, 2} ELSE {-1, 0, 1, 2, 3}
PTypes == {ch_d, ch_i, ch_u, ch_s, ch_r, ch_a, ch_x, ch_X, ch_o, ch_c, ch_e, ch_f, ch_g, ch_q} \cup (IF Level = 1 THEN {} ELSE {ch_E, ch_F, ch_G})
PCase(fl, w, p, t) == [site |-> "pct", s |-> <<>>, conv |-> 0, cls |-> "pct", pre |-> fl \o (IF w >= 0 THEN DigitChars(DigitsNat(w), FALSE) ELSE <<>>),
                       prectext |-> IF p >= 0 THEN <<cDot>> \o DigitChars(DigitsNat(p), FALSE) ELSE <<>>, ty |-> t, fn |-> "", parts |-> <<>>]
PHash(fl, w, p, t) == (IF fl = <<>> THEN 0 ELSE fl[1] * 3 + (IF Len(fl) > 1 THEN fl[2] * 5 ELSE 0)) + (w + 1) * 7 + (p + 1) * 11 + t * 13
PRewritable(fl, t) == (fl = <<cSp>> \/ \A i \in 1..Len(fl) : fl[i] \in {cMinus, c0}) /\ t \in {ch_a, ch_s, ch_r, ch_f, ch_d, ch_o, ch_x, ch_X}
PctSel == {c \in [fl : FlagSeqs, w : PWidths, p : PPrecs, t : PTypes] :
              (PHash(c.fl, c.w, c.p, c.t) + Seed) % (IF PRewritable(c.fl, c.t) THEN Params.pmod ELSE Params.pmodo) = 0}
PctOps == {Op("cint", ti, v) : ti \in {5, 10}, v \in LightCands} \cup OtherOps \cup ObjOps
PFlags(c) == {c.pre[i] : i \in {j \in 1..Len(c.pre) : \A k \in 1..j : ~(c.pre[k] \in 49..57)}}    \* flag characters: before the first non-zero digit
PWidth(c) == LET st == CHOOSE i \in 1..Len(c.pre)+1 : (i = Len(c.pre) + 1 \/ c.pre[i] \in 49..57) /\ \A j \in 1..i-1 : ~(c.pre[j] \in 49..57)
             IN IF st > Len(c.pre) THEN -1 ELSE NumOf(c.pre, st, Len(c.pre) + 1, 0)
PPrec(c) == IF c.prectext = <<>> THEN -1 ELSE NumOf(c.prectext, 2, Len(c.prectext) + 1, 0)

\* ---- str() / repr() / format() of typed values
CallSpecs == {<<>>, <<ch_d>>, <<c0, 53, ch_x>>, <<cGt, 54>>, <<cPlus, cComma, ch_d>>, <<cDot, 50, ch_f>>, <<ch_c>>, <<cHash, ch_o>>, <<ch_s>>}
CallCases == {[site |-> "call", s |-> <<>>, conv |-> 0, cls |-> "call", pre |-> <<>>, prectext |-> <<>>, ty |-> 0, fn |-> fn, parts |-> <<>>] : fn \in {"str", "repr", "format0"}}
             \cup {[site |-> "call", s |-> t, conv |-> 0, cls |-> "call", pre |-> <<>>, prectext |-> <<>>, ty |-> 0, fn |-> "format1", parts |-> <<>>] : t \in CallSpecs}
CallOpsOf(c) == IntOps(IF c.fn = "str" THEN IntCands ELSE LightCands, TRUE) \cup OtherOps
RefCall(c, v) == CASE c.fn = "str" -> Ok(Str(v)) [] c.fn = "repr" -> Ok(Repr(v)) [] c.fn = "format0" -> Ok(Str(v))
                   [] c.fn = "format1" -> RefFValue(v, 0, c.s)

\* ---- joins: operand 1 is a C int (a), operand 2 an object (b)
Lit(t) == [lit |-> TRUE, t |-> t, op |-> 0, conv |-> 0, s |-> <<>>]
Ph(op, conv, s) == [lit |-> FALSE, t |-> <<>>, op |-> op, conv |-> conv, s |-> s]
PartPool == <<Lit(<<120>>), Lit(<<233>>), Lit(<<8364, 45>>), Lit(<<128512>>), Ph(1, 0, <<>>), Ph(1, 0, <<ch_c>>), Ph(1, 0, <<51, ch_c>>), Ph(1, 0, <<c0, 53, ch_x>>),
              Ph(1, 0, <<cGt, 52>>), Ph(2, 0, <<>>), Ph(2, ch_r, <<>>), Ph(2, 0, <<cGt, 53>>), Ph(2, ch_a, <<>>), Ph(1, 0, <<c0, 50, ch_c>>)>>
NPP == Len(PartPool)
JHash(ix) == ix[1] * 3 + ix[2] * 7 + ix[3] * 13 + (IF Len(ix) > 3 THEN ix[4] * 17 ELSE 0) + (IF Len(ix) > 4 THEN ix[5] * 23 ELSE 0)
J3 == {ix \in {<<i, j, k>> : i \in 1..NPP, j \in 1..NPP, k \in 1..NPP} : (JHash(ix) + Seed) % Params.jmod[1] = 0}
J4 == {ix \in {jx \o <<l>> : jx \in J3, l \in 1..NPP} : (JHash(ix) + Seed) % Params.jmod[2] = 0}
J5 == {ix \in {jx \o <<l>> : jx \in J4, l \in 1..NPP} : (JHash(ix) + Seed) % Params.jmod[3] = 0}
JoinIdx == J3 \cup J4 \cup J5
JoinCases == {[site |-> "join", s |-> <<>>, conv |-> 0, cls |-> "join", pre |-> <<>>, prectext |-> <<>>, ty |-> 0, fn |-> "",
               parts |-> [i \in 1..Len(ix) |-> PartPool[ix[i]]] \o <<>>] : ix \in JoinIdx}
JoinA == {I(x) : x \in {65, 233, 8364, 128512, -7} \cup (IF Level = 1 THEN {} ELSE {55296, 1114112, 127, 255})}
JoinB == {VStr(<<113>>), VStr(<<233, 8364>>), VStr(<<128512>>), I(5)} \cup (IF Level = 1 THEN {} ELSE {VNone, VStr(<<>>)})
JoinOps == {[car |-> "join", ti |-> 5, v |-> a, w |-> b] : a \in JoinA, b \in JoinB}
PartRef(p, a, b) == IF p.lit THEN Ok(p.t) ELSE RefFValue(IF p.op = 1 THEN a ELSE b, p.conv, p.s)
PartImpl(p, a, b) == IF p.lit THEN Ok(p.t) ELSE IF p.op = 1 THEN ImplFValue("cint", IntCTypes[5], a, p.conv, p.s) ELSE RefFValue(b, p.conv, p.s)
RECURSIVE JoinOutcome(_)
JoinOutcome(outs) == IF outs = <<>> THEN Ok(<<>>)      \* the first failing part decides; otherwise concatenation
                     ELSE IF Head(outs).e # 0 THEN Head(outs)
                     ELSE LET r == JoinOutcome(Tail(outs)) IN IF r.e # 0 THEN r ELSE Ok(Head(outs).t \o r.t)
JoinRef(c, a, b) == JoinOutcome([i \in 1..Len(c.parts) |-> PartRef(c.parts[i], a, b)] \o <<>>)
\* what JoinedStrNode computes before calling __Pyx_PyUnicode_Join: <<result_ulength, kind>> from the formatted parts
JoinPre(c, outs) ==
  LET n == Len(c.parts)
      isfirst(i) == c.parts[i].lit \/ ~\E j \in 1..i-1 : c.parts[j] = c.parts[i]       \* later duplicates become CloneNodes
      reps(i) == Cardinality({j \in 1..n : c.parts[j] = c.parts[i]})
      sum[i \in 0..n] == IF i = 0 THEN 0 ELSE sum[i-1] + (IF c.parts[i].lit THEN Len(c.parts[i].t)
                                                         ELSE IF isfirst(i) THEN Len(outs[i].t) * reps(i) ELSE 0)
      asciiAssumed(i) == c.parts[i].op = 1 /\ ImplCPath("cint", c.parts[i].s) /\ c.parts[i].s # <<ch_c>>    \* c_format_spec != 'c' and C numeric
      kinds == [i \in 1..n |-> IF c.parts[i].lit THEN KindOf(c.parts[i].t) ELSE IF asciiAssumed(i) \/ ~isfirst(i) THEN 0 ELSE KindOf(outs[i].t)] \o <<>>
  IN <<sum[n], OrAll(kinds)>>
JoinImpl(c, a, b) ==
  LET outs == [i \in 1..Len(c.parts) |-> PartImpl(c.parts[i], a, b)] \o <<>>
      r == JoinOutcome(outs)
  IN IF r.e # 0 THEN r
     ELSE LET pre == JoinPre(c, outs) IN
          IF pre[1] # Len(r.t) THEN Garbage
          ELSE IF \E i \in 1..Len(r.t) : r.t[i] > KindMaxChar(pre[2]) THEN Garbage
          ELSE r

---------------------------------------------------------------------------
(* STATE MACHINE: one case per behaviour; todo -> done computes the row *)
VARIABLES phase, kase, ops, row
vars == <<phase, kase, ops, row>>

AllCases == (IF "fstr" \in Sites THEN FstrCases ELSE {}) \cup (IF "pct" \in Sites THEN {PCase(c.fl, c.w, c.p, c.t) : c \in PctSel} ELSE {})
            \cup (IF "call" \in Sites THEN CallCases ELSE {}) \cup (IF "join" \in Sites THEN JoinCases ELSE {})
Init == /\ kase \in AllCases /\ phase = "todo" /\ ops = <<>> /\ row = <<>>

OpsOf(c) == CASE c.site = "fstr" -> {o \in FstrOps(c) : InDomain(o)}
              [] c.site = "pct" -> {o \in PctOps : InDomain(o)}
              [] c.site = "call" -> {o \in CallOpsOf(c) : InDomain(o)}
              [] c.site = "join" -> JoinOps
TOf(o) == IF o.car = "cint" THEN IntCTypes[o.ti] ELSE IntCTypes[5]
RefOf(c, o) == CASE c.site = "fstr" -> RefFValue(o.v, c.conv, c.s)
                 [] c.site = "pct" -> PctConv(PFlags(c), PWidth(c), PPrec(c), c.ty, o.v)
                 [] c.site = "call" -> RefCall(c, o.v)
                 [] c.site = "join" -> JoinRef(c, o.v, o.w)
ImplOf(c, o, ref) == CASE c.site = "fstr" -> ImplFValue(o.car, TOf(o), o.v, c.conv, c.s)
                       [] c.site = "pct" -> PctImpl(o.car, TOf(o), c.pre, c.prectext, c.ty, o.v, ref)
                       [] c.site = "call" -> ref
                       [] c.site = "join" -> JoinImpl(c, o.v, o.w)
\* (two steps: TLC re-evaluates a LET-bound value of an action at every use, so the operand list is made a state variable first)
Eval(site) == \/ /\ phase = "todo" /\ kase.site = site
                 /\ ops' = SX!SetToSeq(OpsOf(kase))
                 /\ phase' = "ops" /\ UNCHANGED <<kase, row>>
              \/ /\ phase = "ops" /\ kase.site = site
                 /\ row' = [i \in 1..Len(ops) |-> LET r == RefOf(kase, ops[i]) IN <<r, ImplOf(kase, ops[i], r)>>]
                 /\ phase' = "done" /\ UNCHANGED <<kase, ops>>
EvalFstr == Eval("fstr")
EvalPct == Eval("pct")
EvalCall == Eval("call")
EvalJoin == Eval("join")
Next == EvalFstr \/ EvalPct \/ EvalCall \/ EvalJoin
Spec == Init /\ [][Next]_vars

---------------------------------------------------------------------------
(* INVARIANTS *)
Done == phase = "done"
Cells == 1..Len(ops)
WellFormed == Done => \A i \in Cells : /\ row[i][1].e \in {0, 1, 2, 3, 8} /\ row[i][2].e \in {0, 1, 2, 3, 8, 9}
                                       /\ \A j \in 1..Len(row[i][1].t) : row[i][1].t[j] \in 0..1114111
                                       /\ (row[i][1].e # 0 => row[i][1].t = <<>>)
\* the parser recovers what the renderer wrote (for texts that are rendered from fields)
RoundTrip == \A f \in CoreFields \cup CFamFields \cup FFamFields :
               LET ps == ParseSpec(Render(f), cGt) IN
               /\ ~ps.err /\ ps.width = f.width /\ ps.prec = f.prec /\ ps.type = f.type /\ ps.sign = f.sign /\ ps.grp = f.grp
               /\ ps.fill = (IF f.zero THEN c0 ELSE cSp) /\ ps.align = (IF f.align # 0 THEN f.align ELSE IF f.zero THEN cEq ELSE cGt)
ASSUME RoundTrip
\* declarative laws of the reference on integer operands of f-string cases
IntCell(i) == kase.site = "fstr" /\ kase.conv = 0 /\ ops[i].v.k = "int" /\ row[i][1].e = 0 /\ kase.s # <<>>
DigitLaw == Done => \A i \in Cells : IntCell(i) =>
              LET ps == ParseSpec(kase.s, cGt)
                  base == CASE ps.type = ch_b -> 2 [] ps.type = ch_o -> 8 [] ps.type \in {ch_x, ch_X} -> 16 [] ps.type \in {0, ch_d} -> 10 [] OTHER -> 0
                  t == row[i][1].t
                  val(c) == IF c >= 48 /\ c <= 57 THEN c - 48 ELSE IF c >= 97 /\ c <= 102 THEN c - 87 ELSE IF c >= 65 /\ c <= 70 THEN c - 55 ELSE 99
                  ds == SelectSeq(t, LAMBDA c : val(c) < base)        \* the digits of the text (fill, sign and separators dropped)
                  nd == Len(DigitsOf(ops[i].v.mag, base))
                  signlen == IF ops[i].v.neg \/ ps.sign \in {cPlus, cSp} THEN 1 ELSE 0
              IN (base # 0 /\ ~ps.alt /\ ps.width <= 70 /\ ps.fill \in {cSp, c0, 42, 233, 128512, cLt} /\ (ps.fill = c0 => ps.align \in {cEq, cGt})) =>
                   /\ Horner([j \in 1..Len(ds) |-> val(ds[j])] \o <<>>, base, ZeroM) = ops[i].v.mag      \* the digits denote |v| (leading zeros are harmless)
                   /\ ((\E j \in 1..Len(t) : t[j] = cMinus) <=> ops[i].v.neg)
                   /\ Len(t) >= ps.width
                   /\ (ps.grp = 0 => Len(t) = Max(ps.width, nd + signlen))
\* the C digit buffer is never overrun
BufOK == Done => \A i \in Cells : (kase.site = "fstr" /\ ops[i].car = "cint" /\ IParse(kase.s)[1] \in {ch_d, ch_o, ch_x, ch_X}) =>
            LET pf == IParse(kase.s) r == CIntText(IntCTypes[ops[i].ti], ops[i].v, pf[1], pf[2], pf[3]) IN r.buf <= r.cap
\* documented hazard classes: every cell where the implementation-shaped model leaves the reference is explained
HzClass(c, o, ref, impl) ==
  IF impl = ref \/ ref.e = 8 \/ impl.e = 8 THEN ""
  ELSE IF c.site = "join" THEN (IF impl.e = 9 /\ \E i \in 1..Len(c.parts) : ~c.parts[i].lit /\ c.parts[i].op = 1 /\ Len(c.parts[i].s) >= 2 /\ IsOrdSpec(c.parts[i].s)
                               THEN "join-kind" ELSE "unexplained")
  ELSE IF c.site = "fstr" THEN
       (IF impl.e = 9 /\ IsOrdSpec(c.s) THEN "ord-unchecked"
        ELSE IF c.conv # 0 /\ ImplCPath(o.car, c.s) /\ c.s # <<>> THEN "conv-dropped"
        ELSE IF o.car \in {"cint", "bint"} /\ IsOrdSpec(c.s) /\ c.s[1] = cMinus /\ ref.e = 1 THEN "sign-with-c"
        ELSE IF o.car \in {"cint", "bint"} /\ c.s # <<>> /\ c.s[1] = cGt /\ IParse(c.s)[3] = c0 /\ o.v.k = "int" /\ o.v.neg THEN "align-zero-sign"
        ELSE "unexplained")
  ELSE IF c.site = "pct" THEN
       LET fl == PFlags(c) ars == c.ty \in {ch_a, ch_s, ch_r} IN
       (IF ars /\ c.pre = <<cSp>> THEN "pct-space-str"
        ELSE IF ars /\ o.car \in {"cint", "bint"} /\ ImplCPath(o.car, PctRewrite(c.pre, c.prectext, c.ty).spec) /\ PctRewrite(c.pre, c.prectext, c.ty).spec # <<>> THEN "conv-dropped"
        ELSE IF ars /\ Len(c.pre) >= 2 /\ c.pre[1] = c0 /\ c.pre[2] = c0 THEN "pct-zero-zero-str"
        ELSE IF cMinus \in fl /\ (c0 \in fl \/ Len(SelectSeq(c.pre, LAMBDA ch : ch = cMinus)) > 1) THEN "pct-minus-combo"
        ELSE IF ars /\ fl = {} /\ PWidth(c) > 0 /\ ref.e = 0 /\ ~ImplCPath(o.car, PctRewrite(c.pre, c.prectext, c.ty).spec) THEN "pct-str-align"
        ELSE IF ref.e = 2 /\ impl.e = 1 /\ c.ty \in {ch_o, ch_x, ch_X, ch_f} /\ o.v.k \in {"str", "float"} THEN "pct-type-error"
        ELSE "unexplained")
  ELSE "unexplained"
ImplExplained == Done => \A i \in Cells : HzClass(kase, ops[i], row[i][1], row[i][2]) # "unexplained"

(* publication: one record per evaluated case *)
OpJson(o) == IF o.car = "join" THEN [car |-> o.car, ti |-> o.ti, v |-> o.v, w |-> o.w] ELSE [car |-> o.car, ti |-> o.ti, v |-> o.v, w |-> VNone]
Publish == (Done /\ Dump) =>
  PrintT("@@" \o ToJson([site |-> kase.site, s |-> kase.s, conv |-> kase.conv, cls |-> kase.cls, pre |-> kase.pre, prectext |-> kase.prectext, ty |-> kase.ty,
                         fn |-> kase.fn, parts |-> kase.parts,
                         ops |-> [i \in Cells |-> OpJson(ops[i])],
                         exp |-> [i \in Cells |-> row[i][1]],
                         hz |-> [i \in Cells |-> HzClass(kase, ops[i], row[i][1], row[i][2])]]))
=============================================================================
