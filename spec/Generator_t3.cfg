SPECIFICATION Spec
CONSTANTS
  MaxLen = 5
  Dump = TRUE
  BodySel = {17, 18, 19, 20, 21, 22, 23, 24}
INVARIANT Consistent
INVARIANT FinallyOnce
INVARIANT CleanupOnDel
INVARIANT NoUnsup
INVARIANT Publish
PROPERTY Causal
CHECK_DEADLOCK FALSE
