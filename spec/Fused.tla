------------------------------- MODULE Fused -------------------------------
(* C34: a fused function dispatches to the matching specialisation.          *)
(*                                                                          *)
(* Reference (docs/src/userguide/fusedtypes.rst, "Selecting Specializations")*)
(*   RefSel(F, a): the members of the fused type F that the documented rules *)
(*   select for a runtime argument a: an exact match (bool -> bint, a        *)
(*   builtin type -> its member, a buffer -> the memoryview member of the    *)
(*   same dtype and ndim), else the BIGGEST corresponding numeric member     *)
(*   (biggest int for a Python int incl. bool / int subclasses, biggest      *)
(*   float, biggest complex), else `object` when it is a member, else        *)
(*   nothing = TypeError.  Defined on the SET of members: the declaration    *)
(*   order cannot matter.  Several parameters of the same fused type follow  *)
(*   the first; f[key] names a specialisation or raises KeyError.            *)
(* Implementation-shaped (FusedNode.make_fused_cpdef + FusedFunction.pyx)    *)
(*   PySort   = list.sort of CPython 3.12 (count_run + binary insertion for  *)
(*              n < 64) over the `__lt__` of PyrexTypes (CNumericType,       *)
(*              CComplexType, PyObjectType, the id()-based default that      *)
(*              memoryview types inherit: parameter fl)                      *)
(*   Split    = _split_fused_types (first member per py_type_name, buffers,  *)
(*              object fallback)                                            *)
(*   ImplMap  = the generated type mapper (isinstance chain, numpy dtype     *)
(*              fast path, None -> first buffer, format-string path,        *)
(*              fallback), then match_signatures_single / index_signature    *)
(*              (None = wildcard, 0 matches / >1 matches -> TypeError).       *)
(* Every case is a behaviour: Init picks declaration, operation and argument *)
(* kinds; MapArg / Match* / Index* / Convert* are the steps of the real      *)
(* dispatcher; the final state carries the implementation-shaped outcome,    *)
(* compared with the reference outcome set (ImplAgrees).  Where they differ  *)
(* the case must fall in a structurally defined hazard class (sort: the      *)
(* comparison is no strict weak order refining rank; bool: isinstance(x,int) *)
(* tested before isinstance(x,bool); wild: the None wildcard of              *)
(* index_signature resolves a non-matching argument; idsort: id()-dependent  *)
(* order) -- those cases are published with `hz` and executed on real code.  *)
(*                                                                          *)
(* Parts: "split"  one state per declaration: Split + reference demands      *)
(*                 (validated against the real _split_fused_types, B3)       *)
(*        "one"    def f(F x) : every ordered declaration x argument kind    *)
(*        "multi"  def f(F x, G y), def f(F x, F y), f[key](..) on a smaller *)
(*                 universe                                                  *)
(*        "replay" the declarations chosen by the harness (IOEnv.C34_IN),    *)
(*                 every final state is published for replay (B1)            *)
EXTENDS Integers, Sequences, FiniteSets, TLC, Json, IOUtils

CONSTANTS Part, UNames, UNames3, MaxLen, ArgsOne, ArgsPair

Range(s) == {s[i] : i \in DOMAIN s}

---------------------------------------------------------------------------
(* types: k kind, py py_type_name, r 2*rank, s signed, w bits, dt/nd buffer  *)
Ty(k, py, r, s, w, dt, nd) == [k |-> k, py |-> py, r |-> r, s |-> s, w |-> w, dt |-> dt, nd |-> nd]
T == ("short"  :> Ty("int", "int", 2, 1, 16, "", 0)) @@
     ("int"    :> Ty("int", "int", 4, 1, 32, "", 0)) @@
     ("long"   :> Ty("int", "int", 6, 1, 64, "", 0)) @@
     ("llong"  :> Ty("int", "int", 8, 1, 64, "", 0)) @@
     ("uint"   :> Ty("int", "int", 4, 0, 32, "", 0)) @@
     ("ulong"  :> Ty("int", "int", 6, 0, 64, "", 0)) @@
     ("bint"   :> Ty("bool", "bool", 4, 1, 1, "", 0)) @@
     ("float"  :> Ty("float", "float", 10, 1, 0, "", 0)) @@
     ("double" :> Ty("float", "float", 12, 1, 0, "", 0)) @@
     ("fc"     :> Ty("complex", "complex", 11, 1, 0, "", 0)) @@
     ("dc"     :> Ty("complex", "complex", 13, 1, 0, "", 0)) @@
     ("object" :> Ty("obj", "object", 0, 0, 0, "", 0)) @@
     ("list"   :> Ty("builtin", "list", 0, 0, 0, "", 0)) @@
     ("mvi"    :> Ty("buf", "", 0, 0, 0, "i4", 1)) @@
     ("mvl"    :> Ty("buf", "", 0, 0, 0, "i8", 1)) @@
     ("mvf"    :> Ty("buf", "", 0, 0, 0, "f4", 1)) @@
     ("mvd"    :> Ty("buf", "", 0, 0, 0, "f8", 1)) @@
     ("mvd2"   :> Ty("buf", "", 0, 0, 0, "f8", 2))

UScalar == {"short", "int", "long", "llong", "uint", "ulong", "bint", "float", "double", "fc", "dc", "object", "list"}
UAll    == UScalar \cup {"mvi", "mvl", "mvf", "mvd", "mvd2"}
UQuick  == {"short", "int", "long", "ulong", "bint", "float", "double", "dc", "object", "list", "mvi", "mvd", "mvd2"}
UMulti  == {"int", "long", "double", "object", "mvd"}
UMultiQ == {"int", "double", "object", "mvd"}
UNum    == {"short", "int", "long", "llong", "uint", "ulong", "bint", "float", "double", "fc", "dc", "object"}
UNumQ   == UNum \ {"uint"}
UThor3  == UNum \cup {"list", "mvd", "mvi"}
UNum4   == {"int", "long", "uint", "ulong", "bint", "float", "double", "fc", "dc"}
UNone   == {}

(* argument kinds: cls Python class, neg/bits magnitude of an int, src/dt/nd *)
(* of a buffer exporter                                                      *)
Ar(cls, neg, bits, src, dt, nd) == [cls |-> cls, neg |-> neg, bits |-> bits, src |-> src, dt |-> dt, nd |-> nd]
A == ("i3"    :> Ar("int", FALSE, 2, "", "", 0)) @@
     ("im1"   :> Ar("int", TRUE, 1, "", "", 0)) @@
     ("i40"   :> Ar("int", FALSE, 41, "", "", 0)) @@
     ("i63"   :> Ar("int", FALSE, 64, "", "", 0)) @@
     ("true"  :> Ar("bool", FALSE, 1, "", "", 0)) @@
     ("isub"  :> Ar("intsub", FALSE, 3, "", "", 0)) @@
     ("f15"   :> Ar("float", FALSE, 0, "", "", 0)) @@
     ("fsub"  :> Ar("floatsub", FALSE, 0, "", "", 0)) @@
     ("c12"   :> Ar("complex", FALSE, 0, "", "", 0)) @@
     ("str"   :> Ar("str", FALSE, 0, "", "", 0)) @@
     ("list"  :> Ar("list", FALSE, 0, "", "", 0)) @@
     ("none"  :> Ar("none", FALSE, 0, "", "", 0)) @@
     ("ndi4"  :> Ar("buffer", FALSE, 0, "nd", "i4", 1)) @@
     ("ndi8"  :> Ar("buffer", FALSE, 0, "nd", "i8", 1)) @@
     ("ndu4"  :> Ar("buffer", FALSE, 0, "nd", "u4", 1)) @@
     ("ndf4"  :> Ar("buffer", FALSE, 0, "nd", "f4", 1)) @@
     ("ndf8"  :> Ar("buffer", FALSE, 0, "nd", "f8", 1)) @@
     ("ndf82" :> Ar("buffer", FALSE, 0, "nd", "f8", 2)) @@
     ("ndf83" :> Ar("buffer", FALSE, 0, "nd", "f8", 3)) @@
     ("ndi42" :> Ar("buffer", FALSE, 0, "nd", "i4", 2)) @@
     ("arri"  :> Ar("buffer", FALSE, 0, "arr", "i4", 1)) @@
     ("arrl"  :> Ar("buffer", FALSE, 0, "arr", "i8", 1)) @@
     ("arrf"  :> Ar("buffer", FALSE, 0, "arr", "f4", 1)) @@
     ("arrd"  :> Ar("buffer", FALSE, 0, "arr", "f8", 1)) @@
     ("mvd"   :> Ar("buffer", FALSE, 0, "mv", "f8", 1)) @@
     ("cymv"  :> Ar("buffer", FALSE, 0, "cymv", "f8", 1)) @@
     ("bytes" :> Ar("buffer", FALSE, 0, "bytes", "u1", 1))

AOneAll   == DOMAIN A
AScalar   == {"i3", "im1", "i40", "i63", "true", "isub", "f15", "fsub", "c12", "str", "list", "none"}
APairAll  == {"i3", "im1", "i40", "true", "f15", "c12", "str", "list", "none", "ndf8", "ndi4", "arrd", "ndf82"}
APairT    == {"i3", "i40", "true", "f15", "c12", "str", "list", "none", "ndf8", "ndi4"}
APairQ    == {"i3", "i40", "true", "f15", "c12", "str", "ndf8", "ndi4"}

IntCls   == {"int", "bool", "intsub"}
FloatCls == {"float", "floatsub"}
IsInst(a, py) == CASE py = "int" -> A[a].cls \in IntCls
                   [] py = "bool" -> A[a].cls = "bool"
                   [] py = "float" -> A[a].cls \in FloatCls
                   [] py = "complex" -> A[a].cls = "complex"
                   [] py = "list" -> A[a].cls = "list"
                   [] OTHER -> FALSE

---------------------------------------------------------------------------
(* outcomes *)
Ret(ty, val) == [k |-> "ret", ty |-> ty, val |-> val, e |-> ""]
Exc(e)       == [k |-> "exc", ty |-> <<>>, val |-> <<>>, e |-> e]
AnyO          == [k |-> "any", ty |-> <<>>, val |-> <<>>, e |-> ""]

(* conversion of an argument to the type of a specialisation; the body       *)
(* computes x + x: "ok" = the value is demanded, "tyonly" = only typeof (the *)
(* value or its double is not representable), an exception name, "nodemand"  *)
FitsInt(M, a, extra) == IF a.neg THEN M.s = 1 /\ a.bits + extra <= M.w - 1
                        ELSE a.bits + extra <= (IF M.s = 1 THEN M.w - 1 ELSE M.w)
Conv(m, an) ==
  LET M == T[m]  a == A[an] IN
  CASE M.k = "int" ->
         IF a.cls \in IntCls THEN (IF ~FitsInt(M, a, 0) THEN "OverflowError"
                                   ELSE IF FitsInt(M, a, 1) THEN "ok" ELSE "tyonly")
         ELSE IF a.cls \in FloatCls \/ a.cls = "buffer" THEN "nodemand"
         ELSE "TypeError"
    [] M.k = "bool" ->
         IF a.cls = "bool" THEN "ok" ELSE IF a.cls = "buffer" THEN "nodemand" ELSE "tyonly"
    [] M.k = "float" ->
         IF a.cls \in IntCls \cup FloatCls THEN "ok"
         ELSE IF a.cls = "buffer" THEN "nodemand" ELSE "TypeError"
    [] M.k = "complex" ->
         IF a.cls \in IntCls \cup FloatCls \cup {"complex"} THEN "ok"
         ELSE IF a.cls = "buffer" THEN "nodemand" ELSE "TypeError"
    [] M.k = "obj" -> "ok"
    [] M.k = "builtin" ->
         IF a.cls = M.py THEN "ok" ELSE IF a.cls = "none" THEN "nodemand" ELSE "TypeError"
    [] M.k = "buf" ->
         IF a.cls = "buffer" THEN (IF a.src = "bytes" THEN "nodemand"
                                   ELSE IF a.dt = M.dt /\ a.nd = M.nd THEN "ok" ELSE "ValueError")
         ELSE IF a.cls = "none" THEN "nodemand" ELSE "TypeError"

(* sig: chosen member per fused type; par: fused index of every parameter.    *)
(* All conversions fine -> the call returns; one that carries no demand ->    *)
(* no demand on the call; several failing ones -> only an agreed exception is *)
(* demanded (C-level conversions run before the type tests of object-typed    *)
(* parameters, so "the first failing parameter" is not what decides).         *)
Convs(sig, par, args) == [j \in 1..Len(par) |-> Conv(sig[par[j]], args[j])]
ConvOut(sig, par, args) ==
  LET cs  == Convs(sig, par, args)
      bad == {cs[j] : j \in {j \in 1..Len(par) : cs[j] \notin {"ok", "tyonly"}}}
  IN IF bad = {} THEN Ret([j \in 1..Len(par) |-> sig[par[j]]], [j \in 1..Len(par) |-> cs[j] = "ok"])
     ELSE IF "nodemand" \in bad \/ Cardinality(bad) > 1 THEN AnyO
     ELSE Exc(CHOOSE e \in bad : TRUE)

---------------------------------------------------------------------------
(* reference selection *)
Corr(m, a) == \/ T[m].k = "int" /\ A[a].cls \in IntCls
              \/ T[m].k = "float" /\ A[a].cls \in FloatCls
              \/ T[m].k = "complex" /\ A[a].cls = "complex"
Exact(m, a) == \/ T[m].k = "bool" /\ A[a].cls = "bool"
               \/ T[m].k = "builtin" /\ A[a].cls = T[m].py
               \/ T[m].k = "buf" /\ A[a].cls = "buffer" /\ A[a].dt = T[m].dt /\ A[a].nd = T[m].nd
Biggest(S) == {m \in S : \A n \in S : T[n].r <= T[m].r}
RefSel(F, a) ==
  LET S == Range(F)
      ex == {m \in S : Exact(m, a)}
      co == {m \in S : Corr(m, a)}
  IN IF ex # {} THEN ex ELSE IF co # {} THEN Biggest(co)
     ELSE IF "object" \in S THEN {"object"} ELSE {}
HasBuf(F) == \E m \in Range(F) : T[m].k = "buf"
\* None with memoryview members: the documentation is silent (Cython keeps "first buffer type")
NoDemandSel(F, a) == A[a].cls = "none" /\ HasBuf(F)
\* the only place where "biggest" does not name one member: equal rank, different signedness
TopTie(F, a) == \E m, n \in Range(F) : m # n /\ Corr(m, a) /\ Corr(n, a) /\ T[m].r = T[n].r

---------------------------------------------------------------------------
(* implementation-shaped: the sort *)
FK == {"int", "bool", "float", "complex", "obj", "builtin"}
IsNum(x) == T[x].k \in {"int", "bool", "float", "complex"}
Lt(a, b, fl) ==
  LET X == T[a]  Y == T[b] IN
  CASE IsNum(a) -> IF IsNum(b) THEN X.r > Y.r \/ (X.r = Y.r /\ X.s > Y.s) ELSE TRUE
    [] OTHER -> FALSE

RECURSIVE DescLen(_, _, _), AscLen(_, _, _), BSearch(_, _, _, _, _), InsFrom(_, _, _)
DescLen(s, n, fl) == IF n < Len(s) /\ Lt(s[n + 1], s[n], fl) THEN DescLen(s, n + 1, fl) ELSE n
AscLen(s, n, fl)  == IF n < Len(s) /\ ~Lt(s[n + 1], s[n], fl) THEN AscLen(s, n + 1, fl) ELSE n
Rev(s) == [i \in 1..Len(s) |-> s[Len(s) + 1 - i]]
BSearch(s, pv, l, r, fl) ==
  IF l >= r THEN l
  ELSE LET p == l + ((r - l) \div 2) IN
       IF Lt(pv, s[p], fl) THEN BSearch(s, pv, l, p, fl) ELSE BSearch(s, pv, p + 1, r, fl)
InsertAt(s, start, l) == [i \in 1..Len(s) |-> IF i < l THEN s[i] ELSE IF i = l THEN s[start]
                                                ELSE IF i <= start THEN s[i - 1] ELSE s[i]]
InsFrom(s, start, fl) == IF start > Len(s) THEN s
                         ELSE InsFrom(InsertAt(s, start, BSearch(s, s[start], 1, start, fl)), start + 1, fl)
PySort(s, fl) ==
  IF Len(s) < 2 THEN s
  ELSE LET desc == Lt(s[2], s[1], fl)
           n    == IF desc THEN DescLen(s, 2, fl) ELSE AscLen(s, 2, fl)
           s1   == IF desc THEN Rev(SubSeq(s, 1, n)) \o SubSeq(s, n + 1, Len(s)) ELSE s
       IN InsFrom(s1, n + 1, fl)

(* _split_fused_types on the sorted list *)
RECURSIVE SplitFrom(_, _, _)
SplitFrom(so, i, acc) ==
  IF i > Len(so) THEN acc
  ELSE LET m == so[i]  py == T[m].py IN
       SplitFrom(so, i + 1,
         IF py # "" THEN (IF py \in acc.seen THEN acc
                          ELSE IF py = "object" THEN [acc EXCEPT !.seen = @ \cup {py}, !.obj = TRUE]
                          ELSE [acc EXCEPT !.seen = @ \cup {py}, !.normal = Append(@, m)])
         ELSE [acc EXCEPT !.bufs = Append(@, m)])
BoolFirst(s) == SelectSeq(s, LAMBDA m : T[m].py = "bool") \o SelectSeq(s, LAMBDA m : T[m].py # "bool")
Split(F, fl) == LET sp == SplitFrom(PySort(F, fl), 1, [seen |-> {}, normal |-> <<>>, bufs |-> <<>>, obj |-> FALSE])
                IN [sp EXCEPT !.normal = BoolFirst(@)]

(* the generated type mapper *)
KindCat(dt) == IF dt \in {"i4", "i8", "u4", "u1"} THEN "iu" ELSE "f"
DtSize(dt)  == CASE dt \in {"i4", "u4", "f4"} -> 4 [] dt \in {"i8", "f8"} -> 8 [] OTHER -> 1
DtSigned(dt) == dt \in {"i4", "i8"}
NpMatch(m, a) == /\ KindCat(T[m].dt) = KindCat(A[a].dt) /\ DtSize(T[m].dt) = DtSize(A[a].dt)
                 /\ T[m].nd = A[a].nd
                 /\ (KindCat(T[m].dt) = "iu" => DtSigned(T[m].dt) = DtSigned(A[a].dt))
FmtMatch(m, a) == DtSize(T[m].dt) = DtSize(A[a].dt) /\ T[m].nd = A[a].nd /\ T[m].dt = A[a].dt
FirstIdx(s, P(_)) == IF \E i \in DOMAIN s : P(s[i]) THEN CHOOSE i \in DOMAIN s : P(s[i]) /\ \A j \in 1..(i - 1) : ~P(s[j]) ELSE 0
ImplMap(F, a, fl) ==
  LET sp == Split(F, fl)
      fb == IF sp.obj THEN "object" ELSE "None"
      ni == FirstIdx(sp.normal, LAMBDA m : IsInst(a, T[m].py))
  IN IF ni # 0 THEN sp.normal[ni]
     ELSE IF sp.bufs = <<>> THEN fb
     ELSE LET np == IF A[a].cls = "buffer" /\ A[a].src \in {"nd", "cymv"}
                    THEN FirstIdx(sp.bufs, LAMBDA m : NpMatch(m, a)) ELSE 0
              fm == IF A[a].cls = "buffer" THEN FirstIdx(sp.bufs, LAMBDA m : FmtMatch(m, a)) ELSE 0
          IN IF np # 0 THEN sp.bufs[np]
             ELSE IF A[a].cls = "none" THEN sp.bufs[1]
             ELSE IF fm # 0 THEN sp.bufs[fm]
             ELSE fb

---------------------------------------------------------------------------
(* hazard classes, defined on the structure of the declaration *)
NumOf(F) == {m \in Range(F) : IsNum(m)}
Incomp(x, y, fl) == ~Lt(x, y, fl) /\ ~Lt(y, x, fl)
WeakOrder(S, fl) == /\ \A x, y \in S : ~(Lt(x, y, fl) /\ Lt(y, x, fl))
                    /\ \A x, y, z \in S : Lt(x, y, fl) /\ Lt(y, z, fl) => Lt(x, z, fl)
                    /\ \A x, y, z \in S : Incomp(x, y, fl) /\ Incomp(y, z, fl) => Incomp(x, z, fl)
FAll(b) == [k \in FK |-> b]
RefinesRank(S) == \A x, y \in S : T[x].py = T[y].py /\ T[x].r > T[y].r => Lt(x, y, FAll(FALSE))
NonBuf(F) == {m \in Range(F) : T[m].k # "buf"}
\* (memoryview members take part with the id()-independent half of their comparison: nothing is lower than them
\*  except non-complex numeric types -- a complex member is not, so [fc, int[:], dc] stays in declaration order)
HzSort(F)      == ~WeakOrder(Range(F), FAll(FALSE)) \/ ~RefinesRank(NumOf(F))
HzBool(F, a)   == A[a].cls = "bool" /\ "bint" \in Range(F) /\ \E m \in Range(F) : T[m].k = "int"
\* does the answer of the modelled mapper meet the reference?
DestOK(F, a, dst) == NoDemandSel(F, a) \/ (IF dst = "None" THEN RefSel(F, a) = {} ELSE dst \in RefSel(F, a))
\* ... and if not, which structural class explains it: idsort = the deviation disappears when
\* memoryview types never compare lower; bool = bint member, bool argument, an integer member;
\* sort = the comparison is no strict weak order refining rank on the non-buffer members
HzType(F, a, g) ==
  IF DestOK(F, a, ImplMap(F, a, g)) THEN {}
  ELSE IF DestOK(F, a, ImplMap(F, a, FAll(FALSE))) THEN (IF HasBuf(F) /\ ~WeakOrder(Range(F), g) THEN {"idsort"} ELSE {})
  ELSE IF HzBool(F, a) THEN {"bool"}
  ELSE IF HzSort(F) /\ (\E m \in Range(F) : Corr(m, a)) THEN {"sort"} ELSE {}

---------------------------------------------------------------------------
(* declarations and cases *)
\* mode "one": f(F x)   "two": f(F x, G y)   "same": f(F x, F y)
Decl(mode, f1, f2) == [mode |-> mode, f1 |-> f1, f2 |-> f2]
NF(d)  == IF d.mode = "two" THEN 2 ELSE 1
Par(d) == CASE d.mode = "one" -> <<1>> [] d.mode = "two" -> <<1, 2>> [] d.mode = "same" -> <<1, 1>>
Fu(d, i) == IF i = 1 THEN d.f1 ELSE d.f2
Sigs(d) == IF NF(d) = 1 THEN {<<m>> : m \in Range(d.f1)} ELSE {<<m, n>> : m \in Range(d.f1), n \in Range(d.f2)}
\* the argument that decides fused type i: the first parameter of that type
ArgOf(d, args, i) == IF d.mode = "two" THEN args[i] ELSE args[1]

RefCall(d, args) ==
  IF \E i \in 1..NF(d) : NoDemandSel(Fu(d, i), ArgOf(d, args, i)) THEN {AnyO}
  ELSE IF \E i \in 1..NF(d) : RefSel(Fu(d, i), ArgOf(d, args, i)) = {} THEN {Exc("TypeError")}
  ELSE {ConvOut(sig, Par(d), args) : sig \in {s \in Sigs(d) : \A i \in 1..NF(d) : s[i] \in RefSel(Fu(d, i), ArgOf(d, args, i))}}
\* explicit indexing: key = one name per fused type
RefIndex(d, key, args) == IF key \in Sigs(d) THEN {ConvOut(key, Par(d), args)} ELSE {Exc("KeyError")}

\* the None wildcard of index_signature resolves although the reference finds no member
HzWild(d, args, g) == d.mode = "two" /\ (\E i \in 1..2 : ImplMap(Fu(d, i), args[i], g) = "None" /\ RefSel(Fu(d, i), args[i]) = {})
                      /\ Cardinality({s \in Sigs(d) : \A i \in 1..2 : ImplMap(Fu(d, i), args[i], g) \in {"None", s[i]}}) = 1
Hz(d, args, g) == UNION {HzType(Fu(d, i), ArgOf(d, args, i), g) : i \in 1..NF(d)}
                  \cup (IF HzWild(d, args, g) THEN {"wild"} ELSE {})
Seqs(U, n) == UNION {{s \in [1..k -> U] : \A i, j \in 1..k : i # j => s[i] # s[j]} : k \in 1..n}
In == IF Part \in {"replay", "split"} THEN ndJsonDeserialize(IOEnv.C34_IN) ELSE <<>>
MeasuredFlags == IF Part \in {"replay", "split"} THEN In[1].flags ELSE FAll(FALSE)
ReplayDecls == IF Part = "replay" THEN [i \in 1..(Len(In) - 1) |-> In[i + 1]] ELSE <<>>
HasNum(F) == NumOf(F) # {}
FlagChoices(d) == IF Part = "replay" THEN {MeasuredFlags}
                  ELSE IF (HasBuf(d.f1) /\ HasNum(d.f1)) \/ (d.mode = "two" /\ HasBuf(d.f2) /\ HasNum(d.f2))
                  THEN (IF Part = "multi" THEN {FAll(FALSE), FAll(TRUE)}
                        ELSE {FAll(FALSE), FAll(TRUE), [FAll(FALSE) EXCEPT !["int"] = TRUE], [FAll(FALSE) EXCEPT !["float"] = TRUE]})
                  ELSE {FAll(FALSE)}
\* keys tried by explicit indexing: every signature, plus names that are not members
KeysOf(d) == Sigs(d) \cup (IF NF(d) = 1 THEN {<<"char">>, <<d.f1[1], d.f1[1]>>} \cup {<<m>> : m \in {"int", "double", "object"}}
                           ELSE {<<d.f1[1]>>, <<d.f2[1], d.f1[1]>>, <<d.f1[1], "char">>})

(* the dispatcher as one function of the case (the actions below compute the   *)
(* same thing step by step: invariant StepsAreImplCall)                        *)
ImplDest(dd, aa, g) == [i \in 1..NF(dd) |-> ImplMap(Fu(dd, i), ArgOf(dd, aa, i), g)]
ImplCall(dd, aa, g) ==
  LET ds == ImplDest(dd, aa, g)
      ms == {s \in Sigs(dd) : \A i \in 1..NF(dd) : (NF(dd) = 2 /\ ds[i] = "None") \/ ds[i] = s[i]}
  IN IF Cardinality(ms) = 1 THEN ConvOut(CHOOSE s \in ms : TRUE, Par(dd), aa) ELSE Exc("TypeError")
AltFlags == {FAll(FALSE), FAll(TRUE), [FAll(FALSE) EXCEPT !["int"] = TRUE], [FAll(FALSE) EXCEPT !["float"] = TRUE],
             [FAll(TRUE) EXCEPT !["int"] = FALSE], [FAll(TRUE) EXCEPT !["float"] = FALSE]}

VARIABLES id, d, op, key, args, fl, pc, dest, fn, out, path
vars == <<id, d, op, key, args, fl, pc, dest, fn, out, path>>

\* declarations without memoryview members see one buffer exporter and bytes only
ArgsFor(F) == IF HasBuf(F) THEN ArgsOne ELSE ArgsOne \cap (AScalar \cup {"ndf8", "bytes"})
ArgTuples(dd) == IF dd.mode = "one" THEN {<<a>> : a \in ArgsFor(dd.f1)}
                 ELSE IF dd.mode = "same" THEN {<<a, b>> : a \in ArgsFor(dd.f1), b \in ArgsPair}
                 ELSE {<<a, b>> : a \in ArgsPair, b \in ArgsPair}
IdxArgTuples(dd) == IF dd.mode = "one" THEN {<<a>> : a \in ArgsPair}
                    ELSE {<<a, b>> : a \in {"i3"}, b \in {"i3", "f15", "str", "ndf8"} \cap ArgsPair}
OneDecls == {Decl("one", f, <<>>) : f \in Seqs(UNames, 2) \cup Seqs(UNames3, MaxLen)}
SweepDecls == CASE Part = "one" -> OneDecls
                [] Part = "multi" -> {Decl("two", f, g) : f \in Seqs(UNames, 2), g \in Seqs(UNames, 2)}
                                     \cup {Decl("same", f, <<>>) : f \in Seqs(UNames, MaxLen)}
                                     \cup {Decl("one", f, <<>>) : f \in Seqs(UNames, 2)}
                [] Part = "split" -> OneDecls
                [] OTHER -> {}

InitCase(i, dd) ==
  /\ id = i /\ d = dd
  /\ fl \in FlagChoices(dd)
  /\ \/ /\ op = "call" /\ key = <<>> /\ args \in ArgTuples(dd) /\ pc = "map"
     \/ /\ Part \in {"multi", "replay"} /\ op = "index" /\ key \in KeysOf(dd) /\ args \in IdxArgTuples(dd) /\ pc = "idx"
  /\ dest = <<>> /\ fn = <<>> /\ out = AnyO /\ path = <<>>

Init == CASE Part = "replay" -> \E i \in DOMAIN ReplayDecls : InitCase(i, Decl(ReplayDecls[i].mode, ReplayDecls[i].f1, ReplayDecls[i].f2))
          [] Part = "split" -> /\ \E dd \in SweepDecls : id = 0 /\ d = dd
                               /\ op = "split" /\ key = <<>> /\ args = <<>> /\ fl = MeasuredFlags /\ pc = "done"
                               /\ dest = <<>> /\ fn = <<>> /\ out = AnyO /\ path = <<>>
          [] OTHER -> \E dd \in SweepDecls : InitCase(0, dd)

(* the steps of __pyx_fused_cpdef *)
MapArg == /\ pc = "map" /\ Len(dest) < NF(d)
          /\ dest' = Append(dest, ImplMap(Fu(d, Len(dest) + 1), ArgOf(d, args, Len(dest) + 1), fl))
          /\ path' = Append(path, "MapArg")
          /\ UNCHANGED <<id, d, op, key, args, fl, pc, fn, out>>
\* match_signatures_single: signatures.get(dest_type)
MatchSingle == /\ pc = "map" /\ NF(d) = 1 /\ Len(dest) = 1 /\ dest[1] # "None"
               /\ fn' = <<dest[1]>> /\ pc' = "conv"
               /\ path' = Append(path, "MatchSingle")
               /\ UNCHANGED <<id, d, op, key, args, fl, dest, out>>
NoMatchSingle == /\ pc = "map" /\ NF(d) = 1 /\ Len(dest) = 1 /\ dest[1] = "None"
                 /\ out' = Exc("TypeError") /\ pc' = "done"
                 /\ path' = Append(path, "NoMatchSingle")
                 /\ UNCHANGED <<id, d, op, key, args, fl, dest, fn>>
\* index_signature: None is a wildcard
Matches == {s \in Sigs(d) : \A i \in 1..2 : dest[i] = "None" \/ dest[i] = s[i]}
MatchMulti == /\ pc = "map" /\ NF(d) = 2 /\ Len(dest) = 2 /\ Cardinality(Matches) = 1
              /\ fn' = CHOOSE s \in Matches : TRUE
              /\ pc' = "conv"
              /\ path' = Append(path, "MatchMulti")
              /\ UNCHANGED <<id, d, op, key, args, fl, dest, out>>
NoMatchMulti == /\ pc = "map" /\ NF(d) = 2 /\ Len(dest) = 2 /\ Matches = {}
                /\ out' = Exc("TypeError") /\ pc' = "done"
                /\ path' = Append(path, "NoMatchMulti")
                /\ UNCHANGED <<id, d, op, key, args, fl, dest, fn>>
Ambiguous == /\ pc = "map" /\ NF(d) = 2 /\ Len(dest) = 2 /\ Cardinality(Matches) > 1
             /\ out' = Exc("TypeError") /\ pc' = "done"
             /\ path' = Append(path, "Ambiguous")
             /\ UNCHANGED <<id, d, op, key, args, fl, dest, fn>>
\* __pyx_FusedFunction_getitem: "|".join(names) looked up in __signatures__
IndexHit == /\ pc = "idx" /\ key \in Sigs(d)
            /\ fn' = key /\ pc' = "conv"
            /\ path' = Append(path, "IndexHit")
            /\ UNCHANGED <<id, d, op, key, args, fl, dest, out>>
IndexMiss == /\ pc = "idx" /\ key \notin Sigs(d)
             /\ out' = Exc("KeyError") /\ pc' = "done"
             /\ path' = Append(path, "IndexMiss")
             /\ UNCHANGED <<id, d, op, key, args, fl, dest, fn>>
\* the specialisation converts its arguments and runs the body
Convert == /\ pc = "conv" /\ ConvOut(fn, Par(d), args).k # "exc"
           /\ out' = ConvOut(fn, Par(d), args) /\ pc' = "done"
           /\ path' = Append(path, "Convert")
           /\ UNCHANGED <<id, d, op, key, args, fl, dest, fn>>
ConvertRaise == /\ pc = "conv" /\ ConvOut(fn, Par(d), args).k = "exc"
                /\ out' = ConvOut(fn, Par(d), args) /\ pc' = "done"
                /\ path' = Append(path, "ConvertRaise")
                /\ UNCHANGED <<id, d, op, key, args, fl, dest, fn>>

Next == \/ MapArg \/ MatchSingle \/ NoMatchSingle \/ MatchMulti \/ NoMatchMulti \/ Ambiguous
        \/ IndexHit \/ IndexMiss \/ Convert \/ ConvertRaise
Spec == Init /\ [][Next]_vars

---------------------------------------------------------------------------
Want == IF op = "index" THEN RefIndex(d, key, args) ELSE RefCall(d, args)
Agrees == AnyO \in Want \/ out \in Want
HzNow == IF op = "call" THEN Hz(d, args, fl) ELSE {}

(* every deviation of the modelled mapper from the reference has a structural explanation *)
DeviationsExplained == op = "call" /\ dest = <<>> /\ pc = "map" =>
   \A i \in 1..NF(d) : LET F == Fu(d, i)  a == ArgOf(d, args, i) IN
      DestOK(F, a, ImplMap(F, a, fl)) \/ HzType(F, a, fl) # {}

(* the reference is a partial function exactly where the rules say so *)
RefPartial == op = "call" /\ dest = <<>> /\ pc = "map" =>
   \A i \in 1..NF(d) : LET F == Fu(d, i)  a == ArgOf(d, args, i)  S == RefSel(F, a) IN
      /\ (Cardinality(S) <= 1 \/ TopTie(F, a))
      /\ (S = {} <=> /\ "object" \notin Range(F)
                     /\ \A m \in Range(F) : ~Exact(m, a) /\ ~Corr(m, a))
      /\ S \subseteq Range(F)
(* a chosen specialisation accepts the argument that selected it *)
RefConvOK == op = "call" /\ d.mode = "one" /\ dest = <<>> /\ pc = "map" =>
   \A m \in RefSel(d.f1, args[1]) : Conv(m, args[1]) \in {"ok", "tyonly", "OverflowError"}
(* implementation-shaped outcome = reference outcome, outside the hazard classes *)
ImplAgrees == pc = "done" /\ op # "split" => (Agrees \/ HzNow # {})
(* strict variant: expected to be VIOLATED (the hazard classes are inhabited) *)
ImplAgreesStrict == pc = "done" /\ op # "split" => Agrees
(* the mapper only answers member names or None: "No matching signature found" of   *)
(* index_signature is unreachable with two fused types (a None always matches)       *)
NoMatchMultiDead == ~(pc = "map" /\ NF(d) = 2 /\ Len(dest) = 2 /\ Matches = {})
StepsAreImplCall == pc = "done" /\ op = "call" => out = ImplCall(d, args, fl)
(* the sort puts every member somewhere and Split loses none *)
SplitSound == LET sp == Split(d.f1, fl) IN
   /\ Range(PySort(d.f1, fl)) = Range(d.f1) /\ Len(PySort(d.f1, fl)) = Len(d.f1)
   /\ Range(sp.bufs) = {m \in Range(d.f1) : T[m].k = "buf"}
   /\ sp.obj = ("object" \in Range(d.f1))
   /\ \A m \in Range(d.f1) : T[m].py \notin {"", "object"} => \E n \in Range(sp.normal) : T[n].py = T[m].py

TypeOK == /\ pc \in {"map", "idx", "conv", "done"} /\ Len(dest) <= NF(d)
          /\ out.k \in {"ret", "exc", "any"}

(* publication *)
SetSeq(S) == IF S = {} THEN <<>> ELSE LET f == CHOOSE f \in [1..Cardinality(S) -> S] : \A i, j \in 1..Cardinality(S) : i # j => f[i] # f[j] IN f
DemandFirst(F, py) == Biggest({m \in Range(F) : T[m].py = py})
PublishSplit == Part = "split" =>
   LET sp == Split(d.f1, fl) IN
   PrintT("@@" \o ToJson([f |-> d.f1, sorted |-> PySort(d.f1, fl), normal |-> sp.normal, bufs |-> sp.bufs, obj |-> sp.obj,
                          wint |-> SetSeq(DemandFirst(d.f1, "int")), wfloat |-> SetSeq(DemandFirst(d.f1, "float")),
                          wcomplex |-> SetSeq(DemandFirst(d.f1, "complex")),
                          hzsort |-> HzSort(d.f1), hzid |-> (HasBuf(d.f1) /\ \E g \in {FAll(TRUE), [FAll(FALSE) EXCEPT !["int"] = TRUE], [FAll(FALSE) EXCEPT !["float"] = TRUE]} : ~WeakOrder(Range(d.f1), g))]))
PublishReplay == Part = "replay" /\ pc = "done" =>
   PrintT("@@" \o ToJson([id |-> id, op |-> op, key |-> key, args |-> args, want |-> SetSeq(Want), impl |-> out,
                          hz |-> SetSeq(IF Agrees THEN {} ELSE HzNow), dest |-> dest, fn |-> fn, path |-> path,
                          convs |-> (IF fn = <<>> THEN <<>> ELSE Convs(fn, Par(d), args)),
                          alts |-> SetSeq(IF op = "call" /\ (HasBuf(d.f1) \/ (d.mode = "two" /\ HasBuf(d.f2)))
                                          THEN {ImplCall(d, args, g) : g \in AltFlags} \ {out} ELSE {})]))
=============================================================================
