SPECIFICATION Spec
INVARIANT Publish
CHECK_DEADLOCK FALSE
