SPECIFICATION Spec
CONSTANTS
  Part = "divmod"
  Wide = FALSE
  Full = FALSE
  MaxLoop = 0
  Dump = TRUE
INVARIANT RefSound
INVARIANT ShadowIntAgrees
INVARIANT ShadowDblAgrees
INVARIANT PublishDM
CHECK_DEADLOCK FALSE
