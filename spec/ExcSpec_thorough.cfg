SPECIFICATION Spec
CONSTANTS
  Kinds = {"cdef", "cpdef", "meth", "cpmeth"}
  CrossPtr = TRUE
  Legacy = {FALSE, TRUE}
  WTypes = {"schar", "uchar", "short", "ushort", "uint", "long", "ulong", "llong", "ullong", "ssize_t", "size_t", "float"}
  WKinds = {"cdef", "cpdef", "meth", "cpmeth"}
  SentCast = "rtype"
  Dump = TRUE
INVARIANT ImplAgrees
INVARIANT ErrConsistent
INVARIANT NoStale
INVARIANT HookOnce
INVARIANT HazardOnlyMisuse
INVARIANT Publish
CHECK_DEADLOCK FALSE
