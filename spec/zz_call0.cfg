SPECIFICATION Spec
CONSTANTS
  Level = 1
  Sites = {"call"}
  Dump = FALSE
CHECK_DEADLOCK FALSE
