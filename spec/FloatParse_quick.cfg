SPECIFICATION Spec
CONSTANTS
  Families = {"core5", "wide3", "words5", "nona4"}
  UseRecords = TRUE
  CheckDecl = TRUE
INVARIANT TypeOK
INVARIANT GrammarsAgree
INVARIANT UnderscoreRulesAgree
INVARIANT RefShape
INVARIANT PublishHazards
INVARIANT PublishAccepted
INVARIANT PublishRecords
CHECK_DEADLOCK FALSE
