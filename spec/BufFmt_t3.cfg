SPECIFICATION Spec
CONSTANTS
  DtNames = {"IN", "NS", "NE", "DN"}
  Edits = 1
  MaxTail = 2
  Wide = FALSE
  Deep = TRUE
  Dump = TRUE
INVARIANT RefSound
INVARIANT DtSound
INVARIANT NoFalseAccept
INVARIANT ImplAgreesOffMarked
INVARIANT ImplAgreesOffMarkedDt
INVARIANT Publish
INVARIANT PublishDt
CHECK_DEADLOCK FALSE
