SPECIFICATION Spec
CONSTANTS
  S = 3
  Abis <- AbisQuick
  Cfgs <- Cfgs3
  Types <- TypesSweepQuick
  Pub = FALSE
  MaxK = 0
  HiK = 7
  Steps = TRUE
INVARIANT IntExact
INVARIANT ToPyExact
INVARIANT NoBad
INVARIANT RootCause
INVARIANT Publish
