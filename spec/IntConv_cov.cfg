SPECIFICATION Spec
CONSTANTS
  S = 3
  Abis <- AbisCov
  Cfgs <- Cfgs3
  Types <- TypesCov
  Pub = FALSE
  MaxK = 0
  HiK = 4
  Steps = TRUE
INVARIANT IntExact
INVARIANT ToPyExact
INVARIANT NoBad
INVARIANT RootCause
INVARIANT Publish
