----------------------------- MODULE TraceEvents -----------------------------
(* C45: profiling / tracing events are balanced and well nested.            *)
(*                                                                          *)
(* REFERENCE SEMANTICS.  A program is a call tree of at most MaxFn          *)
(* functions (plain functions and generators; function i only starts        *)
(* functions j > i, the driver calls function 1 once).  Bodies are          *)
(* structured statements (return, raise, call, `return f()`, try/except,    *)
(* try/finally, for-range loop with break, with, yield, for-loop over a     *)
(* generator, next()+close(), close() of a fresh generator).  Run(P, fl)    *)
(* is an interpreter that produces the EVENT SEQUENCE the language          *)
(* definition implies for sys.setprofile / sys.settrace:                    *)
(*    call f        entry of an activation                                  *)
(*    ret f / unw f the activation returns / is left by an exception        *)
(*    yield f       a generator activation suspends  (a 'return' event)     *)
(*    resume f      next() on a suspended generator  (a 'call' event)       *)
(*    throw f       close() / finalisation of a suspended generator         *)
(*                  (a 'call' event, GeneratorExit is raised at the yield)  *)
(*    line f n      statement on line n (relative to `def`) starts          *)
(* The sequence is derived from the PROGRAM STRUCTURE: a finally block, a   *)
(* with-exit or the finalisation of a loop iterator that runs because of a  *)
(* `return` belongs to the activation that is still returning, so its       *)
(* events come BEFORE that activation's end event.                          *)
(* Generators are executed by "internal iteration": the body of the         *)
(* consumer's loop is run as a callback at every yield (st.cons is the      *)
(* stack of consumers); an abrupt exit of the callback closes the           *)
(* generator (GeneratorExit at the yield) before the exit takes effect.     *)
(*                                                                          *)
(* IMPLEMENTATION-SHAPED VARIANTS (fl # {}): the same interpreter with the  *)
(* emission points of Cython's code generator, used only to CLASSIFY        *)
(* deviations of the compiled code (never as the expectation):              *)
(*    "retstmt"  the end event of a `return` is emitted by the return       *)
(*               statement itself (Nodes.py ReturnStatNode), not at the     *)
(*               function exit; the exit emits an end event only when it    *)
(*               is reached by falling off the end or by an exception       *)
(*    "closeun"  close() of a generator that was never started runs the     *)
(*               body's prologue: a call/unw pair for an activation that    *)
(*               never existed                                              *)
(*    "cpdefx"   a cpdef function called from Python (only the root can be) *)
(*               that is left by an exception: the C function and its       *)
(*               Python wrapper both emit the end event                     *)
(*                                                                          *)
(* TLC: programs are BUILT by the actions AddRoot / AddDef / AddGen (one    *)
(* function per step), Run evaluates the program, and the event sequence    *)
(* of the reference semantics is then WALKED event by event (DoCall ..      *)
(* DoLine) through the nesting automaton of TraceNest.tla with activation   *)
(* accounting.  Invariants: every event meets its precondition, one start   *)
(* and one end per activation, suspended generators are resumed or closed,  *)
(* the stack is empty at the end, line events name lines of the function    *)
(* on top.  The final state of every program publishes the program, its     *)
(* expected events and the classified variants for the binding.             *)
EXTENDS Integers, Sequences, FiniteSets, TLC, Json, IOUtils, TraceNest

CONSTANTS MaxFn,       \* bound on the number of functions of a program (<= 7)
          MaxDepth,    \* bound on the depth of the call tree
          RootKinds,   \* kinds of function 1:      subset of {"def", "ccall"}
          CalleeKinds, \* kinds of called functions: subset of {"def", "cfunc", "ccall"}
          RootSkel, RootAtoms,     \* skeletons / atoms of function 1
          SubSkel, SubAtomsD, SubAtomsG,   \* ... of called plain functions / of generators
          Dump         \* TRUE: publish every program

HEnter == 8          \* CM.__enter__
HExit  == 9          \* CM.__exit__
NIds   == 9

---------------------------------------------------------------------------
(* statements *)
Ps       == [t |-> "pass"]
Rt       == [t |-> "ret"]                       \* return 1
Rz       == [t |-> "raise"]                     \* raise ValueError
Bk       == [t |-> "brk"]                       \* break
Yd       == [t |-> "yield"]                     \* yield 1
Cl(c)    == [t |-> "call", c |-> c]             \* D<c>()            (c-th plain callee)
RC(c)    == [t |-> "retcall", c |-> c]          \* return D<c>()
NC       == [t |-> "nc"]                        \* g = G() / next(g) / g.close()     (3 lines)
GC       == [t |-> "gc"]                        \* g = G() / g.close()               (2 lines)
FG(b)    == [t |-> "for", b |-> b]              \* for _ in G(): b
Sq(a, b) == [t |-> "seq", a |-> a, b |-> b]
TE(b, h) == [t |-> "te", b |-> b, h |-> h]      \* try: b / except ValueError: h
TF(b, f) == [t |-> "tf", b |-> b, f |-> f]      \* try: b / finally: f
Lp(b)    == [t |-> "lp", b |-> b]               \* for _ in range(2): b
Wi(b)    == [t |-> "with", b |-> b]             \* with CM(): b

AllAtoms == {"ps", "rt", "rz", "bk", "yd", "c1", "c2", "r1", "r2", "nc", "gc", "fa", "fb", "fr", "fz", "fy", "fc"}
Atom(n) == CASE n = "ps" -> Ps [] n = "rt" -> Rt [] n = "rz" -> Rz [] n = "bk" -> Bk [] n = "yd" -> Yd
             [] n = "c1" -> Cl(1) [] n = "c2" -> Cl(2) [] n = "r1" -> RC(1) [] n = "r2" -> RC(2)
             [] n = "nc" -> NC [] n = "gc" -> GC
             [] n = "fa" -> FG(Ps) [] n = "fb" -> FG(Bk) [] n = "fr" -> FG(Rt) [] n = "fz" -> FG(Rz)
             [] n = "fy" -> FG(Yd) [] n = "fc" -> FG(Cl(1))

AllSkel == 1..29
Holes(k) == IF k \in {1, 5, 6, 26} THEN 1
            ELSE IF k \in {2, 3, 4, 11, 12, 13, 18, 19, 20, 21, 22, 23, 27, 28, 29} THEN 2 ELSE 3
Skel(k, x, z, v) ==
  CASE k = 1  -> x
    [] k = 2  -> Sq(x, z)
    [] k = 3  -> TE(x, z)
    [] k = 4  -> TF(x, z)
    [] k = 5  -> Lp(x)
    [] k = 6  -> Wi(x)
    [] k = 7  -> Sq(TE(x, z), v)
    [] k = 8  -> Sq(TF(x, z), v)
    [] k = 9  -> TF(TE(x, z), v)
    [] k = 10 -> TE(TF(x, z), v)
    [] k = 11 -> Lp(TF(x, z))
    [] k = 12 -> Lp(TE(x, z))
    [] k = 13 -> Lp(Sq(x, z))
    [] k = 14 -> TF(Sq(x, z), v)
    [] k = 15 -> TE(Sq(x, z), v)
    [] k = 16 -> TF(x, Sq(z, v))
    [] k = 17 -> Sq(x, Sq(z, v))
    [] k = 18 -> FG(TF(x, z))
    [] k = 19 -> FG(TE(x, z))
    [] k = 20 -> FG(Sq(x, z))
    [] k = 21 -> Wi(TF(x, z))
    [] k = 22 -> TF(Wi(x), z)
    [] k = 23 -> Wi(Sq(x, z))
    [] k = 24 -> Sq(Lp(TF(x, z)), v)
    [] k = 25 -> TF(TF(x, z), v)
    [] k = 26 -> FG(x)
    [] k = 27 -> Sq(FG(x), z)
    [] k = 28 -> TF(FG(x), z)
    [] k = 29 -> TE(FG(x), z)

RECURSIVE Size(_), Uses(_), HasYield(_), BrkOK(_, _), HasWith(_)
Size(s) ==           \* number of source lines (one statement or clause header per line)
  CASE s.t \in {"pass", "ret", "raise", "brk", "yield", "call", "retcall"} -> 1
    [] s.t = "nc"   -> 3
    [] s.t = "gc"   -> 2
    [] s.t \in {"for", "lp", "with"} -> 1 + Size(s.b)
    [] s.t = "seq"  -> Size(s.a) + Size(s.b)
    [] s.t = "te"   -> 2 + Size(s.b) + Size(s.h)
    [] s.t = "tf"   -> 2 + Size(s.b) + Size(s.f)
Uses(s) ==           \* callee slots: plain callees d1, d2; the generator g
  CASE s.t \in {"pass", "ret", "raise", "brk", "yield"} -> {}
    [] s.t \in {"call", "retcall"} -> {IF s.c = 1 THEN "d1" ELSE "d2"}
    [] s.t \in {"nc", "gc"} -> {"g"}
    [] s.t = "for"  -> {"g"} \cup Uses(s.b)
    [] s.t \in {"lp", "with"} -> Uses(s.b)
    [] s.t = "seq"  -> Uses(s.a) \cup Uses(s.b)
    [] s.t = "te"   -> Uses(s.b) \cup Uses(s.h)
    [] s.t = "tf"   -> Uses(s.b) \cup Uses(s.f)
HasYield(s) ==
  CASE s.t = "yield" -> TRUE
    [] s.t \in {"pass", "ret", "raise", "brk", "call", "retcall", "nc", "gc"} -> FALSE
    [] s.t \in {"for", "lp", "with"} -> HasYield(s.b)
    [] s.t = "seq"  -> HasYield(s.a) \/ HasYield(s.b)
    [] s.t = "te"   -> HasYield(s.b) \/ HasYield(s.h)
    [] s.t = "tf"   -> HasYield(s.b) \/ HasYield(s.f)
HasWith(s) ==
  CASE s.t = "with" -> TRUE
    [] s.t \in {"pass", "ret", "raise", "brk", "yield", "call", "retcall", "nc", "gc"} -> FALSE
    [] s.t \in {"for", "lp"} -> HasWith(s.b)
    [] s.t = "seq"  -> HasWith(s.a) \/ HasWith(s.b)
    [] s.t = "te"   -> HasWith(s.b) \/ HasWith(s.h)
    [] s.t = "tf"   -> HasWith(s.b) \/ HasWith(s.f)
BrkOK(s, inloop) ==  \* `break` only inside a loop
  CASE s.t = "brk" -> inloop
    [] s.t \in {"pass", "ret", "raise", "yield", "call", "retcall", "nc", "gc"} -> TRUE
    [] s.t \in {"for", "lp"} -> BrkOK(s.b, TRUE)
    [] s.t = "with" -> BrkOK(s.b, inloop)
    [] s.t = "seq"  -> BrkOK(s.a, inloop) /\ BrkOK(s.b, inloop)
    [] s.t = "te"   -> BrkOK(s.b, inloop) /\ BrkOK(s.h, inloop)
    [] s.t = "tf"   -> BrkOK(s.b, inloop) /\ BrkOK(s.f, inloop)

(* Outside the domain: a `return` that leaves a for-loop over a generator through a finally clause / *)
(* with-exit INSIDE that loop, or that leaves two nested such loops.  When the dropped iterators are  *)
(* finalised relative to those clauses and to each other is reference-counting detail of the         *)
(* implementation (CPython: innermost first, after the clauses; Cython: at the return statement,      *)
(* outermost first), not a matter of event emission; such programs are skipped.                       *)
RECURSIVE Ambig(_, _, _)
Ambig(s, infor, guarded) ==
  CASE s.t \in {"ret", "retcall"} -> infor /\ guarded
    [] s.t \in {"pass", "raise", "brk", "yield", "call", "nc", "gc"} -> FALSE
    [] s.t = "for"  -> Ambig(s.b, TRUE, infor)
    [] s.t = "lp"   -> Ambig(s.b, infor, guarded)
    [] s.t = "with" -> Ambig(s.b, infor, guarded \/ infor)
    [] s.t = "seq"  -> Ambig(s.a, infor, guarded) \/ Ambig(s.b, infor, guarded)
    [] s.t = "te"   -> Ambig(s.b, infor, guarded) \/ Ambig(s.h, infor, guarded)
    [] s.t = "tf"   -> Ambig(s.b, infor, guarded \/ infor) \/ Ambig(s.f, infor, guarded)

RECURSIVE YieldInFinally(_)
YieldInFinally(s) ==     \* a yield inside a finally clause is outside the domain (resumption with a pending return / exception)
  CASE s.t \in {"pass", "ret", "raise", "brk", "yield", "call", "retcall", "nc", "gc"} -> FALSE
    [] s.t \in {"for", "lp", "with"} -> YieldInFinally(s.b)
    [] s.t = "seq"  -> YieldInFinally(s.a) \/ YieldInFinally(s.b)
    [] s.t = "te"   -> YieldInFinally(s.b) \/ YieldInFinally(s.h)
    [] s.t = "tf"   -> YieldInFinally(s.b) \/ HasYield(s.f)

Valid(b, isgen) == /\ BrkOK(b, FALSE)
                   /\ ~YieldInFinally(b)
                   /\ HasYield(b) = isgen
                   /\ ("d2" \in Uses(b) => "d1" \in Uses(b))

\* a function: [k kind, sk skeleton, at <<x, z, v>> atom names, ch <<d1, d2, g>> callee ids (0 = none), d depth]
BodyOf(P, j) == Skel(P[j].sk, Atom(P[j].at[1]), Atom(P[j].at[2]), Atom(P[j].at[3]))

---------------------------------------------------------------------------
(* the interpreter *)
Norm     == [t |-> "norm",  e |-> ""]
RetS     == [t |-> "ret",   e |-> ""]
BrkS     == [t |-> "brk",   e |-> ""]
Raise(e) == [t |-> "raise", e |-> e]        \* e: "VE" ValueError | "GE" GeneratorExit | "OT" StopIteration / RuntimeError
NoSig    == [t |-> "none",  e |-> ""]
CloseS   == [t |-> "close", e |-> ""]
Res(st, sig) == [st |-> st, sig |-> sig]

LastOf(q)  == q[Len(q)]
FrontOf(q) == SubSeq(q, 1, Len(q) - 1)

Emit(st, e)  == [st EXCEPT !.ev = Append(@, e)]
E(k, fr)     == [k |-> k, f |-> fr.f, a |-> fr.a, l |-> 0, s |-> 0]
\* s = 1: a simple statement (exactly one line event per execution); s = 0: clause header / pass / break
Line(st, fr, ln, strict) == Emit(st, [k |-> "line", f |-> fr.f, a |-> fr.a, l |-> ln, s |-> strict])

RetStmt(st, fr) == IF "retstmt" \in st.fl THEN Emit(st, E("ret", fr)) ELSE st
EndFn(r, fr) ==      \* the activation fr is left with signal r.sig
  IF r.sig.t = "raise" THEN Emit(r.st, E("unw", fr))
  ELSE IF r.sig.t = "ret" /\ "retstmt" \in r.st.fl THEN r.st
  ELSE Emit(r.st, E("ret", fr))

Helper(st, h) ==     \* CM.__enter__ / CM.__exit__: a one-line body `return ...`
  LET fr == [f |-> h, a |-> st.na + 1]
  IN Emit(Line(Emit([st EXCEPT !.na = fr.a], E("call", fr)), fr, 1, 1), E("ret", fr))

RECURSIVE Exec(_, _, _, _), ExecLoop(_, _, _, _, _), CallFn(_, _), Yield(_, _), ExecGen(_, _, _, _, _)

CallFn(j, st) ==     \* a plain function is called: Norm or Raise(e) for the caller
  LET fr == [f |-> j, a |-> st.na + 1]
      r  == Exec(BodyOf(st.P, j), Emit([st EXCEPT !.na = fr.a], E("call", fr)), fr, 1)
  IN Res(EndFn(r, fr), IF r.sig.t = "raise" THEN r.sig ELSE Norm)

(* the generator activation fr yields: its consumer (top of st.cons) takes the item *)
Yield(st, fr) ==
  IF fr.a \in st.closing THEN Res([st EXCEPT !.unsup = TRUE], Raise("OT"))   \* "generator ignored GeneratorExit": outside the domain
  ELSE
  LET s1 == Emit(st, E("yield", fr))
      c  == LastOf(s1.cons)
      inner == [s1 EXCEPT !.cons = FrontOf(@)]
      back(s, p) == [s EXCEPT !.cons = Append(@, [c EXCEPT !.p = p])]
  IN IF c.k = "for"
     THEN LET rc == Exec(c.b, inner, c.fr, c.ln)           \* the loop body runs in the consumer's frame
          IN IF rc.sig.t = "norm"
             THEN Res(Emit(back(rc.st, NoSig), E("resume", fr)), Norm)
             ELSE \* abrupt exit of the loop: the iterator is dropped, the suspended generator is finalised
                  Res(Emit([back(rc.st, rc.sig) EXCEPT !.closing = @ \cup {fr.a}], E("throw", fr)), Raise("GE"))
     ELSE \* "nc": g.close() after the first item
          LET s2 == Line(inner, c.fr, c.ln, 1)
          IN Res(Emit([back(s2, CloseS) EXCEPT !.closing = @ \cup {fr.a}], E("throw", fr)), Raise("GE"))

(* a generator of function j is created at line ln of frame fr and consumed: kind "for" (body b) or "nc" *)
ExecGen(kind, b, st, fr, ln) ==
  LET j   == st.P[fr.f].ch[3]
      g   == [f |-> j, a |-> st.na + 1]
      ctx == [k |-> kind, fr |-> fr, b |-> b, ln |-> ln, p |-> NoSig]
      r   == Exec(BodyOf(st.P, j), Emit([st EXCEPT !.na = g.a, !.cons = Append(@, ctx)], E("call", g)), g, 1)
      s2  == EndFn(r, g)
      p   == LastOf(s2.cons).p
      s3  == [s2 EXCEPT !.cons = FrontOf(@), !.closing = @ \ {g.a}]
  IN IF kind = "for"
     THEN IF p = NoSig THEN Res(s3, IF r.sig.t = "raise" THEN r.sig ELSE Norm)     \* exhausted / raised
          ELSE Res(s3, IF p.t = "brk" THEN Norm ELSE p)    \* errors of the finaliser are unraisable
     ELSE IF p = NoSig THEN Res(s3, IF r.sig.t = "raise" THEN r.sig ELSE Raise("OT"))   \* next(g): StopIteration
          ELSE Res(s3, IF r.sig.t = "raise" /\ r.sig.e # "GE" THEN r.sig ELSE Norm)      \* g.close()

ExecLoop(n, b, st, fr, ln) ==
  IF n = 0 THEN Res(st, Norm)
  ELSE LET r == Exec(b, st, fr, ln + 1)
       IN IF r.sig.t = "norm" THEN ExecLoop(n - 1, b, Line(r.st, fr, ln, 0), fr, ln)
          ELSE IF r.sig.t = "brk" THEN Res(r.st, Norm)
          ELSE r

Exec(s, st, fr, ln) ==
  CASE s.t = "pass"    -> Res(Line(st, fr, ln, 0), Norm)
    [] s.t = "brk"     -> Res(Line(st, fr, ln, 0), BrkS)
    [] s.t = "raise"   -> Res(Line(st, fr, ln, 1), Raise("VE"))
    [] s.t = "ret"     -> Res(RetStmt(Line(st, fr, ln, 1), fr), RetS)
    [] s.t = "call"    -> CallFn(st.P[fr.f].ch[s.c], Line(st, fr, ln, 1))
    [] s.t = "retcall" -> LET r == CallFn(st.P[fr.f].ch[s.c], Line(st, fr, ln, 1))
                          IN IF r.sig.t = "norm" THEN Res(RetStmt(r.st, fr), RetS) ELSE r
    [] s.t = "yield"   -> Yield(Line(st, fr, ln, 1), fr)
    [] s.t = "seq"     -> LET r == Exec(s.a, st, fr, ln)
                          IN IF r.sig.t = "norm" THEN Exec(s.b, r.st, fr, ln + Size(s.a)) ELSE r
    [] s.t = "te"      -> LET r == Exec(s.b, Line(st, fr, ln, 0), fr, ln + 1)
                              m == Line(r.st, fr, ln + 1 + Size(s.b), 0)      \* the except clause tests every exception
                          IN IF r.sig.t # "raise" THEN r
                             ELSE IF r.sig.e = "VE" THEN Exec(s.h, m, fr, ln + 2 + Size(s.b))
                             ELSE Res(m, r.sig)
    [] s.t = "tf"      -> LET r == Exec(s.b, Line(st, fr, ln, 0), fr, ln + 1)
                              f == Exec(s.f, Line(r.st, fr, ln + 1 + Size(s.b), 0), fr, ln + 2 + Size(s.b))
                          IN IF f.sig.t = "norm" THEN Res(f.st, r.sig) ELSE f
    [] s.t = "lp"      -> ExecLoop(2, s.b, Line(st, fr, ln, 0), fr, ln)
    [] s.t = "with"    -> LET r == Exec(s.b, Helper(Line(st, fr, ln, 0), HEnter), fr, ln + 1)
                          IN Res(Helper(Line(r.st, fr, ln, 0), HExit), r.sig)      \* __exit__ returns False
    [] s.t = "for"     -> ExecGen("for", s.b, Line(st, fr, ln, 0), fr, ln + 1)
    [] s.t = "nc"      -> ExecGen("nc", Ps, Line(Line(st, fr, ln, 1), fr, ln + 1, 1), fr, ln + 2)
    [] s.t = "gc"      -> LET s1 == Line(Line(st, fr, ln, 1), fr, ln + 1, 1)
                              g  == [f |-> st.P[fr.f].ch[3], a |-> s1.na + 1]
                          IN IF "closeun" \in st.fl
                             THEN Res(Emit(Emit([s1 EXCEPT !.na = g.a], E("call", g)), E("unw", g)), Norm)
                             ELSE Res(s1, Norm)            \* nothing runs: the generator was never started

Run(P, fl) ==
  LET r == CallFn(1, [ev |-> <<>>, na |-> 0, cons |-> <<>>, closing |-> {}, unsup |-> FALSE, P |-> P, fl |-> fl])
      dbl == "cpdefx" \in fl /\ P[1].k = "ccall" /\ r.sig.t = "raise"
  IN [ev |-> IF dbl THEN Append(r.st.ev, r.st.ev[Len(r.st.ev)]) ELSE r.st.ev, unsup |-> r.st.unsup, na |-> r.st.na,
      out |-> IF r.sig.t = "raise" THEN r.sig.e ELSE "ok"]

---------------------------------------------------------------------------
(* what the legacy API shows: start / end events with the function id *)
IsStart(e) == e.k \in {"call", "resume", "throw"}
IsEnd(e)   == e.k \in {"ret", "unw", "yield"}
Proj(evs) ==
  LET q == SelectSeq(evs, LAMBDA e : e.k # "line")
  IN [i \in 1..Len(q) |-> <<IF IsStart(q[i]) THEN "c" ELSE "r", q[i].f>>]

Callees(P) ==
  [f \in 1..NIds |->
     IF f > Len(P) THEN <<>>
     ELSE SelectSeq(P[f].ch, LAMBDA c : c # 0)
          \o (IF HasWith(BodyOf(P, f)) THEN <<HEnter, HExit>> ELSE <<>>)]
Sizes(P) == [f \in 1..NIds |-> IF f <= Len(P) THEN Size(BodyOf(P, f)) ELSE 1]

---------------------------------------------------------------------------
Flags == {"retstmt", "closeun", "cpdefx"}

VARIABLES phase,    \* "build" -> "walk" -> "done" | "skip" (outside the domain)
          fns,      \* the program built so far
          todo,     \* requested functions that have no body yet: [cls "d" | "g", d depth]
          evs,      \* expected events (reference semantics) once the program is complete
          res,      \* [out, ir, ic, ib]: outcome of the root call and the projected variants
          pos, stk, ska,          \* walk: events consumed, stack of function ids / activation ids
          susp, started, ended,   \* suspended generator activations, activations with a start / final end event
          bad       \* 0, or the index of the first event that did not meet its precondition
vars == <<phase, fns, todo, evs, res, pos, stk, ska, susp, started, ended, bad>>

NoRes == [out |-> "", hz |-> {}, iv |-> {}, cal |-> <<>>, sz |-> <<>>]

Init == /\ phase = "build" /\ fns = <<>> /\ todo = <<[cls |-> "d", d |-> 1]>>
        /\ evs = <<>> /\ res = NoRes /\ pos = 0 /\ stk = <<>> /\ ska = <<>>
        /\ susp = {} /\ started = {} /\ ended = {} /\ bad = 0

\* programs grown by the harness (seeded random growth with the same rules): checked by WellFormed, then run like the others
Given == IF "PROGS" \in DOMAIN IOEnv THEN ndJsonDeserialize(IOEnv.PROGS) ELSE <<>>
InitGiven == /\ \E i \in 1..Len(Given) : fns = Given[i]
             /\ phase = "build" /\ todo = <<>>
             /\ evs = <<>> /\ res = NoRes /\ pos = 0 /\ stk = <<>> /\ ska = <<>>
             /\ susp = {} /\ started = {} /\ ended = {} /\ bad = 0

Walk0 == UNCHANGED <<evs, res, pos, stk, ska, susp, started, ended, bad>>

Add(kd, k, x, z, v, A) ==
  LET rq == Head(todo)
      b  == Skel(k, Atom(x), Atom(z), Atom(v))
      u  == Uses(b)
      n  == Len(fns) + Len(todo)          \* ids promised so far
      n1 == IF "d1" \in u THEN n + 1 ELSE 0
      n2 == IF "d2" \in u THEN n + 2 ELSE 0
      ng == IF "g" \in u THEN n + Cardinality(u) ELSE 0
      rd == [cls |-> "d", d |-> rq.d + 1]
      rg == [cls |-> "g", d |-> rq.d + 1]
  IN /\ x \in A
     /\ IF Holes(k) >= 2 THEN z \in A ELSE z = "ps"                  \* unused holes are fixed
     /\ IF Holes(k) >= 3 THEN v \in A ELSE v = "ps"
     /\ Valid(b, kd = "gen")
     /\ n + Cardinality(u) <= MaxFn
     /\ (u # {} => rq.d < MaxDepth)
     /\ fns' = Append(fns, [k |-> kd, sk |-> k, at |-> <<x, z, v>>, ch |-> <<n1, n2, ng>>, d |-> rq.d])
     /\ todo' = Tail(todo) \o (IF "d1" \in u THEN <<rd>> ELSE <<>>) \o (IF "d2" \in u THEN <<rd>> ELSE <<>>)
                           \o (IF "g" \in u THEN <<rg>> ELSE <<>>)
     /\ phase' = phase /\ Walk0

AddRoot == /\ phase = "build" /\ todo # <<>> /\ fns = <<>>
           /\ \E kd \in RootKinds, k \in RootSkel, x \in RootAtoms, z \in AllAtoms, v \in AllAtoms : Add(kd, k, x, z, v, RootAtoms)
AddDef  == /\ phase = "build" /\ todo # <<>> /\ fns # <<>> /\ Head(todo).cls = "d"
           /\ \E kd \in CalleeKinds, k \in SubSkel, x \in SubAtomsD, z \in AllAtoms, v \in AllAtoms : Add(kd, k, x, z, v, SubAtomsD)
AddGen  == /\ phase = "build" /\ todo # <<>> /\ fns # <<>> /\ Head(todo).cls = "g"
           /\ \E k \in SubSkel, x \in SubAtomsG, z \in AllAtoms, v \in AllAtoms : Add("gen", k, x, z, v, SubAtomsG)

RunProg ==
  /\ phase = "build" /\ todo = <<>>
  /\ LET ref == Run(fns, {})
         \* the visible stream under every combination of the implementation-shaped variants (they interact:
         \* a return event emitted early changes where the events of a phantom activation fall)
         sv  == [F \in SUBSET Flags |-> IF F = {} THEN Proj(ref.ev) ELSE Proj(Run(fns, F).ev)]
         \* hazards: the variants that matter for this program in some combination
         hz  == {h \in Flags : \E F \in SUBSET Flags : h \in F /\ sv[F] # sv[F \ {h}]}
         amb == \E i \in 1..Len(fns) : Ambig(BodyOf(fns, i), FALSE, FALSE)
     IN /\ phase' = IF ref.unsup \/ amb THEN "skip" ELSE "walk"
        /\ evs' = ref.ev
        /\ res' = [out |-> ref.out, hz |-> hz,
                   iv |-> {[fl |-> F, pj |-> sv[F]] : F \in {G \in SUBSET hz : G # {} /\ sv[G] # sv[{}]}},
                   cal |-> Callees(fns), sz |-> Sizes(fns)]
  /\ UNCHANGED <<fns, todo, pos, stk, ska, susp, started, ended, bad>>

(* the walk: one event per step *)
Cur == evs[pos + 1]
Cal == res.cal
Szs == res.sz
Step(ok, stk2, ska2, susp2, started2, ended2) ==
  /\ pos' = pos + 1
  /\ bad' = IF bad = 0 /\ ~ok THEN pos + 1 ELSE bad
  /\ stk' = stk2 /\ ska' = ska2 /\ susp' = susp2 /\ started' = started2 /\ ended' = ended2
  /\ phase' = IF pos + 1 = Len(evs) THEN "done" ELSE "walk"
  /\ UNCHANGED <<fns, todo, evs, res>>
Walking(k) == phase = "walk" /\ pos < Len(evs) /\ Cur.k = k

DoCall   == /\ Walking("call")
            /\ Step(CallOK(stk, Cur.f, Cal) /\ Cur.a \notin started,
                    Append(stk, Cur.f), Append(ska, Cur.a), susp, started \cup {Cur.a}, ended)
DoResume == /\ Walking("resume")
            /\ Step(CallOK(stk, Cur.f, Cal) /\ Cur.a \in susp,
                    Append(stk, Cur.f), Append(ska, Cur.a), susp \ {Cur.a}, started, ended)
DoThrow  == /\ Walking("throw")
            /\ Step(CallOK(stk, Cur.f, Cal) /\ Cur.a \in susp,
                    Append(stk, Cur.f), Append(ska, Cur.a), susp \ {Cur.a}, started, ended)
EndOK    == RetOK(stk, Cur.f) /\ Top(ska) = Cur.a /\ Cur.a \notin ended
DoReturn == /\ Walking("ret")
            /\ Step(EndOK, Pop(stk), Pop(ska), susp, started, ended \cup {Cur.a})
DoUnwind == /\ Walking("unw")
            /\ Step(EndOK, Pop(stk), Pop(ska), susp, started, ended \cup {Cur.a})
DoYield  == /\ Walking("yield")
            /\ Step(EndOK /\ fns[Cur.f].k = "gen", Pop(stk), Pop(ska), susp \cup {Cur.a}, started, ended)
RECURSIVE LineRunEnd(_), FirstBadLine(_, _)
LineRunEnd(i) == IF i < Len(evs) /\ evs[i + 1].k = "line" THEN LineRunEnd(i + 1) ELSE i
LineEvOK(e) == LineOK(stk, e.f, e.l, Szs) /\ Top(ska) = e.a /\ e.l >= 1
FirstBadLine(i, j) == IF i > j THEN 0 ELSE IF LineEvOK(evs[i]) THEN FirstBadLine(i + 1, j) ELSE i
\* a run of consecutive line events is consumed in one step (they do not change the stack)
DoLine   == /\ Walking("line")
            /\ LET j == LineRunEnd(pos + 1)
                   b == FirstBadLine(pos + 1, j)
               IN /\ pos' = j
                  /\ bad' = IF bad = 0 THEN b ELSE bad
                  /\ phase' = IF j = Len(evs) THEN "done" ELSE "walk"
                  /\ UNCHANGED <<fns, todo, evs, res, stk, ska, susp, started, ended>>

Next == AddRoot \/ AddDef \/ AddGen \/ RunProg \/ DoCall \/ DoResume \/ DoThrow \/ DoReturn \/ DoUnwind \/ DoYield \/ DoLine
Spec == Init /\ [][Next]_vars

---------------------------------------------------------------------------
(* the property, on the model *)
WellNested == bad = 0          \* every event so far met its precondition (nesting, call graph, own lines)
StackShape == /\ Len(stk) = Len(ska)
              /\ \A i \in 1..Len(ska) : ska[i] \in started \ ended /\ ska[i] \notin susp
              /\ \A i, j \in 1..Len(ska) : i # j => ska[i] # ska[j]
              /\ susp \subseteq started \ ended
Balanced == phase = "done" =>
              /\ stk = <<>> /\ susp = {}           \* nothing left open, no generator left suspended
              /\ started = ended                   \* one start and one final end event per activation
              /\ Len(evs) >= 2 /\ evs[1].k = "call" /\ evs[1].f = 1       \* the driver's call of the root
              /\ evs[Len(evs)].f = 1 /\ evs[Len(evs)].k \in {"ret", "unw"}
\* plain functions: exactly one start and one end event per activation (generators: they alternate)
OneStartOneEnd == phase = "done" =>
  \A a \in started :
     LET q == SelectSeq(evs, LAMBDA e : e.a = a /\ e.k # "line")
     IN /\ q[1].k = "call" /\ q[Len(q)].k \in {"ret", "unw"}
        /\ \A i \in 1..Len(q) : (i % 2 = 1) = IsStart(q[i])
        /\ (q[1].f \notin DOMAIN fns \/ fns[q[1].f].k # "gen") => Len(q) = 2
\* the root's outcome and its end event agree
Outcome == phase \in {"walk", "done"} =>
              (res.out = "ok") = (evs[Len(evs)].k = "ret")
Bounded == phase = "build" => Len(fns) + Len(todo) <= MaxFn /\ \A i \in 1..Len(fns) : fns[i].d <= MaxDepth

\* every complete program obeys the construction rules (also the ones read from IOEnv.PROGS)
WellFormed == (phase = "build" /\ todo = <<>> /\ fns # <<>>) =>
  /\ Len(fns) <= MaxFn
  /\ fns[1].k \in RootKinds
  /\ \A i \in 1..Len(fns) :
       LET b == BodyOf(fns, i)  u == Uses(b)  ch == fns[i].ch IN
       /\ fns[i].sk \in AllSkel /\ \A h \in 1..3 : fns[i].at[h] \in AllAtoms
       /\ Valid(b, fns[i].k = "gen")
       /\ (i > 1 /\ fns[i].k # "gen") => fns[i].k \in CalleeKinds
       /\ (ch[1] # 0) = ("d1" \in u) /\ (ch[2] # 0) = ("d2" \in u) /\ (ch[3] # 0) = ("g" \in u)
       /\ \A c \in 1..3 : ch[c] # 0 => /\ ch[c] > i /\ ch[c] <= Len(fns)
                                        /\ (fns[ch[c]].k = "gen") = (c = 3)
  /\ \A j \in 2..Len(fns) : Cardinality({<<i, c>> \in (1..Len(fns)) \X (1..3) : fns[i].ch[c] = j}) = 1

EvOut(e) == <<e.k, e.f, e.a, e.l, e.s>>
Publish == (Dump /\ phase = "done") =>
  PrintT("@@" \o ToJson([p |-> [i \in 1..Len(fns) |-> [k |-> fns[i].k, b |-> BodyOf(fns, i), ch |-> fns[i].ch,
                                                         n |-> Size(BodyOf(fns, i)), sk |-> fns[i].sk, at |-> fns[i].at]],
                          ev |-> [i \in 1..Len(evs) |-> EvOut(evs[i])],
                          out |-> res.out, hz |-> res.hz, iv |-> res.iv,
                          cal |-> Cal, sz |-> Szs]))
PublishSkip == (Dump /\ phase = "skip") => PrintT("@@" \o ToJson([skip |-> 1]))
=============================================================================
