----------------------------- MODULE BufGeom -----------------------------
(* C17, part G: dimension count, strides and suboffsets of the exporter     *)
(* against the declared axes of a typed memoryview / legacy buffer.         *)
(*                                                                          *)
(* An exporter view is <off, [n |-> extent, s |-> stride, ind |-> BOOLEAN]> *)
(* over a base of int elements (offsets and strides in elements; the item   *)
(* size is 4).  A declaration is a sequence of axis packings: "strided",    *)
(* "contig", "follow" (int[:, ::1] = <<follow, contig>>, C contiguous;      *)
(* int[::1, :] = <<contig, follow>>, Fortran contiguous), all axes direct.  *)
(*                                                                          *)
(*  Reference  : acquisition succeeds iff the numbers of dimensions agree,  *)
(*               no axis of a non-empty buffer is indirect, and a contiguous *)
(*               declaration meets a                                        *)
(*               contiguous buffer in the sense of PyBuffer_IsContiguous    *)
(*               (an empty buffer is contiguous, axes of extent 1 do not    *)
(*               count); then element [i, j, ..] is base[off + i*s1 + ...]. *)
(*  Impl-shaped: __Pyx_ValidateAndInit_memviewslice (MemoryView_C.c): ndim  *)
(*               test, per axis __pyx_check_strides and                     *)
(*               __pyx_check_suboffsets, then __pyx_verify_contig, all      *)
(*               skipped for buf->len = 0.                                  *)
(*                                                                          *)
(* Behaviours: Init picks a declaration and a C-contiguous exporter; a step *)
(* applies a view operation to the exporter (transpose, every second        *)
(* element, reverse, broadcast, padded rows, make an axis indirect).  Every *)
(* state is a case: expected verdict and, if accepted, the element ids.     *)
EXTENDS Integers, Sequences, FiniteSets, TLC, Json

CONSTANTS Shapes,    \* extents of the initial exporters
          Depth,     \* view operations per behaviour
          Dump

VARIABLES decl, view, nops, act
vars == <<decl, view, nops, act>>

ShapesQ == {<<1>>, <<2>>, <<3>>, <<0>>, <<1, 1>>, <<1, 2>>, <<2, 1>>, <<2, 2>>, <<2, 3>>, <<3, 2>>, <<0, 2>>, <<2, 0>>,
            <<2, 2, 2>>, <<1, 2, 3>>, <<2, 1, 2>>, <<3, 2, 1>>}
ShapesT == {<<a>> : a \in 0..4} \cup {<<a, b>> : a, b \in 0..3} \cup {<<a, b, c>> : a, b, c \in 1..3}
             \cup {<<0, 2, 2>>, <<2, 0, 2>>, <<2, 2, 0>>}

Decls == {<<"strided">>, <<"contig">>, <<"strided", "strided">>, <<"follow", "contig">>, <<"contig", "follow">>,
          <<"follow", "follow", "contig">>, <<"strided", "strided", "strided">>}

Abs(x) == IF x < 0 THEN -x ELSE x
RECURSIVE ProdN(_, _)
ProdN(d, k) == IF k > Len(d) THEN 1 ELSE d[k].n * ProdN(d, k + 1)
Size(d) == ProdN(d, 1)
CView(shape) == [off |-> 0, d |-> [k \in 1..Len(shape) |-> [n |-> shape[k], s |-> ProdN([j \in 1..Len(shape) |-> [n |-> shape[j]]], k + 1), ind |-> FALSE]]]

---------------------------------------------------------------------------
(* reference *)
RECURSIVE CCont(_, _, _)
CCont(d, k, sd) == IF k = 0 THEN TRUE ELSE IF d[k].n > 1 /\ d[k].s # sd THEN FALSE ELSE CCont(d, k - 1, sd * d[k].n)
RECURSIVE FCont(_, _, _)
FCont(d, k, sd) == IF k > Len(d) THEN TRUE ELSE IF d[k].n > 1 /\ d[k].s # sd THEN FALSE ELSE FCont(d, k + 1, sd * d[k].n)
IsC(d) == Size(d) = 0 \/ CCont(d, Len(d), 1)
IsF(d) == Size(d) = 0 \/ FCont(d, 1, 1)
DeclC(dc) == dc[Len(dc)] = "contig"
DeclF(dc) == Len(dc) > 1 /\ dc[1] = "contig"
\* (an empty buffer has no element whose address could depend on strides or suboffsets)
RefOK(dc, v) == /\ Len(dc) = Len(v.d)
                /\ Size(v.d) > 0 => \A k \in 1..Len(v.d) : ~v.d[k].ind
                /\ DeclC(dc) => IsC(v.d)
                /\ DeclF(dc) => IsF(v.d)

---------------------------------------------------------------------------
(* implementation-shaped: MemoryView_C.c *)
CheckStrides(dc, d, k) ==          \* __pyx_check_strides (buf->strides is never NULL: the request asks for strides)
  \/ d[k].n <= 1
  \/ /\ dc[k] = "contig" => d[k].s = 1
     /\ dc[k] = "follow" => Abs(d[k].s) >= 1
CheckSub(dc, d, k) == ~d[k].ind    \* __pyx_check_suboffsets: every declared axis is direct
RECURSIVE VC(_, _, _)
VC(d, k, st) == IF k = 0 THEN TRUE ELSE IF st # d[k].s /\ d[k].n > 1 THEN FALSE ELSE VC(d, k - 1, st * d[k].n)
RECURSIVE VF(_, _, _)
VF(d, k, st) == IF k > Len(d) THEN TRUE ELSE IF st # d[k].s /\ d[k].n > 1 THEN FALSE ELSE VF(d, k + 1, st * d[k].n)
ImplOK(dc, v) ==
  /\ Len(v.d) = Len(dc)
  /\ Size(v.d) > 0 =>
       /\ \A k \in 1..Len(dc) : CheckStrides(dc, v.d, k) /\ CheckSub(dc, v.d, k)
       /\ DeclF(dc) => VF(v.d, 1, 1)
       /\ (~DeclF(dc) /\ DeclC(dc)) => VC(v.d, Len(v.d), 1)

---------------------------------------------------------------------------
Init == /\ decl \in Decls
        /\ \E sh \in Shapes : view = CView(sh)
        /\ nops = 0 /\ act = "Init"

Swap(d, i, j) == [d EXCEPT ![i] = d[j], ![j] = d[i]]
Transpose == /\ nops < Depth /\ \E i, j \in 1..Len(view.d) : i < j /\ view' = [view EXCEPT !.d = Swap(@, i, j)]
             /\ nops' = nops + 1 /\ act' = "Transpose" /\ UNCHANGED decl
Second == /\ nops < Depth /\ \E k \in 1..Len(view.d) : view.d[k].n >= 2
                /\ view' = [view EXCEPT !.d[k].n = (@ + 1) \div 2, !.d[k].s = @ * 2]
          /\ nops' = nops + 1 /\ act' = "Second" /\ UNCHANGED decl
Reverse == /\ nops < Depth /\ \E k \in 1..Len(view.d) : view.d[k].n >= 1
                /\ view' = [view EXCEPT !.off = @ + (view.d[k].n - 1) * view.d[k].s, !.d[k].s = -@]
           /\ nops' = nops + 1 /\ act' = "Reverse" /\ UNCHANGED decl
Broadcast == /\ nops < Depth /\ \E k \in 1..Len(view.d) : view.d[k].s # 0
                /\ view' = [view EXCEPT !.d[k].s = 0]
             /\ nops' = nops + 1 /\ act' = "Broadcast" /\ UNCHANGED decl
PadRows == /\ nops < Depth /\ Len(view.d) >= 2
           /\ view' = [view EXCEPT !.d[1].s = IF @ >= 0 THEN @ + 1 ELSE @ - 1]
           /\ nops' = nops + 1 /\ act' = "PadRows" /\ UNCHANGED decl
Indirect == /\ nops < Depth /\ \E k \in 1..Len(view.d) : ~view.d[k].ind /\ view' = [view EXCEPT !.d[k].ind = TRUE]
            /\ nops' = nops + 1 /\ act' = "Indirect" /\ UNCHANGED decl
Next == Transpose \/ Second \/ Reverse \/ Broadcast \/ PadRows \/ Indirect
Spec == Init /\ [][Next]_vars

---------------------------------------------------------------------------
\* element ids in C order of the indices
RECURSIVE Elems(_, _, _)
Elems(d, k, base) == IF k > Len(d) THEN <<base>>
                     ELSE LET RECURSIVE row(_)
                              row(i) == IF i >= d[k].n THEN <<>> ELSE Elems(d, k + 1, base + i * d[k].s) \o row(i + 1)
                          IN row(0)
Els == Elems(view.d, 1, view.off)

ImplAgrees == ImplOK(decl, view) <=> RefOK(decl, view)
\* PadRows after Reverse may leave the base: the harness places the view in the middle of its bytes
InRange == \A k \in 1..Len(Els) : Els[k] >= -64 /\ Els[k] <= 128
Publish == Dump => PrintT("@@" \o ToJson([decl |-> decl, off |-> view.off, shape |-> [k \in 1..Len(view.d) |-> view.d[k].n],
                                           strides |-> [k \in 1..Len(view.d) |-> view.d[k].s],
                                           ind |-> [k \in 1..Len(view.d) |-> view.d[k].ind],
                                           ok |-> RefOK(decl, view), iok |-> ImplOK(decl, view), els |-> Els,
                                           c |-> IsC(view.d), f |-> IsF(view.d), nops |-> nops, act |-> act]))
=============================================================================
