----------------------------- MODULE CDivMod -----------------------------
(* C03: // and % on C integers.                                             *)
(*  Reference  : floor quotient / remainder with the divisor's sign         *)
(*               (declarative predicates IsFloorQ / IsPyRem), C truncation  *)
(*               when cdivision is on, ZeroDivisionError for b = 0.         *)
(*  Impl-shaped: __Pyx_div_T / __Pyx_mod_T of Utility/CMath.c including C   *)
(*               integer promotion and conversion back to T, and the call   *)
(*               site of ExprNodes.DivNode (zero test, MIN // -1 guard that *)
(*               exists only when sizeof(T) == sizeof(long)).               *)
(* A type is [w, s, rw, long]: operand width and signedness, width of the   *)
(* RESULT type (Cython follows C promotion: char and short operands give an *)
(* `int` result, signed), and whether the result type is long-sized.        *)
(* (w=8, rw=24) is the real `signed char` (TLC integers are 32-bit, so the  *)
(* promoted `int` is modelled 24 bits wide: any width >= 2w+1 behaves       *)
(* identically for w <= 16); (w=8, rw=8) is the scaled image of `int`       *)
(* (long=FALSE) and of `long` / `long long` / `Py_ssize_t` (long=TRUE).     *)
(* One state per (type, op, cdivision, a): the state carries the row of     *)
(* expected outcomes over all b of the type, published for replay (B1).     *)
EXTENDS Integers, Sequences, TLC, Json, FiniteSets

CONSTANTS Types, Dump, GridOnly

TChar   == {[w |-> 8, s |-> TRUE, rw |-> 24, long |-> FALSE], [w |-> 8, s |-> FALSE, rw |-> 24, long |-> FALSE]}
TShort  == {[w |-> 16, s |-> TRUE, rw |-> 24, long |-> FALSE], [w |-> 16, s |-> FALSE, rw |-> 24, long |-> FALSE]}
\* scaled images of int / long / their unsigned forms: no promotion above the value width
TScaled == {[w |-> 8, s |-> TRUE, rw |-> 8, long |-> FALSE], [w |-> 8, s |-> TRUE, rw |-> 8, long |-> TRUE],
            [w |-> 8, s |-> FALSE, rw |-> 8, long |-> FALSE]}

\* outcome codes (all values of the modelled types are below 10^5 in magnitude)
cZ == 100000  \* ZeroDivisionError
cU == 100001  \* no demand by the property
cO == 100002  \* OverflowError
cUB == 100003 \* C undefined behaviour reached

Pow2(n) == 2 ^ n
MinOf(t) == IF t.s THEN -Pow2(t.w - 1) ELSE 0
MaxOf(t) == IF t.s THEN Pow2(t.w - 1) - 1 ELSE Pow2(t.w) - 1
Range(t) == MinOf(t)..MaxOf(t)
\* the result type: signed whenever promotion happened
RSigned(t) == t.s \/ t.rw > t.w
RMin(t) == IF RSigned(t) THEN -Pow2(t.rw - 1) ELSE 0
RMax(t) == IF RSigned(t) THEN Pow2(t.rw - 1) - 1 ELSE Pow2(t.rw) - 1
Fits(t, v) == v >= RMin(t) /\ v <= RMax(t)
PFits(t, v) == Fits(t, v)
\* conversion to the result type (two's complement wrap, as gcc does)
Wrap(t, v) == LET m == Pow2(t.rw) r == ((v % m) + m) % m
              IN IF RSigned(t) /\ r >= Pow2(t.rw - 1) THEN r - m ELSE r

Abs(x) == IF x < 0 THEN -x ELSE x
Sgn(x) == IF x < 0 THEN -1 ELSE 1
TruncDiv(a, b) == Sgn(a) * Sgn(b) * (Abs(a) \div Abs(b))
TruncRem(a, b) == a - TruncDiv(a, b) * b

---------------------------------------------------------------------------
(* reference *)
FloorDiv(a, b) == LET q == TruncDiv(a, b) IN IF (a - q * b) # 0 /\ ((a < 0) # (b < 0)) THEN q - 1 ELSE q
PyMod(a, b) == a - FloorDiv(a, b) * b
IsFloorQ(q, a, b) == IF b > 0 THEN q * b <= a /\ a < (q + 1) * b ELSE q * b >= a /\ a > (q + 1) * b
IsPyRem(r, a, b) == /\ (Abs(a - r) % Abs(b)) = 0        \* a = q*b + r for some integer q
                    /\ IF b > 0 THEN 0 <= r /\ r < b ELSE b < r /\ r <= 0

\* what the property demands: a value, cZ (ZeroDivisionError) or cU (no demand:
\* the mathematical result does not fit T, or C division by zero under cdivision)
Demand(t, op, cdiv, a, b) ==
  IF b = 0 THEN (IF cdiv THEN cU ELSE cZ)
  ELSE IF cdiv /\ RSigned(t) /\ a = RMin(t) /\ b = -1 THEN cU   \* C semantics: MIN / -1 and MIN % -1 are undefined in C
  ELSE LET v == IF op = "div" THEN (IF cdiv THEN TruncDiv(a, b) ELSE FloorDiv(a, b))
                                ELSE (IF cdiv THEN TruncRem(a, b) ELSE PyMod(a, b))
       IN IF Fits(t, v) THEN v ELSE cU

---------------------------------------------------------------------------
(* implementation-shaped: outcome is a value, cZ, cO (OverflowError) or cUB *)
BitXorNeg(r, b) == (r < 0) # (b < 0)     \* ((r ^ b) < 0) on two's complement values

DivHelper(t, a, b, bconst) ==   \* __Pyx_div_T
  IF RSigned(t) /\ a = RMin(t) /\ b = -1 THEN cUB      \* a / b overflows
  ELSE LET q  == Wrap(t, TruncDiv(a, b))
           p  == q * b
       IN IF ~PFits(t, p) \/ ~PFits(t, a - p) THEN cUB
          ELSE LET r == Wrap(t, a - p)
                   adapt == IF r # 0 /\ (IF bconst THEN (r < 0) # (b < 0) ELSE BitXorNeg(r, b)) THEN 1 ELSE 0
               IN Wrap(t, q - adapt)

ModHelper(t, a, b, bconst) ==   \* __Pyx_mod_T
  IF RSigned(t) /\ b = -1 THEN 0       \* since the C03 fix: `b == -1 ? 0 : a % b` (MIN % -1 would overflow in C)
  ELSE LET r == Wrap(t, TruncRem(a, b))
           adapt == IF r # 0 /\ (IF bconst THEN (r < 0) # (b < 0) ELSE BitXorNeg(r, b)) THEN 1 ELSE 0
       IN IF ~PFits(t, r + adapt * b) THEN cUB ELSE Wrap(t, r + adapt * b)

CDiv(t, a, b) == IF RSigned(t) /\ a = RMin(t) /\ b = -1 THEN cUB ELSE Wrap(t, TruncDiv(a, b))
CRem(t, a, b) == IF RSigned(t) /\ a = RMin(t) /\ b = -1 THEN cUB ELSE Wrap(t, TruncRem(a, b))

\* DivNode/ModNode call site.  Unsigned types always use plain C division.
Impl(t, op, cdiv, a, b, bconst) ==
  LET usec == cdiv \/ ~RSigned(t) IN
  IF b = 0 THEN (IF cdiv THEN cUB ELSE cZ)
  ELSE IF ~cdiv /\ RSigned(t) /\ op = "div" /\ b = -1 /\ a = RMin(t) THEN cO   \* guard for every signed width (since the C04 fix)
  ELSE IF op = "div" THEN (IF usec THEN CDiv(t, a, b) ELSE DivHelper(t, a, b, bconst))
  ELSE (IF usec THEN CRem(t, a, b) ELSE ModHelper(t, a, b, bconst))

---------------------------------------------------------------------------
VARIABLES ty, op, cdiv, a, row
vars == <<ty, op, cdiv, a, row>>

Grid(t) == {v \in {MinOf(t), MinOf(t) + 1, MinOf(t) + 2, -7, -3, -2, -1, 0, 1, 2, 3, 7,
                     MaxOf(t) - 2, MaxOf(t) - 1, MaxOf(t), MaxOf(t) \div 2, MaxOf(t) \div 2 + 1} : v \in Range(t)}
Dom(t) == IF GridOnly THEN Grid(t) ELSE Range(t)

Init == /\ ty \in Types /\ op \in {"div", "mod"} /\ cdiv \in BOOLEAN
        /\ a \in Dom(ty)
        /\ row = [b \in Dom(ty) |-> Demand(ty, op, cdiv, a, b)]
Next == UNCHANGED vars
Spec == Init /\ [][Next]_vars

Bs == Dom(ty)

(* the reference operators satisfy their declarative definitions *)
RefSound == \A b \in Bs \ {0} : /\ IsFloorQ(FloorDiv(a, b), a, b)
                                /\ IsPyRem(PyMod(a, b), a, b)

(* wherever the property demands a value, the implementation-shaped code      *)
(* delivers it (constant and non-constant divisor variants) ...               *)
ImplAgrees == \A b \in Bs : \A bc \in BOOLEAN :
                 LET d == Demand(ty, op, cdiv, a, b) IN
                 d # cU => Impl(ty, op, cdiv, a, b, bc) = d
(* ... and undefined behaviour is reachable only where b = 0 under cdivision  *)
NoUB == \A b \in Bs : \A bc \in BOOLEAN : (b # 0 \/ ~cdiv) => Impl(ty, op, cdiv, a, b, bc) # cUB

(* where the model reaches UB although the property demands a value (or an   *)
(* exception): published so that the binding runs exactly these on real code *)
Hazards == {b \in Bs : \E bc \in BOOLEAN : Impl(ty, op, cdiv, a, b, bc) = cUB /\ (b # 0 \/ ~cdiv)}
ImplAgreesOffHazards == \A b \in Bs \ Hazards : \A bc \in BOOLEAN :
                 LET d == Demand(ty, op, cdiv, a, b) IN d # cU => Impl(ty, op, cdiv, a, b, bc) = d
PublishHazards == Hazards # {} => PrintT("@@" \o ToJson([hazard |-> TRUE, w |-> ty.w, s |-> ty.s, long |-> ty.long, op |-> op,
                                                          cdiv |-> cdiv, a |-> a, bs |-> Hazards,
                                                          demand |-> [b \in Hazards |-> Demand(ty, op, cdiv, a, b)]]))

Publish == Dump => PrintT("@@" \o ToJson([w |-> ty.w, s |-> ty.s, op |-> op, cdiv |-> cdiv, a |-> a, row |-> row]))
=============================================================================
