SPECIFICATION Spec
CONSTANTS
  Mode = "model"
  AtomSet <- MidAtoms
  PairAtoms <- NoAtoms
  InnerAtoms <- ZeroOne
  PairOuter = FALSE
  Dump = TRUE
INVARIANT KeyImpliesPyEq
INVARIANT SharedImpliesObsEq
INVARIANT PoolSound
INVARIANT HitReturnsFirst
INVARIANT SameTextShared
INVARIANT NearMissesNotShared
INVARIANT TaggingLemma
INVARIANT ObsRefinesEq
INVARIANT ObsIdempotent
INVARIANT PublishConst
INVARIANT PublishPair
CHECK_DEADLOCK FALSE
