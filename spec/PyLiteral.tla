----------------------------- MODULE PyLiteral -----------------------------
(* C10: str / bytes / char literals keep exactly the value CPython assigns.   *)
(*                                                                            *)
(* Reference semantics (Python language reference 2.4.1, "String and Bytes   *)
(* literals"): a scanner STATE MACHINE over the code points of the literal    *)
(* body.  One transition per lexical token, one named action per token class  *)
(* (plain character, simple escape, line continuation, octal, \xhh, \uXXXX,   *)
(* \UXXXXXXXX, \N{name}, unrecognised escape, the rejections).  A behaviour   *)
(* BUILDS a case -- 1-2 adjacent literals (implicit concatenation), each a    *)
(* prefix, a quote kind and <= 3 ATOMS of the table below -- and then scans   *)
(* it.  Terminal states carry the demanded value (`out`) or the rejection and *)
(* are published for replay on the real compiler and on compiled code (B1).   *)
(* A family of long literals x^k unit^n (C-literal split limit 2000, 64 KiB)  *)
(* is scanned through the representative x^k unit^3 (invariant Periodic).     *)
(*                                                                            *)
(* Independent second statement of the semantics: the hand-declared per-atom  *)
(* values `sv` (str) / `bv` (bytes) of the table.  Invariant Compositional:   *)
(* whenever no atom boundary FUSES (an octal escape continued by a digit,     *)
(* a truncated \x \u \U completed by a hex digit, CR followed by LF), the     *)
(* scanner's value is the concatenation of the declared atom values.          *)
(* Deadlock freedom = the lexical rules are total on well-formed bodies.      *)
(*                                                                            *)
(* Implementation-shaped transcription (operators Cy...): the longest match   *)
(* of Lexicon.escapeseq + Parsing._append_escape_sequence + the three literal *)
(* builders of StringEncoding.py.  Its prediction per case ("same" / "crash"  *)
(* / "reject" / "value") is published; the harness compares it with the real  *)
(* compiler (fidelity is reported, it is never a verdict).  CyAgrees (not in  *)
(* the shipped configurations) fails exactly on the predicted defects.        *)
(* All text is sequences of code points (TLC has no character operations).    *)
EXTENDS Integers, Sequences, FiniteSets, TLC, Json

CONSTANTS Family,              \* label of the configuration (published with every case)
          Prefixes, Quotes,    \* prefixes / quote kinds (1 ' 2 " 3 ''' 4 """) of the first literal
          Alphabet,            \* "all" | "core" | "mini": which atoms may be appended
          MaxAtoms,            \* atoms per literal
          MaxParts,            \* adjacent literals (implicit concatenation)
          Prefixes2, Quotes2,  \* prefixes / quote kinds of the second literal
          LongReps, BigReps,   \* family "long": repetition counts (BigReps: only for the 1- and 2-byte units)
          Dump                 \* publish terminal states

BS == 92   SQ == 39   DQ == 34   LF == 10   CR == 13
REJ == <<-1>>          \* "rejected" (no value contains -1)

A(id, cls, src, sv, bv) == [id |-> id, cls |-> cls, src |-> src, sv |-> sv, bv |-> bv]

(* id, class, source text, value in a str literal, value in a bytes literal  *)
(* (non-raw).  REJ: a literal containing the atom is not accepted.            *)
AtomList == <<
  A("pa", "p_ascii", <<97>>, <<97>>, <<97>>),   \* 1: a
  A("p7", "p_digit", <<55>>, <<55>>, <<55>>),   \* 2: 7
  A("p0", "p_digit", <<48>>, <<48>>, <<48>>),   \* 3: 0
  A("p9", "p_digit", <<57>>, <<57>>, <<57>>),   \* 4: 9
  A("pf", "p_hexl", <<102>>, <<102>>, <<102>>),   \* 5: f
  A("pqm", "p_ascii", <<63>>, <<63>>, <<63>>),   \* 6: ?
  A("psp", "p_ascii", <<32>>, <<32>>, <<32>>),   \* 7:  
  A("ptab", "p_ctl", <<9>>, <<9>>, <<9>>),   \* 8: <TAB>
  A("pbrace", "p_ascii", <<123>>, <<123>>, <<123>>),   \* 9: {
  A("p01", "p_ctl", <<1>>, <<1>>, <<1>>),   \* 10: <U+0001>
  A("p0c", "p_ctl", <<12>>, <<12>>, <<12>>),   \* 11: <U+000C>
  A("p1b", "p_ctl", <<27>>, <<27>>, <<27>>),   \* 12: <U+001B>
  A("p7f", "p_ctl", <<127>>, <<127>>, <<127>>),   \* 13: <U+007F>
  A("psq", "p_quote", <<39>>, <<39>>, <<39>>),   \* 14: '
  A("pdq", "p_quote", <<34>>, <<34>>, <<34>>),   \* 15: "
  A("nl", "p_nl", <<10>>, <<10>>, <<10>>),   \* 16: <LF>
  A("crlf", "p_nl", <<13, 10>>, <<10>>, <<10>>),   \* 17: <CR><LF>
  A("cr", "p_nl", <<13>>, <<10>>, <<10>>),   \* 18: <CR>
  A("p80", "p_latin1", <<128>>, <<128>>, REJ),   \* 19: <U+0080>
  A("p85", "p_latin1", <<133>>, <<133>>, REJ),   \* 20: <U+0085>
  A("pe9", "p_latin1", <<233>>, <<233>>, REJ),   \* 21: <U+00E9>
  A("pff", "p_latin1", <<255>>, <<255>>, REJ),   \* 22: <U+00FF>
  A("p100", "p_bmp", <<256>>, <<256>>, REJ),   \* 23: <U+0100>
  A("p7ff", "p_bmp", <<2047>>, <<2047>>, REJ),   \* 24: <U+07FF>
  A("p800", "p_bmp", <<2048>>, <<2048>>, REJ),   \* 25: <U+0800>
  A("p2028", "p_bmp", <<8232>>, <<8232>>, REJ),   \* 26: <U+2028>
  A("p20ac", "p_bmp", <<8364>>, <<8364>>, REJ),   \* 27: <U+20AC>
  A("pd7ff", "p_bmp", <<55295>>, <<55295>>, REJ),   \* 28: <U+D7FF>
  A("pe000", "p_bmp", <<57344>>, <<57344>>, REJ),   \* 29: <U+E000>
  A("pffff", "p_bmp", <<65535>>, <<65535>>, REJ),   \* 30: <U+FFFF>
  A("p10000", "p_astral", <<65536>>, <<65536>>, REJ),   \* 31: <U+10000>
  A("p1f600", "p_astral", <<128512>>, <<128512>>, REJ),   \* 32: <U+1F600>
  A("p10ffff", "p_astral", <<1114111>>, <<1114111>>, REJ),   \* 33: <U+10FFFF>
  A("e_bs", "e_simple", <<92, 92>>, <<92>>, <<92>>),   \* 34: \\
  A("e_sq", "e_simple", <<92, 39>>, <<39>>, <<39>>),   \* 35: \'
  A("e_dq", "e_simple", <<92, 34>>, <<34>>, <<34>>),   \* 36: \"
  A("e_a", "e_simple", <<92, 97>>, <<7>>, <<7>>),   \* 37: \a
  A("e_b", "e_simple", <<92, 98>>, <<8>>, <<8>>),   \* 38: \b
  A("e_f", "e_simple", <<92, 102>>, <<12>>, <<12>>),   \* 39: \f
  A("e_n", "e_simple", <<92, 110>>, <<10>>, <<10>>),   \* 40: \n
  A("e_r", "e_simple", <<92, 114>>, <<13>>, <<13>>),   \* 41: \r
  A("e_t", "e_simple", <<92, 116>>, <<9>>, <<9>>),   \* 42: \t
  A("e_v", "e_simple", <<92, 118>>, <<11>>, <<11>>),   \* 43: \v
  A("o0", "e_oct", <<92, 48>>, <<0>>, <<0>>),   \* 44: \0
  A("o1", "e_oct", <<92, 49>>, <<1>>, <<1>>),   \* 45: \1
  A("o7", "e_oct", <<92, 55>>, <<7>>, <<7>>),   \* 46: \7
  A("o12", "e_oct", <<92, 49, 50>>, <<10>>, <<10>>),   \* 47: \12
  A("o40", "e_oct", <<92, 52, 48>>, <<32>>, <<32>>),   \* 48: \40
  A("o77", "e_oct", <<92, 55, 55>>, <<63>>, <<63>>),   \* 49: \77
  A("o000", "e_oct", <<92, 48, 48, 48>>, <<0>>, <<0>>),   \* 50: \000
  A("o012", "e_oct", <<92, 48, 49, 50>>, <<10>>, <<10>>),   \* 51: \012
  A("o101", "e_oct", <<92, 49, 48, 49>>, <<65>>, <<65>>),   \* 52: \101
  A("o377", "e_oct", <<92, 51, 55, 55>>, <<255>>, <<255>>),   \* 53: \377
  A("o400", "e_oct", <<92, 52, 48, 48>>, <<256>>, <<0>>),   \* 54: \400
  A("o777", "e_oct", <<92, 55, 55, 55>>, <<511>>, <<255>>),   \* 55: \777
  A("x00", "e_hex", <<92, 120, 48, 48>>, <<0>>, <<0>>),   \* 56: \x00
  A("x41", "e_hex", <<92, 120, 52, 49>>, <<65>>, <<65>>),   \* 57: \x41
  A("x7f", "e_hex", <<92, 120, 55, 102>>, <<127>>, <<127>>),   \* 58: \x7f
  A("x80", "e_hex", <<92, 120, 56, 48>>, <<128>>, <<128>>),   \* 59: \x80
  A("xe9", "e_hex", <<92, 120, 101, 57>>, <<233>>, <<233>>),   \* 60: \xe9
  A("xFF", "e_hex", <<92, 120, 70, 70>>, <<255>>, <<255>>),   \* 61: \xFF
  A("xbad0", "e_hexbad", <<92, 120>>, REJ, REJ),   \* 62: \x
  A("xbad1", "e_hexbad", <<92, 120, 52>>, REJ, REJ),   \* 63: \x4
  A("u0000", "e_u", <<92, 117, 48, 48, 48, 48>>, <<0>>, <<92, 117, 48, 48, 48, 48>>),   \* 64: \u0000
  A("u0041", "e_u", <<92, 117, 48, 48, 52, 49>>, <<65>>, <<92, 117, 48, 48, 52, 49>>),   \* 65: \u0041
  A("u00e9", "e_u", <<92, 117, 48, 48, 101, 57>>, <<233>>, <<92, 117, 48, 48, 101, 57>>),   \* 66: \u00e9
  A("u20AC", "e_u", <<92, 117, 50, 48, 65, 67>>, <<8364>>, <<92, 117, 50, 48, 65, 67>>),   \* 67: \u20AC
  A("ud800", "e_u", <<92, 117, 100, 56, 48, 48>>, <<55296>>, <<92, 117, 100, 56, 48, 48>>),   \* 68: \ud800
  A("udfff", "e_u", <<92, 117, 100, 102, 102, 102>>, <<57343>>, <<92, 117, 100, 102, 102, 102>>),   \* 69: \udfff
  A("ud83d", "e_u", <<92, 117, 100, 56, 51, 100>>, <<55357>>, <<92, 117, 100, 56, 51, 100>>),   \* 70: \ud83d
  A("ude00", "e_u", <<92, 117, 100, 101, 48, 48>>, <<56832>>, <<92, 117, 100, 101, 48, 48>>),   \* 71: \ude00
  A("uffff", "e_u", <<92, 117, 102, 102, 102, 102>>, <<65535>>, <<92, 117, 102, 102, 102, 102>>),   \* 72: \uffff
  A("ubad0", "e_ubad", <<92, 117>>, REJ, <<92, 117>>),   \* 73: \u
  A("ubad2", "e_ubad", <<92, 117, 49, 50>>, REJ, <<92, 117, 49, 50>>),   \* 74: \u12
  A("ubad3", "e_ubad", <<92, 117, 49, 50, 51>>, REJ, <<92, 117, 49, 50, 51>>),   \* 75: \u123
  A("U00000041", "e_U", <<92, 85, 48, 48, 48, 48, 48, 48, 52, 49>>, <<65>>, <<92, 85, 48, 48, 48, 48, 48, 48, 52, 49>>),   \* 76: \U00000041
  A("U0001f600", "e_U", <<92, 85, 48, 48, 48, 49, 102, 54, 48, 48>>, <<128512>>, <<92, 85, 48, 48, 48, 49, 102, 54, 48, 48>>),   \* 77: \U0001f600
  A("U0010ffff", "e_U", <<92, 85, 48, 48, 49, 48, 102, 102, 102, 102>>, <<1114111>>, <<92, 85, 48, 48, 49, 48, 102, 102, 102, 102>>),   \* 78: \U0010ffff
  A("U0000d800", "e_U", <<92, 85, 48, 48, 48, 48, 100, 56, 48, 48>>, <<55296>>, <<92, 85, 48, 48, 48, 48, 100, 56, 48, 48>>),   \* 79: \U0000d800
  A("Ubad_range", "e_Ubad", <<92, 85, 48, 48, 49, 49, 48, 48, 48, 48>>, REJ, <<92, 85, 48, 48, 49, 49, 48, 48, 48, 48>>),   \* 80: \U00110000
  A("Ubad_big", "e_Ubad", <<92, 85, 70, 70, 70, 70, 70, 70, 70, 70>>, REJ, <<92, 85, 70, 70, 70, 70, 70, 70, 70, 70>>),   \* 81: \UFFFFFFFF
  A("Ubad_7", "e_Ubad", <<92, 85, 48, 48, 48, 49, 102, 54, 48>>, REJ, <<92, 85, 48, 48, 48, 49, 102, 54, 48>>),   \* 82: \U0001f60
  A("Ubad_0", "e_Ubad", <<92, 85>>, REJ, <<92, 85>>),   \* 83: \U
  A("N_a", "e_N", <<92, 78, 123, 76, 65, 84, 73, 78, 32, 83, 77, 65, 76, 76, 32, 76, 69, 84, 84, 69, 82, 32, 65, 125>>, <<97>>, <<92, 78, 123, 76, 65, 84, 73, 78, 32, 83, 77, 65, 76, 76, 32, 76, 69, 84, 84, 69, 82, 32, 65, 125>>),   \* 84: \N{LATIN SMALL LETTER A}
  A("N_euro", "e_N", <<92, 78, 123, 69, 85, 82, 79, 32, 83, 73, 71, 78, 125>>, <<8364>>, <<92, 78, 123, 69, 85, 82, 79, 32, 83, 73, 71, 78, 125>>),   \* 85: \N{EURO SIGN}
  A("N_grin", "e_N", <<92, 78, 123, 71, 82, 73, 78, 78, 73, 78, 71, 32, 70, 65, 67, 69, 125>>, <<128512>>, <<92, 78, 123, 71, 82, 73, 78, 78, 73, 78, 71, 32, 70, 65, 67, 69, 125>>),   \* 86: \N{GRINNING FACE}
  A("N_lower", "e_N", <<92, 78, 123, 101, 117, 114, 111, 32, 115, 105, 103, 110, 125>>, <<8364>>, <<92, 78, 123, 101, 117, 114, 111, 32, 115, 105, 103, 110, 125>>),   \* 87: \N{euro sign}
  A("N_hyphen", "e_N", <<92, 78, 123, 72, 89, 80, 72, 69, 78, 45, 77, 73, 78, 85, 83, 125>>, <<45>>, <<92, 78, 123, 72, 89, 80, 72, 69, 78, 45, 77, 73, 78, 85, 83, 125>>),   \* 88: \N{HYPHEN-MINUS}
  A("N_nul", "e_N", <<92, 78, 123, 78, 85, 76, 76, 125>>, <<0>>, <<92, 78, 123, 78, 85, 76, 76, 125>>),   \* 89: \N{NULL}
  A("N_digit", "e_N", <<92, 78, 123, 86, 65, 82, 73, 65, 84, 73, 79, 78, 32, 83, 69, 76, 69, 67, 84, 79, 82, 45, 49, 55, 125>>, <<917760>>, <<92, 78, 123, 86, 65, 82, 73, 65, 84, 73, 79, 78, 32, 83, 69, 76, 69, 67, 84, 79, 82, 45, 49, 55, 125>>),   \* 90: \N{VARIATION SELECTOR-17}
  A("N_cjk", "e_N", <<92, 78, 123, 67, 74, 75, 32, 85, 78, 73, 70, 73, 69, 68, 32, 73, 68, 69, 79, 71, 82, 65, 80, 72, 45, 52, 69, 48, 48, 125>>, <<19968>>, <<92, 78, 123, 67, 74, 75, 32, 85, 78, 73, 70, 73, 69, 68, 32, 73, 68, 69, 79, 71, 82, 65, 80, 72, 45, 52, 69, 48, 48, 125>>),   \* 91: \N{CJK UNIFIED IDEOGRAPH-4E00}
  A("Nbad_name", "e_Nbad", <<92, 78, 123, 78, 79, 80, 69, 125>>, REJ, <<92, 78, 123, 78, 79, 80, 69, 125>>),   \* 92: \N{NOPE}
  A("Nbad_bare", "e_Nbad", <<92, 78>>, REJ, <<92, 78>>),   \* 93: \N
  A("Nbad_empty", "e_Nbad", <<92, 78, 123, 125>>, REJ, <<92, 78, 123, 125>>),   \* 94: \N{}
  A("c_lf", "e_cont", <<92, 10>>, <<>>, <<>>),   \* 95: \<LF>
  A("c_crlf", "e_cont", <<92, 13, 10>>, <<>>, <<>>),   \* 96: \<CR><LF>
  A("k_q", "e_unk", <<92, 113>>, <<92, 113>>, <<92, 113>>),   \* 97: \q
  A("k_8", "e_unk", <<92, 56>>, <<92, 56>>, <<92, 56>>),   \* 98: \8
  A("k_sp", "e_unk", <<92, 32>>, <<92, 32>>, <<92, 32>>),   \* 99: \ 
  A("k_qm", "e_unk", <<92, 63>>, <<92, 63>>, <<92, 63>>),   \* 100: \?
  A("k_e", "e_unk", <<92, 101>>, <<92, 101>>, <<92, 101>>),   \* 101: \e
  A("k_e9", "e_unk", <<92, 233>>, <<92, 233>>, REJ)    \* 102: \<U+00E9>
>>
Core == {1, 2, 3, 5, 10, 14, 15, 16, 17, 21, 26, 27, 32, 34, 35, 40, 44, 46, 48, 49, 52, 53, 54, 57, 60, 63, 66, 70, 71, 74, 77, 80, 85, 90, 92, 95, 97, 98, 102}
Mini == {1, 2, 15, 16, 21, 34, 44, 48, 63, 70, 71, 95}
NameTable == {
  [n |-> <<76, 65, 84, 73, 78, 32, 83, 77, 65, 76, 76, 32, 76, 69, 84, 84, 69, 82, 32, 65>>, cp |-> 97],  \* LATIN SMALL LETTER A
  [n |-> <<69, 85, 82, 79, 32, 83, 73, 71, 78>>, cp |-> 8364],  \* EURO SIGN
  [n |-> <<71, 82, 73, 78, 78, 73, 78, 71, 32, 70, 65, 67, 69>>, cp |-> 128512],  \* GRINNING FACE
  [n |-> <<101, 117, 114, 111, 32, 115, 105, 103, 110>>, cp |-> 8364],  \* euro sign
  [n |-> <<72, 89, 80, 72, 69, 78, 45, 77, 73, 78, 85, 83>>, cp |-> 45],  \* HYPHEN-MINUS
  [n |-> <<78, 85, 76, 76>>, cp |-> 0],  \* NULL
  [n |-> <<86, 65, 82, 73, 65, 84, 73, 79, 78, 32, 83, 69, 76, 69, 67, 84, 79, 82, 45, 49, 55>>, cp |-> 917760],  \* VARIATION SELECTOR-17
  [n |-> <<67, 74, 75, 32, 85, 78, 73, 70, 73, 69, 68, 32, 73, 68, 69, 79, 71, 82, 65, 80, 72, 45, 52, 69, 48, 48>>, cp |-> 19968]   \* CJK UNIFIED IDEOGRAPH-4E00
}
NAtoms == Len(AtomList)
All == 1..NAtoms

(* prefixes valid in Python 3.12 (any case, any order) + Cython's char literal prefix c *)
Pfx(p, src, raw, k) == [p |-> p, src |-> src, raw |-> raw, k |-> k,
                        cls |-> IF k = "char" THEN "c" ELSE IF k = "bytes" THEN (IF raw THEN "rb" ELSE "b")
                                ELSE IF raw THEN "r" ELSE IF p = "" THEN "plain" ELSE "u"]   \* semantic class
PfxTable == {
  Pfx("", <<>>, FALSE, "str"), Pfx("u", <<117>>, FALSE, "str"), Pfx("U", <<85>>, FALSE, "str"),
  Pfx("r", <<114>>, TRUE, "str"), Pfx("R", <<82>>, TRUE, "str"),
  Pfx("b", <<98>>, FALSE, "bytes"), Pfx("B", <<66>>, FALSE, "bytes"),
  Pfx("rb", <<114, 98>>, TRUE, "bytes"), Pfx("br", <<98, 114>>, TRUE, "bytes"),
  Pfx("Rb", <<82, 98>>, TRUE, "bytes"), Pfx("bR", <<98, 82>>, TRUE, "bytes"),
  Pfx("rB", <<114, 66>>, TRUE, "bytes"), Pfx("Br", <<66, 114>>, TRUE, "bytes"),
  Pfx("RB", <<82, 66>>, TRUE, "bytes"), Pfx("BR", <<66, 82>>, TRUE, "bytes"),
  Pfx("c", <<99>>, FALSE, "char") }
PfxNames == {r.p : r \in PfxTable}
PfxFn == [p \in PfxNames |-> CHOOSE r \in PfxTable : r.p = p]
PfxOf(p) == PfxFn[p]
PfxCls == {"", "u", "r", "b", "rb"}                   \* one per semantic class
PfxVar == PfxNames \ (PfxCls \cup {"c"}) \* the spelling variants

QuoteChar(q) == IF q \in {1, 3} THEN SQ ELSE DQ
QuoteSrc(q) == IF q = 1 THEN <<SQ>> ELSE IF q = 2 THEN <<DQ>> ELSE IF q = 3 THEN <<SQ, SQ, SQ>> ELSE <<DQ, DQ, DQ>>
Triple(q) == q \in {3, 4}

RECURSIVE Flat(_)
Flat(ss) == IF ss = <<>> THEN <<>> ELSE Head(ss) \o Flat(Tail(ss))
BodySrc(part) == Flat([k \in 1..Len(part.a) |-> AtomList[part.a[k]].src])
PartSrc(part) == PfxOf(part.p).src \o QuoteSrc(part.q) \o BodySrc(part) \o QuoteSrc(part.q)
RECURSIVE JoinSp(_)
JoinSp(ss) == IF Len(ss) = 1 THEN Head(ss) ELSE Head(ss) \o <<32>> \o JoinSp(Tail(ss))
LitSrc(l) == JoinSp([k \in 1..Len(l.parts) |-> PartSrc(l.parts[k])])

(* source-level universal newlines: CR LF and CR read as LF *)
RECURSIVE NL(_)
NL(b) == IF b = <<>> THEN <<>>
         ELSE IF b[1] = CR THEN <<LF>> \o NL(IF Len(b) >= 2 /\ b[2] = LF THEN SubSeq(b, 3, Len(b)) ELSE Tail(b))
         ELSE <<b[1]>> \o NL(Tail(b))

(* which texts are literals at all: the body must not close the quotes early *)
WellFormed(part) ==
  \A k \in 1..Len(part.a) :
    LET at == AtomList[part.a[k]] IN
    /\ at.cls = "p_nl" => Triple(part.q)
    /\ (at.cls = "p_quote" /\ at.src[1] = QuoteChar(part.q)) =>
         /\ Triple(part.q) /\ k < Len(part.a)
         /\ AtomList[part.a[k + 1]].src[1] # QuoteChar(part.q)

KindOfLit(l) == LET ks == {PfxOf(l.parts[k].p).k : k \in 1..Len(l.parts)} IN
                IF Cardinality(ks) = 1 THEN CHOOSE x \in ks : TRUE ELSE "mixed"

---------------------------------------------------------------------------
(* character classes and numerals *)
At(b, j) == IF j >= 1 /\ j <= Len(b) THEN b[j] ELSE -1
IsOct(c) == c >= 48 /\ c <= 55
IsDigit(c) == c >= 48 /\ c <= 57
IsHex(c) == IsDigit(c) \/ (c >= 65 /\ c <= 70) \/ (c >= 97 /\ c <= 102)
Dig(c) == IF c <= 57 THEN c - 48 ELSE IF c <= 70 THEN c - 55 ELSE c - 87
OctRun(b, j) == IF ~IsOct(At(b, j)) THEN 0 ELSE IF ~IsOct(At(b, j + 1)) THEN 1 ELSE IF ~IsOct(At(b, j + 2)) THEN 2 ELSE 3
RECURSIVE HexRun(_, _, _)
HexRun(b, j, m) == IF m = 0 \/ ~IsHex(At(b, j)) THEN 0 ELSE 1 + HexRun(b, j + 1, m - 1)
RECURSIVE Num(_, _, _, _)     \* numeral of n digits starting at b[j]
Num(b, j, n, base) == IF n = 0 THEN 0 ELSE Num(b, j, n - 1, base) * base + Dig(b[j + n - 1])
\* \UXXXXXXXX: 8 hex digits do not fit TLC's 32-bit integers; the two leading digits must be 0
BigUOk(b, j) == HexRun(b, j, 8) = 8 /\ Num(b, j, 2, 16) = 0 /\ Num(b, j + 2, 6, 16) <= 1114111
RECURSIVE Find(_, _, _)       \* first position >= j holding c, 0 if none
Find(b, j, c) == IF j > Len(b) THEN 0 ELSE IF b[j] = c THEN j ELSE Find(b, j + 1, c)
SimpleMap == (92 :> 92) @@ (39 :> 39) @@ (34 :> 34) @@ (97 :> 7) @@ (98 :> 8) @@ (102 :> 12) @@
             (110 :> 10) @@ (114 :> 13) @@ (116 :> 9) @@ (118 :> 11)
Known(name) == \E r \in NameTable : r.n = name
NameCp(name) == (CHOOSE r \in NameTable : r.n = name).cp
HasDigit(s) == \E k \in 1..Len(s) : IsDigit(s[k])

---------------------------------------------------------------------------
(* the case space: literals are BUILT by actions (atoms appended one by one, *)
(* a second adjacent literal opened), then scanned                            *)
Alpha == IF Alphabet = "all" THEN All ELSE IF Alphabet = "core" THEN Core ELSE Mini

---------------------------------------------------------------------------
(* the scanner *)
VARIABLES lit,    \* the case
          pi,     \* index of the literal being scanned
          body,   \* its body after newline normalisation
          i,      \* position in body
          out,    \* value produced so far
          feats,  \* token-level facts used by the binding's case descriptor
          st,     \* "build" | "void" (not a literal) | "scan" | "done" | "rej"
          knd,    \* "str" | "bytes" | "char" | "mixed"  (function of lit)
          rw,     \* is the literal being scanned a raw literal (function of lit, pi)
          rep     \* long family: [k, u, n] -- the literal stands for pad^k unit^n (n = 0 otherwise), see LongInit
vars == <<lit, pi, body, i, out, feats, st, knd, rw, rep>>

Kind == knd
IsBytes == knd \in {"bytes", "char"}
Raw == rw
C == body[i]
D == At(body, i + 1)

NParts == Len(lit.parts)
LastPart == lit.parts[NParts]
(* long literals (lengths around the C-literal split limit of 2000 and the 64 KiB array switch):   *)
(* x^k unit^n for a unit of 1-2 atoms.  The scanner looks at one token at a time, so the machine   *)
(* scans the representative x^k unit^3; invariant Periodic shows its value is padval^k unitval^3,  *)
(* the demanded value of the long literal is padval^k unitval^n (run-length form, expanded by the  *)
(* binding and cross-checked there against CPython on the full text).                              *)
Idx(id) == CHOOSE k \in All : AtomList[k].id = id
PadAtom == Idx("p7")         \* a digit: continues an octal / hex escape if anything could
LongUnits == {<<Idx("pa")>>, <<Idx("e_bs")>>, <<Idx("e_dq")>>, <<Idx("e_sq")>>, <<Idx("pqm")>>, <<Idx("e_n")>>, <<Idx("x00")>>,
              <<Idx("p01")>>, <<Idx("o377"), Idx("p7")>>, <<Idx("pe9")>>, <<Idx("p20ac")>>, <<Idx("p1f600")>>, <<Idx("ud800")>>,
              <<Idx("xFF")>>, <<Idx("pa"), Idx("c_lf")>>}
RepsOf(u) == IF u = <<Idx("pa")>> THEN LongReps \cup BigReps
             ELSE IF u = <<Idx("pe9")>> THEN LongReps \cup {n \div 2 : n \in {m \in BigReps : m % 2 = 0}}
             ELSE LongReps
NoRep == [k |-> 0, u |-> <<>>, n |-> 0]
IsLong == rep.n # 0
RECURSIVE Rep(_, _)
Rep(x, n) == IF n = 0 THEN <<>> ELSE x \o Rep(x, n - 1)
LongInit == \E p \in Prefixes, q \in Quotes, k \in 0..3, u \in LongUnits : \E n \in RepsOf(u) :
              /\ (n > 10000 => k = 0)                 \* the 64 KiB literals: one phase is enough
              /\ lit = [parts |-> <<[p |-> p, q |-> q, a |-> Rep(<<PadAtom>>, k) \o u \o u \o u]>>]
              /\ rep = [k |-> k, u |-> u, n |-> n]
Init == /\ IF Family = "long" THEN LongInit
           ELSE /\ \E p \in Prefixes, q \in Quotes : lit = [parts |-> <<[p |-> p, q |-> q, a |-> <<>>]>>]
                /\ rep = NoRep
        /\ st = "build" /\ pi = 1 /\ body = <<>> /\ i = 1 /\ out = <<>> /\ feats = {} /\ knd = "str" /\ rw = FALSE
Building(l) == /\ st = "build" /\ lit' = l /\ UNCHANGED <<pi, body, i, out, feats, st, knd, rw, rep>>
AddAtom == /\ st = "build" /\ ~IsLong /\ Len(LastPart.a) < MaxAtoms
           /\ \E x \in Alpha : Building([parts |-> [lit.parts EXCEPT ![NParts].a = Append(@, x)]])
NewPart == /\ st = "build" /\ NParts < MaxParts /\ WellFormed(LastPart)
           /\ \E p \in Prefixes2, q \in Quotes2 : Building([parts |-> Append(lit.parts, [p |-> p, q |-> q, a |-> <<>>])])
Start   == /\ st = "build" /\ WellFormed(LastPart)
           /\ knd' = KindOfLit(lit) /\ rw' = PfxOf(lit.parts[1].p).raw
           /\ body' = NL(BodySrc(lit.parts[1])) /\ pi' = 1 /\ i' = 1 /\ out' = <<>>
           /\ st' = IF KindOfLit(lit) = "mixed" THEN "rej" ELSE "scan"
           /\ feats' = IF KindOfLit(lit) = "mixed" THEN {"mixed"} ELSE {}
           /\ UNCHANGED <<lit, rep>>
Void    == /\ st = "build" /\ ~WellFormed(LastPart) /\ (Len(LastPart.a) = MaxAtoms \/ IsLong)   \* the text is not a literal
           /\ st' = "void" /\ UNCHANGED <<lit, pi, body, i, out, feats, knd, rw, rep>>

Scanning == st = "scan" /\ i <= Len(body)
Emit(vals, n, fs) == /\ out' = out \o vals /\ i' = i + n /\ feats' = feats \cup fs
                     /\ UNCHANGED <<lit, pi, body, st, knd, rw, rep>>
Reject(why) == /\ st' = "rej" /\ feats' = feats \cup {why} /\ UNCHANGED <<lit, pi, body, i, out, knd, rw, rep>>
Esc == Scanning /\ ~Raw /\ C = BS      \* WellFormed bodies never end in a lone backslash

PlainChar     == Scanning /\ (Raw \/ C # BS) /\ ~(IsBytes /\ C > 127) /\ Emit(<<C>>, 1, {})
NonAsciiBytes == Scanning /\ (Raw \/ C # BS) /\ IsBytes /\ C > 127 /\ Reject("nonascii-bytes")
SimpleEsc     == Esc /\ D \in DOMAIN SimpleMap /\ Emit(<<SimpleMap[D]>>, 2, {})
LineCont      == Esc /\ D = LF /\ Emit(<<>>, 2, {})
OctEsc        == Esc /\ IsOct(D) /\ LET n == OctRun(body, i + 1)  v == Num(body, i + 1, n, 8) IN
                   Emit(<<IF IsBytes THEN v % 256 ELSE v>>, 1 + n, IF v > 255 THEN {"oct_gt377/" \o PfxOf(lit.parts[pi].p).cls} ELSE {})
HexEsc        == Esc /\ D = 120 /\ HexRun(body, i + 2, 2) = 2 /\ Emit(<<Num(body, i + 2, 2, 16)>>, 4, {})
BadHex        == Esc /\ D = 120 /\ HexRun(body, i + 2, 2) < 2 /\ Reject("bad-x")
UEsc          == Esc /\ D = 117 /\ ~IsBytes /\ HexRun(body, i + 2, 4) = 4 /\ Emit(<<Num(body, i + 2, 4, 16)>>, 6, {})
BadU          == Esc /\ D = 117 /\ ~IsBytes /\ HexRun(body, i + 2, 4) < 4 /\ Reject("bad-u")
BigUEsc       == Esc /\ D = 85 /\ ~IsBytes /\ BigUOk(body, i + 2) /\ Emit(<<Num(body, i + 4, 6, 16)>>, 10, {})
BadBigU       == Esc /\ D = 85 /\ ~IsBytes /\ ~BigUOk(body, i + 2) /\ Reject("bad-U")
NameOk        == At(body, i + 2) = 123 /\ Find(body, i + 3, 125) > 0 /\ Known(SubSeq(body, i + 3, Find(body, i + 3, 125) - 1))
NameEsc       == Esc /\ D = 78 /\ ~IsBytes /\ NameOk /\
                   LET e == Find(body, i + 3, 125)  name == SubSeq(body, i + 3, e - 1) IN
                   Emit(<<NameCp(name)>>, e - i + 1, IF HasDigit(name) THEN {"name_digit"} ELSE {})
BadName       == Esc /\ D = 78 /\ ~IsBytes /\ ~NameOk /\ Reject("bad-N")
\* anything else after a backslash: the backslash stays, the next character is scanned on its own
UnknownEsc    == Esc /\ D \notin DOMAIN SimpleMap /\ D # LF /\ ~IsOct(D) /\ D # 120
                     /\ (IsBytes \/ D \notin {117, 85, 78}) /\ Emit(<<BS>>, 1, {"unknown_esc"})
NextLit       == /\ st = "scan" /\ i > Len(body) /\ pi < Len(lit.parts)
                 /\ pi' = pi + 1 /\ body' = NL(BodySrc(lit.parts[pi + 1])) /\ i' = 1
                 /\ rw' = PfxOf(lit.parts[pi + 1].p).raw
                 /\ UNCHANGED <<lit, out, feats, st, knd, rep>>
Finish        == /\ st = "scan" /\ i > Len(body) /\ pi = Len(lit.parts)
                 /\ LET bad == Kind = "char" /\ Len(out) # 1 IN      \* Cython's rule for c'..': exactly one byte
                    /\ st' = IF bad THEN "rej" ELSE "done"
                    /\ feats' = IF bad THEN feats \cup {"char-len"} ELSE feats
                 /\ UNCHANGED <<lit, pi, body, i, out, knd, rw, rep>>
Terminal      == st \in {"done", "rej", "void"} /\ UNCHANGED vars

Next == \/ AddAtom \/ NewPart \/ Start \/ Void
        \/ PlainChar \/ NonAsciiBytes \/ SimpleEsc \/ LineCont \/ OctEsc \/ HexEsc \/ BadHex \/ UEsc \/ BadU
        \/ BigUEsc \/ BadBigU \/ NameEsc \/ BadName \/ UnknownEsc \/ NextLit \/ Finish \/ Terminal
Spec == Init /\ [][Next]_vars

---------------------------------------------------------------------------
(* second statement of the semantics: declared atom values *)
Result == IF st = "rej" THEN REJ ELSE out
AtomVal(at, kind, raw) ==
  IF raw THEN (IF kind # "str" /\ \E k \in 1..Len(at.src) : at.src[k] > 127 THEN REJ ELSE NL(at.src))
  ELSE IF kind = "str" THEN at.sv ELSE at.bv
PartVals(part, kind) == [k \in 1..Len(part.a) |-> AtomVal(AtomList[part.a[k]], kind, PfxOf(part.p).raw)]
TableValue(l) ==
  LET kind == KindOfLit(l)
      vals == Flat([k \in 1..Len(l.parts) |-> PartVals(l.parts[k], kind)])     \* all atom values, in order
      cat  == Flat(vals)
  IN IF kind = "mixed" \/ (\E k \in 1..Len(vals) : vals[k] = REJ) THEN REJ
     ELSE IF kind = "char" /\ Len(cat) # 1 THEN REJ ELSE cat

Last(s) == s[Len(s)]
FusePair(x, y, raw) ==
  \/ Last(x.src) = CR /\ y.src[1] = LF
  \/ ~raw /\ x.cls = "e_oct" /\ Len(x.src) < 4 /\ IsOct(y.src[1])
  \/ ~raw /\ x.cls \in {"e_hexbad", "e_ubad", "e_Ubad"} /\ IsHex(y.src[1])
  \/ ~raw /\ x.cls = "e_Nbad" /\ y.src[1] = 123
Fused(l) == \E p \in 1..Len(l.parts) : \E k \in 1..(Len(l.parts[p].a) - 1) :
              FusePair(AtomList[l.parts[p].a[k]], AtomList[l.parts[p].a[k + 1]], PfxOf(l.parts[p].p).raw)

---------------------------------------------------------------------------
(* implementation-shaped transcription: Lexicon.py + Parsing.py + StringEncoding.py *)
NameChar(c) == (c >= 65 /\ c <= 90) \/ (c >= 97 /\ c <= 122) \/ c = 45 \/ c = 32   \* Lexicon: Range('azAZ') | Any('- ')
RECURSIVE NameRun(_, _)
NameRun(b, j) == IF NameChar(At(b, j)) THEN NameRun(b, j + 1) ELSE j       \* first position not in the name class
CyEscLen(b, j) ==                      \* longest match of Lexicon.escapeseq at the backslash b[j]
  LET d == At(b, j + 1) IN
  IF IsOct(d) THEN 1 + OctRun(b, j + 1)
  ELSE IF d = 78 THEN (IF At(b, j + 2) = 123 /\ At(b, NameRun(b, j + 3)) = 125 THEN NameRun(b, j + 3) - j + 1 ELSE 2)
  ELSE IF d = 117 THEN (IF HexRun(b, j + 2, 4) = 4 THEN 6 ELSE 2)
  ELSE IF d = 120 THEN (IF HexRun(b, j + 2, 2) = 2 THEN 4 ELSE 2)
  ELSE IF d = 85 THEN (IF HexRun(b, j + 2, 8) = 8 THEN 10 ELSE 2)
  ELSE IF d = LF \/ d \in DOMAIN SimpleMap THEN 2
  ELSE 1
CyOk(v) == [s |-> "ok", v |-> v]
CyRej == [s |-> "reject", v |-> <<>>]       \* error(..., fatal=False): reported, scanning goes on
CyFatal == [s |-> "fatal", v |-> <<>>]      \* s.error(...): CompileError, scanning stops
CyCrash == [s |-> "crash", v |-> <<>>]      \* an exception other than CompileError escapes from the parser
\* builder: "uni" UnicodeLiteralBuilder (u''), "str" StrLiteralBuilder ('' and r''), "bytes" BytesLiteralBuilder (b'', c'')
CyEscape(builder, raw, b, j, n) ==     \* p_string_literal_shared_read / _append_escape_sequence on the token b[j .. j+n-1]
  LET d == At(b, j + 1)  tok == SubSeq(b, j, j + n - 1) IN
  IF raw THEN CyOk(tok)
  ELSE IF n < 2 THEN CyOk(<<BS>>)
  ELSE IF IsOct(d) THEN (LET v == Num(b, j + 1, n - 1, 8) IN
                         IF builder # "uni" /\ v > 255 THEN CyCrash ELSE CyOk(<<v>>))   \* chr(v).encode('ISO-8859-1')
  ELSE IF d \in {39, 34, 92} THEN CyOk(<<d>>)
  ELSE IF d \in DOMAIN SimpleMap THEN CyOk(<<SimpleMap[d]>>)
  ELSE IF d = LF THEN CyOk(<<>>)
  ELSE IF d = 120 THEN (IF n = 4 THEN CyOk(<<Num(b, j + 2, 2, 16)>>) ELSE CyRej)
  ELSE IF d \in {78, 85, 117} /\ builder # "bytes" THEN
       (IF d = 78 THEN (IF n > 2 /\ Known(SubSeq(b, j + 3, j + n - 2)) THEN CyOk(<<NameCp(SubSeq(b, j + 3, j + n - 2))>>) ELSE CyRej)
        ELSE IF n = 6 THEN CyOk(<<Num(b, j + 2, 4, 16)>>)
        ELSE IF n = 10 THEN (IF BigUOk(b, j + 2) THEN CyOk(<<Num(b, j + 4, 6, 16)>>) ELSE CyFatal)
        ELSE CyRej)
  ELSE CyOk(tok)
\* sequential composition of outcomes: fatal / crash stop; a non-fatal error is remembered while scanning goes on
CySeq(t, r) == IF t.s \in {"fatal", "crash"} THEN t
               ELSE IF r.s \in {"fatal", "crash"} THEN (IF t.s = "reject" /\ r.s = "fatal" THEN CyRej ELSE r)
               ELSE IF t.s = "reject" \/ r.s = "reject" THEN CyRej
               ELSE CyOk(t.v \o r.v)
RECURSIVE CyScan(_, _, _, _)
CyScan(builder, raw, b, j) ==
  IF j > Len(b) THEN CyOk(<<>>)
  ELSE LET n == IF b[j] = BS THEN CyEscLen(b, j) ELSE 1
           t == IF b[j] = BS THEN CyEscape(builder, raw, b, j, n)
                ELSE IF builder = "bytes" /\ b[j] > 127 THEN CyFatal ELSE CyOk(<<b[j]>>)
       IN IF t.s \in {"fatal", "crash"} THEN t ELSE CySeq(t, CyScan(builder, raw, b, j + n))
CyBuilder(p) == IF PfxOf(p).k # "str" THEN "bytes" ELSE IF p \in {"u", "U"} THEN "uni" ELSE "str"
RECURSIVE CyParts(_, _)
CyParts(l, k) == IF k > Len(l.parts) THEN CyOk(<<>>)
                 ELSE LET part == l.parts[k]
                          t == CyScan(CyBuilder(part.p), PfxOf(part.p).raw, NL(BodySrc(part)), 1)
                      IN IF t.s \in {"fatal", "crash"} THEN t ELSE CySeq(t, CyParts(l, k + 1))
CyResult(l) == LET r == CyParts(l, 1) IN
               IF r.s = "crash" THEN r
               ELSE IF KindOfLit(l) = "mixed" \/ r.s # "ok" THEN CyRej
               ELSE IF KindOfLit(l) = "char" /\ Len(r.v) # 1 THEN CyRej ELSE r
\* prediction relative to the demanded value (only meaningful in accepting terminal states)
CyPrediction == LET r == CyResult(lit) IN
                IF st # "done" THEN "nodemand" ELSE IF r.s # "ok" THEN r.s ELSE IF r.v = out THEN "same" ELSE "value"

---------------------------------------------------------------------------
(* invariants *)
TypeOK == /\ st \in {"build", "void", "scan", "done", "rej"}
          /\ st \in {"scan", "done", "rej"} => (knd = KindOfLit(lit) /\ rw = PfxOf(lit.parts[pi].p).raw) /\ pi \in 1..Len(lit.parts) /\ i \in 1..(Len(body) + 1)
          /\ \A k \in 1..Len(out) : out[k] \in (IF IsBytes THEN 0..255 ELSE 0..1114111)
(* table and scanner agree wherever atoms do not fuse *)
Compositional == (st \in {"done", "rej"} /\ ~Fused(lit)) => Result = TableValue(lit)
(* raw literals: nothing but newline normalisation happens *)
RawInert == (st = "done" /\ \A k \in 1..Len(lit.parts) : PfxOf(lit.parts[k].p).raw)
              => out = Flat([k \in 1..Len(lit.parts) |-> NL(BodySrc(lit.parts[k]))])
(* a value never gets longer than its source *)
NoGrowth == st = "done" => Len(out) <= Len(Flat([k \in 1..Len(lit.parts) |-> BodySrc(lit.parts[k])]))
(* long family: the representative's value is periodic *)
UnitSrc(u) == Flat([k \in 1..Len(u) |-> AtomList[u[k]].src])
Periodic == (IsLong /\ st = "done") =>
              LET uv == SubSeq(out, rep.k + 1, rep.k + (Len(out) - rep.k) \div 3) IN
              /\ (Len(out) - rep.k) % 3 = 0
              /\ out = Rep(<<AtomList[PadAtom].src[1]>>, rep.k) \o uv \o uv \o uv
              /\ ~Fused(lit)
(* the transcription of the real algorithm delivers the demanded value (expected to FAIL: used in *_strict.cfg) *)
CyAgrees == st = "done" => CyPrediction = "same"

Ids(part) == [k \in 1..Len(part.a) |-> AtomList[part.a[k]].id]
Publish == (Dump /\ st \in {"done", "rej"}) =>
  PrintT("@@" \o ToJson([fam |-> Family,
                         parts |-> [k \in 1..Len(lit.parts) |-> [p |-> lit.parts[k].p, q |-> lit.parts[k].q, a |-> Ids(lit.parts[k])]],
                         src |-> LitSrc(lit), kind |-> Kind, acc |-> (st = "done"), val |-> out,
                         feats |-> feats, fused |-> Fused(lit), cy |-> CyPrediction,
                         rep |-> IF ~IsLong THEN <<>> ELSE <<rep.k, rep.n, Len(UnitSrc(rep.u))>>]))
=============================================================================
