----------------------------- MODULE DepTreeSrc -----------------------------
(* C46, part C: which files does ONE source file depend on directly?        *)
(* (Cython/Build/Dependencies.py: strip_string_literals, dependency_regex,  *)
(*  parse_dependencies, DependencyTree.find_pxd / cimported_files /         *)
(*  included_files  --  versus the files the compiler opens).               *)
(*                                                                          *)
(* The spec is an attribute grammar run as a state machine: a behaviour     *)
(* emits a source file atom by atom, tracking the lexical mode (code,       *)
(* string literal of a given prefix/quote kind, comment), and records which *)
(* cimport / include statements are REAL (statement position in code) --    *)
(* the same text inside string literals and comments is a decoy and must    *)
(* not become a dependency.  Every state in mode "bol" is a complete,       *)
(* valid program; it is published with its real statements and the expected *)
(* direct dependency set  Expected = UNION Resolve(form, loc).              *)
(*                                                                          *)
(* File universe on disk (fixed):  b.pxd c.pxd i.pxi  p/__init__.py         *)
(* p/__init__.pxd p/s.pxd p/c.pxd p/i.pxi ; the generated source is m.pyx   *)
(* (loc = "top") or p/m.pyx (loc = "pkg").                                  *)
(* Resolve = language level 3 semantics (the compiler's default): a plain   *)
(* `cimport c` is absolute also inside package p; `from . cimport s` is     *)
(* relative.  RelFirst = the Python-2 style "package-relative first" lookup *)
(* (only used to classify a wrong observation).                             *)
(*                                                                          *)
(* Atoms are symbolic; harness/lib_deptree.py renders them (render_source,  *)
(* texts quoted below); c46.py cross-checks the lexical claims of this      *)
(* grammar with CPython's tokenize module (oracle P) on every case.         *)
EXTENDS Naturals, Sequences, FiniteSets, TLC, Json

CONSTANTS MaxAtoms,    \* bound on the number of atoms of a program
          Prefixes,    \* string prefixes used, subset of {"", "r", "b", "f", "u", "rb"}
          RealForms,   \* statement forms that may occur as real statements
          DecoyForms,  \* statement forms whose TEXT may occur inside strings / comments
          Locs,        \* subset of {"top", "pkg"}
          Dump         \* print every complete program

VARIABLES loc,     \* where the source file lives
          toks,    \* atoms emitted so far
          mode,    \* "bol" | "mid" | "expr" | "str" | "after" | "stmtend" | "cmt"
          sp, sq,  \* prefix and quote kind ("s1","d1","s3","d3") of the open string ("" outside)
          cont,    \* a backslash-newline continuation was already used in this statement
          inasg,   \* the current statement is an assignment `v = <literal>`
          last,    \* [p, q]: prefix and quote kind of the literal closed last
          reals,   \* <<[form, ctx]>> real statements, ctx = "bol" | "semi"
          ndecoy   \* number of decoy texts emitted

vars == <<loc, toks, mode, sp, sq, cont, inasg, last, reals, ndecoy>>

(* statement forms and their text                                            *)
(*  cim_b   cimport b                  from_b   from b cimport t_b           *)
(*  cim_c   cimport c                  from_c   from c cimport t_c           *)
(*  cimsub  cimport p.s                fromsub  from p.s cimport t_s         *)
(*  frompkg from p cimport s           frompkgpar  from p cimport (\n    s,\n) *)
(*  reldot  from . cimport s           relmod   from .s cimport t_s          *)
(*  inc     include "i.pxi"            inc1     include 'i.pxi'              *)
(*  incns   include"i.pxi"                                                   *)
AllForms == {"cim_b", "cim_c", "from_b", "from_c", "cimsub", "fromsub", "frompkg", "frompkgpar",
             "reldot", "relmod", "inc", "inc1", "incns"}
IncForms == {"inc", "inc1", "incns"}
RelForms == {"reldot", "relmod"}            \* only meaningful inside a package
HasDQ == {"inc", "incns"}                   \* text contains the character "
HasSQ == {"inc1"}                           \* text contains the character '
MultiLine == {"frompkgpar"}

Resolve(form, l) ==
  CASE form \in {"cim_b", "from_b"} -> {"b.pxd"}
    [] form \in {"cim_c", "from_c"} -> {"c.pxd"}
    [] form \in {"cimsub", "fromsub", "relmod"} -> {"p/s.pxd"}
    [] form \in {"frompkg", "frompkgpar", "reldot"} -> {"p/__init__.pxd", "p/s.pxd"}
    [] form \in IncForms -> IF l = "pkg" THEN {"p/i.pxi"} ELSE {"i.pxi"}

RelFirst(form, l) ==
  IF l = "pkg" /\ form \in {"cim_c", "from_c"} THEN {"p/c.pxd"} ELSE Resolve(form, l)

Expected == UNION {Resolve(reals[k].form, loc) : k \in 1..Len(reals)}
ExpectedRelFirst == UNION {RelFirst(reals[k].form, loc) : k \in 1..Len(reals)}

Quotes == {"s1", "d1", "s3", "d3"}
Triple(q) == q \in {"s3", "d3"}
IsDQ(q) == q \in {"d1", "d3"}

More == Len(toks) < MaxAtoms
Emit(a) == toks' = Append(toks, a)
FormsHere == {f \in RealForms : loc = "pkg" \/ f \notin RelForms}

---------------------------------------------------------------------------
(* code mode.  "bol": at the start of a physical line; "mid": after `; `     *)

(* a real cimport / include statement *)
Stmt(f) ==
  /\ More /\ mode \in {"bol", "mid"} /\ f \in FormsHere
  /\ mode = "mid" => f \notin IncForms \cup MultiLine    \* `...; include "x"` is not valid Cython
  /\ Emit("s:" \o f)
  /\ reals' = Append(reals, [form |-> f, ctx |-> IF mode = "bol" THEN "bol" ELSE "semi"])
  /\ mode' = IF f \in IncForms THEN "incend" ELSE "stmtend"
  /\ inasg' = FALSE
  /\ UNCHANGED <<loc, sp, sq, cont, last, ndecoy>>

(* `v = ` : the start of an assignment whose right-hand side is a string literal *)
Assign ==
  /\ More /\ mode \in {"bol", "mid"}
  /\ Emit("asg") /\ mode' = "expr" /\ cont' = FALSE /\ inasg' = TRUE
  /\ UNCHANGED <<loc, sp, sq, last, reals, ndecoy>>

(* backslash-newline between `v =` and the literal *)
Continue ==
  /\ More /\ mode = "expr" /\ ~cont
  /\ Emit("cont") /\ cont' = TRUE
  /\ UNCHANGED <<loc, mode, sp, sq, inasg, last, reals, ndecoy>>

(* opening quote(s) of a string literal: after `v = `, or as an expression statement at line start *)
Open(p, q) ==
  /\ More /\ mode \in {"expr", "bol"}
  /\ Emit("o:" \o p \o ":" \o q)
  /\ mode' = "str" /\ sp' = p /\ sq' = q
  /\ inasg' = (mode = "expr")
  /\ UNCHANGED <<loc, cont, last, reals, ndecoy>>

(* `#` starts a comment *)
Hash ==
  /\ More /\ mode \in {"bol", "after", "stmtend", "incend"}
  /\ Emit("hash") /\ mode' = "cmt"
  /\ UNCHANGED <<loc, sp, sq, cont, inasg, last, reals, ndecoy>>

(* newline ends the logical line *)
EndLine ==
  /\ More /\ mode \in {"after", "stmtend", "incend", "cmt"}
  /\ Emit("nl") /\ mode' = "bol" /\ inasg' = FALSE
  /\ UNCHANGED <<loc, sp, sq, cont, last, reals, ndecoy>>

(* `; ` another simple statement on the same line (not after a bare string / an include) *)
Semi ==
  /\ More /\ mode \in {"after", "stmtend"}
  /\ mode = "after" => inasg
  /\ Emit("semi") /\ mode' = "mid" /\ inasg' = FALSE
  /\ UNCHANGED <<loc, sp, sq, cont, last, reals, ndecoy>>

---------------------------------------------------------------------------
(* inside a string literal *)
TextOK(f) == /\ f \in DecoyForms
             /\ f \in MultiLine => Triple(sq)
             /\ (sq = "d1" => f \notin HasDQ) /\ (sq = "s1" => f \notin HasSQ)

(* the text of a statement inside the literal (rendered with one trailing blank) *)
StrText(f) ==
  /\ More /\ mode = "str" /\ TextOK(f)
  /\ Emit("t:" \o f) /\ ndecoy' = ndecoy + 1
  /\ UNCHANGED <<loc, mode, sp, sq, cont, inasg, last, reals>>

(* other characters:  nl (triple-quoted only)   oq = the other quote character            *)
(*   sq = the delimiter character followed by a blank (triple-quoted only)                *)
(*   eq = backslash + delimiter character   ebs = two backslashes   h = `#`               *)
(*   fb = `{id}`   fbb = `{{`   (f-strings only)                                           *)
(*   adj = close the literal and open the next one directly: `''x` resp. `""x`              *)
(*         (plain one-line literals only, and not as the first thing in the literal: that   *)
(*          would read as a triple quote)                                                   *)
StrChar(c) ==
  /\ More /\ mode = "str"
  /\ c \in {"nl", "sq"} => Triple(sq)
  /\ c \in {"fb", "fbb"} => sp = "f"
  /\ c = "adj" => ~Triple(sq) /\ sp = "" /\ toks[Len(toks)] \notin {"o::s1", "o::d1"}
  /\ Emit("c:" \o c)
  /\ UNCHANGED <<loc, mode, sp, sq, cont, inasg, last, reals, ndecoy>>

Close ==
  /\ More /\ mode = "str"
  /\ Emit("close") /\ mode' = "after" /\ sp' = "" /\ sq' = "" /\ last' = [p |-> sp, q |-> sq]
  /\ UNCHANGED <<loc, cont, inasg, reals, ndecoy>>

(* a second, directly adjacent literal (implicit concatenation) that uses the OTHER quote   *)
(* character, plain prefixes only:  'a'"b"   """a"""'b'                                      *)
Adjacent(q) ==
  /\ More /\ mode = "after" /\ toks[Len(toks)] = "close"
  /\ last.p = "" /\ "" \in Prefixes /\ IsDQ(q) # IsDQ(last.q)
  /\ Emit("o::" \o q) /\ mode' = "str" /\ sp' = "" /\ sq' = q
  /\ UNCHANGED <<loc, cont, inasg, last, reals, ndecoy>>

---------------------------------------------------------------------------
(* inside a comment *)
CmtText(f) ==
  /\ More /\ mode = "cmt" /\ f \in DecoyForms /\ f \notin MultiLine
  /\ Emit("t:" \o f) /\ ndecoy' = ndecoy + 1
  /\ UNCHANGED <<loc, mode, sp, sq, cont, inasg, last, reals>>

(* quote characters and a backslash (also as the last character of the comment) *)
CmtChar(c) ==
  /\ More /\ mode = "cmt"
  /\ Emit("k:" \o c)
  /\ UNCHANGED <<loc, mode, sp, sq, cont, inasg, last, reals, ndecoy>>

---------------------------------------------------------------------------
Init ==
  /\ loc \in Locs
  /\ toks = <<>> /\ mode = "bol" /\ sp = "" /\ sq = "" /\ cont = FALSE /\ inasg = FALSE
  /\ last = [p |-> "", q |-> ""]
  /\ reals = <<>> /\ ndecoy = 0

DoStmt     == \E f \in RealForms : Stmt(f)
DoOpen     == \E p \in Prefixes, q \in Quotes : Open(p, q)
DoStrText  == \E f \in DecoyForms : StrText(f)
DoStrChar  == \E c \in {"nl", "oq", "sq", "eq", "ebs", "h", "fb", "fbb", "adj"} : StrChar(c)
DoAdjacent == \E q \in Quotes : Adjacent(q)
DoCmtText  == \E f \in DecoyForms : CmtText(f)
DoCmtChar  == \E c \in {"s1", "d1", "s3", "d3", "bs"} : CmtChar(c)

Next == DoStmt \/ Assign \/ Continue \/ DoOpen \/ Hash \/ EndLine \/ Semi
        \/ DoStrText \/ DoStrChar \/ Close \/ DoAdjacent \/ DoCmtText \/ DoCmtChar

Spec == Init /\ [][Next]_vars

---------------------------------------------------------------------------
TypeOK == /\ mode \in {"bol", "mid", "expr", "str", "after", "stmtend", "incend", "cmt"}
          /\ (mode = "str") <=> (sq \in Quotes)
          /\ mode # "str" => sp = ""
          /\ Len(toks) <= MaxAtoms
(* decoys never contribute: the expectation is a function of the real statements only, and *)
(* every real statement was emitted in code mode                                           *)
RealsAreStatements ==
  Len(reals) = Cardinality({k \in 1..Len(toks) : \E f \in AllForms : toks[k] = "s:" \o f})
(* relative forms only inside the package *)
RelOnlyInPkg == \A k \in 1..Len(reals) : reals[k].form \in RelForms => loc = "pkg"
(* the two resolution orders differ only for the shadowed module c inside the package *)
ResolveDiff == (Expected # ExpectedRelFirst) =>
                  (loc = "pkg" /\ \E k \in 1..Len(reals) : reals[k].form \in {"cim_c", "from_c"})

Complete == mode = "bol" /\ toks # <<>>
DumpComplete == (Dump /\ Complete) =>
   PrintT("@@" \o ToJson([loc |-> loc, toks |-> toks, reals |-> reals, nd |-> ndecoy]))
(* simulation: publish the program when the atom budget is (nearly) used up *)
DumpLast == (Complete /\ Len(toks) >= MaxAtoms - 3) =>
   PrintT("@@" \o ToJson([loc |-> loc, toks |-> toks, reals |-> reals, nd |-> ndecoy]))
(* configuration "forms": statements only (no literals, no comments) *)
FormsOnly == \A k \in 1..Len(toks) : toks[k] \in {"nl", "semi"} \cup {"s:" \o f : f \in AllForms}
=============================================================================
