----------------------------- MODULE PyGrammar -----------------------------
(* C43: a token-level grammar of VALID Python 3.12 programs.                *)
(*                                                                          *)
(* Every nonterminal has a default production (first in its list, cost 0)   *)
(* and alternatives (cost 1).  A derivation expands the leftmost            *)
(* nonterminal; it may take at most Budget alternatives and at most MaxTok  *)
(* tokens.  The sentences are therefore all programs that combine up to     *)
(* Budget "interesting" constructs (all pairs for Budget = 2); with K > 1   *)
(* only the pairs/triples selected by PairOK (a function of the seed) are   *)
(* derived.  Context is carried by the nonterminal: statements of a module  *)
(* (M), class body (C), loop body (L), function body (F, FL in a loop),     *)
(* coroutine body (A, AL).  `return`/`yield` only in F*, `await`/`async     *)
(* for`/`async with` only in A*, `break`/`continue` only in *L.             *)
(* Terminals are lexemes; NL / INDENT / DEDENT are layout tokens; lexemes   *)
(* of the form <NAME> are expanded by the renderer (non-ASCII and very      *)
(* long lexemes, see harness/lib_pytexts.py:SPECIAL).                       *)
(* Claim of this module: every sentence is accepted by CPython 3.12's       *)
(* compile() (the harness checks exactly that: disagreement = spec drift).  *)
(* Every complete derivation is a state; it is published with the names of  *)
(* the alternatives it used (the case descriptor).                          *)
EXTENDS Integers, Sequences, FiniteSets, TLC, Json, IOUtils

CONSTANTS Budget,   \* alternatives per derivation
          MaxTok,   \* tokens per sentence
          K,        \* 1: all combinations; > 1: the seeded 1/K sample of consecutive alternative pairs
          Dump      \* publish the sentences

Seed == IF "C43_SEED" \in DOMAIN IOEnv THEN atoi(IOEnv.C43_SEED) % 1000 ELSE 0

Ctxs == {"M", "C", "L", "F", "FL", "A", "AL"}
LoopOf(c) == CASE c \in {"M", "C", "L"} -> "L" [] c \in {"F", "FL"} -> "FL" [] OTHER -> "AL"
SSym(c) == "S_" \o c
BSym(c) == "B_" \o c

P(n, r) == [n |-> n, r |-> r]

---------------------------------------------------------------------------
(* expressions.                                                                                                  *)
(*   E  any expression (used where the Python grammar says `expression`): default A                              *)
(*   A  an OBJECT-typed primary that is valid in every operand / base / iterable position: default the builtin   *)
(*      `id` (always declared).  Operands of operators, call/subscript/attribute bases, starred operands and     *)
(*      comprehension iterables are A, so every combination is valid Python whatever the precedence of its       *)
(*      parts, and no operation is applied to a value whose type is known at compile time (the compiler rejects  *)
(*      e.g. `~1.5` or `[]()`, which CPython compiles and fails at run time: not the subject of this property)   *)
(*   N  number literal, R  int or float literal, I  int literal (default 1), S  str literal incl. f-strings (default 'a'), Y  bytes literal (default b'a') *)
(* Literals, displays and comprehensions are alternatives of E; operations on literals are the explicit          *)
(* productions n_* / s_* / y_*.                                                                                  *)
ExprP == <<
  P("A",         <<"A">>),
  P("add",       <<"A", "+", "A">>),
  P("sub",       <<"A", "-", "A">>),
  P("mul",       <<"A", "*", "A">>),
  P("pow",       <<"A", "**", "A">>),
  P("powneg",    <<"-", "A", "**", "-", "A">>),
  P("matmul",    <<"A", "@", "A">>),
  P("floordiv",  <<"A", "//", "A">>),
  P("truediv",   <<"A", "/", "A">>),
  P("mod",       <<"A", "%", "A">>),
  P("shift",     <<"A", "<<", "A", ">>", "A">>),
  P("bits",      <<"A", "&", "A", "|", "A", "^", "A">>),
  P("neg",       <<"-", "A">>),
  P("inv",       <<"~", "A">>),
  P("pos",       <<"+", "-", "A">>),
  P("not",       <<"not", "A">>),
  P("notnot",    <<"not", "not", "A">>),
  P("and",       <<"A", "and", "A">>),
  P("or",        <<"A", "or", "A", "and", "A">>),
  P("lt",        <<"A", "<", "A">>),
  P("chain",     <<"A", "<", "A", "<=", "A">>),
  P("eqne",      <<"A", "==", "A", "!=", "A">>),
  P("gtge",      <<"A", ">", "A", ">=", "A">>),
  P("is",        <<"A", "is", "A">>),
  P("isnot",     <<"A", "is", "not", "A">>),
  P("in",        <<"A", "in", "A">>),
  P("notin",     <<"A", "not", "in", "A">>),
  P("cond",      <<"A", "if", "A", "else", "E">>),
  P("lambda0",   <<"lambda", ":", "E">>),
  P("lambdaP",   <<"lambda", "P", ":", "E">>),
  \* typed values
  P("vparen",    <<"(", "E", ")">>),
  P("tuple",     <<"(", "E", ",", "E", ")">>),
  P("tuple0",    <<"(", ")">>),
  P("tuple1",    <<"(", "E", ",", ")">>),
  P("list",      <<"[", "E", ",", "E", "]">>),
  P("list0",     <<"[", "]">>),
  P("set",       <<"{", "E", ",", "E", "}">>),
  P("dict",      <<"{", "E", ":", "E", ",", "}">>),
  P("dict0",     <<"{", "}">>),
  P("dictstar",  <<"{", "**", "A", ",", "E", ":", "E", "}">>),
  P("liststar",  <<"[", "*", "A", ",", "E", "]">>),
  P("setstar",   <<"{", "*", "A", "}">>),
  P("tupstar",   <<"(", "*", "A", ",", ")">>),
  P("listcomp",  <<"[", "E", "for", "x", "in", "A", "]">>),
  P("listcompif", <<"[", "x", "for", "x", "in", "A", "if", "A", "if", "x", "]">>),
  P("listcomp2", <<"[", "y", "for", "x", "in", "A", "for", "y", "in", "x", "]">>),
  P("setcomp",   <<"{", "E", "for", "x", "in", "A", "}">>),
  P("dictcomp",  <<"{", "E", ":", "x", "for", "x", "in", "A", "}">>),
  P("genexp",    <<"(", "E", "for", "x", ",", "y", "in", "A", ")">>),
  P("complambda", <<"[", "lambda", ":", "x", "for", "x", "in", "A", "]">>),
  P("none",      <<"None">>),
  P("true",      <<"True">>),
  P("debug",     <<"__debug__">>),
  P("dots",      <<"...">>),
  P("num",       <<"N">>),
  P("str",       <<"S">>),
  P("bytes",     <<"Y">>),
  P("n_neg",     <<"-", "N">>),
  P("n_pos",     <<"+", "N">>),
  P("n_arith",   <<"N", "+", "N", "*", "N">>),
  P("n_sub",     <<"N", "-", "N">>),
  P("n_div",     <<"N", "/", "N">>),
  P("n_floordiv", <<"R", "//", "R">>),
  P("n_mod",     <<"R", "%", "R">>),
  P("n_pow",     <<"N", "**", "N">>),
  P("n_pownegexp", <<"2", "**", "-", "N">>),
  P("n_cmp",     <<"R", "<", "R">>),
  P("n_eq",      <<"N", "==", "N">>),
  P("n_and",     <<"N", "and", "N">>),
  P("n_not",     <<"not", "N">>),
  P("n_cond",    <<"N", "if", "N", "else", "N">>),
  P("n_invint",  <<"~", "1">>),
  P("n_shift",   <<"1", "<<", "I">>),
  P("n_bits",    <<"I", "&", "I", "|", "I", "^", "~", "I">>),
  P("n_tuple",   <<"(", "N", ",", "N", ")">>),
  P("n_call",    <<"A", "(", "N", ")">>),
  P("n_withid",  <<"A", "+", "N">>),
  P("s_cat",     <<"S", "+", "S">>),
  P("s_adj",     <<"S", "S">>),
  P("s_adj3",    <<"'a'", "\"b\"", "r'c'">>),
  P("s_adjnl",   <<"(", "S", "NLJ", "S", ")">>),
  P("s_mod",     <<"S", "%", "A">>),
  P("s_modtuple", <<"S", "%", "(", "A", ",", "A", ")">>),
  P("s_mul",     <<"S", "*", "I">>),
  P("s_index",   <<"S", "[", "I", "]">>),
  P("s_slice",   <<"S", "[", "I", ":", "]">>),
  P("s_method",  <<"S", ".", "join", "(", "A", ")">>),
  P("s_format",  <<"S", ".", "format", "(", "A", ",", "k", "=", "A", ")">>),
  P("s_in",      <<"S", "in", "S">>),
  P("s_cmp",     <<"S", "<", "S">>),
  P("s_eq",      <<"S", "==", "S">>),
  P("s_call",    <<"A", "(", "S", ")">>),
  P("s_key",     <<"{", "S", ":", "S", "}">>),
  P("s_sub",     <<"A", "[", "S", "]">>),
  P("y_cat",     <<"Y", "+", "Y">>),
  P("y_adj",     <<"Y", "B\"b\"">>),
  P("y_index",   <<"Y", "[", "I", "]">>),
  P("y_mod",     <<"Y", "%", "A">>),
  P("y_eq",      <<"Y", "==", "Y">>),
  P("y_call",    <<"A", "(", "Y", ")">>),
  P("y_decode",  <<"Y", ".", "decode", "(", ")">>),
  P("y_decode2", <<"Y", ".", "decode", "(", "'utf8'", ")">>),
  P("s_encode",  <<"S", ".", "encode", "(", ")">>)
>>

AtomP == <<
  P("id",        <<"id">>),
  P("paren",     <<"(", "A", ")">>),
  P("parenop",   <<"(", "A", "+", "A", ")">>),
  P("parencond", <<"(", "A", "if", "A", "else", "A", ")">>),
  P("parenlambda", <<"(", "lambda", ":", "A", ")">>),
  P("call0",     <<"A", "(", ")">>),
  P("call1",     <<"A", "(", "E", ")">>),
  P("callkw",    <<"A", "(", "E", ",", "k", "=", "E", ")">>),
  P("callstar",  <<"A", "(", "*", "A", ",", "**", "A", ")">>),
  P("callgen",   <<"A", "(", "E", "for", "x", "in", "A", ")">>),
  P("calltrail", <<"A", "(", "E", ",", ")">>),
  P("attr",      <<"A", ".", "real">>),
  P("attrkw",    <<"A", ".", "match", ".", "case", ".", "type", ".", "_">>),
  P("subscr",    <<"A", "[", "E", "]">>),
  P("slice",     <<"A", "[", "E", ":", "E", "]">>),
  P("slice3",    <<"A", "[", ":", ":", "E", "]">>),
  P("subtuple",  <<"A", "[", "E", ",", "E", ":", "]">>),
  P("ellipsis",  <<"A", "[", "...", "]">>),
  P("substar",   <<"A", "[", "*", "A", "]">>)
>>

(* literal lexemes (all accepted by CPython 3.12; some with a SyntaxWarning) *)
IntLex == << "1", "0", "1_000", "0xFF", "0XfF_0", "0o17", "0b101", "00", "0_0", "<INT40>", "<INT4000>", "<HEX5000>",
             "9223372036854775808", "0x8000000000000000", "18446744073709551616", "2147483648", "0x7fffffff", "4294967296",
             "0b" \o "1111111111111111111111111111111111111111111111111111111111111111" >>
FloatLex == << "1.5", "1.", ".5", "1e10", "1E-5", "1_0.0_1e+1_0", "1e400", "1e-400", "0e0", "0.0_0", "<FLOAT400>",
               "<FLOATFRAC400>", "0.1", "1e308", "5e-324", "0.0" >>
ImagLex == << "1j", "1.5J", "1e400j", "0j", "0_1J" >>
StrLex == << "'a'", "\"a\"", "'''a'''", "\"\"\"a'\"\"\"", "''", "u'a'", "U\"a\"",
             "r'\\''", "'\\n\\t\\\\\\'\\\"\\a\\b\\f\\r\\v'", "'\\x41'", "'\\101'", "'\\1'", "'\\400'", "'\\777'",
             "'\\u20ac'", "'\\U0001f600'", "'\\N{DIGIT ONE}'", "'\\N{digit one}'",
             "'\\N{LATIN SMALL LETTER A WITH GRAVE}'", "'\\ud800'", "'\\udc00\\ud800'", "'\\ud83d\\ude00'", "'\\x00'", "'\\0'",
             "'\\\nb'", "'''a\nb'''", "'\\q'", "'\\8'", "r'\\N{x}'", "R'\\u20ac'",
             "'\\x7f\\x80\\xff'", "'%s%%'", "'{}'", "<STR_EURO>", "<STR_ASTRAL>", "<STR_LATIN1>", "<RSTR_EURO>",
             "<STR_LONG>", "<STR_MANYESC>", "<STR_TRIGRAPH>", "<STR_NL_ESC>",
             "f'{id}'", "f'{id!r}'", "f'{id!s:^{id}}'", "f'{id:>10}'", "f'{id:{id}}'", "f'{id=}'", "f'{id = !r}'", "f'{{}}'",
             "f'a{id}b{id}c'", "f'{'a'}'", "f\"{id:{id}.{id}}\"", "rf'{id}\\d'", "Rf'{id}'", "fR'{id}'", "f'{id + 1}'", "f'''{\nid}'''",
             "f'{(lambda: 1)()}'", "f'{id,}'", "f'{*id,}'", "f'{id:%Y-%m}'", "f'{id:{id:{id}}}'", "f'{f'{id}'}'",
             "f'\\N{DIGIT ONE}{id}'", "f'{\"a\" if id else \"b\"}'", "f'{id:\\x41}'", "f'{id!a}'", "f''", "f'{id[\"a\"]}'",
             "f'{id:}'", "f'{ id }'", "f'{id!r:}'", "f'{{{id}}}'", "f'{id}' 'a' f'{id}'", "f'{id:{\"a\"}}'", "f'{\"\\n\"}'",
             "f'{id #c\n}'", "f'{1:{1}}'", "f'{1.}'", "f'{0x1}{1e3}'", "f'{id.real}'",
             "f'{id!r}' f'{id!s}'", "f'{[x for x in id]}'", "f'{ {1: 2}[1] }'", "f'{id:,}'", "f'{-id:+}'",
             "f'{\"{\"}'", "f'{id\n}'", "f'{id}\\n\\x41\\u20ac'", "f'{id:{id}{id}}'", "f'{id!r:{id}}'", "f'{id:=^+#010.3f}'" >>
BytesLex == << "b'a'", "b''", "rb'\\d'", "Rb'a'", "bR'\\''", "b'\\377'", "b'\\xff\\x00'", "b'''a\nb'''", "b'\\N{x}'",
               "b'\\u20ac'", "b'\\400'", "b'\\q'", "<BYTES_LONG>", "b\"\\\"\"", "b'\\\nb'" >>

RECURSIVE LexProds(_, _, _)
LexProds(pfx, lex, i) == IF i > Len(lex) THEN <<>>
                         ELSE <<P(pfx \o ":" \o lex[i], <<lex[i]>>)>> \o LexProds(pfx, lex, i + 1)
NumP == LexProds("n", IntLex \o FloatLex \o ImagLex, 1)
RealP == LexProds("n", IntLex \o FloatLex, 1)
IntP == LexProds("n", IntLex, 1)
StrP == LexProds("s", StrLex, 1)
BytesP == LexProds("y", BytesLex, 1)

(* assignment / loop targets: default `x` *)
TargetP == <<
  P("x",        <<"x">>),
  P("t_tuple",  <<"x", ",", "y">>),
  P("t_paren",  <<"(", "x", ",", "y", ")">>),
  P("t_list",   <<"[", "x", ",", "*", "y", "]">>),
  P("t_star",   <<"*", "x", ",", "y">>),
  P("t_nested", <<"x", ",", "(", "y", ",", "*", "z", ")">>),
  P("t_attr",   <<"id", ".", "real">>),
  P("t_sub",    <<"id", "[", "E", "]">>),
  P("t_slice",  <<"id", "[", "E", ":", "]">>),
  P("t_uni",    <<"<ID_UNI>">>),
  P("t_nfkc",   <<"<ID_NFKC>">>),
  P("t_long",   <<"<ID_LONG>">>),
  P("t_soft",   <<"match">>),
  P("t_soft2",  <<"case", ",", "type", ",", "_">>),
  P("t_dunder", <<"__x">>)
>>

(* parameter lists: default `x` *)
ParamP == <<
  P("x",         <<"x">>),
  P("p_none",    <<>>),
  P("p_two",     <<"x", ",", "y">>),
  P("p_default", <<"x", "=", "E">>),
  P("p_star",    <<"*", "a">>),
  P("p_kwargs",  <<"**", "k">>),
  P("p_posonly", <<"x", ",", "/", ",", "y">>),
  P("p_posonlyd", <<"x", "=", "E", ",", "/">>),
  P("p_kwonly",  <<"x", ",", "*", ",", "y">>),
  P("p_kwonlyd", <<"*", ",", "x", "=", "E">>),
  P("p_kwonly2", <<"*", ",", "x", "=", "E", ",", "y">>),
  P("p_all",     <<"x", ",", "/", ",", "y", "=", "E", ",", "*", "a", ",", "z", ",", "**", "k">>),
  P("p_trail",   <<"x", ",">>)
>>
(* annotated parameters exist only for def, not for lambda *)
DefParamP == <<
  P("P",         <<"P">>),
  P("p_ann",     <<"x", ":", "E">>),
  P("p_annd",    <<"x", ":", "E", "=", "E">>),
  P("p_starann", <<"*", "a", ":", "E", ",", "**", "k", ":", "E">>),
  P("p_starann2", <<"*", "a", ":", "*", "A">>),
  P("p_annstr",  <<"x", ":", "'int'">>),
  P("p_annint",  <<"x", ":", "int", "=", "1">>)
>>

(* match patterns.  LP: closed patterns that bind nothing and can fail (safe in every position); PAT: default LP *)
LitPatP == <<
  P("1",         <<"1">>),
  P("pt_str",    <<"'a'", "'b'">>),
  P("pt_none",   <<"None">>),
  P("pt_neg",    <<"-", "1">>),
  P("pt_cplx",   <<"-", "1", "+", "2j">>),
  P("pt_value",  <<"id", ".", "real">>),
  P("pt_seq0",   <<"[", "]">>),
  P("pt_map0",   <<"{", "}">>),
  P("pt_class0", <<"id", "(", ")">>),
  P("pt_keys",   <<"{", "1", ":", "_", ",", "None", ":", "_", "}">>),
  P("pt_bytes",  <<"b'a'">>),
  P("pt_true",   <<"True", "|", "False">>),
  P("pt_paren",  <<"(", "LP", ")">>),
  P("pt_or",     <<"LP", "|", "2">>),
  P("pt_float",  <<"1.5">>),
  P("pt_fstrlike", <<"'{}'">>)
>>
PatP == <<
  P("LP",        <<"LP">>),
  P("pt_cap",    <<"x">>),
  P("pt_wild",   <<"_">>),
  P("pt_seq",    <<"[", "x", ",", "*", "y", "]">>),
  P("pt_seq2",   <<"(", "x", ",", "LP", ")">>),
  P("pt_seq1",   <<"x", ",">>),
  P("pt_starw",  <<"[", "*", "_", ",", "LP", "]">>),
  P("pt_map",    <<"{", "'a'", ":", "x", ",", "**", "y", "}">>),
  P("pt_class",  <<"int", "(", "x", ",", "real", "=", "LP", ")">>),
  P("pt_as",     <<"LP", "as", "x">>),
  P("pt_orcap",  <<"[", "x", "]", "|", "(", "x", ",", "LP", ")">>),
  P("pt_soft",   <<"match", ",", "case", ",", "type">>)
>>

---------------------------------------------------------------------------
(* statements *)
Common(c) ==
  LET B == BSym(c)  LB == BSym(LoopOf(c)) IN <<
  P("expr",      <<"E", "NL">>),
  P("pass",      <<"pass", "NL">>),
  P("exprtuple", <<"E", ",", "E", "NL">>),
  P("assigntuple", <<"x", "=", "E", ",", "NL">>),
  P("assign",    <<"T", "=", "E", "NL">>),
  P("assign2",   <<"x", "=", "T", "=", "E", "NL">>),
  P("aug",       <<"x", "+=", "E", "NL">>),
  P("augattr",   <<"id", ".", "real", "**=", "E", "NL">>),
  P("augsub",    <<"id", "[", "E", "]", "//=", "E", "NL">>),
  P("augmat",    <<"x", "@=", "E", "NL">>),
  P("augshift",  <<"x", ">>=", "E", "NL">>),
  P("ann",       <<"v", ":", "E", "=", "E", "NL">>),
  P("annonly",   <<"v", ":", "E", "NL">>),
  P("annattr",   <<"id", ".", "real", ":", "E", "=", "E", "NL">>),
  P("annparen",  <<"(", "v", ")", ":", "E", "=", "E", "NL">>),
  P("annstar",   <<"v", ":", "E", "=", "*", "A", ",", "E", "NL">>),
  P("del",       <<"x", "=", "E", "NL", "del", "x", "NL">>),
  P("delsub",    <<"del", "id", "[", "E", "]", ",", "id", ".", "real", "NL">>),
  P("delparen",  <<"x", "=", "y", "=", "E", "NL", "del", "(", "x", ")", ",", "[", "y", "]", "NL">>),
  P("assert",    <<"assert", "E", "NL">>),
  P("assert2",   <<"assert", "E", ",", "E", "NL">>),
  P("import",    <<"import", "os", "NL">>),
  P("importas",  <<"import", "os", ".", "path", "as", "x", ",", "sys", "NL">>),
  P("from",      <<"from", "os", "import", "path", "as", "x", ",", "sep", "NL">>),
  P("fromparen", <<"from", "os", ".", "path", "import", "(", "join", ",", ")", "NL">>),
  P("fromrel",   <<"from", ".", "import", "x", "NL">>),
  P("fromrel2",  <<"from", "..", "a", ".", "b", "import", "x", "NL">>),
  P("fromrel3",  <<"from", "...", "import", "x", "NL">>),
  P("global",    <<"global", "g", ",", "h", "NL">>),
  P("walrusfstr", <<"v", "=", "f'{(w:=1)}'", "NL">>),
  P("walrus",    <<"(", "w", ":=", "E", ")", "NL">>),
  P("walrusif",  <<"if", "(", "w", ":=", "E", ")", ":", B>>),
  P("walruslist", <<"v", "=", "[", "w", ":=", "E", ",", "w", "]", "NL">>),
  P("walruscall", <<"id", "(", "w", ":=", "E", ",", "k", "=", "(", "w", ":=", "E", ")", ")", "NL">>),
  P("raise",     <<"raise", "NL">>),
  P("raiseE",    <<"raise", "E", "NL">>),
  P("raisefrom", <<"raise", "E", "from", "E", "NL">>),
  P("semi",      <<"pass", ";", "E", ";", "NL">>),
  P("starexpr",  <<"*", "A", ",", "E", "NL">>),
  P("starassign", <<"x", "=", "*", "A", ",", "E", "NL">>),
  P("if",        <<"if", "E", ":", B>>),
  P("ifelse",    <<"if", "E", ":", B, "else", ":", B>>),
  P("ifelif",    <<"if", "E", ":", B, "elif", "E", ":", B, "else", ":", B>>),
  P("ifinline",  <<"if", "E", ":", "pass", ";", "E", "NL", "else", ":", "E", "NL">>),
  P("while",     <<"while", "E", ":", LB>>),
  P("whileelse", <<"while", "E", ":", LB, "else", ":", B>>),
  P("for",       <<"for", "T", "in", "E", ":", LB>>),
  P("forelse",   <<"for", "T", "in", "E", ":", LB, "else", ":", B>>),
  P("forstar",   <<"for", "x", "in", "*", "A", ",", "E", ":", LB>>),
  P("try",       <<"try", ":", B, "except", ":", B>>),
  P("tryas",     <<"try", ":", B, "except", "E", "as", "x", ":", B>>),
  P("trytuple",  <<"try", ":", B, "except", "(", "E", ",", "E", ")", ":", B, "except", "E", ":", B>>),
  P("tryfin",    <<"try", ":", B, "finally", ":", B>>),
  P("tryall",    <<"try", ":", B, "except", "E", ":", B, "else", ":", B, "finally", ":", B>>),
  P("trystar",   <<"try", ":", B, "except", "*", "E", ":", "pass", "NL">>),
  P("trystaras", <<"try", ":", B, "except", "*", "E", "as", "x", ":", "pass", "NL", "else", ":", B>>),
  P("with",      <<"with", "E", ":", B>>),
  P("withas",    <<"with", "E", "as", "x", ":", B>>),
  P("withtuple", <<"with", "E", "as", "(", "x", ",", "y", ")", ":", B>>),
  P("withattr",  <<"with", "E", "as", "id", ".", "real", ":", B>>),
  P("with2",     <<"with", "E", "as", "x", ",", "E", "as", "y", ":", B>>),
  P("withparen", <<"with", "(", "E", "as", "x", ",", "E", "as", "y", ",", ")", ":", B>>),
  P("withparen1", <<"with", "(", "E", ")", ":", B>>),
  P("def",       <<"def", "f", "(", "DP", ")", ":", BSym("F")>>),
  P("defret",    <<"def", "f", "(", "DP", ")", "->", "E", ":", BSym("F")>>),
  P("defdoc",    <<"def", "f", "(", "DP", ")", ":", "NL", "INDENT", "'doc'", "NL", SSym("F"), "DEDENT">>),
  P("deco",      <<"@", "A", "NL", "def", "f", "(", "DP", ")", ":", BSym("F")>>),
  P("deco2",     <<"@", "A", "NL", "@", "A", "NL", "def", "f", "(", "DP", ")", ":", BSym("F")>>),
  P("class",     <<"class", "K", ":", BSym("C")>>),
  P("classbase", <<"class", "K", "(", "E", ")", ":", BSym("C")>>),
  P("classkw",   <<"class", "K", "(", "E", ",", "metaclass", "=", "E", ")", ":", BSym("C")>>),
  P("classstar", <<"class", "K", "(", "*", "A", ",", "**", "A", ")", ":", BSym("C")>>),
  P("class0",    <<"class", "K", "(", ")", ":", BSym("C")>>),
  P("decoclass", <<"@", "A", "NL", "class", "K", ":", BSym("C")>>),
  P("asyncdef",  <<"async", "def", "f", "(", "DP", ")", ":", BSym("A")>>),
  P("match",     <<"match", "E", ":", "NL", "INDENT", "case", "PAT", ":", B, "DEDENT">>),
  P("match2",    <<"match", "E", ":", "NL", "INDENT", "case", "LP", ":", B, "case", "PAT", ":", B, "DEDENT">>),
  P("matchguard", <<"match", "E", ":", "NL", "INDENT", "case", "PAT", "if", "E", ":", B, "DEDENT">>),
  P("matchtuple", <<"match", "E", ",", "E", ":", "NL", "INDENT", "case", "LP", ",", "PAT", ":", B, "DEDENT">>),
  P("nonlocal",  <<"def", "f", "(", ")", ":", "NL", "INDENT", "n", "=", "E", "NL", "def", "g", "(", ")", ":", "NL", "INDENT",
                   "nonlocal", "n", "NL", "n", "=", "E", "NL", "DEDENT", "return", "g", "NL", "DEDENT">>),
  P("closure",   <<"def", "f", "(", "x", ")", ":", "NL", "INDENT", "def", "g", "(", ")", ":", BSym("F"), "return", "x", ",", "g", "NL", "DEDENT">>),
  P("pep695class", <<"class", "K", "[", "Tp", "]", ":", BSym("C")>>),
  P("pep695def", <<"def", "f", "[", "Tp", "]", "(", "DP", ")", ":", BSym("F")>>),
  P("pep695type", <<"type", "X", "=", "E", "NL">>),
  P("pep695bound", <<"def", "f", "[", "Tp", ":", "int", ",", "*", "Ts", ",", "**", "Q", "]", "(", ")", ":", BSym("F")>>),
  P("softkw",    <<"match", "=", "case", "=", "type", "=", "E", "NL", "match", "(", "case", ")", "NL">>),
  P("decoexpr",  <<"@", "E", "NL", "def", "f", "(", ")", ":", BSym("F")>>),
  P("printfn",   <<"print", "(", "E", ",", "sep", "=", "E", ",", "file", "=", "E", ")", "NL">>),
  P("execfn",    <<"exec", "(", "E", ")", "NL">>),
  P("strstmt",   <<"S", ".", "upper", "(", ")", "NL">>),
  P("strstmt2",  <<"S", "%", "A", "NL">>),
  P("numstmt",   <<"N", "+", "A", "NL">>),
  P("unpackslice", <<"x", ",", "y", "=", "A", "[", "A", ":", "]", "NL">>),
  P("unpackslice2", <<"x", ",", "y", "=", "A", "[", "1", ":", "A", "]", "NL">>),
  P("forliterals", <<"for", "x", "in", "N", ",", "N", ":", "NL", "INDENT", "id", "(", "x", ")", "NL", "DEDENT">>),
  P("comment",   <<"pass", "#c", "NL">>),
  P("contline",  <<"x", "=", "E", "BSNL", "+", "A", "NL">>),
  P("blankline", <<"pass", "NL", "NLJ", "#c", "NL", "pass", "NL">>)
>>

FuncOnly == <<
  P("return",     <<"return", "NL">>),
  P("returnE",    <<"return", "E", "NL">>),
  P("returnstar", <<"return", "*", "A", ",", "E", "NL">>),
  P("returnx",    <<"return", "x", "NL">>),
  P("forcomplex", <<"for", "v", "in", "1j", ",", "N", ":", "NL", "INDENT", "id", "(", "v", ")", "NL", "DEDENT">>),
  P("yield",      <<"yield", "E", "NL">>),
  P("yield0",     <<"yield", "NL">>),
  P("yieldassign", <<"v", "=", "yield", "E", "NL">>),
  P("yieldparen", <<"v", "=", "(", "yield", ")", "+", "E", "NL">>),
  P("yieldfrom",  <<"v", "=", "yield", "from", "E", "NL">>),
  P("yieldstar",  <<"yield", "*", "A", ",", "E", "NL">>),
  P("lambdayield", <<"v", "=", "lambda", ":", "(", "yield", ")", "NL">>) >>

AsyncOnly(c) == <<
  P("returnE",    <<"return", "E", "NL">>),
  P("await",      <<"await", "A", "NL">>),
  P("awaitassign", <<"v", "=", "await", "A", "+", "A", "NL">>),
  P("asyncfor",   <<"async", "for", "T", "in", "E", ":", BSym("AL")>>),
  P("asyncforelse", <<"async", "for", "T", "in", "E", ":", BSym("AL"), "else", ":", BSym(c)>>),
  P("asyncwith",  <<"async", "with", "E", "as", "x", ",", "E", ":", BSym(c)>>),
  P("asynccomp",  <<"v", "=", "[", "y", "async", "for", "y", "in", "A", "]", "NL">>),
  P("asyncgenexp", <<"v", "=", "(", "await", "y", "for", "y", "in", "A", "if", "await", "y", ")", "NL">>),
  P("asyncyield", <<"yield", "E", "NL">>) >>

LoopOnly == << P("break", <<"break", "NL">>), P("continue", <<"continue", "NL">>) >>

NotClass == << P("walruscomp", <<"v", "=", "[", "(", "w", ":=", "x", ")", "for", "x", "in", "A", "]", "NL">>) >>

StmtP(c) == Common(c) \o (IF c \in {"F", "FL"} THEN FuncOnly ELSE <<>>)
                      \o (IF c # "C" THEN NotClass ELSE <<>>)
                      \o (IF c \in {"A", "AL"} THEN AsyncOnly(c) ELSE <<>>)
                      \o (IF c \in {"L", "FL", "AL"} THEN LoopOnly ELSE <<>>)

BlockP(c) == << P("blk",    <<"NL", "INDENT", SSym(c), "DEDENT">>),
                P("inline", <<"E", "NL">>),
                P("blk2",   <<"NL", "INDENT", SSym(c), SSym(c), "DEDENT">>),
                P("blktab", <<"NL", "INDENTTAB", SSym(c), "DEDENT">>),
                P("blk1sp", <<"NL", "INDENT1", SSym(c), "DEDENT">>) >>

FileP == << P("one",      <<"S_M">>),
            P("two",      <<"S_M", "S_M">>),
            P("future",   <<"from", "__future__", "import", "annotations", "NL", "S_M">>),
            P("fromstar", <<"from", "os", "import", "*", "NL", "S_M">>),
            P("docstring", <<"'doc'", "NL", "S_M">>),
            P("noeol",    <<"S_M", "NOEOL">>),
            P("empty",    <<>>),
            P("leadnl",   <<"NLJ", "NLJ", "S_M">>),
            P("formfeed", <<"<FF>", "S_M">>),
            P("crlf",     <<"<CRLF>", "S_M">>),
            P("bom",      <<"<BOM>", "S_M">>),
            P("cookie",   <<"<COOKIE_UTF8>", "NLJ", "S_M">>) >>

Fixed == [Start |-> FileP, E |-> ExprP, A |-> AtomP, N |-> NumP, R |-> RealP, I |-> IntP, S |-> StrP, Y |-> BytesP, T |-> TargetP, P |-> ParamP, DP |-> DefParamP, PAT |-> PatP, LP |-> LitPatP]
SSyms == {SSym(c) : c \in Ctxs}
BSyms == {BSym(c) : c \in Ctxs}
NTSet == TLCEval(DOMAIN Fixed \cup SSyms \cup BSyms)
(* TLCEval: the tables are computed once (TLC would otherwise re-evaluate the lazy function at every application) *)
Prods == TLCEval([A \in NTSet |-> IF A \in DOMAIN Fixed THEN Fixed[A]
                          ELSE IF A \in SSyms THEN StmtP(CHOOSE c \in Ctxs : SSym(c) = A)
                          ELSE BlockP(CHOOSE c \in Ctxs : BSym(c) = A)])
IsNT(s) == s \in NTSet

(* numbering of nonterminals for the seeded pair sample *)
NTOrder == <<"Start", "E", "A", "N", "R", "I", "S", "Y", "T", "P", "DP", "PAT", "LP", "S_M", "S_C", "S_L", "S_F", "S_FL", "S_A", "S_AL",
             "B_M", "B_C", "B_L", "B_F", "B_FL", "B_A", "B_AL">>
NTIndex(A) == CHOOSE i \in 1..Len(NTOrder) : NTOrder[i] = A
NTIdx == TLCEval([A \in NTSet |-> NTIndex(A)])
PairOK(prev, A, j) == K = 1 \/ prev = 0 \/ (prev * 7 + (NTIdx[A] * 131 + j) * 13 + Seed) % K = 0

(* zero-width layout tokens do not count as tokens *)
Layout == {"NL", "NLJ", "INDENT", "INDENTTAB", "INDENT1", "DEDENT", "NOEOL", "BSNL", "<FF>", "<CRLF>", "<BOM>"}
RECURSIVE MinLenSeq(_, _)
MinLen(s) == IF IsNT(s) THEN MinLenSeq(Prods[s][1].r, 1) ELSE IF s \in Layout THEN 0 ELSE 1
MinLenSeq(r, i) == IF i > Len(r) THEN 0 ELSE MinLen(r[i]) + MinLenSeq(r, i + 1)
MinL == TLCEval([A \in NTSet |-> MinLen(A)])
Cost(s) == IF IsNT(s) THEN MinL[s] ELSE IF s \in Layout THEN 0 ELSE 1
RECURSIVE CostSeq(_, _)
CostSeq(r, i) == IF i > Len(r) THEN 0 ELSE Cost(r[i]) + CostSeq(r, i + 1)

---------------------------------------------------------------------------
VARIABLES out,     \* terminals derived so far
          ntok,    \* non-layout tokens in out
          todo,    \* symbols still to derive (leftmost first)
          need,    \* minimal number of tokens still to come from todo
          used,    \* names of the alternatives taken, in order
          prev     \* number of the last alternative taken (0: none)
vars == <<out, ntok, todo, need, used, prev>>

(* move leading terminals of a symbol list to the output *)
RECURSIVE Shift(_, _, _)
Shift(o, n, t) == IF t = <<>> \/ IsNT(Head(t)) THEN <<o, n, t>>
                  ELSE Shift(Append(o, Head(t)), n + (IF Head(t) \in Layout THEN 0 ELSE 1), Tail(t))

Init == /\ out = <<>> /\ ntok = 0 /\ todo = <<"Start">> /\ need = MinL["Start"]
        /\ used = <<>> /\ prev = 0

Expand == /\ todo # <<>>
          /\ LET A == Head(todo)
                 prs == Prods[A]
             IN
             \E j \in 1..Len(prs) :
               LET pr == prs[j]
                   cost == IF j = 1 THEN 0 ELSE 1
                   need2 == need - MinL[A] + CostSeq(pr.r, 1)
                   sh == Shift(out, ntok, pr.r \o Tail(todo))
               IN /\ Len(used) + cost <= Budget
                  /\ cost = 1 => PairOK(prev, A, j)
                  /\ ntok + need2 <= MaxTok
                  /\ out' = sh[1] /\ ntok' = sh[2] /\ todo' = sh[3]
                  /\ need' = need2 - (sh[2] - ntok)
                  /\ used' = IF cost = 1 THEN Append(used, A \o "." \o pr.n) ELSE used
                  /\ prev' = IF cost = 1 THEN NTIdx[A] * 131 + j ELSE prev

Finished == todo = <<>> /\ UNCHANGED vars
Next == Expand \/ Finished
Spec == Init /\ [][Next]_vars

---------------------------------------------------------------------------
TypeOK == /\ ntok <= MaxTok /\ Len(used) <= Budget
          /\ need = CostSeq(todo, 1)
          /\ \A i \in 1..Len(out) : ~IsNT(out[i])
(* the layout of every sentence is balanced: each INDENT* has its DEDENT and the level never drops below 0 *)
RECURSIVE Level(_, _, _)
Level(o, i, l) == IF i > Len(o) THEN l
                  ELSE IF l < 0 THEN -1
                  ELSE Level(o, i + 1, l + (IF o[i] \in {"INDENT", "INDENTTAB", "INDENT1"} THEN 1 ELSE IF o[i] = "DEDENT" THEN -1 ELSE 0))
Balanced == todo = <<>> => Level(out, 1, 0) = 0
(* every default production is free of alternatives of itself: the minimal lengths are well-founded (MinL total) *)
DefaultsGround == \A A \in NTSet : MinL[A] \in 0..8
Publish == (Dump /\ todo = <<>>) => PrintT("@@" \o ToJson([toks |-> out, used |-> used, n |-> ntok]))
=============================================================================
