SPECIFICATION Spec
CONSTANTS
  NNames = 2
  Kinds = {"num", "obj"}
  MaxLvl = 1
  MaxVer = 2
  NVals = 0
  NV = 2
  FirstEdits = 0
  MaxEdits = 0
  Opts = {}
  Mode = "pairs"
  CksMode = "len"
  Dump = FALSE
INVARIANT NoMisassign
CHECK_DEADLOCK FALSE
