SPECIFICATION Spec
CONSTANTS
  NConst = 3
  OrderMode = "perm"
  SelfLoops = TRUE
  MaxQ = 0
  Dump = FALSE
INVARIANT MemoComplete
INVARIANT ResultCorrect
INVARIANT PartialSound
INVARIANT LoopOnStack
INVARIANT StackIsPath
INVARIANT DumpLeaves
CHECK_DEADLOCK FALSE
