SPECIFICATION Spec
CONSTANTS
  Part = "member"
  MaxArms = 1
INVARIANT MemberOK
INVARIANT FlattenStrict
CHECK_DEADLOCK FALSE
