SPECIFICATION Spec
CONSTANTS
  Budget = 2
  MaxTok = 40
  K = 64
  Dump = TRUE
INVARIANT TypeOK
INVARIANT Balanced
INVARIANT DefaultsGround
INVARIANT Publish
CHECK_DEADLOCK FALSE
