SPECIFICATION Spec
CONSTANTS
  T = 3
  N = 4
  Schedule = "static"
INVARIANT NoDoubleOwner
INVARIANT EachExecutedOnce
INVARIANT Safe
PROPERTY Terminates
CHECK_DEADLOCK FALSE
