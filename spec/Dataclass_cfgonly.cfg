SPECIFICATION Spec
CONSTANTS
  Mode = "cases"
  Slice = "none"
  MaxFields = 0
  MaxLen = 0
  Salts = {0}
  SetVals = {0}
  MaxKw = 9
INVARIANT TypeOK
INVARIANT HashTableTotal
INVARIANT BindConflictFree
INVARIANT SignatureOK
INVARIANT OrderLaws
INVARIANT EqHashCoherent
INVARIANT ImplVsRefCfg
INVARIANT ImplVsRefStep
INVARIANT Publish
CHECK_DEADLOCK FALSE
