SPECIFICATION Spec
CONSTANTS
  GridSel = "t"
  Ops = {"add", "sub", "mul", "div", "cdiv", "pow", "neg", "abs", "conv", "fromreal"}
  Dump = TRUE
INVARIANT PlainAgree
INVARIANT ZeroDivAgree
INVARIANT ModerateAgree
INVARIANT PowIntAgree
INVARIANT AbsAgree
INVARIANT ConvAgree
INVARIANT StructConvAgree
INVARIANT Publish
CHECK_DEADLOCK FALSE
