SPECIFICATION Spec
CONSTANTS
  MaxLen = 4
  Dump = FALSE
  UseCache = FALSE
INVARIANT MostDerived
INVARIANT Publish
CHECK_DEADLOCK FALSE
