SPECIFICATION Spec
CONSTANTS
  MaxLen = 5
  Dump = FALSE
  UseCache = FALSE
INVARIANT MostDerived
INVARIANT Publish
CHECK_DEADLOCK FALSE
