SPECIFICATION Spec
CONSTANTS
  Mode = "real"
  AtomSet <- NoAtoms
  PairAtoms <- NoAtoms
  InnerAtoms <- NoAtoms
  PairOuter = FALSE
  Dump = TRUE
INVARIANT PublishReal
CHECK_DEADLOCK FALSE
