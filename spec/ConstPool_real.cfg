SPECIFICATION Spec
CONSTANTS
  Mode = "real"
  AtomSet <- NoAtoms
  InnerAtoms <- NoAtoms
  PairOuter = FALSE
  Dump = TRUE
INVARIANT PublishReal
CHECK_DEADLOCK FALSE
