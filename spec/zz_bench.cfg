SPECIFICATION Spec
CONSTANTS
  Level = 1
  Sites = {}
  Dump = FALSE
