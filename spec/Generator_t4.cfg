SPECIFICATION Spec
CONSTANTS
  MaxLen = 5
  Dump = TRUE
  BodySel = {25, 26, 27, 28, 29, 30, 31}
INVARIANT Consistent
INVARIANT FinallyOnce
INVARIANT CleanupOnDel
INVARIANT NoUnsup
INVARIANT Publish
PROPERTY Causal
CHECK_DEADLOCK FALSE
