SPECIFICATION Spec
INVARIANT TypeOK
INVARIANT Publish
CHECK_DEADLOCK FALSE
