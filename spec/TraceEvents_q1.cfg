SPECIFICATION Spec
CONSTANTS
  MaxFn = 2
  MaxDepth = 2
  RootKinds = {"def"}
  CalleeKinds = {"def"}
  RootSkel = {2, 3, 4, 11, 21}
  RootAtoms = {"ps", "rt", "rz", "bk", "c1", "r1"}
  SubSkel = {1, 2, 3, 4}
  SubAtomsD = {"ps", "rt", "rz"}
  SubAtomsG = {"yd"}
  Dump = TRUE
INVARIANT WellNested
INVARIANT StackShape
INVARIANT Balanced
INVARIANT OneStartOneEnd
INVARIANT Outcome
INVARIANT Bounded
INVARIANT WellFormed
INVARIANT Publish
INVARIANT PublishSkip
CHECK_DEADLOCK FALSE
