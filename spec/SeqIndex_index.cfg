SPECIFICATION Spec
CONSTANTS
  Part = "index"
  MaxLen = 4
  VMag = 6
  Mixed = FALSE
  Dump = TRUE
INVARIANT ImplAgrees
INVARIANT NoUB
INVARIANT ImplAgreesOffHazards
INVARIANT HazardsConfined
INVARIANT CropClamped
INVARIANT MacrosSound
INVARIANT RefSound
INVARIANT RefShape
INVARIANT Publish
CHECK_DEADLOCK FALSE
