----------------------------- MODULE ConstPool -----------------------------
(* C09, part 3: constants shared at compile time are never merged when       *)
(* CPython distinguishes them.                                              *)
(*                                                                          *)
(* A constant is an atom (int, float with sign bit, bool, None, str, bytes) *)
(* or a tuple (optionally with a constant repeat factor), a frozenset or a  *)
(* slice of constants, nested to depth 2.                                   *)
(*  Reference  : Obs(c), the value CPython builds: tuples positionally,      *)
(*               frozensets keep the FIRST of several equal members          *)
(*               (frozenset((1, 1.0)) = {1}, frozenset((1.0, 1)) = {1.0}),   *)
(*               floats keep their sign bit; ObsEq compares such values.     *)
(*  Impl-shaped: Code.GlobalState.get_py_const / dedup_const_index as a      *)
(*               state machine (Intern actions in program order; the first   *)
(*               constant with a key creates the slot, later ones reuse it)  *)
(*               and Key(c), the transcription of ExprNodes.make_dedup_key   *)
(*               UNDER PYTHON EQUALITY AND HASHING of the key (which is what *)
(*               the dict lookup does): an item is (node type, value up to   *)
(*               ==, Python type only for untyped object constants); tuple   *)
(*               and slice keys are sequences, a frozenset key is a SET.     *)
(* TLC decides for every ordered pair of Python-equal constants of the        *)
(* universe (and for ALL ordered pairs of a core universe) whether they      *)
(* share a slot and whether CPython distinguishes them; the pairs that       *)
(* share a slot although they differ are the hazards (published, replayed    *)
(* on the real compiler).  Invariants: a shared key implies Python equality; *)
(* every hazard is explained by exactly two root causes (sign of a float     *)
(* zero, order of equal frozenset members); the repaired key (FKey) merges   *)
(* only indistinguishable constants.                                        *)
(* Mode "real" (B3): the slot groups recorded from the real compiler's pool  *)
(* are read from IOEnv.RECORDS and judged with the same ObsEq.               *)
EXTENDS Integers, Sequences, FiniteSets, TLC, Json, IOUtils

CONSTANTS Mode,         \* "model" | "real"
          AtomSet,      \* atom names of the depth-1 universe
          PairAtoms,    \* atom names of the core depth-1 universe whose constants are paired with EVERY other one
          InnerAtoms,   \* atom names inside the inner containers of depth-2 constants ({} = depth 1 only)
          PairOuter,    \* BOOLEAN: depth-2 tuples / frozensets of two inner containers
          Dump

AllAtoms  == {"0", "1", "2", "B", "W", "0.0", "-0.0", "1.0", "Bf", "False", "True", "None", "'s'", "b's'"}
CoreAtoms == {"0", "0.0", "-0.0", "False", "1", "1.0", "True", "None"}
MidAtoms  == {"0", "0.0", "-0.0", "False", "1", "1.0", "True", "2", "B", "Bf", "None", "'s'"}
ZeroOne   == {"0", "0.0", "-0.0", "1", "1.0", "True"}
Zeros     == {"0.0", "-0.0", "1", "1.0"}
QuickAtoms == {"0", "0.0", "-0.0", "False", "1", "True"}
NoAtoms   == {}

VARIABLES hist, grp
vars == <<hist, grp>>

---------------------------------------------------------------------------
(* atoms: Python type, equality class (==), sign bit *)
PyType(n) == CASE n \in {"0", "1", "2", "B", "W"} -> "int"
               [] n \in {"0.0", "-0.0", "1.0", "Bf"} -> "float"
               [] n \in {"False", "True"} -> "bool"
               [] n = "None" -> "NoneType" [] n = "'s'" -> "str" [] n = "b's'" -> "bytes"
EqClass(n) == CASE n \in {"0", "0.0", "-0.0", "False"} -> "n0"
                [] n \in {"1", "1.0", "True"} -> "n1"
                [] n = "2" -> "n2"
                [] n \in {"B", "Bf"} -> "nB"           \* 2147483648 and 2147483648.0
                [] n = "W" -> "nW"                     \* 2**64 + 1
                [] OTHER -> n
\* type of the literal node after coercion to a Python object (IntNode -> int, FloatNode -> float, ...)
NodeType(n) == CASE PyType(n) = "int" -> "PyLong" [] PyType(n) = "float" -> "PyFloat" [] PyType(n) = "bool" -> "PyBool"
                 [] PyType(n) = "str" -> "PyUnicode" [] PyType(n) = "bytes" -> "PyBytes" [] OTHER -> "PyObject"

C(k, a, m, items) == [k |-> k, a |-> a, m |-> m, items |-> items]
Atom(n) == C("atom", n, 0, <<>>)
Tup(items, m) == C("tuple", "", m, items)      \* m = 0: no repeat factor; m = 2: `(items) * 2`
FS(items) == C("fset", "", 0, items)           \* frozenset((items))
SL(items) == C("slice", "", 0, items)          \* slice(start, stop, step)

---------------------------------------------------------------------------
(* reference: what CPython builds *)
RECURSIVE PyEq(_, _), ObsEq(_, _), Obs(_)
Expand(c) == IF c.k = "tuple" /\ c.m = 2 THEN c.items \o c.items ELSE c.items
\* the members a frozenset keeps: the first of every class of equal items
Range(s) == {s[i] : i \in 1..Len(s)}
FirstReps(items) == SelectSeq([i \in 1..Len(items) |-> [i |-> i, c |-> items[i]]],
                              LAMBDA e : \A j \in 1..(e.i - 1) : ~PyEq(items[j], e.c))
RepSet(c) == {e.c : e \in Range(FirstReps(c.items))}

PyEq(x, y) ==                                   \* Python's ==
  IF x.k # y.k THEN FALSE
  ELSE IF x.k = "atom" THEN EqClass(x.a) = EqClass(y.a)
  ELSE IF x.k = "fset" THEN /\ \A i \in 1..Len(x.items) : \E j \in 1..Len(y.items) : PyEq(x.items[i], y.items[j])
                            /\ \A j \in 1..Len(y.items) : \E i \in 1..Len(x.items) : PyEq(x.items[i], y.items[j])
  ELSE LET xs == Expand(x) ys == Expand(y) IN
       Len(xs) = Len(ys) /\ \A i \in 1..Len(xs) : PyEq(xs[i], ys[i])

ObsEq(x, y) ==                                  \* indistinguishable by type, value and sign bit of every part
  IF x.k # y.k THEN FALSE
  ELSE IF x.k = "atom" THEN x.a = y.a
  ELSE IF x.k = "fset" THEN /\ \A u \in RepSet(x) : \E w \in RepSet(y) : ObsEq(u, w)
                            /\ \A w \in RepSet(y) : \E u \in RepSet(x) : ObsEq(u, w)
  ELSE LET xs == Expand(x) ys == Expand(y) IN
       Len(xs) = Len(ys) /\ \A i \in 1..Len(xs) : ObsEq(xs[i], ys[i])

\* the value as a tree for the binding: repeat factor applied, frozenset members = first representatives
Obs(c) == IF c.k = "atom" THEN c
          ELSE IF c.k = "fset" THEN LET fr == FirstReps(c.items) IN C("fset", "", 0, [i \in 1..Len(fr) |-> Obs(fr[i].c)])
          ELSE LET xs == Expand(c) IN C(c.k, "", 0, [i \in 1..Len(xs) |-> Obs(xs[i])])

---------------------------------------------------------------------------
(* implementation-shaped: make_dedup_key under Python equality *)
KK(t, v, p, seq, set) == [t |-> t, v |-> v, p |-> p, seq |-> seq, set |-> set]
NoKey == KK("nokey", "", "", <<>>, {})           \* make_dedup_key returned None: the constant is not shared
NoneKey == KK("PyObject", "none", "NoneType", <<>>, {})

\* (node.type, node.constant_result, type(constant_result) if node.type is py_object_type else None):
\* the value component compares with ==, so only its equality class counts
\* fixed: the repair keeps the sign bit in the value component (e.g. repr() of a float)
AtomKey(n, fixed) == KK(NodeType(n), IF fixed THEN n ELSE EqClass(n), IF NodeType(n) = "PyObject" THEN PyType(n) ELSE "", <<>>, {})
MultKey(m) == IF m = 0 THEN NoneKey ELSE KK("CLong", "n2", "", <<>>, {})

DedupKey(outer, iks, asSet) ==
  IF \E i \in 1..Len(iks) : iks[i] = NoKey THEN NoKey
  ELSE IF asSet THEN KK(outer, "", "", <<>>, Range(iks)) ELSE KK(outer, "", "", iks, {})

RECURSIVE ItemKeyG(_, _)
ItemKeyG(c, fixed) ==
  IF c.k = "tuple" THEN DedupKey("tuple", <<MultKey(c.m)>> \o [i \in 1..Len(c.items) |-> ItemKeyG(c.items[i], fixed)], FALSE)
  ELSE IF c.k = "slice" THEN DedupKey("slice", [i \in 1..Len(c.items) |-> ItemKeyG(c.items[i], fixed)], FALSE)
  ELSE IF c.k = "atom" THEN AtomKey(c.a, fixed)
  ELSE NoKey        \* a frozenset node nested in another constant has no constant_result: the outer constant is not shared

\* fixed = FALSE: the code under test (frozenset key = SET of item keys);
\* fixed = TRUE : the repair (sign-preserving values, frozenset key = ordered first representatives)
TopKeyG(c, fixed) ==
  IF c.k = "tuple" THEN ItemKeyG(c, fixed)
  ELSE IF c.k = "slice" THEN DedupKey("slice", <<ItemKeyG(c, fixed)>>, FALSE)    \* make_dedup_key(self.type, (self,))
  ELSE IF c.k = "fset" THEN
       IF ~fixed THEN DedupKey("fset", [i \in 1..Len(c.items) |-> ItemKeyG(c.items[i], fixed)], TRUE)
       ELSE LET fr == FirstReps(c.items) IN
            DedupKey("fset", [i \in 1..Len(fr) |-> ItemKeyG(fr[i].c, fixed)], FALSE)
  ELSE KK("num", c.a, "", <<>>, {})     \* numbers / strings / None: own tables keyed by the literal text and type

Key(c)  == TopKeyG(c, FALSE)
FKey(c) == TopKeyG(c, TRUE)
Shared(a, b) == Key(a) # NoKey /\ Key(a) = Key(b)
FShared(a, b) == FKey(a) # NoKey /\ FKey(a) = FKey(b)

---------------------------------------------------------------------------
(* root causes *)
RECURSIVE ZN(_), SetEq(_, _)
ZN(c) == IF c.k = "atom" THEN (IF c.a = "-0.0" THEN Atom("0.0") ELSE c)       \* forget the sign of float zeros
         ELSE C(c.k, c.a, c.m, [i \in 1..Len(c.items) |-> ZN(c.items[i])])
SetEq(x, y) ==                                                                \* equal up to order / multiplicity of frozenset items
  IF x.k # y.k \/ x.a # y.a \/ x.m # y.m THEN FALSE
  ELSE IF x.k = "fset" THEN /\ \A i \in 1..Len(x.items) : \E j \in 1..Len(y.items) : SetEq(x.items[i], y.items[j])
                            /\ \A j \in 1..Len(y.items) : \E i \in 1..Len(x.items) : SetEq(x.items[i], y.items[j])
  ELSE Len(x.items) = Len(y.items) /\ \A i \in 1..Len(x.items) : SetEq(x.items[i], y.items[i])
\* why a shared pair is a hazard ("none": not shared, or indistinguishable)
Cause(a, b) == IF ~Shared(a, b) \/ ObsEq(a, b) THEN "none" ELSE IF ObsEq(ZN(a), ZN(b)) THEN "zero-sign" ELSE "fset-order"

---------------------------------------------------------------------------
(* the universe *)
Seqs(S, lens) == (IF 0 \in lens THEN {<<>>} ELSE {}) \cup (IF 1 \in lens THEN {<<x>> : x \in S} ELSE {})
                 \cup (IF 2 \in lens THEN {<<x, y>> : x \in S, y \in S} ELSE {})
Containers1(S) == {Tup(s, 0) : s \in Seqs(S, 0..2)} \cup {Tup(s, 2) : s \in Seqs(S, {1})}
                  \cup {FS(s) : s \in Seqs(S, 1..2)}
                  \cup {SL(<<x, y, Atom("None")>>) : x \in S, y \in S}
AtomsOf(names) == {Atom(n) : n \in names}
U1 == AtomsOf(AtomSet) \cup Containers1(AtomsOf(AtomSet))
I1 == Containers1(AtomsOf(InnerAtoms))
Hashable1 == {c \in I1 : c.k \in {"tuple", "fset"}}
Tag == Atom("2")
U2 == IF InnerAtoms = {} THEN {}
      ELSE {Tup(<<x>>, 0) : x \in I1} \cup {Tup(<<x, Tag>>, 0) : x \in I1} \cup {Tup(<<x>>, 2) : x \in Hashable1}
           \cup {FS(<<x>>) : x \in Hashable1}
           \cup {SL(<<x, Tag, Atom("None")>>) : x \in {c \in I1 : c.k = "tuple"}}
           \cup (IF PairOuter THEN {Tup(<<x, y>>, 0) : x \in Hashable1, y \in Hashable1} \cup {FS(<<x, y>>) : x \in Hashable1, y \in Hashable1}
                 ELSE {})
Universe == U1 \cup U2
CoreU == AtomsOf(PairAtoms) \cup Containers1(AtomsOf(PairAtoms))

(* constants Python-equal to c by construction: every atom replaced by an equal atom of the universe, *)
(* frozenset items also permuted                                                                       *)
RECURSIVE SeqProd(_), Perms(_), Variants(_, _)
SeqProd(ss) == IF ss = <<>> THEN {<<>>} ELSE {<<h>> \o t : h \in Head(ss), t \in SeqProd(Tail(ss))}
Without(s, i) == SubSeq(s, 1, i - 1) \o SubSeq(s, i + 1, Len(s))
Perms(s) == IF s = <<>> THEN {<<>>} ELSE UNION {{<<s[i]>> \o p : p \in Perms(Without(s, i))} : i \in 1..Len(s)}
Variants(c, names) ==
  IF c.k = "atom" THEN {Atom(n) : n \in {m \in names : EqClass(m) = EqClass(c.a)}}
  ELSE LET prods == SeqProd([i \in 1..Len(c.items) |-> Variants(c.items[i], names)])
       IN IF c.k = "fset" THEN UNION {{C(c.k, c.a, c.m, q) : q \in Perms(p)} : p \in prods}
          ELSE {C(c.k, c.a, c.m, p) : p \in prods}

---------------------------------------------------------------------------
Records == IF Mode = "real" THEN ndJsonDeserialize(IOEnv.RECORDS) ELSE <<>>

Init == hist = <<>> /\ grp = 0

InternFirst == /\ Mode # "real" /\ hist = <<>>
               /\ \E c \in Universe : hist' = <<c>>
               /\ UNCHANGED grp
\* a second constant that Python considers equal to the first (the only candidates for sharing)
InternEqualVariant == /\ Mode = "model" /\ Len(hist) = 1
                      /\ \E c \in (Variants(hist[1], AtomSet \cup InnerAtoms) \cap Universe) : hist' = Append(hist, c)
                      /\ UNCHANGED grp
\* any second constant of the core universe (decides that nothing else is ever shared)
InternAny == /\ Mode = "model" /\ Len(hist) = 1 /\ hist[1] \in CoreU
             /\ \E c \in CoreU : hist' = Append(hist, c)
             /\ UNCHANGED grp
\* B3: the constants the real compiler mapped to one slot, in the order it met them
PickGroup == /\ Mode = "real" /\ grp = 0
             /\ \E g \in 1..Len(Records) : grp' = g
             /\ UNCHANGED hist
InternReal == /\ Mode = "real" /\ grp > 0 /\ Len(hist) < Len(Records[grp].consts)
              /\ hist' = Append(hist, Records[grp].consts[Len(hist) + 1])
              /\ UNCHANGED grp

Next == InternFirst \/ InternEqualVariant \/ InternAny \/ PickGroup \/ InternReal
Spec == Init /\ [][Next]_vars

---------------------------------------------------------------------------
\* the pool after the history <<a, b>>: a creates its slot; b reuses it iff Shared(a, b), and then
\* the function written with b returns a
Pair == Mode # "real" /\ Len(hist) = 2

(* sharing never goes beyond Python equality ...                             *)
KeyImpliesPyEq == Pair => (Shared(hist[1], hist[2]) => PyEq(hist[1], hist[2]))
(* ... and what it merges wrongly is exactly: sign of float zeros, order of equal frozenset members *)
MergeExplained == Pair => (Shared(hist[1], hist[2]) => SetEq(ZN(hist[1]), ZN(hist[2])))
(* equal constants written the same way are shared (the pool does its job)   *)
SameTextShared == Pair => ((hist[1] = hist[2] /\ Key(hist[1]) # NoKey) => Shared(hist[1], hist[2]))
(* the repaired key merges only what CPython cannot tell apart, and still shares identical constants *)
FixedKeySound == Pair => (FShared(hist[1], hist[2]) => ObsEq(hist[1], hist[2]))
FixedKeyShares == Pair => ((hist[1] = hist[2] /\ Key(hist[1]) # NoKey) => FShared(hist[1], hist[2]))
(* reference sanity: ObsEq refines PyEq; Obs of a constant is a fixed point  *)
ObsRefinesEq == Pair => (ObsEq(hist[1], hist[2]) => PyEq(hist[1], hist[2]))
ObsIdempotent == Len(hist) >= 1 => ObsEq(Obs(hist[Len(hist)]), hist[Len(hist)])

Hazard == Pair /\ Shared(hist[1], hist[2]) /\ ~ObsEq(hist[1], hist[2])

PublishConst == (Dump /\ Mode # "real" /\ Len(hist) = 1) =>
                  PrintT("@@" \o ToJson([c |-> hist[1], obs |-> Obs(hist[1]), dedup |-> Key(hist[1]) # NoKey]))
PublishPair == (Dump /\ Pair /\ (Shared(hist[1], hist[2]) \/ PyEq(hist[1], hist[2]))) =>
                  PrintT("@@" \o ToJson([a |-> hist[1], b |-> hist[2], shared |-> Shared(hist[1], hist[2]),
                                          obseq |-> ObsEq(hist[1], hist[2]), cause |-> Cause(hist[1], hist[2]),
                                          fshared |-> FShared(hist[1], hist[2])]))
\* B3 verdict for one real slot group
PublishReal == (Mode = "real" /\ grp > 0 /\ Len(hist) = Len(Records[grp].consts)) =>
                  PrintT("@@" \o ToJson([slot |-> Records[grp].slot, n |-> Len(hist),
                                          ok |-> \A i \in 1..Len(hist) : ObsEq(hist[1], hist[i]),
                                          bad |-> {i \in 1..Len(hist) : ~ObsEq(hist[1], hist[i])},
                                          causes |-> {Cause(hist[1], hist[i]) : i \in 1..Len(hist)},
                                          model_shared |-> \A i \in 1..Len(hist) : Shared(hist[1], hist[i])]))
=============================================================================
