----------------------------- MODULE ConstPool -----------------------------
(* C09, part 3: constants shared at compile time are never merged when       *)
(* CPython distinguishes them.                                              *)
(*                                                                          *)
(* A constant is an atom (int, float with sign bit, bool, None, str, bytes) *)
(* or a tuple (optionally with a constant repeat factor), a frozenset or a  *)
(* slice of constants, nested to depth 2.                                   *)
(*  Reference  : Obs(c), the value CPython builds: tuples positionally,      *)
(*               frozensets keep the FIRST of several equal members          *)
(*               (frozenset((1, 1.0)) = {1}, frozenset((1.0, 1)) = {1.0}),   *)
(*               floats keep their sign bit; ObsEq compares such values.     *)
(*  Impl-shaped: Code.GlobalState.get_py_const / dedup_const_index as a      *)
(*               state machine (Intern actions in program order; the first   *)
(*               constant with a key creates the slot, later ones reuse it;  *)
(*               every nested container has a slot of its own: InternG)      *)
(*               and Key(c), the transcription of ExprNodes.make_dedup_key   *)
(*               UNDER PYTHON EQUALITY AND HASHING of the key (which is what *)
(*               the dict lookup does): an item is (node type, value up to   *)
(*               ==, Python type only for untyped object constants, repr()   *)
(*               of a float); tuple and slice keys are sequences; a          *)
(*               frozenset key is a SET of item keys only if all items are   *)
(*               atoms whose values are pairwise unequal, otherwise the      *)
(*               sequence of ALL item keys in the order written.             *)
(* TLC decides for every ordered pair of Python-equal constants of the        *)
(* universe (and for ALL ordered pairs of a core universe) whether they      *)
(* share a slot and whether CPython distinguishes them.  Invariants: a       *)
(* shared key implies that CPython cannot tell the constants apart           *)
(* (SharedImpliesObsEq), whatever the pool hands out is indistinguishable    *)
(* from the constant as written (PoolSound); the pairs that Python considers *)
(* equal although they differ (sign of a float zero, order of equal          *)
(* frozenset members, type of equal numbers: Diff) are published and         *)
(* replayed on the real compiler first.                                     *)
(* Mode "real" (B3): the slot groups recorded from the real compiler's pool  *)
(* are read from IOEnv.RECORDS and judged with the same ObsEq.               *)
EXTENDS Integers, Sequences, FiniteSets, TLC, Json, IOUtils

CONSTANTS Mode,         \* "model" | "real"
          AtomSet,      \* atom names of the depth-1 universe
          PairAtoms,    \* atom names of the core depth-1 universe whose constants are paired with EVERY other one
          InnerAtoms,   \* atom names inside the inner containers of depth-2 constants ({} = depth 1 only)
          PairOuter,    \* BOOLEAN: depth-2 tuples / frozensets of two inner containers
          Dump

AllAtoms  == {"0", "1", "2", "B", "W", "0.0", "-0.0", "1.0", "Bf", "False", "True", "None", "'s'", "b's'"}
CoreAtoms == {"0", "0.0", "-0.0", "False", "1", "1.0", "True", "None"}
MidAtoms  == {"0", "0.0", "-0.0", "False", "1", "1.0", "True", "2", "B", "Bf", "None", "'s'"}
ZeroOne   == {"0", "0.0", "-0.0", "1", "1.0", "True"}
Zeros     == {"0.0", "-0.0", "1", "1.0"}
Zeros3    == {"0.0", "-0.0", "1"}
QuickAtoms == {"0", "0.0", "-0.0", "False", "1", "True"}
NoAtoms   == {}

VARIABLES hist, grp
vars == <<hist, grp>>

---------------------------------------------------------------------------
(* atoms: Python type, equality class (==), sign bit *)
PyType(n) == CASE n \in {"0", "1", "2", "B", "W", "T"} -> "int"
               [] n \in {"0.0", "-0.0", "1.0", "Bf"} -> "float"
               [] n \in {"False", "True"} -> "bool"
               [] n = "None" -> "NoneType" [] n = "'s'" -> "str" [] n = "b's'" -> "bytes"
EqClass(n) == CASE n \in {"0", "0.0", "-0.0", "False"} -> "n0"
                [] n \in {"1", "1.0", "True"} -> "n1"
                [] n = "2" -> "n2"
                [] n \in {"B", "Bf"} -> "nB"           \* 2147483648 and 2147483648.0
                [] n = "W" -> "nW"                     \* 2**64 + 1
                [] n = "T" -> "nT"                     \* the tag: an int different from every other one
                [] OTHER -> n
\* type of the literal node after coercion to a Python object (IntNode -> int, FloatNode -> float, ...)
NodeType(n) == CASE PyType(n) = "int" -> "PyLong" [] PyType(n) = "float" -> "PyFloat" [] PyType(n) = "bool" -> "PyBool"
                 [] PyType(n) = "str" -> "PyUnicode" [] PyType(n) = "bytes" -> "PyBytes" [] OTHER -> "PyObject"

C(k, a, m, items) == [k |-> k, a |-> a, m |-> m, items |-> items]
Atom(n) == C("atom", n, 0, <<>>)
Tup(items, m) == C("tuple", "", m, items)      \* m = 0: no repeat factor; m = 2: `(items) * 2`
FS(items) == C("fset", "", 0, items)           \* frozenset((items))
SL(items) == C("slice", "", 0, items)          \* slice(start, stop, step)

---------------------------------------------------------------------------
(* reference: what CPython builds *)
RECURSIVE PyEq(_, _), ObsEq(_, _), Obs(_)
Expand(c) == IF c.k = "tuple" /\ c.m = 2 THEN c.items \o c.items ELSE c.items
\* the members a frozenset keeps: the first of every class of equal items
Range(s) == {s[i] : i \in 1..Len(s)}
FirstReps(items) == SelectSeq([i \in 1..Len(items) |-> [i |-> i, c |-> items[i]]],
                              LAMBDA e : \A j \in 1..(e.i - 1) : ~PyEq(items[j], e.c))
RepSet(c) == {e.c : e \in Range(FirstReps(c.items))}

PyEq(x, y) ==                                   \* Python's ==
  IF x.k # y.k THEN FALSE
  ELSE IF x.k = "atom" THEN EqClass(x.a) = EqClass(y.a)
  ELSE IF x.k = "fset" THEN /\ \A i \in 1..Len(x.items) : \E j \in 1..Len(y.items) : PyEq(x.items[i], y.items[j])
                            /\ \A j \in 1..Len(y.items) : \E i \in 1..Len(x.items) : PyEq(x.items[i], y.items[j])
  ELSE LET xs == Expand(x) ys == Expand(y) IN
       Len(xs) = Len(ys) /\ \A i \in 1..Len(xs) : PyEq(xs[i], ys[i])

ObsEq(x, y) ==                                  \* indistinguishable by type, value and sign bit of every part
  IF x.k # y.k THEN FALSE
  ELSE IF x.k = "atom" THEN x.a = y.a
  ELSE IF x.k = "fset" THEN /\ \A u \in RepSet(x) : \E w \in RepSet(y) : ObsEq(u, w)
                            /\ \A w \in RepSet(y) : \E u \in RepSet(x) : ObsEq(u, w)
  ELSE LET xs == Expand(x) ys == Expand(y) IN
       Len(xs) = Len(ys) /\ \A i \in 1..Len(xs) : ObsEq(xs[i], ys[i])

\* the value as a tree for the binding: repeat factor applied, frozenset members = first representatives
Obs(c) == IF c.k = "atom" THEN c
          ELSE IF c.k = "fset" THEN LET fr == FirstReps(c.items) IN C("fset", "", 0, [i \in 1..Len(fr) |-> Obs(fr[i].c)])
          ELSE LET xs == Expand(c) IN C(c.k, "", 0, [i \in 1..Len(xs) |-> Obs(xs[i])])

---------------------------------------------------------------------------
(* implementation-shaped: make_dedup_key under Python equality *)
KK(t, v, p, r, seq, set) == [t |-> t, v |-> v, p |-> p, r |-> r, seq |-> seq, set |-> set]
NoKey == KK("nokey", "", "", "", <<>>, {})       \* make_dedup_key returned None: the constant is not shared
NoneKey == KK("PyObject", "none", "NoneType", "", <<>>, {})

\* (node.type, node.constant_result, type(constant_result) if node.type is py_object_type else None,
\*  repr(constant_result) if it is a float else None):
\* the value component compares with ==, so only its equality class counts; the repr keeps the sign of a float zero
AtomKey(n) == KK(NodeType(n), EqClass(n), IF NodeType(n) = "PyObject" THEN PyType(n) ELSE "",
                 IF PyType(n) = "float" THEN n ELSE "", <<>>, {})
MultKey(m) == IF m = 0 THEN NoneKey ELSE KK("CLong", "n2", "", "", <<>>, {})

DedupKey(outer, iks, asSet) ==
  IF \E i \in 1..Len(iks) : iks[i] = NoKey THEN NoKey
  ELSE IF asSet THEN KK(outer, "", "", "", <<>>, Range(iks)) ELSE KK(outer, "", "", "", iks, {})

RECURSIVE ItemKeyG(_)
ItemKeyG(c) ==
  IF c.k = "tuple" THEN DedupKey("tuple", <<MultKey(c.m)>> \o [i \in 1..Len(c.items) |-> ItemKeyG(c.items[i])], FALSE)
  ELSE IF c.k = "slice" THEN DedupKey("slice", [i \in 1..Len(c.items) |-> ItemKeyG(c.items[i])], FALSE)
  ELSE IF c.k = "atom" THEN AtomKey(c.a)
  ELSE NoKey        \* a frozenset node nested in another constant has no constant_result: the outer constant is not shared

\* frozenset: unique_keys = frozenset(item_keys); the key is that set only if no item is a sequence constructor or
\* a slice and the values key[1] of the unique keys are pairwise unequal (then no item can hide another one);
\* otherwise it is tuple(item_keys): order and multiplicity as written
FsetKey(c) ==
  LET iks == [i \in 1..Len(c.items) |-> ItemKeyG(c.items[i])]
      hasContainers == \E i \in 1..Len(c.items) : c.items[i].k \in {"tuple", "slice"}
      unique == Range(iks)
  IN IF ~hasContainers /\ Cardinality({k.v : k \in unique}) = Cardinality(unique)
     THEN DedupKey("fset", iks, TRUE) ELSE DedupKey("fset", iks, FALSE)

TopKeyG(c) ==
  IF c.k = "tuple" THEN ItemKeyG(c)
  ELSE IF c.k = "slice" THEN DedupKey("slice", <<ItemKeyG(c)>>, FALSE)    \* make_dedup_key(self.type, (self,))
  ELSE IF c.k = "fset" THEN FsetKey(c)
  ELSE KK("num", c.a, "", "", <<>>, {})     \* numbers / strings / None: own tables keyed by the literal text and type

Key(c)  == TopKeyG(c)
Shared(a, b) == Key(a) # NoKey /\ Key(a) = Key(b)

---------------------------------------------------------------------------
(* the pool: get_py_const + the code that initialises a new constant.  Every literal container node,   *)
(* at any depth, asks the pool for a slot with its own key; a hit returns the constant that created the *)
(* slot (its items are not looked at again), a miss builds the constant from the slots of its items.    *)
(* A pool is a set of <<key, constant as built>>.                                                        *)
RECURSIVE InternG(_, _), InternItems(_, _)
InternG(pool, c) ==
  IF c.k = "atom" THEN [pool |-> pool, val |-> c]
  ELSE LET k == TopKeyG(c) IN
       IF k # NoKey /\ \E e \in pool : e[1] = k
       THEN [pool |-> pool, val |-> (CHOOSE e \in pool : e[1] = k)[2]]
       ELSE LET r == InternItems(pool, c.items)
                v == C(c.k, c.a, c.m, r.vals)
            IN [pool |-> IF k # NoKey THEN r.pool \cup {<<k, v>>} ELSE r.pool, val |-> v]
InternItems(pool, items) ==
  IF items = <<>> THEN [pool |-> pool, vals |-> <<>>]
  ELSE LET h == InternG(pool, Head(items))
           t == InternItems(h.pool, Tail(items))
       IN [pool |-> t.pool, vals |-> <<h.val>> \o t.vals]

\* what the function written with `a` returns in a module that contains only a ...
Alone(a) == InternG({}, a).val
\* ... and what the function written with b returns when a comes first
After(a, b) == InternG(InternG({}, a).pool, b).val

---------------------------------------------------------------------------
(* reference side: in what way two Python-equal constants differ for CPython *)
RECURSIVE ZN(_), SetEq(_, _), Subs(_)
ZN(c) == IF c.k = "atom" THEN (IF c.a = "-0.0" THEN Atom("0.0") ELSE c)       \* forget the sign of float zeros
         ELSE C(c.k, c.a, c.m, [i \in 1..Len(c.items) |-> ZN(c.items[i])])
SetEq(x, y) ==                                                                \* equal up to order / multiplicity of frozenset items
  IF x.k # y.k \/ x.a # y.a \/ x.m # y.m THEN FALSE
  ELSE IF x.k = "fset" THEN /\ \A i \in 1..Len(x.items) : \E j \in 1..Len(y.items) : SetEq(x.items[i], y.items[j])
                            /\ \A j \in 1..Len(y.items) : \E i \in 1..Len(x.items) : SetEq(x.items[i], y.items[j])
  ELSE Len(x.items) = Len(y.items) /\ \A i \in 1..Len(x.items) : SetEq(x.items[i], y.items[i])
\* how the constant `got` differs from the Python-equal constant `c`: not at all, only in the sign of float zeros,
\* (also) in which of several equal members a frozenset keeps, or in the type of equal numbers (1, 1.0, True)
Cause(c, got) == IF ObsEq(c, got) THEN "none" ELSE IF ObsEq(ZN(c), ZN(got)) THEN "zero-sign"
                 ELSE IF SetEq(ZN(c), ZN(got)) THEN "fset-order" ELSE "num-type"
\* the containers inside a constant (each of them asks the pool for a slot)
Subs(c) == IF c.k = "atom" THEN {} ELSE {c} \cup UNION {Subs(c.items[i]) : i \in 1..Len(c.items)}
\* a pool that merged by Python equality would hand out a distinguishable constant somewhere in a, b:
\* the cases in which sharing has to be refused (replayed first by the binding)
Sensitive(a, b) == \E x, y \in Subs(a) \cup Subs(b) : PyEq(x, y) /\ ~ObsEq(x, y)
Diff(a, b) == IF PyEq(a, b) /\ ~ObsEq(a, b) THEN Cause(b, a)
              ELSE IF Sensitive(a, b) THEN "inner" ELSE IF PyEq(a, b) THEN "none" ELSE "unequal"

---------------------------------------------------------------------------
(* the universe *)
Seqs(S, lens) == (IF 0 \in lens THEN {<<>>} ELSE {}) \cup (IF 1 \in lens THEN {<<x>> : x \in S} ELSE {})
                 \cup (IF 2 \in lens THEN {<<x, y>> : x \in S, y \in S} ELSE {})
Containers1(S) == {Tup(s, 0) : s \in Seqs(S, 0..2)} \cup {Tup(s, 2) : s \in Seqs(S, {1})}
                  \cup {FS(s) : s \in Seqs(S, 1..2)}
                  \cup {SL(<<x, y, Atom("None")>>) : x \in S, y \in S}
AtomsOf(names) == {Atom(n) : n \in names}
U1 == AtomsOf(AtomSet) \cup Containers1(AtomsOf(AtomSet))
I1 == Containers1(AtomsOf(InnerAtoms))
Hashable1 == {c \in I1 : c.k \in {"tuple", "fset"}}
Tag == Atom("2")
U2 == IF InnerAtoms = {} THEN {}
      ELSE {Tup(<<x>>, 0) : x \in I1} \cup {Tup(<<x, Tag>>, 0) : x \in I1} \cup {Tup(<<x>>, 2) : x \in Hashable1}
           \cup {FS(<<x>>) : x \in Hashable1}
           \cup {SL(<<x, Tag, Atom("None")>>) : x \in {c \in I1 : c.k = "tuple"}}
           \cup (IF PairOuter THEN {Tup(<<x, y>>, 0) : x \in Hashable1, y \in Hashable1} \cup {FS(<<x, y>>) : x \in Hashable1, y \in Hashable1}
                 ELSE {})
Universe == U1 \cup U2
CoreU == AtomsOf(PairAtoms) \cup Containers1(AtomsOf(PairAtoms))

(* constants Python-equal to c by construction: every atom replaced by an equal atom of the universe, *)
(* frozenset items also permuted                                                                       *)
RECURSIVE SeqProd(_), Perms(_), Variants(_, _)
SeqProd(ss) == IF ss = <<>> THEN {<<>>} ELSE {<<h>> \o t : h \in Head(ss), t \in SeqProd(Tail(ss))}
Without(s, i) == SubSeq(s, 1, i - 1) \o SubSeq(s, i + 1, Len(s))
Perms(s) == IF s = <<>> THEN {<<>>} ELSE UNION {{<<s[i]>> \o p : p \in Perms(Without(s, i))} : i \in 1..Len(s)}
Variants(c, names) ==
  IF c.k = "atom" THEN {Atom(n) : n \in {m \in names : EqClass(m) = EqClass(c.a)}}
  ELSE LET prods == SeqProd([i \in 1..Len(c.items) |-> Variants(c.items[i], names)])
       IN IF c.k = "fset" THEN UNION {{C(c.k, c.a, c.m, q) : q \in Perms(p)} : p \in prods}
          ELSE {C(c.k, c.a, c.m, p) : p \in prods}

---------------------------------------------------------------------------
Records == IF Mode = "real" THEN ndJsonDeserialize(IOEnv.RECORDS) ELSE <<>>

Init == hist = <<>> /\ grp = 0

InternFirst == /\ Mode # "real" /\ hist = <<>>
               /\ \E c \in Universe : hist' = <<c>>
               /\ UNCHANGED grp
\* a second constant that Python considers equal to the first (the only candidates for sharing)
InternEqualVariant == /\ Mode = "model" /\ Len(hist) = 1
                      /\ \E c \in (Variants(hist[1], AtomSet \cup InnerAtoms) \cap Universe) : hist' = Append(hist, c)
                      /\ UNCHANGED grp
\* any second constant of the core universe (decides that nothing else is ever shared)
InternAny == /\ Mode = "model" /\ Len(hist) = 1 /\ hist[1] \in CoreU
             /\ \E c \in CoreU : hist' = Append(hist, c)
             /\ UNCHANGED grp
\* B3: the constants the real compiler mapped to one slot, in the order it met them
PickGroup == /\ Mode = "real" /\ grp = 0
             /\ \E g \in 1..Len(Records) : grp' = g
             /\ UNCHANGED hist
InternReal == /\ Mode = "real" /\ grp > 0 /\ Len(hist) < Len(Records[grp].consts)
              /\ hist' = Append(hist, Records[grp].consts[Len(hist) + 1])
              /\ UNCHANGED grp

Next == InternFirst \/ InternEqualVariant \/ InternAny \/ PickGroup \/ InternReal
Spec == Init /\ [][Next]_vars

---------------------------------------------------------------------------
Pair == Mode # "real" /\ Len(hist) = 2
A == hist[1]
B == hist[2]

(* sharing never goes beyond Python equality, in fact never beyond what CPython can tell apart ...      *)
KeyImpliesPyEq == Pair => (Shared(A, B) => PyEq(A, B))
SharedImpliesObsEq == Pair => (Shared(A, B) => ObsEq(A, B))
(* ... and whatever the pool hands out (at any depth: inner containers have slots of their own) is       *)
(* indistinguishable from the constant as written: full agreement of the pool with the reference         *)
PoolSound == /\ Len(hist) >= 1 /\ Mode # "real" => ObsEq(Alone(A), A)
             /\ Pair => ObsEq(After(A, B), B)
(* a top-level hit hands out exactly what the first constant evaluates to    *)
HitReturnsFirst == Pair => (Shared(A, B) => After(A, B) = Alone(A))
(* equal constants written the same way are shared (the pool does its job)   *)
SameTextShared == Pair => ((A = B /\ Key(A) # NoKey) => Shared(A, B))
(* reference sanity: ObsEq refines PyEq; Obs of a constant is a fixed point  *)
ObsRefinesEq == Pair => (ObsEq(A, B) => PyEq(A, B))
ObsIdempotent == Len(hist) >= 1 => ObsEq(Obs(hist[Len(hist)]), hist[Len(hist)])

(* Tagging: the binding may add one and the same fresh int ("T", a different number for every pair) as  *)
(* an extra item to every container of both constants of a pair (as the step of a slice without one).   *)
(* Then no container of one pair can meet a container of another pair in the pool, so any number of     *)
(* pairs can be replayed in one module.  The lemma says that the verdicts do not change (the expected   *)
(* value of a tagged constant is Obs(Tagged(c)) in any case).                                           *)
TagAtom == Atom("T")
RECURSIVE Tagged(_)
Tagged(c) == IF c.k = "atom" THEN c
             ELSE IF c.k = "slice"
                  THEN C("slice", "", 0, <<Tagged(c.items[1]), Tagged(c.items[2]),
                                           IF c.items[3] = Atom("None") THEN TagAtom ELSE Tagged(c.items[3])>>)
             ELSE C(c.k, c.a, c.m, [i \in 1..Len(c.items) |-> Tagged(c.items[i])] \o <<TagAtom>>)
\* (0, 0) == (0,) * 2, but (0, 0, T) # (0, T) * 2: where such an equality decides which member a frozenset
\* keeps, tagging changes the value; these constants are replayed in plain form only
RECURSIVE RepeatInFset(_, _)
RepeatInFset(c, inside) == IF c.k = "atom" THEN FALSE
                           ELSE (inside /\ c.m = 2) \/ \E i \in 1..Len(c.items) : RepeatInFset(c.items[i], inside \/ c.k = "fset")
Taggable(a, b) == ~RepeatInFset(a, FALSE) /\ ~RepeatInFset(b, FALSE)
TaggingLemma == /\ Len(hist) >= 1 /\ Mode # "real" /\ Taggable(A, A) => Alone(Tagged(A)) = Tagged(Alone(A))
                /\ Pair /\ Taggable(A, B) =>
                           /\ Shared(Tagged(A), Tagged(B)) = Shared(A, B)
                           /\ After(Tagged(A), Tagged(B)) = Tagged(After(A, B))
                           /\ ~PyEq(A, B) => ~PyEq(Tagged(A), Tagged(B))

(* near misses: constants that Python does NOT consider equal although they are built alike -- the same  *)
(* items in another container or with another repeat factor, or one item of another value.  They must    *)
(* never share a slot; they are published so that the binding exercises exactly these on the real pool.  *)
Near(a, b) == /\ a.k # "atom" /\ b.k # "atom" /\ ~PyEq(a, b)
              /\ Len(a.items) = Len(b.items) /\ Len(a.items) > 0
              /\ \/ \A i \in 1..Len(a.items) : PyEq(a.items[i], b.items[i])                    \* other kind / repeat factor
                 \/ /\ a.k = b.k /\ a.m = b.m                                                    \* exactly one item differs
                    /\ Cardinality({i \in 1..Len(a.items) : ~PyEq(a.items[i], b.items[i])}) = 1
NearMissesNotShared == Pair => (Near(A, B) => ~Shared(A, B))

\* diff: the reference-side class of the case (how the two constants, or containers inside them, differ although
\* Python considers them equal); the pool itself is proven sound, so there is no deviation to predict
PublishConst == (Dump /\ Mode # "real" /\ Len(hist) = 1) =>
                  PrintT("@@" \o ToJson([c |-> A, obs |-> Obs(A), dedup |-> Key(A) # NoKey,
                                          tc |-> Tagged(A), tobs |-> Obs(Tagged(A)),
                                          diff |-> Diff(A, A)]))
PublishPair == (Dump /\ Pair /\ (Shared(A, B) \/ PyEq(A, B) \/ Near(A, B))) =>
                  PrintT("@@" \o ToJson([a |-> A, b |-> B, shared |-> Shared(A, B), obseq |-> ObsEq(A, B), pyeq |-> PyEq(A, B),
                                          diff |-> Diff(A, B), near |-> Near(A, B), taggable |-> Taggable(A, B)]))
\* B3 verdict for one real slot group
PublishReal == (Mode = "real" /\ grp > 0 /\ Len(hist) = Len(Records[grp].consts)) =>
                  PrintT("@@" \o ToJson([slot |-> Records[grp].slot, n |-> Len(hist),
                                          ok |-> \A i \in 1..Len(hist) : ObsEq(hist[1], hist[i]),
                                          bad |-> {i \in 1..Len(hist) : ~ObsEq(hist[1], hist[i])},
                                          causes |-> {Cause(hist[i], hist[1]) : i \in 1..Len(hist)},
                                          model_shared |-> \A i \in 1..Len(hist) : Shared(hist[1], hist[i])]))
=============================================================================
