-------------------------- MODULE CpdefDispatch --------------------------
(* C27: a call of a cpdef method runs the implementation Python attribute   *)
(* lookup would select, from Python and from C.                             *)
(*                                                                          *)
(* Hierarchy: cdef class Ext (cpdef m), cdef class Sub(Ext) overriding m in *)
(* the vtable; cdef class A2 (cdef f), B2(A2) (cpdef f), Python Q(B2);      *)
(* the vtable; Python classes A(Ext), B(A), P(Sub); instances a:A, b:B,     *)
(* p:P.  Overrides can be stored in / removed from each Python class dict   *)
(* and each instance dict.                                                  *)
(* Reference  : Python lookup - instance dict, then the MRO's class dicts,  *)
(*              then the extension type's own method.                       *)
(* Impl-shaped: OverrideCheckNode (Compiler/Nodes.py) of the C entry point: *)
(*   ONE pair of static variables <<tp_dict_version, obj_dict_version>> per *)
(*   method; if both equal the versions of Py_TYPE(o)'s OWN dict and of o's *)
(*   instance dict the lookup is skipped and the C implementation runs;     *)
(*   otherwise getattr: an override is called (versions untouched), else    *)
(*   the versions are stored.  Dict versions are CPython's global counter   *)
(*   (unique per modification).  UseCache = FALSE models builds without     *)
(*   dict versions (the default on Python 3.12): always getattr.            *)
EXTENDS Naturals, Sequences, FiniteSets, TLC, Json

CONSTANTS MaxLen, Dump, UseCache

PyClasses == {"A", "B", "P", "Q"}
Objs == {"a", "b", "p", "q"}
TypeOf(o) == CASE o = "a" -> "A" [] o = "b" -> "B" [] o = "p" -> "P" [] o = "q" -> "Q"
MRO(c) == CASE c = "A" -> <<"A">> [] c = "B" -> <<"B", "A">> [] c = "P" -> <<"P">> [] c = "Q" -> <<"Q">>
BaseImpl(c) == IF c = "P" THEN "Sub" ELSE IF c = "Q" THEN "B2" ELSE "Ext"        \* what the vtable / type slot of the extension base runs

VARIABLES cls,     \* Python class -> override present in its own dict?
          inst,    \* instance -> override present in its instance dict?
          tpver,   \* Python class -> version of its own dict
          objver,  \* instance -> version of its instance dict (0 = no dict yet)
          gver,    \* CPython's global dict version counter
          site,    \* the static <<tp version, obj version>> of Ext.m's and Sub.m's C entry points
          hist
vars == <<cls, inst, tpver, objver, gver, site, hist>>

RECURSIVE FirstOverride(_)
FirstOverride(m) == IF m = <<>> THEN "" ELSE IF cls[Head(m)] THEN Head(m) ELSE FirstOverride(Tail(m))

(* which implementation Python lookup selects for o.m *)
Lookup(o) == IF inst[o] THEN "inst_" \o o
             ELSE LET c == FirstOverride(MRO(TypeOf(o))) IN IF c # "" THEN "cls_" \o c ELSE BaseImpl(TypeOf(o))

(* the C entry point that a C-level call o.m() reaches through the vtable *)
Entry(o) == BaseImpl(TypeOf(o))

(* C-level call: <<implementation that runs, new site state>> *)
CCall(o) ==
  LET e == Entry(o) t == TypeOf(o)
      matches == UseCache /\ site[e][1] = tpver[t] /\ site[e][2] = objver[o]
  IN IF matches THEN <<e, site>>
     ELSE LET l == Lookup(o) IN
          IF l # e THEN <<l, site>>
          ELSE <<e, [site EXCEPT ![e] = <<tpver[t], objver[o]>>]>>

Init == /\ cls = [c \in PyClasses |-> FALSE] /\ inst = [o \in Objs |-> FALSE]
        /\ tpver = [c \in PyClasses |-> IF c = "A" THEN 1 ELSE IF c = "B" THEN 2 ELSE IF c = "P" THEN 3 ELSE 4]
        /\ objver = [o \in Objs |-> 0]
        /\ gver = 4
        /\ site = [e \in {"Ext", "Sub", "B2"} |-> <<0, 0>>]      \* __PYX_DICT_VERSION_INIT never matches a real type dict
        /\ hist = <<>>

Log(op, x, ran, want) == hist' = Append(hist, [op |-> op, x |-> x, ran |-> ran, want |-> want])

SetCls(c) == /\ ~cls[c] /\ cls' = [cls EXCEPT ![c] = TRUE]
             /\ gver' = gver + 1 /\ tpver' = [tpver EXCEPT ![c] = gver + 1]
             /\ UNCHANGED <<inst, objver, site>> /\ Log("setcls", c, "", "")
DelCls(c) == /\ cls[c] /\ cls' = [cls EXCEPT ![c] = FALSE]
             /\ gver' = gver + 1 /\ tpver' = [tpver EXCEPT ![c] = gver + 1]
             /\ UNCHANGED <<inst, objver, site>> /\ Log("delcls", c, "", "")
SetInst(o) == /\ ~inst[o] /\ inst' = [inst EXCEPT ![o] = TRUE]
              /\ gver' = gver + 1 /\ objver' = [objver EXCEPT ![o] = gver + 1]
              /\ UNCHANGED <<cls, tpver, site>> /\ Log("setinst", o, "", "")
DelInst(o) == /\ inst[o] /\ inst' = [inst EXCEPT ![o] = FALSE]
              /\ gver' = gver + 1 /\ objver' = [objver EXCEPT ![o] = gver + 1]
              /\ UNCHANGED <<cls, tpver, site>> /\ Log("delinst", o, "", "")
CallC(o) == /\ site' = CCall(o)[2]
            /\ UNCHANGED <<cls, inst, tpver, objver, gver>>
            /\ Log("callc", o, CCall(o)[1], Lookup(o))
(* a Python-level call goes through Python's own lookup; the wrapper passes skip_dispatch *)
CallPy(o) == /\ UNCHANGED <<cls, inst, tpver, objver, gver, site>>
             /\ Log("callpy", o, Lookup(o), Lookup(o))

More == Len(hist) < MaxLen
DoSetCls == More /\ \E c \in PyClasses : SetCls(c)
DoDelCls == More /\ \E c \in PyClasses : DelCls(c)
DoSetInst == More /\ \E o \in Objs : SetInst(o)
DoDelInst == More /\ \E o \in Objs : DelInst(o)
DoCallC == More /\ \E o \in Objs : CallC(o)
DoCallPy == More /\ \E o \in Objs : CallPy(o)
(* q:Q is a Python subclass of cdef class B2(A2) where A2 declares `cdef f` and B2 re-declares it `cpdef f`:   *)
(* a C call through an A2-typed reference reaches B2.f through a generated forwarding function in A2's vtable   *)
(* slot, which must NOT skip the override dispatch                                                              *)
CallCB(o) == /\ o = "q"
             /\ site' = CCall(o)[2]
             /\ UNCHANGED <<cls, inst, tpver, objver, gver>>
             /\ Log("callcb", o, CCall(o)[1], Lookup(o))
DoCallCB == More /\ \E o \in Objs : CallCB(o)
Next == DoSetCls \/ DoDelCls \/ DoSetInst \/ DoDelInst \/ DoCallC \/ DoCallPy \/ DoCallCB
Spec == Init /\ [][Next]_vars

(* the property on the implementation-shaped model *)
MostDerived == \A i \in 1..Len(hist) : hist[i].ran = hist[i].want

(* histories where the transcribed cache goes wrong are marked so that the binding can look at exactly these *)
Publish == (Dump /\ Len(hist) = MaxLen) =>
   PrintT("@@" \o ToJson([h |-> [i \in 1..Len(hist) |-> [op |-> hist[i].op, x |-> hist[i].x, want |-> hist[i].want, ran |-> hist[i].ran]],
                          stale |-> \E i \in 1..Len(hist) : hist[i].ran # hist[i].want]))
=============================================================================
