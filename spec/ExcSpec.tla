------------------------------ MODULE ExcSpec ------------------------------
(* C32: exception specifications of cdef/cpdef functions.                     *)
(*  Reference  : Ref(c), the documented rules ("Error return values" in      *)
(*               docs/src/userguide/language_basics.rst): an exception raised *)
(*               in the body reaches the caller unless the function is        *)
(*               `noexcept` (then: one unraisable report, default value); a   *)
(*               returned value is a value, except the documented misuse      *)
(*               "`except v` function returns v" (demand: some exception, no  *)
(*               crash).                                                      *)
(*  Impl-shaped: the two-variable protocol <<ret, err>>.  Eff() transcribes   *)
(*               CFuncDeclaratorNode.analyse (implicit exception value of the *)
(*               return type unless class scope / pointer declarator, object  *)
(*               returns use NULL), CalleeExit the error exit of              *)
(*               FuncDefNode.generate_function_definitions (error value +     *)
(*               traceback, or WriteUnraisable + default value), CallerCheck  *)
(*               the test emitted by ExprNodes (ret == v, && PyErr_Occurred). *)
(* A case is one call chain: callee -> [C caller declared `except *`] -> def  *)
(* wrapper -> Python.  Each hop has the callee's view and the caller's view   *)
(* of the function type (they differ for calls through a function pointer).   *)
(* Values are tags (strings); "any" = unspecified (struct without default).   *)
(* Typed numeric layer (WTypes): the C integer types of every width and       *)
(* signedness and `float`.  A body / clause literal is converted to the return *)
(* type (ConvT: wrap-around modulo 2^bits, rounding to float); the caller's    *)
(* test is the C expression `ret == (T)v`, evaluated with the integer          *)
(* promotions and usual arithmetic conversions (EqC).  SentCast = "rtype" is   *)
(* the design (the sentinel is converted to the return type before the test);  *)
(* "none" compares with the bare literal and exists only to show that the      *)
(* invariants notice the difference (ExcSpec_nocast.cfg must be violated).     *)
EXTENDS Integers, Sequences, TLC, Json, FiniteSets

CONSTANTS Kinds,       \* subset of {"cdef", "cpdef", "meth", "cpmeth"}
          CrossPtr,    \* TRUE: pointer types with every specification (assignability study)
          Legacy,      \* subset of BOOLEAN: directive legacy_implicit_noexcept (only for cdef functions / methods)
          WTypes,      \* typed numeric return types (subset of DOMAIN IntInfo \ {"int"}, plus "float")
          WKinds,      \* kinds that are combined with WTypes
          SentCast,    \* "rtype" | "none": type the caller's test gives the sentinel (see above)
          Dump

Specs  == {"exc_v", "exc_q", "exc_star", "noexc", "dflt"}
BaseRT == {"int", "double", "ptr", "struct", "void", "object"}
RTypes == BaseRT \cup WTypes

\* ---- typed numeric layer.  A value of an integer type is written as the decimal string of its
\* representative: the mathematical value for the types narrower than int, the two's-complement
\* signed representative for the 32/64-bit types (TLC integers are 32-bit; "-1" of an unsigned
\* 64-bit type stands for 2^64-1).
IntInfo == [schar  |-> [bits |-> 8,  sg |-> TRUE],  uchar  |-> [bits |-> 8,  sg |-> FALSE],
            short  |-> [bits |-> 16, sg |-> TRUE],  ushort |-> [bits |-> 16, sg |-> FALSE],
            int    |-> [bits |-> 32, sg |-> TRUE],  uint   |-> [bits |-> 32, sg |-> FALSE],
            long   |-> [bits |-> 64, sg |-> TRUE],  ulong  |-> [bits |-> 64, sg |-> FALSE],
            llong  |-> [bits |-> 64, sg |-> TRUE],  ullong |-> [bits |-> 64, sg |-> FALSE],
            ssize_t |-> [bits |-> 64, sg |-> TRUE], size_t |-> [bits |-> 64, sg |-> FALSE]]
IsInt(rt) == rt \in DOMAIN IntInfo
IsFlt(rt) == rt \in {"double", "float"}
Narrow(rt) == IsInt(rt) /\ IntInfo[rt].bits < 32
Lits == {-32768, -128, -1, 0, 5, 7, 127, 255, 32767, 65535}
Num(s) == CHOOSE n \in Lits : ToString(n) = s
\* conversion of the integer n to the type t (C 6.3.1.3; modulo 2^bits, two's complement for the signed types)
Rep(t, n) == IF ~Narrow(t) THEN n
             ELSE LET m == IF IntInfo[t].bits = 8 THEN 256 ELSE 65536
                      r == n % m
                  IN IF IntInfo[t].sg /\ r >= m \div 2 THEN r - m ELSE r
\* the value a literal has once it is converted to the type rt (return statement, error return, cast)
ConvT(rt, tag) == IF IsInt(rt) THEN ToString(Rep(rt, Num(tag)))
                  ELSE IF rt = "float" /\ tag = "0.1" THEN "0.1f"      \* nearest float, # 0.1 as a double
                  ELSE tag
\* C `a == b` for a of type ta, b of type tb: integer promotions, then the usual arithmetic conversions.
\* With representatives the converted operands are equal iff the representatives are, except that a
\* negative representative of an unsigned type that is widened stands for a value >= 2^31 of the wider type.
Promo(t) == IF Narrow(t) THEN "int" ELSE t
Widened(t, r, bc) == ~IntInfo[t].sg /\ IntInfo[t].bits < bc /\ r < 0
EqC(ta, a, tb, b) ==
  LET pa == Promo(ta) pb == Promo(tb)
      bc == IF IntInfo[pa].bits >= IntInfo[pb].bits THEN IntInfo[pa].bits ELSE IntInfo[pb].bits
      \* operand after conversion to the common type (same width: the representative is kept, also int -> unsigned)
  IN ~Widened(pa, a, bc) /\ ~Widened(pb, b, bc) /\ a = b
\* the type the caller's test gives the declared value v of a function returning rt
SentType(rt) == IF SentCast = "rtype" THEN rt ELSE IF IsInt(rt) THEN "int" ELSE IF IsFlt(rt) THEN "double" ELSE rt
\* result r (of type rt) == declared value v, as evaluated by the caller
SameAsSentinel(rt, r, v) ==
  IF IsInt(rt) /\ r \notin {"unset", "NULLOBJ"}
    THEN EqC(rt, Num(r), SentType(rt), Rep(SentType(rt), Num(v)))
    ELSE r = ConvT(SentType(rt), v)            \* floats: NaN-aware comparison of the macro = equality of tags
Ctxs   == {"def", "cdef", "nogil", "fptr", "py"}

\* boundary literals of the narrow types
Bounds(rt) == CASE rt = "uchar" -> {"255"} [] rt = "ushort" -> {"65535"}
                [] rt = "schar" -> {"-128", "127"} [] rt = "short" -> {"-32768", "32767"} [] OTHER -> {}
\* literals returned by the bodies (source level: `return -1` in an unsigned function returns the maximum)
Vals(rt) == CASE rt = "int"    -> {"-1", "0", "5", "7"}
              [] rt = "double" -> {"-1.0", "0.0", "2.5", "nan"}
              [] rt = "float"  -> {"-1.0", "0.0", "2.5", "nan", "0.1"}
              [] IsInt(rt) /\ rt # "int" -> {"-1", "0", "5"} \cup Bounds(rt)
              [] rt = "ptr"    -> {"NULL", "P"}
              [] rt = "struct" -> {"Z", "S"}
              [] rt = "void"   -> {"void"}
              [] rt = "object" -> {"None", "obj"}
\* values that may be declared as exception values (Cython rejects a clause
\* with a value on void / struct / object: those combinations do not exist)
Sentinels(rt) == CASE rt = "int"    -> {"-1", "0", "5"}
                   [] rt = "double" -> {"-1.0", "0.0", "nan"}
                   [] rt = "float"  -> {"-1.0", "nan", "0.1"}
                   [] IsInt(rt) /\ rt # "int" -> {"-1"} \cup (Bounds(rt) \ {"127", "32767"})
                   [] rt = "ptr"    -> {"NULL"}
                   [] OTHER         -> {}
\* value when execution falls off the end / returned by a noexcept function that failed
ZeroOf(rt) == CASE IsInt(rt) -> "0" [] IsFlt(rt) -> "0.0" [] rt = "ptr" -> "NULL"
                [] rt = "struct" -> "any" [] rt = "void" -> "void" [] rt = "object" -> "None"
\* PyrexTypes: exception_value of CIntType / CFloatType / CPtrType
DefExc(rt) == CASE IsInt(rt) -> "-1" [] IsFlt(rt) -> "-1.0" [] rt = "ptr" -> "NULL" [] OTHER -> "none"

SvOf(spec, rt) == IF spec \in {"exc_v", "exc_q"} THEN Sentinels(rt) ELSE {"none"}

\* Combinations that do not exist (rejected by Cython at compile time, or not expressible):
\*   a clause with a value on void / struct / object (Sentinels = {}); cpdef returning a pointer
\*   (no Python conversion); direct Python calls of plain cdef functions; pointers to methods;
\*   object results without the GIL.
RTOf(kd)      == (IF kd \in {"cpdef", "cpmeth"} THEN BaseRT \ {"ptr"} ELSE BaseRT) \cup (IF kd \in WKinds THEN WTypes ELSE {})
CtxOf(kd, rt) == {x \in Ctxs : /\ x = "py" => kd \in {"cpdef", "cpmeth"}
                               /\ x = "fptr" => kd = "cdef"
                               /\ x = "nogil" => (kd \in {"cdef", "meth"} /\ rt # "object")}
Bodies(rt)    == {"raise", "fall"} \cup Vals(rt)
\* (the legacy directive is studied on the base types only: it does not depend on the width of the return type)
LegacyOf(kd, rt) == IF kd \in {"cdef", "meth"} /\ rt \in BaseRT THEN Legacy ELSE Legacy \ {TRUE}
PtrSpecs(rt)  == UNION {{<<ps, pv>> : pv \in SvOf(ps, rt)} : ps \in Specs}
PtrOf(x, sp, sv, rt) == IF x # "fptr" THEN {<<"none", "none">>}
                        ELSE IF CrossPtr /\ rt \in BaseRT THEN PtrSpecs(rt) ELSE {<<sp, sv>>}
Cases == UNION {UNION {UNION {UNION {UNION {
           {[kind |-> kd, spec |-> sp, rt |-> rt, sv |-> sv, body |-> b, ctx |-> x, pspec |-> p[1], psv |-> p[2], lg |-> lg] :
               b \in Bodies(rt), p \in PtrOf(x, sp, sv, rt), lg \in LegacyOf(kd, rt)}
           : x \in CtxOf(kd, rt)} : sv \in SvOf(sp, rt)} : sp \in Specs} : rt \in RTOf(kd)} : kd \in Kinds}

---------------------------------------------------------------------------
(* reference *)
\* the value of the return type that the body returns / that the clause declares
BodyVal(c) == IF c.body = "fall" THEN ZeroOf(c.rt) ELSE ConvT(c.rt, c.body)
Misuse(c) == c.spec = "exc_v" /\ c.body # "raise" /\ BodyVal(c) = ConvT(c.rt, c.sv)
\* "legacy_implicit_noexcept: the function will behave in the same way as if declared with noexcept"
Declared(c) == IF c.lg /\ c.spec = "dflt" THEN "noexc" ELSE c.spec
Ref(c) ==
  IF c.body = "raise"
    THEN IF c.rt # "object" /\ Declared(c) = "noexc"
           THEN [k |-> "val", v |-> ZeroOf(c.rt), hooks |-> 1]
           ELSE [k |-> "exc", v |-> "KeyError", hooks |-> 0]
  ELSE IF Misuse(c) THEN [k |-> "anyexc", v |-> "none", hooks |-> 0]
  ELSE [k |-> "val", v |-> BodyVal(c), hooks |-> 0]

---------------------------------------------------------------------------
(* implementation-shaped *)
\* the function type as analysed: exception value, PyErr_Occurred check, object protocol
Eff(spec, rt, sv, inclass, isptr, legacy) ==
  IF rt = "object" THEN [ev |-> "NULLOBJ", ec |-> FALSE, obj |-> TRUE]   \* clause ignored / rejected for objects
  ELSE CASE spec = "exc_v" -> [ev |-> sv, ec |-> FALSE, obj |-> FALSE]
         [] spec = "exc_q" -> [ev |-> sv, ec |-> TRUE, obj |-> FALSE]
         [] spec = "exc_star" \/ (spec = "dflt" /\ ~legacy) ->
              [ev |-> IF ~inclass /\ ~isptr THEN DefExc(rt) ELSE "none", ec |-> TRUE, obj |-> FALSE]
         [] spec = "noexc" \/ (spec = "dflt" /\ legacy) -> [ev |-> "none", ec |-> FALSE, obj |-> FALSE]

CalleeEff(c) == Eff(c.spec, c.rt, c.sv, c.kind \in {"meth", "cpmeth"}, FALSE, c.lg)
StarEff(c)   == Eff("exc_star", c.rt, "none", FALSE, FALSE, c.lg)
Hops(c) ==
  CASE c.ctx \in {"def", "py"}     -> << [callee |-> CalleeEff(c), caller |-> CalleeEff(c)] >>
    [] c.ctx = "fptr"              -> << [callee |-> CalleeEff(c), caller |-> Eff(c.pspec, c.rt, c.psv, FALSE, TRUE, c.lg)] >>
    [] c.ctx \in {"cdef", "nogil"} -> << [callee |-> CalleeEff(c), caller |-> CalleeEff(c)],
                                         [callee |-> StarEff(c), caller |-> StarEff(c)] >>

VARIABLES c, pc, h, ret, err, inerr, hooks, hazard, out
vars == <<c, pc, h, ret, err, inerr, hooks, hazard, out>>

Init == /\ c \in Cases
        /\ pc = "body" /\ h = 1 /\ ret = "unset" /\ err = "none" /\ inerr = FALSE
        /\ hooks = 0 /\ hazard = FALSE /\ out = [k |-> "none", v |-> "none"]

\* the callee's body runs
Body == /\ pc = "body"
        /\ IF c.body = "raise"
             THEN err' = "KeyError" /\ inerr' = TRUE /\ ret' = ret
             ELSE ret' = BodyVal(c) /\ inerr' = FALSE /\ err' = err
        /\ pc' = "exit"
        /\ UNCHANGED <<c, h, hooks, hazard, out>>

\* the frame that is the callee of hop h returns (normally, or through its error label)
CalleeExit ==
  /\ pc = "exit"
  /\ LET e == Hops(c)[h].callee IN
       IF ~inerr THEN UNCHANGED <<ret, err, hooks, hazard>>
       ELSE IF e.obj \/ e.ev # "none" \/ e.ec
         THEN \* caller_will_check_exceptions: __Pyx_AddTraceback, return the error value
              /\ ret' = IF e.ev \notin {"none", "NULLOBJ"} THEN ConvT(c.rt, e.ev)     \* `return v`: converted to the return type
                        ELSE IF e.ev = "NULLOBJ" THEN e.ev ELSE ZeroOf(c.rt)
              /\ hazard' = (hazard \/ err = "none")     \* traceback without a current exception: undefined
              /\ UNCHANGED <<err, hooks>>
         ELSE \* __Pyx_WriteUnraisable: report, clear, default value
              /\ hooks' = hooks + 1 /\ err' = "none" /\ ret' = ZeroOf(c.rt)
              /\ UNCHANGED hazard
  /\ pc' = "check"
  /\ UNCHANGED <<c, h, inerr, out>>

Fires(e, r, er) == IF e.obj THEN r = "NULLOBJ"
                   ELSE IF e.ev # "none" THEN SameAsSentinel(c.rt, r, e.ev) /\ (e.ec => er # "none")
                   ELSE e.ec /\ er # "none"

\* the caller of hop h tests the result
CallerCheck ==
  /\ pc = "check"
  /\ inerr' = Fires(Hops(c)[h].caller, ret, err)
  /\ IF h < Len(Hops(c)) THEN h' = h + 1 /\ pc' = "exit" ELSE h' = h /\ pc' = "deliver"
  /\ UNCHANGED <<c, ret, err, hooks, hazard, out>>

\* the def wrapper (or the Python wrapper of a cpdef function) returns to Python
Deliver ==
  /\ pc = "deliver"
  /\ IF inerr
       THEN /\ hazard' = (hazard \/ err = "none")
            /\ out' = IF err = "none" THEN [k |-> "undefined", v |-> "none"] ELSE [k |-> "exc", v |-> err]
       ELSE /\ out' = [k |-> "val", v |-> ret] /\ hazard' = hazard
  /\ pc' = "done"
  /\ UNCHANGED <<c, h, ret, err, inerr, hooks>>

Done == pc = "done" /\ UNCHANGED vars

Next == Body \/ CalleeExit \/ CallerCheck \/ Deliver \/ Done
Spec == Init /\ [][Next]_vars

---------------------------------------------------------------------------
SamePtr(cc) == cc.ctx # "fptr" \/ (cc.pspec = cc.spec /\ cc.psv = cc.sv)
Agrees == IF Ref(c).k = "anyexc" THEN hazard
          ELSE ~hazard /\ out.k = Ref(c).k /\ out.v = Ref(c).v /\ hooks = Ref(c).hooks /\ (out.k = "val" => err = "none")

(* the protocol delivers what the rules demand; the only undefined cells are the documented misuse *)
ImplAgrees == (pc = "done" /\ SamePtr(c)) => Agrees
(* error indicator clear whenever a value is delivered, set whenever an exception is delivered *)
ErrConsistent == (pc = "done" /\ ~hazard /\ SamePtr(c)) =>
                    /\ out.k = "val" => err = "none"
                    /\ out.k = "exc" => err = out.v
(* no frame ever continues normally with a pending error, none fails without one (off misuse) *)
NoStale == (pc \in {"exit", "deliver"} /\ SamePtr(c) /\ ~Misuse(c)) => (inerr <=> err # "none")
HookOnce == hooks <= 1 /\ (hooks = 1 => Declared(c) = "noexc" /\ c.body = "raise" /\ c.rt # "object")
(* hazards are exactly the misuse cells *)
HazardOnlyMisuse == (pc = "done" /\ SamePtr(c)) => (hazard <=> Misuse(c))

Publish == (pc = "done" /\ Dump) =>
  PrintT("@@" \o ToJson([kind |-> c.kind, spec |-> c.spec, rt |-> c.rt, sv |-> c.sv, body |-> c.body, ctx |-> c.ctx,
                         pspec |-> c.pspec, psv |-> c.psv, lg |-> c.lg,
                         k |-> Ref(c).k, v |-> Ref(c).v, hooks |-> Ref(c).hooks, misuse |-> Misuse(c),
                         hazard |-> hazard, agrees |-> Agrees, nhops |-> Len(Hops(c)),
                         ev |-> CalleeEff(c).ev, ec |-> CalleeEff(c).ec]))
=============================================================================
