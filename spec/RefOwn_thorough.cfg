SPECIFICATION Spec
CONSTANTS
  NRand = 400
  MaxStmts = 4
  EDepth = 2
  SDepth = 2
  MaxK = 30
  Dump = TRUE
INVARIANT ExcKinds
INVARIANT Reached
INVARIANT Propagates
INVARIANT Handled
INVARIANT NoResult
INVARIANT ArgsAlive
INVARIANT NoOrphans
INVARIANT Publish
CHECK_DEADLOCK FALSE
