SPECIFICATION Spec
CONSTANTS
  Level = 2
  Sites = {"fstr", "pct", "call", "join"}
  Dump = TRUE
INVARIANT WellFormed
INVARIANT DigitLaw
INVARIANT BufOK
INVARIANT ImplExplained
INVARIANT Publish
CHECK_DEADLOCK FALSE
