SPECIFICATION Spec
CONSTANTS
  MaxToks = 4
  Level = 1
  LevelNext = 1
  Glue = FALSE
  Dump = TRUE
INVARIANT AllValid
INVARIANT Compositional
INVARIANT ImplLossless
INVARIANT ImplOK
INVARIANT Publish
CHECK_DEADLOCK FALSE
