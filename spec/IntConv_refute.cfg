SPECIFICATION Spec
CONSTANTS
  S = 5
  Abis <- AbisLP64
  Cfgs <- Cfgs3
  Types <- TypesImg
  Pub = FALSE
  MaxK = 1
  HiK = 1
  Steps = FALSE
INVARIANT NeverDeviates
