SPECIFICATION Spec
CONSTANTS
  S = 7
  Abis <- AbisLP64
  Cfgs <- Cfgs3
  Types <- TypesOne
  Pub = FALSE
  MaxK = 0
  HiK = 0
  Steps = FALSE
INVARIANT NeverDeviates
