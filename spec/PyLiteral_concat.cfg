SPECIFICATION Spec
CONSTANTS
  Family = "concat"
  Prefixes = {"", "u", "r", "b", "rb"}
  Quotes = {1}
  Alphabet = "mini"
  MaxAtoms = 1
  MaxParts = 2
  Prefixes2 = {"", "u", "r", "b", "rb"}
  Quotes2 = {2}
  LongReps = {}
  BigReps = {}
  Dump = TRUE
INVARIANT TypeOK
INVARIANT Compositional
INVARIANT RawInert
INVARIANT NoGrowth
INVARIANT Periodic
INVARIANT Publish
