SPECIFICATION Spec
CONSTANTS
  MaxAtoms = 5
  Prefixes = {"", "r", "f", "b"}
  RealForms = {"cim_b", "inc"}
  DecoyForms = {"cim_c", "inc1"}
  Locs = {"top"}
  Dump = TRUE
INVARIANT TypeOK
INVARIANT RealsAreStatements
INVARIANT RelOnlyInPkg
INVARIANT ResolveDiff
INVARIANT DumpComplete
CHECK_DEADLOCK FALSE
