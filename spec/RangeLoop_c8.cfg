SPECIFICATION Spec
CONSTANTS
  Types <- TChar
  Steps <- StepsStd
  GridOnly = TRUE
  Dump = TRUE
  Cap = 300
INVARIANT RefSound
INVARIANT BodySound
INVARIANT ImplFollowsRef
INVARIANT ImplAgreesOffHazards
INVARIANT HazardShape
INVARIANT Publish
