SPECIFICATION Spec
CONSTANTS
  Types <- TChar
  Steps <- StepsStd
  GridOnly = TRUE
  Dump = TRUE
INVARIANT RefSound
INVARIANT BodySound
INVARIANT ImplFollowsRef
INVARIANT ImplAgreesOffHazards
INVARIANT HazardShape
INVARIANT Publish
