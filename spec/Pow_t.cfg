SPECIFICATION Spec
CONSTANTS
  Part = "all"
  IntTypes <- TIntAll
  MaxE = 255
  MaxN = 200
INVARIANT TableSound
INVARIANT Pow2Sound
INVARIANT RealSound
INVARIANT IntPowMachineOK
INVARIANT IntPowExact
INVARIANT IntPowModular
INVARIANT IntPowLoopInv
INVARIANT Publish
CHECK_DEADLOCK FALSE
