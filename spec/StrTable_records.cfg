SPECIFICATION Spec
CONSTANTS
  Mode = "records"
  Alpha = {}
  MaxLen = 0
  MaxAdds = 0
INVARIANT TypeOK
INVARIANT Publish
