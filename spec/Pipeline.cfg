SPECIFICATION Spec
CONSTANTS
  NX = 2
  MaxErr = 3
INVARIANT TypeOK
INVARIANT BadIsExplained
INVARIANT TwoOutcomes
INVARIANT SilentRejected
INVARIANT CodegenClean
INVARIANT CrashNeverLegal
INVARIANT NoLimbo
INVARIANT ViewChecked
INVARIANT SpanMeaning
INVARIANT Publish
INVARIANT PublishBad
CHECK_DEADLOCK FALSE
