SPECIFICATION Spec
INVARIANT TypeOK
INVARIANT PublishOnce
CHECK_DEADLOCK FALSE
