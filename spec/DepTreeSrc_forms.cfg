SPECIFICATION Spec
CONSTANTS
  MaxAtoms = 6
  Prefixes = {""}
  RealForms = {"cim_b", "cim_c", "from_b", "from_c", "cimsub", "fromsub", "frompkg", "frompkgpar", "reldot", "relmod", "inc", "inc1", "incns"}
  DecoyForms = {}
  Locs = {"top", "pkg"}
  Dump = TRUE
CONSTRAINT FormsOnly
INVARIANT TypeOK
INVARIANT RealsAreStatements
INVARIANT RelOnlyInPkg
INVARIANT ResolveDiff
INVARIANT DumpComplete
CHECK_DEADLOCK FALSE
