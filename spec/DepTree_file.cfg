SPECIFICATION Spec
CONSTANTS
  NConst = 0
  OrderMode = "file"
  SelfLoops = TRUE
  MaxQ = 0
  Dump = TRUE
INVARIANT MemoComplete
INVARIANT ResultCorrect
INVARIANT PartialSound
INVARIANT LoopOnStack
INVARIANT StackIsPath
INVARIANT DumpLeaves
CHECK_DEADLOCK FALSE
