SPECIFICATION Spec
CONSTANTS
  Mods = {"a", "b", "c"}
  HasPxd = {"a", "b"}
  Pxis = {"i", "j"}
  MaxT = 5
  MaxLen = 12
  Cadence = 3
  Dump = TRUE
  FromFile = TRUE
INVARIANT TypeOK
INVARIANT IncAcyclic
INVARIANT DepsAgree
INVARIANT DepsAgreePxd
INVARIANT RebuildAgree
INVARIANT BuildIsFixpoint
INVARIANT NoSpuriousRebuild
INVARIANT DumpLeaves
CHECK_DEADLOCK FALSE
