SPECIFICATION Spec
CONSTANTS
  Level = 1
  Groups = {"num", "pred", "ctor", "dict", "list", "set", "bytearray", "str", "ucs4"}
  Dump = TRUE
INVARIANT Functional
INVARIANT WellFormed
INVARIANT Laws
INVARIANT Publish
CHECK_DEADLOCK FALSE
