------------------------------- MODULE RefOwn -------------------------------
(* C35 -- reference counts stay balanced on every path, including errors.   *)
(*                                                                          *)
(* Reference semantics of a small Python fragment over TRACKED OBJECTS with *)
(* the environment action Inject(k).  Tracked objects (a: truthy, b: falsy, *)
(* fresh ones V1, V2, .. in creation order) answer every protocol call      *)
(* (__add__ __neg__ __lt__ __getitem__ __getattr__ __call__ __bool__        *)
(* __contains__ __format__ __str__ __int__ __iter__/__next__ __enter__/     *)
(* __exit__ __setitem__ __setattr__ __delitem__ __iadd__) by logging it and *)
(* returning a fresh tracked object (or a bool / int / str).  Each of these *)
(* calls is a FALLIBLE operation: it increments cnt, and when cnt = k the   *)
(* call raises InjectedError instead of returning.  k = 0 is the clean run. *)
(*                                                                          *)
(* A behaviour: root -> Pick (one program: member pid of the systematic     *)
(* family, or a derivation of the statement grammar driven by a hash of      *)
(* (seed, pid)) with its clean run -> Inject(j) for every j up to the number *)
(* of fallible operations of the clean run.  Every state carries the        *)
(* expected observation: exception type after all handlers, the log, the    *)
(* result and the module global G (as reprs), and the LIVENESS SET with     *)
(* reference counts: an object is alive iff it is an argument (the driver    *)
(* holds one reference) or occurs in the result / in G; its count is the    *)
(* number of such occurrences.  Locals, temporaries, iterators, context     *)
(* manager results and everything the run created besides that must be dead. *)
(* The states are published and replayed three-way by harness/checks/c35.py *)
(* (S this spec, P CPython, C the module compiled by Cython).               *)
EXTENDS Integers, Sequences, FiniteSets, TLC, Json, IOUtils

CONSTANTS NRand,      \* number of randomly derived programs (pids Len(Sys)+1 .. Len(Sys)+NRand)
          MaxStmts,   \* 1..4 top-level statements of a derived program
          EDepth,     \* nesting depth of derived expressions
          SDepth,     \* nesting depth of derived statements
          MaxK,       \* injection points per program are 1..Min(fallible calls, MaxK)
          Dump

Seed == IF "C35_SEED" \in DOMAIN IOEnv THEN atoi(IOEnv.C35_SEED) ELSE 0

---------------------------------------------------------------------------
(* syntax: uniform records [t tag, s name / signature, a children] *)
Nd(t, s, a) == [t |-> t, s |-> s, a |-> a]
Nm(n)  == Nd("name", n, <<>>)
NoneE  == Nd("none", "", <<>>)
E1(t, x) == Nd(t, "", <<x>>)
E2(t, x, y) == Nd(t, "", <<x, y>>)
E3(t, x, y, z) == Nd(t, "", <<x, y, z>>)
CallE(sig, kids) == Nd("call", sig, kids)          \* kids[1] callee; sig in "", p, pp, pk, s, ps
Asg(n, e) == Nd("asg", n, <<e>>)
Ret(e) == Nd("ret", "", <<e>>)
Blk(ss) == Nd("block", "", ss)
PassS == Nd("pass", "", <<>>)

ExprTags == {"name", "none", "add", "neg", "lt", "lt3", "getitem", "getci", "attr", "call", "cond", "and", "or", "not",
             "in", "tuple", "list", "dict", "fstr", "str"}
StmtTags == {"asg", "ret", "expr", "unpack", "setitem", "setattr", "delitem", "dellocal", "aug", "cint", "if", "for",
             "break", "continue", "tryexc", "tryfin", "with", "block", "pass"}
BoolOps == {"and", "or", "lt3"}

---------------------------------------------------------------------------
(* values: [k class, s name / text, n number, t truth, it items] *)
Val(k, s, n, t, it) == [k |-> k, s |-> s, n |-> n, t |-> t, it |-> it]
ObjV(nm, t) == Val("obj", nm, 0, t, <<>>)
NoneV       == Val("none", "", 0, FALSE, <<>>)
Unb         == Val("unb", "", 0, FALSE, <<>>)
BoolV(b)    == Val("bool", "", IF b THEN 1 ELSE 0, b, <<>>)
IntV(n)     == Val("int", "", n, n # 0, <<>>)
StrV(s)     == Val("str", s, 0, s # "", <<>>)
SeqV(k, vs) == Val(k, "", 0, Len(vs) > 0, vs)
Containers  == {"tuple", "list", "dict"}

RECURSIVE Rp(_), RpS(_, _)
Rp(v) == CASE v.k = "obj" -> v.s
           [] v.k = "none" -> "None"
           [] v.k \in {"bool", "int"} -> ToString(v.n)        \* bools print as 0 / 1
           [] v.k = "str" -> "'" \o v.s \o "'"
           [] v.k = "tuple" -> "(" \o RpS(v.it, 1) \o ")"
           [] v.k = "list" -> "[" \o RpS(v.it, 1) \o "]"
           [] v.k = "dict" -> "{" \o RpS(v.it, 1) \o "}"
RpS(vs, i) == IF i > Len(vs) THEN "" ELSE (IF i > 1 THEN "," ELSE "") \o Rp(vs[i]) \o RpS(vs, i + 1)

RECURSIVE Occ(_, _), OccS(_, _, _)
Occ(v, nm) == IF v.k = "obj" THEN (IF v.s = nm THEN 1 ELSE 0)
              ELSE IF v.k \in Containers THEN OccS(v.it, nm, Len(v.it)) ELSE 0
OccS(vs, nm, n) == IF n = 0 THEN 0 ELSE Occ(vs[n], nm) + OccS(vs, nm, n - 1)

---------------------------------------------------------------------------
(* evaluation state.  log: the fallible calls in order; sites: for each of them the syntax form that issued it;  *)
(* held: number of enclosing for loops / except clauses (constructs that keep references of their own while their *)
(* body runs) -- only used to describe cases                                                                     *)
(* sem: semantic events worth naming in a case description (a pending return / exception that is discarded)      *)
St0(k) == [log |-> <<>>, sites |-> <<>>, sem |-> <<>>, cnt |-> 0, k |-> k, nid |-> 0, exc |-> "", sig |-> "", rv |-> NoneV,
           x |-> Unb, y |-> Unb, ci |-> 0, g |-> NoneV, held |-> 0]
Res(st, v) == [st |-> st, v |-> v]
Raise(st, e) == [st EXCEPT !.exc = e, !.sig = ""]
Abn(st) == st.exc # "" \/ st.sig # ""
Sem(st, s) == [st EXCEPT !.sem = Append(@, s)]

\* one fallible protocol call on a tracked object: logged, counted, raises when it is the k-th
Fall(st, self, op, arg, site) ==
  LET s1 == [st EXCEPT !.log = Append(@, self.s \o "." \o op \o "(" \o arg \o ")"), !.sites = Append(@, site), !.cnt = @ + 1]
  IN IF s1.cnt = s1.k THEN Raise(s1, "InjectedError") ELSE s1
\* the next fresh tracked object; it inherits the truth of the receiver
Fresh(st, self) == Res([st EXCEPT !.nid = @ + 1], ObjV("V" \o ToString(st.nid + 1), self.t))
Proto(st, self, op, arg, site) ==
  LET s1 == Fall(st, self, op, arg, site) IN IF s1.exc # "" THEN Res(s1, NoneV) ELSE Fresh(s1, self)
Truth(st, v, site) == IF v.k = "obj" THEN [st |-> Fall(st, v, "bool", "", site), b |-> v.t] ELSE [st |-> st, b |-> v.t]

GetLoc(st, n) == IF n = "x" THEN st.x ELSE st.y
SetLoc(st, n, v) == IF n = "x" THEN [st EXCEPT !.x = v] ELSE IF n = "y" THEN [st EXCEPT !.y = v] ELSE [st EXCEPT !.g = v]

Apply(e, s, vs) ==
  CASE e.t = "add"     -> Proto(s, vs[1], "add", Rp(vs[2]), "add")
    [] e.t = "neg"     -> Proto(s, vs[1], "neg", "", "neg")
    [] e.t = "lt"      -> Proto(s, vs[1], "lt", Rp(vs[2]), "lt")
    [] e.t = "getitem" -> Proto(s, vs[1], "getitem", Rp(vs[2]), "getitem")
    [] e.t = "getci"   -> Proto(s, vs[1], "getitem", ToString(s.ci), "getci")
    [] e.t = "attr"    -> Proto(s, vs[1], "getattr", "p", "attr")
    [] e.t = "call"    -> Proto(s, vs[1], "call",
                            CASE e.s = ""   -> ""
                              [] e.s = "p"  -> Rp(vs[2])
                              [] e.s = "pp" -> Rp(vs[2]) \o "," \o Rp(vs[3])
                              [] e.s = "pk" -> Rp(vs[2]) \o ";k=" \o Rp(vs[3])
                              [] e.s = "s"  -> RpS(vs[2].it, 1)
                              [] e.s = "ps" -> Rp(vs[2]) \o "," \o RpS(vs[3].it, 1), "call:" \o e.s)
    [] e.t = "in"      -> Res(Fall(s, vs[2], "contains", Rp(vs[1]), "in"), BoolV(vs[2].t))
    [] e.t = "str"     -> Res(Fall(s, vs[1], "str", "", "str"), StrV(vs[1].s))
    [] e.t \in Containers -> Res(s, SeqV(e.t, vs))

RECURSIVE Eval(_, _), EvalSeq(_, _, _, _)
EvalSeq(es, i, st, vs) ==
  IF i > Len(es) \/ st.exc # "" THEN [st |-> st, vs |-> vs]
  ELSE LET r == Eval(es[i], st) IN EvalSeq(es, i + 1, r.st, Append(vs, r.v))

Eval(e, st) ==
  IF e.t = "name" THEN
    IF e.s = "a" THEN Res(st, ObjV("a", TRUE))
    ELSE IF e.s = "b" THEN Res(st, ObjV("b", FALSE))
    ELSE LET v == GetLoc(st, e.s) IN
         IF v.k = "unb" THEN Res(Raise(st, "UnboundLocalError"), NoneV) ELSE Res(st, v)
  ELSE IF e.t = "none" THEN Res(st, NoneV)
  ELSE IF e.t \in {"and", "or"} THEN
    LET x == Eval(e.a[1], st) IN
    IF x.st.exc # "" THEN x
    ELSE LET tr == Truth(x.st, x.v, e.t) IN
         IF tr.st.exc # "" THEN Res(tr.st, NoneV)
         ELSE IF tr.b = (e.t = "or") THEN Res(tr.st, x.v) ELSE Eval(e.a[2], tr.st)
  ELSE IF e.t = "not" THEN
    LET x == Eval(e.a[1], st) IN
    IF x.st.exc # "" THEN x ELSE LET tr == Truth(x.st, x.v, "not") IN Res(tr.st, BoolV(~tr.b))
  ELSE IF e.t = "cond" THEN                 \* a[1] if a[2] else a[3]
    LET c == Eval(e.a[2], st) IN
    IF c.st.exc # "" THEN c
    ELSE LET tr == Truth(c.st, c.v, "cond") IN
         IF tr.st.exc # "" THEN Res(tr.st, NoneV)
         ELSE IF tr.b THEN Eval(e.a[1], tr.st) ELSE Eval(e.a[3], tr.st)
  ELSE IF e.t = "lt3" THEN                  \* a < b < c : b once, c only when a < b is true
    LET r == EvalSeq(<<e.a[1], e.a[2]>>, 1, st, <<>>) IN
    IF r.st.exc # "" THEN Res(r.st, NoneV)
    ELSE LET c1 == Proto(r.st, r.vs[1], "lt", Rp(r.vs[2]), "lt3") IN
         IF c1.st.exc # "" THEN c1
         ELSE LET tr == Truth(c1.st, c1.v, "lt3") IN
              IF tr.st.exc # "" THEN Res(tr.st, NoneV)
              ELSE IF ~tr.b THEN Res(tr.st, c1.v)
              ELSE LET z == Eval(e.a[3], tr.st) IN
                   IF z.st.exc # "" THEN z ELSE Proto(z.st, r.vs[2], "lt", Rp(z.v), "lt3")
  ELSE IF e.t = "fstr" THEN                 \* f"{a}{b}" : a is formatted before b is evaluated
    LET x == Eval(e.a[1], st) IN
    IF x.st.exc # "" THEN x
    ELSE LET f1 == Fall(x.st, x.v, "format", "", "fstr") IN
         IF f1.exc # "" THEN Res(f1, NoneV)
         ELSE LET y == Eval(e.a[2], f1) IN
              IF y.st.exc # "" THEN y
              ELSE Res(Fall(y.st, y.v, "format", "", "fstr"), StrV(x.v.s \o y.v.s))
  ELSE LET r == EvalSeq(e.a, 1, st, <<>>) IN
       IF r.st.exc # "" THEN Res(r.st, NoneV) ELSE Apply(e, r.st, r.vs)

---------------------------------------------------------------------------
(* statements.  Exec is entered with exc = "" and sig = "" *)
IterOf(st, src, site) ==     \* iter(src): fallible; the iterator is a tracked object of its own
  LET s1 == Fall(st, src, "iter", "", site) IN IF s1.exc # "" THEN Res(s1, NoneV) ELSE Fresh(s1, src)

RECURSIVE Exec(_, _), ExecSeq(_, _, _), LoopO(_, _, _, _, _), LoopD(_, _, _, _, _)
ExecSeq(ss, i, st) == IF i > Len(ss) \/ Abn(st) THEN st ELSE ExecSeq(ss, i + 1, Exec(ss[i], st))

AfterBody(st) == IF st.sig \in {"brk", "cnt"} THEN [st EXCEPT !.sig = ""] ELSE st
\* loop over a tracked iterator that yields two fresh objects and then stops
LoopO(itv, n, tg, body, st) ==
  LET s1 == Fall(st, itv, "next", "", "for") IN
  IF s1.exc # "" \/ n = 2 THEN s1
  ELSE LET f  == Fresh(s1, itv)
           s3 == Exec(body, SetLoc(f.st, tg, f.v))
       IN IF s3.exc # "" \/ s3.sig \in {"ret", "brk"} THEN AfterBody(s3) ELSE LoopO(itv, n + 1, tg, body, AfterBody(s3))
\* loop over the items of a display
LoopD(items, i, tg, body, st) ==
  IF i > Len(items) THEN st
  ELSE LET s3 == Exec(body, SetLoc(st, tg, items[i]))
       IN IF s3.exc # "" \/ s3.sig \in {"ret", "brk"} THEN AfterBody(s3) ELSE LoopD(items, i + 1, tg, body, AfterBody(s3))

\* what is pending when a finally clause / __exit__ starts
Pending(st) == IF st.exc # "" THEN "exc" ELSE IF st.sig # "" THEN st.sig ELSE ""

Exec(s, st) ==
  CASE s.t = "pass" -> st
    [] s.t = "block" -> ExecSeq(s.a, 1, st)
    [] s.t = "asg" -> LET r == Eval(s.a[1], st) IN IF r.st.exc # "" THEN r.st ELSE SetLoc(r.st, s.s, r.v)
    [] s.t = "ret" -> LET r == Eval(s.a[1], st) IN IF r.st.exc # "" THEN r.st ELSE [r.st EXCEPT !.sig = "ret", !.rv = r.v]
    [] s.t = "expr" -> Eval(s.a[1], st).st
    [] s.t = "unpack" ->                \* x, y = e
         LET r == Eval(s.a[1], st) IN
         IF r.st.exc # "" THEN r.st
         ELSE IF r.v.k \in Containers THEN SetLoc(SetLoc(r.st, "x", r.v.it[1]), "y", r.v.it[2])
         ELSE LET it == IterOf(r.st, r.v, "unpack") IN
              IF it.st.exc # "" THEN it.st
              ELSE LET n1 == Fall(it.st, it.v, "next", "", "unpack") IN IF n1.exc # "" THEN n1
              ELSE LET f1 == Fresh(n1, it.v)  n2 == Fall(f1.st, it.v, "next", "", "unpack") IN IF n2.exc # "" THEN n2
              ELSE LET f2 == Fresh(n2, it.v)  n3 == Fall(f2.st, it.v, "next", "", "unpack") IN IF n3.exc # "" THEN n3
              ELSE SetLoc(SetLoc(n3, "x", f1.v), "y", f2.v)
    [] s.t = "setitem" ->               \* a[1][a[2]] = a[3] : value, container, index
         LET r == EvalSeq(<<s.a[3], s.a[1], s.a[2]>>, 1, st, <<>>) IN
         IF r.st.exc # "" THEN r.st ELSE Fall(r.st, r.vs[2], "setitem", Rp(r.vs[3]) \o "," \o Rp(r.vs[1]), "setitem")
    [] s.t = "setattr" ->               \* a[1].p = a[2] : value, object
         LET r == EvalSeq(<<s.a[2], s.a[1]>>, 1, st, <<>>) IN
         IF r.st.exc # "" THEN r.st ELSE Fall(r.st, r.vs[2], "setattr", "p," \o Rp(r.vs[1]), "setattr")
    [] s.t = "delitem" ->
         LET r == EvalSeq(s.a, 1, st, <<>>) IN
         IF r.st.exc # "" THEN r.st ELSE Fall(r.st, r.vs[1], "delitem", Rp(r.vs[2]), "delitem")
    [] s.t = "dellocal" ->
         IF GetLoc(st, s.s).k = "unb" THEN Raise(st, "UnboundLocalError") ELSE SetLoc(st, s.s, Unb)
    [] s.t = "aug" ->                   \* x += e
         LET cur == GetLoc(st, s.s) IN
         IF cur.k = "unb" THEN Raise(st, "UnboundLocalError")
         ELSE LET r == Eval(s.a[1], st) IN
              IF r.st.exc # "" THEN r.st
              ELSE LET p == Proto(r.st, cur, "iadd", Rp(r.v), "aug") IN
                   IF p.st.exc # "" THEN p.st ELSE SetLoc(p.st, s.s, p.v)
    [] s.t = "cint" ->                  \* ci = int(e)   (ci is a C integer in the compiled code)
         LET r == Eval(s.a[1], st) IN
         IF r.st.exc # "" THEN r.st
         ELSE LET s1 == Fall(r.st, r.v, "int", "", "cint") IN
              IF s1.exc # "" THEN s1 ELSE [s1 EXCEPT !.ci = IF r.v.t THEN 2 ELSE 0]
    [] s.t = "if" ->
         LET r == Eval(s.a[1], st) IN
         IF r.st.exc # "" THEN r.st
         ELSE LET tr == Truth(r.st, r.v, "if") IN
              IF tr.st.exc # "" THEN tr.st ELSE IF tr.b THEN Exec(s.a[2], tr.st) ELSE Exec(s.a[3], tr.st)
    [] s.t = "for" ->
         LET r == Eval(s.a[1], st) IN
         IF r.st.exc # "" THEN r.st
         ELSE IF r.v.k \in Containers
              THEN [LoopD(r.v.it, 1, s.s, s.a[2], [r.st EXCEPT !.held = @ + 1]) EXCEPT !.held = st.held]
         ELSE LET it == IterOf(r.st, r.v, "for") IN
              IF it.st.exc # "" THEN it.st
              ELSE [LoopO(it.v, 0, s.s, s.a[2], [it.st EXCEPT !.held = @ + 1]) EXCEPT !.held = st.held]
    [] s.t = "break" -> [st EXCEPT !.sig = "brk"]
    [] s.t = "continue" -> [st EXCEPT !.sig = "cnt"]
    [] s.t = "tryexc" ->                \* try: a[1]  except InjectedError [as e]: a[2]     (e is never read)
         LET s1 == Exec(s.a[1], st) IN
         IF s1.exc = "InjectedError"
         THEN [Exec(s.a[2], [s1 EXCEPT !.exc = "", !.held = @ + 1]) EXCEPT !.held = st.held] ELSE s1
    [] s.t = "tryfin" ->                \* try: a[1]  finally: a[2]
         LET s1 == Exec(s.a[1], st)
             s2 == Exec(s.a[2], [s1 EXCEPT !.exc = "", !.sig = ""])
         IN IF Abn(s2)                    \* the finally clause raised or jumped: what was pending is discarded
            THEN IF Pending(s1) = "" THEN s2
                 ELSE Sem(s2, "drop:" \o Pending(s1) \o ":fin:" \o Pending(s2) \o (IF st.held > 0 THEN ":held" ELSE ""))
            ELSE [s2 EXCEPT !.exc = s1.exc, !.sig = s1.sig, !.rv = s1.rv]
    [] s.t = "with" ->                  \* with a[1] [as s.s]: a[2]
         LET r == Eval(s.a[1], st) IN
         IF r.st.exc # "" THEN r.st
         ELSE LET en == Proto(r.st, r.v, "enter", "", "with") IN
              IF en.st.exc # "" THEN en.st
              ELSE LET s2 == IF s.s = "" THEN en.st ELSE SetLoc(en.st, s.s, en.v)
                       s3 == Exec(s.a[2], s2)
                   IN IF s3.exc = ""
                      THEN LET x0 == Fall(s3, r.v, "exit", "None", "with") IN    \* a raise in __exit__ replaces return/break/continue
                           IF x0.exc # "" /\ s3.sig # "" THEN Sem(x0, "drop:" \o s3.sig \o ":with:exc") ELSE x0
                      ELSE LET x1 == Fall([s3 EXCEPT !.exc = ""], r.v, "exit", s3.exc, "with") IN
                           IF x1.exc # "" THEN Sem(x1, "drop:exc:with:exc")      \* __exit__ itself raised
                           ELSE IF r.v.t THEN Sem(x1, "suppressed")               \* truthy manager: exception suppressed
                           ELSE [x1 EXCEPT !.exc = s3.exc]

Names(nid) == <<"a", "b">> \o [i \in 1..nid |-> "V" \o ToString(i)]
Run(p, k) ==
  LET s   == ExecSeq(p.a, 1, St0(k))
      rv  == IF s.exc = "" /\ s.sig = "ret" THEN s.rv ELSE NoneV
      nms == Names(s.nid)
      rc(nm) == (IF nm \in {"a", "b"} THEN 1 ELSE 0) + Occ(rv, nm) + Occ(s.g, nm)
  IN [exc |-> s.exc, log |-> s.log, sites |-> s.sites, sem |-> s.sem, cnt |-> s.cnt, nid |-> s.nid,
      res |-> IF s.exc # "" THEN "" ELSE Rp(rv), glob |-> Rp(s.g),
      alive |-> SelectSeq([i \in 1..Len(nms) |-> [nm |-> nms[i], rc |-> rc(nms[i])]], LAMBDA r : r.rc > 0)]

---------------------------------------------------------------------------
(* the program family *)
A == Nm("a")   B == Nm("b")   X == Nm("x")   Y == Nm("y")
Tup(x, y) == E2("tuple", x, y)

\* every expression form over atoms, object-yielding (O) and other (V)
SysO == << E2("add", A, B), E2("add", B, Tup(A, B)), E1("neg", A), E2("lt", A, B),
           E3("lt3", A, B, A), E3("lt3", B, A, A), E3("lt3", A, A, B), E3("lt3", A, E1("neg", A), E1("neg", B)),
           E2("getitem", A, B), E2("getitem", A, Tup(A, B)), E1("getci", A), E1("attr", A),
           CallE("", <<A>>), CallE("p", <<A, B>>), CallE("pp", <<A, B, A>>), CallE("pk", <<A, B, A>>),
           CallE("s", <<A, Tup(B, A)>>), CallE("ps", <<A, B, E2("list", A, B)>>),
           E3("cond", A, A, B), E3("cond", A, B, B), E2("and", A, B), E2("and", B, A), E2("or", A, B), E2("or", B, A) >>
SysV == << Tup(A, B), Tup(E2("add", A, B), E1("neg", B)), E2("list", A, E1("neg", B)), E2("dict", A, E2("add", A, B)),
           E1("tuple", E1("neg", A)), E1("not", A), E1("not", B), E2("in", A, B), E2("in", E1("neg", A), A),
           E2("fstr", A, B), E1("str", A), NoneE >>
NegB == E1("neg", B)
SysE == SysO \o SysV
SysProgs1 ==
  [i \in 1..Len(SysE) |-> <<Ret(SysE[i])>>] \o
  [i \in 1..Len(SysE) |-> <<Asg("G", SysE[i])>>] \o
  \* a temporary is alive when a later operand fails
  [i \in 1..Len(SysE) |-> <<Ret(CallE("pp", <<A, SysE[i], NegB>>))>>] \o
  [i \in 1..Len(SysO) |-> <<Asg("x", SysO[i]), Ret(Tup(X, X))>>] \o
  [i \in 1..Len(SysO) |-> <<Asg("x", A), Asg("x", SysO[i]), Asg("G", E2("list", X, NegB))>>]

AddAB == E2("add", A, B)
GAsg(e) == Asg("G", e)
ForS(tg, it, body) == Nd("for", tg, <<it, body>>)
WithS(tg, m, body) == Nd("with", tg, <<m, body>>)
IfS(c, s1, s2) == Nd("if", "", <<c, s1, s2>>)
TryE(s1, s2) == Nd("tryexc", "", <<s1, s2>>)
TryF(s1, s2) == Nd("tryfin", "", <<s1, s2>>)
ExprS(e) == Nd("expr", "", <<e>>)
Unpack(e) == Nd("unpack", "", <<e>>)
SysProgs2 == <<
  <<Unpack(A), Ret(Tup(X, Y))>>,
  <<Unpack(B), GAsg(Tup(Y, X))>>,
  <<Unpack(Tup(AddAB, NegB)), Ret(E2("list", Y, X))>>,
  <<Unpack(E2("list", NegB, AddAB)), Ret(X)>>,
  <<Unpack(AddAB), Ret(X)>>,
  <<Nd("setitem", "", <<A, B, AddAB>>)>>,
  <<Nd("setitem", "", <<E1("neg", A), E1("neg", B), Tup(A, B)>>)>>,
  <<Nd("setattr", "", <<A, AddAB>>)>>,
  <<Nd("setattr", "", <<E1("neg", A), Tup(B, NegB)>>)>>,
  <<Nd("delitem", "", <<A, NegB>>)>>,
  <<Asg("x", A), Nd("aug", "x", <<NegB>>), Ret(X)>>,
  <<Asg("x", AddAB), Nd("aug", "x", <<Tup(X, A)>>), GAsg(X)>>,
  <<Asg("x", AddAB), Nd("dellocal", "x", <<>>), Ret(A)>>,
  <<Asg("x", AddAB), Nd("dellocal", "x", <<>>), Ret(X)>>,
  <<Nd("cint", "", <<A>>), Ret(E1("getci", B))>>,
  <<Nd("cint", "", <<NegB>>), Ret(Tup(E1("getci", A), E1("getci", A)))>>,
  <<IfS(A, Asg("x", AddAB), Asg("x", NegB)), Ret(X)>>,
  <<IfS(B, Asg("x", AddAB), PassS), Ret(X)>>,
  <<IfS(E2("lt", A, B), Ret(NegB), Ret(AddAB))>>,
  <<ForS("x", A, GAsg(E2("add", X, B))), Ret(X)>>,
  <<ForS("x", B, Ret(Tup(X, X)))>>,
  <<ForS("x", A, Nd("break", "", <<>>)), Ret(X)>>,
  <<ForS("x", A, Blk(<<IfS(X, Nd("continue", "", <<>>), PassS), GAsg(X)>>))>>,
  <<ForS("y", Tup(AddAB, NegB), GAsg(E1("neg", Y))), Ret(Y)>>,
  <<ForS("y", E2("list", A, AddAB), Ret(E1("neg", Y)))>>,
  <<ForS("x", A, ForS("y", X, GAsg(Tup(X, Y))))>>,
  <<TryE(Asg("x", AddAB), Asg("x", NegB)), Ret(X)>>,
  <<TryE(Ret(Tup(AddAB, NegB)), Ret(A))>>,
  <<Nd("tryexc", "e", <<Ret(Tup(AddAB, NegB)), Ret(A)>>)>>,
  <<ForS("x", A, Nd("tryexc", "e", <<GAsg(E1("neg", X)), Nd("continue", "", <<>>)>>)), Ret(X)>>,
  <<TryE(Blk(<<Asg("x", AddAB), Asg("y", E1("neg", X)), GAsg(Y)>>), GAsg(E1("attr", A))), Ret(NegB)>>,
  <<TryF(Asg("x", AddAB), GAsg(NegB)), Ret(X)>>,
  <<TryF(Ret(AddAB), GAsg(NegB))>>,
  <<TryF(Ret(AddAB), Ret(NegB))>>,
  <<TryF(Asg("x", AddAB), Ret(A))>>,
  <<TryE(TryF(Asg("x", AddAB), GAsg(E1("neg", A))), Asg("x", B)), Ret(Tup(X, NegB))>>,
  <<ForS("x", A, TryF(Ret(E1("neg", X)), GAsg(X)))>>,
  <<ForS("x", A, TryE(GAsg(E1("neg", X)), Nd("break", "", <<>>))), Ret(X)>>,
  <<ForS("x", A, TryF(Nd("break", "", <<>>), GAsg(E1("neg", X))))>>,
  <<ForS("x", B, TryF(Nd("continue", "", <<>>), GAsg(E1("neg", X))))>>,
  <<WithS("", A, GAsg(AddAB))>>,
  <<WithS("x", A, GAsg(E1("neg", X))), Ret(X)>>,
  <<WithS("x", B, Ret(E2("add", X, A)))>>,
  <<WithS("", A, ExprS(E1("neg", Y))), Asg("y", A), Ret(NegB)>>,
  <<WithS("", B, ExprS(E1("neg", Y))), Asg("y", A), Ret(NegB)>>,
  <<WithS("x", A, WithS("y", X, GAsg(Tup(X, Y)))), Ret(Y)>>,
  <<WithS("x", AddAB, TryF(Ret(X), GAsg(NegB)))>>,
  <<ForS("x", A, WithS("y", X, Nd("break", "", <<>>))), Ret(Tup(X, Y))>>,
  <<ForS("x", A, WithS("y", X, Nd("continue", "", <<>>))), Ret(Y)>>,
  <<TryE(WithS("x", B, GAsg(E2("add", X, X))), GAsg(A)), Ret(NegB)>>,
  <<TryF(WithS("", A, Asg("x", NegB)), Asg("y", AddAB)), Ret(Tup(X, Y))>>,
  <<ExprS(E1("neg", X)), Asg("x", A)>>,
  <<ForS("x", A, TryF(Ret(E1("neg", X)), Nd("break", "", <<>>))), Ret(X)>>,
  <<ForS("x", A, TryF(Ret(E1("neg", X)), Nd("continue", "", <<>>))), Ret(X)>>,
  <<ForS("x", Tup(AddAB, NegB), TryF(Ret(X), Nd("break", "", <<>>))), Ret(NegB)>>,
  <<ForS("x", A, TryF(GAsg(E1("neg", Y)), Nd("break", "", <<>>))), Asg("y", A)>>,
  <<TryF(Ret(AddAB), IfS(A, Ret(NegB), PassS))>>,
  <<ForS("x", A, TryF(Ret(E1("neg", X)), Ret(X)))>>,
  <<ForS("x", Tup(AddAB, NegB), TryF(Ret(X), Ret(A)))>>,
  <<TryE(GAsg(NegB), TryF(Ret(AddAB), Ret(A)))>>,
  <<Nd("tryexc", "e", <<GAsg(NegB), TryF(Ret(AddAB), IfS(B, PassS, Ret(A)))>>)>>,
  <<WithS("", A, TryF(Ret(AddAB), Ret(NegB)))>>,
  <<IfS(E1("not", E2("fstr", A, B)), Ret(A), Ret(NegB))>>,
  <<IfS(B, Asg("y", A), PassS), TryF(ExprS(E1("neg", Y)), Ret(A))>>,
  <<TryF(TryF(Ret(AddAB), GAsg(NegB)), GAsg(E1("neg", A)))>>,
  <<TryF(Ret(AddAB), WithS("x", A, GAsg(X)))>>,
  <<TryE(TryF(Ret(AddAB), GAsg(NegB)), Ret(E1("neg", A)))>>,
  <<WithS("x", A, TryE(Ret(E1("neg", X)), Ret(X)))>>,
  <<IfS(B, Asg("x", A), PassS), Nd("aug", "x", <<A>>), Ret(X)>>,
  <<Asg("x", E3("lt3", A, AddAB, NegB)), Ret(X)>>,
  <<IfS(E1("not", E2("in", A, B)), Ret(E2("fstr", A, AddAB)), Ret(E1("str", NegB)))>>
>>
SysAll == SysProgs1 \o SysProgs2

(* derived programs: a derivation of the grammar is selected by a hash *)
Mix(h, j) == (h * 75 + j * 2731 + 74) % 65537
Pick(seq, h) == seq[((h \div 3) % Len(seq)) + 1]
OAtoms(bd) == <<A, B, A, B>> \o (IF "x" \in bd THEN <<X, X>> ELSE <<>>) \o (IF "y" \in bd THEN <<Y, Y>> ELSE <<>>)

\* operands of truth tests and left operands of and/or are never and/or/chains themselves (CPython tests the
\* value of a nested boolean operation a second time; that is not the subject here)
\* (a tuple display of C-typed elements -- results of not / in -- in a truth test is C20's ctuple finding: made a list)
RECURSIVE Strip(_)
Strip(e) == IF e.t \in BoolOps THEN Strip(e.a[1])
            ELSE IF e.t = "cond" THEN Nd("cond", "", <<Strip(e.a[1]), e.a[2], Strip(e.a[3])>>)
            ELSE IF e.t = "tuple" /\ \A i \in 1..Len(e.a) : e.a[i].t \in {"not", "in"} THEN Nd("list", "", e.a)
            ELSE e
\* the callee of a call is never an attribute access (method calls evaluate their arguments before the attribute
\* lookup in the compiled code: C20's finding, not the subject here)
RECURSIVE NoAttr(_)
NoAttr(e) == IF e.t = "attr" THEN NoAttr(e.a[1]) ELSE e
\* an expression statement is never a bare name (the compiler under test drops it)
NoBare(e) == IF e.t \in {"name", "none"} THEN E1("neg", IF e.t = "none" THEN A ELSE e) ELSE e

RECURSIVE GenO(_, _, _), GenV(_, _, _)
GenO(d, h, bd) ==
  IF d = 0 THEN Pick(OAtoms(bd), h)
  ELSE LET c  == h % 19
           O1 == GenO(d - 1, Mix(h, 1), bd)   O2 == GenO(d - 1, Mix(h, 2), bd)   O3 == GenO(d - 1, Mix(h, 3), bd)
           V1 == GenV(d - 1, Mix(h, 4), bd)   V2 == GenV(d - 1, Mix(h, 5), bd)
           C1 == Strip(GenV(d - 1, Mix(h, 6), bd))
       IN CASE c \in {0, 1} -> Pick(OAtoms(bd), Mix(h, 9))
            [] c = 2  -> E2("add", O1, V1)
            [] c = 3  -> E1("neg", O1)
            [] c = 4  -> E2("lt", O1, V1)
            [] c = 5  -> E3("lt3", O1, O2, O3)
            [] c = 6  -> E2("getitem", O1, V1)
            [] c = 7  -> E1("attr", O1)
            [] c = 8  -> CallE("p", <<NoAttr(O1), V1>>)
            [] c = 9  -> CallE("pk", <<NoAttr(O1), V1, V2>>)
            [] c = 10 -> CallE("s", <<NoAttr(O1), Nd(IF h % 2 = 0 THEN "tuple" ELSE "list", "", <<V1, V2>>)>>)
            [] c = 11 -> E3("cond", O1, C1, O2)
            [] c = 12 -> E2("and", Strip(O1), O2)
            [] c = 13 -> E2("or", Strip(O1), O2)
            [] c = 14 -> E1("getci", O1)
            [] c = 15 -> CallE("", <<NoAttr(O1)>>)
            [] c = 16 -> CallE("pp", <<NoAttr(O1), V1, V2>>)
            [] c = 17 -> CallE("ps", <<NoAttr(O1), V1, Tup(V2, O2)>>)
            [] c = 18 -> E2("add", O1, O2)
GenV(d, h, bd) ==
  IF d = 0 THEN Pick(OAtoms(bd) \o <<NoneE>>, h)
  ELSE LET c  == h % 14
           V1 == GenV(d - 1, Mix(h, 1), bd)   V2 == GenV(d - 1, Mix(h, 2), bd)
           O1 == GenO(d - 1, Mix(h, 3), bd)   O2 == GenO(d - 1, Mix(h, 4), bd)
       IN CASE c \in 0..5 -> GenO(d, Mix(h, 7), bd)
            [] c = 6  -> Tup(V1, V2)
            [] c = 7  -> E2("list", V1, V2)
            [] c = 8  -> E2("dict", V1, V2)
            [] c = 9  -> E1("not", Strip(V1))
            [] c = 10 -> E2("in", V1, O1)
            [] c = 11 -> E2("fstr", GenO(0, Mix(h, 5), bd), GenO(IF d > 1 THEN 1 ELSE 0, Mix(h, 6), bd))
            [] c = 12 -> E1("str", O1)
            [] c = 13 -> E1("tuple", V1)
GenC(d, h, bd) == Strip(GenV(d, h, bd))

RECURSIVE AsgOf(_), AsgOfS(_, _)
AsgOf(s) == (IF s.t = "asg" /\ s.s \in {"x", "y"} THEN {s.s}
             ELSE IF s.t = "unpack" THEN {"x", "y"}
             ELSE IF s.t \in {"for", "with"} /\ s.s # "" THEN {s.s} ELSE {})
            \cup (IF s.t \in {"if", "for", "tryexc", "tryfin", "with", "block"} THEN AsgOfS(s.a, Len(s.a)) ELSE {})
AsgOfS(ss, n) == IF n = 0 THEN {} ELSE AsgOf(ss[n]) \cup AsgOfS(ss, n - 1)

\* statements after one that never falls through are dropped (the compiler under test removes unreachable code,
\* and a name that is only assigned there would stop being a local)
RECURSIVE Term(_), FirstTerm(_, _)
FirstTerm(ss, i) == IF i > Len(ss) THEN 0 ELSE IF Term(ss[i]) THEN i ELSE FirstTerm(ss, i + 1)
Term(s) == CASE s.t \in {"ret", "break", "continue"} -> TRUE
             [] s.t = "block" -> FirstTerm(s.a, 1) > 0
             [] s.t \in {"if", "tryexc"} -> Term(s.a[Len(s.a) - 1]) /\ Term(s.a[Len(s.a)])
             [] s.t = "tryfin" -> Term(s.a[1]) \/ Term(s.a[2])
             [] OTHER -> FALSE
Trunc(ss) == LET i == FirstTerm(ss, 1) IN IF i = 0 THEN ss ELSE SubSeq(ss, 1, i)
TBlk(ss) == Blk(Trunc(ss))

Tg(h) == IF h % 2 = 0 THEN "x" ELSE "y"
RECURSIVE GenS(_, _, _, _)
GenSimple(h, bd, lp) ==
  LET c  == h % 16
      O1 == GenO(EDepth, Mix(h, 1), bd)   O2 == GenO(EDepth - 1, Mix(h, 2), bd)
      V1 == GenV(EDepth, Mix(h, 3), bd)   V2 == GenV(EDepth - 1, Mix(h, 4), bd)
      bn == IF bd = {} THEN "" ELSE IF Tg(Mix(h, 5)) \in bd THEN Tg(Mix(h, 5)) ELSE CHOOSE n \in bd : TRUE
  IN CASE c \in {0, 1, 2} -> Asg(Tg(Mix(h, 6)), O1)
       [] c = 3  -> Asg("G", V1)
       [] c = 4  -> Ret(V1)
       [] c = 5  -> Ret(O1)
       [] c = 6  -> ExprS(NoBare(V1))
       [] c = 7  -> Unpack(IF h % 3 = 0 THEN O1 ELSE Nd(IF h % 3 = 1 THEN "tuple" ELSE "list", "", <<O1, O2>>))
       [] c = 8  -> Nd("setitem", "", <<O2, V2, V1>>)
       [] c = 9  -> Nd("setattr", "", <<O2, V1>>)
       [] c = 10 -> Nd("delitem", "", <<O1, V2>>)
       [] c = 11 -> IF bn = "" THEN Asg(Tg(h), O1) ELSE Nd("aug", bn, <<V1>>)
       [] c = 12 -> Nd("cint", "", <<O1>>)
       [] c = 13 -> IF lp THEN Nd(IF h % 2 = 0 THEN "break" ELSE "continue", "", <<>>) ELSE Asg("G", V1)
       [] c = 14 -> IF bn = "" \/ h % 4 # 0 THEN Ret(Tup(O1, V2)) ELSE Nd("dellocal", bn, <<>>)
       [] c = 15 -> Asg("G", O1)
GenS(d, h, bd, lp) ==
  IF d = 0 \/ h % 5 < 2 THEN GenSimple(Mix(h, 20), bd, lp)
  ELSE LET c  == (h \div 5) % 9
           S1 == GenS(d - 1, Mix(h, 21), bd, lp)
           S2 == GenS(d - 1, Mix(h, 22), bd \cup AsgOf(S1), lp)
           C1 == GenC(EDepth, Mix(h, 23), bd)
           O1 == GenO(EDepth - 1, Mix(h, 24), bd)
           tg == Tg(Mix(h, 25))
           LB == GenS(d - 1, Mix(h, 26), bd \cup {tg}, TRUE)
           LB2 == GenS(d - 1, Mix(h, 27), bd \cup {tg} \cup AsgOf(LB), TRUE)
           WB == GenS(d - 1, Mix(h, 28), bd \cup {tg}, lp)
           NF == GenS(d - 1, Mix(h, 29), bd \cup AsgOf(S1), lp)
       IN CASE c = 0 -> IfS(C1, S1, GenS(d - 1, Mix(h, 30), bd, lp))
            [] c = 1 -> IfS(C1, S1, PassS)
            [] c = 2 -> ForS(tg, IF h % 3 = 0 THEN Nd(IF h % 2 = 0 THEN "tuple" ELSE "list", "", <<O1, GenO(1, Mix(h, 31), bd)>>) ELSE O1,
                             IF h % 2 = 0 THEN LB ELSE TBlk(<<LB, LB2>>))
            [] c = 3 -> Nd("tryexc", IF h % 2 = 0 THEN "" ELSE "e", <<S1, GenS(d - 1, Mix(h, 32), bd, lp)>>)
            [] c = 4 -> TryF(S1, NF)
            [] c = 5 -> WithS(IF h % 3 = 0 THEN "" ELSE tg, O1, IF h % 3 = 0 THEN S1 ELSE WB)
            [] c = 6 -> TBlk(<<S1, S2>>)
            [] c = 7 -> TryE(TBlk(<<S1, S2>>), GenSimple(Mix(h, 33), bd, lp))
            [] c = 8 -> TryF(TBlk(<<S1, S2>>), NF)

GenProg(h) ==
  LET n  == 1 + (h % MaxStmts)
      s1 == GenS(SDepth, Mix(h, 11), {}, FALSE)
      s2 == GenS(SDepth, Mix(h, 12), AsgOf(s1), FALSE)
      s3 == GenS(SDepth, Mix(h, 13), AsgOf(s1) \cup AsgOf(s2), FALSE)
      s4 == GenS(SDepth, Mix(h, 14), AsgOf(s1) \cup AsgOf(s2) \cup AsgOf(s3), FALSE)
  IN Nd("prog", "", Trunc(SubSeq(<<s1, s2, s3, s4>>, 1, n)))

Sys == [i \in 1..Len(SysAll) |-> Nd("prog", "", Trunc(SysAll[i]))]
NSys == Len(Sys)
ProgOf(p) == IF p <= NSys THEN Sys[p] ELSE GenProg(Mix(Mix(Seed % 65537, p), 5))

---------------------------------------------------------------------------
VARIABLES phase, pid, prog, k, obs, clean
vars == <<phase, pid, prog, k, obs, clean>>

Obs0 == [exc |-> "", log |-> <<>>, sites |-> <<>>, sem |-> <<>>, cnt |-> 0, nid |-> 0, res |-> "", glob |-> "", alive |-> <<>>]
Init == phase = "root" /\ pid = 0 /\ prog = Nd("prog", "", <<>>) /\ k = 0 /\ obs = Obs0 /\ clean = <<>>
PickProg == /\ phase = "root" /\ phase' = "case"
            /\ \E p \in 1..(NSys + NRand) :
                  LET pr == ProgOf(p)  o == Run(pr, 0) IN
                  pid' = p /\ prog' = pr /\ k' = 0 /\ obs' = o /\ clean' = o.log
\* the environment makes the j-th fallible call of the run raise
Inject == /\ phase = "case" /\ k = 0
          /\ \E j \in 1..(IF obs.cnt < MaxK THEN obs.cnt ELSE MaxK) :
                k' = j /\ obs' = Run(prog, j)
          /\ UNCHANGED <<phase, pid, prog, clean>>
Next == PickProg \/ Inject
Spec == Init /\ [][Next]_vars

---------------------------------------------------------------------------
(* the property on the model *)
RECURSIVE HasTag(_, _), HasTagS(_, _, _)
HasTag(e, ts) == e.t \in ts \/ HasTagS(e.a, ts, Len(e.a))
HasTagS(s, ts, n) == IF n = 0 THEN FALSE ELSE HasTag(s[n], ts) \/ HasTagS(s, ts, n - 1)

Case == phase = "case"
ExcKinds   == Case => obs.exc \in (IF k = 0 THEN {"", "UnboundLocalError"} ELSE {"", "UnboundLocalError", "InjectedError"})
\* the k-th fallible call is reached and everything before it is the clean run
Reached    == (Case /\ k > 0) => /\ obs.cnt >= k /\ Len(obs.log) = obs.cnt
                                 /\ SubSeq(obs.log, 1, k) = SubSeq(clean, 1, k)
\* without handlers the injected exception propagates and nothing runs after it
Propagates == (Case /\ k > 0 /\ ~HasTag(prog, {"tryexc", "tryfin", "with"})) => obs.exc = "InjectedError" /\ obs.cnt = k
\* only a handler / suppressing manager / finally with a jump can stop it
Handled    == (Case /\ k > 0 /\ obs.exc # "InjectedError") => HasTag(prog, {"tryexc", "tryfin", "with"})
NoResult   == (Case /\ obs.exc # "") => obs.res = ""
\* liveness: the arguments survive with at least the driver's reference; everything else alive is a fresh object
\* that occurs in the result or the global; nothing of a failed run survives except through the global
ArgsAlive  == Case => /\ Len(obs.alive) >= 2 /\ obs.alive[1].nm = "a" /\ obs.alive[2].nm = "b"
                      /\ \A i \in 1..Len(obs.alive) : obs.alive[i].rc >= 1
NoOrphans  == (Case /\ obs.exc # "" /\ obs.glob = "None") => Len(obs.alive) = 2 /\ obs.alive[1].rc = 1 /\ obs.alive[2].rc = 1

Publish == (Dump /\ Case) =>
   PrintT("@@" \o ToJson([pid |-> pid, k |-> k, prog |-> prog, exc |-> obs.exc, log |-> obs.log, res |-> obs.res,
                           glob |-> obs.glob, alive |-> obs.alive, nf |-> Len(clean), sites |-> obs.sites, sem |-> obs.sem]))
=============================================================================
