SPECIFICATION Spec
CONSTANTS
  MaxToks = 3
  Level = 3
  LevelNext = 1
  Glue = TRUE
  Dump = TRUE
INVARIANT AllValid
INVARIANT Compositional
INVARIANT ImplLossless
INVARIANT ImplOK
INVARIANT Publish
CHECK_DEADLOCK FALSE
