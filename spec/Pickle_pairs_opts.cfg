SPECIFICATION Spec
CONSTANTS
  NNames = 1
  Kinds = {"num", "struct", "ptr"}
  MaxLvl = 2
  MaxVer = 2
  NVals = 0
  NV = 2
  FirstEdits = 0
  MaxEdits = 0
  Opts = {"cinit", "off", "force"}
  Mode = "pairs"
  CksMode = "names"
  Dump = FALSE
INVARIANT ImplMeetsDemand
CHECK_DEADLOCK FALSE
