SPECIFICATION Spec
CONSTANTS
  Part = "member"
  MaxArms = 1
INVARIANT MemberOK
INVARIANT FlattenOrderStrict
CHECK_DEADLOCK FALSE
