SPECIFICATION Spec
CONSTANTS
  Part = "slice"
  MaxLen = 8
  VMag = 8
  Mixed = FALSE
  Dump = TRUE
INVARIANT NoUB
INVARIANT ImplAgreesOffHazards
INVARIANT HazardsConfined
INVARIANT CropClamped
INVARIANT MacrosSound
INVARIANT RefSound
INVARIANT RefShape
INVARIANT Publish
CHECK_DEADLOCK FALSE
