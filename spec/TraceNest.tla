----------------------------- MODULE TraceNest -----------------------------
(* C45: the nesting automaton for profile / trace event streams.            *)
(*                                                                          *)
(* The legacy profiling API shows three kinds of events of a function f:    *)
(*    "c"  a start event  ('call': function entry, generator resumption,    *)
(*         exception thrown into a suspended generator),                    *)
(*    "r"  an end event   ('return': return, unwinding by an exception,     *)
(*         generator suspension at a yield),                                *)
(*    "l"  a line event   ('line', with the line relative to the `def`).    *)
(* The stack is the sequence of function ids whose start event has no end   *)
(* event yet (the driver is the empty stack, function id 0).                *)
(* A stream is well nested iff every event satisfies its precondition and   *)
(* the stack is empty at the end:                                           *)
(*    c(f)    f is a callee (static call graph) of the function on top      *)
(*    r(f)    f is on top                                                   *)
(*    l(f,n)  f is on top and n is a line of the body of f (the `def`       *)
(*            line is line 0 and is reported by the start event only)       *)
(* These operators are shared by the model (TraceEvents.tla: the event      *)
(* sequences of the reference semantics) and by the validator of recorded   *)
(* streams (TraceEvents_Trace.tla).                                         *)
EXTENDS Integers, Sequences

Top(stk) == IF stk = <<>> THEN 0 ELSE stk[Len(stk)]
Pop(stk) == SubSeq(stk, 1, Len(stk) - 1)

InSeq(x, q) == \E i \in 1..Len(q) : q[i] = x

\* callees: sequence indexed by function id, callees[f] = sequence of the ids f may start;
\* the driver (id 0) starts the root function 1 only
CallOK(stk, f, callees) ==
  IF stk = <<>> THEN f = 1 ELSE InSeq(f, callees[Top(stk)])

RetOK(stk, f) == stk # <<>> /\ Top(stk) = f

\* sizes[f] = number of lines of the body of f; lines are relative to the `def` line
LineOK(stk, f, n, sizes) == stk # <<>> /\ Top(stk) = f /\ n >= 1 /\ n <= sizes[f]
=============================================================================
