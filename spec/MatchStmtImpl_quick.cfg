SPECIFICATION Spec
CONSTANTS
  NStmts = 120
  MaxDepth = 2
  MaxCases = 4
  MaxSeq = 3
  MaxKeys = 2
  Dump = TRUE
  Dev = {}
INVARIANT SelSound
INVARIANT SkipSound
INVARIANT BindComplete
INVARIANT OneBody
INVARIANT GuardOrder
INVARIANT ExcFinal
INVARIANT ImplAgrees
INVARIANT Publish
CHECK_DEADLOCK FALSE
