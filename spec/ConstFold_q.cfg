SPECIFICATION Spec
CONSTANTS
  Leaves <- QuickLeaves
  UnOps <- AllUn
  BinOps <- AllBin
  CmpOps <- AllCmp
  ChainOps <- SomeChain
  MaxTok = 4
  Ternary = TRUE
  Dump = TRUE
INVARIANT TypeOK
INVARIANT RefSound
INVARIANT ImplAgrees
INVARIANT Publish
INVARIANT CountErr
CHECK_DEADLOCK FALSE
