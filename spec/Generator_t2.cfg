SPECIFICATION Spec
CONSTANTS
  MaxLen = 5
  Dump = TRUE
  BodySel = {9, 10, 11, 12, 13, 14, 15, 16}
INVARIANT Consistent
INVARIANT FinallyOnce
INVARIANT CleanupOnDel
INVARIANT NoUnsup
INVARIANT Publish
PROPERTY Causal
CHECK_DEADLOCK FALSE
