SPECIFICATION Spec
CONSTANTS
  Part = "slice"
  MaxLen = 2
  VMag = 2
  Mixed = FALSE
  Dump = FALSE
INVARIANT NoUB
INVARIANT ImplAgrees
CHECK_DEADLOCK FALSE
