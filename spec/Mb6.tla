---- MODULE Mb6 ----
EXTENDS EvalOrder
RECURSIVE Chain(_)
Chain(d) == IF d = 0 THEN VLeaf ELSE Nd("not", <<Chain(d - 1)>>)
VARIABLES w
I2 == w = 0 /\ Init
N2 == /\ w = 0 /\ w' = 1 /\ UNCHANGED vars
      /\ \E d \in {6} : LET a == Nd("ret", <<Chain(d)>>) r == Exec(a, [ty |-> "O", out |-> [p \in 0..20000000 |-> "T"]]) IN PrintT(<<d, Len(r.log)>>)
====
