SPECIFICATION Spec
CONSTANTS
  MaxLen = 4
  Dump = TRUE
  UseCache = TRUE

INVARIANT Publish
CHECK_DEADLOCK FALSE
