----------------------------- MODULE DefAssign -----------------------------
(* C21: definedness of local, closure and loop variables of a Python        *)
(* function -- a view of the language that keeps only "is the name bound,   *)
(* and to the value of which statement".                                    *)
(*                                                                          *)
(* A program is a block (sequence of statements) forming a function body    *)
(* over the variables 1..NV.  Statements (uniform records, see Base):       *)
(*   asg v | del v | read v | cread v (read through a nested function: v is *)
(*   a cell variable) | wal v (`T() and (v := ..)`) | cex v (`L(v) if T()   *)
(*   else None`) | comp v r (`[L(r) for v in I()]`, own scope for v) |      *)
(*   mr (a call that may raise ValueError) | raise | ret | brk | cnt | nop  *)
(*   if a b | while a b(else) | for v a b(else) | with c v a (c = "sup":    *)
(*   __exit__ suppresses) | match v g d a b (`case (v,) [if T()]: a` and,   *)
(*   when d, `case _: b`) | try a hs b(else) f(finally, when g)             *)
(* Every condition, loop test, iterator step, match subject and possible    *)
(* raise is a CHOICE (0/1).  The machine below executes a program in small  *)
(* steps with a control stack; choices are nondeterministic, so the TLC     *)
(* behaviours of the run phase are exactly the paths of the program.  At    *)
(* most MaxWord choices are free, later ones are 0 (loops end, nothing      *)
(* raises), so every path ends.  The consumed choices (`word`) are the      *)
(* argument that replays the path on real code.                             *)
(*                                                                          *)
(* Rules (language reference 4.2.2 name resolution, 7.5 del, 8.3 for,       *)
(* 8.4 try, 8.5 with, 8.6 match, 6.2.4 displays, 6.12 assignment exprs):    *)
(*  - reading or deleting an unbound local raises UnboundLocalError (U);    *)
(*    reading an unbound free variable in the nested function NameError (N) *)
(*  - `except E as v` binds v on entry and UNBINDS it on every exit of the  *)
(*    handler, before the finally block runs                                *)
(*  - a for target is bound per iteration and keeps its last value; zero    *)
(*    iterations leave it as it was                                         *)
(*  - a capture pattern binds when the pattern succeeds, before the guard   *)
(*  - the comprehension variable lives in its own scope                     *)
(*  - finally runs on every exit; a jump or raise inside it overrides the   *)
(*    pending exit; a suppressing __exit__ turns an exception into normal   *)
(*    completion of the with statement                                      *)
(*                                                                          *)
(* Two phases, selected by the .cfg (INIT/NEXT):                            *)
(*  gen: TLC states are PROGRAMS; programs grow from the start program Pre *)
(*       by appending one statement to any block (AddXxx actions); every    *)
(*       closed program with an observing statement is published.           *)
(*  run: Init picks a numbered program (with the definedness facts exported *)
(*       from its real compilation: fx = cf_maybe_null / cf_is_null of the  *)
(*       NameNode, per finally-copy context) from IOEnv.PROGS; Next is the  *)
(*       small-step machine; terminal states publish word, expected log,    *)
(*       outcome, and the fact verdicts  unbound at a use or rebinding =>   *)
(*       cf_maybe_null,  cf_is_null => unbound there.  Terminal states      *)
(*       stutter; TLC's deadlock check then says that no state is stuck.    *)
EXTENDS Integers, Sequences, FiniteSets, TLC, Json, IOUtils

CONSTANTS NV,        \* variables 1..NV
          MaxStmts,  \* gen: statements per program
          MaxDepth,  \* gen: nesting depth of compound statements
          MaxComp,   \* gen: compound statements per program
          Kinds,     \* gen: statement kinds offered
          HSh,       \* gen: handler class lists offered for try
          AsVars,    \* gen: TRUE: `as` targets (except / with) are offered
          Pre,       \* gen: the program that growth starts from
          MaxWord,   \* run: number of free choices per path
          Dump       \* publish

Vars == 1..NV

HShAll   == {<<>>, <<"V">>, <<"N">>, <<"*">>, <<"V", "N">>}
HShSmall == {<<>>, <<"V">>, <<"*">>}
HShOne   == {<<"V">>}
HShFin   == {<<>>}
HShStar  == {<<"*">>}

---------------------------------------------------------------------------
(* statements *)
Base(t, v) == [t |-> t, id |-> 0, v |-> v, r |-> 0, c |-> "", g |-> FALSE, d |-> FALSE,
               a |-> <<>>, b |-> <<>>, hs |-> <<>>, f |-> <<>>, fx |-> [c |-> 1]]

Compound    == {"if", "while", "for", "try", "with", "match"}
Loops       == {"while", "for"}
Terminators == {"ret", "brk", "cnt", "raise"}
Observing   == {"read", "del", "cread", "comp", "cex"}

\* child blocks of a compound statement, by selector: 1 = a, 2 = b, 3 = f, 10+j = body of handler j
Sel(s) == CASE s.t \in {"if", "while", "for"} -> {1, 2}
            [] s.t = "with"  -> {1}
            [] s.t = "match" -> {1} \cup (IF s.d THEN {2} ELSE {})
            [] s.t = "try"   -> {1} \cup {10 + j : j \in 1..Len(s.hs)}
                                    \cup (IF s.hs # <<>> THEN {2} ELSE {}) \cup (IF s.g THEN {3} ELSE {})
            [] OTHER -> {}
Get(s, k) == IF k = 1 THEN s.a ELSE IF k = 2 THEN s.b ELSE IF k = 3 THEN s.f ELSE s.hs[k - 10].a
Set(s, k, x) == IF k = 1 THEN [s EXCEPT !.a = x] ELSE IF k = 2 THEN [s EXCEPT !.b = x]
                ELSE IF k = 3 THEN [s EXCEPT !.f = x] ELSE [s EXCEPT !.hs[k - 10].a = x]

RECURSIVE Flat(_), FlatH(_)
Flat(blk) == IF blk = <<>> THEN <<>>
             ELSE LET s == Head(blk)
                  IN <<s>> \o (IF s.t \in Compound THEN Flat(s.a) \o FlatH(s.hs) \o Flat(s.b) \o Flat(s.f) ELSE <<>>)
                         \o Flat(Tail(blk))
FlatH(hs) == IF hs = <<>> THEN <<>> ELSE Flat(hs[1].a) \o FlatH(Tail(hs))

NStmts(blk) == Len(Flat(blk))
NComp(blk)  == Cardinality({i \in 1..Len(Flat(blk)) : Flat(blk)[i].t \in Compound})
VarsOf(blk, t) == LET fl == Flat(blk) IN {fl[i].v : i \in {j \in 1..Len(fl) : fl[j].t = t}}
KindsOf(blk) == LET fl == Flat(blk) IN {fl[i].t : i \in 1..Len(fl)}
\* the names that are LOCAL to the function: bound (or deleted) by some statement, wherever it stands; a name that
\* is only read would be a global and is outside this model
LocalVars(blk) ==
  LET fl == Flat(blk)
  IN UNION {  (IF fl[i].t \in {"asg", "wal", "for", "match", "del"} \/ (fl[i].t = "with" /\ fl[i].v # 0) THEN {fl[i].v} ELSE {})
              \cup {fl[i].hs[j].v : j \in 1..Len(fl[i].hs)} : i \in 1..Len(fl) } \ {0}
UsedVars(blk) ==
  LET fl == Flat(blk)
  IN UNION { IF fl[i].t \in {"read", "cread", "cex", "del"} THEN {fl[i].v}
             ELSE IF fl[i].t = "comp" /\ fl[i].r # fl[i].v THEN {fl[i].r} ELSE {} : i \in 1..Len(fl) }
Closed(blk) == UsedVars(blk) \subseteq LocalVars(blk)
\* names that are unbound by a deletion: `del v`, and the implicit deletion at the end of `except .. as v`
DeletedVars(blk) ==
  LET fl == Flat(blk)
  IN UNION { (IF fl[i].t = "del" THEN {fl[i].v} ELSE {}) \cup {fl[i].hs[j].v : j \in 1..Len(fl[i].hs)} : i \in 1..Len(fl) } \ {0}

---------------------------------------------------------------------------
(* gen phase: program growth *)
\* insertion slots (end of every block): path, nesting depth, inside a loop body, after a terminator
RECURSIVE Slots(_, _, _), Put(_, _, _)
Slots(blk, d, lp) ==
  {[path |-> <<>>, d |-> d, lp |-> lp, dead |-> blk # <<>> /\ blk[Len(blk)].t \in Terminators]}
  \cup UNION { UNION { { [h EXCEPT !.path = <<i, k>> \o @]
                         : h \in Slots(Get(blk[i], k), d + 1,
                                       IF blk[i].t \in Loops THEN (k = 1 \/ lp) ELSE lp) }
                       : k \in Sel(blk[i]) }
               : i \in 1..Len(blk) }

Put(blk, path, x) ==
  IF path = <<>> THEN Append(blk, x)
  ELSE LET i == path[1]  k == path[2]
       IN [blk EXCEPT ![i] = Set(@, k, Put(Get(@, k), SubSeq(path, 3, Len(path)), x))]

VARIABLES prog,   \* gen: the program; run: the program being executed (constant)
          m       \* run: machine state (gen: NoMachine)

NoMachine == [pid |-> 0]

Open  == {h \in Slots(prog, 0, FALSE) : ~h.dead}
Room  == NStmts(prog) < MaxStmts
Leaf(x)  == Room /\ \E h \in Open : prog' = Put(prog, h.path, x) /\ UNCHANGED m
LeafL(x) == Room /\ \E h \in Open : h.lp /\ prog' = Put(prog, h.path, x) /\ UNCHANGED m
Nest(x)  == Room /\ NComp(prog) < MaxComp
            /\ \E h \in Open : h.d < MaxDepth /\ prog' = Put(prog, h.path, x) /\ UNCHANGED m
AsSet == IF AsVars THEN {0} \cup Vars ELSE {0}

AddAssign     == "asg" \in Kinds /\ \E v \in Vars : Leaf(Base("asg", v))
AddDel        == "del" \in Kinds /\ \E v \in Vars \ VarsOf(prog, "cread") : Leaf(Base("del", v))
AddRead       == "read" \in Kinds /\ \E v \in Vars : Leaf(Base("read", v))
AddClosureRead == "cread" \in Kinds /\ \E v \in Vars \ DeletedVars(prog) : Leaf(Base("cread", v))
AddWalrus     == "wal" \in Kinds /\ \E v \in Vars : Leaf(Base("wal", v))
AddCondRead   == "cex" \in Kinds /\ \E v \in Vars : Leaf(Base("cex", v))
AddComp       == "comp" \in Kinds /\ \E v \in Vars, r \in Vars : Leaf([Base("comp", v) EXCEPT !.r = r])
AddMaybeRaise == "mr" \in Kinds /\ Leaf(Base("mr", 0))
AddRaise      == "raise" \in Kinds /\ Leaf(Base("raise", 0))
AddReturn     == "ret" \in Kinds /\ Leaf(Base("ret", 0))
AddBreak      == "brk" \in Kinds /\ LeafL(Base("brk", 0))
AddContinue   == "cnt" \in Kinds /\ LeafL(Base("cnt", 0))
AddIf         == "if" \in Kinds /\ Nest(Base("if", 0))
AddWhile      == "while" \in Kinds /\ Nest(Base("while", 0))
AddFor        == "for" \in Kinds /\ \E v \in Vars : Nest(Base("for", v))
AddWith       == "with" \in Kinds /\ \E cm \in {"no", "sup"}, v \in AsSet : Nest([Base("with", v) EXCEPT !.c = cm])
AddMatch      == "match" \in Kinds /\ \E v \in Vars, g \in BOOLEAN, d \in BOOLEAN :
                    Nest([Base("match", v) EXCEPT !.g = g, !.d = d])
AddTry        == "try" \in Kinds /\ \E hc \in HSh, asv \in AsSet, fin \in BOOLEAN :
                    /\ hc # <<>> \/ fin
                    /\ asv # 0 => hc # <<>> /\ asv \notin VarsOf(prog, "cread")
                    /\ Nest([Base("try", 0) EXCEPT !.g = fin,
                                !.hs = [i \in 1..Len(hc) |-> [c |-> hc[i], v |-> IF i = 1 THEN asv ELSE 0, a |-> <<>>,
                                                               fx |-> [c |-> 1]]]])
\* an assignment in dead code (after return / break / continue / raise): the name is still a local
AddDead       == "dead" \in Kinds /\ Room
                 /\ \E h \in Slots(prog, 0, FALSE) : h.dead /\ \E v \in Vars : prog' = Put(prog, h.path, Base("asg", v))
                 /\ UNCHANGED m

NextGen == \/ AddAssign \/ AddDel \/ AddRead \/ AddClosureRead \/ AddWalrus \/ AddCondRead \/ AddComp
           \/ AddMaybeRaise \/ AddRaise \/ AddReturn \/ AddBreak \/ AddContinue
           \/ AddIf \/ AddWhile \/ AddFor \/ AddWith \/ AddMatch \/ AddTry \/ AddDead

PreNone == <<>>
PreAsg  == <<Base("asg", 1)>>       \* variable 1 is bound when the interesting part starts
InitGen == prog = Pre /\ m = NoMachine

---------------------------------------------------------------------------
(* well-formedness of programs (gen: invariant; run: checked on the programs read from the file) *)
RECURSIVE WFBlock(_, _)
WFStmt(s, lp) ==
  /\ s.t \in {"asg", "del", "read", "cread", "wal", "cex", "for", "match", "comp"} => s.v \in Vars
  /\ s.t = "comp" => s.r \in Vars
  /\ s.t \in {"brk", "cnt"} => lp
  /\ s.t = "try" => /\ s.hs # <<>> \/ s.g
                    /\ s.b # <<>> => s.hs # <<>>
                    /\ ~s.g => s.f = <<>>
                    /\ \A j \in 1..Len(s.hs) : s.hs[j].c = "*" => j = Len(s.hs)
  /\ s.t = "match" /\ ~s.d => s.b = <<>>
  /\ \A k \in Sel(s) : WFBlock(Get(s, k), IF s.t \in Loops THEN (k = 1 \/ lp) ELSE lp)
WFBlock(blk, lp) == \A i \in 1..Len(blk) : WFStmt(blk[i], lp)
WellFormed(p) == /\ WFBlock(p, FALSE)
                 /\ VarsOf(p, "cread") \cap DeletedVars(p) = {}    \* Cython cannot delete cell variables (documented)

GenWellFormed == m = NoMachine => WellFormed(prog)
GenBounded    == m = NoMachine => NStmts(prog) <= MaxStmts /\ NComp(prog) <= MaxComp

PublishGen == (Dump /\ m = NoMachine /\ KindsOf(prog) \cap Observing # {} /\ Closed(prog)) =>
                 PrintT("@@" \o ToJson([prog |-> prog, n |-> NStmts(prog)]))

---------------------------------------------------------------------------
(* run phase: the machine *)
Progs == ndJsonDeserialize(IOEnv.PROGS)      \* records [pid, prog] ; statements numbered (id), facts merged in

Norm     == [t |-> "norm", c |-> ""]
Exc(c)   == [t |-> "exc", c |-> c]
Jump(t)  == [t |-> t, c |-> ""]
NoStmt   == Base("nop", 0)
Fr(f, s, r, pend, i) == [f |-> f, s |-> s, r |-> r, pend |-> pend, i |-> i]
SeqFr(blk) == Fr("seq", NoStmt, blk, Norm, 0)

ExcId(c) == 9000 + (CASE c = "V" -> 1 [] c = "U" -> 2 [] OTHER -> 3)

Matches(c, h) == h = "*" \/ h = c \/ (h = "N" /\ c = "U")     \* UnboundLocalError is a NameError
HIdx(c, hs) == LET ok == {j \in 1..Len(hs) : Matches(c, hs[j].c)}
               IN IF ok = {} THEN 0 ELSE CHOOSE j \in ok : \A k \in ok : j <= k

InitM(pid) == [pid |-> pid, ctl |-> <<SeqFr(Progs[pid].prog)>>, sig |-> Norm,
               bnd |-> [v \in Vars |-> 0], log |-> <<>>, word |-> <<>>, out |-> "",
               fv |-> <<>>, nre |-> 0, tries |-> 0, fins |-> 0, nas |-> 0,
               why |-> [v \in Vars |-> 1], wat |-> [v \in Vars |-> 0], bset |-> {}]

InitRun == \E pid \in 1..Len(Progs) : prog = Progs[pid].prog /\ m = InitM(pid)

Running == m # NoMachine /\ m.out = ""
Depth   == Len(m.ctl)
Top     == m.ctl[Depth]
Normal  == Running /\ m.sig.t = "norm" /\ Depth > 0
Abrupt  == Running /\ m.sig.t # "norm" /\ Depth > 0
AtStmt  == Normal /\ Top.f = "seq" /\ Top.r # <<>>
Cur     == Head(Top.r)

Ch          == IF Len(m.word) < MaxWord THEN {0, 1} ELSE {0}
Take(x, c)  == IF Len(x.word) < MaxWord THEN [x EXCEPT !.word = Append(@, c)] ELSE x
PopF(x)     == [x EXCEPT !.ctl = SubSeq(@, 1, Len(@) - 1)]
PushF(x, f) == [x EXCEPT !.ctl = Append(@, f)]
ReplF(x, f) == [x EXCEPT !.ctl[Len(x.ctl)] = f]
Adv         == [m EXCEPT !.ctl[Depth].r = Tail(@)]            \* statement Cur taken from its block
\* B3 facts.  s.fx maps a context string to the flags of the NameNode that the compiler generates code from:
\* 1 = cf_maybe_null, 2 = cf_maybe_null and cf_is_null, 0 = neither ("always bound here").  The body of a finally
\* block is compiled in two copies (normal/jump exit, exception exit) that are analysed separately; the context
\* is "c" followed by one letter per finally block being executed: x when its pending exit is an exception, else n.
RECURSIVE FinCtx(_)
FinCtx(ctl) == IF ctl = <<>> THEN "c"
               ELSE FinCtx(SubSeq(ctl, 1, Len(ctl) - 1)) \o
                    (IF ctl[Len(ctl)].f = "fin" THEN (IF ctl[Len(ctl)].pend.t = "exc" THEN "x" ELSE "n") ELSE "")
FactAt(x, s) == LET cx == FinCtx(x.ctl) IN IF cx \in DOMAIN s.fx THEN s.fx[cx] ELSE 1      \* no fact: no claim
\* fact verdicts: a use OR (re)binding of v at statement s (id: the statement, or try id * 100 + j for the `as`
\* name of handler j; fx: its facts) that finds v unbound although the compiler says it cannot be (not maybe_null:
\* the generated code reads / DECREFs the old value without a NULL test), or bound although the compiler says it is
\* never bound there (is_null).  Kept in execution order with the number of log entries the run time had produced.
FactCode(x, fx) == LET cx == FinCtx(x.ctl) IN IF cx \in DOMAIN fx THEN fx[cx] ELSE 1
Verdict(x, id, fx, unbound) ==
  [x EXCEPT !.fv = @ \o (IF unbound /\ FactCode(x, fx) = 0 THEN <<<<id, "mn", FinCtx(x.ctl), x.nre>>>> ELSE <<>>)
                     \o (IF ~unbound /\ FactCode(x, fx) = 2 THEN <<<<id, "isn", FinCtx(x.ctl), x.nre>>>> ELSE <<>>)]
Fact(x, s, unbound) == Verdict(x, s.id, s.fx, unbound)

\* ghost: why[v] says how v came to be unbound (1 never bound, 2 del statement, 3 end of an `except .. as v`
\* handler), bset the binding statements executed so far, wat[v] which statement did it (the del statement / the try statement); a failed use is logged as
\* <<id, -why, wat, fact>>, a successful one as <<id, value, 0, fact>> (fact = the compiler's flags for this use in
\* the current context, 1 for events that are not uses)
BindRaw(x, v, val)  == [x EXCEPT !.bnd[v] = val, !.why[v] = 0, !.wat[v] = 0, !.bset = @ \cup {val}]
Bind(x, s, v, val)  == BindRaw(Fact(x, s, x.bnd[v] = 0), v, val)       \* binding by statement s, with its fact verdict
Unbind(x, v, w, at) == [x EXCEPT !.bnd[v] = 0, !.why[v] = w, !.wat[v] = at]
Ev(x, id, val)      == [x EXCEPT !.log = Append(@, <<id, val, 0, 1>>), !.nre = @ + 1]
EvUse(x, s, val)    == [x EXCEPT !.log = Append(@, <<s.id, val, 0, FactAt(x, s)>>), !.nre = @ + 1]
EvFail(x, s, v)     == [x EXCEPT !.log = Append(@, <<s.id, 0 - x.why[v], x.wat[v], FactAt(x, s)>>)]
Sig(x, s)        == [x EXCEPT !.sig = s]

\* a use (read / delete) of local v at statement s: UnboundLocalError (a failed-use event) or the value
Use(x, s, v) == IF x.bnd[v] = 0 THEN Sig(EvFail(Fact(x, s, TRUE), s, v), Exc("U"))
                ELSE EvUse(Fact(x, s, FALSE), s, x.bnd[v])

Go(x) == prog' = prog /\ m' = x

Assign      == AtStmt /\ Cur.t = "asg" /\ Go(Bind(Adv, Cur, Cur.v, Cur.id))
Delete      == AtStmt /\ Cur.t = "del" /\
               Go(IF Adv.bnd[Cur.v] = 0 THEN Use(Adv, Cur, Cur.v)
                  ELSE EvUse(Unbind(Fact(Adv, Cur, FALSE), Cur.v, 2, Cur.id), Cur, 0))
Read        == AtStmt /\ Cur.t = "read" /\ Go(Use(Adv, Cur, Cur.v))
ClosureRead == AtStmt /\ Cur.t = "cread" /\
               Go(IF Adv.bnd[Cur.v] = 0 THEN Sig(EvFail(Fact(Adv, Cur, TRUE), Cur, Cur.v), Exc("N"))
                  ELSE EvUse(Fact(Adv, Cur, FALSE), Cur, Adv.bnd[Cur.v]))
Walrus      == AtStmt /\ Cur.t = "wal" /\ \E c \in Ch :
               Go(IF c = 1 THEN Bind(Take(Adv, c), Cur, Cur.v, Cur.id) ELSE Take(Adv, c))
CondRead    == AtStmt /\ Cur.t = "cex" /\ \E c \in Ch :
               Go(IF c = 1 THEN Use(Take(Adv, c), Cur, Cur.v) ELSE Take(Adv, c))
MaybeRaise  == AtStmt /\ Cur.t = "mr" /\ \E c \in Ch :
               Go(IF c = 1 THEN Sig(Take(Adv, c), Exc("V")) ELSE Take(Adv, c))
RaiseStmt   == AtStmt /\ Cur.t = "raise" /\ Go(Sig(Adv, Exc("V")))
Return      == AtStmt /\ Cur.t = "ret" /\ Go(Sig(Adv, Jump("ret")))
Break       == AtStmt /\ Cur.t = "brk" /\ Go(Sig(Adv, Jump("brk")))
Continue    == AtStmt /\ Cur.t = "cnt" /\ Go(Sig(Adv, Jump("cnt")))
Skip        == AtStmt /\ Cur.t = "nop" /\ Go(Adv)
Branch      == AtStmt /\ Cur.t = "if" /\ \E c \in Ch :
               Go(PushF(Take(Adv, c), SeqFr(IF c = 1 THEN Cur.a ELSE Cur.b)))
EnterLoop   == AtStmt /\ Cur.t \in Loops /\ Go(PushF(Adv, Fr(Cur.t, Cur, <<>>, Norm, 0)))
EnterTry    == AtStmt /\ Cur.t = "try" /\
               Go(PushF(PushF([Adv EXCEPT !.tries = @ + (IF Cur.g THEN 1 ELSE 0)], Fr("try", Cur, <<>>, Norm, 0)), SeqFr(Cur.a)))
EnterWith   == AtStmt /\ Cur.t = "with" /\
               Go(PushF(PushF(IF Cur.v # 0 THEN Bind(Adv, Cur, Cur.v, Cur.id) ELSE Adv, Fr("with", Cur, <<>>, Norm, 0)), SeqFr(Cur.a)))
EnterComp   == AtStmt /\ Cur.t = "comp" /\ Go(PushF(Adv, Fr("comp", Cur, <<>>, Norm, 0)))
Default(x, s) == IF s.d THEN PushF(x, SeqFr(s.b)) ELSE x
MatchSubject == AtStmt /\ Cur.t = "match" /\ \E c \in Ch :
               Go(IF c = 0 THEN Default(Take(Adv, c), Cur)
                  ELSE LET x == Bind(Take(Adv, c), Cur, Cur.v, Cur.id)
                       IN IF Cur.g THEN PushF(x, Fr("mg", Cur, <<>>, Norm, 0)) ELSE PushF(x, SeqFr(Cur.a)))
MatchGuard  == Normal /\ Top.f = "mg" /\ \E c \in Ch :
               Go(IF c = 1 THEN PushF(PopF(Take(m, c)), SeqFr(Top.s.a)) ELSE Default(PopF(Take(m, c)), Top.s))
BlockEnd    == Normal /\ Top.f = "seq" /\ Top.r = <<>> /\ Go(PopF(m))
LoopTest    == Normal /\ Top.f = "while" /\ \E c \in Ch :
               Go(IF c = 1 THEN PushF(Take(m, c), SeqFr(Top.s.a)) ELSE ReplF(Take(m, c), SeqFr(Top.s.b)))
ForNext     == Normal /\ Top.f = "for" /\ \E c \in Ch :
               Go(IF c = 1 THEN PushF(Bind(Take(m, c), Top.s, Top.s.v, Top.s.id), SeqFr(Top.s.a))
                  ELSE ReplF(Take(m, c), SeqFr(Top.s.b)))
CompNext    == Normal /\ Top.f = "comp" /\ \E c \in Ch :
               Go(IF c = 0 THEN PopF(Take(m, c))
                  ELSE IF Top.s.r = Top.s.v THEN Ev(Take(m, c), Top.s.id, Top.s.id)     \* the comprehension's own variable
                  ELSE Use(Take(m, c), Top.s, Top.s.r))
TryBodyDone == Normal /\ Top.f = "try" /\ Go(PushF(ReplF(m, Fr("els", Top.s, <<>>, Norm, 0)), SeqFr(Top.s.b)))

\* leave the try statement s (frame on top) with the pending signal: run the finally block, if any
ToFinally(x, s, pend) ==
  IF s.g THEN PushF(ReplF(Sig(x, Norm), Fr("fin", s, <<>>, pend, 0)), SeqFr(s.f))
  ELSE Sig(PopF(x), pend)

Handle      == Abrupt /\ Top.f = "try" /\ m.sig.t = "exc" /\ HIdx(m.sig.c, Top.s.hs) > 0 /\
               LET j == HIdx(m.sig.c, Top.s.hs)
                   h == Top.s.hs[j]
                   x == ReplF(Sig(m, Norm), Fr("hnd", Top.s, <<>>, Norm, j))
                   y == IF h.v # 0 THEN BindRaw(Verdict([x EXCEPT !.nas = @ + 1], Top.s.id * 100 + j, h.fx, x.bnd[h.v] = 0),
                                                h.v, ExcId(m.sig.c))
                        ELSE x
               IN Go(PushF(Ev(y, Top.s.id * 100 + j, 0), SeqFr(h.a)))      \* handler entry mark
TryAbrupt   == Abrupt /\ Top.f = "try" /\ ~(m.sig.t = "exc" /\ HIdx(m.sig.c, Top.s.hs) > 0) /\
               Go(ToFinally(m, Top.s, m.sig))
LeaveElse   == Running /\ Depth > 0 /\ Top.f = "els" /\ Go(ToFinally(m, Top.s, m.sig))
LeaveHandler == Running /\ Depth > 0 /\ Top.f = "hnd" /\
               LET h == Top.s.hs[Top.i]
               IN Go(ToFinally(IF h.v # 0 THEN Unbind([m EXCEPT !.nas = @ - 1], h.v, 3, Top.s.id) ELSE m, Top.s, m.sig))
FinallyDone == Normal /\ Top.f = "fin" /\ Go(Sig([PopF(m) EXCEPT !.fins = @ + 1], Top.pend))
FinallyOverride == Abrupt /\ Top.f = "fin" /\ Go([PopF(m) EXCEPT !.fins = @ + 1])
WithExit    == Running /\ Depth > 0 /\ Top.f = "with" /\
               Go(IF m.sig.t = "exc" /\ Top.s.c = "sup" THEN Sig(PopF(m), Norm) ELSE PopF(m))
LoopBreak   == Abrupt /\ Top.f \in Loops /\ m.sig.t = "brk" /\ Go(Sig(PopF(m), Norm))
LoopContinue == Abrupt /\ Top.f \in Loops /\ m.sig.t = "cnt" /\ Go(Sig(m, Norm))
Unwind      == Abrupt /\ (Top.f \in {"seq", "mg", "comp"} \/ (Top.f \in Loops /\ m.sig.t \notin {"brk", "cnt"})) /\ Go(PopF(m))
Finish      == Running /\ Depth = 0 /\
               Go([m EXCEPT !.out = CASE m.sig.t = "norm" -> "end" [] m.sig.t = "ret" -> "ret"
                                      [] m.sig.t = "exc" -> m.sig.c [] OTHER -> "escaped-" \o m.sig.t])

Step == \/ Assign \/ Delete \/ Read \/ ClosureRead \/ Walrus \/ CondRead \/ MaybeRaise \/ RaiseStmt
        \/ Return \/ Break \/ Continue \/ Skip \/ Branch \/ EnterLoop \/ EnterTry \/ EnterWith \/ EnterComp
        \/ MatchSubject \/ MatchGuard \/ BlockEnd \/ LoopTest \/ ForNext \/ CompNext \/ TryBodyDone
        \/ Handle \/ TryAbrupt \/ LeaveElse \/ LeaveHandler \/ FinallyDone \/ FinallyOverride \/ WithExit
        \/ LoopBreak \/ LoopContinue \/ Unwind \/ Finish

\* terminal states stutter, so that TLC's deadlock check means: no stuck state before the function has ended
Stutter == m # NoMachine /\ m.out # "" /\ UNCHANGED <<prog, m>>
NextRun == Step \/ Stutter

SpecGen == InitGen /\ [][NextGen]_<<prog, m>>
SpecRun == InitRun /\ [][NextRun]_<<prog, m>>

---------------------------------------------------------------------------
(* properties of the machine *)
Ids(p) == LET fl == Flat(p) IN {fl[i].id : i \in 1..Len(fl)}
Binders(p, v) ==      \* the values v can legally hold: ids of the statements that bind it, exception ids for `as`
  LET fl == Flat(p)
  IN {fl[i].id : i \in {j \in 1..Len(fl) : fl[j].v = v /\ fl[j].t \in {"asg", "wal", "for", "with", "match"}}}
     \cup {9001, 9002, 9003}

\* checked in the first state of every program read from the file
RunWellFormed == (m # NoMachine /\ m.word = <<>> /\ m.log = <<>> /\ Len(m.ctl) = 1) =>
                     /\ WellFormed(prog) /\ Closed(prog)
                     /\ Cardinality(Ids(prog)) = NStmts(prog)      \* numbering is injective
                     /\ 0 \notin Ids(prog)

\* a value that is read was put there by a statement that binds this very variable (no stale/foreign value)
ValuesSound == m # NoMachine => \A v \in Vars : m.bnd[v] = 0 \/ m.bnd[v] \in Binders(prog, v)
\* the path word never exceeds the bound; the log only grows by uses
WordBounded == m # NoMachine => Len(m.word) <= MaxWord
\* break / continue never leave the function; the stack is empty at the end; as-names are all unbound again
OutcomeWellFormed == (m # NoMachine /\ m.out # "") =>
                        /\ m.out \in {"end", "ret", "V", "U", "N"}
                        /\ m.ctl = <<>> /\ m.nas = 0
                        /\ m.fins = m.tries                       \* every entered finally ran exactly once
\* U / N are raised by uses only: the last log entry before an uncaught U / N outcome is a failed use
ErrorsFromUses == (m # NoMachine /\ m.out \in {"U", "N"}) => \E i \in 1..Len(m.log) : m.log[i][2] < 0
\* no stuck state: CHECK_DEADLOCK TRUE in the run configurations (terminal states stutter); the same as an invariant:
Progress == Running => ENABLED Step

PublishRun == (Dump /\ m # NoMachine /\ m.out # "") =>
                 PrintT("@@" \o ToJson([pid |-> Progs[m.pid].pid, word |-> m.word, log |-> m.log, out |-> m.out,
                                        fv |-> m.fv, bset |-> m.bset]))
=============================================================================
