SPECIFICATION Spec
CONSTANTS
  Family = "long"
  Prefixes = {"", "u", "b", "rb"}
  Quotes = {1, 4}
  Alphabet = "mini"
  MaxAtoms = 0
  MaxParts = 1
  Prefixes2 = {}
  Quotes2 = {}
  LongReps = {2100, 4700}
  BigReps = {1999, 2000, 2001, 3999, 4000, 4001, 65535, 65536, 65538, 70000}
  Dump = TRUE
INVARIANT TypeOK
INVARIANT Compositional
INVARIANT RawInert
INVARIANT NoGrowth
INVARIANT Periodic
INVARIANT Publish
