SPECIFICATION Spec
CONSTANTS
  MaxPO = 1
  MaxPK = 1
  MaxKO = 1
  FixPO = 9
  MaxPos = 3
  Extra = 1
  MaxKw = 3
  NSim = 0
  KindMode = "pat"
  Dump = TRUE
INVARIANT RefIsDeclarative
INVARIANT ImplAgrees
INVARIANT Publish
CHECK_DEADLOCK FALSE
