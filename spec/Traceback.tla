----------------------------- MODULE Traceback -----------------------------
(* C44, traceback part: an exception raised inside compiled code carries    *)
(* traceback entries naming the right function and source line of the       *)
(* raising / calling statement, outermost first.                            *)
(*                                                                          *)
(* A program is a chain of frames f1 -> f2 -> ... -> fn; fK has a kind, a   *)
(* number of padding statements before its active statement, and is either  *)
(* wrapped in a try/finally or not.  The layout function gives the line of  *)
(* every `def` and of every active statement of the rendered source (the    *)
(* harness renders exactly this layout), the expected traceback is the list *)
(* of <<function name, line of its active statement>>.                      *)
EXTENDS Naturals, Sequences, TLC, Json

CONSTANTS MaxDepth, Kinds, Pads, Dump

VARIABLES chain     \* sequence of [kind, pad, tf]
vars == <<chain>>

Frame == [kind : Kinds, pad : Pads, tf : BOOLEAN]

(* lines used by frame k's definition:                                      *)
(*   method: "class Ck:" line first                                         *)
(*   "def fk(x):"                                                           *)
(*   [ "    try:" ]                                                         *)
(*   pad padding statements                                                 *)
(*   the active statement (call of f(k+1), or raise)                        *)
(*   [ "    finally:" / "        pass" ]                                    *)
(*   one blank line                                                         *)
Header(f) == IF f.kind = "method" THEN 2 ELSE 1
\* the finally part is 5 lines: finally: / try: / raise KeyError(x) / except KeyError: / pass
\* (an exception raised and caught INSIDE the finally body must not disturb the recorded line)
Size(f) == Header(f) + (IF f.tf THEN 1 ELSE 0) + f.pad + 1 + (IF f.tf THEN 5 ELSE 0) + 1

RECURSIVE StartLine(_, _)
\* frames are rendered innermost first (callee before caller), after a 2-line module header
StartLine(c, k) == IF k = Len(c) THEN 3 ELSE StartLine(c, k + 1) + Size(c[k + 1])
DefLine(c, k) == StartLine(c, k) + Header(c[k]) - 1
ActiveLine(c, k) == DefLine(c, k) + 1 + (IF c[k].tf THEN 1 ELSE 0) + c[k].pad

FuncName(c, k) == IF c[k].kind = "method" THEN "m" ELSE "f"
Expected(c) == [k \in 1..Len(c) |-> [name |-> FuncName(c, k), k |-> k, line |-> ActiveLine(c, k), defline |-> DefLine(c, k)]]

Init == chain = <<>>
Grow == /\ Len(chain) < MaxDepth
        /\ \E f \in Frame : chain' = Append(chain, f)
Next == Grow
Spec == Init /\ [][Next]_vars

(* model-level sanity: lines strictly increase from the innermost definition outwards, and every *)
(* active statement lies inside its own function's line range                                     *)
WellFormed == \A k \in 1..Len(chain) :
                 /\ ActiveLine(chain, k) > DefLine(chain, k)
                 /\ (k < Len(chain) => DefLine(chain, k) > ActiveLine(chain, k + 1))
Publish == (Dump /\ chain # <<>>) => PrintT("@@" \o ToJson([chain |-> chain, tb |-> Expected(chain)]))
=============================================================================
