SPECIFICATION Spec
CONSTANTS
  Part = "strin"
  MaxArms = 1
INVARIANT StrinStrict
CHECK_DEADLOCK FALSE
