------------------------------- MODULE Prange -------------------------------
(* C37: the exit / exception hand-off protocol that Cython generates around  *)
(* a prange loop (Compiler/Nodes.py: ParallelStatNode.trap_parallel_exit,    *)
(* fetch_parallel_exception, end_parallel_control_flow_block,                *)
(* ParallelRangeNode.generate_loop).                                         *)
(*                                                                           *)
(* T OpenMP threads execute N iterations; iteration i has a fixed outcome    *)
(* out[i] in {normal, break, return, raise}.  Per iteration a thread:        *)
(*   guard  : `if (why < 2)` read through its possibly STALE view seen[t]    *)
(*   body   : contributes to the reduction / lastprivate, or leaves through  *)
(*            the break / return / error label                              *)
(*   trap   : error label: fetch_parallel_exception under the GIL (move the  *)
(*            thread's exception into the shared slot iff the slot is empty) *)
(*            then `why = k` (plain store, last writer wins)                 *)
(*   flush  : `#pragma omp flush(why)` at the end of every iteration         *)
(* After the implicit barrier: thread states are released (a pending         *)
(* exception dies with its thread state), `if (exc_type) why = 4`, switch.   *)
(* Iterations are handed out by a nondeterministic scheduler: "dynamic" (any *)
(* idle thread takes the next unassigned iteration) or "static" (iteration i *)
(* belongs to thread i % T).                                                 *)
EXTENDS Naturals, Sequences, FiniteSets, TLC, PrangeGuarantee

CONSTANTS T, N, Schedule      \* threads 1..T, iterations 0..N-1, "dynamic" | "static"

Threads == 1..T
Iters == 0..(N - 1)
Kinds == {"normal", "break", "return", "raise"}
WhyOf(k) == CASE k = "break" -> 2 [] k = "return" -> 3 [] k = "raise" -> 4 [] OTHER -> 0

VARIABLES out,      \* iteration -> outcome (fixed per behaviour)
          pc,       \* thread -> "idle" | "guard" | "body" | "fetch" | "setwhy" | "flush" | "done"
          cur,      \* thread -> iteration in progress (or N)
          taken,    \* set of iterations handed out
          executed, \* set of iterations whose body ran
          why,      \* the shared variable
          seen,     \* thread -> its view of `why` (refreshed by flush)
          gil,      \* 0 = free, else the holding thread
          texc,     \* thread -> exception (iteration id + 1) pending in its thread state, 0 = none
          shared,   \* the saved parallel exception (iteration id + 1), 0 = none
          freed,    \* set of exception ids whose object has been released
          sum,      \* reduction result (each normal iteration adds i + 1)
          last,     \* lastprivate: value written by the sequentially last executed iteration, else N (untouched)
          final     \* "" while running, then the outcome of the statement
vars == <<out, pc, cur, taken, executed, why, seen, gil, texc, shared, freed, sum, last, final>>

Init == /\ out \in [Iters -> Kinds]
        /\ pc = [t \in Threads |-> "idle"] /\ cur = [t \in Threads |-> N]
        /\ taken = {} /\ executed = {}
        /\ why = 0 /\ seen = [t \in Threads |-> 0]
        /\ gil = 0 /\ texc = [t \in Threads |-> 0] /\ shared = 0 /\ freed = {}
        /\ sum = 0 /\ last = N /\ final = ""

Mine(t) == IF Schedule = "static" THEN {i \in Iters \ taken : (i % T) + 1 = t} ELSE Iters \ taken
Min(S) == CHOOSE x \in S : \A y \in S : x <= y

(* the runtime hands the next iteration of the thread's share to an idle thread *)
Take(t) == /\ pc[t] = "idle" /\ Mine(t) # {}
           /\ LET i == Min(Mine(t)) IN
                /\ (Schedule = "dynamic" => i = Min(Iters \ taken))
                /\ cur' = [cur EXCEPT ![t] = i] /\ taken' = taken \cup {i}
           /\ pc' = [pc EXCEPT ![t] = "guard"]
           /\ UNCHANGED <<out, executed, why, seen, gil, texc, shared, freed, sum, last, final>>
Finish(t) == /\ pc[t] = "idle" /\ Mine(t) = {}
             /\ pc' = [pc EXCEPT ![t] = "done"]
             /\ UNCHANGED <<out, cur, taken, executed, why, seen, gil, texc, shared, freed, sum, last, final>>

(* `if (why < 2)` through the thread's view *)
Guard(t) == /\ pc[t] = "guard"
            /\ pc' = [pc EXCEPT ![t] = IF seen[t] < 2 THEN "body" ELSE "idle"]
            /\ UNCHANGED <<out, cur, taken, executed, why, seen, gil, texc, shared, freed, sum, last, final>>

Body(t) == /\ pc[t] = "body"
           /\ LET i == cur[t] k == out[i] IN
                /\ executed' = executed \cup {i}
                /\ sum' = IF k = "normal" THEN sum + i + 1 ELSE sum
                /\ last' = IF k = "normal" /\ (last = N \/ i > last) THEN i ELSE last
                /\ texc' = IF k = "raise" THEN [texc EXCEPT ![t] = i + 1] ELSE texc
                /\ pc' = [pc EXCEPT ![t] = CASE k = "raise" -> "fetch" [] k = "normal" -> "flush" [] OTHER -> "setwhy"]
           /\ UNCHANGED <<out, cur, taken, why, seen, gil, shared, freed, final>>

(* fetch_parallel_exception: ensure GIL; if the shared slot is empty move the exception there *)
Fetch(t) == /\ pc[t] = "fetch" /\ gil = 0
            /\ IF shared = 0
                  THEN shared' = texc[t] /\ texc' = [texc EXCEPT ![t] = 0]
                  ELSE UNCHANGED <<shared, texc>>
            /\ pc' = [pc EXCEPT ![t] = "setwhy"]
            /\ UNCHANGED <<out, cur, taken, executed, why, seen, gil, freed, sum, last, final>>
            \* (the GIL is taken and released inside this one step: nothing else can run under it)

SetWhy(t) == /\ pc[t] = "setwhy"
             /\ why' = WhyOf(out[cur[t]])
             /\ pc' = [pc EXCEPT ![t] = "flush"]
             /\ UNCHANGED <<out, cur, taken, executed, seen, gil, texc, shared, freed, sum, last, final>>

Flush(t) == /\ pc[t] = "flush"
            /\ seen' = [seen EXCEPT ![t] = why]
            /\ pc' = [pc EXCEPT ![t] = "idle"]
            /\ UNCHANGED <<out, cur, taken, executed, why, gil, texc, shared, freed, sum, last, final>>

(* barrier reached by every thread: thread states are released (pending exceptions die with them), *)
(* then the epilogue of end_parallel_control_flow_block                                             *)
Epilogue == /\ final = "" /\ \A t \in Threads : pc[t] = "done"
            /\ freed' = freed \cup {texc[t] : t \in {u \in Threads : texc[u] # 0}}
            /\ texc' = [t \in Threads |-> 0]
            /\ LET w == IF shared # 0 THEN 4 ELSE why IN
                 final' = CASE w = 4 -> "raise" [] w = 3 -> "return" [] w = 2 -> "break" [] OTHER -> "normal"
            /\ UNCHANGED <<out, pc, cur, taken, executed, why, seen, gil, shared, sum, last>>

TakeA == \E t \in Threads : Take(t)
FinishA == \E t \in Threads : Finish(t)
GuardA == \E t \in Threads : Guard(t)
BodyA == \E t \in Threads : Body(t)
FetchA == \E t \in Threads : Fetch(t)
SetWhyA == \E t \in Threads : SetWhy(t)
FlushA == \E t \in Threads : Flush(t)
Next == TakeA \/ FinishA \/ GuardA \/ BodyA \/ FetchA \/ SetWhyA \/ FlushA \/ Epilogue
Spec == Init /\ [][Next]_vars /\ WF_vars(Next)

---------------------------------------------------------------------------
(* ownership of exception objects: never two owners, never lost *)
Raised == {i + 1 : i \in {j \in executed : out[j] = "raise"}}
Holders(e) == Cardinality({t \in Threads : texc[t] = e}) + (IF shared = e THEN 1 ELSE 0) + (IF e \in freed THEN 1 ELSE 0)
OneOwner == \A e \in Raised : Holders(e) <= 1 \/ \E t \in Threads : pc[t] = "body"
NoDoubleOwner == \A e \in 1..N : Holders(e) <= 1
EachExecutedOnce == Cardinality(taken) <= N /\ executed \subseteq taken

(* the guarantee at the end of the statement: PrangeGuarantee!Guarantee, the SAME operator that
   Prange_Trace.tla evaluates on runs recorded from compiled code *)
Safe == final # "" => Guarantee(N, out, executed, final, sum, last, shared, freed)
Terminates == <>(final # "")
=============================================================================
