SPECIFICATION Spec
CONSTANTS
  Alphabet <- BigAlphabet
  MaxLen = 2
  Blocks <- BigBlocks
  MaxBlocks = 4
  BlockAfter = 2
  Dump = TRUE
INVARIANT AutomatonConsistent
INVARIANT StrToNumberOK
INVARIANT CLiteralOK
INVARIANT UnderscoreNeutral
INVARIANT Publish
CHECK_DEADLOCK FALSE
