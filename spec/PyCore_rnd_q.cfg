SPECIFICATION Spec
CONSTANTS
  MaxS = 3
  EDepth = 2
  SDepth = 1
  Shapes = {"", "H", "L", "C", "HC", "LC"}
  Mod = 1
  NCalls = 12
  NProg = 90
  Sample = TRUE
  Wide = TRUE
  Dump = TRUE
INVARIANT NoDangling
INVARIANT ModuleOK
INVARIANT DefiniteAssignment
INVARIANT ObsOK
INVARIANT GenOK
INVARIANT Publish
CHECK_DEADLOCK FALSE
