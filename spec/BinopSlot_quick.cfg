SPECIFICATION Spec
CONSTANTS
  Pairs <- PairsQuick
  AllPython = FALSE
  Dump = TRUE
INVARIANT RefShape
INVARIANT ImplAgreesOffHazards
INVARIANT Publish
CHECK_DEADLOCK FALSE
