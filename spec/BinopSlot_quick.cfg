SPECIFICATION Spec
CONSTANTS
  Pairs <- PairsQuick
  PairsRef <- PairsRefQuick
  Dump = TRUE
INVARIANT RefShape
INVARIANT RefIsCPythonOnPlainClasses
INVARIANT ImplAgreesOffHazards
INVARIANT Publish
CHECK_DEADLOCK FALSE
