SPECIFICATION Spec
CONSTANTS
  Part = "bool"
  BoolSize = "q"
  AndMerge = "fixed"
  MaxArms = 1
INVARIANT BoolRefOK
INVARIANT SwitchSound
INVARIANT Publish
CHECK_DEADLOCK FALSE
