SPECIFICATION Spec
CONSTANTS
  Types <- TShort
  Dump = TRUE
  GridOnly = TRUE
INVARIANT RefSound
INVARIANT ImplAgrees
INVARIANT NoUB
INVARIANT Publish
CHECK_DEADLOCK FALSE
