SPECIFICATION Spec
CONSTANTS
  Part = "shapes"
  MaxArms = 1
INVARIANT FlattenOrderStrict
CHECK_DEADLOCK FALSE
