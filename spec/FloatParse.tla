---------------------------- MODULE FloatParse ----------------------------
(* C06 (part 1): which strings float(str | bytes | bytearray) accepts and   *)
(* what they denote.                                                        *)
(*                                                                          *)
(* A string is a sequence of SYMBOLS (character classes; the binding picks  *)
(* representatives):                                                        *)
(*   "0".."9"  ASCII digits            "_" "." "+" "-"   themselves         *)
(*   "e"       e / E                   "i" "n" "f" "a" "t" "y"  either case *)
(*   "sp"      \t \n \v \f \r space    (C locale Py_ISSPACE)                *)
(*   "gs"      \x1c..\x1f  (ASCII, Py_UNICODE_ISSPACE but not Py_ISSPACE)   *)
(*   "nul"     \0          "x"   any other ASCII character                  *)
(*   "us"      non-ASCII Unicode whitespace (U+00A0, U+2003, U+3000 ...)    *)
(*   "u0".."u9" non-ASCII decimal digit (category Nd) of that value         *)
(*   "ux"      any other non-ASCII character / byte >= 0x80                 *)
(* In mode "bytes" the non-ASCII symbols stand for their UTF-8 bytes.       *)
(*                                                                          *)
(* Reference (Ref): the CPython 3.12 pipeline  Objects/floatobject.c        *)
(*   PyFloat_FromString -> _PyUnicode_TransformDecimalAndSpaceToASCII (str) *)
(*   -> strip Py_ISSPACE -> _Py_string_to_number_with_underscores ->        *)
(*   PyOS_string_to_double must consume everything.  The number grammar is  *)
(*   given twice, as a left-to-right scanner (Scan, transcribing            *)
(*   _Py_parse_inf_or_nan + the decimal part of _Py_dg_strtod) and as a     *)
(*   declarative "exists a split" definition (DeclMatch); the underscore    *)
(*   rule likewise (CPython's prev-character scan vs. "digit on both        *)
(*   sides").  Invariants GrammarsAgree / UnderscoreRulesAgree.             *)
(* Impl-shaped (Impl): Cython/Utility/Optimize.c                            *)
(*   __Pyx_PyUnicode_AsDouble (ASCII -> bytes path, else _WithSpaces),      *)
(*   __Pyx__PyBytes_AsDouble, _inf_nan, _Copy, fallback to CPython.         *)
(* ImplAgrees (fast path = reference) does NOT hold; PublishHazards prints  *)
(* the strings on which the transcription leaves the reference; they are    *)
(* replayed on the compiled code, as is every accepted string (with its     *)
(* denotation) and every rejected one (enumerated by the binding).          *)
(*                                                                          *)
(* States: (family, mode, str).  Next appends one symbol of the family's     *)
(* alphabet (exhaustive up to the family's length); Init additionally picks *)
(* one state per record the harness generated (long strings: "infinity",    *)
(* the 40-character buffer boundary of the fast path, mutated numbers).     *)
EXTENDS Integers, Sequences, TLC, Json, FiniteSets, IOUtils

CONSTANTS Families,     \* names of the enumeration families (FamTable) explored by Next
          UseRecords,   \* TRUE: additionally one state per record of IOEnv.RECORDS ([id, mode, s])
          CheckDecl     \* evaluate the declarative grammar / padding law too (cheap only for short strings)

Digits  == {"0", "1", "2", "3", "4", "5", "6", "7", "8", "9"}
UDigits == {"u0", "u1", "u2", "u3", "u4", "u5", "u6", "u7", "u8", "u9"}
UVal == [c \in UDigits |-> CASE c = "u0" -> "0" [] c = "u1" -> "1" [] c = "u2" -> "2" [] c = "u3" -> "3" [] c = "u4" -> "4"
                              [] c = "u5" -> "5" [] c = "u6" -> "6" [] c = "u7" -> "7" [] c = "u8" -> "8" [] c = "u9" -> "9"]
NonAscii == {"us", "ux"} \cup UDigits
Letters == {"i", "n", "f", "a", "t", "y"}
Signs == {"+", "-"}
AllSymbols == Digits \cup UDigits \cup Letters \cup Signs \cup {"_", ".", "e", "sp", "gs", "nul", "x", "us", "ux"}

\* s[i], or the C string terminator outside the string
At(s, i) == IF i >= 1 /\ i <= Len(s) THEN s[i] ELSE "end"
IsDigit(c) == c \in Digits
NotUnd(c) == c # "_"

RECURSIVE Cat(_)
Cat(q) == IF q = <<>> THEN "" ELSE Head(q) \o Cat(Tail(q))

\* number of consecutive digits of s from position p on
RECURSIVE DigitRun(_, _)
DigitRun(s, p) == IF IsDigit(At(s, p)) THEN 1 + DigitRun(s, p + 1) ELSE 0

Reject == [acc |-> FALSE, kind |-> "-", neg |-> FALSE, ip |-> "", fp |-> "", eneg |-> FALSE, ep |-> ""]
Special(kind, neg) == [acc |-> TRUE, kind |-> kind, neg |-> neg, ip |-> "", fp |-> "", eneg |-> FALSE, ep |-> ""]

---------------------------------------------------------------------------
(* The scanner: PyOS_string_to_double(buf, &end, NULL) on a NUL-terminated  *)
(* buffer.  Result: end = number of characters consumed (0: no conversion,  *)
(* ValueError set) and the denotation of the consumed prefix.               *)
Word(s, p, w) == \A k \in 1..Len(w) : At(s, p + k - 1) = w[k]

Scan(s) ==
  LET sg  == IF At(s, 1) \in Signs THEN 1 ELSE 0
      neg == At(s, 1) = "-"
      p   == sg + 1
  IN IF Word(s, p, <<"i", "n", "f">>)
       THEN [end |-> IF Word(s, p + 3, <<"i", "n", "i", "t", "y">>) THEN p + 7 ELSE p + 2, v |-> Special("inf", neg)]
     ELSE IF Word(s, p, <<"n", "a", "n">>) THEN [end |-> p + 2, v |-> Special("nan", neg)]
     ELSE
       LET ni  == DigitRun(s, p)
           dot == At(s, p + ni) = "."
           nf  == IF dot THEN DigitRun(s, p + ni + 1) ELSE 0
           m   == p + ni + (IF dot THEN 1 + nf ELSE 0)        \* first position after the mantissa
       IN IF ni + nf = 0 THEN [end |-> 0, v |-> Reject]
          ELSE LET hase == At(s, m) = "e"
                   es   == IF hase /\ At(s, m + 1) \in Signs THEN 1 ELSE 0
                   ne   == IF hase THEN DigitRun(s, m + 1 + es) ELSE 0
                   ipart == Cat(SubSeq(s, p, p + ni - 1))
                   fpart == IF dot THEN Cat(SubSeq(s, p + ni + 1, p + ni + nf)) ELSE ""
               IN IF ne = 0      \* no (complete) exponent: "1e", "1e+" stop before the e
                    THEN [end |-> m - 1, v |-> [acc |-> TRUE, kind |-> "fin", neg |-> neg, ip |-> ipart, fp |-> fpart,
                                                 eneg |-> FALSE, ep |-> ""]]
                    ELSE [end |-> m + es + ne, v |-> [acc |-> TRUE, kind |-> "fin", neg |-> neg, ip |-> ipart, fp |-> fpart,
                                                       eneg |-> At(s, m + 1) = "-", ep |-> Cat(SubSeq(s, m + 1 + es, m + es + ne))]]

\* the whole buffer must be consumed (an embedded NUL stops the C scanner: never reaches the end)
FullParse(s) == LET r == Scan(s) IN
                IF r.end = Len(s) /\ r.end > 0 /\ \A k \in 1..Len(s) : s[k] # "nul" THEN r.v ELSE Reject

(* the same language, declaratively *)
AllDigitsIn(s, lo, hi) == \A k \in lo..hi : IsDigit(At(s, k))
DeclMatch(s) ==
  \E sg \in {0, 1} :
    /\ sg = 1 => At(s, 1) \in Signs
    /\ LET r == SubSeq(s, sg + 1, Len(s))  n == Len(r) IN
       \/ r \in {<<"i", "n", "f">>, <<"i", "n", "f", "i", "n", "i", "t", "y">>, <<"n", "a", "n">>}
       \/ \E a \in 0..n :                          \* integer digits
            /\ AllDigitsIn(r, 1, a)
            /\ \E dot \in BOOLEAN : \E f \in (IF dot THEN 0..(n - a) ELSE {0}) :     \* fraction digits
                 LET m == a + (IF dot THEN 1 + f ELSE 0) IN
                 /\ m <= n /\ a + f >= 1
                 /\ dot => (At(r, a + 1) = "." /\ AllDigitsIn(r, a + 2, a + 1 + f))
                 /\ \/ m = n
                    \/ /\ At(r, m + 1) = "e"
                       /\ \E es \in {0, 1} : /\ es = 1 => At(r, m + 2) \in Signs
                                             /\ n - (m + 1 + es) >= 1
                                             /\ AllDigitsIn(r, m + 2 + es, n)

---------------------------------------------------------------------------
(* Reference *)
Transform(mode, c) ==
  IF mode = "str" THEN (IF c = "us" THEN "sp" ELSE IF c \in UDigits THEN UVal[c] ELSE IF c = "ux" THEN "x" ELSE c)
  ELSE (IF c \in NonAscii THEN "x" ELSE c)
\* (CPython cuts a str after the first character it maps to '?'; a core that contains "x" is rejected either way)

RECURSIVE SkipL(_, _, _)
SkipL(s, p, sp) == IF At(s, p) \in sp THEN SkipL(s, p + 1, sp) ELSE p          \* first position not in sp (<= Len+1)
RECURSIVE TrimR(_, _, _, _)
TrimR(s, lo, hi, sp) == IF lo < hi - 1 /\ At(s, hi - 1) \in sp THEN TrimR(s, lo, hi - 1, sp) ELSE hi   \* exclusive end

\* _Py_string_to_number_with_underscores: CPython's scan with the previous character
RECURSIVE UndScanOK(_, _, _)
UndScanOK(s, p, prev) ==
  IF p > Len(s) THEN prev # "_"
  ELSE IF s[p] = "_" THEN IsDigit(prev) /\ UndScanOK(s, p + 1, "_")
  ELSE (prev = "_" => IsDigit(s[p])) /\ UndScanOK(s, p + 1, s[p])
UndDeclOK(s) == \A k \in 1..Len(s) : s[k] = "_" => (IsDigit(At(s, k - 1)) /\ IsDigit(At(s, k + 1)))

RefCore(mode, s) ==
  LET t  == [k \in 1..Len(s) |-> Transform(mode, s[k])]
      lo == SkipL(t, 1, {"sp"})
      hi == TrimR(t, lo, Len(t) + 1, {"sp"})
  IN SubSeq(t, lo, hi - 1)
Ref(mode, s) ==
  LET core == RefCore(mode, s) IN
  IF ~UndScanOK(core, 1, "end") THEN Reject ELSE FullParse(SelectSeq(core, NotUnd))

---------------------------------------------------------------------------
(* Implementation-shaped: Cython/Utility/Optimize.c.  Outcome: a denotation *)
(* (fast path), Reject (ValueError raised by the fast path) or "fallback"   *)
(* (= PyFloat_FromString, i.e. the reference).                              *)
Fallback == [acc |-> FALSE, kind |-> "fallback", neg |-> FALSE, ip |-> "", fp |-> "", eneg |-> FALSE, ep |-> ""]
Continue == [acc |-> FALSE, kind |-> "continue", neg |-> FALSE, ip |-> "", fp |-> "", eneg |-> FALSE, ep |-> ""]

\* __Pyx__PyBytes_AsDouble_inf_nan / __Pyx__PyUnicode_AsDouble_inf_nan on s[start .. start+length-1]
InfNan(s, start0, length0) ==
  LET sign == At(s, start0)
      sgn  == IF sign \in Signs THEN 1 ELSE 0
      st   == start0 + sgn
      len  == length0 - sgn
      neg  == sign = "-"
      c    == At(s, st)
  IN IF c = "n" THEN (IF len # 3 THEN Fallback
                       ELSE IF At(s, st + 1) = "a" /\ At(s, st + 2) = "n" THEN Special("nan", neg) ELSE Fallback)
     ELSE IF c = "i" THEN
       (IF len < 3 THEN Fallback
        ELSE LET m3 == At(s, st + 1) = "n" /\ At(s, st + 2) = "f" IN
             IF len = 3 /\ m3 THEN Special("inf", neg)
             ELSE IF len # 8 THEN Fallback
             ELSE IF m3 /\ Word(s, st + 3, <<"i", "n", "i", "t", "y">>) THEN Special("inf", neg) ELSE Fallback)
     ELSE IF c = "." \/ IsDigit(c) THEN Continue
     ELSE Fallback

\* PyOS_string_to_double on buf, compared with the expected end; -1.0 with ValueError when nothing converts
StrtodStep(buf, last) ==
  LET r == Scan(buf) IN
  IF r.end = 0 THEN Reject                  \* value == -1 && PyErr_Occurred(): the ValueError is passed on
  ELSE IF r.end = last THEN r.v             \* valid_parse
  ELSE Fallback

\* __Pyx__PyBytes_AsDouble_Copy: punctuation = _ . e ; buffer without underscores, or NULL
BytesPunct == {"_", ".", "e"}
BytesCopyOK(t) == /\ At(t, 1) \notin BytesPunct /\ At(t, Len(t)) \notin BytesPunct
                  /\ \A k \in 1..(Len(t) - 1) : ~(t[k] \in BytesPunct /\ t[k + 1] \in BytesPunct)

BytesAsDouble(s) ==       \* __Pyx__PyBytes_AsDouble(obj, start, length)
  LET start == SkipL(s, 1, {"sp"})
      last  == TrimR(s, start, Len(s) + 1, {"sp"})
      len   == last - start
  IN IF len <= 0 THEN Fallback
     ELSE LET v == InfNan(s, start, len) IN
          IF v.kind # "continue" THEN v
          ELSE LET t == SubSeq(s, start, last - 1) IN
               IF \A k \in 1..Len(t) : t[k] # "_"
                 \* the scanner runs on the original buffer: what follows `last` is white space or the terminator
                 THEN StrtodStep(SubSeq(s, start, Len(s)), len)
               ELSE IF ~BytesCopyOK(t) THEN Fallback
               ELSE LET buf == SelectSeq(t, NotUnd) IN StrtodStep(buf, Len(buf))

USpace == {"sp", "gs", "us"}         \* Py_UNICODE_ISSPACE
UPunct == {"_", "."}
UnicodeWithSpaces(s) ==   \* __Pyx_PyUnicode_AsDouble_WithSpaces
  LET start == SkipL(s, 1, USpace)
      last  == TrimR(s, start, Len(s) + 1, USpace)
      len   == last - start
  IN IF len <= 0 THEN Fallback
     ELSE LET v == InfNan(s, start, len) IN
          IF v.kind # "continue" THEN v
          ELSE \* __Pyx__PyUnicode_AsDouble_Copy(data, kind, number, start, start + length): the loop runs
               \* to `end` INCLUSIVE, so the character after the stripped region is copied as well
               LET t == [k \in 1..(len + 1) |-> At(s, start + k - 1)] IN
               IF \E k \in 1..Len(t) : t[k] \in NonAscii THEN Fallback
               ELSE IF At(t, 1) \in UPunct \/ At(t, Len(t)) \in UPunct
                       \/ \E k \in 1..(Len(t) - 1) : t[k] \in UPunct /\ t[k + 1] \in UPunct THEN Fallback
               ELSE LET buf == SelectSeq(t, NotUnd)
                        cbuf == [k \in 1..Len(buf) |-> IF buf[k] = "end" THEN "nul" ELSE buf[k]]
                        r == Scan(cbuf)
                    IN IF r.end = 0 THEN Reject ELSE IF r.end = Len(cbuf) THEN r.v ELSE Fallback

Fast(mode, s) ==
  IF mode = "bytes" THEN BytesAsDouble(s)
  ELSE IF \A k \in 1..Len(s) : s[k] \notin NonAscii THEN BytesAsDouble(s)     \* PyUnicode_IS_ASCII
  ELSE UnicodeWithSpaces(s)

Impl(mode, s, refv) == LET r == Fast(mode, s) IN IF r.kind = "fallback" THEN refv ELSE r

\* observable equality: the sign of a NaN is not observable
SameObs(a, b) == IF a.acc /\ b.acc /\ a.kind = "nan" /\ b.kind = "nan" THEN TRUE ELSE a = b

---------------------------------------------------------------------------
Records == IF UseRecords THEN ndJsonDeserialize(IOEnv.RECORDS) ELSE <<>>

\* enumeration families: every string over `alpha` up to `maxlen` symbols, in each of `modes`
CoreA  == {"0", "1", "_", ".", "e", "+", "-"}
CoreSA == {"0", "1", "_", ".", "e", "+", "-", "sp"}
WideA  == {"0", "1", "_", ".", "e", "+", "-", "sp", "gs", "i", "n", "f", "a", "nul", "x", "us", "u3", "ux"}
WordsA == {"i", "n", "f", "a", "gs", "us"}
WordsSA == {"i", "n", "f", "a", "-", "sp", "gs", "us"}
NonAA  == {"1", "_", ".", "e", "sp", "gs", "us", "u3"}
Both == {"str", "bytes"}
FamTable == [core5 |-> [alpha |-> CoreA, maxlen |-> 5, modes |-> {"str"}],
             core6 |-> [alpha |-> CoreA, maxlen |-> 6, modes |-> {"str"}],
             cores5 |-> [alpha |-> CoreSA, maxlen |-> 5, modes |-> {"str"}],
             wide3 |-> [alpha |-> WideA, maxlen |-> 3, modes |-> Both],
             wide4 |-> [alpha |-> WideA, maxlen |-> 4, modes |-> Both],
             words5 |-> [alpha |-> WordsA, maxlen |-> 5, modes |-> {"str"}],
             words6 |-> [alpha |-> WordsA, maxlen |-> 6, modes |-> {"str"}],
             wordss5 |-> [alpha |-> WordsSA, maxlen |-> 5, modes |-> Both],
             nona4 |-> [alpha |-> NonAA, maxlen |-> 4, modes |-> Both],
             nona5 |-> [alpha |-> NonAA, maxlen |-> 5, modes |-> Both]]

\* everything that is decided about one string, computed once per state
Analyse(m, s) ==
  LET core  == RefCore(m, s)
      undok == UndScanOK(core, 1, "end")
      clean == SelectSeq(core, NotUnd)
      full  == FullParse(clean)
      r     == IF undok THEN full ELSE Reject
  IN [ref  |-> r,
      impl |-> Impl(m, s, r),
      und  |-> undok <=> UndDeclOK(core),
      \* (the declarative grammar costs n^3: short strings only; the long records are decided by the scanner)
      gram |-> (CheckDecl /\ Len(s) <= 12) => (full.acc <=> (DeclMatch(clean) /\ \A k \in 1..Len(clean) : clean[k] # "nul")),
      pad  |-> (CheckDecl /\ Len(s) <= 12) => r = Ref(m, <<"sp">> \o s \o <<"sp">>)]

VARIABLES fam, mode, str, an, rid
vars == <<fam, mode, str, an, rid>>
ref == an.ref
impl == an.impl

InitEnum == \E f \in Families : /\ fam = f /\ rid = 0 /\ mode \in FamTable[f].modes /\ str = <<>>
                                /\ an = Analyse(mode, str)
InitRec == \E k \in 1..Len(Records) :
             /\ fam = "rec" /\ rid = Records[k].id /\ mode = Records[k].mode /\ str = Records[k].s
             /\ an = Analyse(mode, str)
Init == InitEnum \/ InitRec

More == fam # "rec" /\ Len(str) < FamTable[fam].maxlen
Extend(c) == /\ c \in FamTable[fam].alpha
             /\ str' = Append(str, c)
             /\ an' = Analyse(mode, str')
             /\ UNCHANGED <<fam, mode, rid>>

AppendDigit      == More /\ \E c \in Digits : Extend(c)
AppendUnderscore == More /\ Extend("_")
AppendDot        == More /\ Extend(".")
AppendExp        == More /\ Extend("e")
AppendSign       == More /\ \E c \in Signs : Extend(c)
AppendSpace      == More /\ \E c \in {"sp", "gs"} : Extend(c)
AppendLetter     == More /\ \E c \in Letters : Extend(c)
AppendNulOther   == More /\ \E c \in {"nul", "x"} : Extend(c)
AppendNonAscii   == More /\ \E c \in NonAscii : Extend(c)

Next == \/ AppendDigit \/ AppendUnderscore \/ AppendDot \/ AppendExp \/ AppendSign
        \/ AppendSpace \/ AppendLetter \/ AppendNulOther \/ AppendNonAscii
Spec == Init /\ [][Next]_vars

---------------------------------------------------------------------------
TypeOK == /\ mode \in {"str", "bytes"} /\ \A k \in 1..Len(str) : str[k] \in AllSymbols
          /\ ref.kind \in {"-", "fin", "inf", "nan"} /\ impl.kind \in {"-", "fin", "inf", "nan"}

\* the two formulations of the reference agree on the stripped core of every string
GrammarsAgree == an.gram
UnderscoreRulesAgree == an.und
\* what is accepted is a number with at least one mantissa digit, or a special value; it contains a
\* non-space character; leading and trailing white space never changes the verdict
RefShape == /\ (ref.acc /\ ref.kind = "fin") => (ref.ip \o ref.fp # "" /\ (ref.eneg => ref.ep # ""))
            /\ ref.acc => (\E k \in 1..Len(str) : Transform(mode, str[k]) # "sp")
            /\ an.pad

\* the fast path never changes the result ...
ImplAgrees == SameObs(impl, ref)
\* ... the strings where the transcription does are published (and replayed on real code)
Hazard == ~SameObs(impl, ref)
PublishHazards == Hazard => PrintT("@@" \o ToJson([hazard |-> TRUE, id |-> rid, fam |-> fam, mode |-> mode, s |-> str, ref |-> ref, impl |-> impl]))
\* accepted strings with their denotation (everything else of an enumerated family is rejected)
PublishAccepted == (ref.acc /\ fam # "rec") => PrintT("@@" \o ToJson([acc |-> TRUE, fam |-> fam, mode |-> mode, s |-> str, ref |-> ref]))
PublishRecords == fam = "rec" => PrintT("@@" \o ToJson([rec |-> TRUE, id |-> rid, ref |-> ref]))
=============================================================================
