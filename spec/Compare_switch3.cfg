SPECIFICATION Spec
CONSTANTS
  Part = "switch"
  MaxArms = 3
INVARIANT SwitchOK
INVARIANT Publish
CHECK_DEADLOCK FALSE
