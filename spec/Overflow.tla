------------------------------ MODULE Overflow ------------------------------
(* C04: with overflowcheck on, C integer + - * << unary- // either yield the *)
(* exact mathematical result or raise OverflowError, and always raise when   *)
(* the result does not fit the C result type.  Spurious OverflowError is     *)
(* tolerated (counted).                                                      *)
(*                                                                           *)
(* Types are SCALED to 8 bits (TLC integers are 32-bit): [s, wider, long]    *)
(*   s      signed?                                                          *)
(*   wider  a wider C type exists for the helper to compute in               *)
(*          (image of int: sizeof(int) < sizeof(long))                       *)
(*   long   the type is long-sized (the MIN // -1 guard of DivNode exists)   *)
(* Reference  : Exact(op, a, b) on unbounded integers, Fits.                 *)
(* Impl-shaped: Utility/Overflow.c in both variants - "builtin"              *)
(*   (__builtin_*_overflow, what gcc/clang select) and "manual" (the         *)
(*   fallback: widening, unsigned-arithmetic sign trick, mul_const division  *)
(*   tests) - plus LeftShift, and the call sites that are NOT checked at all *)
(*   (unary minus, //).                                                      *)
(* One state per (type, op, variant, a); invariants quantify over all b.     *)
EXTENDS Integers, Sequences, TLC, Json, FiniteSets

CONSTANTS Dump, W     \* W: scaled width of every type (6 in the quick tier, 8 in the thorough tier)

cZ == 100000  \* ZeroDivisionError
cU == 100001  \* no demand by the property (outside the operator's domain)
cO == 100002  \* OverflowError
cUB == 100003 \* C undefined behaviour reached / process may die

Types == {[s |-> TRUE, wider |-> TRUE, long |-> FALSE],      \* image of int
          [s |-> TRUE, wider |-> FALSE, long |-> TRUE],      \* image of long / long long / Py_ssize_t
          [s |-> FALSE, wider |-> TRUE, long |-> FALSE],     \* image of unsigned int
          [s |-> FALSE, wider |-> FALSE, long |-> TRUE]}     \* image of unsigned long / size_t
Ops == {"add", "sub", "mul", "mulc", "lshift", "neg", "fdiv"}
Variants == {"builtin", "manual"}

Pow2(n) == 2 ^ n
MinOf(t) == IF t.s THEN -Pow2(W - 1) ELSE 0
MaxOf(t) == IF t.s THEN Pow2(W - 1) - 1 ELSE Pow2(W) - 1
Range(t) == MinOf(t)..MaxOf(t)
Fits(t, v) == v >= MinOf(t) /\ v <= MaxOf(t)
Wrap(t, v) == LET m == Pow2(W) r == ((v % m) + m) % m IN IF t.s /\ r >= Pow2(W - 1) THEN r - m ELSE r
Abs(x) == IF x < 0 THEN -x ELSE x
Sgn(x) == IF x < 0 THEN -1 ELSE 1
TruncDiv(a, b) == Sgn(a) * Sgn(b) * (Abs(a) \div Abs(b))
FloorDiv(a, b) == LET q == TruncDiv(a, b) IN IF (a - q * b) # 0 /\ ((a < 0) # (b < 0)) THEN q - 1 ELSE q

---------------------------------------------------------------------------
(* reference *)
Exact(op, a, b) ==
  CASE op = "add" -> a + b [] op = "sub" -> a - b [] op \in {"mul", "mulc"} -> a * b
    [] op = "lshift" -> a * Pow2(b) [] op = "neg" -> -a [] op = "fdiv" -> FloorDiv(a, b)

InDomain(op, a, b) == CASE op = "lshift" -> b >= 0 /\ b <= 20   \* negative counts: Python ValueError, not this property
                         [] op = "fdiv" -> TRUE
                         [] OTHER -> TRUE

Demand(t, op, a, b) ==
  IF ~InDomain(op, a, b) THEN cU
  ELSE IF op = "fdiv" /\ b = 0 THEN cZ
  ELSE LET v == Exact(op, a, b) IN IF Fits(t, v) THEN v ELSE cO

---------------------------------------------------------------------------
(* implementation-shaped helpers: result <<value, overflow flag>> or cUB *)
Neg(x) == x < 0
MulConst(t, a, b) ==   \* __Pyx_mul_const_<T>_checking_overflow
  IF t.s
  THEN LET o == IF b > 1 THEN (a > TruncDiv(MaxOf(t), b)) \/ (a < TruncDiv(MinOf(t), b))
                ELSE IF b = -1 THEN a = MinOf(t)
                ELSE IF b < -1 THEN (a > TruncDiv(MinOf(t), b)) \/ (a < TruncDiv(MaxOf(t), b))
                ELSE FALSE
       IN <<Wrap(t, a * b), o>>
  ELSE <<Wrap(t, a * b), b # 0 /\ a > (MaxOf(t) \div b)>>

Manual(t, op, a, b) ==
  CASE op = "add" ->
         IF t.s THEN (IF t.wider THEN <<Wrap(t, a + b), (a + b) # Wrap(t, a + b)>>
                      ELSE LET r == Wrap(t, a + b) IN <<r, (Neg(a) # Neg(r)) /\ (Neg(b) # Neg(r))>>)
         ELSE LET r == Wrap(t, a + b) IN <<r, r < a>>
    [] op = "sub" ->
         IF t.s THEN LET r == Wrap(t, a - b) IN <<r, (Neg(a) # Neg(b)) /\ (Neg(a) # Neg(r))>>
         ELSE LET r == Wrap(t, a - b) IN <<r, r > a>>
    [] op = "mul" -> IF t.wider THEN <<Wrap(t, a * b), (a * b) # Wrap(t, a * b)>> ELSE MulConst(t, a, b)
    [] op = "mulc" -> MulConst(t, a, b)

Builtin(t, op, a, b) == LET v == Exact(op, a, b) IN <<Wrap(t, v), ~Fits(t, v)>>

LShift(t, a, b) ==    \* LeftShift helper (the same in both variants)
  LET chk == (t.s /\ (a < 0 \/ b < 0)) \/ b >= W \/ a > (MaxOf(t) \div Pow2(b))
  IN IF chk THEN <<0, TRUE>> ELSE <<a * Pow2(b), FALSE>>

(* outcome of the generated code: value, cO, cZ or cUB *)
Impl(t, op, variant, a, b) ==
  CASE op \in {"add", "sub", "mul", "mulc"} ->
         LET r == IF variant = "builtin" THEN Builtin(t, op, a, b) ELSE Manual(t, op, a, b)
         IN IF r[2] THEN cO ELSE r[1]
    [] op = "lshift" -> LET r == LShift(t, a, b) IN IF r[2] THEN cO ELSE r[1]
    [] op = "neg" ->     \* UnaryMinusNode: plain C negation, no check
         IF t.s /\ a = MinOf(t) THEN cUB ELSE Wrap(t, -a)
    [] op = "fdiv" ->    \* DivNode: zero test, MIN // -1 guard only for long-sized types (see CDivMod.tla)
         IF b = 0 THEN cZ
         ELSE IF t.s /\ a = MinOf(t) /\ b = -1 THEN cO
         ELSE IF t.s THEN Wrap(t, FloorDiv(a, b)) ELSE a \div b

---------------------------------------------------------------------------
VARIABLES ty, op, variant, a
vars == <<ty, op, variant, a>>
Init == ty \in Types /\ op \in Ops /\ variant \in Variants /\ a \in Range(ty)
Next == UNCHANGED vars
Spec == Init /\ [][Next]_vars

Bs == IF op = "neg" THEN {0} ELSE Range(ty)

CheckedOps == {"add", "sub", "mul", "mulc", "lshift"}    \* the operators NumBinopNode.overflow_op_names covers

(* never a wrong value *)
NeverWrong == op \in CheckedOps => \A b \in Bs : LET d == Demand(ty, op, a, b) i == Impl(ty, op, variant, a, b) IN
                 (d # cU /\ i # cUB) => (i = d \/ i = cO)
(* OverflowError is raised whenever the exact result does not fit *)
AlwaysRaises == op \in CheckedOps => \A b \in Bs : Demand(ty, op, a, b) = cO => Impl(ty, op, variant, a, b) \in {cO, cUB}
(* the two helper variants may differ only in spurious overflows *)
VariantsAgree == \A b \in Bs : LET x == Impl(ty, op, "builtin", a, b) y == Impl(ty, op, "manual", a, b) IN
                    x = y \/ x = cO \/ y = cO

(* where the transcribed code leaves the property: UB reached, or a value that is not the exact one *)
Hazards == {b \in Bs : LET d == Demand(ty, op, a, b) i == Impl(ty, op, variant, a, b) IN d # cU /\ i # d /\ i # cO}
Spurious == {b \in Bs : Demand(ty, op, a, b) \notin {cU, cO} /\ Impl(ty, op, variant, a, b) = cO}

Publish == Dump => PrintT("@@" \o ToJson([s |-> ty.s, wider |-> ty.wider, long |-> ty.long, op |-> op, variant |-> variant, a |-> a,
                                          row |-> [b \in Bs |-> Demand(ty, op, a, b)],
                                          hazards |-> Hazards, spurious |-> Cardinality(Spurious)]))
=============================================================================
