SPECIFICATION Spec
CONSTANTS
  MaxS = 1
  EDepth = 0
  SDepth = 0
  Shapes = {""}
  Mod = 2
  NCalls = 36
  NProg = 1
  Sample = FALSE
  Wide = FALSE
  Dump = TRUE
INVARIANT NoDangling
INVARIANT ModuleOK
INVARIANT DefiniteAssignment
INVARIANT ObsOK
INVARIANT GenOK
INVARIANT Publish
CHECK_DEADLOCK FALSE
