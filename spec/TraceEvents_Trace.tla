-------------------------- MODULE TraceEvents_Trace --------------------------
(* C45, binding B2: event streams RECORDED from compiled modules (built with *)
(* profile=True / linetrace=True and run under sys.setprofile / settrace)    *)
(* are walked through the nesting automaton of TraceNest.tla, the same one   *)
(* the model's own event sequences satisfy (TraceEvents.tla).                *)
(* Records (ndjson, IOEnv.RECORDS):                                          *)
(*    [id, cal (callees of function ids 1..9), sz (body sizes 1..9),         *)
(*     ev <<<<k, f, l>>, ..>>  k: "c" start | "r" end | "l" line (l relative *)
(*     to the def line of f; f = 0: an event of an unknown function)]        *)
(* One TLC state per event; a record is left at its first event that does    *)
(* not meet its precondition, or at its end (the stack must be empty and the *)
(* driver's single call of the root must have happened).  The verdicts are   *)
(* published in the final state.                                             *)
EXTENDS Integers, Sequences, TLC, Json, IOUtils, TraceNest

Records == ndJsonDeserialize(IOEnv.RECORDS)
NR == Len(Records)

VARIABLES ri,      \* current record (NR + 1: finished)
          pos,     \* events of the current record consumed
          stk,     \* stack of function ids
          roots,   \* number of start events seen on the empty stack
          verdicts \* <<[id, at, why]>> of the rejected records
vars == <<ri, pos, stk, roots, verdicts>>

Rec == Records[ri]
Cur == Rec.ev[pos + 1]

Init == ri = 1 /\ pos = 0 /\ stk = <<>> /\ roots = 0 /\ verdicts = <<>>

Reject(why) == /\ verdicts' = Append(verdicts, [id |-> Rec.id, at |-> pos + 1, why |-> why])
               /\ ri' = ri + 1 /\ pos' = 0 /\ stk' = <<>> /\ roots' = 0
Go(stk2, roots2) == /\ pos' = pos + 1 /\ stk' = stk2 /\ roots' = roots2 /\ UNCHANGED <<ri, verdicts>>

Active(k) == ri <= NR /\ pos < Len(Rec.ev) /\ Cur[1] = k
KnownFn == Cur[2] \in 1..9

TrCall   == /\ Active("c")
            /\ IF ~KnownFn THEN Reject("unknown-function")
               ELSE IF ~CallOK(stk, Cur[2], Rec.cal) THEN Reject("start-event-outside-the-call-graph")
               ELSE IF stk = <<>> /\ roots >= 1 THEN Reject("second-start-of-the-root")
               ELSE Go(Append(stk, Cur[2]), IF stk = <<>> THEN roots + 1 ELSE roots)
TrReturn == /\ Active("r")
            /\ IF ~KnownFn THEN Reject("unknown-function")
               ELSE IF ~RetOK(stk, Cur[2]) THEN Reject("end-event-does-not-match-the-open-activation")
               ELSE Go(Pop(stk), roots)
TrLine   == /\ Active("l")
            /\ IF ~KnownFn THEN Reject("unknown-function")
               ELSE IF stk = <<>> \/ Top(stk) # Cur[2] THEN Reject("line-event-of-a-function-that-is-not-on-top")
               ELSE IF ~LineOK(stk, Cur[2], Cur[3], Rec.sz) THEN Reject("line-outside-the-function")
               ELSE Go(stk, roots)
TrEnd    == /\ ri <= NR /\ pos = Len(Rec.ev)
            /\ IF stk # <<>> THEN Reject("activations-left-open")
               ELSE IF roots # 1 THEN Reject("root-not-started")
               ELSE /\ ri' = ri + 1 /\ pos' = 0 /\ stk' = <<>> /\ roots' = 0 /\ UNCHANGED verdicts

Next == TrCall \/ TrReturn \/ TrLine \/ TrEnd
Spec == Init /\ [][Next]_vars

TypeOK == ri \in 1..(NR + 1) /\ Len(verdicts) < ri /\ roots \in 0..1
Publish == (ri = NR + 1) => PrintT("@@" \o ToJson([n |-> NR, rejected |-> verdicts]))
=============================================================================
