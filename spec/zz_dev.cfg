SPECIFICATION Spec
CONSTANTS
  Level = 1
  Sites = {"fstr", "pct", "call", "join"}
  Dump = TRUE
INVARIANT WellFormed
INVARIANT DigitLaw
INVARIANT BufOK
INVARIANT Publish
CHECK_DEADLOCK FALSE
