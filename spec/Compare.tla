------------------------------ MODULE Compare ------------------------------
(* C19: comparisons and membership tests.                                    *)
(*                                                                          *)
(* Five families of cases; every case is a TLC behaviour                     *)
(* (Init picks the case, named actions evaluate it, the final state carries  *)
(* the expected observation and is published for replay on compiled code).   *)
(*                                                                          *)
(*  "chain"  e1 op1 e2 op2 ... : operand leaves are evaluated one at a time  *)
(*           (log), a link that is falsy or raises ends the chain; the       *)
(*           result is the VALUE of the last link evaluated (rich            *)
(*           comparisons may return non-bool objects: value W below).        *)
(*           Shapes (operator sequence + per-operand value domain; one shape *)
(*           = one compiled function) come from the harness (IOEnv.SHAPES);  *)
(*           TLC explores shape x value tuples.  Part = "shapes" runs chain, *)
(*           pair, member and strin cases in one model, Part = "switch" the  *)
(*           if/elif chains (enumerated by the spec itself).                 *)
(*  "member" x in / not in  (m1, ..) | [..] | {..} | {m: _, ..}: reference = *)
(*           hash check for set/dict, then identity-or-equality scan.        *)
(*           Implementation-shaped: FlattenInListTransform (x is m1 or       *)
(*           x == m1 or .. / the dual for not in -- no hashing; left operand *)
(*           first).                                                        *)
(*  "strin"  x in / not in a str or bytes literal (substring / byte value).  *)
(*           Implementation-shaped for a C integer x: BytesContains on       *)
(*           (char) x, or a switch on the byte values (character labels for  *)
(*           a signed char subject).                                        *)
(*  "pair"   a op b for the six rich comparisons over a wide value table    *)
(*           (compact and multi-digit ints, bools, floats incl. -0.0, inf,   *)
(*           nan, 2.0**53 next to 2**53+1, str/bytes/bytearray of different  *)
(*           lengths, equal-but-distinct objects): the reference compares    *)
(*           mathematical values / code point sequences (the fast paths of   *)
(*           Utility/Optimize.c PyObjectCompare must not be observable).     *)
(*  "switch" if/elif chains over one subject: reference = first matching arm;*)
(*           implementation-shaped = SwitchTransform (conditions merged into *)
(*           a C switch unless has_duplicate_values finds equal              *)
(*           constant_results) + C's rule that case labels are distinct.     *)
(*  "bool"   boolean combinations (and / or / not, depth <= 2, 2-4 leaves)   *)
(*           of == / != / in / not in tests of ONE C-integer subject against *)
(*           literals, as an expression (return / conditional expression /   *)
(*           while test) or as the conditions of an if/elif chain.           *)
(*           Reference = Python's truth table (sets of subject values over   *)
(*           the whole 8-bit image of the subject type); implementation-     *)
(*           shaped = SwitchTransform.extract_conditions /                   *)
(*           extract_common_conditions / has_duplicate_values / visit_*:     *)
(*           which node becomes a switch with which labels.  SwitchSound:    *)
(*           every switch has the truth table of the expression it replaces. *)
(*                                                                          *)
(* Abstract values (tokens):  m1 i0 i1 i2 (ints), f0 f1 (floats), T (True),  *)
(*   sa sb ("a","b"), ba (b"a"), N (None), nan, U (an unhashable list []),   *)
(*   W (an object whose rich comparisons return non-bool values: < -> 0,     *)
(*   <= -> 2, > raises ValueError, >= -> NotImplemented, == -> "", != -> "x",*)
(*   __contains__ -> 2).  Result tokens: True False r0 r2 re rx E:<Type>.    *)
EXTENDS Integers, Sequences, FiniteSets, TLC, Json, IOUtils

CONSTANTS Part,      \* "shapes" (chain, pair, member, strin cases from the harness' shape file) | "switch" | "bool"
          MaxArms,   \* switch: chains of 1..MaxArms arms
          BoolSize,  \* bool: "q" | "t" (sizes of the leaf pools)
          AndMerge   \* bool: "fixed" = extract_conditions as in /repo; "old" = before e6ec21370 (TLC must refute SwitchSound)

Range(s) == {s[i] : i \in DOMAIN s}
Shapes == IF Part = "shapes" THEN ndJsonDeserialize(IOEnv.SHAPES) ELSE <<>>

---------------------------------------------------------------------------
(* values and the comparison operators of the language reference *)
NumVal == [m1 |-> -1, i0 |-> 0, i1 |-> 1, i2 |-> 2, f0 |-> 0, f1 |-> 1, T |-> 1]
IsNum(v) == v \in DOMAIN NumVal
IsInt(v) == v \in {"m1", "i0", "i1", "i2", "T"}
StrVal == [sa |-> 1, sb |-> 2]
IsStr(v) == v \in DOMAIN StrVal
Tokens == {"m1", "i0", "i1", "i2", "f0", "f1", "T", "sa", "sb", "ba", "N", "W", "nan", "U"}
Ops == {"<", "<=", "==", "!=", ">", ">=", "is", "isnot", "in", "notin"}

B(b) == IF b THEN "True" ELSE "False"
Excs == {"E:TypeError", "E:ValueError"}
Results == {"True", "False", "r0", "r2", "re", "rx"} \cup Excs
Truthy(r) == r \in {"True", "r2", "rx"}
Not(r) == IF r \in Excs THEN r ELSE B(~Truthy(r))

Swap(op) == CASE op = "<" -> ">" [] op = ">" -> "<" [] op = "<=" -> ">=" [] op = ">=" -> "<=" [] OTHER -> op
\* W's own methods; NI = NotImplemented
WTab(op) == CASE op = "<" -> "r0" [] op = "<=" -> "r2" [] op = ">" -> "E:ValueError"
              [] op = ">=" -> "NI" [] op = "==" -> "re" [] op = "!=" -> "rx"
\* binary rich comparison protocol when W takes part: left operand's method, then the
\* reflected method of the right operand (builtin types answer NotImplemented for W)
RichW(a, op, b) ==
  IF a = "W" THEN LET r == WTab(op) IN
        IF r # "NI" THEN r ELSE IF b = "W" THEN WTab(Swap(op)) ELSE "E:TypeError"
  ELSE LET r == WTab(Swap(op)) IN IF r # "NI" THEN r ELSE "E:TypeError"

IntCmp(x, op, y) == CASE op = "<" -> x < y [] op = "<=" -> x <= y [] op = ">" -> x > y
                      [] op = ">=" -> x >= y [] op = "==" -> x = y [] op = "!=" -> x # y
NumLike(v) == IsNum(v) \/ v = "nan"

Rich(a, op, b) ==   \* op in < <= == != > >=
  IF a = "W" \/ b = "W" THEN RichW(a, op, b)
  ELSE IF a = "nan" \/ b = "nan" THEN
         (IF op = "==" THEN "False" ELSE IF op = "!=" THEN "True"
          ELSE IF NumLike(a) /\ NumLike(b) THEN "False" ELSE "E:TypeError")
  ELSE IF IsNum(a) /\ IsNum(b) THEN B(IntCmp(NumVal[a], op, NumVal[b]))
  ELSE IF IsStr(a) /\ IsStr(b) THEN B(IntCmp(StrVal[a], op, StrVal[b]))
  ELSE IF op = "==" THEN B(a = b)
  ELSE IF op = "!=" THEN B(a # b)
  ELSE IF a = b /\ a \in {"ba", "U"} THEN B(op \in {"<=", ">="})
  ELSE "E:TypeError"

Contains(a, b) ==   \* a in b, b a run-time object
  IF b = "W" THEN "True"
  ELSE IF b = "U" THEN "False"
  ELSE IF IsStr(b) THEN (IF IsStr(a) THEN B(a = b) ELSE "E:TypeError")
  ELSE IF b = "ba" THEN (IF a = "ba" THEN "True"
                         ELSE IF IsInt(a) THEN (IF NumVal[a] < 0 THEN "E:ValueError" ELSE "False")
                         ELSE "E:TypeError")
  ELSE "E:TypeError"

Cmp(a, op, b) == CASE op = "is" -> B(a = b) [] op = "isnot" -> B(a # b)
                   [] op = "in" -> Contains(a, b) [] op = "notin" -> Not(Contains(a, b))
                   [] OTHER -> Rich(a, op, b)

RECURSIVE Prod(_)
Prod(ds) == IF ds = <<>> THEN {<<>>} ELSE {<<h>> \o t : h \in Range(Head(ds)), t \in Prod(Tail(ds))}

---------------------------------------------------------------------------
(* chain: declarative reference *)
Link(ops, vals, j) == Cmp(vals[j], ops[j], vals[j + 1])
StopAt(ops, vals) == LET S == {j \in DOMAIN ops : ~Truthy(Link(ops, vals, j))}
                     IN IF S = {} THEN Len(ops) ELSE CHOOSE j \in S : \A i \in S : j <= i
ChainRef(ops, vals) == [out |-> Link(ops, vals, StopAt(ops, vals)), n |-> StopAt(ops, vals) + 1]

(* member: declarative reference and FlattenInListTransform.  Kinds tuple/list/set/dict are displays  *)
(* written in the expression; vtuple/vlist/vset/vfrozenset/vdict are run-time objects held in a typed *)
(* variable (never flattened: PySequence_Contains / PySet_Contains / PyDict_Contains)                *)
HashKinds == {"set", "dict", "vset", "vfrozenset", "vdict"}
MemberRef(kind, neg, x, ms) ==
  IF kind \in HashKinds /\ x = "U" THEN "E:TypeError"
  ELSE B((\E j \in DOMAIN ms : ms[j] = x \/ Truthy(Rich(ms[j], "==", x))) # neg)
FlattenApplies(kind, ms) == kind \in {"tuple", "list", "set"} /\ Len(ms) >= 1
\* the generated tests are marked is_containment_test: `(x is m) ? 1 : x == m` / `(x is m) ? 0 : x != m`
Flatten(neg, x, ms) == IF neg THEN B(\A j \in DOMAIN ms : ms[j] # x /\ Truthy(Rich(x, "!=", ms[j])))
                              ELSE B(\E j \in DOMAIN ms : ms[j] = x \/ Truthy(Rich(x, "==", ms[j])))
MemberImpl(kind, neg, x, ms) == IF FlattenApplies(kind, ms) THEN Flatten(neg, x, ms) ELSE MemberRef(kind, neg, x, ms)
\* FlattenInListTransform: the temporary of the left operand is the outermost one, those of the non-simple
\* members nest inside it from left to right
FlattenLog(kind, ms, leaves) == [i \in 1..(Len(ms) + 1) |-> i - 1]
\* case classes: the element is found by identity only / the hash check decides
IdentityOnly(x, ms) == /\ \E j \in DOMAIN ms : ms[j] = x
                       /\ ~\E j \in DOMAIN ms : Truthy(Rich(ms[j], "==", x))
MemberWhy(kind, x, ms) == IF kind \in HashKinds /\ x = "U" THEN "unhashable"
                          ELSE IF IdentityOnly(x, ms) THEN "identity" ELSE "none"

(* strin: x a record [k, cs, v, t]: k = "str"|"bytes" (cs: code points), "int" (v), "tok" (t: a token) *)
IsSub(s, t) == \E i \in 0..(Len(t) - Len(s)) : \A j \in DOMAIN s : t[i + j] = s[j]
StrinRef(kind, neg, x, cs) ==
  IF kind = "str" THEN (IF x.k = "str" THEN B(IsSub(x.cs, cs) # neg) ELSE "E:TypeError")
  ELSE IF x.k = "bytes" THEN B(IsSub(x.cs, cs) # neg)
  ELSE IF x.k = "int" THEN (IF x.v \in 0..255 THEN B((x.v \in Range(cs)) # neg) ELSE "E:ValueError")
  ELSE "E:TypeError"
\* a C integer x of type sty ("int": int, long; "uchar"; "schar": signed char): with two or more distinct bytes in
\* the literal SwitchTransform builds a switch -- on the byte values 0..255, unless the subject is a (signed) char
\* (value_type.rank > 0 or not value_type.signed), which gets `char` constants (case '\xe9': is -23); otherwise
\* the operand is coerced to `char` and passed to __Pyx_BytesContains
SChar(b) == IF b >= 128 THEN b - 256 ELSE b
IntLabels(sty) == sty # "schar"
BytesImplCInt(sty, neg, v, cs) ==
  IF Cardinality(Range(cs)) >= 2 THEN B((\E j \in DOMAIN cs : (IF IntLabels(sty) THEN cs[j] ELSE SChar(cs[j])) = v) # neg)
  ELSE B((\E j \in DOMAIN cs : (cs[j] - v) % 256 = 0) # neg)

---------------------------------------------------------------------------
(* pair: wide value table.  Numbers carry an order-preserving integer key of their mathematical  *)
(* value (TLC integers are 32-bit: 2**64 etc. cannot be written down), strings their code points *)
PNum == ("fNI" :> -100) @@ ("nB" :> -50) @@ ("fm" :> -3) @@ ("m1" :> -2) @@ ("i0" :> 0) @@ ("f0" :> 0) @@ ("fz" :> 0)
        @@ ("Fa" :> 0) @@ ("i1" :> 2) @@ ("f1" :> 2) @@ ("T" :> 2) @@ ("fh" :> 3) @@ ("i2" :> 4) @@ ("iC" :> 10) @@ ("iD" :> 11)
        @@ ("iE" :> 12) @@ ("fE" :> 12) @@ ("iF" :> 13) @@ ("iG" :> 14) @@ ("iH" :> 15) @@ ("fH" :> 15) @@ ("fX" :> 16) @@ ("fI" :> 100)
PStr == ("s_" :> <<>>) @@ ("sa" :> <<97>>) @@ ("sb" :> <<98>>) @@ ("sab" :> <<97, 98>>) @@ ("sab2" :> <<97, 98>>)
        @@ ("saa" :> <<97, 97>>) @@ ("sae" :> <<97, 233>>) @@ ("seu" :> <<8364>>)
\* bytes (b..) and bytearray (B..) objects: unsigned byte values
PByt == ("b_" :> <<>>) @@ ("ba" :> <<97>>) @@ ("bb" :> <<98>>) @@ ("bab" :> <<97, 98>>) @@ ("bab2" :> <<97, 98>>)
        @@ ("baa" :> <<97, 97>>) @@ ("bh" :> <<233>>) @@ ("bah" :> <<97, 233>>)
        @@ ("B_" :> <<>>) @@ ("Ba" :> <<97>>) @@ ("Bab" :> <<97, 98>>)
PairTokens == DOMAIN PNum \cup DOMAIN PStr \cup DOMAIN PByt \cup {"nan", "N", "W"}
Sign(n) == IF n < 0 THEN -1 ELSE IF n > 0 THEN 1 ELSE 0
LexCmp(s, t) == LET n == IF Len(s) < Len(t) THEN Len(s) ELSE Len(t)
                    D == {i \in 1..n : s[i] # t[i]}
                IN IF D = {} THEN Sign(Len(s) - Len(t))
                   ELSE LET i == CHOOSE i \in D : \A j \in D : i <= j IN Sign(s[i] - t[i])
PNumLike(v) == v \in DOMAIN PNum \/ v = "nan"
Rich2(a, op, b) ==
  IF a = "W" \/ b = "W" THEN RichW(a, op, b)
  ELSE IF PNumLike(a) /\ PNumLike(b) THEN
         (IF a = "nan" \/ b = "nan" THEN B(op = "!=") ELSE B(IntCmp(PNum[a], op, PNum[b])))
  ELSE IF a \in DOMAIN PStr /\ b \in DOMAIN PStr THEN B(IntCmp(LexCmp(PStr[a], PStr[b]), op, 0))
  ELSE IF a \in DOMAIN PByt /\ b \in DOMAIN PByt THEN B(IntCmp(LexCmp(PByt[a], PByt[b]), op, 0))
  ELSE IF op = "==" THEN B(a = b)
  ELSE IF op = "!=" THEN B(a # b)
  ELSE "E:TypeError"

---------------------------------------------------------------------------
(* switch: chains of arms; an arm is [f |-> "eq", ls] (x == l1 or x == l2 / x in (l1, l2))      *)
(* or [f |-> "in", ls] (x in b"..." for family "bytes", x in "..." for family "ustr")            *)
Pool == {97, 98, 99}
Subjects == 96..100
EqArms == {[f |-> "eq", ls |-> s] : s \in UNION {[1..n -> Pool] : n \in 1..2}}
InArms == {[f |-> "in", ls |-> s] : s \in {<<97>>, <<97, 98>>, <<98, 97>>, <<97, 97>>}}
Arms == EqArms \cup InArms
Chains == UNION {[1..n -> Arms] : n \in 1..MaxArms}

Matches(arm, x) == x \in Range(arm.ls)
Sequential(chain, x) == LET S == {j \in DOMAIN chain : Matches(chain[j], x)}
                        IN IF S = {} THEN 0 ELSE CHOOSE j \in S : \A i \in S : j <= i

RECURSIVE Sorted(_)
Sorted(S) == IF S = {} THEN <<>> ELSE LET m == CHOOSE v \in S : \A w \in S : v <= w IN <<m>> \o Sorted(S \ {m})
\* extract_conditions / extract_in_string_conditions: the condition nodes of one arm with the key that
\* has_duplicate_values compares (constant_result): an int for IntNode / UnicodeNode characters and for the nodes
\* made from a bytes literal (IntNodes; CharNodes with constant_result = ord(character) for a char subject)
CondsOf(fam, arm) == IF arm.f = "eq" THEN [j \in DOMAIN arm.ls |-> <<"i", arm.ls[j]>>]
                     ELSE LET s == Sorted(Range(arm.ls)) IN [j \in DOMAIN s |-> <<"i", s[j]>>]
\* the chains that used to become switches with duplicate labels: an `==` arm and an `in b".."` arm share a value
Mixed(fam, chain) == fam = "bytes" /\ \E i, j \in DOMAIN chain : chain[i].f = "eq" /\ chain[j].f = "in" /\ Range(chain[i].ls) \cap Range(chain[j].ls) # {}
RECURSIVE AllConds(_, _)
AllConds(fam, chain) == IF chain = <<>> THEN <<>> ELSE CondsOf(fam, Head(chain)) \o AllConds(fam, Tail(chain))
HasDup(s) == \E i, j \in DOMAIN s : i < j /\ s[i] = s[j]
IsSwitch(fam, chain) == LET cs == AllConds(fam, chain) IN Len(cs) >= 2 /\ ~HasDup(cs)
\* when the statement is left alone, a single condition with two or more distinct keys still becomes a switch
\* (visit_BoolBinopNode / visit_PrimaryCmpNode -> build_simple_switch_statement)
AnySwitch(fam, chain) == IsSwitch(fam, chain) \/ \E j \in DOMAIN chain : LET cs == CondsOf(fam, chain[j]) IN Len(cs) >= 2 /\ ~HasDup(cs)
\* the C compiler's view: labels are integer constant expressions, all distinct
WellFormed(fam, chain) == LET cs == AllConds(fam, chain) IN ~HasDup([i \in DOMAIN cs |-> cs[i][2]])
SwitchImplRow(fam, chain) ==
  LET isw == IsSwitch(fam, chain)
      wf  == WellFormed(fam, chain)
  IN [x \in Subjects |-> IF ~isw THEN Sequential(chain, x)
                         ELSE IF ~wf THEN -1                 \* not a C program
                         ELSE Sequential(chain, x)]          \* labels distinct: at most one arm holds x

---------------------------------------------------------------------------
(* bool: boolean combinations of tests of one C-integer subject.                                    *)
(* Subject families (the 8-bit image of the subject type; C-typed literals = what Cython types as   *)
(* a C integer: IntNodes within signed 32 bit, single characters):                                  *)
(*   int   int / long: image -128..127; every C-typed literal is in range                           *)
(*   uchar unsigned char (not scaled): 0..255, promoted to int in C: literals 353 and -1 are        *)
(*         C-typed, out of range and harmless                                                       *)
(*   uint  unsigned int / enum: image 0..255 of 0..2**32-1 (128..255 stand for 2**32-128..2**32-1); *)
(*         C-typed literals are -128..127 (signed 32 bit): -1 is out of range, and a `case -1L:`    *)
(*         label is converted to the promoted type of the subject, i.e. wraps to 255                *)
(*   ucs4  Py_UCS4: characters 0..255; the out-of-range literal is a 2-character string             *)
(* WIDE = a literal that Cython types as a Python object (>= 2**32; the string "ab" for ucs4).      *)
(* bhi: a Python int subject above bhi (or below 0) makes `x in b".."` raise ValueError.            *)
WIDE == 1000
FamRec == [int   |-> [lo |-> -128, hi |-> 127, bhi |-> 127, clo |-> -128, chi |-> 127, wrap |-> FALSE],
           uchar |-> [lo |-> 0,    hi |-> 255, bhi |-> 255, clo |-> -500, chi |-> 500, wrap |-> FALSE],
           uint  |-> [lo |-> 0,    hi |-> 255, bhi |-> 127, clo |-> -128, chi |-> 127, wrap |-> TRUE],
           ucs4  |-> [lo |-> 0,    hi |-> 255, bhi |-> 255, clo |-> 0,    chi |-> 255, wrap |-> FALSE]]
Fams == {"int", "uchar", "uint", "ucs4"}
Dom(f) == FamRec[f].lo..FamRec[f].hi

(* leaves: [op, kind, ls]: x ==/!= l (kind "lit"), x in/not in (l1, ..) ("tuple"), x in/not in b".." / ".." ("str") *)
Lf(op, kind, ls) == [op |-> op, kind |-> kind, ls |-> ls]
Odd(f) == CASE f = "uchar" -> 353 [] f = "ucs4" -> 233 [] OTHER -> -1
Extra(f) == CASE f = "uint" -> Lf("==", "lit", <<255>>)            \* in range, but a Python object for Cython (4294967295)
              [] f = "uchar" -> Lf("in", "str", <<97, 233>>)
              [] f = "int" -> Lf("!=", "lit", <<-128>>)
              [] OTHER -> Lf("in", "str", <<>>)
\* ordered by importance: the smaller pools are prefixes
LeafSeq(f) == << Lf("==", "lit", <<97>>), Lf("in", "tuple", <<98, 99>>), Lf("!=", "lit", <<98>>), Lf("notin", "tuple", <<100, Odd(f)>>),
                 Lf("==", "lit", <<Odd(f)>>), Lf("in", "str", <<100, 101>>), Lf("!=", "lit", <<97>>), Lf("notin", "str", <<98, 99>>),
                 Lf("==", "lit", <<WIDE>>), Lf("!=", "lit", <<Odd(f)>>), Lf("==", "lit", <<98>>), Lf("in", "tuple", <<101, Odd(f)>>),
                 Lf("in", "str", <<97>>), Lf("in", "tuple", <<97, 97>>), Lf("notin", "tuple", <<99>>), Lf("in", "tuple", <<98, WIDE>>), Extra(f) >>
Pn(f, n) == {LeafSeq(f)[i] : i \in 1..n}
N2 == IF BoolSize = "q" THEN 10 ELSE 17       \* pool of the forms with two leaves
N3 == IF BoolSize = "q" THEN 5 ELSE 9         \* three leaves
\* four leaves: four equality-type leaves with pairwise different literals (a full merge exists), thorough: two more
P4(f) == {LeafSeq(f)[i] : i \in IF BoolSize = "q" THEN {1, 2, 5, 6} ELSE 1..6}
NS == IF BoolSize = "q" THEN 7 ELSE 12        \* if/elif chains: conditions that are one leaf
NB == IF BoolSize = "q" THEN 3 ELSE 6         \* if/elif chains: conditions `leaf op leaf`

(* expressions of depth <= 2: root [k: "and" | "or" | "not" | "id", l, r], child [k: "leaf" | "not" | "and" | "or", a, b] *)
ChLeaf(a) == [k |-> "leaf", a |-> a, b |-> a]
ChNot(a) == [k |-> "not", a |-> a, b |-> a]
ChBin(o, a, b) == [k |-> o, a |-> a, b |-> b]
Ex(k, l, r) == [k |-> k, l |-> l, r |-> r]
BinOps == {"and", "or"}
Exprs2(f) == LET P == Pn(f, N2) IN
       {Ex(o, ChLeaf(a), ChLeaf(b)) : o \in BinOps, a \in P, b \in P}
  \cup {Ex("not", ChBin(o, a, b), ChBin(o, a, b)) : o \in BinOps, a \in P, b \in P}
  \cup {Ex(o, ChNot(a), ChLeaf(b)) : o \in BinOps, a \in P, b \in P}
  \cup {Ex(o, ChLeaf(a), ChNot(b)) : o \in BinOps, a \in P, b \in P}
  \cup {Ex(o, ChNot(a), ChNot(b)) : o \in BinOps, a \in P, b \in P}
Exprs3(f) == LET P == Pn(f, N3) IN
       {Ex(o, ChBin(o2, a, b), ChLeaf(d)) : o \in BinOps, o2 \in BinOps, a \in P, b \in P, d \in P}
  \cup {Ex(o, ChLeaf(d), ChBin(o2, a, b)) : o \in BinOps, o2 \in BinOps, a \in P, b \in P, d \in P}
  \cup {Ex(o, ChBin(o2, a, b), ChNot(d)) : o \in BinOps, o2 \in BinOps, a \in P, b \in P, d \in P}
  \cup {Ex(o, ChNot(d), ChBin(o2, a, b)) : o \in BinOps, o2 \in BinOps, a \in P, b \in P, d \in P}
Exprs4(f) == LET P == P4(f) IN
       {Ex(o, ChBin(o2, a, b), ChBin(o3, d, e)) : o \in BinOps, o2 \in BinOps, o3 \in BinOps, a \in P, b \in P, d \in P, e \in P}
Exprs(f) == Exprs2(f) \cup Exprs3(f) \cup Exprs4(f)
Simple(f, ns, nb) == {Ex("id", ChLeaf(a), ChLeaf(a)) : a \in Pn(f, ns)}
                \cup {Ex("id", ChBin(o, a, b), ChBin(o, a, b)) : o \in BinOps, a \in Pn(f, nb), b \in Pn(f, nb)}

(* ---- reference: for every expression the set t of subject values that make it true and the set r of those *)
(*      for which its evaluation raises (Python's and / or / not: left to right, short-circuit)              *)
LeafNeg(lf) == lf.op \in {"!=", "notin"}
LeafRaise(f, lf) == IF lf.kind = "str" /\ f # "ucs4" THEN Dom(f) \ (0..FamRec[f].bhi) ELSE {}
TRLeaf(f, lf) == LET hit == Range(lf.ls) \cap Dom(f)
                 IN [t |-> (IF LeafNeg(lf) THEN Dom(f) \ hit ELSE hit) \ LeafRaise(f, lf), r |-> LeafRaise(f, lf)]
TRNot(f, a) == [t |-> Dom(f) \ (a.t \cup a.r), r |-> a.r]
TRBin(f, o, a, b) == IF o = "and" THEN [t |-> a.t \cap b.t, r |-> a.r \cup (a.t \cap b.r)]
                     ELSE LET fa == Dom(f) \ (a.t \cup a.r) IN [t |-> a.t \cup (fa \cap b.t), r |-> a.r \cup (fa \cap b.r)]
TRChild(f, ch) == CASE ch.k = "leaf" -> TRLeaf(f, ch.a) [] ch.k = "not" -> TRNot(f, TRLeaf(f, ch.a))
                    [] OTHER -> TRBin(f, ch.k, TRLeaf(f, ch.a), TRLeaf(f, ch.b))
TRExpr(f, e) == CASE e.k = "id" -> TRChild(f, e.l) [] e.k = "not" -> TRNot(f, TRChild(f, e.l))
                  [] OTHER -> TRBin(f, e.k, TRChild(f, e.l), TRChild(f, e.r))
\* an if/elif chain: branch j gets the values for which the conditions before it were false and its own is true
RECURSIVE Rows(_, _)
Rows(trs, alive) == IF trs = <<>> THEN <<>>
                    ELSE LET h == Head(trs) IN <<[t |-> alive \cap h.t, r |-> alive \cap h.r]>> \o Rows(Tail(trs), alive \ (h.t \cup h.r))
RefRows(f, conds) == Rows([j \in DOMAIN conds |-> TRExpr(f, conds[j])], Dom(f))
AllR(rows) == UNION {rows[j].r : j \in DOMAIN rows}

(* ---- implementation-shaped: SwitchTransform.  An extraction result is NoM (NO_MATCH) or M(not_in, conditions). *)
NoM == [ok |-> FALSE, ni |-> FALSE, cs |-> <<>>]
M(ni, cs) == [ok |-> TRUE, ni |-> ni, cs |-> cs]
CT(f, v) == v >= FamRec[f].clo /\ v <= FamRec[f].chi
\* extract_conditions on a PrimaryCmpNode, or on the or / and chain that FlattenInListTransform made of a tuple:
\* `!=` and `not in` only where allow_not_in; a comparison with a Python object literal does not match;
\* a string literal gives the sorted set of its characters (extract_in_string_conditions)
XLeaf(f, lf, allow) ==
  IF lf.kind = "str" THEN (IF LeafNeg(lf) /\ ~allow THEN NoM ELSE M(LeafNeg(lf), Sorted(Range(lf.ls))))
  ELSE IF (\E j \in DOMAIN lf.ls : ~CT(f, lf.ls[j])) \/ (LeafNeg(lf) /\ ~allow) THEN NoM
  ELSE M(LeafNeg(lf), lf.ls)
\* BoolBinopNode: `or` always, `and` only where allow_not_in; the operands are extracted with allow_not_in = (operator
\* is `and`); they must agree on not_in, and (e6ec21370) `or` merges equality tests only, `and` inequality tests only
MergeOK(ni, a2) == IF AndMerge = "fixed" THEN ni = a2 ELSE (~ni) \/ a2
Merge(r1, r2, a2) == IF r1.ok /\ r2.ok /\ r1.ni = r2.ni /\ MergeOK(r1.ni, a2) THEN M(r1.ni, r1.cs \o r2.cs) ELSE NoM
\* ConstantFolding._handle_NotNode runs first: `not (x in c)` is rewritten to `x not in c` and vice versa (not so == / !=)
Flip(lf) == [lf EXCEPT !.op = IF lf.op = "in" THEN "notin" ELSE "in"]
Fold(ch) == IF ch.k = "not" /\ ch.a.op \in {"in", "notin"} THEN ChLeaf(Flip(ch.a)) ELSE ch
XChildN(f, ch, allow) == CASE ch.k = "leaf" -> XLeaf(f, ch.a, allow) [] ch.k = "not" -> NoM
                          [] OTHER -> IF ch.k = "or" \/ allow
                                      THEN Merge(XLeaf(f, ch.a, ch.k = "and"), XLeaf(f, ch.b, ch.k = "and"), ch.k = "and") ELSE NoM
XChild(f, ch, allow) == XChildN(f, Fold(ch), allow)
XExpr(f, e, allow) == CASE e.k = "id" -> XChild(f, e.l, allow) [] e.k = "not" -> NoM
                        [] OTHER -> IF e.k = "or" \/ allow
                                    THEN Merge(XChild(f, e.l, e.k = "and"), XChild(f, e.r, e.k = "and"), e.k = "and") ELSE NoM
\* extract_common_conditions + the callers' tests: two or more conditions, no duplicate constant_result
Sw(r) == r.ok /\ Len(r.cs) >= 2 /\ ~HasDup(r.cs)
\* the C switch: a label is converted to the promoted type of the subject
Conv(f, v) == IF FamRec[f].wrap /\ v < 0 THEN v + 256 ELSE v
LabSet(f, cs) == {Conv(f, cs[j]) : j \in DOMAIN cs} \cap Dom(f)
SwSet(f, r) == IF r.ni THEN Dom(f) \ LabSet(f, r.cs) ELSE LabSet(f, r.cs)
\* code without a switch: C comparisons are exact (the literal is a long); x in b".." is __Pyx_BytesContains((char) x)
PlainLeaf(f, lf) == LET hit == IF lf.kind = "str" /\ f # "ucs4"
                               THEN {v + d : v \in Range(lf.ls), d \in {-256, 0, 256}} \cap Dom(f)     \* (char) x == (char) v
                               ELSE Range(lf.ls) \cap Dom(f)
                    IN IF LeafNeg(lf) THEN Dom(f) \ hit ELSE hit
Comb(f, o, a, b) == IF o = "and" THEN a \cap b ELSE a \cup b
\* visit_BoolBinopNode / visit_PrimaryCmpNode / visit_CondExprNode (allow_not_in = True): the node becomes a switch,
\* or its children are visited (on = optimize.use_switch)
ImplLeaf(f, lf, on) == IF on /\ Sw(XLeaf(f, lf, TRUE)) THEN SwSet(f, XLeaf(f, lf, TRUE)) ELSE PlainLeaf(f, lf)
ImplChildN(f, ch, on) == CASE ch.k = "leaf" -> ImplLeaf(f, ch.a, on) [] ch.k = "not" -> Dom(f) \ ImplLeaf(f, ch.a, on)
                          [] OTHER -> IF on /\ Sw(XChild(f, ch, TRUE)) THEN SwSet(f, XChild(f, ch, TRUE))
                                      ELSE Comb(f, ch.k, ImplLeaf(f, ch.a, on), ImplLeaf(f, ch.b, on))
ImplChild(f, ch, on) == ImplChildN(f, Fold(ch), on)
ImplExpr(f, e, on) == CASE e.k = "id" -> ImplChild(f, e.l, on) [] e.k = "not" -> Dom(f) \ ImplChild(f, e.l, on)
                        [] OTHER -> IF on /\ Sw(XExpr(f, e, TRUE)) THEN SwSet(f, XExpr(f, e, TRUE))
                                    ELSE Comb(f, e.k, ImplChild(f, e.l, on), ImplChild(f, e.r, on))
AnyLeaf(f, lf) == Sw(XLeaf(f, lf, TRUE))
AnyChild(f, ch) == (ch.k \in BinOps /\ Sw(XChild(f, ch, TRUE))) \/ AnyLeaf(f, Fold(ch).a) \/ AnyLeaf(f, Fold(ch).b)
TopExpr(f, e) == CASE e.k = "id" -> (IF e.l.k = "leaf" THEN AnyLeaf(f, e.l.a) ELSE e.l.k \in BinOps /\ Sw(XChild(f, e.l, TRUE)))
                   [] e.k = "not" -> FALSE [] OTHER -> Sw(XExpr(f, e, TRUE))
AnyExpr(f, e) == TopExpr(f, e) \/ AnyChild(f, e.l) \/ AnyChild(f, e.r)
\* visit_IfStatNode: every condition is extracted with allow_not_in = False; all conditions together: two or more, no duplicates
RECURSIVE CatCs(_)
CatCs(xs) == IF xs = <<>> THEN <<>> ELSE Head(xs).cs \o CatCs(Tail(xs))
IfX(f, conds) == [j \in DOMAIN conds |-> XExpr(f, conds[j], FALSE)]
IfSw(f, conds) == (\A j \in DOMAIN conds : IfX(f, conds)[j].ok) /\ Len(CatCs(IfX(f, conds))) >= 2 /\ ~HasDup(CatCs(IfX(f, conds)))
ImplRows(f, ctx, conds, on) ==
  IF ctx = "stmt" /\ on /\ IfSw(f, conds)
  THEN Rows([j \in DOMAIN conds |-> [t |-> LabSet(f, IfX(f, conds)[j].cs), r |-> {}]], Dom(f))
  ELSE Rows([j \in DOMAIN conds |-> [t |-> ImplExpr(f, conds[j], on), r |-> {}]], Dom(f))
TopSw(f, ctx, conds) == IF ctx = "stmt" THEN IfSw(f, conds) ELSE TopExpr(f, conds[1])
AnySw(f, ctx, conds) == (ctx = "stmt" /\ IfSw(f, conds)) \/ \E j \in DOMAIN conds : AnyExpr(f, conds[j])
\* where the generated code selects another branch than the reference (subject values for which the reference raises aside)
SymDiff(a, b) == (a \ b) \cup (b \ a)
Hazard(ref, impl) == UNION {SymDiff(ref[j].t, impl[j].t) : j \in DOMAIN ref} \ AllR(ref)
\* the literals of a case, and the subject values that a negative C-typed label wraps to
LeafLits(lf) == Range(lf.ls)
ChildLits(ch) == LeafLits(ch.a) \cup LeafLits(ch.b)
CaseLits(conds) == UNION {ChildLits(conds[j].l) \cup ChildLits(conds[j].r) : j \in DOMAIN conds}
WrapPts(f, conds) == IF FamRec[f].wrap THEN {v + 256 : v \in {w \in CaseLits(conds) : w < 0 /\ CT(f, w)}} ELSE {}
\* a set of integers as maximal intervals (for publication)
Iv(S) == [s |-> {x \in S : (x - 1) \notin S}, e |-> {x \in S : (x + 1) \notin S}]

---------------------------------------------------------------------------
VARIABLES c, pc, k, log, out
vars == <<c, pc, k, log, out>>

\* one initial state per (shape, value tuple); a shape is a record with a field `part`
InitShape(s) ==
  IF s.part = "chain" THEN \E vs \in Prod(s.doms) : c = [part |-> "chain", id |-> s.id, ops |-> s.ops, vals |-> vs]
  ELSE IF s.part = "pair" THEN \E a \in Range(s.adom) : \E b \in Range(s.bdom) :
                 c = [part |-> "pair", id |-> s.id, op |-> s.op, a |-> a, b |-> b]
  ELSE IF s.part = "member" THEN \E x \in Range(s.xdom) : \E ms \in Prod(s.mdoms) :
                 c = [part |-> "member", id |-> s.id, kind |-> s.kind, neg |-> s.neg, x |-> x, ms |-> ms]
  ELSE \E i \in DOMAIN s.xdom :
                 c = [part |-> "strin", id |-> s.id, kind |-> s.kind, neg |-> s.neg, x |-> s.xdom[i], cs |-> s.cs, cint |-> s.cint, sty |-> s.sty]
InitSwitch == \E fam \in {"bytes", "ustr"} : \E ch \in Chains : \E e \in BOOLEAN :
                 c = [part |-> "switch", fam |-> fam, arms |-> ch, els |-> e]

\* bool: every expression as an expression case; as if/elif chains: one condition (the two-leaf forms), two simple
\* conditions, and (thorough) three simple conditions
BoolCase(f, ctx, conds) == [part |-> "bool", fam |-> f, ctx |-> ctx, conds |-> conds]
InitBool == \E f \in Fams :
              \/ \E e \in Exprs(f) : c = BoolCase(f, "expr", <<e>>)
              \/ \E e \in Exprs2(f) : c = BoolCase(f, "stmt", <<e>>)
              \/ \E e1 \in Simple(f, NS, NB) : \E e2 \in Simple(f, NS, NB) : c = BoolCase(f, "stmt", <<e1, e2>>)
              \/ /\ BoolSize = "t"
                 /\ \E e1 \in Simple(f, 5, 3) : \E e2 \in Simple(f, 5, 3) : \E e3 \in Simple(f, 5, 3) : c = BoolCase(f, "stmt", <<e1, e2, e3>>)

Init == /\ IF Part = "switch" THEN InitSwitch ELSE IF Part = "bool" THEN InitBool ELSE \E i \in DOMAIN Shapes : InitShape(Shapes[i])
        /\ IF c.part = "chain" THEN pc = "links" /\ k = 1 /\ log = <<0>>
                               ELSE pc = "start" /\ k = 0 /\ log = <<>>
        /\ out = "pending"

(* ---- chain machine: k = number of operands evaluated so far (the first operand is   *)
(*      evaluated in the initial state: log = <<0>>, k = 1) ---- *)
\* evaluate operand k+1, then link k
ChainStep(r) == /\ k' = k + 1 /\ log' = Append(log, k) /\ UNCHANGED c
                /\ IF Truthy(r) /\ k < Len(c.ops) THEN pc' = "links" /\ out' = out
                   ELSE pc' = "done" /\ out' = r
ChainContinue == /\ c.part = "chain" /\ pc = "links" /\ LET r == Link(c.ops, c.vals, k) IN
                    Truthy(r) /\ k < Len(c.ops) /\ ChainStep(r)
ChainLast == /\ c.part = "chain" /\ pc = "links" /\ LET r == Link(c.ops, c.vals, k) IN
                    Truthy(r) /\ k = Len(c.ops) /\ ChainStep(r)
ChainStopFalse == /\ c.part = "chain" /\ pc = "links" /\ LET r == Link(c.ops, c.vals, k) IN
                    ~Truthy(r) /\ r \notin Excs /\ ChainStep(r)
ChainRaise == /\ c.part = "chain" /\ pc = "links" /\ LET r == Link(c.ops, c.vals, k) IN
                    r \in Excs /\ ChainStep(r)

(* ---- member machine: all operands left to right, hash (set/dict), then the scan: the   *)
(*      first member that is the same object as x or equal to it decides ---- *)
Hit(j) == c.ms[j] = c.x \/ Truthy(Rich(c.ms[j], "==", c.x))
FirstHit == LET S == {j \in DOMAIN c.ms : Hit(j)} IN IF S = {} THEN 0 ELSE CHOOSE j \in S : \A i \in S : j <= i
Unhashable == c.kind \in HashKinds /\ c.x = "U"
MemberOperands == /\ c.part = "member" /\ pc = "start"
                  /\ pc' = "scan" /\ log' = [i \in 1..(Len(c.ms) + 1) |-> i - 1] /\ UNCHANGED <<c, k, out>>
MemberHashFail == /\ c.part = "member" /\ pc = "scan" /\ Unhashable
                  /\ pc' = "done" /\ out' = "E:TypeError" /\ UNCHANGED <<c, k, log>>
MemberHitIdentity == /\ c.part = "member" /\ pc = "scan" /\ ~Unhashable /\ FirstHit # 0 /\ c.ms[FirstHit] = c.x
                     /\ pc' = "done" /\ k' = FirstHit /\ out' = B(~c.neg) /\ UNCHANGED <<c, log>>
MemberHitEqual == /\ c.part = "member" /\ pc = "scan" /\ ~Unhashable /\ FirstHit # 0 /\ c.ms[FirstHit] # c.x
                  /\ pc' = "done" /\ k' = FirstHit /\ out' = B(~c.neg) /\ UNCHANGED <<c, log>>
MemberExhausted == /\ c.part = "member" /\ pc = "scan" /\ ~Unhashable /\ FirstHit = 0
                   /\ pc' = "done" /\ out' = B(c.neg) /\ UNCHANGED <<c, k, log>>

(* ---- strin, switch: one deciding step ---- *)
StrinDecide == /\ c.part = "strin" /\ pc = "start"
               /\ pc' = "done" /\ out' = StrinRef(c.kind, c.neg, c.x, c.cs) /\ log' = <<0>> /\ UNCHANGED <<c, k>>
PairDecide == /\ c.part = "pair" /\ pc = "start"
              /\ pc' = "done" /\ out' = Rich2(c.a, c.op, c.b) /\ log' = <<0, 1>> /\ UNCHANGED <<c, k>>
SwitchDecide == /\ c.part = "switch" /\ pc = "start"
                /\ pc' = "done" /\ out' = [x \in Subjects |-> Sequential(c.arms, x)] /\ UNCHANGED <<c, k, log>>

\* bool: the reference rows, and next to them what the transcribed SwitchTransform makes of the case
BoolDecide == /\ c.part = "bool" /\ pc = "start"
              /\ pc' = "done" /\ UNCHANGED <<c, k, log>>
              /\ out' = LET ref == RefRows(c.fam, c.conds)
                            on  == ImplRows(c.fam, c.ctx, c.conds, TRUE)
                            off == ImplRows(c.fam, c.ctx, c.conds, FALSE)
                        IN [ref |-> ref, on |-> on, off |-> off, hz |-> Hazard(ref, on), hzoff |-> Hazard(ref, off)]

Done == pc = "done" /\ UNCHANGED vars

Next == \/ ChainContinue \/ ChainLast \/ ChainStopFalse \/ ChainRaise
        \/ MemberOperands \/ MemberHashFail \/ MemberHitIdentity \/ MemberHitEqual \/ MemberExhausted
        \/ PairDecide \/ StrinDecide \/ SwitchDecide \/ BoolDecide \/ Done
Spec == Init /\ [][Next]_vars

---------------------------------------------------------------------------
(* invariants *)
\* every operand at most once, left to right: the log is 0, 1, 2, ... without gaps
LogInOrder == \A i \in DOMAIN log : log[i] = i - 1

ChainOK == (c.part = "chain" /\ pc = "done") =>
             LET r == ChainRef(c.ops, c.vals) IN
             /\ out = r.out /\ Len(log) = r.n /\ out \in Results
             \* nothing is evaluated beyond the first link that is not true
             /\ \A j \in 1..(Len(log) - 2) : Truthy(Link(c.ops, c.vals, j))
             \* a chain that ran to its end returns the last link; a stopped one a falsy value or an exception
             /\ (Len(log) <= Len(c.ops) => ~Truthy(out))
\* a negated chain of one link is the negation (in/not in, is/is not, ==/!= on values with consistent methods)
ChainDuals == (c.part = "chain" /\ pc = "done" /\ Len(c.ops) = 1) =>
             LET a == c.vals[1] b == c.vals[2] IN
             /\ Cmp(a, "notin", b) = Not(Cmp(a, "in", b))
             /\ Cmp(a, "isnot", b) = Not(Cmp(a, "is", b))
             /\ (a # "W" /\ b # "W" => Cmp(a, "!=", b) = Not(Cmp(a, "==", b)))

\* laws of a total preorder with a separate "unordered" class (nan) -- they tie the six operators together
PairOK == (c.part = "pair" /\ pc = "done") =>
             LET a == c.a b == c.b R(o) == Rich2(a, o, b) IN
             /\ c.a \in PairTokens /\ c.b \in PairTokens /\ out \in Results
             /\ (a # "W" /\ b # "W") =>
                  /\ R("!=") = Not(R("=="))
                  /\ Rich2(b, Swap(c.op), a) = out                                  \* reflection
                  /\ (R("<") \in Excs <=> R(">=") \in Excs) /\ (R("<") \in Excs <=> R("<=") \in Excs) /\ (R("<") \in Excs <=> R(">") \in Excs)
                  /\ (R("<") \notin Excs /\ a # "nan" /\ b # "nan") =>
                        /\ Cardinality({o \in {"<", "==", ">"} : R(o) = "True"}) = 1   \* trichotomy
                        /\ R("<=") = Not(R(">")) /\ R(">=") = Not(R("<"))
                  /\ (a = b /\ a # "nan") => R("==") = "True"

MemberOK == (c.part = "member" /\ pc = "done") =>
             /\ out = MemberRef(c.kind, c.neg, c.x, c.ms)
             /\ Len(log) = Len(c.ms) + 1
             /\ FlattenLog(c.kind, c.ms, TRUE) = log          \* the flattened form evaluates in source order
\* FlattenInListTransform differs from the reference in one predicted way only: a set display is not hashed
MemberHazard == MemberImpl(c.kind, c.neg, c.x, c.ms) # MemberRef(c.kind, c.neg, c.x, c.ms)
FlattenOffHazards == (c.part = "member" /\ pc = "done") =>
             /\ (MemberHazard => (FlattenApplies(c.kind, c.ms) /\ MemberWhy(c.kind, c.x, c.ms) = "unhashable"))
             /\ (IdentityOnly(c.x, c.ms) /\ ~Unhashable => MemberImpl(c.kind, c.neg, c.x, c.ms) = B(~c.neg))
FlattenStrict == (c.part = "member" /\ pc = "done") => ~MemberHazard

StrinHazard == c.cint /\ c.kind = "bytes" /\ c.x.k = "int" /\ BytesImplCInt(c.sty, c.neg, c.x.v, c.cs) # out
StrinOK == (c.part = "strin" /\ pc = "done") =>
             /\ out \in Results
             \* the C paths are exact on all byte values; outside range(256) they answer instead of raising
             /\ (StrinHazard => (c.x.v \notin 0..255 /\ out = "E:ValueError"))
StrinStrict == (c.part = "strin" /\ pc = "done") => ~StrinHazard

SwitchHazard == SwitchImplRow(c.fam, c.arms) # [x \in Subjects |-> Sequential(c.arms, x)]
SwitchOK == (c.part = "switch" /\ pc = "done") =>
             /\ \A x \in Subjects : out[x] \in 0..Len(c.arms)
             /\ \A x \in Subjects : out[x] # 0 => Matches(c.arms[out[x]], x) /\ \A j \in 1..(out[x] - 1) : ~Matches(c.arms[j], x)
             \* a switch is only built from pairwise different keys, and different keys are different C values
             /\ (IsSwitch(c.fam, c.arms) => WellFormed(c.fam, c.arms))
             /\ ~SwitchHazard
             /\ (Mixed(c.fam, c.arms) => ~IsSwitch(c.fam, c.arms))

BoolDone == c.part = "bool" /\ pc = "done"
\* the reference rows partition a part of the subject type; a value is in at most one of: a branch, "raises"
BoolRefOK == BoolDone =>
             \A j \in DOMAIN out.ref :
                /\ (out.ref[j].t \cup out.ref[j].r) \subseteq Dom(c.fam) /\ out.ref[j].t \cap out.ref[j].r = {}
                /\ \A i \in 1..(j - 1) : (out.ref[i].t \cup out.ref[i].r) \cap (out.ref[j].t \cup out.ref[j].r) = {}
                /\ (c.fam = "ucs4" \/ c.fam = "uchar" => out.ref[j].r = {})
\* SwitchSound: wherever SwitchTransform applies, the switch has the truth table of the expression over the whole
\* subject type -- except for a negative label on an unsigned subject of int rank (it wraps); without switches the
\* code is exact wherever the reference does not raise
SwitchSound == BoolDone =>
             /\ out.hz \subseteq WrapPts(c.fam, c.conds)
             /\ (out.hz # {} => AnySw(c.fam, c.ctx, c.conds))
             /\ out.hzoff = {}
BoolStrict == BoolDone => out.hz = {}

(* publication of the final states *)
Publish == pc = "done" =>
   CASE c.part = "chain"  -> PrintT("@@" \o ToJson([p |-> "c", id |-> c.id, vals |-> c.vals, out |-> out, n |-> Len(log)]))
     [] c.part = "pair"   -> PrintT("@@" \o ToJson([p |-> "p", id |-> c.id, a |-> c.a, b |-> c.b, out |-> out]))
     [] c.part = "member" -> PrintT("@@" \o ToJson([p |-> "m", id |-> c.id, x |-> c.x, ms |-> c.ms, out |-> out, n |-> Len(log),
                                                   hz |-> MemberHazard, why |-> MemberWhy(c.kind, c.x, c.ms),
                                                   ilog |-> FlattenLog(c.kind, c.ms, TRUE),
                                                   impl |-> MemberImpl(c.kind, c.neg, c.x, c.ms)]))
     [] c.part = "strin"  -> PrintT("@@" \o ToJson([p |-> "s", id |-> c.id, x |-> c.x, out |-> out, hz |-> StrinHazard,
                                                   impl |-> IF c.cint /\ c.kind = "bytes" /\ c.x.k = "int" THEN BytesImplCInt(c.sty, c.neg, c.x.v, c.cs) ELSE out]))
     [] c.part = "switch" -> PrintT("@@" \o ToJson([p |-> "w", fam |-> c.fam, arms |-> c.arms, els |-> c.els, row |-> out,
                                                   sw |-> IsSwitch(c.fam, c.arms), anysw |-> AnySwitch(c.fam, c.arms), hz |-> SwitchHazard,
                                                   mix |-> Mixed(c.fam, c.arms)]))
     [] c.part = "bool"   -> PrintT("@@" \o ToJson([p |-> "b", fam |-> c.fam, ctx |-> c.ctx, conds |-> c.conds,
                                                   rows |-> [j \in DOMAIN out.ref |-> Iv(out.ref[j].t)], rz |-> Iv(AllR(out.ref)),
                                                   on |-> [j \in DOMAIN out.on |-> Iv(out.on[j].t)], off |-> [j \in DOMAIN out.off |-> Iv(out.off[j].t)],
                                                   hz |-> Iv(out.hz), top |-> TopSw(c.fam, c.ctx, c.conds), any |-> AnySw(c.fam, c.ctx, c.conds)]))
=============================================================================
